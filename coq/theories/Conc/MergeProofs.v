(* C12 — proofs about the LTS models of Conc/Merge.v.  Statements are collected in Properties/C12.v. *)
From Coq Require Import Permutation.
From Juniper Require Import Common.Base Conc.GoLTS Conc.Merge.
Local Open Scope nat_scope.

(* ------------------------------------------------------------------ list helpers *)
Lemma nth_error_nth_len {A} (l : list A) k x d : nth_error l k = Some x -> nth k l d = x /\ k < length l.
Proof.
  intros H. split; [apply nth_error_nth; exact H|]. apply nth_error_Some. congruence.
Qed.

Lemma nth_error_of_nth {A} (l : list A) k d : k < length l -> nth_error l k = Some (nth k l d).
Proof. intros H. apply nth_error_nth'. exact H. Qed.

Lemma nth_upd_same {A} (l : list A) k x d : k < length l -> nth k (upd l k x) d = x.
Proof.
  intros H. apply nth_error_nth. apply nth_error_upd_same. exact H.
Qed.

Lemma nth_upd_other {A} (l : list A) k k' x d : k <> k' -> nth k' (upd l k x) d = nth k' l d.
Proof.
  intros H. destruct (Nat.lt_ge_cases k' (length l)) as [Hl|Hl].
  - apply nth_error_nth. rewrite nth_error_upd_other by exact H. apply nth_error_nth'. exact Hl.
  - rewrite !nth_overflow; [reflexivity| exact Hl | rewrite upd_length; exact Hl].
Qed.

Lemma snoc_at_length {A} (ll : list (list A)) k x : length (snoc_at ll k x) = length ll.
Proof. unfold snoc_at. destruct (nth_error ll k); [apply upd_length | reflexivity]. Qed.

Lemma nth_snoc_at_same {A} (ll : list (list A)) k x :
  k < length ll -> nth k (snoc_at ll k x) [] = nth k ll [] ++ [x].
Proof.
  intros H. unfold snoc_at. rewrite (nth_error_of_nth ll k [] H). apply nth_upd_same. exact H.
Qed.

Lemma nth_snoc_at_other {A} (ll : list (list A)) k k' x :
  k <> k' -> nth k' (snoc_at ll k x) [] = nth k' ll [].
Proof.
  intros H. unfold snoc_at. destruct (nth_error ll k); [apply nth_upd_other; exact H | reflexivity].
Qed.

Lemma nth_map_d {A B} (f : A -> B) l k d d' : k < length l -> nth k (map f l) d' = f (nth k l d).
Proof. intros H. rewrite (nth_indep _ d' (f d)) by (rewrite map_length; exact H). apply map_nth. Qed.

Lemma nth_repeat_d {A} (x : A) n k d : k < n -> nth k (repeat x n) d = x.
Proof. intros H. apply nth_error_nth. apply nth_error_repeat. exact H. Qed.

(* ------------------------------------------------------------------ xslices.RemoveUnordered(s, idx, 1) *)
Lemma remove_unordered_1 {A} (l : list A) pos k :
  nth_error l pos = Some k ->
  (exists a, l = a ++ [k] /\ length a = pos /\ remove_unordered l pos 1 = a)
  \/ (exists a b z, l = a ++ [k] ++ b ++ [z] /\ length a = pos /\ remove_unordered l pos 1 = a ++ [z] ++ b).
Proof.
  intros H. destruct (nth_error_split l pos H) as (a & r & Hl & Ha).
  destruct r as [|r0 r1].
  - left. exists a. subst l. split; [reflexivity|]. split; [exact Ha|].
    unfold remove_unordered, copy_at. rewrite app_length. simpl length.
    replace (length a + 1 - 1) with (length a) by lia.
    rewrite Ha. replace (Nat.max pos (pos + 1)) with (pos + 1) by lia.
    rewrite skipn_all2 by (rewrite app_length; simpl; lia).
    simpl. rewrite Nat.min_0_r. simpl. rewrite Nat.add_0_r.
    rewrite firstn_skipn. subst pos. rewrite firstn_app, firstn_all, Nat.sub_diag. simpl. apply app_nil_r.
  - destruct (exists_last (l := r0 :: r1)) as (b & z & Hbz); [discriminate|].
    right. exists a, b, z. rewrite Hbz in Hl. subst l. split; [reflexivity|]. split; [exact Ha|].
    unfold remove_unordered, copy_at.
    assert (Hlen : length (a ++ k :: b ++ [z]) = pos + 2 + length b).
    { rewrite app_length. simpl. rewrite app_length. simpl. lia. }
    rewrite Hlen.
    replace (Nat.max (pos + 2 + length b - 1) (pos + 1)) with (pos + 1 + length b) by lia.
    replace (a ++ k :: b ++ [z]) with ((a ++ k :: b) ++ [z]) by (rewrite <- app_assoc; reflexivity).
    assert (Hlen2 : length (a ++ k :: b) = pos + 1 + length b) by (rewrite app_length; simpl; lia).
    rewrite skipn_app. rewrite skipn_all2 by lia. rewrite Hlen2, Nat.sub_diag. simpl skipn. simpl app at 1.
    simpl length. replace (Nat.min (pos + 2 + length b - pos) 1) with 1 by lia.
    simpl firstn at 2.
    rewrite <- app_assoc. simpl app.
    assert (E1 : firstn pos (a ++ k :: b ++ [z]) = a).
    { rewrite <- Ha. rewrite firstn_app, firstn_all, Nat.sub_diag. simpl. apply app_nil_r. }
    assert (E2 : skipn (pos + 1) (a ++ k :: b ++ [z]) = b ++ [z]).
    { replace (a ++ k :: b ++ [z]) with ((a ++ [k]) ++ b ++ [z]) by (rewrite <- app_assoc; reflexivity).
      assert (E : length (a ++ [k]) = pos + 1) by (rewrite app_length; simpl; lia).
      rewrite skipn_app, E, Nat.sub_diag. rewrite skipn_all2 by lia. reflexivity. }
    rewrite E1, E2.
    replace (a ++ z :: b ++ [z]) with ((a ++ z :: b) ++ [z]) by (rewrite <- app_assoc; reflexivity).
    assert (E3 : length (a ++ z :: b) = pos + 2 + length b - 1) by (rewrite app_length; simpl; lia).
    rewrite <- E3. rewrite firstn_app, firstn_all, Nat.sub_diag. simpl. apply app_nil_r.
Qed.

Lemma remove_unordered_1_spec (l : list nat) pos k :
  NoDup l -> nth_error l pos = Some k ->
  NoDup (remove_unordered l pos 1) /\
  (forall x, In x (remove_unordered l pos 1) <-> In x l /\ x <> k) /\
  length (remove_unordered l pos 1) = pred (length l).
Proof.
  intros Hnd H. destruct (remove_unordered_1 l pos k H) as [(a & Hl & _ & Hr)|(a & b & z & Hl & _ & Hr)];
    rewrite Hr; subst l.
  - apply NoDup_remove in Hnd. rewrite app_nil_r in Hnd. destruct Hnd as [Hnd Hnin].
    split; [exact Hnd|]. split.
    + intros x. rewrite in_app_iff. simpl. split.
      * intros Hx. split; [left; exact Hx|]. intros ->. contradiction.
      * intros [[Hx|[Hx|[]]] Hne]; [exact Hx | congruence].
    + rewrite app_length. simpl. lia.
  - assert (Hperm : Permutation (a ++ [k] ++ b ++ [z]) (k :: a ++ [z] ++ b)).
    { apply Permutation_sym. apply Permutation_cons_app.
      apply Permutation_app_head. simpl. apply Permutation_cons_append. }
    assert (Hnd2 : NoDup (k :: a ++ [z] ++ b)) by (eapply Permutation_NoDup; eauto).
    inversion Hnd2 as [|? ? Hnin Hnd3]; subst.
    split; [exact Hnd3|]. split.
    + intros x. split.
      * intros Hx. split.
        -- apply (Permutation_in x (Permutation_sym Hperm)). right. exact Hx.
        -- intros ->. contradiction.
      * intros [Hx Hne]. apply (Permutation_in x Hperm) in Hx. destruct Hx as [Hx|Hx]; [congruence|exact Hx].
    + repeat (rewrite app_length; simpl). lia.
Qed.

(* ================================================================================================ *)
(* chans.Merge / chans.Replicate *)
Module CMP.
Import CM.

Definition dch : chan := mkCh 0 [] false.
Definition chn (s : st) (k : nat) : chan := nth k (chs s) dch.
Definition ret_pc (p : lpc) : bool := match p with LRetp | LDone => true | _ => false end.
(* the value the call holds between receiving and sending it *)
Definition hand (s : st) : list (nat * Z) := match pc s with LHand k v _ => [(k, v)] | _ => [] end.
(* the sub-sequence of a tagged sequence that came from input k *)
Definition from (k : nat) (l : list (nat * Z)) : list Z := map snd (filter (fun p => Nat.eqb (fst p) k) l).
Definition out_seq (s : st) (j : nat) : list (nat * Z) := nth j (outs s) [].

Ltac inv_step Hs :=
  unfold step in Hs;
  repeat match type of Hs with
         | context [match ?x with _ => _ end] => destruct x eqn:?
         end;
  try discriminate Hs; inversion Hs; subst; clear Hs.

Definition frame (s s' : st) : Prop :=
  knd s' = knd s /\ nin s' = nin s /\ nout s' = nout s
  /\ length (prods s') = length (prods s) /\ length (conss s') = length (conss s)
  /\ length (chs s') = length (chs s) /\ length (produced s') = length (produced s)
  /\ length (gots s') = length (gots s) /\ length (seen_closed s') = length (seen_closed s)
  /\ length (outs s') = length (outs s) /\ length (taken s') = length (taken s)
  /\ length (live s') = length (live s).

Lemma frame_on_closed s pos k : frame s (on_closed s pos k).
Proof.
  unfold frame, on_closed. destruct (knd s) eqn:Ek; simpl; rewrite ?upd_length; repeat split; auto.
Qed.

Lemma frame_take_value s k v : frame s (take_value s k v).
Proof. unfold frame, take_value. simpl. rewrite ?snoc_at_length. repeat split; auto. Qed.

Lemma frame_trans s1 s2 s3 : frame s1 s2 -> frame s2 s3 -> frame s1 s3.
Proof. unfold frame. intuition congruence. Qed.

Lemma step_frame s l s' : step s l = Some s' -> frame s s'.
Proof.
  intros Hs. inv_step Hs;
    try (eapply frame_trans; [|apply frame_take_value]);
    try apply frame_on_closed;
    unfold frame; simpl; rewrite ?upd_length, ?snoc_at_length; repeat split; reflexivity.
Qed.

(* ---- what each label does (inversion lemmas) ---- *)
Lemma step_LCmd s k c s' : step s (LCmd k c) = Some s' ->
  exists p, nth_error (prods s) k = Some p /\ s' = with_prods s (upd (prods s) k (mkP (p_q p ++ [c]) (p_log p))).
Proof. intros Hs. inv_step Hs. eauto. Qed.

Lemma step_LPermit s j n s' : step s (LPermit j n) = Some s' ->
  exists c, nth_error (conss s) j = Some c /\ s' = with_conss s (upd (conss s) j (mkC (c_permits c + n) (c_hand c))).
Proof. intros Hs. inv_step Hs. eauto. Qed.

Lemma step_TProdBuf s k s' : step s (TProdBuf k) = Some s' ->
  exists v q c, nth_error (prods s) k = Some (mkP (CSend v :: q) PNone) /\ nth_error (chs s) k = Some c
    /\ closed c = false /\ length (buf c) < cap c
    /\ s' = with_produced (with_prods (with_chs s (upd (chs s) k (set_buf c (buf c ++ [v]))))
                                      (upd (prods s) k (mkP q (PSent v))))
                          (snoc_at (produced s) k v).
Proof.
  intros Hs. inv_step Hs.
  match goal with H : negb _ && _ = true |- _ => apply andb_prop in H; destruct H as [Hc Hl] end.
  apply negb_true_iff in Hc. apply Nat.ltb_lt in Hl. repeat eexists; eauto.
Qed.

Lemma step_TProdClose s k s' : step s (TProdClose k) = Some s' ->
  exists q c, nth_error (prods s) k = Some (mkP (CClose :: q) PNone) /\ nth_error (chs s) k = Some c
    /\ closed c = false
    /\ s' = with_prods (with_chs s (upd (chs s) k (mkCh (cap c) (buf c) true))) (upd (prods s) k (mkP q PClosed)).
Proof. intros Hs. inv_step Hs. repeat eexists; eauto. Qed.

Lemma step_LSent s k v s' : step s (LSent k v) = Some s' ->
  exists q, nth_error (prods s) k = Some (mkP q (PSent v)) /\ s' = with_prods s (upd (prods s) k (mkP q PNone)).
Proof.
  intros Hs. inv_step Hs. match goal with H : Z.eqb _ _ = true |- _ => apply Z.eqb_eq in H; subst end. eauto.
Qed.

Lemma step_LClosed s k s' : step s (LClosed k) = Some s' ->
  exists q, nth_error (prods s) k = Some (mkP q PClosed) /\ s' = with_prods s (upd (prods s) k (mkP q PNone)).
Proof. intros Hs. inv_step Hs. eauto. Qed.

Inductive recv_case (s : st) (pos : nat) (s' : st) : Prop :=
| RcValue k c v b :
    sel s pos = Some k -> nth_error (chs s) k = Some c -> buf c = v :: b ->
    s' = take_value (with_chs s (upd (chs s) k (set_buf c b))) k v -> recv_case s pos s'
| RcClosed k c :
    sel s pos = Some k -> nth_error (chs s) k = Some c -> buf c = [] -> closed c = true ->
    s' = on_closed s pos k -> recv_case s pos s'
| RcRendezvous k c v q :
    sel s pos = Some k -> nth_error (chs s) k = Some c -> buf c = [] -> closed c = false -> cap c = 0 ->
    nth_error (prods s) k = Some (mkP (CSend v :: q) PNone) ->
    s' = take_value (with_produced (with_prods s (upd (prods s) k (mkP q (PSent v)))) (snoc_at (produced s) k v)) k v ->
    recv_case s pos s'.

Lemma step_TLibRecv s pos s' : step s (TLibRecv pos) = Some s' -> pc s = LLoop /\ recv_case s pos s'.
Proof.
  intros Hs. unfold step in Hs.
  destruct (pc s) eqn:Epc; try discriminate Hs.
  destruct (sel s pos) as [k|] eqn:Esel; try discriminate Hs.
  destruct (nth_error (chs s) k) as [c|] eqn:Ec; try discriminate Hs.
  split; [reflexivity|].
  destruct (buf c) as [|v b] eqn:Eb.
  - destruct (closed c) eqn:Ecl.
    + inversion Hs; subst. eapply RcClosed; eauto.
    + destruct (cap c) eqn:Ecap; try discriminate Hs.
      destruct (nth_error (prods s) k) as [[q lg]|] eqn:Ep; try discriminate Hs.
      destruct q as [|[v|] q]; try discriminate Hs.
      destruct lg; try discriminate Hs.
      inversion Hs; subst. eapply RcRendezvous; eauto.
  - inversion Hs; subst. eapply RcValue; eauto.
Qed.

Inductive send_case (s : st) (s' : st) : Prop :=
| ScBuffer k v j c cn :
    pc s = LHand k v j -> nth_error (chs s) (nin s + j) = Some c -> nth_error (conss s) j = Some cn ->
    length (buf c) < cap c ->
    s' = with_pc (with_outs (with_chs s (upd (chs s) (nin s + j) (set_buf c (buf c ++ [v])))) (snoc_at (outs s) j (k, v)))
                 (hand_or_loop s k v (S j)) -> send_case s s'
| ScRendezvous k v j c p :
    pc s = LHand k v j -> nth_error (chs s) (nin s + j) = Some c -> nth_error (conss s) j = Some (mkC (S p) None) ->
    cap c = 0 ->
    s' = with_pc (with_taken (with_outs (with_conss s (upd (conss s) j (mkC p (Some v)))) (snoc_at (outs s) j (k, v)))
                             (snoc_at (taken s) j v))
                 (hand_or_loop s k v (S j)) -> send_case s s'.

Lemma step_TLibSend s s' : step s TLibSend = Some s' -> send_case s s'.
Proof.
  intros Hs. unfold step in Hs.
  destruct (pc s) as [| |k v j| |] eqn:Epc; try discriminate Hs.
  destruct (nth_error (chs s) (nin s + j)) as [c|] eqn:Ec; try discriminate Hs.
  destruct (nth_error (conss s) j) as [cn|] eqn:Ecn; try discriminate Hs.
  destruct (Nat.ltb (length (buf c)) (cap c)) eqn:El.
  - inversion Hs; subst. apply Nat.ltb_lt in El. eapply ScBuffer; eauto.
  - destruct (cap c) eqn:Ecap; try discriminate Hs.
    destruct cn as [pm hd]. simpl in Hs. destruct pm as [|pm]; try discriminate Hs.
    destruct hd; try discriminate Hs. inversion Hs; subst.
    exact (ScRendezvous s _ k v j c pm Epc Ec Ecn Ecap eq_refl).
Qed.

Lemma step_TConsTake s j s' : step s (TConsTake j) = Some s' ->
  exists p c v b, nth_error (conss s) j = Some (mkC (S p) None) /\ nth_error (chs s) (nin s + j) = Some c
    /\ buf c = v :: b
    /\ s' = with_taken (with_conss (with_chs s (upd (chs s) (nin s + j) (set_buf c b))) (upd (conss s) j (mkC p (Some v))))
                       (snoc_at (taken s) j v).
Proof. intros Hs. inv_step Hs. repeat eexists; eauto. Qed.

Lemma step_LRecvd s j v s' : step s (LRecvd j v) = Some s' ->
  exists p, nth_error (conss s) j = Some (mkC p (Some v)) /\ s' = with_conss s (upd (conss s) j (mkC p None)).
Proof.
  intros Hs. inv_step Hs. match goal with H : Z.eqb _ _ = true |- _ => apply Z.eqb_eq in H; subst end. eauto.
Qed.

Lemma step_LStart s s' : step s LStart = Some s' -> pc s = LInit /\ s' = with_pc s LLoop.
Proof. intros Hs. inv_step Hs. auto. Qed.
Lemma step_LRet s s' : step s LRet = Some s' -> pc s = LRetp /\ s' = with_pc s LDone.
Proof. intros Hs. inv_step Hs. auto. Qed.
Lemma step_TLibExit s s' : step s TLibExit = Some s' -> knd s = KMR /\ pc s = LLoop /\ cases s = [] /\ s' = with_pc s LRetp.
Proof. intros Hs. inv_step Hs. auto. Qed.
Lemma step_LQuiesce s s' : step s LQuiesce = Some s' -> False.
Proof. discriminate. Qed.

(* ---- the invariant ---- *)
Definition count_true (l : list bool) : nat := length (filter (fun b => b) l).
Definition vals (s : st) (j : nat) : list Z := map snd (out_seq s j).

Definition sel_ok (s : st) : Prop :=
  match knd s with
  | KM1 | KRep => ret_pc (pc s) = true <-> nth 0 (seen_closed s) false = true
  | KM2 | KM3 =>
      (forall k, k < nin s -> nth k (live s) false = negb (nth k (seen_closed s) false))
      /\ ndone s = count_true (seen_closed s)
      /\ (if ret_pc (pc s) then ndone s = nin s else ndone s < nin s)
  | KMR =>
      NoDup (cases s)
      /\ (forall k, In k (cases s) <-> k < nin s /\ nth k (seen_closed s) false = false)
      /\ (ret_pc (pc s) = true -> cases s = [])
  end.

Definition rep_ok (s : st) : Prop :=
  match pc s with
  | LHand k v j =>
      exists g0, nth 0 (gots s) [] = g0 ++ [v]
                 /\ forall j', j' < nout s -> vals s j' = if Nat.ltb j' j then g0 ++ [v] else g0
  | _ => forall j', j' < nout s -> vals s j' = nth 0 (gots s) []
  end.

Record Inv (s : st) : Prop := {
  i_prods : length (prods s) = nin s;
  i_conss : length (conss s) = nout s;
  i_chs : length (chs s) = nin s + nout s;
  i_produced : length (produced s) = nin s;
  i_gots : length (gots s) = nin s;
  i_seen : length (seen_closed s) = nin s;
  i_outs : length (outs s) = nout s;
  i_taken : length (taken s) = nout s;
  i_live : length (live s) = nin s;
  i_kind : match knd s with KM1 | KRep => nin s = 1 | KM2 => nin s = 2 | KM3 => nin s = 3 | KMR => True end;
  i_out1 : knd s <> KRep -> nout s = 1;
  i_hand : forall k v j, pc s = LHand k v j -> k < nin s /\ j < nout s /\ (knd s <> KRep -> j = 0);
  i_cap : forall i, i < nin s + nout s -> length (buf (chn s i)) <= cap (chn s i);
  i_in : forall k, k < nin s -> nth k (produced s) [] = nth k (gots s) [] ++ buf (chn s k);
  i_out : forall j, j < nout s -> vals s j = nth j (taken s) [] ++ buf (chn s (nin s + j));
  i_seen_closed : forall k, k < nin s -> nth k (seen_closed s) false = true ->
                            closed (chn s k) = true /\ buf (chn s k) = [];
  i_sel : sel_ok s;
  i_tags : forall j, j < nout s -> Forall (fun p => fst p < nin s) (out_seq s j);
  i_merge : knd s <> KRep -> forall k, k < nin s -> from k (out_seq s 0 ++ hand s) = nth k (gots s) [];
  i_rep : knd s = KRep -> rep_ok s
}.

Lemma chn_some s i c : nth_error (chs s) i = Some c -> chn s i = c /\ i < length (chs s).
Proof. intros H. unfold chn. apply nth_error_nth_len. exact H. Qed.

Lemma from_app k l1 l2 : from k (l1 ++ l2) = from k l1 ++ from k l2.
Proof. unfold from. rewrite filter_app, map_app. reflexivity. Qed.

Lemma from_single k k' v : from k [(k', v)] = if Nat.eqb k' k then [v] else [].
Proof. unfold from. simpl. destruct (Nat.eqb k' k); reflexivity. Qed.

Lemma count_true_upd l k :
  k < length l -> nth k l false = false -> count_true (upd l k true) = S (count_true l).
Proof.
  unfold count_true. revert k. induction l as [|b l IH]; intros k Hk Hn; simpl in *; [lia|].
  destruct k as [|k]; simpl.
  - subst b. reflexivity.
  - destruct b; simpl; rewrite IH by (auto; lia); reflexivity.
Qed.


(* ---- preservation, label by label ---- *)
Ltac same HI :=
  first [ exact (i_prods _ HI) | exact (i_conss _ HI) | exact (i_chs _ HI) | exact (i_produced _ HI)
        | exact (i_gots _ HI) | exact (i_seen _ HI) | exact (i_outs _ HI) | exact (i_taken _ HI)
        | exact (i_live _ HI) | exact (i_kind _ HI) | exact (i_out1 _ HI) | exact (i_hand _ HI)
        | exact (i_cap _ HI) | exact (i_in _ HI) | exact (i_out _ HI) | exact (i_seen_closed _ HI)
        | exact (i_sel _ HI) | exact (i_tags _ HI) | exact (i_merge _ HI) | exact (i_rep _ HI) ].
Ltac fin HI := simpl; rewrite ?upd_length, ?snoc_at_length; same HI.

Lemma inv_LCmd s k c s' : Inv s -> step s (LCmd k c) = Some s' -> Inv s'.
Proof.
  intros HI Hs. destruct (step_LCmd _ _ _ _ Hs) as (p & Hp & ->).
  constructor; try same HI; fin HI.
Qed.

Lemma inv_LPermit s j n s' : Inv s -> step s (LPermit j n) = Some s' -> Inv s'.
Proof.
  intros HI Hs. destruct (step_LPermit _ _ _ _ Hs) as (p & Hp & ->).
  constructor; try same HI; fin HI.
Qed.

Lemma inv_LSent s k v s' : Inv s -> step s (LSent k v) = Some s' -> Inv s'.
Proof.
  intros HI Hs. destruct (step_LSent _ _ _ _ Hs) as (p & Hp & ->).
  constructor; try same HI; fin HI.
Qed.

Lemma inv_LClosed s k s' : Inv s -> step s (LClosed k) = Some s' -> Inv s'.
Proof.
  intros HI Hs. destruct (step_LClosed _ _ _ Hs) as (p & Hp & ->).
  constructor; try same HI; fin HI.
Qed.

Lemma inv_LRecvd s j v s' : Inv s -> step s (LRecvd j v) = Some s' -> Inv s'.
Proof.
  intros HI Hs. destruct (step_LRecvd _ _ _ _ Hs) as (p & Hp & ->).
  constructor; try same HI; fin HI.
Qed.

(* a change of the program counter between two values that hold nothing *)
Lemma inv_pc_move s p' :
  Inv s -> (forall k v j, pc s <> LHand k v j) -> (forall k v j, p' <> LHand k v j) ->
  (ret_pc (pc s) = true -> ret_pc p' = true) ->
  (ret_pc p' = true -> ret_pc (pc s) = true \/ (knd s = KMR /\ cases s = [])) ->
  Inv (with_pc s p').
Proof.
  intros HI Hold Hnew Hr1 Hr2.
  assert (Hh : hand s = []) by (unfold hand; destruct (pc s); try reflexivity; exfalso; eapply Hold; eauto).
  constructor; try same HI.
  - intros k v j E. simpl in E. exfalso. eapply Hnew; eauto.
  - generalize (i_sel _ HI). unfold sel_ok. simpl.
    destruct (knd s) eqn:Ek.
    + intros [A B]. split; intros X; [|auto].
      destruct (ret_pc (pc s)) eqn:E2; [auto|]. exfalso. clear - Hr2 X Ek E2. intuition congruence.
    + intros (A & B & C). split; [exact A|]. split; [exact B|].
      destruct (ret_pc p') eqn:E1; destruct (ret_pc (pc s)) eqn:E2; try exact C;
        exfalso; clear - Hr1 Hr2 Ek E1 E2; intuition congruence.
    + intros (A & B & C). split; [exact A|]. split; [exact B|].
      destruct (ret_pc p') eqn:E1; destruct (ret_pc (pc s)) eqn:E2; try exact C;
        exfalso; clear - Hr1 Hr2 Ek E1 E2; intuition congruence.
    + intros (A & B & C). split; [exact A|]. split; [exact B|].
      intros X. destruct (ret_pc (pc s)) eqn:E2; [auto|]. clear - Hr2 X Ek E2. intuition congruence.
    + intros [A B]. split; intros X; [|auto].
      destruct (ret_pc (pc s)) eqn:E2; [auto|]. exfalso. clear - Hr2 X Ek E2. intuition congruence.
  - intros Hk k Hlt. generalize (i_merge _ HI Hk k Hlt). rewrite Hh. unfold hand. simpl.
    destruct p'; try (intros E; exact E). exfalso. eapply Hnew; eauto.
  - intros Hk. generalize (i_rep _ HI Hk). unfold rep_ok. simpl.
    destruct (pc s) eqn:E1; try (exfalso; eapply Hold; eauto; fail);
      destruct p'; try (exfalso; eapply Hnew; eauto; fail); auto.
Qed.

Lemma inv_LStart s s' : Inv s -> step s LStart = Some s' -> Inv s'.
Proof.
  intros HI Hs. destruct (step_LStart _ _ Hs) as (Epc & ->).
  apply inv_pc_move; auto; rewrite ?Epc; simpl; try discriminate; auto.
Qed.

Lemma inv_LRet s s' : Inv s -> step s LRet = Some s' -> Inv s'.
Proof.
  intros HI Hs. destruct (step_LRet _ _ Hs) as (Epc & ->).
  apply inv_pc_move; auto; rewrite ?Epc; simpl; try discriminate; auto.
Qed.

Lemma inv_TLibExit s s' : Inv s -> step s TLibExit = Some s' -> Inv s'.
Proof.
  intros HI Hs. destruct (step_TLibExit _ _ Hs) as (Ek & Epc & Ec & ->).
  apply inv_pc_move; auto; rewrite ?Epc; simpl; try discriminate; auto.
Qed.

Lemma prods_lt s k p : Inv s -> nth_error (prods s) k = Some p -> k < nin s.
Proof. intros HI H. rewrite <- (i_prods _ HI). apply nth_error_Some. congruence. Qed.

Lemma conss_lt s j c : Inv s -> nth_error (conss s) j = Some c -> j < nout s.
Proof. intros HI H. rewrite <- (i_conss _ HI). apply nth_error_Some. congruence. Qed.

Lemma inv_TProdBuf s k s' : Inv s -> step s (TProdBuf k) = Some s' -> Inv s'.
Proof.
  intros HI Hs. destruct (step_TProdBuf _ _ _ Hs) as (v & q & c & Hp & Hc & Hcl & Hlen & ->).
  pose proof (prods_lt _ _ _ HI Hp) as Hk.
  destruct (chn_some _ _ _ Hc) as [Ec Hkl].
  constructor; try same HI; try (fin HI; fail).
  - (* cap *) intros i Hi. unfold chn. simpl in *.
    destruct (Nat.eq_dec k i) as [->|Hne].
    + rewrite nth_upd_same by exact Hkl. simpl. rewrite app_length. simpl. lia.
    + rewrite nth_upd_other by exact Hne. exact (i_cap _ HI i Hi).
  - (* in *) intros k0 Hk0. unfold chn. simpl in *.
    destruct (Nat.eq_dec k k0) as [->|Hne].
    + rewrite nth_upd_same by exact Hkl. rewrite nth_snoc_at_same by (rewrite (i_produced _ HI); exact Hk0).
      simpl. rewrite (i_in _ HI k0 Hk0), Ec. rewrite app_assoc. reflexivity.
    + rewrite nth_upd_other by exact Hne. rewrite nth_snoc_at_other by exact Hne. exact (i_in _ HI k0 Hk0).
  - (* out *) intros j Hj. unfold vals, out_seq, chn. simpl in *.
    rewrite nth_upd_other by (simpl in Hk; lia). exact (i_out _ HI j Hj).
  - (* seen_closed *) intros k0 Hk0 Hseen. unfold chn. simpl in *.
    destruct (Nat.eq_dec k k0) as [->|Hne].
    + destruct (i_seen_closed _ HI k0 Hk0 Hseen) as [A _]. rewrite Ec in A. congruence.
    + rewrite nth_upd_other by exact Hne. exact (i_seen_closed _ HI k0 Hk0 Hseen).
Qed.

Lemma inv_TProdClose s k s' : Inv s -> step s (TProdClose k) = Some s' -> Inv s'.
Proof.
  intros HI Hs. destruct (step_TProdClose _ _ _ Hs) as (q & c & Hp & Hc & Hcl & ->).
  pose proof (prods_lt _ _ _ HI Hp) as Hk.
  destruct (chn_some _ _ _ Hc) as [Ec Hkl].
  constructor; try same HI; try (fin HI; fail).
  - intros i Hi. unfold chn. simpl in *.
    destruct (Nat.eq_dec k i) as [->|Hne].
    + rewrite nth_upd_same by exact Hkl. simpl. rewrite <- Ec. exact (i_cap _ HI i Hi).
    + rewrite nth_upd_other by exact Hne. exact (i_cap _ HI i Hi).
  - intros k0 Hk0. unfold chn. simpl in *.
    destruct (Nat.eq_dec k k0) as [->|Hne].
    + rewrite nth_upd_same by exact Hkl. simpl. rewrite (i_in _ HI k0 Hk0), Ec. reflexivity.
    + rewrite nth_upd_other by exact Hne. exact (i_in _ HI k0 Hk0).
  - intros j Hj. unfold vals, out_seq, chn. simpl in *.
    rewrite nth_upd_other by (simpl in Hk; lia). exact (i_out _ HI j Hj).
  - intros k0 Hk0 Hseen. unfold chn. simpl in *.
    destruct (Nat.eq_dec k k0) as [->|Hne].
    + destruct (i_seen_closed _ HI k0 Hk0 Hseen) as [A _]. rewrite Ec in A. congruence.
    + rewrite nth_upd_other by exact Hne. exact (i_seen_closed _ HI k0 Hk0 Hseen).
Qed.

Lemma inv_TConsTake s j s' : Inv s -> step s (TConsTake j) = Some s' -> Inv s'.
Proof.
  intros HI Hs. destruct (step_TConsTake _ _ _ Hs) as (p & c & v & b & Hcn & Hc & Hb & ->).
  pose proof (conss_lt _ _ _ HI Hcn) as Hj.
  destruct (chn_some _ _ _ Hc) as [Ec Hkl].
  constructor; try same HI; try (fin HI; fail).
  - intros i Hi. unfold chn. simpl in *.
    destruct (Nat.eq_dec (nin s + j) i) as [<-|Hne].
    + rewrite nth_upd_same by exact Hkl. simpl.
      pose proof (i_cap _ HI (nin s + j) Hi) as A. rewrite Ec, Hb in A. simpl in A. lia.
    + rewrite nth_upd_other by exact Hne. exact (i_cap _ HI i Hi).
  - intros k0 Hk0. unfold chn. simpl in *.
    rewrite nth_upd_other by lia. exact (i_in _ HI k0 Hk0).
  - intros j0 Hj0. unfold vals, out_seq, chn. simpl in *.
    destruct (Nat.eq_dec j j0) as [->|Hne].
    + rewrite nth_upd_same by exact Hkl. rewrite nth_snoc_at_same by (rewrite (i_taken _ HI); exact Hj0).
      simpl. pose proof (i_out _ HI j0 Hj0) as A. unfold vals, out_seq in A. rewrite A, Ec, Hb.
      rewrite <- app_assoc. reflexivity.
    + rewrite nth_upd_other by lia. rewrite nth_snoc_at_other by exact Hne. exact (i_out _ HI j0 Hj0).
  - intros k0 Hk0 Hseen. unfold chn. simpl in *.
    rewrite nth_upd_other by lia. exact (i_seen_closed _ HI k0 Hk0 Hseen).
Qed.

Lemma sel_unseen s pos k :
  Inv s -> pc s = LLoop -> sel s pos = Some k -> k < nin s /\ nth k (seen_closed s) false = false.
Proof.
  intros HI Epc Hsel. pose proof (i_sel _ HI) as S. pose proof (i_kind _ HI) as K.
  unfold sel_ok, sel in *. rewrite Epc in S. simpl in S.
  destruct (knd s) eqn:Ek.
  - destruct (Nat.eqb pos 0); inversion Hsel; subst. split; [lia|].
    destruct (nth 0 (seen_closed s) false); [|reflexivity]. destruct S as [_ S]. discriminate (S eq_refl).
  - destruct (nth_error (live s) pos) as [[|]|] eqn:El; inversion Hsel; subst.
    destruct (nth_error_nth_len _ _ _ false El) as [E1 E2]. rewrite (i_live _ HI) in E2.
    split; [exact E2|]. destruct S as (A & _). specialize (A k E2). rewrite E1 in A.
    destruct (nth k (seen_closed s) false); [discriminate|reflexivity].
  - destruct (nth_error (live s) pos) as [[|]|] eqn:El; inversion Hsel; subst.
    destruct (nth_error_nth_len _ _ _ false El) as [E1 E2]. rewrite (i_live _ HI) in E2.
    split; [exact E2|]. destruct S as (A & _). specialize (A k E2). rewrite E1 in A.
    destruct (nth k (seen_closed s) false); [discriminate|reflexivity].
  - destruct S as (_ & A & _). apply A. eapply nth_error_In; eauto.
  - destruct (Nat.eqb pos 0); inversion Hsel; subst. split; [lia|].
    destruct (nth 0 (seen_closed s) false); [|reflexivity]. destruct S as [_ S]. discriminate (S eq_refl).
Qed.

Lemma sel_ok_frame s s' :
  knd s' = knd s -> nin s' = nin s -> seen_closed s' = seen_closed s -> live s' = live s ->
  ndone s' = ndone s -> cases s' = cases s -> ret_pc (pc s') = ret_pc (pc s) -> sel_ok s -> sel_ok s'.
Proof. unfold sel_ok. intros -> -> -> -> -> -> ->. auto. Qed.

Lemma hol_cases s k v j :
  (hand_or_loop s k v j = LHand k v j /\ ((knd s = KRep /\ j < nout s) \/ (knd s <> KRep /\ j = 0)))
  \/ (hand_or_loop s k v j = LLoop /\ ((knd s = KRep /\ nout s <= j) \/ (knd s <> KRep /\ j <> 0))).
Proof.
  unfold hand_or_loop. destruct (knd s) eqn:Ek;
    try (destruct j; [left; split; [reflexivity|right; split; [discriminate|reflexivity]]
                     |right; split; [reflexivity|right; split; [discriminate|discriminate]]]).
  destruct (Nat.ltb j (nout s)) eqn:E.
  - apply Nat.ltb_lt in E. left. split; [reflexivity|]. left. auto.
  - apply Nat.ltb_ge in E. right. split; [reflexivity|]. left. auto.
Qed.

(* the call received v from input k (k's channel state and its ghost [produced] already updated in s1) *)
Lemma inv_take_value s s1 k v :
  Inv s -> pc s = LLoop -> k < nin s ->
  knd s1 = knd s -> nin s1 = nin s -> nout s1 = nout s -> pc s1 = pc s ->
  length (prods s1) = nin s -> conss s1 = conss s -> length (chs s1) = length (chs s) ->
  length (produced s1) = nin s -> gots s1 = gots s -> seen_closed s1 = seen_closed s ->
  outs s1 = outs s -> taken s1 = taken s -> live s1 = live s -> ndone s1 = ndone s -> cases s1 = cases s ->
  (forall i, i < nin s + nout s -> length (buf (chn s1 i)) <= cap (chn s1 i)) ->
  (forall k0, k0 < nin s ->
              nth k0 (produced s1) [] = (nth k0 (gots s) [] ++ (if Nat.eq_dec k k0 then [v] else [])) ++ buf (chn s1 k0)) ->
  (forall j, j < nout s -> buf (chn s1 (nin s + j)) = buf (chn s (nin s + j))) ->
  (forall k0, k0 < nin s -> nth k0 (seen_closed s) false = true -> closed (chn s1 k0) = true /\ buf (chn s1 k0) = []) ->
  Inv (take_value s1 k v).
Proof.
  intros HI Epc Hk Eknd En Em Epc1 Hprods Econss Hchs Hproduced Egots Eseen Eouts Etaken Elive Endone Ecases
         Hcap Hin Hout Hsc.
  assert (Hh : hand s = []) by (unfold hand; rewrite Epc; reflexivity).
  unfold take_value.
  constructor; simpl; rewrite ?snoc_at_length, ?Eknd, ?En, ?Em, ?Econss, ?Egots, ?Eseen, ?Eouts, ?Etaken, ?Elive;
    try same HI; try assumption.
  - rewrite Hchs. same HI.
  - (* hand *) intros k1 v1 j1 E. unfold hand_or_loop in E. rewrite Eknd, Em in E.
    pose proof (i_out1 _ HI) as O. pose proof (i_kind _ HI) as K.
    destruct (knd s) eqn:Ek; try (inversion E; subst; rewrite O by discriminate; repeat split; auto; lia).
    destruct (Nat.ltb 0 (nout s)) eqn:E0; inversion E; subst. apply Nat.ltb_lt in E0. repeat split; auto; congruence.
  - (* in *) intros k0 Hk0. rewrite (Hin k0 Hk0).
    destruct (Nat.eq_dec k k0) as [->|Hne].
    + rewrite nth_snoc_at_same by (rewrite (i_gots _ HI); exact Hk0). reflexivity.
    + rewrite nth_snoc_at_other by exact Hne. rewrite app_nil_r. reflexivity.
  - (* out *) intros j Hj. unfold vals, out_seq, chn in *. simpl. rewrite ?Eouts, ?Etaken, ?En.
    rewrite (Hout j Hj). exact (i_out _ HI j Hj).
  - (* sel *) eapply sel_ok_frame; try exact (i_sel _ HI); simpl; auto.
    rewrite Epc. destruct (hol_cases s1 k v 0) as [[-> _]|[-> _]]; reflexivity.
  - (* tags *) intros j Hj. unfold out_seq. simpl. rewrite ?Eouts. exact (i_tags _ HI j Hj).
  - (* merge *) intros Hnk k0 Hk0. unfold out_seq, hand. simpl. rewrite ?Eouts.
    assert (Ep : hand_or_loop s1 k v 0 = LHand k v 0).
    { unfold hand_or_loop. rewrite Eknd. destruct (knd s); try reflexivity. congruence. }
    rewrite Ep. rewrite from_app, from_single.
    pose proof (i_merge _ HI Hnk k0 Hk0) as A. rewrite Hh, app_nil_r in A. unfold out_seq in A. rewrite A.
    destruct (Nat.eq_dec k k0) as [->|Hne].
    + rewrite Nat.eqb_refl. rewrite nth_snoc_at_same by (rewrite (i_gots _ HI); exact Hk0). reflexivity.
    + apply Nat.eqb_neq in Hne as Hne'. rewrite Hne'. rewrite nth_snoc_at_other by exact Hne. apply app_nil_r.
  - (* rep *) intros Hrk. pose proof (i_rep _ HI Hrk) as A. unfold rep_ok in *. rewrite Epc in A. simpl.
    pose proof (i_kind _ HI) as K. rewrite Hrk in K.
    assert (k = 0) by lia. subst k.
    unfold hand_or_loop. rewrite Eknd, Hrk, Em.
    destruct (Nat.ltb 0 (nout s)) eqn:E0.
    + exists (nth 0 (gots s) []). split.
      * rewrite nth_snoc_at_same by (rewrite (i_gots _ HI); lia). reflexivity.
      * intros j' Hj'. unfold vals, out_seq in *. simpl. rewrite ?Eouts. simpl. apply A. exact Hj'.
    + apply Nat.ltb_ge in E0. intros j' Hj'. lia.
Qed.

Lemma inv_on_closed s pos k c :
  Inv s -> pc s = LLoop -> sel s pos = Some k -> nth_error (chs s) k = Some c -> buf c = [] -> closed c = true ->
  Inv (on_closed s pos k).
Proof.
  intros HI Epc Hsel Hc Hb Hcl.
  destruct (sel_unseen _ _ _ HI Epc Hsel) as [Hk Hun].
  destruct (chn_some _ _ _ Hc) as [Ec _].
  assert (Hh : hand s = []) by (unfold hand; rewrite Epc; reflexivity).
  assert (Hsc : forall k0, k0 < nin s -> nth k0 (upd (seen_closed s) k true) false = true ->
                           closed (chn s k0) = true /\ buf (chn s k0) = []).
  { intros k0 Hk0. destruct (Nat.eq_dec k k0) as [->|Hne].
    - intros _. rewrite Ec. auto.
    - rewrite nth_upd_other by exact Hne. apply (i_seen_closed _ HI k0 Hk0). }
  pose proof (i_sel _ HI) as S. pose proof (i_kind _ HI) as K.
  unfold on_closed. unfold sel_ok, sel in S, Hsel. rewrite Epc in S. simpl in S.
  destruct (knd s) eqn:Ek.
  - (* KM1 *)
    constructor; simpl; rewrite ?upd_length; try same HI; try assumption.
    + discriminate.
    + unfold sel_ok. simpl. rewrite Ek. destruct (Nat.eqb pos 0); inversion Hsel; subst.
      rewrite nth_upd_same by (rewrite (i_seen _ HI); lia). split; auto.
    + intros Hnk k0 Hk0. rewrite <- (i_merge _ HI Hnk k0 Hk0). rewrite Hh. reflexivity.
    + congruence.
  - (* KM2 *)
    destruct (nth_error (live s) pos) as [[|]|] eqn:El; inversion Hsel; subst pos.
    destruct S as (A & B & C).
    cbv zeta. remember (Nat.eqb (S (ndone s)) (nin s)) as fin eqn:Efin. symmetry in Efin.
    constructor; simpl; rewrite ?upd_length; try same HI; try assumption.
    + intros k1 v1 j1 E. destruct fin; discriminate.
    + unfold sel_ok. simpl. rewrite Ek. split; [|split].
      * intros k0 Hk0. destruct (Nat.eq_dec k k0) as [->|Hne].
        -- rewrite !nth_upd_same by (rewrite ?(i_live _ HI), ?(i_seen _ HI); exact Hk0). reflexivity.
        -- rewrite !nth_upd_other by exact Hne. apply A. exact Hk0.
      * rewrite count_true_upd by (rewrite ?(i_seen _ HI); assumption). congruence.
      * destruct fin; simpl.
        -- apply Nat.eqb_eq in Efin. exact Efin.
        -- apply Nat.eqb_neq in Efin. lia.
    + intros Hnk k0 Hk0. rewrite <- (i_merge _ HI Hnk k0 Hk0).
      rewrite Hh. unfold hand. simpl. destruct fin; reflexivity.
    + congruence.
  - (* KM3 *)
    destruct (nth_error (live s) pos) as [[|]|] eqn:El; inversion Hsel; subst pos.
    destruct S as (A & B & C).
    cbv zeta. remember (Nat.eqb (S (ndone s)) (nin s)) as fin eqn:Efin. symmetry in Efin.
    constructor; simpl; rewrite ?upd_length; try same HI; try assumption.
    + intros k1 v1 j1 E. destruct fin; discriminate.
    + unfold sel_ok. simpl. rewrite Ek. split; [|split].
      * intros k0 Hk0. destruct (Nat.eq_dec k k0) as [->|Hne].
        -- rewrite !nth_upd_same by (rewrite ?(i_live _ HI), ?(i_seen _ HI); exact Hk0). reflexivity.
        -- rewrite !nth_upd_other by exact Hne. apply A. exact Hk0.
      * rewrite count_true_upd by (rewrite ?(i_seen _ HI); assumption). congruence.
      * destruct fin; simpl.
        -- apply Nat.eqb_eq in Efin. exact Efin.
        -- apply Nat.eqb_neq in Efin. lia.
    + intros Hnk k0 Hk0. rewrite <- (i_merge _ HI Hnk k0 Hk0).
      rewrite Hh. unfold hand. simpl. destruct fin; reflexivity.
    + congruence.
  - (* KMR *)
    destruct S as (A & B & C).
    destruct (remove_unordered_1_spec _ _ _ A Hsel) as (R1 & R2 & _).
    constructor; simpl; rewrite ?upd_length; try same HI; try assumption.
    + discriminate.
    + unfold sel_ok. simpl. rewrite Ek. split; [exact R1|]. split; [|discriminate].
      intros k0. rewrite R2, B. destruct (Nat.eq_dec k k0) as [->|Hne].
      * rewrite nth_upd_same by (rewrite (i_seen _ HI); exact Hk). split; [intros [_ X]; congruence | intros [_ X]; discriminate].
      * rewrite nth_upd_other by exact Hne. split; [intros [X _]; exact X | intros X; split; [exact X | congruence]].
    + intros Hnk k0 Hk0. rewrite <- (i_merge _ HI Hnk k0 Hk0). rewrite Hh. reflexivity.
    + congruence.
  - (* KRep *)
    constructor; simpl; rewrite ?upd_length; try same HI; try assumption.
    + discriminate.
    + unfold sel_ok. simpl. rewrite Ek. destruct (Nat.eqb pos 0); inversion Hsel; subst.
      rewrite nth_upd_same by (rewrite (i_seen _ HI); lia). split; auto.
    + congruence.
    + intros _. pose proof (i_rep _ HI Ek) as A. unfold rep_ok in *. rewrite Epc in A. simpl. exact A.
Qed.

Lemma inv_TLibRecv s pos s' : Inv s -> step s (TLibRecv pos) = Some s' -> Inv s'.
Proof.
  intros HI Hs. destruct (step_TLibRecv _ _ _ Hs) as [Epc Hcase].
  destruct Hcase as [k c v b Hsel Hc Hb ->|k c Hsel Hc Hb Hcl ->|k c v q Hsel Hc Hb Hcl Hcap Hp ->].
  - destruct (sel_unseen _ _ _ HI Epc Hsel) as [Hk Hun].
    destruct (chn_some _ _ _ Hc) as [Ec Hkl].
    apply inv_take_value with (s := s); simpl; rewrite ?upd_length; auto; try same HI.
    + intros i Hi. unfold chn. simpl. destruct (Nat.eq_dec k i) as [->|Hne].
      * rewrite nth_upd_same by exact Hkl. simpl. pose proof (i_cap _ HI i Hi) as A. rewrite Ec, Hb in A. simpl in A. lia.
      * rewrite nth_upd_other by exact Hne. exact (i_cap _ HI i Hi).
    + intros k0 Hk0. unfold chn. simpl. destruct (Nat.eq_dec k k0) as [->|Hne].
      * rewrite nth_upd_same by exact Hkl. simpl. rewrite (i_in _ HI k0 Hk0), Ec, Hb. rewrite <- app_assoc. reflexivity.
      * rewrite nth_upd_other by exact Hne. rewrite app_nil_r. exact (i_in _ HI k0 Hk0).
    + intros j Hj. unfold chn. simpl. rewrite nth_upd_other by lia. reflexivity.
    + intros k0 Hk0 Hs0. unfold chn. simpl. destruct (Nat.eq_dec k k0) as [->|Hne]; [congruence|].
      rewrite nth_upd_other by exact Hne. exact (i_seen_closed _ HI k0 Hk0 Hs0).
  - eapply inv_on_closed; eauto.
  - destruct (sel_unseen _ _ _ HI Epc Hsel) as [Hk Hun].
    destruct (chn_some _ _ _ Hc) as [Ec Hkl].
    apply inv_take_value with (s := s); simpl; rewrite ?upd_length, ?snoc_at_length; auto; try same HI.
    + intros k0 Hk0. destruct (Nat.eq_dec k k0) as [->|Hne].
      * rewrite nth_snoc_at_same by (rewrite (i_produced _ HI); exact Hk0).
        rewrite (i_in _ HI k0 Hk0). unfold chn in *. simpl. rewrite Ec, Hb. rewrite !app_nil_r. reflexivity.
      * rewrite nth_snoc_at_other by exact Hne. rewrite app_nil_r. exact (i_in _ HI k0 Hk0).
Qed.

(* the value in hand was delivered to output j (the output channel / consumer already updated in s1) *)
Lemma inv_sent s s1 k v j :
  Inv s -> pc s = LHand k v j ->
  knd s1 = knd s -> nin s1 = nin s -> nout s1 = nout s ->
  length (prods s1) = nin s -> length (conss s1) = nout s -> length (chs s1) = length (chs s) ->
  produced s1 = produced s -> gots s1 = gots s -> seen_closed s1 = seen_closed s ->
  outs s1 = snoc_at (outs s) j (k, v) -> length (taken s1) = nout s ->
  live s1 = live s -> ndone s1 = ndone s -> cases s1 = cases s ->
  (forall i, i < nin s + nout s -> length (buf (chn s1 i)) <= cap (chn s1 i)) ->
  (forall k0, k0 < nin s -> chn s1 k0 = chn s k0) ->
  (forall j0, j0 < nout s ->
              nth j0 (taken s1) [] ++ buf (chn s1 (nin s + j0))
              = (nth j0 (taken s) [] ++ buf (chn s (nin s + j0))) ++ (if Nat.eq_dec j j0 then [v] else [])) ->
  Inv (with_pc s1 (hand_or_loop s k v (S j))).
Proof.
  intros HI Epc Eknd En Em Hprods Hconss Hchs Eproduced Egots Eseen Eouts Htaken Elive Endone Ecases Hcap Hin Hout.
  destruct (i_hand _ HI _ _ _ Epc) as (Hk & Hj & Hjz).
  assert (Hh : hand s = [(k, v)]) by (unfold hand; rewrite Epc; reflexivity).
  constructor; simpl; rewrite ?Eknd, ?En, ?Em, ?Eproduced, ?Egots, ?Eseen, ?Eouts, ?Elive, ?snoc_at_length;
    try same HI; try assumption.
  - rewrite Hchs. same HI.
  - (* hand *) intros k1 v1 j1 E. destruct (hol_cases s k v (S j)) as [[E' C]|[E' _]]; rewrite E' in E; [|discriminate].
    inversion E; subst. destruct C as [[C1 C2]|[_ C2]]; [|discriminate]. repeat split; auto. congruence.
  - (* in *) intros k0 Hk0. unfold chn in *. simpl. rewrite (Hin k0 Hk0). exact (i_in _ HI k0 Hk0).
  - (* out *) intros j0 Hj0. unfold vals, out_seq, chn in *. simpl. rewrite ?Eouts, ?En. rewrite (Hout j0 Hj0).
    pose proof (i_out _ HI j0 Hj0) as A. unfold vals, out_seq, chn in A.
    destruct (Nat.eq_dec j j0) as [->|Hne].
    + rewrite nth_snoc_at_same by (rewrite (i_outs _ HI); exact Hj0). rewrite map_app, A. reflexivity.
    + rewrite nth_snoc_at_other by exact Hne. rewrite app_nil_r. exact A.
  - (* seen_closed *) intros k0 Hk0 Hs0. unfold chn in *. simpl. rewrite (Hin k0 Hk0). exact (i_seen_closed _ HI k0 Hk0 Hs0).
  - (* sel *) eapply sel_ok_frame; try exact (i_sel _ HI); simpl; auto.
    rewrite Epc. destruct (hol_cases s k v (S j)) as [[-> _]|[-> _]]; reflexivity.
  - (* tags *) intros j0 Hj0. unfold out_seq. simpl. rewrite ?Eouts.
    destruct (Nat.eq_dec j j0) as [->|Hne].
    + rewrite nth_snoc_at_same by (rewrite (i_outs _ HI); exact Hj0).
      apply Forall_app. split; [exact (i_tags _ HI j0 Hj0)|]. constructor; [exact Hk|constructor].
    + rewrite nth_snoc_at_other by exact Hne. exact (i_tags _ HI j0 Hj0).
  - (* merge *) intros Hnk k0 Hk0. specialize (Hjz Hnk). subst j.
    assert (Ep : hand_or_loop s k v 1 = LLoop).
    { unfold hand_or_loop. destruct (knd s); try reflexivity. congruence. }
    unfold out_seq, hand. simpl. rewrite ?Eouts, Ep.
    rewrite nth_snoc_at_same by (rewrite (i_outs _ HI); exact Hj). rewrite app_nil_r.
    pose proof (i_merge _ HI Hnk k0 Hk0) as A. rewrite Hh in A. exact A.
  - (* rep *) intros Hrk. pose proof (i_rep _ HI Hrk) as A. unfold rep_ok in *. rewrite Epc in A.
    destruct A as (g0 & G & V). simpl.
    assert (Vj : forall j', j' < nout s ->
                 map snd (nth j' (snoc_at (outs s) j (k, v)) []) = if Nat.ltb j' (S j) then g0 ++ [v] else g0).
    { intros j' Hj'. specialize (V j' Hj'). unfold vals, out_seq in V.
      destruct (Nat.eq_dec j j') as [->|Hne].
      - rewrite nth_snoc_at_same by (rewrite (i_outs _ HI); exact Hj'). rewrite map_app, V.
        rewrite Nat.ltb_irrefl. replace (Nat.ltb j' (S j')) with true by (symmetry; apply Nat.ltb_lt; lia). reflexivity.
      - rewrite nth_snoc_at_other by exact Hne. rewrite V.
        destruct (Nat.ltb j' j) eqn:E1.
        + apply Nat.ltb_lt in E1. replace (Nat.ltb j' (S j)) with true by (symmetry; apply Nat.ltb_lt; lia). reflexivity.
        + apply Nat.ltb_ge in E1. replace (Nat.ltb j' (S j)) with false by (symmetry; apply Nat.ltb_ge; lia). reflexivity. }
    destruct (hol_cases s k v (S j)) as [[E' _]|[E' C]]; rewrite E'.
    + exists g0. split; [rewrite ?Egots; exact G|]. intros j' Hj'. simpl in Hj'. rewrite ?Em in Hj'. unfold vals, out_seq. simpl. rewrite ?Eouts. apply Vj. exact Hj'.
    + destruct C as [[_ C]|[C _]]; [|congruence].
      intros j' Hj'. simpl in Hj'. rewrite ?Em in Hj'. unfold vals, out_seq. simpl. rewrite ?Eouts, ?Egots. rewrite (Vj j' Hj'), G.
      replace (Nat.ltb j' (S j)) with true by (symmetry; apply Nat.ltb_lt; lia). reflexivity.
Qed.

Lemma inv_TLibSend s s' : Inv s -> step s TLibSend = Some s' -> Inv s'.
Proof.
  intros HI Hs. destruct (step_TLibSend _ _ Hs) as [k v j c cn Epc Hc Hcn Hlen ->|k v j c p Epc Hc Hcn Hcap ->].
  - destruct (i_hand _ HI _ _ _ Epc) as (Hk & Hj & _).
    destruct (chn_some _ _ _ Hc) as [Ec Hkl].
    match goal with |- Inv (with_pc ?s1 _) => apply (inv_sent s s1 k v j HI Epc) end;
      simpl; rewrite ?upd_length; auto; try same HI.
    + intros i Hi. unfold chn. simpl. destruct (Nat.eq_dec (nin s + j) i) as [<-|Hne].
      * rewrite nth_upd_same by exact Hkl. simpl. rewrite app_length. simpl. lia.
      * rewrite nth_upd_other by exact Hne. exact (i_cap _ HI i Hi).
    + intros k0 Hk0. unfold chn. simpl. rewrite nth_upd_other by lia. reflexivity.
    + intros j0 Hj0. unfold chn. simpl. destruct (Nat.eq_dec j j0) as [->|Hne].
      * rewrite nth_upd_same by exact Hkl. simpl. unfold chn in Ec. rewrite Ec. rewrite !app_assoc. reflexivity.
      * rewrite nth_upd_other by lia. rewrite app_nil_r. reflexivity.
  - destruct (i_hand _ HI _ _ _ Epc) as (Hk & Hj & _).
    destruct (chn_some _ _ _ Hc) as [Ec Hkl].
    assert (Hb : buf c = []).
    { pose proof (i_cap _ HI (nin s + j) ltac:(lia)) as A. rewrite Ec, Hcap in A. destruct (buf c); [reflexivity|simpl in A; lia]. }
    match goal with |- Inv (with_pc ?s1 _) => apply (inv_sent s s1 k v j HI Epc) end;
      simpl; rewrite ?upd_length, ?snoc_at_length; auto; try same HI.
    + intros j0 Hj0. unfold chn in *. simpl. destruct (Nat.eq_dec j j0) as [->|Hne].
      * rewrite nth_snoc_at_same by (rewrite (i_taken _ HI); exact Hj0). rewrite Ec, Hb. rewrite !app_nil_r. reflexivity.
      * rewrite nth_snoc_at_other by exact Hne. rewrite app_nil_r. reflexivity.
Qed.

Theorem inv_step s l s' : Inv s -> step s l = Some s' -> Inv s'.
Proof.
  intros HI Hs. destruct l.
  - eapply inv_LStart; eauto.
  - eapply inv_LRet; eauto.
  - eapply inv_LCmd; eauto.
  - eapply inv_LPermit; eauto.
  - eapply inv_LSent; eauto.
  - eapply inv_LClosed; eauto.
  - eapply inv_LRecvd; eauto.
  - discriminate.
  - eapply inv_TProdBuf; eauto.
  - eapply inv_TProdClose; eauto.
  - eapply inv_TLibRecv; eauto.
  - eapply inv_TLibSend; eauto.
  - eapply inv_TLibExit; eauto.
  - eapply inv_TConsTake; eauto.
Qed.

Lemma inv_qstep s l s' : Inv s -> qstep s l = Some s' -> Inv s'.
Proof.
  intros HI Hs. destruct l; try (exact (inv_step _ _ _ HI Hs)).
  simpl in Hs. destruct (quiescent s); inversion Hs; subst; exact HI.
Qed.

(* ---- initial states ---- *)
Lemma nth_repeat_self {A} (x : A) n k : nth k (repeat x n) x = x.
Proof.
  destruct (nth_in_or_default k (repeat x n) x) as [H|H]; [|exact H]. eapply repeat_spec; eauto.
Qed.

Lemma init_chn k incaps outcaps i :
  buf (chn (init_gen k incaps outcaps) i) = [] /\ closed (chn (init_gen k incaps outcaps) i) = false.
Proof.
  unfold chn. simpl.
  destruct (nth_in_or_default i (map (fun c => mkCh c [] false) (incaps ++ outcaps)) dch) as [H|H].
  - apply in_map_iff in H. destruct H as (c & <- & _). auto.
  - rewrite H. auto.
Qed.

Lemma count_true_repeat_false n : count_true (repeat false n) = 0.
Proof. unfold count_true. induction n; simpl; auto. Qed.

Lemma inv_init_gen k incaps outcaps :
  match k with KM1 | KRep => length incaps = 1 | KM2 => length incaps = 2 | KM3 => length incaps = 3 | KMR => True end ->
  (k <> KRep -> length outcaps = 1) ->
  Inv (init_gen k incaps outcaps).
Proof.
  intros Hk Ho.
  constructor; simpl; rewrite ?repeat_length, ?map_length, ?app_length; auto.
  - discriminate.
  - intros i _. destruct (init_chn k incaps outcaps i) as [-> _]. simpl. lia.
  - intros k0 _. destruct (init_chn k incaps outcaps k0) as [-> _]. rewrite !nth_repeat_self. reflexivity.
  - intros j _. unfold vals, out_seq. simpl.
    destruct (init_chn k incaps outcaps (length incaps + j)) as [-> _]. rewrite !nth_repeat_self. reflexivity.
  - intros k0 _. rewrite nth_repeat_self. discriminate.
  - unfold sel_ok. simpl. destruct k; simpl.
    + rewrite nth_repeat_self. split; discriminate.
    + split; [|split].
      * intros k0 Hk0. rewrite (nth_indep _ false true) by (rewrite repeat_length; exact Hk0).
        rewrite !nth_repeat_self. reflexivity.
      * rewrite count_true_repeat_false. reflexivity.
      * lia.
    + split; [|split].
      * intros k0 Hk0. rewrite (nth_indep _ false true) by (rewrite repeat_length; exact Hk0).
        rewrite !nth_repeat_self. reflexivity.
      * rewrite count_true_repeat_false. reflexivity.
      * lia.
    + split; [apply seq_NoDup|]. split; [|discriminate].
      intros k0. rewrite in_seq, nth_repeat_self. split; [intros [_ H]; split; [exact H|reflexivity] | intros [H _]; lia].
    + rewrite nth_repeat_self. split; discriminate.
  - intros j _. unfold out_seq. simpl. rewrite nth_repeat_self. constructor.
  - intros _ k0 _. unfold out_seq, hand. simpl. rewrite !nth_repeat_self. reflexivity.
  - intros _. unfold rep_ok. simpl. intros j' _. unfold vals, out_seq. simpl. rewrite !nth_repeat_self. reflexivity.
Qed.

Lemma inv_init_merge incaps outcap : Inv (init_merge incaps outcap).
Proof.
  unfold init_merge. apply inv_init_gen.
  - destruct incaps as [|a [|b [|c [|d l]]]]; simpl; auto.
  - reflexivity.
Qed.

Lemma inv_init_replicate srccap dstcaps : Inv (init_replicate srccap dstcaps).
Proof. unfold init_replicate. apply inv_init_gen; [reflexivity | congruence]. Qed.

(* the shape of the scenario never changes *)
Definition shape (s0 s : st) : Prop := knd s = knd s0 /\ nin s = nin s0 /\ nout s = nout s0.

Lemma reachable_inv s0 s : Inv s0 -> reachable qstep s0 s -> Inv s /\ shape s0 s.
Proof.
  intros H0 Hr.
  apply (invariant_rule qstep (fun s => Inv s /\ shape s0 s) s0); [split; [exact H0|unfold shape; auto]| |exact Hr].
  intros s1 l s2 [HI (A & B & C)] Hs. split; [eapply inv_qstep; eauto|].
  destruct l; try (destruct (step_frame _ _ _ Hs) as (F1 & F2 & F3 & _); unfold shape; repeat split; congruence).
  simpl in Hs. destruct (quiescent s1); inversion Hs; subst. unfold shape; auto.
Qed.

(* ---- C12_chans_interleaving ---- *)
Theorem chans_interleaving incaps outcap s :
  reachable qstep (init_merge incaps outcap) s ->
  forall k, k < length incaps ->
    (* the values sent on out so far plus the value in hand, restricted to input k, are exactly the values
       received from input k so far, in order *)
    from k (out_seq s 0 ++ hand s) = nth k (gots s) []
    (* everything the producer of input k has sent is received or still in k's buffer, in order *)
    /\ nth k (produced s) [] = nth k (gots s) [] ++ buf (chn s k)
    (* everything sent on out has been taken by the consumer or is in out's buffer, in order *)
    /\ vals s 0 = nth 0 (taken s) [] ++ buf (chn s (length incaps))
    (* out carries only values of the inputs *)
    /\ Forall (fun p => fst p < length incaps) (out_seq s 0).
Proof.
  intros Hr k Hk.
  destruct (reachable_inv _ _ (inv_init_merge incaps outcap) Hr) as [HI (Ek & En & Em)].
  simpl in En, Em, Ek.
  assert (Hnk : knd s <> KRep).
  { rewrite Ek. destruct incaps as [|a [|b [|c [|d l]]]]; discriminate. }
  rewrite <- En in *. split; [exact (i_merge _ HI Hnk k Hk)|]. split; [exact (i_in _ HI k Hk)|].
  split.
  - pose proof (i_out _ HI 0 ltac:(lia)) as A. rewrite Nat.add_0_r in A. exact A.
  - apply (i_tags _ HI 0). lia.
Qed.

(* multiset form: the output so far (plus the value in hand) is a permutation of everything received *)
Lemma perm_insert {A} (f g : nat -> list A) (a : nat) (x : A) ks :
  NoDup ks -> In a ks ->
  (forall k, g k = if Nat.eqb a k then x :: f k else f k) ->
  Permutation (x :: concat (map f ks)) (concat (map g ks)).
Proof.
  intros Hnd Hin Hg. induction ks as [|k0 ks IH]; [destruct Hin|].
  inversion Hnd as [|? ? Hnin Hnd']; subst. simpl.
  destruct (Nat.eq_dec a k0) as [->|Hne].
  - rewrite (Hg k0), Nat.eqb_refl. simpl. apply perm_skip.
    replace (map g ks) with (map f ks); [apply Permutation_refl|].
    apply map_ext_in. intros k Hk. rewrite Hg.
    destruct (Nat.eqb k0 k) eqn:E; [apply Nat.eqb_eq in E; subst; contradiction|reflexivity].
  - rewrite (Hg k0). apply Nat.eqb_neq in Hne as E. rewrite E.
    destruct Hin as [Hin|Hin]; [congruence|].
    eapply Permutation_trans; [apply Permutation_middle|].
    apply Permutation_app_head. apply IH; assumption.
Qed.

Lemma from_perm n l :
  Forall (fun p => fst p < n) l ->
  Permutation (map snd l) (concat (map (fun k => from k l) (seq 0 n))).
Proof.
  induction l as [|[a x] l IH]; intros HF.
  - simpl. replace (concat (map (fun k => from k []) (seq 0 n))) with (@nil Z); [constructor|].
    induction (seq 0 n); simpl; auto.
  - inversion HF as [|? ? Ha HF']; subst. simpl in Ha. simpl map at 1.
    eapply Permutation_trans; [apply perm_skip; apply IH; exact HF'|].
    apply perm_insert with (a := a); [apply seq_NoDup | apply in_seq; lia |].
    intros k. unfold from. simpl. destruct (Nat.eqb a k); reflexivity.
Qed.

Lemma map_nth_seq {A} (l : list A) d : map (fun k => nth k l d) (seq 0 (length l)) = l.
Proof.
  induction l as [|x l IH]; [reflexivity|]. simpl. f_equal.
  rewrite <- seq_shift, map_map. exact IH.
Qed.

Theorem chans_multiset incaps outcap s :
  reachable qstep (init_merge incaps outcap) s ->
  Permutation (map snd (out_seq s 0 ++ hand s)) (concat (gots s)).
Proof.
  intros Hr.
  destruct (reachable_inv _ _ (inv_init_merge incaps outcap) Hr) as [HI (Ek & En & Em)].
  simpl in En, Em, Ek.
  assert (Hnk : knd s <> KRep).
  { rewrite Ek. destruct incaps as [|a [|b [|c [|d l]]]]; discriminate. }
  assert (HF : Forall (fun p => fst p < nin s) (out_seq s 0 ++ hand s)).
  { apply Forall_app. split; [apply (i_tags _ HI 0); lia|].
    unfold hand. destruct (pc s) eqn:Epc; constructor; [|constructor].
    simpl. destruct (i_hand _ HI _ _ _ Epc) as [A _]. exact A. }
  eapply Permutation_trans; [apply (from_perm (nin s)); exact HF|].
  replace (map (fun k => from k (out_seq s 0 ++ hand s)) (seq 0 (nin s))) with (gots s); [apply Permutation_refl|].
  rewrite <- (map_nth_seq (gots s) []) at 1. rewrite (i_gots _ HI).
  apply map_ext_in. intros k Hk. apply in_seq in Hk. symmetry. apply (i_merge _ HI Hnk). lia.
Qed.

(* ---- C12_chans_terminates ---- *)
Lemma filter_len_le {A} (f : A -> bool) l : length (filter f l) <= length l.
Proof. induction l as [|x l IH]; simpl; [lia|]. destruct (f x); simpl; lia. Qed.

Lemma count_true_all l : count_true l = length l -> forall k, k < length l -> nth k l false = true.
Proof.
  unfold count_true. induction l as [|b l IH]; intros H k Hk; simpl in *; [lia|].
  destruct b; simpl in H.
  - destruct k; [reflexivity|]. apply IH; lia.
  - exfalso. pose proof (filter_len_le (fun b : bool => b) l) as F. lia.
Qed.

Lemma count_true_some_false l : count_true l < length l -> exists k, k < length l /\ nth k l false = false.
Proof.
  unfold count_true. induction l as [|b l IH]; intros H; simpl in *; [lia|].
  destruct b; simpl in H.
  - destruct IH as (k & Hk & E); [lia|]. exists (S k). split; [lia|exact E].
  - exists 0. split; [lia|reflexivity].
Qed.

Lemma ret_all_seen s : Inv s -> ret_pc (pc s) = true -> forall k, k < nin s -> nth k (seen_closed s) false = true.
Proof.
  intros HI Hret k Hk. pose proof (i_sel _ HI) as S. pose proof (i_kind _ HI) as K. unfold sel_ok in S.
  rewrite Hret in S.
  destruct (knd s).
  - assert (k = 0) by lia. subst. apply S. reflexivity.
  - destruct S as (_ & B & C). apply count_true_all; rewrite (i_seen _ HI); [congruence|exact Hk].
  - destruct S as (_ & B & C). apply count_true_all; rewrite (i_seen _ HI); [congruence|exact Hk].
  - destruct S as (_ & B & C). specialize (C eq_refl).
    destruct (nth k (seen_closed s) false) eqn:E; [reflexivity|].
    exfalso. assert (X : In k (cases s)) by (apply B; auto). rewrite C in X. destruct X.
  - assert (k = 0) by lia. subst. apply S. reflexivity.
Qed.

(* safety direction: once the call is about to return / has returned, every input is closed and drained
   and everything that was ever sent into an input has been sent on the output *)
Theorem chans_returned_only_when_done incaps outcap s :
  reachable qstep (init_merge incaps outcap) s ->
  ret_pc (pc s) = true ->
  forall k, k < length incaps ->
    closed (chn s k) = true /\ buf (chn s k) = [] /\ nth k (produced s) [] = from k (out_seq s 0).
Proof.
  intros Hr Hret k Hk.
  destruct (reachable_inv _ _ (inv_init_merge incaps outcap) Hr) as [HI (Ek & En & Em)].
  simpl in En, Em, Ek. rewrite <- En in Hk.
  assert (Hnk : knd s <> KRep).
  { rewrite Ek. destruct incaps as [|a [|b [|c [|d l]]]]; discriminate. }
  destruct (i_seen_closed _ HI k Hk (ret_all_seen _ HI Hret k Hk)) as [A B].
  split; [exact A|]. split; [exact B|].
  rewrite (i_in _ HI k Hk), B, app_nil_r. rewrite <- (i_merge _ HI Hnk k Hk).
  unfold hand. destruct (pc s); try discriminate; rewrite app_nil_r; reflexivity.
Qed.

(* progress: while the call is running, either one of its own steps is enabled, or it waits for an input that is
   open and empty (its producer must send or close), or it waits for room in an output (its consumer must receive) *)
Definition lib_enabled (s : st) : Prop := exists l, In l (LRet :: lib_taus s) /\ enabled s l = true.
Definition waits_for_input (s : st) : Prop :=
  pc s = LLoop /\ exists pos k, sel s pos = Some k /\ closed (chn s k) = false /\ buf (chn s k) = [].
Definition waits_for_output (s : st) : Prop :=
  exists k v j, pc s = LHand k v j /\ cap (chn s (nin s + j)) <= length (buf (chn s (nin s + j))).

Lemma sel_pos_le s pos k : Inv s -> sel s pos = Some k -> pos < S (nin s).
Proof.
  intros HI H. pose proof (i_sel _ HI) as S. pose proof (i_kind _ HI) as K. unfold sel, sel_ok in *.
  destruct (knd s).
  - destruct (Nat.eqb pos 0) eqn:E; [apply Nat.eqb_eq in E; lia|discriminate].
  - destruct (nth_error (live s) pos) eqn:E; [|discriminate].
    assert (pos < length (live s)) by (apply nth_error_Some; congruence). rewrite (i_live _ HI) in *. lia.
  - destruct (nth_error (live s) pos) eqn:E; [|discriminate].
    assert (pos < length (live s)) by (apply nth_error_Some; congruence). rewrite (i_live _ HI) in *. lia.
  - destruct S as (A & B & _).
    assert (pos < length (cases s)) by (apply nth_error_Some; congruence).
    assert (length (cases s) <= length (seq 0 (nin s))).
    { apply NoDup_incl_length; [exact A|]. intros x Hx. apply in_seq. apply B in Hx. lia. }
    rewrite seq_length in *. lia.
  - destruct (Nat.eqb pos 0) eqn:E; [apply Nat.eqb_eq in E; lia|discriminate].
Qed.

Lemma recv_enabled s pos k :
  Inv s -> pc s = LLoop -> sel s pos = Some k -> (closed (chn s k) = true \/ buf (chn s k) <> []) -> lib_enabled s.
Proof.
  intros HI Epc Hsel Hready.
  destruct (sel_unseen _ _ _ HI Epc Hsel) as [Hk _].
  exists (TLibRecv pos). split.
  - right. unfold lib_taus. apply in_or_app. left. apply in_map. apply in_seq. pose proof (sel_pos_le _ _ _ HI Hsel). lia.
  - unfold enabled, step. rewrite Epc, Hsel.
    assert (Hc : nth_error (chs s) k = Some (chn s k)).
    { unfold chn. apply nth_error_of_nth. rewrite (i_chs _ HI). lia. }
    rewrite Hc. destruct (buf (chn s k)) eqn:Eb; [|reflexivity].
    destruct Hready as [-> | X]; [reflexivity | congruence].
Qed.

Lemma progress_inv s :
  Inv s -> pc s <> LInit -> pc s <> LDone -> lib_enabled s \/ waits_for_input s \/ waits_for_output s.
Proof.
  intros HI Hni Hnd.
  destruct (pc s) as [| |k v j| |] eqn:Epc; try congruence.
  - (* LLoop *)
    assert (Hsome : (exists pos k, sel s pos = Some k) \/ (knd s = KMR /\ cases s = [])).
    { pose proof (i_sel _ HI) as S. pose proof (i_kind _ HI) as K. unfold sel_ok in S. rewrite Epc in S. simpl in S.
      unfold sel. destruct (knd s) eqn:Ek.
      - left. exists 0, 0. reflexivity.
      - destruct S as (A & B & C). rewrite B in C.
        destruct (count_true_some_false (seen_closed s)) as (k & Hk & E); [rewrite (i_seen _ HI); exact C|].
        rewrite (i_seen _ HI) in Hk. left. exists k, k.
        assert (X : nth_error (live s) k = Some (nth k (live s) false)) by (apply nth_error_of_nth; rewrite (i_live _ HI); exact Hk).
        rewrite X, (A k Hk), E. reflexivity.
      - destruct S as (A & B & C). rewrite B in C.
        destruct (count_true_some_false (seen_closed s)) as (k & Hk & E); [rewrite (i_seen _ HI); exact C|].
        rewrite (i_seen _ HI) in Hk. left. exists k, k.
        assert (X : nth_error (live s) k = Some (nth k (live s) false)) by (apply nth_error_of_nth; rewrite (i_live _ HI); exact Hk).
        rewrite X, (A k Hk), E. reflexivity.
      - destruct (cases s) as [|k0 cs] eqn:Ec; [right; auto|]. left. exists 0, k0. reflexivity.
      - left. exists 0, 0. reflexivity. }
    destruct Hsome as [(pos & k & Hsel)|[Ek Ec]].
    + destruct (closed (chn s k)) eqn:Ecl.
      * left. eapply recv_enabled; eauto.
      * destruct (buf (chn s k)) eqn:Eb.
        -- right. left. split; [exact Epc|]. exists pos, k. auto.
        -- left. eapply recv_enabled; eauto. right. congruence.
    + left. exists TLibExit. split.
      * right. unfold lib_taus. apply in_or_app. right. simpl. auto.
      * unfold enabled, step. rewrite Ek, Epc, Ec. reflexivity.
  - (* LHand *)
    destruct (i_hand _ HI _ _ _ Epc) as (Hk & Hj & _).
    destruct (Nat.lt_ge_cases (length (buf (chn s (nin s + j)))) (cap (chn s (nin s + j)))) as [Hlt|Hge].
    + left. exists TLibSend. split.
      * right. unfold lib_taus. apply in_or_app. right. simpl. auto.
      * unfold enabled, step. rewrite Epc.
        assert (Hc : nth_error (chs s) (nin s + j) = Some (chn s (nin s + j))).
        { unfold chn. apply nth_error_of_nth. rewrite (i_chs _ HI). lia. }
        rewrite Hc.
        destruct (nth_error (conss s) j) eqn:Ecn.
        -- apply Nat.ltb_lt in Hlt. rewrite Hlt. reflexivity.
        -- exfalso. apply nth_error_None in Ecn. rewrite (i_conss _ HI) in Ecn. lia.
    + right. right. exists k, v, j. auto.
  - (* LRetp *)
    left. exists LRet. split; [left; reflexivity|]. unfold enabled, step. rewrite Epc. reflexivity.
Qed.

Theorem chans_progress incaps outcap s :
  reachable qstep (init_merge incaps outcap) s -> pc s <> LInit -> pc s <> LDone ->
  lib_enabled s \/ waits_for_input s \/ waits_for_output s.
Proof.
  intros Hr. destruct (reachable_inv _ _ (inv_init_merge incaps outcap) Hr) as [HI _]. apply progress_inv. exact HI.
Qed.

(* liveness direction of "returns iff": when every input is closed and drained and nothing is in hand, the call
   needs nobody else: one of its own steps is enabled until it has returned *)
Theorem chans_returns_when_done incaps outcap s :
  reachable qstep (init_merge incaps outcap) s -> pc s = LLoop \/ pc s = LRetp ->
  (forall k, k < length incaps -> closed (chn s k) = true) ->
  lib_enabled s.
Proof.
  intros Hr Hpc Hcl.
  destruct (reachable_inv _ _ (inv_init_merge incaps outcap) Hr) as [HI (Ek & En & Em)]. simpl in En.
  destruct (progress_inv s HI) as [A|[(Epc & pos & k & Hsel & Hc & _)|(k & v & j & Epc & _)]]; auto.
  - destruct Hpc as [E|E]; rewrite E; discriminate.
  - destruct Hpc as [E|E]; rewrite E; discriminate.
  - destruct (sel_unseen _ _ _ HI Epc Hsel) as [Hk _]. rewrite Hcl in Hc by lia. discriminate.
  - destruct Hpc as [E|E]; rewrite E in Epc; discriminate.
Qed.

(* ---- C12_replicate ---- *)
Theorem replicate_correct srccap dstcaps s :
  reachable qstep (init_replicate srccap dstcaps) s ->
  let got := nth 0 (gots s) [] in
  (* the source's values are received in order, none lost *)
  nth 0 (produced s) [] = got ++ buf (chn s 0)
  /\ (forall j, j < length dstcaps ->
       (* destination j has been sent a prefix of what was received: all of it, or all but the value in hand;
          destinations earlier in the list get the value in hand first *)
       (match pc s with
        | LHand _ v j0 => exists g0, got = g0 ++ [v] /\ vals s j = if Nat.ltb j j0 then got else g0
        | _ => vals s j = got
        end)
       (* and what was sent to it is what its consumer took plus what sits in its buffer *)
       /\ vals s j = nth j (taken s) [] ++ buf (chn s (1 + j)))
  (* the call returns only when the source is closed and drained and every destination has been sent everything *)
  /\ (ret_pc (pc s) = true ->
      closed (chn s 0) = true /\ buf (chn s 0) = [] /\ forall j, j < length dstcaps -> vals s j = nth 0 (produced s) []).
Proof.
  intros Hr got.
  destruct (reachable_inv _ _ (inv_init_replicate srccap dstcaps) Hr) as [HI (Ek & En & Em)].
  simpl in Ek, En, Em.
  pose proof (i_rep _ HI Ek) as R. unfold rep_ok in R.
  pose proof (i_in _ HI 0 ltac:(lia)) as I0.
  split; [exact I0|]. split.
  - intros j Hj. rewrite <- Em in Hj. split.
    + destruct (pc s) eqn:Epc; try (apply R; exact Hj).
      destruct R as (g0 & G & V). exists g0. split; [exact G|]. rewrite (V j Hj). unfold got. rewrite G. reflexivity.
    + pose proof (i_out _ HI j Hj) as A. rewrite En in A. exact A.
  - intros Hret.
    destruct (i_seen_closed _ HI 0 ltac:(lia) (ret_all_seen _ HI Hret 0 ltac:(lia))) as [A B].
    split; [exact A|]. split; [exact B|]. intros j Hj. rewrite <- Em in Hj.
    rewrite I0, B, app_nil_r. destruct (pc s); try discriminate; apply R; exact Hj.
Qed.

Theorem replicate_progress srccap dstcaps s :
  reachable qstep (init_replicate srccap dstcaps) s -> pc s <> LInit -> pc s <> LDone ->
  lib_enabled s \/ waits_for_input s \/ waits_for_output s.
Proof.
  intros Hr. destruct (reachable_inv _ _ (inv_init_replicate srccap dstcaps) Hr) as [HI _]. apply progress_inv. exact HI.
Qed.
End CMP.

(* ================================================================================================ *)
(* stream.Merge *)
Module SMP.
Import SM.

Definition from (i : nat) (l : list (nat * Z)) : list Z := map snd (filter (fun p => Nat.eqb (fst p) i) l).
Lemma from_app i l1 l2 : from i (l1 ++ l2) = from i l1 ++ from i l2.
Proof. unfold from. rewrite filter_app, map_app. reflexivity. Qed.
Lemma from_snoc_same i l v : from i (l ++ [(i, v)]) = from i l ++ [v].
Proof. rewrite from_app. unfold from at 2. simpl. rewrite Nat.eqb_refl. reflexivity. Qed.
Lemma from_snoc_other i j l v : j <> i -> from i (l ++ [(j, v)]) = from i l.
Proof.
  intros H. rewrite from_app. unfold from at 2. simpl. apply Nat.eqb_neq in H. rewrite H. apply app_nil_r.
Qed.

Definition count {A} (f : A -> bool) (l : list A) : nat := length (filter f l).
Definition b2n (b : bool) : nat := if b then 1 else 0.

Lemma count_upd {A} (f : A -> bool) l i x y :
  nth_error l i = Some x -> count f (upd l i y) + b2n (f x) = count f l + b2n (f y).
Proof.
  unfold count. revert i. induction l as [|a l IH]; intros [|i] H; simpl in *; try discriminate.
  - inversion H; subst. destruct (f x), (f y); simpl; lia.
  - specialize (IH i H). destruct (f a); simpl; lia.
Qed.

Lemma count_map {A} (f : A -> bool) (g : A -> A) l : (forall x, f (g x) = f x) -> count f (map g l) = count f l.
Proof.
  intros H. unfold count. induction l as [|a l IH]; simpl; [reflexivity|]. rewrite H. destruct (f a); simpl; congruence.
Qed.

Lemma count_le {A} (f : A -> bool) l : count f l <= length l.
Proof. unfold count. induction l as [|a l IH]; simpl; [lia|]. destruct (f a); simpl; lia. Qed.

Lemma count_all {A} (f : A -> bool) l : count f l = length l -> forall i x, nth_error l i = Some x -> f x = true.
Proof.
  unfold count. induction l as [|a l IH]; intros H i x Hx; [destruct i; discriminate|].
  simpl in H. destruct (f a) eqn:E; simpl in H.
  - destruct i; simpl in Hx; [inversion Hx; subst; exact E | eapply IH; eauto].
  - exfalso. pose proof (count_le f l) as L. unfold count in L. lia.
Qed.

Lemma count_zero {A} (f : A -> bool) l : count f l = 0 -> forall i x, nth_error l i = Some x -> f x = false.
Proof.
  unfold count. induction l as [|a l IH]; intros H i x Hx; [destruct i; discriminate|].
  simpl in H. destruct (f a) eqn:E; simpl in H; [discriminate|].
  destruct i; simpl in Hx; [inversion Hx; subst; exact E | eapply IH; eauto].
Qed.

Lemma nth_error_map_some {A B} (g : A -> B) l i y :
  nth_error (map g l) i = Some y -> exists x, nth_error l i = Some x /\ y = g x.
Proof.
  revert i. induction l as [|a l IH]; intros [|i] H; simpl in *; try discriminate.
  - inversion H. eauto.
  - apply IH. exact H.
Qed.

Lemma nth_error_upd_cases {A} (l : list A) i j x y :
  nth_error (upd l i x) j = Some y -> (j = i /\ y = x) \/ (j <> i /\ nth_error l j = Some y).
Proof.
  intros H. destruct (Nat.eq_dec i j) as [->|Hne].
  - left. split; [reflexivity|].
    assert (j < length l).
    { assert (X : j < length (upd l j x)) by (apply nth_error_Some; congruence). rewrite upd_length in X. exact X. }
    rewrite nth_error_upd_same in H by assumption. congruence.
  - right. rewrite nth_error_upd_other in H by exact Hne. split; [congruence|exact H].
Qed.

(* ---- classification of worker program counters ---- *)
Definition post_defer (p : wpc) : bool :=
  match p with WLoadOnce | WSCloseNil | WCloseIn | WWgDone | WExited => true | _ => false end.
Definition post_loop (p : wpc) : bool := match p with WDefer => true | _ => post_defer p end.
Definition closer (p : wpc) : bool := match p with WLoadOnce | WSCloseNil => true | _ => false end.
Definition not_exited (p : wpc) : bool := match p with WExited => false | _ => true end.
Definition held (p : wpc) : list Z :=
  match p with WSendPoll v | WSendSel v | WSendParked v => [v] | _ => [] end.
Definition closed_in (p : wpc) : nat := match p with WWgDone | WExited => 1 | _ => 0 end.
Definition winning (p : wpc) (e : err) : Prop := p = WCancel e \/ p = WSCloseErr e.

(* ---- per-worker invariant ---- *)
Record WI (s : st) (i : nat) (p : wpc) (x : src) : Prop := {
  wi_nopanic : p <> WPanic;
  wi_idle : p = WIdle <-> merged s = false;
  wi_winner : forall e, winning p e -> winners s = [(i, e)] /\ sdone s = false;
  wi_closenil : p = WSCloseNil -> once s = false;
  wi_closer : closer p = true -> ndone s = nw s;
  wi_parked : is_parked p = true -> ctx s = false /\ rdone s = false /\ sdone s = false;
  wi_data : if post_loop p then exists d, s_out x = from i (recvd s) ++ d
            else s_out x = from i (recvd s) ++ held p;
  wi_ended : post_loop p = true -> once s = false -> rdone s = false ->
             s_items x = [] /\ s_fin x = None /\ s_out x = from i (recvd s);
  wi_closes : s_closes x = closed_in p
}.

Definition results (s : st) : list nres := seen s ++ match kpc_ s with KRet r => [r] | _ => [] end.
Definition ended_ok (s : st) : Prop :=
  forall i x, nth_error (srcs s) i = Some x -> s_items x = [] /\ s_fin x = None /\ s_out x = from i (recvd s).

Definition k_ok (s : st) : Prop :=
  match kpc_ s with
  | KIdle => rdone s = true -> merged s = true /\ (nw s = 0 \/ wg s = 0)
  | KNextSel _ | KRet _ | KClose1 => rdone s = false /\ merged s = true
  | KNextParked _ => rdone s = false /\ merged s = true /\ sdone s = false
  | KDrain => rdone s = false /\ merged s = true /\ sdone s = true
  | KClose2 => rdone s = true /\ merged s = true
  | KWait => rdone s = true /\ merged s = true /\ ctx s = true
  | KCloseRet => merged s = true /\ (nw s = 0 \/ (rdone s = true /\ ctx s = true /\ wg s = 0))
  end.

Definition seen_ok (s : st) : Prop :=
  (forall z, In (NErr (EScr z)) (results s) -> serr s = Some (EScr z))
  /\ (In NEnd (results s) -> nw s = 0 \/ (sdone s = true /\ serr s = None /\ ended_ok s)).

Record GI (s : st) : Prop := {
  g_lenw : length (ws s) = nw s;
  g_lens : length (srcs s) = nw s;
  g_ndone : ndone s = count post_defer (ws s);
  g_wg : merged s = true -> wg s = count not_exited (ws s);
  g_once : if once s
           then exists i e p, winners s = [(i, e)] /\ nth_error (ws s) i = Some p /\ (sdone s = true \/ winning p e)
           else winners s = [];
  g_sender : if sdone s
             then sclosed s = 1 /\
                  match serr s with
                  | None => once s = false /\ ndone s = nw s /\ (forall i p, nth_error (ws s) i = Some p -> closer p = false)
                  | Some e => exists i, winners s = [(i, e)]
                  end
             else serr s = None /\ sclosed s = 0;
  g_ctx : ctx s = true -> once s = true \/ rdone s = true;
  g_lone : forall i j p q, nth_error (ws s) i = Some p -> nth_error (ws s) j = Some q ->
                           closer p = true -> closer q = true -> i = j;
  g_alldone : ndone s = nw s -> nw s <> 0 -> sdone s = true \/ exists i p, nth_error (ws s) i = Some p /\ closer p = true;
  g_kpc : k_ok s;
  g_seen : seen_ok s;
  g_tags : Forall (fun p => fst p < nw s) (recvd s);
  g_workers : forall i p x, nth_error (ws s) i = Some p -> nth_error (srcs s) i = Some x -> WI s i p x
}.

(* ---- consequences of the invariant ---- *)
Lemma count_lt {A} (f : A -> bool) l i x : nth_error l i = Some x -> f x = false -> count f l < length l.
Proof.
  unfold count. revert i. induction l as [|a l IH]; intros [|i] H E; simpl in *; try discriminate.
  - inversion H; subst. rewrite E. pose proof (count_le f l) as L. unfold count in L. lia.
  - specialize (IH i H E). destruct (f a); simpl; lia.
Qed.

Lemma src_exists s i p : GI s -> nth_error (ws s) i = Some p -> exists x, nth_error (srcs s) i = Some x.
Proof.
  intros HG H. assert (i < length (ws s)) by (apply nth_error_Some; congruence).
  destruct (nth_error (srcs s) i) eqn:E; [eauto|]. apply nth_error_None in E.
  rewrite (g_lens _ HG) in E. rewrite (g_lenw _ HG) in *. lia.
Qed.

(* a worker that has not yet run its deferred AddUint32 exists: nDone < len(in) *)
Lemma pre_defer_lt s i p : GI s -> nth_error (ws s) i = Some p -> post_defer p = false -> ndone s < nw s.
Proof.
  intros HG H E. rewrite (g_ndone _ HG), <- (g_lenw _ HG). eapply count_lt; eauto.
Qed.

Lemma pre_defer_no_closer s i p j q :
  GI s -> nth_error (ws s) i = Some p -> post_defer p = false -> nth_error (ws s) j = Some q -> closer q = false.
Proof.
  intros HG H E Hq. destruct (closer q) eqn:C; [|reflexivity]. exfalso.
  destruct (src_exists _ _ _ HG Hq) as [x Hx].
  pose proof (wi_closer _ _ _ _ (g_workers _ HG j q x Hq Hx) C). pose proof (pre_defer_lt _ _ _ HG H E). lia.
Qed.

Lemma pre_defer_not_nil_closed s i p :
  GI s -> nth_error (ws s) i = Some p -> post_defer p = false -> sdone s = true -> exists e, serr s = Some e.
Proof.
  intros HG H E Hd. pose proof (g_sender _ HG) as S. rewrite Hd in S. destruct S as [_ S].
  destruct (serr s); [eauto|]. destruct S as (_ & A & _). pose proof (pre_defer_lt _ _ _ HG H E). lia.
Qed.

Lemma once_false_no_winner s i p e : GI s -> once s = false -> nth_error (ws s) i = Some p -> ~ winning p e.
Proof.
  intros HG Ho H W. destruct (src_exists _ _ _ HG H) as [x Hx].
  destruct (wi_winner _ _ _ _ (g_workers _ HG i p x H Hx) e W) as [A _].
  pose proof (g_once _ HG) as O. rewrite Ho in O. congruence.
Qed.

Lemma serr_some_once s e : GI s -> sdone s = true -> serr s = Some e -> once s = true.
Proof.
  intros HG Hd He. pose proof (g_sender _ HG) as S. rewrite Hd, He in S. destruct S as [_ [i W]].
  pose proof (g_once _ HG) as O. destruct (once s); [reflexivity|congruence].
Qed.

Lemma merged_of_worker s i p : GI s -> nth_error (ws s) i = Some p -> p <> WIdle -> merged s = true.
Proof.
  intros HG H Hp. destruct (src_exists _ _ _ HG H) as [x Hx].
  pose proof (wi_idle _ _ _ _ (g_workers _ HG i p x H Hx)) as [_ A].
  destruct (merged s); [reflexivity|]. exfalso. apply Hp. apply A. reflexivity.
Qed.

(* ---- states that differ only in the consumer's own components ---- *)
Definition same_core (s s' : st) : Prop :=
  nw s' = nw s /\ ws s' = ws s /\ srcs s' = srcs s /\ merged s' = merged s /\ ctx s' = ctx s /\ sdone s' = sdone s
  /\ serr s' = serr s /\ rdone s' = rdone s /\ ndone s' = ndone s /\ once s' = once s /\ wg s' = wg s
  /\ recvd s' = recvd s /\ winners s' = winners s /\ sclosed s' = sclosed s.

Lemma GI_same_core s s' : GI s -> same_core s s' -> k_ok s' -> seen_ok s' -> GI s'.
Proof.
  intros HG (E1 & E2 & E3 & E4 & E5 & E6 & E7 & E8 & E9 & E10 & E11 & E12 & E13 & E14) HK HS.
  constructor; rewrite ?E1, ?E2, ?E3, ?E4, ?E5, ?E6, ?E7, ?E8, ?E9, ?E10, ?E11, ?E12, ?E13, ?E14;
    try (apply HG; fail); try assumption.
  intros i p x Hp Hx. destruct (g_workers _ HG i p x Hp Hx) as [w1 w2 w3 w4 w5 w6 w7 w8 w9].
  constructor; rewrite ?E1, ?E2, ?E3, ?E4, ?E5, ?E6, ?E7, ?E8, ?E9, ?E10, ?E11, ?E12, ?E13, ?E14; assumption.
Qed.

(* ---- a worker moves on its own: only ws[i] (and possibly its source's record) changes ---- *)
Lemma upd_same {A} (l : list A) i x : nth_error l i = Some x -> upd l i x = l.
Proof.
  revert i. induction l as [|a l IH]; intros [|i] H; simpl in *; try discriminate.
  - inversion H; reflexivity.
  - rewrite IH by exact H. reflexivity.
Qed.

Lemma with_srcs_same s i x : nth_error (srcs s) i = Some x -> with_srcs s (upd (srcs s) i x) = s.
Proof. intros H. unfold with_srcs. rewrite upd_same by exact H. destruct s; reflexivity. Qed.

(* most general form: the caller supplies the consumer-side facts and the other workers' invariants *)
Lemma GI_local_gen s s' i p p' x x' :
  GI s -> nth_error (ws s) i = Some p -> nth_error (srcs s) i = Some x ->
  nw s' = nw s -> ws s' = upd (ws s) i p' -> srcs s' = upd (srcs s) i x' ->
  merged s' = merged s -> ctx s' = ctx s -> sdone s' = sdone s -> serr s' = serr s -> rdone s' = rdone s ->
  once s' = once s -> winners s' = winners s -> sclosed s' = sclosed s ->
  ndone s' + b2n (post_defer p) = ndone s + b2n (post_defer p') -> (post_defer p = true -> post_defer p' = true) ->
  (merged s = true -> wg s' + b2n (not_exited p) = wg s + b2n (not_exited p')) ->
  (closer p' = true -> closer p = true \/ post_defer p = false) ->
  (closer p = true -> closer p' = true \/ sdone s = true) ->
  (post_defer p = false -> post_defer p' = true -> ndone s' = nw s -> closer p' = true) ->
  (forall e, winning p e -> winning p' e) ->
  (forall j q y, j <> i -> nth_error (ws s) j = Some q -> nth_error (srcs s) j = Some y -> WI s' j q y) ->
  k_ok s' -> seen_ok s' -> Forall (fun p => fst p < nw s) (recvd s') ->
  (WI s i p x -> WI s' i p' x') ->
  GI s'.
Proof.
  intros HG Hp Hx En Ews Esrcs Em Ec Ed Ee Er Eo Ewn Esc Hnd Hmono Hwg Ecl1 Ecl2 Ecl3 Hnw Hothers HK HS HT HW.
  assert (Hi : i < length (ws s)) by (apply nth_error_Some; congruence).
  constructor; rewrite ?En, ?Ews, ?Esrcs, ?Em, ?Ec, ?Ed, ?Ee, ?Er, ?Eo, ?Ewn, ?Esc, ?upd_length;
    try (apply HG; fail); try assumption.
  - pose proof (count_upd post_defer _ _ _ p' Hp) as C. pose proof (g_ndone _ HG). lia.
  - intros Hm. pose proof (count_upd not_exited _ _ _ p' Hp) as C. pose proof (g_wg _ HG Hm). specialize (Hwg Hm). lia.
  - pose proof (g_once _ HG) as O. destruct (once s); [|exact O].
    destruct O as (i0 & e & p0 & A & B & C). exists i0, e.
    destruct (Nat.eq_dec i i0) as [<-|Hne].
    + exists p'. split; [exact A|]. split; [apply nth_error_upd_same; exact Hi|].
      destruct C as [C|C]; [left; exact C|]. rewrite Hp in B. inversion B; subst. right. apply Hnw. exact C.
    + exists p0. split; [exact A|]. split; [rewrite nth_error_upd_other by exact Hne; exact B|exact C].
  - pose proof (g_sender _ HG) as S. destruct (sdone s) eqn:Ed'; [|exact S]. destruct S as [S1 S2]. split; [exact S1|].
    destruct (serr s) eqn:Ee'; [exact S2|]. destruct S2 as (A & B & C).
    assert (Hpd : post_defer p = true).
    { eapply count_all; [|exact Hp]. rewrite <- (g_ndone _ HG), (g_lenw _ HG). exact B. }
    assert (Hpd' : post_defer p' = true) by (apply Hmono; exact Hpd).
    split; [exact A|]. split; [rewrite Hpd, Hpd' in Hnd; lia|].
    intros j q Hq. destruct (nth_error_upd_cases _ _ _ _ _ Hq) as [[-> ->]|[Hne Hq']].
    + destruct (closer p') eqn:E; [|reflexivity]. destruct (Ecl1 eq_refl) as [Cp|Cp].
      * rewrite <- (C i p Hp). symmetry. exact Cp.
      * congruence.
    + eapply C; eauto.
  - intros j1 j2 q1 q2 H1 H2 C1 C2.
    destruct (nth_error_upd_cases _ _ _ _ _ H1) as [[-> ->]|[Hne1 H1']];
      destruct (nth_error_upd_cases _ _ _ _ _ H2) as [[-> ->]|[Hne2 H2']]; auto.
    + destruct (Ecl1 C1) as [Cp|Cp]; [eapply (g_lone _ HG); eauto|].
      rewrite (pre_defer_no_closer _ _ _ _ _ HG Hp Cp H2') in C2. discriminate.
    + destruct (Ecl1 C2) as [Cp|Cp]; [eapply (g_lone _ HG); eauto|].
      rewrite (pre_defer_no_closer _ _ _ _ _ HG Hp Cp H1') in C1. discriminate.
    + eapply (g_lone _ HG); eauto.
  - (* alldone *) intros A B.
    destruct (post_defer p) eqn:Epd; destruct (post_defer p') eqn:Epd'; simpl in Hnd.
    + assert (A' : ndone s = nw s) by lia.
      destruct (g_alldone _ HG A' B) as [D|(j & q & Hq & C)]; [left; exact D|].
      destruct (Nat.eq_dec i j) as [<-|Hne].
      * rewrite Hp in Hq. inversion Hq; subst. destruct (Ecl2 C) as [C'|D]; [|left; exact D].
        right. exists i, p'. split; [apply nth_error_upd_same; exact Hi|exact C'].
      * right. exists j, q. split; [rewrite nth_error_upd_other by exact Hne; exact Hq|exact C].
    + exfalso. pose proof (count_upd post_defer _ _ _ p' Hp) as Cn. rewrite Epd, Epd' in Cn. simpl in Cn.
      pose proof (g_ndone _ HG). assert (X : count post_defer (upd (ws s) i p') < length (upd (ws s) i p')).
      { eapply count_lt; [apply nth_error_upd_same; exact Hi|exact Epd']. }
      rewrite upd_length, (g_lenw _ HG) in X. lia.
    + (* the worker that makes nDone reach len(in) becomes the closer *)
      right. exists i, p'. split; [apply nth_error_upd_same; exact Hi|]. apply Ecl3; auto.
    + exfalso. pose proof (pre_defer_lt _ _ _ HG Hp Epd). lia.
  - intros j q y Hq Hy. destruct (nth_error_upd_cases _ _ _ _ _ Hq) as [[-> ->]|[Hne Hq']].
    + rewrite nth_error_upd_same in Hy by (rewrite (g_lens _ HG), <- (g_lenw _ HG); exact Hi). inversion Hy; subst y.
      apply HW. exact (g_workers _ HG i p x Hp Hx).
    + rewrite nth_error_upd_other in Hy by congruence. apply Hothers; assumption.
Qed.


(* general form: worker i moves from p to p' (its source record from x to x'); nDone and the WaitGroup counter follow *)
Lemma GI_local s s' i p p' x x' :
  GI s -> nth_error (ws s) i = Some p -> nth_error (srcs s) i = Some x ->
  nw s' = nw s -> ws s' = upd (ws s) i p' -> srcs s' = upd (srcs s) i x' ->
  merged s' = merged s -> ctx s' = ctx s -> sdone s' = sdone s -> serr s' = serr s -> rdone s' = rdone s ->
  once s' = once s -> recvd s' = recvd s -> winners s' = winners s -> sclosed s' = sclosed s ->
  kpc_ s' = kpc_ s -> seen s' = seen s ->
  ndone s' + b2n (post_defer p) = ndone s + b2n (post_defer p') -> (post_defer p = true -> post_defer p' = true) ->
  (merged s = true -> wg s' + b2n (not_exited p) = wg s + b2n (not_exited p')) -> (wg s = 0 -> wg s' = 0) ->
  (closer p' = true -> closer p = true \/ post_defer p = false) ->
  (closer p = true -> closer p' = true \/ sdone s = true) ->
  (post_defer p = false -> post_defer p' = true -> ndone s' = nw s -> closer p' = true) ->
  (forall e, winning p e -> winning p' e) ->
  ((s_items x' = s_items x /\ s_fin x' = s_fin x /\ s_out x' = s_out x) \/ post_defer p = false) ->
  (ndone s' = ndone s \/ forall j q, nth_error (ws s) j = Some q -> closer q = false) ->
  (WI s i p x -> WI s' i p' x') ->
  GI s'.
Proof.
  intros HG Hp Hx En Ews Esrcs Em Ec Ed Ee Er Eo Erc Ewn Esc Ek Esn Hnd Hmono Hwg Hwg0 Ecl1 Ecl2 Ecl3 Hnw Hsrc Hndc HW.
  assert (Hi : i < length (ws s)) by (apply nth_error_Some; congruence).
  assert (Hothers : forall j q y, j <> i -> nth_error (ws s) j = Some q -> nth_error (srcs s) j = Some y -> WI s' j q y).
  { intros j q y Hne Hq Hy. destruct (g_workers _ HG j q y Hq Hy) as [w1 w2 w3 w4 w5 w6 w7 w8 w9].
    constructor; rewrite ?En, ?Em, ?Ec, ?Ed, ?Ee, ?Er, ?Eo, ?Erc, ?Ewn; try assumption.
    intros C. destruct Hndc as [E|E]; [rewrite E; apply w5; exact C|]. rewrite (E j q Hq) in C. discriminate. }
  constructor; rewrite ?En, ?Ews, ?Esrcs, ?Em, ?Ec, ?Ed, ?Ee, ?Er, ?Eo, ?Erc, ?Ewn, ?Esc, ?upd_length;
    try (apply HG; fail).
  - pose proof (count_upd post_defer _ _ _ p' Hp) as C. pose proof (g_ndone _ HG). lia.
  - intros Hm. pose proof (count_upd not_exited _ _ _ p' Hp) as C. pose proof (g_wg _ HG Hm). specialize (Hwg Hm). lia.
  - pose proof (g_once _ HG) as O. destruct (once s); [|exact O].
    destruct O as (i0 & e & p0 & A & B & C). exists i0, e.
    destruct (Nat.eq_dec i i0) as [<-|Hne].
    + exists p'. split; [exact A|]. split; [apply nth_error_upd_same; exact Hi|].
      destruct C as [C|C]; [left; exact C|]. rewrite Hp in B. inversion B; subst. right. apply Hnw. exact C.
    + exists p0. split; [exact A|]. split; [rewrite nth_error_upd_other by exact Hne; exact B|exact C].
  - pose proof (g_sender _ HG) as S. destruct (sdone s) eqn:Ed'; [|exact S]. destruct S as [S1 S2]. split; [exact S1|].
    destruct (serr s) eqn:Ee'; [exact S2|]. destruct S2 as (A & B & C).
    assert (Hpd : post_defer p = true).
    { eapply count_all; [|exact Hp]. rewrite <- (g_ndone _ HG), (g_lenw _ HG). exact B. }
    assert (Hpd' : post_defer p' = true) by (apply Hmono; exact Hpd).
    split; [exact A|]. split; [rewrite Hpd, Hpd' in Hnd; lia|].
    intros j q Hq. destruct (nth_error_upd_cases _ _ _ _ _ Hq) as [[-> ->]|[Hne Hq']].
    + destruct (closer p') eqn:E; [|reflexivity]. destruct (Ecl1 eq_refl) as [Cp|Cp].
      * rewrite <- (C i p Hp). symmetry. exact Cp.
      * congruence.
    + eapply C; eauto.
  - intros j1 j2 q1 q2 H1 H2 C1 C2.
    destruct (nth_error_upd_cases _ _ _ _ _ H1) as [[-> ->]|[Hne1 H1']];
      destruct (nth_error_upd_cases _ _ _ _ _ H2) as [[-> ->]|[Hne2 H2']]; auto.
    + destruct (Ecl1 C1) as [Cp|Cp]; [eapply (g_lone _ HG); eauto|].
      rewrite (pre_defer_no_closer _ _ _ _ _ HG Hp Cp H2') in C2. discriminate.
    + destruct (Ecl1 C2) as [Cp|Cp]; [eapply (g_lone _ HG); eauto|].
      rewrite (pre_defer_no_closer _ _ _ _ _ HG Hp Cp H1') in C1. discriminate.
    + eapply (g_lone _ HG); eauto.
  - (* alldone *) intros A B.
    destruct (post_defer p) eqn:Epd; destruct (post_defer p') eqn:Epd'; simpl in Hnd.
    + assert (A' : ndone s = nw s) by lia.
      destruct (g_alldone _ HG A' B) as [D|(j & q & Hq & C)]; [left; exact D|].
      destruct (Nat.eq_dec i j) as [<-|Hne].
      * rewrite Hp in Hq. inversion Hq; subst. destruct (Ecl2 C) as [C'|D]; [|left; exact D].
        right. exists i, p'. split; [apply nth_error_upd_same; exact Hi|exact C'].
      * right. exists j, q. split; [rewrite nth_error_upd_other by exact Hne; exact Hq|exact C].
    + exfalso. pose proof (count_upd post_defer _ _ _ p' Hp) as Cn. rewrite Epd, Epd' in Cn. simpl in Cn.
      pose proof (g_ndone _ HG). assert (X : count post_defer (upd (ws s) i p') < length (upd (ws s) i p')).
      { eapply count_lt; [apply nth_error_upd_same; exact Hi|exact Epd']. }
      rewrite upd_length, (g_lenw _ HG) in X. lia.
    + (* the worker that makes nDone reach len(in) becomes the closer *)
      right. exists i, p'. split; [apply nth_error_upd_same; exact Hi|]. apply Ecl3; auto.
    + exfalso. pose proof (pre_defer_lt _ _ _ HG Hp Epd). lia.
  - (* k_ok *) pose proof (g_kpc _ HG) as K. unfold k_ok in *. rewrite Ek, ?En, ?Em, ?Ec, ?Ed, ?Er.
    destruct (kpc_ s); try exact K.
    + intros R. destruct (K R) as [M [Z|Z]]; (split; [exact M|]); [left; exact Z|right; apply Hwg0; exact Z].
    + destruct K as [K1 [Z|(K2 & K3 & K4)]]; (split; [exact K1|]); [left; exact Z|right; auto].
  - (* seen_ok *) destruct (g_seen _ HG) as [S1 S2]. unfold seen_ok, results, ended_ok.
    rewrite ?Ek, ?Esn, ?En, ?Ed, ?Ee, ?Erc, ?Esrcs. split; [exact S1|].
    intros HE. destruct (S2 HE) as [Z|(D & E & F)]; [left; exact Z|]. right. split; [exact D|]. split; [exact E|].
    intros j y Hy. destruct (nth_error_upd_cases _ _ _ _ _ Hy) as [[-> ->]|[Hne Hy']].
    + destruct Hsrc as [(Q1 & Q2 & Q3)|Q].
      * rewrite Q1, Q2, Q3. apply (F i x Hx).
      * exfalso. destruct (pre_defer_not_nil_closed _ _ _ HG Hp Q D) as [e He]. congruence.
    + apply (F j y Hy').
  - intros j q y Hq Hy. destruct (nth_error_upd_cases _ _ _ _ _ Hq) as [[-> ->]|[Hne Hq']].
    + rewrite nth_error_upd_same in Hy by (rewrite (g_lens _ HG), <- (g_lenw _ HG); exact Hi). inversion Hy; subst y.
      apply HW. exact (g_workers _ HG i p x Hp Hx).
    + rewrite nth_error_upd_other in Hy by congruence. apply Hothers; assumption.
Qed.

Lemma GI_setw_src s i p p' x x' :
  GI s -> nth_error (ws s) i = Some p -> nth_error (srcs s) i = Some x ->
  post_defer p' = post_defer p -> not_exited p' = not_exited p ->
  (closer p' = true -> closer p = true) -> (closer p = true -> closer p' = true \/ sdone s = true) ->
  (forall e, winning p e -> winning p' e) ->
  ((s_items x' = s_items x /\ s_fin x' = s_fin x /\ s_out x' = s_out x) \/ post_defer p = false) ->
  (WI s i p x -> WI s i p' x') ->
  GI (setw (with_srcs s (upd (srcs s) i x')) i p').
Proof.
  intros HG Hp Hx Epd Ene Ecl1 Ecl2 Hnw Hsrc HW.
  eapply (GI_local s _ i p p' x x'); eauto; simpl; try reflexivity.
  - rewrite Epd. reflexivity.
  - intros _. rewrite Ene. reflexivity.
  - congruence.
  - intros [w1 w2 w3 w4 w5 w6 w7 w8 w9]%HW. constructor; assumption.
Qed.

Lemma GI_setw s i p p' :
  GI s -> nth_error (ws s) i = Some p ->
  post_defer p' = post_defer p -> not_exited p' = not_exited p ->
  (closer p' = true -> closer p = true) -> (closer p = true -> closer p' = true \/ sdone s = true) ->
  (forall e, winning p e -> winning p' e) ->
  (forall x, nth_error (srcs s) i = Some x -> WI s i p x -> WI s i p' x) ->
  GI (setw s i p').
Proof.
  intros HG Hp Epd Ene Ecl1 Ecl2 Hnw HW.
  destruct (src_exists _ _ _ HG Hp) as [x Hx].
  rewrite <- (with_srcs_same s i x Hx) at 1.
  eapply GI_setw_src; eauto.
Qed.

(* ---- preservation, label by label ---- *)
Ltac wi_idle_tac w2 :=
  split; [discriminate | let H := fresh "Hm" in intros H; apply w2 in H; discriminate].

Lemma inv_LSrcEnter s i s' : GI s -> step s (LSrcEnter i) = Some s' -> GI s'.
Proof.
  intros HG Hs. simpl in Hs. destruct (nth_error (ws s) i) as [p|] eqn:Hp; [|discriminate].
  destruct p; try discriminate. inversion Hs; subst s'; clear Hs.
  eapply GI_setw; eauto; try (intros e [W|W]; discriminate); try discriminate.
  intros x Hx [w1 w2 w3 w4 w5 w6 w7 w8 w9].
  constructor; simpl in *; auto; try discriminate; try (intros e [W|W]; discriminate). wi_idle_tac w2.
Qed.

Lemma inv_TSendPoll s i s' : GI s -> step s (TSendPoll i) = Some s' -> GI s'.
Proof.
  intros HG Hs. simpl in Hs. destruct (nth_error (ws s) i) as [p|] eqn:Hp; [|discriminate].
  destruct p; try discriminate. inversion Hs; subst s'; clear Hs.
  destruct (sdone s) eqn:Ed.
  - destruct (pre_defer_not_nil_closed _ _ _ HG Hp eq_refl Ed) as [e He]. rewrite He. simpl.
    pose proof (serr_some_once _ _ HG Ed He) as Ho.
    eapply GI_setw; eauto; try (intros e0 [W|W]; discriminate); try discriminate.
    intros x Hx [w1 w2 w3 w4 w5 w6 w7 w8 w9].
    constructor; simpl in *; auto; try discriminate; try (intros e0 [W|W]; discriminate).
    + wi_idle_tac w2.
    + eexists. exact w7.
    + intros _ Ho'. congruence.
  - eapply GI_setw; eauto; try (intros e0 [W|W]; discriminate); try discriminate.
    intros x Hx [w1 w2 w3 w4 w5 w6 w7 w8 w9].
    constructor; simpl in *; auto; try discriminate; try (intros e0 [W|W]; discriminate). wi_idle_tac w2.
Qed.

Ltac no_win := try (intros ? [?|?]; discriminate); try discriminate.

Lemma inv_LSrcExit s i r s' : GI s -> step s (LSrcExit i r) = Some s' -> GI s'.
Proof.
  intros HG Hs. simpl in Hs. destruct (nth_error (ws s) i) as [p|] eqn:Hp; [|discriminate].
  destruct p; try discriminate. destruct (nth_error (srcs s) i) as [x|] eqn:Hx; [|discriminate].
  assert (Hctx : forall s1, (if ctx s then Some (setw s i (WCas ECtx)) else None) = Some s1 -> GI s1).
  { intros s1 H. destruct (ctx s) eqn:Ec; [|discriminate]. inversion H; subst s1.
    eapply GI_setw; eauto; no_win.
    intros x0 Hx0 [w1 w2 w3 w4 w5 w6 w7 w8 w9].
    constructor; simpl in *; auto; no_win. wi_idle_tac w2. }
  destruct r as [v'| |e].
  - (* item *)
    destruct (s_tokens x) as [|t]; [discriminate|].
    destruct (s_items x) as [|v rest] eqn:Ei; [destruct (s_fin x); discriminate|].
    destruct (Z.eqb v v') eqn:Ev; [|discriminate]. inversion Hs; subst s'; clear Hs.
    eapply GI_setw_src; eauto; no_win.
    intros [w1 w2 w3 w4 w5 w6 w7 w8 w9].
    constructor; simpl in *; auto; no_win.
    + wi_idle_tac w2.
    + rewrite w7, app_nil_r. reflexivity.
  - (* end *)
    destruct (s_tokens x) as [|t]; [discriminate|].
    destruct (s_items x) as [|v rest] eqn:Ei; [|discriminate].
    destruct (s_fin x) eqn:Ef; [discriminate|]. inversion Hs; subst s'; clear Hs.
    eapply GI_setw_src; eauto; no_win.
    intros [w1 w2 w3 w4 w5 w6 w7 w8 w9].
    constructor; simpl in *; auto; no_win.
    + wi_idle_tac w2.
    + exists []. exact w7.
    + intros _ _ _. rewrite w7, app_nil_r. auto.
  - (* error *)
    destruct e as [z| |].
    + destruct (s_tokens x) as [|t]; [discriminate|].
      destruct (s_items x) as [|v rest] eqn:Ei; [|discriminate].
      destruct (s_fin x) as [z0|] eqn:Ef; [|discriminate].
      destruct (Z.eqb z0 z) eqn:Ez; [|discriminate]. inversion Hs; subst s'; clear Hs.
      eapply GI_setw_src; eauto; no_win.
      intros [w1 w2 w3 w4 w5 w6 w7 w8 w9].
      constructor; simpl in *; auto; no_win. wi_idle_tac w2.
    + apply Hctx. exact Hs.
    + destruct (s_tokens x) as [|t]; [discriminate|].
      destruct (s_items x); destruct (s_fin x); discriminate.
Qed.

Lemma inv_TSendSel_local s i a s' : a <> AChan -> GI s -> step s (TSendSel i a) = Some s' -> GI s'.
Proof.
  intros Ha HG Hs. simpl in Hs. destruct (nth_error (ws s) i) as [p|] eqn:Hp; [|discriminate].
  destruct p; try discriminate.
  destruct a; try congruence.
  - (* ACtx *) destruct (ctx s) eqn:Ec; [|discriminate]. inversion Hs; subst s'; clear Hs.
    eapply GI_setw; eauto; no_win.
    intros x Hx [w1 w2 w3 w4 w5 w6 w7 w8 w9].
    constructor; simpl in *; auto; no_win.
    + wi_idle_tac w2.
    + eexists. exact w7.
    + intros _ Ho Hr. destruct (g_ctx _ HG Ec); congruence.
  - (* AStream *) destruct (rdone s) eqn:Er; [|discriminate]. inversion Hs; subst s'; clear Hs.
    eapply GI_setw; eauto; no_win.
    intros x Hx [w1 w2 w3 w4 w5 w6 w7 w8 w9].
    constructor; simpl in *; auto; no_win.
    + wi_idle_tac w2.
    + eexists. exact w7.
    + intros _ _ Hr. congruence.
  - (* ASender *) destruct (sdone s) eqn:Ed; [|discriminate]. inversion Hs; subst s'; clear Hs.
    destruct (pre_defer_not_nil_closed _ _ _ HG Hp eq_refl Ed) as [e He]. rewrite He. simpl.
    pose proof (serr_some_once _ _ HG Ed He) as Ho.
    eapply GI_setw; eauto; no_win.
    intros x Hx [w1 w2 w3 w4 w5 w6 w7 w8 w9].
    constructor; simpl in *; auto; no_win.
    + wi_idle_tac w2.
    + eexists. exact w7.
    + intros _ Ho'. congruence.
  - (* APark *)
    destruct (ctx s || rdone s || sdone s || k_parked s) eqn:Eg; [discriminate|]. inversion Hs; subst s'; clear Hs.
    apply orb_false_elim in Eg. destruct Eg as [Eg _]. apply orb_false_elim in Eg. destruct Eg as [Eg Ed].
    apply orb_false_elim in Eg. destruct Eg as [Ec Er].
    eapply GI_setw; eauto; no_win.
    intros x Hx [w1 w2 w3 w4 w5 w6 w7 w8 w9].
    constructor; simpl in *; auto; no_win. wi_idle_tac w2.
Qed.

Lemma inv_TLoadOnce s i s' : GI s -> step s (TLoadOnce i) = Some s' -> GI s'.
Proof.
  intros HG Hs. simpl in Hs. destruct (nth_error (ws s) i) as [p|] eqn:Hp; [|discriminate].
  destruct p; try discriminate. inversion Hs; subst s'; clear Hs.
  destruct (src_exists _ _ _ HG Hp) as [x0 Hx0].
  pose proof (wi_closer _ _ _ _ (g_workers _ HG _ _ _ Hp Hx0) eq_refl) as Hnd.
  destruct (once s) eqn:Eo.
  - (* somebody won the CAS: the pipe is (being) closed with that error; all workers are past their loop *)
    assert (Hd : sdone s = true).
    { pose proof (g_once _ HG) as O. rewrite Eo in O. destruct O as (i0 & e & p0 & A & B & [C|C]); [exact C|].
      exfalso. assert (post_defer p0 = true).
      { eapply count_all; [|exact B]. rewrite <- (g_ndone _ HG), (g_lenw _ HG). exact Hnd. }
      destruct C as [C|C]; subst p0; discriminate. }
    eapply GI_setw; eauto; no_win.
    intros x Hx [w1 w2 w3 w4 w5 w6 w7 w8 w9].
    constructor; simpl in *; auto; no_win. wi_idle_tac w2.
  - eapply GI_setw; eauto; no_win.
    intros x Hx [w1 w2 w3 w4 w5 w6 w7 w8 w9].
    constructor; simpl in *; auto; no_win. wi_idle_tac w2.
Qed.

Lemma inv_LSrcClose s i s' : GI s -> step s (LSrcClose i) = Some s' -> GI s'.
Proof.
  intros HG Hs. simpl in Hs. destruct (nth_error (ws s) i) as [p|] eqn:Hp; [|discriminate].
  destruct p; try discriminate. destruct (nth_error (srcs s) i) as [x|] eqn:Hx; [|discriminate].
  inversion Hs; subst s'; clear Hs.
  eapply GI_setw_src; eauto; no_win.
  intros [w1 w2 w3 w4 w5 w6 w7 w8 w9].
  constructor; simpl in *; auto; no_win.
  wi_idle_tac w2.
Qed.

(* ---- the consumer's own steps ---- *)
Ltac core := unfold same_core; simpl; repeat split; reflexivity.

Lemma seen_ok_same s s' :
  same_core s s' -> (forall r, In r (results s') -> In r (results s)) -> seen_ok s -> seen_ok s'.
Proof.
  intros (E1 & E2 & E3 & E4 & E5 & E6 & E7 & E8 & E9 & E10 & E11 & E12 & E13 & E14) Hin [S1 S2].
  unfold seen_ok, ended_ok. rewrite E1, E3, E6, E7, E12. split.
  - intros z Hz. apply S1. apply Hin. exact Hz.
  - intros Hz. apply S2. apply Hin. exact Hz.
Qed.

Lemma seen_ok_add s s' r :
  same_core s s' -> (forall r', In r' (results s') -> r' = r \/ In r' (results s)) ->
  (forall z, r = NErr (EScr z) -> serr s = Some (EScr z)) ->
  (r = NEnd -> nw s = 0 \/ (sdone s = true /\ serr s = None /\ ended_ok s)) ->
  seen_ok s -> seen_ok s'.
Proof.
  intros (E1 & E2 & E3 & E4 & E5 & E6 & E7 & E8 & E9 & E10 & E11 & E12 & E13 & E14) Hin H1 H2 [S1 S2].
  unfold seen_ok, ended_ok in *. rewrite E1, E3, E6, E7, E12. split.
  - intros z Hz. destruct (Hin _ Hz) as [<-|Hz']; [apply H1; reflexivity | apply S1; exact Hz'].
  - intros Hz. destruct (Hin _ Hz) as [<-|Hz']; [apply H2; reflexivity | apply S2; exact Hz'].
Qed.

Lemma all_ended s :
  GI s -> sdone s = true -> serr s = None -> rdone s = false -> ended_ok s.
Proof.
  intros HG Hd He Hr. pose proof (g_sender _ HG) as S. rewrite Hd, He in S. destruct S as (_ & Ho & Hn & _).
  intros i x Hx.
  assert (Hi : i < length (ws s)).
  { rewrite (g_lenw _ HG), <- (g_lens _ HG). apply nth_error_Some. congruence. }
  destruct (nth_error (ws s) i) as [p|] eqn:Hp; [|apply nth_error_None in Hp; lia].
  assert (Hpd : post_defer p = true).
  { eapply count_all; [|exact Hp]. rewrite <- (g_ndone _ HG), (g_lenw _ HG). exact Hn. }
  apply (wi_ended _ _ _ _ (g_workers _ HG i p x Hp Hx)); auto.
  destruct p; try discriminate; reflexivity.
Qed.

Lemma inv_LGo s k s' : GI s -> step s (LGo k) = Some s' -> GI s'.
Proof.
  intros HG Hs. simpl in Hs. destruct (merged s) eqn:Em; [|discriminate]. inversion Hs; subst s'; clear Hs.
  eapply GI_same_core; [exact HG | core | exact (g_kpc _ HG) |].
  eapply seen_ok_same; [core | | exact (g_seen _ HG)]. intros r Hr. exact Hr.
Qed.

Lemma inv_LCallNext s c s' : GI s -> step s (LCallNext c) = Some s' -> GI s'.
Proof.
  intros HG Hs. simpl in Hs. destruct (kpc_ s) eqn:Ek; try discriminate.
  destruct (kgo s) as [|g]; [discriminate|]. destruct (kprog s) as [|[c'|] rest]; try discriminate.
  destruct (Nat.eqb c c' && merged s && negb (rdone s)) eqn:Eg; [|discriminate]. inversion Hs; subst s'; clear Hs.
  apply andb_prop in Eg. destruct Eg as [Eg Er]. apply andb_prop in Eg. destruct Eg as [_ Em].
  apply negb_true_iff in Er.
  destruct (ws s) as [|p0 wl] eqn:Ew.
  - assert (Hn : nw s = 0) by (rewrite <- (g_lenw _ HG), Ew; reflexivity).
    eapply GI_same_core; [exact HG | core | unfold k_ok; simpl; auto |].
    eapply seen_ok_add with (r := NEnd); [core | | discriminate | intros _; left; exact Hn | exact (g_seen _ HG)].
    intros r Hr. unfold results in *. simpl in Hr. rewrite Ek, app_nil_r. apply in_app_or in Hr.
    destruct Hr as [Hr|[<-|[]]]; auto.
  - eapply GI_same_core; [exact HG | core | unfold k_ok; simpl; auto |].
    eapply seen_ok_same; [core | | exact (g_seen _ HG)].
    intros r Hr. unfold results in *. simpl in Hr. rewrite Ek. exact Hr.
Qed.

Lemma inv_TNextSel_local s a s' : (forall i, a <> NAChan i) -> GI s -> step s (TNextSel a) = Some s' -> GI s'.
Proof.
  intros Ha HG Hs. simpl in Hs. destruct (kpc_ s) eqn:Ek; try discriminate.
  pose proof (g_kpc _ HG) as K. unfold k_ok in K. rewrite Ek in K. destruct K as [Kr Km].
  destruct a as [|i| |].
  - destruct (kctx_done s c); [|discriminate]. inversion Hs; subst s'; clear Hs.
    eapply GI_same_core; [exact HG | core | unfold k_ok; simpl; auto |].
    eapply seen_ok_add with (r := NErr ECtx); [core | | discriminate | discriminate | exact (g_seen _ HG)].
    intros r Hr. unfold results in *. simpl in Hr. rewrite Ek, app_nil_r. apply in_app_or in Hr.
    destruct Hr as [Hr|[<-|[]]]; auto.
  - exfalso. eapply Ha; reflexivity.
  - destruct (sdone s) eqn:Ed; [|discriminate]. inversion Hs; subst s'; clear Hs.
    eapply GI_same_core; [exact HG | core | unfold k_ok; simpl; auto |].
    eapply seen_ok_same; [core | | exact (g_seen _ HG)].
    intros r Hr. unfold results in *. simpl in Hr. rewrite Ek. exact Hr.
  - destruct (kctx_done s c || sdone s || existsb is_parked (ws s)) eqn:Eg; [discriminate|].
    inversion Hs; subst s'; clear Hs.
    apply orb_false_elim in Eg. destruct Eg as [Eg _]. apply orb_false_elim in Eg. destruct Eg as [_ Ed].
    eapply GI_same_core; [exact HG | core | unfold k_ok; simpl; auto |].
    eapply seen_ok_same; [core | | exact (g_seen _ HG)].
    intros r Hr. unfold results in *. simpl in Hr. rewrite Ek. exact Hr.
Qed.

Lemma inv_TDrain_none s s' : GI s -> step s (TDrain None) = Some s' -> GI s'.
Proof.
  intros HG Hs. simpl in Hs. destruct (kpc_ s) eqn:Ek; try discriminate.
  destruct (existsb is_parked (ws s)); [discriminate|]. inversion Hs; subst s'; clear Hs.
  pose proof (g_kpc _ HG) as K. unfold k_ok in K. rewrite Ek in K. destruct K as (Kr & Km & Kd).
  eapply GI_same_core; [exact HG | core | unfold k_ok; simpl; auto |].
  eapply seen_ok_add with (r := match serr s with Some e => NErr e | None => NEnd end);
    [core | | | | exact (g_seen _ HG)].
  - intros r Hr. unfold results in *. simpl in Hr. rewrite Ek, app_nil_r. apply in_app_or in Hr.
    destruct Hr as [Hr|[<-|[]]]; auto.
  - intros z Hz. destruct (serr s); [inversion Hz; reflexivity | discriminate].
  - intros Hz. destruct (serr s) eqn:Ee; [discriminate|]. right. split; [exact Kd|]. split; [reflexivity|].
    apply all_ended; auto.
Qed.

Lemma inv_LRetNext s r s' : GI s -> step s (LRetNext r) = Some s' -> GI s'.
Proof.
  intros HG Hs. simpl in Hs. destruct (kpc_ s) eqn:Ek; try discriminate.
  destruct (nres_eqb r r0); [|discriminate]. inversion Hs; subst s'; clear Hs.
  pose proof (g_kpc _ HG) as K. unfold k_ok in K. rewrite Ek in K. destruct K as [Kr Km].
  eapply GI_same_core; [exact HG | core | unfold k_ok; simpl; intros; congruence |].
  eapply seen_ok_same; [core | | exact (g_seen _ HG)].
  intros r' Hr. unfold results in *. simpl in Hr. rewrite Ek. rewrite app_nil_r in Hr. exact Hr.
Qed.

Lemma inv_LCallClose s s' : GI s -> step s LCallClose = Some s' -> GI s'.
Proof.
  intros HG Hs. simpl in Hs. destruct (kpc_ s) eqn:Ek; try discriminate.
  destruct (kgo s) as [|g]; [discriminate|]. destruct (kprog s) as [|[c'|] rest]; try discriminate.
  destruct (merged s && negb (rdone s)) eqn:Eg; [|discriminate]. inversion Hs; subst s'; clear Hs.
  apply andb_prop in Eg. destruct Eg as [Em Er]. apply negb_true_iff in Er.
  assert (Hres : forall kp, (forall r, kp <> KRet r) ->
                 seen_ok (with_k s rest g kp)).
  { intros kp Hkp. eapply seen_ok_same; [core | | exact (g_seen _ HG)].
    intros r Hr. unfold results in *. simpl in Hr. rewrite Ek.
    destruct kp; try exact Hr. exfalso. eapply Hkp; reflexivity. }
  destruct (ws s) as [|p0 wl] eqn:Ew.
  - assert (Hn : nw s = 0) by (rewrite <- (g_lenw _ HG), Ew; reflexivity).
    eapply GI_same_core; [exact HG | core | unfold k_ok; simpl; auto | apply Hres; discriminate].
  - eapply GI_same_core; [exact HG | core | unfold k_ok; simpl; auto | apply Hres; discriminate].
Qed.

Lemma inv_TKWait s s' : GI s -> step s TKWait = Some s' -> GI s'.
Proof.
  intros HG Hs. simpl in Hs. destruct (kpc_ s) eqn:Ek; try discriminate.
  destruct (wg s) eqn:Ew; [|discriminate]. inversion Hs; subst s'; clear Hs.
  pose proof (g_kpc _ HG) as K. unfold k_ok in K. rewrite Ek in K. destruct K as (Kr & Km & Kc).
  eapply GI_same_core; [exact HG | core | unfold k_ok; simpl; auto |].
  eapply seen_ok_same; [core | | exact (g_seen _ HG)].
  intros r Hr. unfold results in *. simpl in Hr. rewrite Ek. exact Hr.
Qed.

Lemma inv_LCancel s c s' : GI s -> step s (LCancel c) = Some s' -> GI s'.
Proof.
  intros HG Hs. simpl in Hs. destruct (nth_error (kctxs s) c) as [[| |]|]; try discriminate;
    inversion Hs; subst s'; clear Hs; try exact HG.
  eapply GI_same_core; [exact HG | core | exact (g_kpc _ HG) |].
  eapply seen_ok_same; [core | | exact (g_seen _ HG)]. intros r Hr. exact Hr.
Qed.

Lemma inv_TCancelEff s c s' : GI s -> step s (TCancelEff c) = Some s' -> GI s'.
Proof.
  intros HG Hs. simpl in Hs. destruct (nth_error (kctxs s) c) as [[| |]|]; try discriminate.
  inversion Hs; subst s'; clear Hs.
  pose proof (g_kpc _ HG) as K. unfold k_ok in K.
  destruct (kpc_ s) eqn:Ek.
  1-2,4-9: (eapply GI_same_core; [exact HG | core | unfold k_ok; simpl; rewrite Ek; exact K |];
            eapply seen_ok_same; [core | | exact (g_seen _ HG)];
            intros r' Hr; unfold results in *; simpl in Hr; rewrite Ek in *; exact Hr).
  destruct (Nat.eqb c c0).
  - destruct K as (Kr & Km & Kd).
    eapply GI_same_core; [exact HG | core | unfold k_ok; simpl; auto |].
    eapply seen_ok_add with (r := NErr ECtx); [core | | discriminate | discriminate | exact (g_seen _ HG)].
    intros r Hr. unfold results in *. simpl in Hr. rewrite Ek, app_nil_r. apply in_app_or in Hr.
    destruct Hr as [Hr|[<-|[]]]; auto.
  - eapply GI_same_core; [exact HG | core | unfold k_ok; simpl; rewrite Ek; exact K |].
    eapply seen_ok_same; [core | | exact (g_seen _ HG)].
    intros r Hr. unfold results in *. simpl in Hr. rewrite Ek in *. exact Hr.
Qed.

Lemma worker_exists s i x : GI s -> nth_error (srcs s) i = Some x -> exists p, nth_error (ws s) i = Some p.
Proof.
  intros HG H. assert (i < length (srcs s)) by (apply nth_error_Some; congruence).
  destruct (nth_error (ws s) i) eqn:E; [eauto|]. apply nth_error_None in E.
  rewrite (g_lens _ HG) in *. rewrite (g_lenw _ HG) in E. lia.
Qed.

Lemma inv_LRelease s i k s' : GI s -> step s (LRelease i k) = Some s' -> GI s'.
Proof.
  intros HG Hs. simpl in Hs. destruct (nth_error (srcs s) i) as [x|] eqn:Hx; [|discriminate].
  inversion Hs; subst s'; clear Hs.
  destruct (worker_exists _ _ _ HG Hx) as [p Hp].
  eapply (GI_local s _ i p p x (mkSrc (s_items x) (s_fin x) (s_tokens x + k) (s_out x) (s_closes x)));
    eauto; simpl; try reflexivity; auto.
  - symmetry. apply upd_same. exact Hp.
  - congruence.
  - intros [w1 w2 w3 w4 w5 w6 w7 w8 w9]. constructor; simpl; assumption.
Qed.

Lemma inv_TWgDone s i s' : GI s -> step s (TWgDone i) = Some s' -> GI s'.
Proof.
  intros HG Hs. simpl in Hs. destruct (nth_error (ws s) i) as [p|] eqn:Hp; [|discriminate].
  destruct p; try discriminate. inversion Hs; subst s'; clear Hs.
  destruct (src_exists _ _ _ HG Hp) as [x Hx].
  eapply (GI_local s _ i WWgDone WExited x x); eauto; simpl; try reflexivity; auto; no_win.
  - symmetry. apply upd_same. exact Hx.
  - intros Hm. pose proof (g_wg _ HG Hm) as W. pose proof (count_upd not_exited _ _ _ WExited Hp) as C.
    simpl in C. lia.
  - intros E. rewrite E. reflexivity.
  - intros [w1 w2 w3 w4 w5 w6 w7 w8 w9]. constructor; simpl in *; auto; no_win. wi_idle_tac w2.
Qed.

Lemma inv_TDefer s i s' : GI s -> step s (TDefer i) = Some s' -> GI s'.
Proof.
  intros HG Hs. unfold step in Hs. destruct (nth_error (ws s) i) as [p|] eqn:Hp; [|discriminate].
  destruct p; try discriminate. cbv zeta in Hs.
  remember (Nat.eqb (S (ndone s)) (nw s)) as fin eqn:Efin. symmetry in Efin.
  inversion Hs; subst s'; clear Hs.
  destruct (src_exists _ _ _ HG Hp) as [x Hx].
  eapply (GI_local s _ i WDefer (if fin then WLoadOnce else WCloseIn) x x); eauto; simpl; try reflexivity; auto; no_win.
  - symmetry. apply upd_same. exact Hx.
  - destruct fin; simpl; lia.
  - intros _. destruct fin; reflexivity.
  - intros _ _ E. destruct fin; [reflexivity|]. apply Nat.eqb_neq in Efin. congruence.
  - right. intros j q Hq. exact (pre_defer_no_closer _ _ _ _ _ HG Hp eq_refl Hq).
  - intros [w1 w2 w3 w4 w5 w6 w7 w8 w9].
    assert (Hfin : fin = true -> S (ndone s) = nw s) by (intros ->; apply Nat.eqb_eq; exact Efin). clear Efin.
    destruct fin; constructor; simpl in *; auto; no_win; try (wi_idle_tac w2).
Qed.

Lemma inv_TCas s i s' : GI s -> step s (TCas i) = Some s' -> GI s'.
Proof.
  intros HG Hs. simpl in Hs. destruct (nth_error (ws s) i) as [p|] eqn:Hp; [|discriminate].
  destruct p; try discriminate. destruct (once s) eqn:Eo; inversion Hs; subst s'; clear Hs.
  - (* lost: somebody else's error is the first *)
    eapply GI_setw; eauto; no_win.
    intros x Hx [w1 w2 w3 w4 w5 w6 w7 w8 w9].
    constructor; simpl in *; auto; no_win.
    + wi_idle_tac w2.
    + exists []. exact w7.
    + intros _ Ho. congruence.
  - (* won *)
    assert (Hi : i < length (ws s)) by (apply nth_error_Some; congruence).
    assert (Hw0 : winners s = []) by (pose proof (g_once _ HG) as O; rewrite Eo in O; exact O).
    assert (Hd : sdone s = false).
    { destruct (sdone s) eqn:Ed; [|reflexivity]. exfalso.
      destruct (pre_defer_not_nil_closed _ _ _ HG Hp eq_refl Ed) as [e0 He0].
      pose proof (serr_some_once _ _ HG Ed He0). congruence. }
    assert (Hnocl : forall j q, nth_error (ws s) j = Some q -> closer q = false).
    { intros j q Hq. exact (pre_defer_no_closer _ _ _ _ _ HG Hp eq_refl Hq). }
    constructor; simpl; rewrite ?upd_length; try (apply HG; fail).
    + rewrite (g_ndone _ HG). pose proof (count_upd post_defer _ _ _ (WCancel e) Hp) as C. simpl in C. lia.
    + intros Hm. rewrite (g_wg _ HG Hm). pose proof (count_upd not_exited _ _ _ (WCancel e) Hp) as C. simpl in C. lia.
    + exists i, e, (WCancel e). rewrite Hw0. split; [reflexivity|]. split; [apply nth_error_upd_same; exact Hi|].
      right. left. reflexivity.
    + pose proof (g_sender _ HG) as S. rewrite Hd in *. exact S.
    + intros _. left. reflexivity.
    + intros j1 j2 q1 q2 H1 H2 C1 C2.
      destruct (nth_error_upd_cases _ _ _ _ _ H1) as [[-> ->]|[Hne1 H1']]; [discriminate|].
      rewrite (Hnocl _ _ H1') in C1. discriminate.
    + intros A. exfalso. pose proof (pre_defer_lt _ _ _ HG Hp eq_refl). lia.
    + intros j q x Hq Hx. destruct (nth_error_upd_cases _ _ _ _ _ Hq) as [[-> ->]|[Hne Hq']].
      * destruct (g_workers _ HG i _ x Hp Hx) as [w1 w2 w3 w4 w5 w6 w7 w8 w9].
        constructor; simpl in *; auto; no_win.
        -- wi_idle_tac w2.
        -- intros e0 [W|W]; inversion W; subst. rewrite Hw0. auto.
      * destruct (g_workers _ HG j q x Hq' Hx) as [w1 w2 w3 w4 w5 w6 w7 w8 w9].
        constructor; simpl in *; auto.
        -- intros e0 W. exfalso. eapply once_false_no_winner; eauto.
        -- intros ->. specialize (Hnocl _ _ Hq'). discriminate.
Qed.

(* ---- steps that complete parked Sends (cancel, close(streamDone), close(senderDone)) ---- *)
Definition wake_ok (g : wpc -> wpc) : Prop :=
  forall p, (is_parked p = false -> g p = p) /\ (is_parked p = true -> g p = WDefer \/ g p = WCallNext).

Lemma wake_err_ok : wake_ok wake_err.
Proof. intros p. destruct p; simpl; split; auto; discriminate. Qed.

Lemma wake_sender_ok e : wake_ok (wake_sender e).
Proof. intros p. destruct p; simpl; split; auto; try discriminate. intros _. destruct e; simpl; auto. Qed.

Lemma count_wake f g l :
  wake_ok g -> (forall p, is_parked p = true -> f (g p) = f p) -> count f (map g l) = count f l.
Proof.
  intros Hg Hf. apply count_map. intros p. destruct (Hg p) as [A B].
  destruct (is_parked p) eqn:E; [apply Hf; exact E | rewrite A; reflexivity].
Qed.

Lemma count_wake_pd g l : wake_ok g -> count post_defer (map g l) = count post_defer l.
Proof.
  intros Hg. apply count_wake; [exact Hg|]. intros p Hp. destruct p; try discriminate.
  destruct (Hg (WSendParked v)) as [_ B]. destruct (B eq_refl) as [-> | ->]; reflexivity.
Qed.

Lemma count_wake_ne g l : wake_ok g -> count not_exited (map g l) = count not_exited l.
Proof.
  intros Hg. apply count_wake; [exact Hg|]. intros p Hp. destruct p; try discriminate.
  destruct (Hg (WSendParked v)) as [_ B]. destruct (B eq_refl) as [-> | ->]; reflexivity.
Qed.

Lemma wake_closer g p : wake_ok g -> closer (g p) = closer p.
Proof.
  intros Hg. destruct (Hg p) as [A B]. destruct (is_parked p) eqn:E; [|rewrite A; reflexivity].
  destruct p; try discriminate. destruct (B eq_refl) as [-> | ->]; reflexivity.
Qed.

Lemma wake_winning g p e : wake_ok g -> winning p e -> g p = p.
Proof. intros Hg [-> | ->]; apply Hg; reflexivity. Qed.

(* the per-worker invariant of a worker whose parked Send was completed with an error, or that was left alone;
   [s'] differs from [s] in flags that only got set *)
Lemma WI_wake s s' g j q x :
  wake_ok g -> WI s j q x ->
  nw s' = nw s -> merged s' = merged s -> ndone s' = ndone s -> recvd s' = recvd s -> winners s' = winners s ->
  once s' = once s ->
  (ctx s = true -> ctx s' = true) -> (rdone s = true -> rdone s' = true) ->
  (is_parked q = true -> g q = WDefer /\ (once s' = true \/ rdone s' = true)) ->
  (forall e, winning q e -> sdone s' = false) ->
  WI s' j (g q) x.
Proof.
  intros Hg [w1 w2 w3 w4 w5 w6 w7 w8 w9] En Em End Erc Ewn Eo Hc Hr Hpk Hwin.
  destruct (Hg q) as [A B]. destruct (is_parked q) eqn:E.
  - destruct q; try discriminate. destruct (Hpk eq_refl) as [-> Hfl].
    constructor; rewrite ?En, ?Em, ?End, ?Erc, ?Ewn; simpl in *; auto; no_win.
    + wi_idle_tac w2.
    + eexists. exact w7.
    + intros _ Ho Hrd. destruct Hfl; congruence.
  - rewrite (A eq_refl).
    constructor; rewrite ?En, ?Em, ?End, ?Erc, ?Ewn, ?Eo; auto.
    + intros e W. split; [apply (w3 e W)|apply (Hwin e W)].
    + rewrite E. discriminate.
    + intros Hpl Ho Hrd. apply w8; auto. destruct (rdone s) eqn:R; [|reflexivity]. rewrite (Hr eq_refl) in Hrd. discriminate.
Qed.

Lemma nth_error_wake_cases (g : wpc -> wpc) (l : list wpc) i p' j q :
  nth_error (upd (map g l) i p') j = Some q ->
  (j = i /\ q = p') \/ (j <> i /\ exists q0, nth_error l j = Some q0 /\ q = g q0).
Proof.
  intros H. destruct (nth_error_upd_cases _ _ _ _ _ H) as [[-> ->]|[Hne H']]; [left; auto|].
  right. split; [exact Hne|]. exact (nth_error_map_some g l j q H').
Qed.

Lemma inv_TWCancel s i s' : GI s -> step s (TWCancel i) = Some s' -> GI s'.
Proof.
  intros HG Hs. simpl in Hs. destruct (nth_error (ws s) i) as [p|] eqn:Hp; [|discriminate].
  destruct p; try discriminate. inversion Hs; subst s'; clear Hs.
  destruct (src_exists _ _ _ HG Hp) as [x Hx].
  pose proof (g_workers _ HG _ _ _ Hp Hx) as Wi.
  destruct (wi_winner _ _ _ _ Wi e (or_introl eq_refl)) as [Hwin Hd].
  assert (Ho : once s = true).
  { pose proof (g_once _ HG) as O. destruct (once s); [reflexivity|congruence]. }
  assert (Hi : i < length (ws s)) by (apply nth_error_Some; congruence).
  assert (Hmi : nth_error (map wake_err (ws s)) i = Some (WCancel e)).
  { rewrite nth_error_map, Hp. reflexivity. }
  pose proof wake_err_ok as Hg.
  constructor; simpl; rewrite ?upd_length, ?map_length; try (apply HG; fail).
  - rewrite (g_ndone _ HG). pose proof (count_upd post_defer _ _ _ (WSCloseErr e) Hmi) as C. simpl in C.
    rewrite (count_wake_pd _ _ Hg) in C. lia.
  - intros Hm. rewrite (g_wg _ HG Hm). pose proof (count_upd not_exited _ _ _ (WSCloseErr e) Hmi) as C. simpl in C.
    rewrite (count_wake_ne _ _ Hg) in C. lia.
  - rewrite Ho. exists i, e, (WSCloseErr e). split; [exact Hwin|].
    split; [apply nth_error_upd_same; rewrite map_length; exact Hi|]. right. right. reflexivity.
  - pose proof (g_sender _ HG) as S. rewrite Hd in *. exact S.
  - intros _. left. exact Ho.
  - intros j1 j2 q1 q2 H1 H2 C1 C2.
    destruct (nth_error_wake_cases _ _ _ _ _ _ H1) as [[-> ->]|[Hne1 (r1 & H1' & ->)]]; [discriminate|].
    rewrite (wake_closer _ _ Hg) in C1. rewrite (pre_defer_no_closer _ _ _ _ _ HG Hp eq_refl H1') in C1. discriminate.
  - intros A. exfalso. pose proof (pre_defer_lt _ _ _ HG Hp eq_refl). lia.
  - pose proof (g_kpc _ HG) as K. unfold k_ok in *. simpl. destruct (kpc_ s); intuition.
  - intros j q y Hq Hy. destruct (nth_error_wake_cases _ _ _ _ _ _ Hq) as [[-> ->]|[Hne (q0 & Hq0 & ->)]].
    + rewrite Hx in Hy. inversion Hy; subst y. destruct Wi as [w1 w2 w3 w4 w5 w6 w7 w8 w9].
      constructor; simpl in *; auto; no_win.
      * wi_idle_tac w2.
      * intros e0 [W|W]; inversion W; subst. auto.
    + apply (WI_wake s _ wake_err j q0 y Hg (g_workers _ HG j q0 y Hq0 Hy)); simpl; auto.
      * intros Hpk. split; [destruct q0; try discriminate; reflexivity|]. left. exact Ho.
Qed.

Lemma inv_wake_all s s' kp :
  GI s ->
  nw s' = nw s -> ws s' = map wake_err (ws s) -> srcs s' = srcs s -> merged s' = merged s ->
  sdone s' = sdone s -> serr s' = serr s -> ndone s' = ndone s -> once s' = once s -> wg s' = wg s ->
  recvd s' = recvd s -> winners s' = winners s -> sclosed s' = sclosed s -> seen s' = seen s -> kpc_ s' = kp ->
  (ctx s = true -> ctx s' = true) -> (rdone s = true -> rdone s' = true) ->
  rdone s' = true -> (forall r, kpc_ s <> KRet r) -> (forall r, kp <> KRet r) -> k_ok s' ->
  GI s'.
Proof.
  intros HG En Ews Esrcs Em Ed Ee End Eo Ewg Erc Ewn Esc Esn Ek Hc Hr Hr' Hk1 Hk2 HK.
  pose proof wake_err_ok as Hg.
  constructor; rewrite ?En, ?Ews, ?Esrcs, ?Em, ?Ed, ?Ee, ?End, ?Eo, ?Ewg, ?Erc, ?Ewn, ?Esc, ?map_length;
    try (apply HG; fail); try assumption.
  - rewrite (count_wake_pd _ _ Hg). apply HG.
  - rewrite (count_wake_ne _ _ Hg). apply HG.
  - pose proof (g_once _ HG) as O. destruct (once s); [|exact O].
    destruct O as (i0 & e & p0 & A & B & C). exists i0, e.
    destruct C as [C|C].
    + exists (wake_err p0). split; [exact A|]. split; [rewrite nth_error_map, B; reflexivity|left; exact C].
    + exists p0. split; [exact A|]. split; [|right; exact C].
      rewrite nth_error_map, B. simpl. f_equal. apply (wake_winning _ _ _ Hg C).
  - pose proof (g_sender _ HG) as S. destruct (sdone s); [|exact S]. destruct S as [S1 S2]. split; [exact S1|].
    destruct (serr s); [exact S2|]. destruct S2 as (A & B & C). split; [exact A|]. split; [exact B|].
    intros j q Hq. destruct (nth_error_map_some _ _ _ _ Hq) as (q0 & Hq0 & ->).
    rewrite (wake_closer _ _ Hg). eapply C; eauto.
  - intros _. right. exact Hr'.
  - intros j1 j2 q1 q2 H1 H2 C1 C2.
    destruct (nth_error_map_some _ _ _ _ H1) as (r1 & H1' & ->). destruct (nth_error_map_some _ _ _ _ H2) as (r2 & H2' & ->).
    rewrite (wake_closer _ r1 Hg) in C1. rewrite (wake_closer _ r2 Hg) in C2. eapply (g_lone _ HG); eauto.
  - intros A B. destruct (g_alldone _ HG A B) as [D|(j & q & Hq & C)]; [left; exact D|]. right.
    exists j, (wake_err q). split; [rewrite nth_error_map, Hq; reflexivity|]. rewrite (wake_closer _ _ Hg). exact C.
  - destruct (g_seen _ HG) as [S1 S2]. unfold seen_ok, results, ended_ok. rewrite Esn, Ek, En, Ed, Ee, Erc, Esrcs.
    assert (Hres : forall r, In r (seen s ++ match kp with KRet r0 => [r0] | _ => [] end) -> In r (results s)).
    { intros r Hin. unfold results. apply in_app_or in Hin. apply in_or_app. destruct Hin as [Hin|Hin]; [left; exact Hin|].
      destruct kp; simpl in Hin; try contradiction. exfalso. eapply Hk2; reflexivity. }
    split; [intros z Hz; apply S1; apply Hres; exact Hz | intros Hz; apply S2; apply Hres; exact Hz].
  - intros j q y Hq Hy. destruct (nth_error_map_some _ _ _ _ Hq) as (q0 & Hq0 & ->).
    apply (WI_wake s s' wake_err j q0 y Hg (g_workers _ HG j q0 y Hq0 Hy)); auto.
    + intros Hpk. split; [destruct q0; try discriminate; reflexivity|]. right. exact Hr'.
    + intros e W. rewrite Ed. destruct (src_exists _ _ _ HG Hq0) as [y0 Hy0].
      apply (wi_winner _ _ _ _ (g_workers _ HG j q0 y0 Hq0 Hy0) e W).
Qed.

Lemma inv_TKClose1 s s' : GI s -> step s TKClose1 = Some s' -> GI s'.
Proof.
  intros HG Hs. simpl in Hs. destruct (kpc_ s) eqn:Ek; try discriminate. inversion Hs; subst s'; clear Hs.
  pose proof (g_kpc _ HG) as K. unfold k_ok in K. rewrite Ek in K. destruct K as [Kr Km].
  eapply (inv_wake_all s _ KClose2); eauto; simpl; try reflexivity; auto; try (rewrite Ek; discriminate); try discriminate.
  unfold k_ok. simpl. auto.
Qed.

Lemma inv_TKClose2 s s' : GI s -> step s TKClose2 = Some s' -> GI s'.
Proof.
  intros HG Hs. simpl in Hs. destruct (kpc_ s) eqn:Ek; try discriminate. inversion Hs; subst s'; clear Hs.
  pose proof (g_kpc _ HG) as K. unfold k_ok in K. rewrite Ek in K. destruct K as [Kr Km].
  eapply (inv_wake_all s _ KWait); eauto; simpl; try reflexivity; auto; try (rewrite Ek; discriminate); try discriminate.
  unfold k_ok. simpl. auto.
Qed.

Lemma k_ok_sender_closed s s' :
  k_ok s -> kpc_ s' = wake_k_sender (kpc_ s) -> nw s' = nw s -> merged s' = merged s -> rdone s' = rdone s ->
  ctx s' = ctx s -> wg s' = wg s -> sdone s' = true -> k_ok s'.
Proof.
  unfold k_ok. intros K Ek En Em Er Ec Ewg Ed. rewrite Ek, En, Em, Er, Ec, Ewg, Ed.
  destruct (kpc_ s); simpl; intuition.
Qed.

Lemma results_sender_closed s s' r :
  kpc_ s' = wake_k_sender (kpc_ s) -> seen s' = seen s -> In r (results s') -> In r (results s).
Proof.
  unfold results. intros Ek Esn. rewrite Ek, Esn. destruct (kpc_ s); simpl; auto.
Qed.

Lemma inv_TSCloseErr s i s' : GI s -> step s (TSCloseErr i) = Some s' -> GI s'.
Proof.
  intros HG Hs. simpl in Hs. destruct (nth_error (ws s) i) as [p|] eqn:Hp; [|discriminate].
  destruct p; try discriminate. inversion Hs; subst s'; clear Hs.
  destruct (src_exists _ _ _ HG Hp) as [x Hx].
  pose proof (g_workers _ HG _ _ _ Hp Hx) as Wi.
  destruct (wi_winner _ _ _ _ Wi e (or_intror eq_refl)) as [Hwin Hd].
  assert (Ho : once s = true).
  { pose proof (g_once _ HG) as O. destruct (once s); [reflexivity|congruence]. }
  assert (Hi : i < length (ws s)) by (apply nth_error_Some; congruence).
  pose proof (wake_sender_ok (Some e)) as Hg.
  assert (Hmi : nth_error (map (wake_sender (Some e)) (ws s)) i = Some (WSCloseErr e)).
  { rewrite nth_error_map, Hp. reflexivity. }
  pose proof (g_sender _ HG) as S0. rewrite Hd in S0. destruct S0 as [Hse Hsc].
  unfold close_sender. rewrite Hd.
  constructor; simpl; rewrite ?upd_length, ?map_length; try (apply HG; fail).
  - rewrite (g_ndone _ HG). pose proof (count_upd post_defer _ _ _ WDefer Hmi) as C. simpl in C.
    rewrite (count_wake_pd _ _ Hg) in C. lia.
  - intros Hm. rewrite (g_wg _ HG Hm). pose proof (count_upd not_exited _ _ _ WDefer Hmi) as C. simpl in C.
    rewrite (count_wake_ne _ _ Hg) in C. lia.
  - rewrite Ho. exists i, e, WDefer. split; [exact Hwin|].
    split; [apply nth_error_upd_same; rewrite map_length; exact Hi|]. left. reflexivity.
  - split; [rewrite Hsc; reflexivity|]. exists i. exact Hwin.
  - intros j1 j2 q1 q2 H1 H2 C1 C2.
    destruct (nth_error_wake_cases _ _ _ _ _ _ H1) as [[-> ->]|[Hne1 (r1 & H1' & ->)]]; [discriminate|].
    rewrite (wake_closer _ _ Hg) in C1. rewrite (pre_defer_no_closer _ _ _ _ _ HG Hp eq_refl H1') in C1. discriminate.
  - intros _ _. left. reflexivity.
  - eapply k_ok_sender_closed; [exact (g_kpc _ HG) | | | | | | |]; reflexivity.
  - destruct (g_seen _ HG) as [S1 S2]. split.
    + intros z Hz. apply results_sender_closed with (s := s) in Hz; [|reflexivity|reflexivity].
      specialize (S1 z Hz). congruence.
    + intros Hz. apply results_sender_closed with (s := s) in Hz; [|reflexivity|reflexivity].
      destruct (S2 Hz) as [Z|(D & _)]; [left; exact Z|congruence].
  - intros j q y Hq Hy. destruct (nth_error_wake_cases _ _ _ _ _ _ Hq) as [[-> ->]|[Hne (q0 & Hq0 & ->)]].
    + rewrite Hx in Hy. inversion Hy; subst y. destruct Wi as [w1 w2 w3 w4 w5 w6 w7 w8 w9].
      constructor; simpl in *; auto; no_win.
      * wi_idle_tac w2.
      * exists []. exact w7.
      * intros _ Ho'. congruence.
    + pose proof (g_workers _ HG j q0 y Hq0 Hy) as Wj.
      destruct (is_parked q0) eqn:Epk.
      * destruct q0; try discriminate. simpl.
        destruct Wj as [w1 w2 w3 w4 w5 w6 w7 w8 w9].
        constructor; simpl in *; auto; no_win.
        -- wi_idle_tac w2.
        -- eexists. exact w7.
        -- intros _ Ho'. congruence.
      * destruct (Hg q0) as [A _]. rewrite (A Epk).
        destruct Wj as [w1 w2 w3 w4 w5 w6 w7 w8 w9].
        constructor; simpl; auto.
        -- intros e0 W. exfalso. destruct (w3 e0 W) as [W' _]. rewrite Hwin in W'. inversion W'; subst. congruence.
        -- rewrite Epk. discriminate.
Qed.

Lemma inv_TSCloseNil s i s' : GI s -> step s (TSCloseNil i) = Some s' -> GI s'.
Proof.
  intros HG Hs. simpl in Hs. destruct (nth_error (ws s) i) as [p|] eqn:Hp; [|discriminate].
  destruct p; try discriminate. inversion Hs; subst s'; clear Hs.
  destruct (src_exists _ _ _ HG Hp) as [x Hx].
  pose proof (g_workers _ HG _ _ _ Hp Hx) as Wi.
  pose proof (wi_closenil _ _ _ _ Wi eq_refl) as Ho.
  pose proof (wi_closer _ _ _ _ Wi eq_refl) as Hn.
  assert (Hw0 : winners s = []) by (pose proof (g_once _ HG) as O; rewrite Ho in O; exact O).
  assert (Hd : sdone s = false).
  { destruct (sdone s) eqn:Ed; [|reflexivity]. exfalso. pose proof (g_sender _ HG) as S. rewrite Ed in S.
    destruct S as [_ S]. destruct (serr s).
    - destruct S as [i0 S]. congruence.
    - destruct S as (_ & _ & S). specialize (S _ _ Hp). discriminate. }
  assert (Hall : forall j q, nth_error (ws s) j = Some q -> post_defer q = true).
  { intros j q Hq. eapply count_all; [|exact Hq]. rewrite <- (g_ndone _ HG), (g_lenw _ HG). exact Hn. }
  assert (Hi : i < length (ws s)) by (apply nth_error_Some; congruence).
  pose proof (wake_sender_ok None) as Hg.
  assert (Hmi : nth_error (map (wake_sender None) (ws s)) i = Some WSCloseNil).
  { rewrite nth_error_map, Hp. reflexivity. }
  pose proof (g_sender _ HG) as S0. rewrite Hd in S0. destruct S0 as [Hse Hsc].
  unfold close_sender. rewrite Hd.
  constructor; simpl; rewrite ?upd_length, ?map_length; try (apply HG; fail).
  - rewrite (g_ndone _ HG). pose proof (count_upd post_defer _ _ _ WCloseIn Hmi) as C. simpl in C.
    rewrite (count_wake_pd _ _ Hg) in C. lia.
  - intros Hm. rewrite (g_wg _ HG Hm). pose proof (count_upd not_exited _ _ _ WCloseIn Hmi) as C. simpl in C.
    rewrite (count_wake_ne _ _ Hg) in C. lia.
  - rewrite Ho. exact Hw0.
  - split; [rewrite Hsc; reflexivity|]. split; [exact Ho|]. split; [exact Hn|].
    intros j q Hq. destruct (nth_error_wake_cases _ _ _ _ _ _ Hq) as [[-> ->]|[Hne (q0 & Hq0 & ->)]]; [reflexivity|].
    rewrite (wake_closer _ _ Hg). destruct (closer q0) eqn:C; [|reflexivity].
    exfalso. apply Hne. eapply (g_lone _ HG); eauto.
  - intros j1 j2 q1 q2 H1 H2 C1 C2.
    destruct (nth_error_wake_cases _ _ _ _ _ _ H1) as [[-> ->]|[Hne1 (r1 & H1' & ->)]]; [discriminate|].
    rewrite (wake_closer _ _ Hg) in C1. exfalso. apply Hne1. eapply (g_lone _ HG); eauto.
  - intros _ _. left. reflexivity.
  - eapply k_ok_sender_closed; [exact (g_kpc _ HG) | | | | | | |]; reflexivity.
  - destruct (g_seen _ HG) as [S1 S2]. split.
    + intros z Hz. apply results_sender_closed with (s := s) in Hz; [|reflexivity|reflexivity].
      specialize (S1 z Hz). congruence.
    + intros Hz. apply results_sender_closed with (s := s) in Hz; [|reflexivity|reflexivity].
      destruct (S2 Hz) as [Z|(D & _)]; [left; exact Z|congruence].
  - intros j q y Hq Hy. destruct (nth_error_wake_cases _ _ _ _ _ _ Hq) as [[-> ->]|[Hne (q0 & Hq0 & ->)]].
    + rewrite Hx in Hy. inversion Hy; subst y. destruct Wi as [w1 w2 w3 w4 w5 w6 w7 w8 w9].
      constructor; simpl in *; auto; no_win. wi_idle_tac w2.
    + pose proof (g_workers _ HG j q0 y Hq0 Hy) as Wj. pose proof (Hall _ _ Hq0) as Hpd.
      assert (Epk : is_parked q0 = false) by (destruct q0; try discriminate; reflexivity).
      destruct (Hg q0) as [A _]. rewrite (A Epk).
      destruct Wj as [w1 w2 w3 w4 w5 w6 w7 w8 w9].
      constructor; simpl; auto.
      * intros e0 [W|W]; subst q0; discriminate.
      * rewrite Epk. discriminate.
Qed.

(* ---- an item passes from worker i to the consumer (unbuffered rendezvous) ---- *)
Lemma inv_transfer s i v p :
  GI s -> nth_error (ws s) i = Some p -> (p = WSendSel v \/ p = WSendParked v) ->
  rdone s = false -> merged s = true -> (forall r, kpc_ s <> KRet r) ->
  GI (setw (with_recvd (with_kpc s (KRet (NItem v))) (i, v)) i WCallNext).
Proof.
  intros HG Hp Hpv Hr Hm Hk.
  destruct (src_exists _ _ _ HG Hp) as [x Hx].
  assert (Hpd : post_defer p = false) by (destruct Hpv; subst p; reflexivity).
  assert (Hilt : i < nw s) by (rewrite <- (g_lenw _ HG); apply nth_error_Some; congruence).
  eapply (GI_local_gen s _ i p WCallNext x x); eauto; simpl; try reflexivity.
  - symmetry. apply upd_same. exact Hx.
  - rewrite Hpd. reflexivity.
  - intros _. destruct Hpv; subst p; reflexivity.
  - destruct Hpv; subst p; intros C; discriminate.
  - intros e [W|W]; destruct Hpv; subst p; discriminate.
  - intros j q y Hne Hq Hy. destruct (g_workers _ HG j q y Hq Hy) as [w1 w2 w3 w4 w5 w6 w7 w8 w9].
    constructor; simpl; rewrite ?from_snoc_other by congruence; assumption.
  - unfold k_ok. simpl. auto.
  - destruct (g_seen _ HG) as [S1 S2].
    assert (Hres : forall r, In r (results (setw (with_recvd (with_kpc s (KRet (NItem v))) (i, v)) i WCallNext)) ->
                             r = NItem v \/ In r (results s)).
    { intros r Hin. unfold results in *. simpl in Hin. apply in_app_or in Hin.
      destruct Hin as [Hin|[<-|[]]]; [right; apply in_or_app; left; exact Hin|left; reflexivity]. }
    split.
    + intros z Hz. destruct (Hres _ Hz) as [E|Hz']; [discriminate|]. apply S1. exact Hz'.
    + intros Hz. destruct (Hres _ Hz) as [E|Hz']; [discriminate|].
      destruct (S2 Hz') as [Z|(D & E & _)]; [left; exact Z|]. exfalso.
      destruct (pre_defer_not_nil_closed _ _ _ HG Hp Hpd D) as [e He]. congruence.
  - apply Forall_app. split; [exact (g_tags _ HG)|]. constructor; [exact Hilt|constructor].
  - intros [w1 w2 w3 w4 w5 w6 w7 w8 w9].
    constructor; simpl in *; auto; no_win.
    + split; [discriminate|]. intros Hm'. congruence.
    + rewrite from_snoc_same, app_nil_r. destruct Hpv; subst p; simpl in w7; exact w7.
    + rewrite w9. destruct Hpv; subst p; reflexivity.
Qed.

Lemma inv_TSendSel_chan s i s' : GI s -> step s (TSendSel i AChan) = Some s' -> GI s'.
Proof.
  intros HG Hs. simpl in Hs. destruct (nth_error (ws s) i) as [p|] eqn:Hp; [|discriminate].
  destruct p; try discriminate. unfold k_parked in Hs. destruct (kpc_ s) eqn:Ek; try discriminate.
  inversion Hs; subst s'; clear Hs.
  pose proof (g_kpc _ HG) as K. unfold k_ok in K. rewrite Ek in K. destruct K as (Kr & Km & _).
  eapply inv_transfer; eauto. rewrite Ek. discriminate.
Qed.

Lemma inv_TNextSel_chan s i s' : GI s -> step s (TNextSel (NAChan i)) = Some s' -> GI s'.
Proof.
  intros HG Hs. simpl in Hs. destruct (kpc_ s) eqn:Ek; try discriminate.
  destruct (nth_error (ws s) i) as [p|] eqn:Hp; [|discriminate].
  destruct p; try discriminate. inversion Hs; subst s'; clear Hs.
  pose proof (g_kpc _ HG) as K. unfold k_ok in K. rewrite Ek in K. destruct K as (Kr & Km).
  eapply inv_transfer; eauto. rewrite Ek. discriminate.
Qed.

Lemma inv_TDrain_some s i s' : GI s -> step s (TDrain (Some i)) = Some s' -> GI s'.
Proof.
  intros HG Hs. simpl in Hs. destruct (kpc_ s) eqn:Ek; try discriminate.
  destruct (nth_error (ws s) i) as [p|] eqn:Hp; [|discriminate].
  destruct p; try discriminate. inversion Hs; subst s'; clear Hs.
  pose proof (g_kpc _ HG) as K. unfold k_ok in K. rewrite Ek in K. destruct K as (Kr & Km & _).
  eapply inv_transfer; eauto. rewrite Ek. discriminate.
Qed.

Lemma count_none {A} (f : A -> bool) l : (forall i x, nth_error l i = Some x -> f x = false) -> count f l = 0.
Proof.
  unfold count. induction l as [|a l IH]; intros H; [reflexivity|]. simpl.
  rewrite (H 0 a eq_refl). apply IH. intros i x Hx. apply (H (S i) x Hx).
Qed.

Lemma count_const {A B} (f : A -> bool) (c : A) (l : list B) :
  count f (map (fun _ => c) l) = if f c then length l else 0.
Proof. unfold count. induction l as [|a l IH]; simpl; [destruct (f c); reflexivity|]. destruct (f c); simpl; lia. Qed.

Lemma nth_error_map_const {A B} (c : B) (l : list A) i y : nth_error (map (fun _ => c) l) i = Some y -> y = c.
Proof. revert i. induction l as [|a l IH]; intros [|i] H; simpl in *; try discriminate; [congruence|eauto]. Qed.

Lemma inv_LMerge s s' : GI s -> step s LMerge = Some s' -> GI s'.
Proof.
  intros HG Hs. simpl in Hs. destruct (merged s) eqn:Em; [discriminate|]. inversion Hs; subst s'; clear Hs.
  assert (Hidle : forall i p, nth_error (ws s) i = Some p -> p = WIdle).
  { intros i p Hp. destruct (src_exists _ _ _ HG Hp) as [x Hx].
    apply (wi_idle _ _ _ _ (g_workers _ HG i p x Hp Hx)). exact Em. }
  assert (Hnd : ndone s = 0).
  { rewrite (g_ndone _ HG). apply count_none. intros i p Hp. rewrite (Hidle i p Hp). reflexivity. }
  pose proof (g_kpc _ HG) as K. unfold k_ok in K.
  assert (Hk : kpc_ s = KIdle).
  { destruct (kpc_ s); try reflexivity; exfalso; intuition congruence. }
  rewrite Hk in K.
  constructor; simpl; rewrite ?map_length; try (apply HG; fail).
  - rewrite count_const. simpl. exact Hnd.
  - intros _. rewrite count_const. simpl. symmetry. apply (g_lenw _ HG).
  - pose proof (g_once _ HG) as O. destruct (once s); [|exact O].
    destruct O as (i0 & e & p0 & A & B & C). exists i0, e, WCallNext. split; [exact A|].
    split; [rewrite nth_error_map, B; reflexivity|].
    destruct C as [C|C]; [left; exact C|]. rewrite (Hidle _ _ B) in C. destruct C; discriminate.
  - pose proof (g_sender _ HG) as S. destruct (sdone s); [|exact S]. destruct S as [S1 S2]. split; [exact S1|].
    destruct (serr s); [exact S2|]. destruct S2 as (A & B & C). split; [exact A|]. split; [exact B|].
    intros j q Hq. rewrite (nth_error_map_const _ _ _ _ Hq). reflexivity.
  - intros j1 j2 q1 q2 H1 H2 C1 C2. rewrite (nth_error_map_const _ _ _ _ H1) in C1. discriminate.
  - intros A B. exfalso. lia.
  - unfold k_ok. simpl. rewrite Hk. intros R. destruct (K R) as [M _]. congruence.
  - intros j q y Hq Hy. rewrite (nth_error_map_const _ _ _ _ Hq).
    destruct (nth_error (ws s) j) as [q0|] eqn:Hq0.
    + pose proof (Hidle _ _ Hq0) as ->. destruct (g_workers _ HG j WIdle y Hq0 Hy) as [w1 w2 w3 w4 w5 w6 w7 w8 w9].
      constructor; simpl in *; auto; no_win. split; discriminate.
    + exfalso. rewrite nth_error_map, Hq0 in Hq. discriminate.
Qed.

Lemma inv_LRetClose s s' : GI s -> step s LRetClose = Some s' -> GI s'.
Proof.
  intros HG Hs. simpl in Hs. destruct (kpc_ s) eqn:Ek; try discriminate. inversion Hs; subst s'; clear Hs.
  pose proof (g_kpc _ HG) as K. unfold k_ok in K. rewrite Ek in K. destruct K as [Km K].
  destruct (ws s) as [|p0 wl] eqn:Ew.
  - assert (Hn : nw s = 0) by (rewrite <- (g_lenw _ HG), Ew; reflexivity).
    constructor; simpl; try (apply HG; fail).
    + intros _. right. reflexivity.
    + unfold k_ok. simpl. auto.
    + destruct (g_seen _ HG) as [S1 S2]. unfold seen_ok, results in *. simpl. rewrite Ek in *. split; auto.
    + intros i p x Hp. rewrite Ew in Hp. destruct i; discriminate.
  - eapply GI_same_core; [exact HG | core | |].
    + unfold k_ok. simpl. intros R. split; [exact Km|]. destruct K as [Z|(_ & _ & Z)]; auto.
    + eapply seen_ok_same; [core | | exact (g_seen _ HG)].
      intros r Hr. unfold results in *. simpl in Hr. rewrite Ek. exact Hr.
Qed.

Theorem inv_step s l s' : GI s -> step s l = Some s' -> GI s'.
Proof.
  intros HG Hs. destruct l.
  - eapply inv_LMerge; eauto.
  - eapply inv_LSrcEnter; eauto.
  - eapply inv_LSrcExit; eauto.
  - eapply inv_LSrcClose; eauto.
  - eapply inv_LRelease; eauto.
  - eapply inv_LGo; eauto.
  - eapply inv_LCallNext; eauto.
  - eapply inv_LRetNext; eauto.
  - eapply inv_LCallClose; eauto.
  - eapply inv_LRetClose; eauto.
  - eapply inv_LCancel; eauto.
  - discriminate.
  - eapply inv_TSendPoll; eauto.
  - destruct a; try (eapply inv_TSendSel_local; eauto; discriminate). eapply inv_TSendSel_chan; eauto.
  - eapply inv_TCas; eauto.
  - eapply inv_TWCancel; eauto.
  - eapply inv_TSCloseErr; eauto.
  - eapply inv_TDefer; eauto.
  - eapply inv_TLoadOnce; eauto.
  - eapply inv_TSCloseNil; eauto.
  - eapply inv_TWgDone; eauto.
  - destruct a; try (eapply inv_TNextSel_local; eauto; discriminate). eapply inv_TNextSel_chan; eauto.
  - destruct o; [eapply inv_TDrain_some | eapply inv_TDrain_none]; eauto.
  - eapply inv_TCancelEff; eauto.
  - eapply inv_TKClose1; eauto.
  - eapply inv_TKClose2; eauto.
  - eapply inv_TKWait; eauto.
Qed.

Lemma inv_qstep s l s' : GI s -> qstep s l = Some s' -> GI s'.
Proof.
  intros HG Hs. destruct l; try (exact (inv_step _ _ _ HG Hs)).
  simpl in Hs. destruct (quiescent s && Nat.eqb alive0 (alive s)); inversion Hs; subst; exact HG.
Qed.

Lemma inv_init scripts prog nctx : GI (init scripts prog nctx).
Proof.
  unfold init. constructor; simpl; rewrite ?map_length; auto.
  - rewrite count_const. reflexivity.
  - discriminate.
  - intros i j p q Hp. rewrite (nth_error_map_const _ _ _ _ Hp). discriminate.
  - unfold k_ok. simpl. discriminate.
  - unfold seen_ok, results. simpl. split; [intros z []|intros []].
  - intros i p x Hp Hx. rewrite (nth_error_map_const _ _ _ _ Hp).
    destruct (nth_error_map_some _ _ _ _ Hx) as (sc & _ & ->).
    constructor; simpl; auto; no_win. split; reflexivity.
Qed.

Theorem reachable_inv scripts prog nctx s :
  reachable qstep (init scripts prog nctx) s -> GI s /\ nw s = length scripts.
Proof.
  intros Hr.
  apply (invariant_rule qstep (fun s => GI s /\ nw s = length scripts) (init scripts prog nctx));
    [split; [apply inv_init|reflexivity]| |exact Hr].
  intros s1 l s2 [HG Hn] Hs. split; [eapply inv_qstep; eauto|].
  pose proof (inv_qstep _ _ _ HG Hs) as HG2.
  (* nw is a constant field *)
  destruct l; simpl in Hs;
    repeat match type of Hs with
           | context [match ?x with _ => _ end] => destruct x
           end; try discriminate; inversion Hs; subst; simpl; try exact Hn;
    unfold close_sender; try (destruct (sdone s1)); simpl; exact Hn.
Qed.

(* ---- two more (simple) invariants about the consumer ---- *)
Definition k_waits (k : kpc) : bool :=
  match k with KNextSel _ | KNextParked _ | KDrain | KClose1 | KClose2 | KWait => true | _ => false end.

Definition XI (s : st) : Prop :=
  (k_waits (kpc_ s) = true -> ws s <> [])
  /\ (k_parked s = true -> forall i p, nth_error (ws s) i = Some p -> is_parked p = false).

Lemma map_nonnil {A B} (f : A -> B) l : l <> [] -> map f l <> [].
Proof. destruct l; [congruence|discriminate]. Qed.
Lemma upd_nonnil {A} (l : list A) i x : l <> [] -> upd l i x <> [].
Proof. destruct l; [congruence|]. destruct i; discriminate. Qed.

Lemma existsb_parked_false l : existsb is_parked l = false -> forall i p, nth_error l i = Some p -> is_parked p = false.
Proof.
  induction l as [|a l IH]; intros H [|i] p Hp; simpl in *; try discriminate; apply orb_false_elim in H; destruct H as [H1 H2].
  - inversion Hp; subst; exact H1.
  - eapply IH; eauto.
Qed.

(* the consumer's pc is unchanged and no Send becomes parked *)
Lemma xi_shrink s s' :
  XI s -> kpc_ s' = kpc_ s -> (ws s <> [] -> ws s' <> []) ->
  (forall j q', nth_error (ws s') j = Some q' -> is_parked q' = true ->
                exists q, nth_error (ws s) j = Some q /\ is_parked q = true) ->
  XI s'.
Proof.
  intros [X1 X2] Ek Hne Hpk. unfold XI, k_parked in *. rewrite Ek. split.
  - intros Hw. apply Hne. apply X1. exact Hw.
  - intros Hk j q' Hq'. destruct (is_parked q') eqn:E; [|reflexivity].
    destruct (Hpk j q' Hq' E) as (q & Hq & Eq). rewrite (X2 Hk j q Hq) in Eq. discriminate.
Qed.

Lemma xi_setw s i p' : XI s -> is_parked p' = false -> XI (setw s i p').
Proof.
  intros HX Hp. apply (xi_shrink s); auto; simpl.
  - apply upd_nonnil.
  - intros j q' Hq' E. destruct (nth_error_upd_cases _ _ _ _ _ Hq') as [[-> ->]|[Hne Hq]]; [congruence|eauto].
Qed.

Lemma xi_wake s s' g i p' :
  XI s -> wake_ok g -> kpc_ s' = kpc_ s -> ws s' = upd (map g (ws s)) i p' -> is_parked p' = false -> XI s'.
Proof.
  intros HX Hg Ek Ews Hp. apply (xi_shrink s); auto; rewrite Ews.
  - intros H. apply upd_nonnil. apply map_nonnil. exact H.
  - intros j q' Hq' E. destruct (nth_error_wake_cases _ _ _ _ _ _ Hq') as [[-> ->]|[Hne (q0 & Hq0 & ->)]]; [congruence|].
    exists q0. split; [exact Hq0|]. destruct (Hg q0) as [A B]. destruct (is_parked q0) eqn:E0; [reflexivity|].
    rewrite (A eq_refl) in E. congruence.
Qed.

Lemma xi_wake_all s s' g :
  XI s -> wake_ok g -> ws s' = map g (ws s) -> k_parked s' = false ->
  (k_waits (kpc_ s') = true -> k_waits (kpc_ s) = true) -> XI s'.
Proof.
  intros [X1 X2] Hg Ews Hk Hw. unfold XI. rewrite Ews, Hk. split; [|discriminate].
  intros H. apply map_nonnil. apply X1. apply Hw. exact H.
Qed.

(* consumer-only steps *)
Lemma xi_consumer s s' :
  XI s -> ws s' = ws s ->
  (k_waits (kpc_ s') = true -> k_waits (kpc_ s) = true \/ ws s <> []) ->
  (k_parked s' = true -> k_parked s = true \/ existsb is_parked (ws s) = false) ->
  XI s'.
Proof.
  intros [X1 X2] Ews Hw Hk. unfold XI. rewrite Ews. split.
  - intros H. destruct (Hw H) as [A|A]; auto.
  - intros H. destruct (Hk H) as [A|A]; [exact (X2 A)|]. apply existsb_parked_false. exact A.
Qed.

Lemma xi_step s l s' : XI s -> step s l = Some s' -> XI s'.
Proof.
  intros HX Hs. destruct l; simpl in Hs.
  - (* LMerge *) destruct (merged s); [discriminate|]. inversion Hs; subst; clear Hs.
    apply (xi_shrink s); auto; simpl; [apply map_nonnil|].
    intros j q' Hq' E. rewrite (nth_error_map_const _ _ _ _ Hq') in E. discriminate.
  - destruct (nth_error (ws s) i) as [[]|]; try discriminate. inversion Hs; subst. apply xi_setw; auto.
  - destruct (nth_error (ws s) i) as [[]|]; try discriminate. destruct (nth_error (srcs s) i); [|discriminate].
    destruct r as [v'| |[z| |]];
      repeat match type of Hs with context [match ?x with _ => _ end] => destruct x end;
      try discriminate; inversion Hs; subst; apply (xi_setw (with_srcs s _)) || apply xi_setw; auto.
  - destruct (nth_error (ws s) i) as [[]|]; try discriminate. destruct (nth_error (srcs s) i); [|discriminate].
    inversion Hs; subst. apply (xi_setw (with_srcs s _)); auto.
  - destruct (nth_error (srcs s) i); [|discriminate]. inversion Hs; subst. exact HX.
  - destruct (merged s); [|discriminate]. inversion Hs; subst. exact HX.
  - (* LCallNext *)
    destruct (kpc_ s) eqn:Ek; try discriminate. destruct (kgo s); [discriminate|]. destruct (kprog s) as [|[c'|] rest]; try discriminate.
    destruct (Nat.eqb c c' && merged s && negb (rdone s)); [|discriminate]. inversion Hs; subst; clear Hs.
    apply (xi_consumer s); auto; unfold k_parked; simpl; destruct (ws s) eqn:Ew; simpl; try discriminate.
    intros _. right. discriminate.
  - (* LRetNext *)
    destruct (kpc_ s) eqn:Ek; try discriminate. destruct (nres_eqb r r0); [|discriminate]. inversion Hs; subst.
    apply (xi_consumer s); auto; unfold k_parked; simpl; discriminate.
  - (* LCallClose *)
    destruct (kpc_ s) eqn:Ek; try discriminate. destruct (kgo s); [discriminate|]. destruct (kprog s) as [|[c'|] rest]; try discriminate.
    destruct (merged s && negb (rdone s)); [|discriminate]. inversion Hs; subst; clear Hs.
    apply (xi_consumer s); auto; unfold k_parked; simpl; destruct (ws s) eqn:Ew; simpl; try discriminate.
    intros _. right. discriminate.
  - (* LRetClose *)
    destruct (kpc_ s) eqn:Ek; try discriminate. inversion Hs; subst.
    destruct (ws s) eqn:Ew; apply (xi_consumer s); auto; unfold k_parked; simpl; discriminate.
  - destruct (nth_error (kctxs s) c) as [[| |]|]; try discriminate; inversion Hs; subst; exact HX.
  - discriminate.
  - destruct (nth_error (ws s) i) as [[]|]; try discriminate. inversion Hs; subst. apply xi_setw; auto.
    destruct (sdone s); [destruct (serr s)|]; reflexivity.
  - (* TSendSel *)
    destruct (nth_error (ws s) i) as [[]|] eqn:Hp; try discriminate.
    destruct a.
    + destruct (ctx s); [|discriminate]. inversion Hs; subst. apply xi_setw; auto.
    + destruct (rdone s); [|discriminate]. inversion Hs; subst. apply xi_setw; auto.
    + destruct (sdone s); [|discriminate]. inversion Hs; subst. apply xi_setw; auto. destruct (serr s); reflexivity.
    + destruct (k_parked s) eqn:Ek; [|discriminate]. inversion Hs; subst.
      destruct HX as [X1 X2]. unfold XI, k_parked in *. simpl. split; [discriminate|discriminate].
    + destruct (ctx s || rdone s || sdone s || k_parked s) eqn:Eg; [discriminate|]. inversion Hs; subst.
      apply orb_false_elim in Eg. destruct Eg as [_ Ek].
      destruct HX as [X1 X2]. unfold XI, k_parked in *. simpl. rewrite Ek. split; [|discriminate].
      intros H. apply upd_nonnil. apply X1. exact H.
  - destruct (nth_error (ws s) i) as [[]|]; try discriminate. destruct (once s); inversion Hs; subst.
    + apply xi_setw; auto.
    + apply (xi_setw (with_once s _)); auto.
  - destruct (nth_error (ws s) i) as [[]|]; try discriminate. inversion Hs; subst.
    eapply (xi_wake s _ wake_err); eauto using wake_err_ok; reflexivity.
  - (* TSCloseErr *)
    destruct (nth_error (ws s) i) as [[]|]; try discriminate. inversion Hs; subst. unfold close_sender.
    destruct (sdone s); [apply xi_setw; auto|].
    destruct HX as [X1 X2]. unfold XI, k_parked in *. simpl. split.
    + intros H. apply upd_nonnil. apply map_nonnil. apply X1. destruct (kpc_ s); try discriminate; reflexivity.
    + destruct (kpc_ s); discriminate.
  - destruct (nth_error (ws s) i) as [[]|]; try discriminate. inversion Hs; subst.
    apply (xi_setw (with_ndone s _)); auto.
    match goal with |- is_parked (if ?b then _ else _) = false => destruct b; reflexivity end.
  - destruct (nth_error (ws s) i) as [[]|]; try discriminate. inversion Hs; subst. apply xi_setw; auto.
    destruct (once s); reflexivity.
  - (* TSCloseNil *)
    destruct (nth_error (ws s) i) as [[]|]; try discriminate. inversion Hs; subst. unfold close_sender.
    destruct (sdone s); [apply xi_setw; auto|].
    destruct HX as [X1 X2]. unfold XI, k_parked in *. simpl. split.
    + intros H. apply upd_nonnil. apply map_nonnil. apply X1. destruct (kpc_ s); try discriminate; reflexivity.
    + destruct (kpc_ s); discriminate.
  - destruct (nth_error (ws s) i) as [[]|]; try discriminate. inversion Hs; subst.
    apply (xi_setw (with_wg s _)); auto.
  - (* TNextSel *)
    destruct (kpc_ s) eqn:Ek; try discriminate. destruct a.
    + destruct (kctx_done s c); [|discriminate]. inversion Hs; subst.
      apply (xi_consumer s); auto; unfold k_parked; simpl; discriminate.
    + destruct (nth_error (ws s) i) as [[]|]; try discriminate. inversion Hs; subst.
      destruct HX as [X1 X2]. unfold XI, k_parked in *. simpl. split; discriminate.
    + destruct (sdone s); [|discriminate]. inversion Hs; subst.
      apply (xi_consumer s); auto; unfold k_parked; simpl; [|discriminate]. intros _. left. rewrite Ek. reflexivity.
    + destruct (kctx_done s c || sdone s || existsb is_parked (ws s)) eqn:Eg; [discriminate|]. inversion Hs; subst.
      apply orb_false_elim in Eg. destruct Eg as [_ Ep].
      apply (xi_consumer s); [exact HX | reflexivity | intros _; left; rewrite Ek; reflexivity | intros _; right; exact Ep].
  - (* TDrain *)
    destruct (kpc_ s) eqn:Ek; try discriminate. destruct o.
    + destruct (nth_error (ws s) n) as [[]|]; try discriminate. inversion Hs; subst.
      destruct HX as [X1 X2]. unfold XI, k_parked in *. simpl. split; discriminate.
    + destruct (existsb is_parked (ws s)); [discriminate|]. inversion Hs; subst.
      apply (xi_consumer s); auto; unfold k_parked; simpl; discriminate.
  - (* TCancelEff *)
    destruct (nth_error (kctxs s) c) as [[| |]|]; try discriminate. inversion Hs; subst; clear Hs.
    destruct (kpc_ s) eqn:Ek; try (apply (xi_consumer s); auto; unfold k_parked; simpl; rewrite Ek; auto; fail).
    destruct (Nat.eqb c c0).
    + apply (xi_consumer s); auto; unfold k_parked; simpl; discriminate.
    + apply (xi_consumer s); auto; unfold k_parked; simpl; rewrite Ek; auto.
  - destruct (kpc_ s) eqn:Ek; try discriminate. inversion Hs; subst.
    eapply (xi_wake_all s _ wake_err); eauto using wake_err_ok; try reflexivity. simpl. rewrite Ek. auto.
  - destruct (kpc_ s) eqn:Ek; try discriminate. inversion Hs; subst.
    eapply (xi_wake_all s _ wake_err); eauto using wake_err_ok; try reflexivity. simpl. rewrite Ek. auto.
  - destruct (kpc_ s) eqn:Ek; try discriminate. destruct (wg s); [|discriminate]. inversion Hs; subst.
    apply (xi_consumer s); auto; unfold k_parked; simpl; discriminate.
Qed.

Lemma reachable_xi scripts prog nctx s : reachable qstep (init scripts prog nctx) s -> XI s.
Proof.
  intros Hr. apply (invariant_rule qstep XI (init scripts prog nctx)); [| |exact Hr].
  - unfold XI, k_parked. simpl. split; discriminate.
  - intros s1 l s2 HX Hs. destruct l; try (exact (xi_step _ _ _ HX Hs)).
    simpl in Hs. destruct (quiescent s1 && Nat.eqb alive0 (alive s1)); inversion Hs; subst; exact HX.
Qed.

(* ---- progress of a worker ---- *)
Definition worker_can_step (s : st) (i : nat) : Prop :=
  exists l, In l (worker_taus i ++ worker_visible s i) /\ enabled s l = true.
Definition waits_for_source (s : st) (i : nat) : Prop :=
  nth_error (ws s) i = Some WInNext /\ ctx s = false
  /\ exists x, nth_error (srcs s) i = Some x /\ s_tokens x = 0.

Ltac can_step l := exists l; split; [unfold worker_taus, worker_visible; simpl; tauto|unfold enabled; simpl].

Lemma worker_enabled s i p :
  GI s -> merged s = true -> nth_error (ws s) i = Some p -> p <> WExited ->
  worker_can_step s i \/ waits_for_source s i \/ is_parked p = true.
Proof.
  intros HG Hm Hp Hne. destruct (src_exists _ _ _ HG Hp) as [x Hx].
  pose proof (g_workers _ HG i p x Hp Hx) as W.
  destruct p; try congruence.
  - exfalso. destruct (wi_idle _ _ _ _ W) as [A _]. specialize (A eq_refl). congruence.
  - left. can_step (LSrcEnter i). rewrite Hp. reflexivity.
  - destruct (ctx s) eqn:Ec.
    + left. can_step (LSrcExit i (SRErr ECtx)). rewrite Hp, Hx, Ec. reflexivity.
    + destruct (s_tokens x) as [|t] eqn:Et.
      * right. left. split; [exact Hp|]. split; [exact Ec|]. eauto.
      * left. destruct (s_items x) as [|v rest] eqn:Ei; [destruct (s_fin x) as [e|] eqn:Ef|].
        -- exists (LSrcExit i (SRErr (EScr e))). split.
           ++ unfold worker_visible. rewrite Hx, Ei, Ef. simpl. tauto.
           ++ unfold enabled. simpl. rewrite Hp, Hx, Et, Ei, Ef, Z.eqb_refl. reflexivity.
        -- exists (LSrcExit i SREnd). split.
           ++ unfold worker_visible. simpl. tauto.
           ++ unfold enabled. simpl. rewrite Hp, Hx, Et, Ei, Ef. reflexivity.
        -- exists (LSrcExit i (SRItem v)). split.
           ++ unfold worker_visible. rewrite Hx, Ei. simpl. tauto.
           ++ unfold enabled. simpl. rewrite Hp, Hx, Et, Ei, Z.eqb_refl. reflexivity.
  - left. can_step (TSendPoll i). rewrite Hp. reflexivity.
  - left. destruct (ctx s) eqn:Ec; [can_step (TSendSel i ACtx); rewrite Hp, Ec; reflexivity|].
    destruct (rdone s) eqn:Er; [can_step (TSendSel i AStream); rewrite Hp, Er; reflexivity|].
    destruct (sdone s) eqn:Ed; [can_step (TSendSel i ASender); rewrite Hp, Ed; reflexivity|].
    destruct (k_parked s) eqn:Ek; [can_step (TSendSel i AChan); rewrite Hp, Ek; reflexivity|].
    can_step (TSendSel i APark). rewrite Hp, Ec, Er, Ed, Ek. reflexivity.
  - right. right. reflexivity.
  - left. can_step (TCas i). rewrite Hp. destruct (once s); reflexivity.
  - left. can_step (TWCancel i). rewrite Hp. reflexivity.
  - left. can_step (TSCloseErr i). rewrite Hp. reflexivity.
  - left. can_step (TDefer i). rewrite Hp. reflexivity.
  - left. can_step (TLoadOnce i). rewrite Hp. reflexivity.
  - left. can_step (TSCloseNil i). rewrite Hp. reflexivity.
  - left. can_step (LSrcClose i). rewrite Hp, Hx. reflexivity.
  - left. can_step (TWgDone i). rewrite Hp. reflexivity.
  - exfalso. apply (wi_nopanic _ _ _ _ W). reflexivity.
Qed.

Lemma count_lt_exists {A} (f : A -> bool) l : count f l < length l -> exists i x, nth_error l i = Some x /\ f x = false.
Proof.
  unfold count. induction l as [|a l IH]; intros H; simpl in *; [lia|].
  destruct (f a) eqn:E; simpl in H.
  - destruct IH as (i & x & Hx & Ex); [lia|]. exists (S i), x. auto.
  - exists 0, a. auto.
Qed.

(* ================= the theorems ================= *)

(* C12_stream_interleaving *)
Theorem stream_interleaving scripts prog nctx s :
  reachable qstep (init scripts prog nctx) s ->
  Forall (fun p => fst p < length scripts) (recvd s)
  /\ forall i p x, nth_error (ws s) i = Some p -> nth_error (srcs s) i = Some x ->
       (* what the consumer received from input i, then the item worker i holds, is a prefix of what input i yielded *)
       (exists d, s_out x = from i (recvd s) ++ held p ++ d)
       (* and nothing is dropped unless an input failed or the output was closed *)
       /\ (once s = false -> rdone s = false -> s_out x = from i (recvd s) ++ held p).
Proof.
  intros Hr. destruct (reachable_inv _ _ _ _ Hr) as [HG Hn]. split; [rewrite <- Hn; exact (g_tags _ HG)|].
  intros i p x Hp Hx. pose proof (g_workers _ HG i p x Hp Hx) as W.
  pose proof (wi_data _ _ _ _ W) as D. pose proof (wi_ended _ _ _ _ W) as E.
  destruct (post_loop p) eqn:Epl.
  - assert (Hh : held p = []) by (destruct p; try discriminate; reflexivity). rewrite Hh. simpl. split; [exact D|].
    intros Ho Hrd. rewrite app_nil_r. apply E; auto.
  - split; [exists []; rewrite app_nil_r; exact D | intros _ _; exact D].
Qed.

(* C12_stream_end_when_all_done *)
Theorem stream_end_only_when_done scripts prog nctx s :
  reachable qstep (init scripts prog nctx) s -> In NEnd (results s) ->
  forall i x, nth_error (srcs s) i = Some x ->
    s_items x = [] /\ s_fin x = None /\ s_out x = from i (recvd s).
Proof.
  intros Hr HE i x Hx. destruct (reachable_inv _ _ _ _ Hr) as [HG Hn].
  destruct (g_seen _ HG) as [_ S2]. destruct (S2 HE) as [Z|(_ & _ & F)]; [|exact (F i x Hx)].
  exfalso. assert (i < length (srcs s)) by (apply nth_error_Some; congruence). rewrite (g_lens _ HG) in *. lia.
Qed.

Theorem stream_zero_inputs_end_at_once prog nctx s c s' :
  reachable qstep (init [] prog nctx) s -> step s (LCallNext c) = Some s' -> kpc_ s' = KRet NEnd.
Proof.
  intros Hr Hs. destruct (reachable_inv _ _ _ _ Hr) as [HG Hn]. simpl in Hn.
  assert (Hw : ws s = []) by (destruct (ws s) eqn:E; [reflexivity|]; pose proof (g_lenw _ HG) as L; rewrite E in L; simpl in L; lia).
  simpl in Hs. destruct (kpc_ s); try discriminate. destruct (kgo s); [discriminate|].
  destruct (kprog s) as [|[c'|] rest]; try discriminate.
  destruct (Nat.eqb c c' && merged s && negb (rdone s)); [|discriminate]. inversion Hs; subst. simpl. rewrite Hw. reflexivity.
Qed.

(* while the consumer is blocked in Next, some worker goroutine is still running and either has an enabled step
   or is waiting inside its input's Next (which the input must answer): End / the error is reported as soon as
   the inputs are exhausted *)
Theorem stream_next_progress scripts prog nctx s c :
  reachable qstep (init scripts prog nctx) s -> kpc_ s = KNextParked c ->
  exists i p, nth_error (ws s) i = Some p /\ p <> WExited /\ (worker_can_step s i \/ waits_for_source s i).
Proof.
  intros Hr Hk. destruct (reachable_inv _ _ _ _ Hr) as [HG Hn]. destruct (reachable_xi _ _ _ _ Hr) as [X1 X2].
  pose proof (g_kpc _ HG) as K. unfold k_ok in K. rewrite Hk in K. destruct K as (Kr & Km & Kd).
  assert (Hnz : nw s <> 0).
  { rewrite <- (g_lenw _ HG). specialize (X1 ltac:(rewrite Hk; reflexivity)). destruct (ws s); [congruence|discriminate]. }
  assert (Hnp : forall i p, nth_error (ws s) i = Some p -> is_parked p = false).
  { apply X2. unfold k_parked. rewrite Hk. reflexivity. }
  assert (Hex : exists i p, nth_error (ws s) i = Some p /\ p <> WExited /\ post_defer p = false \/ closer p = true /\ nth_error (ws s) i = Some p).
  { destruct (Nat.eq_dec (ndone s) (nw s)) as [E|E].
    - destruct (g_alldone _ HG E Hnz) as [D|(i & p & Hp & C)]; [congruence|]. exists i, p. right. auto.
    - assert (L : count post_defer (ws s) < length (ws s)).
      { pose proof (count_le post_defer (ws s)). rewrite <- (g_ndone _ HG), (g_lenw _ HG) in *. lia. }
      destruct (count_lt_exists _ _ L) as (i & p & Hp & F). exists i, p. left. split; [exact Hp|]. split; [|exact F].
      intros ->. discriminate. }
  destruct Hex as (i & p & [(Hp & Hne & _)|(C & Hp)]).
  - exists i, p. split; [exact Hp|]. split; [exact Hne|].
    destruct (worker_enabled s i p HG Km Hp Hne) as [A|[A|A]]; auto. rewrite (Hnp _ _ Hp) in A. discriminate.
  - assert (Hne : p <> WExited) by (intros ->; discriminate).
    exists i, p. split; [exact Hp|]. split; [exact Hne|].
    destruct (worker_enabled s i p HG Km Hp Hne) as [A|[A|A]]; auto. rewrite (Hnp _ _ Hp) in A. discriminate.
Qed.

(* C12_first_error *)
Theorem stream_first_error scripts prog nctx s :
  reachable qstep (init scripts prog nctx) s ->
  (* a script error seen by the consumer is the one stored by the worker that won the closeOnce CAS *)
  (forall z, In (NErr (EScr z)) (results s) -> serr s = Some (EScr z) /\ exists i, winners s = [(i, EScr z)])
  (* at most one worker ever wins; the sender is closed at most once; no worker panics *)
  /\ length (winners s) <= 1 /\ sclosed s <= 1
  /\ (forall i, nth_error (ws s) i <> Some WPanic)
  (* the stored error is what the pipe was closed with, by the winner *)
  /\ (forall e, serr s = Some e -> sdone s = true /\ exists i, winners s = [(i, e)]).
Proof.
  intros Hr. destruct (reachable_inv _ _ _ _ Hr) as [HG Hn].
  pose proof (g_sender _ HG) as S. pose proof (g_once _ HG) as O.
  assert (Hse : forall e, serr s = Some e -> sdone s = true /\ exists i, winners s = [(i, e)]).
  { intros e He. destruct (sdone s); [|destruct S; congruence]. split; [reflexivity|]. destruct S as [_ S]. rewrite He in S. exact S. }
  split; [|split; [|split; [|split]]].
  - intros z Hz. destruct (g_seen _ HG) as [S1 _]. specialize (S1 z Hz). split; [exact S1|]. apply (Hse _ S1).
  - destruct (once s); [destruct O as (i & e & p & -> & _); simpl; lia | rewrite O; simpl; lia].
  - destruct (sdone s); destruct S as [S1 S2]; lia.
  - intros i Hp. destruct (src_exists _ _ _ HG Hp) as [x Hx]. apply (wi_nopanic _ _ _ _ (g_workers _ HG i _ x Hp Hx)). reflexivity.
  - exact Hse.
Qed.

(* once closed the pipe's error cell never changes: errors of later failing inputs are dropped *)
Theorem stream_error_sticky s l s' : step s l = Some s' -> sdone s = true -> sdone s' = true /\ serr s' = serr s.
Proof.
  intros Hs Hd. destruct l; simpl in Hs;
    repeat match type of Hs with
           | context [match ?x with _ => _ end] => destruct x eqn:?
           end; try discriminate; try congruence; inversion Hs; subst; clear Hs; unfold close_sender; rewrite ?Hd; simpl; auto;
    try congruence.
Qed.

Theorem stream_lost_cas_drops_error s i s' :
  step s (TCas i) = Some s' -> once s = true ->
  serr s' = serr s /\ sdone s' = sdone s /\ winners s' = winners s /\ ctx s' = ctx s.
Proof.
  intros Hs Ho. simpl in Hs. destruct (nth_error (ws s) i) as [[]|]; try discriminate. rewrite Ho in Hs.
  inversion Hs; subst. simpl. auto.
Qed.

(* C12_workers_exit_after_close *)
Theorem stream_workers_exit_after_close scripts prog nctx s :
  reachable qstep (init scripts prog nctx) s ->
  (* Close is in progress: first its own two steps are enabled, then every worker that has not finished has an
     enabled step (an input's Next returns because the shared context is cancelled), then wg.Wait returns *)
  (kpc_ s = KClose1 -> enabled s TKClose1 = true)
  /\ (kpc_ s = KClose2 -> enabled s TKClose2 = true)
  /\ (kpc_ s = KWait ->
      (forall i p, nth_error (ws s) i = Some p -> p <> WExited -> worker_can_step s i)
      /\ ((forall i p, nth_error (ws s) i = Some p -> p = WExited) -> enabled s TKWait = true))
  (* every input is closed at most once, and exactly once by the time Close returns, when all workers are gone *)
  /\ (forall i p x, nth_error (ws s) i = Some p -> nth_error (srcs s) i = Some x -> s_closes x = closed_in p)
  /\ (kpc_ s = KCloseRet \/ (kpc_ s = KIdle /\ rdone s = true) ->
      forall i p x, nth_error (ws s) i = Some p -> nth_error (srcs s) i = Some x -> p = WExited /\ s_closes x = 1).
Proof.
  intros Hr. destruct (reachable_inv _ _ _ _ Hr) as [HG Hn].
  pose proof (g_kpc _ HG) as K. unfold k_ok in K.
  split; [|split; [|split; [|split]]].
  - intros Ek. unfold enabled. simpl. rewrite Ek. reflexivity.
  - intros Ek. unfold enabled. simpl. rewrite Ek. reflexivity.
  - intros Ek. rewrite Ek in K. destruct K as (Kr & Km & Kc). split.
    + intros i p Hp Hne. destruct (worker_enabled s i p HG Km Hp Hne) as [A|[(_ & A & _)|A]]; [exact A|congruence|].
      exfalso. destruct (src_exists _ _ _ HG Hp) as [x Hx].
      destruct (wi_parked _ _ _ _ (g_workers _ HG i p x Hp Hx) A) as (_ & B & _). congruence.
    + intros Hall. unfold enabled. simpl. rewrite Ek.
      assert (W : wg s = 0).
      { rewrite (g_wg _ HG Km). apply count_none. intros i p Hp. rewrite (Hall i p Hp). reflexivity. }
      rewrite W. reflexivity.
  - intros i p x Hp Hx. apply (wi_closes _ _ _ _ (g_workers _ HG i p x Hp Hx)).
  - intros Hk i p x Hp Hx.
    assert (Hnz : nw s <> 0).
    { assert (i < length (ws s)) by (apply nth_error_Some; congruence). rewrite (g_lenw _ HG) in *. lia. }
    assert (W : wg s = 0 /\ merged s = true).
    { destruct Hk as [Ek|[Ek Er]]; rewrite Ek in K.
      - destruct K as [Km [Z|(_ & _ & Z)]]; [congruence|auto].
      - destruct (K Er) as [Km [Z|Z]]; [congruence|auto]. }
    destruct W as [W Km]. rewrite (g_wg _ HG Km) in W.
    pose proof (count_zero _ _ W i p Hp) as E. assert (p = WExited) by (destruct p; try discriminate; reflexivity). subst p.
    split; [reflexivity|]. apply (wi_closes _ _ _ _ (g_workers _ HG i _ x Hp Hx)).
Qed.

(* ---- variant: the workers cannot run forever on their own ---- *)
Definition rank (p : wpc) : nat :=
  match p with
  | WSendPoll _ => 16 | WSendSel _ => 15 | WSendParked _ => 14 | WCallNext => 13 | WInNext => 12
  | WCas _ => 10 | WCancel _ => 9 | WSCloseErr _ => 8 | WDefer => 7 | WLoadOnce => 6 | WSCloseNil => 5
  | WCloseIn => 4 | WWgDone => 3 | WIdle | WExited | WPanic => 0
  end.
(* every released token allows one more trip round a worker's loop *)
Definition measure (s : st) : nat := list_sum (map rank (ws s)) + 20 * list_sum (map s_tokens (srcs s)).

Lemma sum_upd {A} (f : A -> nat) l i x y :
  nth_error l i = Some x -> list_sum (map f (upd l i y)) + f x = list_sum (map f l) + f y.
Proof.
  revert i. induction l as [|a l IH]; intros [|i] H; simpl in *; try discriminate.
  - inversion H; subst. lia.
  - specialize (IH i H). lia.
Qed.

Lemma sum_map_le {A} (f : A -> nat) (g : A -> A) l : (forall x, f (g x) <= f x) -> list_sum (map f (map g l)) <= list_sum (map f l).
Proof. intros H. induction l as [|a l IH]; simpl; [lia|]. specialize (H a). lia. Qed.

Lemma rank_wake g p : wake_ok g -> rank (g p) <= rank p.
Proof.
  intros Hg. destruct (Hg p) as [A B]. destruct (is_parked p) eqn:E; [|rewrite A; auto].
  destruct p; try discriminate. destruct (B eq_refl) as [-> | ->]; simpl; lia.
Qed.

Lemma measure_setw s s' i p p' :
  nth_error (ws s) i = Some p -> ws s' = upd (ws s) i p' -> srcs s' = srcs s -> rank p' < rank p -> measure s' < measure s.
Proof.
  intros Hp Ews Es Hr. unfold measure. rewrite Ews, Es. pose proof (sum_upd rank _ _ _ p' Hp). lia.
Qed.

Lemma measure_wake s s' g i p p' :
  wake_ok g -> is_parked p = false ->
  nth_error (ws s) i = Some p -> ws s' = upd (map g (ws s)) i p' -> srcs s' = srcs s -> rank p' < rank p -> measure s' < measure s.
Proof.
  intros Hg Hnp Hp Ews Es Hr. unfold measure. rewrite Ews, Es.
  assert (Hm : nth_error (map g (ws s)) i = Some p).
  { rewrite nth_error_map, Hp. simpl. f_equal. apply Hg. exact Hnp. }
  pose proof (sum_upd rank _ _ _ p' Hm). pose proof (sum_map_le rank g (ws s) (fun q => rank_wake g q Hg)). lia.
Qed.

Lemma measure_src s s' i p p' x x' :
  nth_error (ws s) i = Some p -> nth_error (srcs s) i = Some x ->
  ws s' = upd (ws s) i p' -> srcs s' = upd (srcs s) i x' ->
  rank p' + 20 * s_tokens x' < rank p + 20 * s_tokens x -> measure s' < measure s.
Proof.
  intros Hp Hx Ews Es Hr. unfold measure. rewrite Ews, Es.
  pose proof (sum_upd rank _ _ _ p' Hp). pose proof (sum_upd s_tokens _ _ _ x' Hx). lia.
Qed.

(* every step taken by worker i - internal or an up-call into its input - decreases the measure *)
Theorem worker_steps_decrease s i l s' :
  In l (worker_taus i) \/ (exists r, l = LSrcExit i r) \/ l = LSrcEnter i \/ l = LSrcClose i ->
  step s l = Some s' -> measure s' < measure s.
Proof.
  intros Hl Hs.
  assert (Hcases : (exists a, l = TSendSel i a) \/ In l [TSendPoll i; TCas i; TWCancel i; TSCloseErr i; TDefer i; TLoadOnce i; TSCloseNil i; TWgDone i; LSrcEnter i; LSrcClose i] \/ exists r, l = LSrcExit i r).
  { destruct Hl as [Hl|[Hl|[Hl|Hl]]]; [|right; right; exact Hl|subst; right; left; simpl; tauto|subst; right; left; simpl; tauto].
    unfold worker_taus in Hl. simpl in Hl.
    repeat (destruct Hl as [<-|Hl]; [first [left; eexists; reflexivity | right; left; simpl; tauto]|]). destruct Hl. }
  clear Hl. destruct Hcases as [[a ->]|[Hl|[r ->]]].
  - (* TSendSel *) simpl in Hs. destruct (nth_error (ws s) i) as [p|] eqn:Hp; [|discriminate]. destruct p; try discriminate.
    destruct a.
    + destruct (ctx s); [|discriminate]. inversion Hs; subst. eapply measure_setw; eauto; simpl; auto; unfold rank; lia.
    + destruct (rdone s); [|discriminate]. inversion Hs; subst. eapply measure_setw; eauto; simpl; auto; unfold rank; lia.
    + destruct (sdone s); [|discriminate]. inversion Hs; subst. eapply measure_setw; eauto; simpl; auto.
      destruct (serr s); unfold rank; simpl; lia.
    + destruct (k_parked s); [|discriminate]. inversion Hs; subst. eapply measure_setw; eauto; simpl; auto; unfold rank; lia.
    + destruct (ctx s || rdone s || sdone s || k_parked s); [discriminate|]. inversion Hs; subst.
      eapply measure_setw; eauto; simpl; auto; unfold rank; lia.
  - simpl in Hl. repeat (destruct Hl as [<-|Hl]); try destruct Hl; simpl in Hs;
      destruct (nth_error (ws s) i) as [p|] eqn:Hp; try discriminate; destruct p; try discriminate.
    + (* TSendPoll *) inversion Hs; subst. eapply measure_setw; eauto; simpl; auto.
      destruct (sdone s); [destruct (serr s)|]; unfold rank; simpl; lia.
    + (* TCas *) destruct (once s); inversion Hs; subst; eapply measure_setw; eauto; simpl; auto; unfold rank; simpl; lia.
    + (* TWCancel *) inversion Hs; subst. eapply (measure_wake s _ wake_err); eauto using wake_err_ok; simpl; auto; unfold rank; lia.
    + (* TSCloseErr *) inversion Hs; subst. unfold close_sender. destruct (sdone s).
      * eapply measure_setw; eauto; simpl; auto; unfold rank; lia.
      * eapply (measure_wake s _ (wake_sender (Some e))); eauto using wake_sender_ok; simpl; auto; unfold rank; lia.
    + (* TDefer *) inversion Hs; subst. eapply measure_setw; eauto; simpl; auto.
      match goal with |- rank (if ?b then _ else _) < _ => destruct b; unfold rank; simpl; lia end.
    + (* TLoadOnce *) inversion Hs; subst. eapply measure_setw; eauto; simpl; auto. destruct (once s); unfold rank; simpl; lia.
    + (* TSCloseNil *) inversion Hs; subst. unfold close_sender. destruct (sdone s).
      * eapply measure_setw; eauto; simpl; auto; unfold rank; lia.
      * eapply (measure_wake s _ (wake_sender None)); eauto using wake_sender_ok; simpl; auto; unfold rank; lia.
    + (* TWgDone *) inversion Hs; subst. eapply measure_setw; eauto; simpl; auto; unfold rank; lia.
    + (* LSrcEnter *) inversion Hs; subst. eapply measure_setw; eauto; simpl; auto; unfold rank; lia.
    + (* LSrcClose *) destruct (nth_error (srcs s) i) as [x|] eqn:Hx; [|discriminate]. inversion Hs; subst.
      eapply measure_src; eauto; simpl; auto; unfold rank; lia.
  - (* LSrcExit *) simpl in Hs. destruct (nth_error (ws s) i) as [p|] eqn:Hp; [|discriminate]. destruct p; try discriminate.
    destruct (nth_error (srcs s) i) as [x|] eqn:Hx; [|discriminate].
    destruct r as [v'| |[z| |]];
      repeat match type of Hs with context [match ?y with _ => _ end] => destruct y eqn:? end;
      try discriminate; inversion Hs; subst;
      first [ eapply measure_src; eauto; simpl; auto; unfold rank; simpl; lia | eapply measure_setw; eauto; simpl; auto; unfold rank; simpl; lia ].
Qed.
End SMP.

(* ================================================================================================ *)
(* variant for chans.Merge / chans.Replicate: the call's own steps cannot go on forever *)
Module CMV.
Import CM. Import CMP.

Definition is_send (c : cmd) : bool := match c with CSend _ => true | CClose => false end.
Definition nsends (q : list cmd) : nat := length (filter is_send q).
(* values that can still reach the call without the controller: buffered in an input or queued at its producer *)
Definition items (s : st) : nat :=
  list_sum (map (fun c => length (buf c)) (firstn (nin s) (chs s))) + list_sum (map (fun p => nsends (p_q p)) (prods s)).
Definition unseen (s : st) : nat := SMP.count negb (seen_closed s).
Definition hrank (s : st) : nat := match pc s with LHand _ _ j => 1 + (nout s - j) | _ => 0 end.
Definition prank (p : lpc) : nat := match p with LInit => 3 | LLoop | LHand _ _ _ => 2 | LRetp => 1 | LDone => 0 end.
Definition measure (s : st) : nat := (nout s + 3) * items s + unseen s + hrank s + prank (pc s).

Lemma firstn_upd_lt {A} (l : list A) n k x : k < n -> firstn n (upd l k x) = upd (firstn n l) k x.
Proof.
  revert n k. induction l as [|a l IH]; intros [|n] [|k] H; simpl; try reflexivity; try lia.
  rewrite IH by lia. reflexivity.
Qed.

Lemma firstn_upd_ge {A} (l : list A) n k x : n <= k -> firstn n (upd l k x) = firstn n l.
Proof.
  revert n k. induction l as [|a l IH]; intros [|n] [|k] H; simpl; try reflexivity; try lia.
  rewrite IH by lia. reflexivity.
Qed.

Lemma nth_error_firstn_lt {A} (l : list A) n k : k < n -> nth_error (firstn n l) k = nth_error l k.
Proof.
  revert n k. induction l as [|a l IH]; intros [|n] [|k] H; simpl; try reflexivity; try lia.
  apply IH. lia.
Qed.

Lemma hol_rank s k v j : j <= nout s ->
  match hand_or_loop s k v j with LHand _ _ j' => 1 + (nout s - j') | _ => 0 end <= 1 + (nout s - j)
  /\ prank (hand_or_loop s k v j) = 2.
Proof.
  intros Hj. unfold hand_or_loop. destruct (knd s); try (destruct j; simpl; split; try reflexivity; lia).
  destruct (Nat.ltb j (nout s)); simpl; split; try reflexivity; lia.
Qed.

Definition lib_label (l : lab) : Prop := l = LRet \/ l = TLibSend \/ l = TLibExit \/ exists pos, l = TLibRecv pos.

Theorem lib_steps_decrease s l s' : Inv s -> lib_label l -> step s l = Some s' -> measure s' < measure s.
Proof.
  intros HI Hl Hs. destruct Hl as [->|[->|[->|[pos ->]]]].
  - destruct (step_LRet _ _ Hs) as [Epc ->]. unfold measure, hrank, items, unseen. simpl. rewrite Epc. simpl. lia.
  - (* TLibSend *)
    destruct (step_TLibSend _ _ Hs) as [k v j c cn Epc Hc Hcn Hlen ->|k v j c p Epc Hc Hcn Hcap ->];
      destruct (i_hand _ HI _ _ _ Epc) as (Hk & Hj & _);
      unfold measure, hrank, items, unseen; simpl; rewrite Epc; simpl;
      rewrite ?firstn_upd_ge by lia;
      destruct (hol_rank s k v (S j) ltac:(lia)) as [A B]; rewrite B; simpl in *; lia.
  - destruct (step_TLibExit _ _ Hs) as (Ek & Epc & Ec & ->). unfold measure, hrank, items, unseen. simpl. rewrite Epc. simpl. lia.
  - (* TLibRecv *)
    destruct (step_TLibRecv _ _ _ Hs) as [Epc Hcase].
    destruct Hcase as [k c v b Hsel Hc Hb ->|k c Hsel Hc Hb Hcl ->|k c v q Hsel Hc Hb Hcl Hcap Hp ->];
      destruct (sel_unseen _ _ _ HI Epc Hsel) as [Hk Hun].
    + (* a buffered value *)
      unfold measure, hrank, items, unseen, take_value. simpl. rewrite Epc. simpl.
      rewrite firstn_upd_lt by exact Hk.
      assert (Hf : nth_error (firstn (nin s) (chs s)) k = Some c) by (rewrite nth_error_firstn_lt by exact Hk; exact Hc).
      pose proof (SMP.sum_upd (fun c0 => length (buf c0)) _ _ _ (set_buf c b) Hf) as S. simpl in S. rewrite Hb in S. simpl in S.
      match goal with |- context [hand_or_loop ?s1 k v 0] => destruct (hol_rank s1 k v 0 ltac:(lia)) as [A B] end.
      simpl in A, B. rewrite B. simpl in *. nia.
    + (* closed *)
      assert (Hu : SMP.count negb (upd (seen_closed s) k true) + 1 = SMP.count negb (seen_closed s)).
      { assert (Hn : nth_error (seen_closed s) k = Some false).
        { rewrite <- Hun. apply nth_error_of_nth. rewrite (i_seen _ HI). exact Hk. }
        pose proof (SMP.count_upd negb _ _ _ true Hn) as C. simpl in C. unfold SMP.b2n in C. simpl in C. lia. }
      unfold on_closed. unfold measure, hrank, items, unseen.
      destruct (knd s); simpl; rewrite ?Epc; simpl;
        try (match goal with |- context [if ?b then LRetp else LLoop] => destruct b end); simpl; lia.
    + (* rendezvous with the producer *)
      unfold measure, hrank, items, unseen, take_value. simpl. rewrite Epc. simpl.
      pose proof (SMP.sum_upd (fun p0 => nsends (p_q p0)) _ _ _ (mkP q (PSent v)) Hp) as S. simpl in S.
      unfold nsends in S at 2. simpl in S. fold (nsends q) in S.
      match goal with |- context [hand_or_loop ?s1 k v 0] => destruct (hol_rank s1 k v 0 ltac:(lia)) as [A B] end.
      simpl in A, B. rewrite B. simpl in *. nia.
Qed.

Theorem chans_variant incaps outcap s l s' :
  reachable qstep (init_merge incaps outcap) s -> lib_label l -> step s l = Some s' -> measure s' < measure s.
Proof.
  intros Hr. destruct (reachable_inv _ _ (inv_init_merge incaps outcap) Hr) as [HI _]. apply lib_steps_decrease. exact HI.
Qed.

Theorem replicate_variant srccap dstcaps s l s' :
  reachable qstep (init_replicate srccap dstcaps) s -> lib_label l -> step s l = Some s' -> measure s' < measure s.
Proof.
  intros Hr. destruct (reachable_inv _ _ (inv_init_replicate srccap dstcaps) Hr) as [HI _]. apply lib_steps_decrease. exact HI.
Qed.
End CMV.
