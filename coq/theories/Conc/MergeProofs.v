(* C12 — proofs about the LTS models of Conc/Merge.v.  Statements are collected in Properties/C12.v. *)
From Coq Require Import Permutation.
From Juniper Require Import Common.Base Conc.GoLTS Conc.Merge.
Local Open Scope nat_scope.

(* ------------------------------------------------------------------ list helpers *)
Lemma nth_error_nth_len {A} (l : list A) k x d : nth_error l k = Some x -> nth k l d = x /\ k < length l.
Proof.
  intros H. split; [apply nth_error_nth; exact H|]. apply nth_error_Some. congruence.
Qed.

Lemma nth_error_of_nth {A} (l : list A) k d : k < length l -> nth_error l k = Some (nth k l d).
Proof. intros H. apply nth_error_nth'. exact H. Qed.

Lemma nth_upd_same {A} (l : list A) k x d : k < length l -> nth k (upd l k x) d = x.
Proof.
  intros H. apply nth_error_nth. apply nth_error_upd_same. exact H.
Qed.

Lemma nth_upd_other {A} (l : list A) k k' x d : k <> k' -> nth k' (upd l k x) d = nth k' l d.
Proof.
  intros H. destruct (Nat.lt_ge_cases k' (length l)) as [Hl|Hl].
  - apply nth_error_nth. rewrite nth_error_upd_other by exact H. apply nth_error_nth'. exact Hl.
  - rewrite !nth_overflow; [reflexivity| exact Hl | rewrite upd_length; exact Hl].
Qed.

Lemma snoc_at_length {A} (ll : list (list A)) k x : length (snoc_at ll k x) = length ll.
Proof. unfold snoc_at. destruct (nth_error ll k); [apply upd_length | reflexivity]. Qed.

Lemma nth_snoc_at_same {A} (ll : list (list A)) k x :
  k < length ll -> nth k (snoc_at ll k x) [] = nth k ll [] ++ [x].
Proof.
  intros H. unfold snoc_at. rewrite (nth_error_of_nth ll k [] H). apply nth_upd_same. exact H.
Qed.

Lemma nth_snoc_at_other {A} (ll : list (list A)) k k' x :
  k <> k' -> nth k' (snoc_at ll k x) [] = nth k' ll [].
Proof.
  intros H. unfold snoc_at. destruct (nth_error ll k); [apply nth_upd_other; exact H | reflexivity].
Qed.

Lemma nth_map_d {A B} (f : A -> B) l k d d' : k < length l -> nth k (map f l) d' = f (nth k l d).
Proof. intros H. rewrite (nth_indep _ d' (f d)) by (rewrite map_length; exact H). apply map_nth. Qed.

Lemma nth_repeat_d {A} (x : A) n k d : k < n -> nth k (repeat x n) d = x.
Proof. intros H. apply nth_error_nth. apply nth_error_repeat. exact H. Qed.

(* ------------------------------------------------------------------ xslices.RemoveUnordered(s, idx, 1) *)
Lemma remove_unordered_1 {A} (l : list A) pos k :
  nth_error l pos = Some k ->
  (exists a, l = a ++ [k] /\ length a = pos /\ remove_unordered l pos 1 = a)
  \/ (exists a b z, l = a ++ [k] ++ b ++ [z] /\ length a = pos /\ remove_unordered l pos 1 = a ++ [z] ++ b).
Proof.
  intros H. destruct (nth_error_split l pos H) as (a & r & Hl & Ha).
  destruct r as [|r0 r1].
  - left. exists a. subst l. split; [reflexivity|]. split; [exact Ha|].
    unfold remove_unordered, copy_at. rewrite app_length. simpl length.
    replace (length a + 1 - 1) with (length a) by lia.
    rewrite Ha. replace (Nat.max pos (pos + 1)) with (pos + 1) by lia.
    rewrite skipn_all2 by (rewrite app_length; simpl; lia).
    simpl. rewrite Nat.min_0_r. simpl. rewrite Nat.add_0_r.
    rewrite firstn_skipn. subst pos. rewrite firstn_app, firstn_all, Nat.sub_diag. simpl. apply app_nil_r.
  - destruct (exists_last (l := r0 :: r1)) as (b & z & Hbz); [discriminate|].
    right. exists a, b, z. rewrite Hbz in Hl. subst l. split; [reflexivity|]. split; [exact Ha|].
    unfold remove_unordered, copy_at.
    assert (Hlen : length (a ++ k :: b ++ [z]) = pos + 2 + length b).
    { rewrite app_length. simpl. rewrite app_length. simpl. lia. }
    rewrite Hlen.
    replace (Nat.max (pos + 2 + length b - 1) (pos + 1)) with (pos + 1 + length b) by lia.
    replace (a ++ k :: b ++ [z]) with ((a ++ k :: b) ++ [z]) by (rewrite <- app_assoc; reflexivity).
    assert (Hlen2 : length (a ++ k :: b) = pos + 1 + length b) by (rewrite app_length; simpl; lia).
    rewrite skipn_app. rewrite skipn_all2 by lia. rewrite Hlen2, Nat.sub_diag. simpl skipn. simpl app at 1.
    simpl length. replace (Nat.min (pos + 2 + length b - pos) 1) with 1 by lia.
    simpl firstn at 2.
    rewrite <- app_assoc. simpl app.
    assert (E1 : firstn pos (a ++ k :: b ++ [z]) = a).
    { rewrite <- Ha. rewrite firstn_app, firstn_all, Nat.sub_diag. simpl. apply app_nil_r. }
    assert (E2 : skipn (pos + 1) (a ++ k :: b ++ [z]) = b ++ [z]).
    { replace (a ++ k :: b ++ [z]) with ((a ++ [k]) ++ b ++ [z]) by (rewrite <- app_assoc; reflexivity).
      assert (E : length (a ++ [k]) = pos + 1) by (rewrite app_length; simpl; lia).
      rewrite skipn_app, E, Nat.sub_diag. rewrite skipn_all2 by lia. reflexivity. }
    rewrite E1, E2.
    replace (a ++ z :: b ++ [z]) with ((a ++ z :: b) ++ [z]) by (rewrite <- app_assoc; reflexivity).
    assert (E3 : length (a ++ z :: b) = pos + 2 + length b - 1) by (rewrite app_length; simpl; lia).
    rewrite <- E3. rewrite firstn_app, firstn_all, Nat.sub_diag. simpl. apply app_nil_r.
Qed.

Lemma remove_unordered_1_spec (l : list nat) pos k :
  NoDup l -> nth_error l pos = Some k ->
  NoDup (remove_unordered l pos 1) /\
  (forall x, In x (remove_unordered l pos 1) <-> In x l /\ x <> k) /\
  length (remove_unordered l pos 1) = pred (length l).
Proof.
  intros Hnd H. destruct (remove_unordered_1 l pos k H) as [(a & Hl & _ & Hr)|(a & b & z & Hl & _ & Hr)];
    rewrite Hr; subst l.
  - apply NoDup_remove in Hnd. rewrite app_nil_r in Hnd. destruct Hnd as [Hnd Hnin].
    split; [exact Hnd|]. split.
    + intros x. rewrite in_app_iff. simpl. split.
      * intros Hx. split; [left; exact Hx|]. intros ->. contradiction.
      * intros [[Hx|[Hx|[]]] Hne]; [exact Hx | congruence].
    + rewrite app_length. simpl. lia.
  - assert (Hperm : Permutation (a ++ [k] ++ b ++ [z]) (k :: a ++ [z] ++ b)).
    { apply Permutation_sym. apply Permutation_cons_app.
      apply Permutation_app_head. simpl. apply Permutation_cons_append. }
    assert (Hnd2 : NoDup (k :: a ++ [z] ++ b)) by (eapply Permutation_NoDup; eauto).
    inversion Hnd2 as [|? ? Hnin Hnd3]; subst.
    split; [exact Hnd3|]. split.
    + intros x. split.
      * intros Hx. split.
        -- apply (Permutation_in x (Permutation_sym Hperm)). right. exact Hx.
        -- intros ->. contradiction.
      * intros [Hx Hne]. apply (Permutation_in x Hperm) in Hx. destruct Hx as [Hx|Hx]; [congruence|exact Hx].
    + repeat (rewrite app_length; simpl). lia.
Qed.

(* ================================================================================================ *)
(* chans.Merge / chans.Replicate *)
Module CMP.
Import CM.

Definition dch : chan := mkCh 0 [] false.
Definition chn (s : st) (k : nat) : chan := nth k (chs s) dch.
Definition ret_pc (p : lpc) : bool := match p with LRetp | LDone => true | _ => false end.
(* the value the call holds between receiving and sending it *)
Definition hand (s : st) : list (nat * Z) := match pc s with LHand k v _ => [(k, v)] | _ => [] end.
(* the sub-sequence of a tagged sequence that came from input k *)
Definition from (k : nat) (l : list (nat * Z)) : list Z := map snd (filter (fun p => Nat.eqb (fst p) k) l).
Definition out_seq (s : st) (j : nat) : list (nat * Z) := nth j (outs s) [].

Ltac inv_step Hs :=
  unfold step in Hs;
  repeat match type of Hs with
         | context [match ?x with _ => _ end] => destruct x eqn:?
         end;
  try discriminate Hs; inversion Hs; subst; clear Hs.

Definition frame (s s' : st) : Prop :=
  knd s' = knd s /\ nin s' = nin s /\ nout s' = nout s
  /\ length (prods s') = length (prods s) /\ length (conss s') = length (conss s)
  /\ length (chs s') = length (chs s) /\ length (produced s') = length (produced s)
  /\ length (gots s') = length (gots s) /\ length (seen_closed s') = length (seen_closed s)
  /\ length (outs s') = length (outs s) /\ length (taken s') = length (taken s)
  /\ length (live s') = length (live s).

Lemma frame_on_closed s pos k : frame s (on_closed s pos k).
Proof.
  unfold frame, on_closed. destruct (knd s) eqn:Ek; simpl; rewrite ?upd_length; repeat split; auto.
Qed.

Lemma frame_take_value s k v : frame s (take_value s k v).
Proof. unfold frame, take_value. simpl. rewrite ?snoc_at_length. repeat split; auto. Qed.

Lemma frame_trans s1 s2 s3 : frame s1 s2 -> frame s2 s3 -> frame s1 s3.
Proof. unfold frame. intuition congruence. Qed.

Lemma step_frame s l s' : step s l = Some s' -> frame s s'.
Proof.
  intros Hs. inv_step Hs;
    try (eapply frame_trans; [|apply frame_take_value]);
    try apply frame_on_closed;
    unfold frame; simpl; rewrite ?upd_length, ?snoc_at_length; repeat split; reflexivity.
Qed.

(* ---- what each label does (inversion lemmas) ---- *)
Lemma step_LCmd s k c s' : step s (LCmd k c) = Some s' ->
  exists p, nth_error (prods s) k = Some p /\ s' = with_prods s (upd (prods s) k (mkP (p_q p ++ [c]) (p_log p))).
Proof. intros Hs. inv_step Hs. eauto. Qed.

Lemma step_LPermit s j n s' : step s (LPermit j n) = Some s' ->
  exists c, nth_error (conss s) j = Some c /\ s' = with_conss s (upd (conss s) j (mkC (c_permits c + n) (c_hand c))).
Proof. intros Hs. inv_step Hs. eauto. Qed.

Lemma step_TProdBuf s k s' : step s (TProdBuf k) = Some s' ->
  exists v q c, nth_error (prods s) k = Some (mkP (CSend v :: q) PNone) /\ nth_error (chs s) k = Some c
    /\ closed c = false /\ length (buf c) < cap c
    /\ s' = with_produced (with_prods (with_chs s (upd (chs s) k (set_buf c (buf c ++ [v]))))
                                      (upd (prods s) k (mkP q (PSent v))))
                          (snoc_at (produced s) k v).
Proof.
  intros Hs. inv_step Hs.
  match goal with H : negb _ && _ = true |- _ => apply andb_prop in H; destruct H as [Hc Hl] end.
  apply negb_true_iff in Hc. apply Nat.ltb_lt in Hl. repeat eexists; eauto.
Qed.

Lemma step_TProdClose s k s' : step s (TProdClose k) = Some s' ->
  exists q c, nth_error (prods s) k = Some (mkP (CClose :: q) PNone) /\ nth_error (chs s) k = Some c
    /\ closed c = false
    /\ s' = with_prods (with_chs s (upd (chs s) k (mkCh (cap c) (buf c) true))) (upd (prods s) k (mkP q PClosed)).
Proof. intros Hs. inv_step Hs. repeat eexists; eauto. Qed.

Lemma step_LSent s k v s' : step s (LSent k v) = Some s' ->
  exists q, nth_error (prods s) k = Some (mkP q (PSent v)) /\ s' = with_prods s (upd (prods s) k (mkP q PNone)).
Proof.
  intros Hs. inv_step Hs. match goal with H : Z.eqb _ _ = true |- _ => apply Z.eqb_eq in H; subst end. eauto.
Qed.

Lemma step_LClosed s k s' : step s (LClosed k) = Some s' ->
  exists q, nth_error (prods s) k = Some (mkP q PClosed) /\ s' = with_prods s (upd (prods s) k (mkP q PNone)).
Proof. intros Hs. inv_step Hs. eauto. Qed.

Inductive recv_case (s : st) (pos : nat) (s' : st) : Prop :=
| RcValue k c v b :
    sel s pos = Some k -> nth_error (chs s) k = Some c -> buf c = v :: b ->
    s' = take_value (with_chs s (upd (chs s) k (set_buf c b))) k v -> recv_case s pos s'
| RcClosed k c :
    sel s pos = Some k -> nth_error (chs s) k = Some c -> buf c = [] -> closed c = true ->
    s' = on_closed s pos k -> recv_case s pos s'
| RcRendezvous k c v q :
    sel s pos = Some k -> nth_error (chs s) k = Some c -> buf c = [] -> closed c = false -> cap c = 0 ->
    nth_error (prods s) k = Some (mkP (CSend v :: q) PNone) ->
    s' = take_value (with_produced (with_prods s (upd (prods s) k (mkP q (PSent v)))) (snoc_at (produced s) k v)) k v ->
    recv_case s pos s'.

Lemma step_TLibRecv s pos s' : step s (TLibRecv pos) = Some s' -> pc s = LLoop /\ recv_case s pos s'.
Proof.
  intros Hs. unfold step in Hs.
  destruct (pc s) eqn:Epc; try discriminate Hs.
  destruct (sel s pos) as [k|] eqn:Esel; try discriminate Hs.
  destruct (nth_error (chs s) k) as [c|] eqn:Ec; try discriminate Hs.
  split; [reflexivity|].
  destruct (buf c) as [|v b] eqn:Eb.
  - destruct (closed c) eqn:Ecl.
    + inversion Hs; subst. eapply RcClosed; eauto.
    + destruct (cap c) eqn:Ecap; try discriminate Hs.
      destruct (nth_error (prods s) k) as [[q lg]|] eqn:Ep; try discriminate Hs.
      destruct q as [|[v|] q]; try discriminate Hs.
      destruct lg; try discriminate Hs.
      inversion Hs; subst. eapply RcRendezvous; eauto.
  - inversion Hs; subst. eapply RcValue; eauto.
Qed.

Inductive send_case (s : st) (s' : st) : Prop :=
| ScBuffer k v j c cn :
    pc s = LHand k v j -> nth_error (chs s) (nin s + j) = Some c -> nth_error (conss s) j = Some cn ->
    length (buf c) < cap c ->
    s' = with_pc (with_outs (with_chs s (upd (chs s) (nin s + j) (set_buf c (buf c ++ [v])))) (snoc_at (outs s) j (k, v)))
                 (hand_or_loop s k v (S j)) -> send_case s s'
| ScRendezvous k v j c p :
    pc s = LHand k v j -> nth_error (chs s) (nin s + j) = Some c -> nth_error (conss s) j = Some (mkC (S p) None) ->
    cap c = 0 ->
    s' = with_pc (with_taken (with_outs (with_conss s (upd (conss s) j (mkC p (Some v)))) (snoc_at (outs s) j (k, v)))
                             (snoc_at (taken s) j v))
                 (hand_or_loop s k v (S j)) -> send_case s s'.

Lemma step_TLibSend s s' : step s TLibSend = Some s' -> send_case s s'.
Proof.
  intros Hs. unfold step in Hs.
  destruct (pc s) as [| |k v j| |] eqn:Epc; try discriminate Hs.
  destruct (nth_error (chs s) (nin s + j)) as [c|] eqn:Ec; try discriminate Hs.
  destruct (nth_error (conss s) j) as [cn|] eqn:Ecn; try discriminate Hs.
  destruct (Nat.ltb (length (buf c)) (cap c)) eqn:El.
  - inversion Hs; subst. apply Nat.ltb_lt in El. eapply ScBuffer; eauto.
  - destruct (cap c) eqn:Ecap; try discriminate Hs.
    destruct cn as [pm hd]. simpl in Hs. destruct pm as [|pm]; try discriminate Hs.
    destruct hd; try discriminate Hs. inversion Hs; subst.
    exact (ScRendezvous s _ k v j c pm Epc Ec Ecn Ecap eq_refl).
Qed.

Lemma step_TConsTake s j s' : step s (TConsTake j) = Some s' ->
  exists p c v b, nth_error (conss s) j = Some (mkC (S p) None) /\ nth_error (chs s) (nin s + j) = Some c
    /\ buf c = v :: b
    /\ s' = with_taken (with_conss (with_chs s (upd (chs s) (nin s + j) (set_buf c b))) (upd (conss s) j (mkC p (Some v))))
                       (snoc_at (taken s) j v).
Proof. intros Hs. inv_step Hs. repeat eexists; eauto. Qed.

Lemma step_LRecvd s j v s' : step s (LRecvd j v) = Some s' ->
  exists p, nth_error (conss s) j = Some (mkC p (Some v)) /\ s' = with_conss s (upd (conss s) j (mkC p None)).
Proof.
  intros Hs. inv_step Hs. match goal with H : Z.eqb _ _ = true |- _ => apply Z.eqb_eq in H; subst end. eauto.
Qed.

Lemma step_LStart s s' : step s LStart = Some s' -> pc s = LInit /\ s' = with_pc s LLoop.
Proof. intros Hs. inv_step Hs. auto. Qed.
Lemma step_LRet s s' : step s LRet = Some s' -> pc s = LRetp /\ s' = with_pc s LDone.
Proof. intros Hs. inv_step Hs. auto. Qed.
Lemma step_TLibExit s s' : step s TLibExit = Some s' -> knd s = KMR /\ pc s = LLoop /\ cases s = [] /\ s' = with_pc s LRetp.
Proof. intros Hs. inv_step Hs. auto. Qed.
Lemma step_LQuiesce s s' : step s LQuiesce = Some s' -> False.
Proof. discriminate. Qed.

(* ---- the invariant ---- *)
Definition count_true (l : list bool) : nat := length (filter (fun b => b) l).
Definition vals (s : st) (j : nat) : list Z := map snd (out_seq s j).

Definition sel_ok (s : st) : Prop :=
  match knd s with
  | KM1 | KRep => ret_pc (pc s) = true <-> nth 0 (seen_closed s) false = true
  | KM2 | KM3 =>
      (forall k, k < nin s -> nth k (live s) false = negb (nth k (seen_closed s) false))
      /\ ndone s = count_true (seen_closed s)
      /\ (if ret_pc (pc s) then ndone s = nin s else ndone s < nin s)
  | KMR =>
      NoDup (cases s)
      /\ (forall k, In k (cases s) <-> k < nin s /\ nth k (seen_closed s) false = false)
      /\ (ret_pc (pc s) = true -> cases s = [])
  end.

Definition rep_ok (s : st) : Prop :=
  match pc s with
  | LHand k v j =>
      exists g0, nth 0 (gots s) [] = g0 ++ [v]
                 /\ forall j', j' < nout s -> vals s j' = if Nat.ltb j' j then g0 ++ [v] else g0
  | _ => forall j', j' < nout s -> vals s j' = nth 0 (gots s) []
  end.

Record Inv (s : st) : Prop := {
  i_prods : length (prods s) = nin s;
  i_conss : length (conss s) = nout s;
  i_chs : length (chs s) = nin s + nout s;
  i_produced : length (produced s) = nin s;
  i_gots : length (gots s) = nin s;
  i_seen : length (seen_closed s) = nin s;
  i_outs : length (outs s) = nout s;
  i_taken : length (taken s) = nout s;
  i_live : length (live s) = nin s;
  i_kind : match knd s with KM1 | KRep => nin s = 1 | KM2 => nin s = 2 | KM3 => nin s = 3 | KMR => True end;
  i_out1 : knd s <> KRep -> nout s = 1;
  i_hand : forall k v j, pc s = LHand k v j -> k < nin s /\ j < nout s /\ (knd s <> KRep -> j = 0);
  i_cap : forall i, i < nin s + nout s -> length (buf (chn s i)) <= cap (chn s i);
  i_in : forall k, k < nin s -> nth k (produced s) [] = nth k (gots s) [] ++ buf (chn s k);
  i_out : forall j, j < nout s -> vals s j = nth j (taken s) [] ++ buf (chn s (nin s + j));
  i_seen_closed : forall k, k < nin s -> nth k (seen_closed s) false = true ->
                            closed (chn s k) = true /\ buf (chn s k) = [];
  i_sel : sel_ok s;
  i_tags : forall j, j < nout s -> Forall (fun p => fst p < nin s) (out_seq s j);
  i_merge : knd s <> KRep -> forall k, k < nin s -> from k (out_seq s 0 ++ hand s) = nth k (gots s) [];
  i_rep : knd s = KRep -> rep_ok s
}.

Lemma chn_some s i c : nth_error (chs s) i = Some c -> chn s i = c /\ i < length (chs s).
Proof. intros H. unfold chn. apply nth_error_nth_len. exact H. Qed.

Lemma from_app k l1 l2 : from k (l1 ++ l2) = from k l1 ++ from k l2.
Proof. unfold from. rewrite filter_app, map_app. reflexivity. Qed.

Lemma from_single k k' v : from k [(k', v)] = if Nat.eqb k' k then [v] else [].
Proof. unfold from. simpl. destruct (Nat.eqb k' k); reflexivity. Qed.

Lemma count_true_upd l k :
  k < length l -> nth k l false = false -> count_true (upd l k true) = S (count_true l).
Proof.
  unfold count_true. revert k. induction l as [|b l IH]; intros k Hk Hn; simpl in *; [lia|].
  destruct k as [|k]; simpl.
  - subst b. reflexivity.
  - destruct b; simpl; rewrite IH by (auto; lia); reflexivity.
Qed.


(* ---- preservation, label by label ---- *)
Ltac same HI :=
  first [ exact (i_prods _ HI) | exact (i_conss _ HI) | exact (i_chs _ HI) | exact (i_produced _ HI)
        | exact (i_gots _ HI) | exact (i_seen _ HI) | exact (i_outs _ HI) | exact (i_taken _ HI)
        | exact (i_live _ HI) | exact (i_kind _ HI) | exact (i_out1 _ HI) | exact (i_hand _ HI)
        | exact (i_cap _ HI) | exact (i_in _ HI) | exact (i_out _ HI) | exact (i_seen_closed _ HI)
        | exact (i_sel _ HI) | exact (i_tags _ HI) | exact (i_merge _ HI) | exact (i_rep _ HI) ].
Ltac fin HI := simpl; rewrite ?upd_length, ?snoc_at_length; same HI.

Lemma inv_LCmd s k c s' : Inv s -> step s (LCmd k c) = Some s' -> Inv s'.
Proof.
  intros HI Hs. destruct (step_LCmd _ _ _ _ Hs) as (p & Hp & ->).
  constructor; try same HI; fin HI.
Qed.

Lemma inv_LPermit s j n s' : Inv s -> step s (LPermit j n) = Some s' -> Inv s'.
Proof.
  intros HI Hs. destruct (step_LPermit _ _ _ _ Hs) as (p & Hp & ->).
  constructor; try same HI; fin HI.
Qed.

Lemma inv_LSent s k v s' : Inv s -> step s (LSent k v) = Some s' -> Inv s'.
Proof.
  intros HI Hs. destruct (step_LSent _ _ _ _ Hs) as (p & Hp & ->).
  constructor; try same HI; fin HI.
Qed.

Lemma inv_LClosed s k s' : Inv s -> step s (LClosed k) = Some s' -> Inv s'.
Proof.
  intros HI Hs. destruct (step_LClosed _ _ _ Hs) as (p & Hp & ->).
  constructor; try same HI; fin HI.
Qed.

Lemma inv_LRecvd s j v s' : Inv s -> step s (LRecvd j v) = Some s' -> Inv s'.
Proof.
  intros HI Hs. destruct (step_LRecvd _ _ _ _ Hs) as (p & Hp & ->).
  constructor; try same HI; fin HI.
Qed.

(* a change of the program counter between two values that hold nothing *)
Lemma inv_pc_move s p' :
  Inv s -> (forall k v j, pc s <> LHand k v j) -> (forall k v j, p' <> LHand k v j) ->
  (ret_pc (pc s) = true -> ret_pc p' = true) ->
  (ret_pc p' = true -> ret_pc (pc s) = true \/ (knd s = KMR /\ cases s = [])) ->
  Inv (with_pc s p').
Proof.
  intros HI Hold Hnew Hr1 Hr2.
  assert (Hh : hand s = []) by (unfold hand; destruct (pc s); try reflexivity; exfalso; eapply Hold; eauto).
  constructor; try same HI.
  - intros k v j E. simpl in E. exfalso. eapply Hnew; eauto.
  - generalize (i_sel _ HI). unfold sel_ok. simpl.
    destruct (knd s) eqn:Ek.
    + intros [A B]. split; intros X; [|auto].
      destruct (ret_pc (pc s)) eqn:E2; [auto|]. exfalso. clear - Hr2 X Ek E2. intuition congruence.
    + intros (A & B & C). split; [exact A|]. split; [exact B|].
      destruct (ret_pc p') eqn:E1; destruct (ret_pc (pc s)) eqn:E2; try exact C;
        exfalso; clear - Hr1 Hr2 Ek E1 E2; intuition congruence.
    + intros (A & B & C). split; [exact A|]. split; [exact B|].
      destruct (ret_pc p') eqn:E1; destruct (ret_pc (pc s)) eqn:E2; try exact C;
        exfalso; clear - Hr1 Hr2 Ek E1 E2; intuition congruence.
    + intros (A & B & C). split; [exact A|]. split; [exact B|].
      intros X. destruct (ret_pc (pc s)) eqn:E2; [auto|]. clear - Hr2 X Ek E2. intuition congruence.
    + intros [A B]. split; intros X; [|auto].
      destruct (ret_pc (pc s)) eqn:E2; [auto|]. exfalso. clear - Hr2 X Ek E2. intuition congruence.
  - intros Hk k Hlt. generalize (i_merge _ HI Hk k Hlt). rewrite Hh. unfold hand. simpl.
    destruct p'; try (intros E; exact E). exfalso. eapply Hnew; eauto.
  - intros Hk. generalize (i_rep _ HI Hk). unfold rep_ok. simpl.
    destruct (pc s) eqn:E1; try (exfalso; eapply Hold; eauto; fail);
      destruct p'; try (exfalso; eapply Hnew; eauto; fail); auto.
Qed.

Lemma inv_LStart s s' : Inv s -> step s LStart = Some s' -> Inv s'.
Proof.
  intros HI Hs. destruct (step_LStart _ _ Hs) as (Epc & ->).
  apply inv_pc_move; auto; rewrite ?Epc; simpl; try discriminate; auto.
Qed.

Lemma inv_LRet s s' : Inv s -> step s LRet = Some s' -> Inv s'.
Proof.
  intros HI Hs. destruct (step_LRet _ _ Hs) as (Epc & ->).
  apply inv_pc_move; auto; rewrite ?Epc; simpl; try discriminate; auto.
Qed.

Lemma inv_TLibExit s s' : Inv s -> step s TLibExit = Some s' -> Inv s'.
Proof.
  intros HI Hs. destruct (step_TLibExit _ _ Hs) as (Ek & Epc & Ec & ->).
  apply inv_pc_move; auto; rewrite ?Epc; simpl; try discriminate; auto.
Qed.

Lemma prods_lt s k p : Inv s -> nth_error (prods s) k = Some p -> k < nin s.
Proof. intros HI H. rewrite <- (i_prods _ HI). apply nth_error_Some. congruence. Qed.

Lemma conss_lt s j c : Inv s -> nth_error (conss s) j = Some c -> j < nout s.
Proof. intros HI H. rewrite <- (i_conss _ HI). apply nth_error_Some. congruence. Qed.

Lemma inv_TProdBuf s k s' : Inv s -> step s (TProdBuf k) = Some s' -> Inv s'.
Proof.
  intros HI Hs. destruct (step_TProdBuf _ _ _ Hs) as (v & q & c & Hp & Hc & Hcl & Hlen & ->).
  pose proof (prods_lt _ _ _ HI Hp) as Hk.
  destruct (chn_some _ _ _ Hc) as [Ec Hkl].
  constructor; try same HI; try (fin HI; fail).
  - (* cap *) intros i Hi. unfold chn. simpl in *.
    destruct (Nat.eq_dec k i) as [->|Hne].
    + rewrite nth_upd_same by exact Hkl. simpl. rewrite app_length. simpl. lia.
    + rewrite nth_upd_other by exact Hne. exact (i_cap _ HI i Hi).
  - (* in *) intros k0 Hk0. unfold chn. simpl in *.
    destruct (Nat.eq_dec k k0) as [->|Hne].
    + rewrite nth_upd_same by exact Hkl. rewrite nth_snoc_at_same by (rewrite (i_produced _ HI); exact Hk0).
      simpl. rewrite (i_in _ HI k0 Hk0), Ec. rewrite app_assoc. reflexivity.
    + rewrite nth_upd_other by exact Hne. rewrite nth_snoc_at_other by exact Hne. exact (i_in _ HI k0 Hk0).
  - (* out *) intros j Hj. unfold vals, out_seq, chn. simpl in *.
    rewrite nth_upd_other by (simpl in Hk; lia). exact (i_out _ HI j Hj).
  - (* seen_closed *) intros k0 Hk0 Hseen. unfold chn. simpl in *.
    destruct (Nat.eq_dec k k0) as [->|Hne].
    + destruct (i_seen_closed _ HI k0 Hk0 Hseen) as [A _]. rewrite Ec in A. congruence.
    + rewrite nth_upd_other by exact Hne. exact (i_seen_closed _ HI k0 Hk0 Hseen).
Qed.

Lemma inv_TProdClose s k s' : Inv s -> step s (TProdClose k) = Some s' -> Inv s'.
Proof.
  intros HI Hs. destruct (step_TProdClose _ _ _ Hs) as (q & c & Hp & Hc & Hcl & ->).
  pose proof (prods_lt _ _ _ HI Hp) as Hk.
  destruct (chn_some _ _ _ Hc) as [Ec Hkl].
  constructor; try same HI; try (fin HI; fail).
  - intros i Hi. unfold chn. simpl in *.
    destruct (Nat.eq_dec k i) as [->|Hne].
    + rewrite nth_upd_same by exact Hkl. simpl. rewrite <- Ec. exact (i_cap _ HI i Hi).
    + rewrite nth_upd_other by exact Hne. exact (i_cap _ HI i Hi).
  - intros k0 Hk0. unfold chn. simpl in *.
    destruct (Nat.eq_dec k k0) as [->|Hne].
    + rewrite nth_upd_same by exact Hkl. simpl. rewrite (i_in _ HI k0 Hk0), Ec. reflexivity.
    + rewrite nth_upd_other by exact Hne. exact (i_in _ HI k0 Hk0).
  - intros j Hj. unfold vals, out_seq, chn. simpl in *.
    rewrite nth_upd_other by (simpl in Hk; lia). exact (i_out _ HI j Hj).
  - intros k0 Hk0 Hseen. unfold chn. simpl in *.
    destruct (Nat.eq_dec k k0) as [->|Hne].
    + destruct (i_seen_closed _ HI k0 Hk0 Hseen) as [A _]. rewrite Ec in A. congruence.
    + rewrite nth_upd_other by exact Hne. exact (i_seen_closed _ HI k0 Hk0 Hseen).
Qed.

Lemma inv_TConsTake s j s' : Inv s -> step s (TConsTake j) = Some s' -> Inv s'.
Proof.
  intros HI Hs. destruct (step_TConsTake _ _ _ Hs) as (p & c & v & b & Hcn & Hc & Hb & ->).
  pose proof (conss_lt _ _ _ HI Hcn) as Hj.
  destruct (chn_some _ _ _ Hc) as [Ec Hkl].
  constructor; try same HI; try (fin HI; fail).
  - intros i Hi. unfold chn. simpl in *.
    destruct (Nat.eq_dec (nin s + j) i) as [<-|Hne].
    + rewrite nth_upd_same by exact Hkl. simpl.
      pose proof (i_cap _ HI (nin s + j) Hi) as A. rewrite Ec, Hb in A. simpl in A. lia.
    + rewrite nth_upd_other by exact Hne. exact (i_cap _ HI i Hi).
  - intros k0 Hk0. unfold chn. simpl in *.
    rewrite nth_upd_other by lia. exact (i_in _ HI k0 Hk0).
  - intros j0 Hj0. unfold vals, out_seq, chn. simpl in *.
    destruct (Nat.eq_dec j j0) as [->|Hne].
    + rewrite nth_upd_same by exact Hkl. rewrite nth_snoc_at_same by (rewrite (i_taken _ HI); exact Hj0).
      simpl. pose proof (i_out _ HI j0 Hj0) as A. unfold vals, out_seq in A. rewrite A, Ec, Hb.
      rewrite <- app_assoc. reflexivity.
    + rewrite nth_upd_other by lia. rewrite nth_snoc_at_other by exact Hne. exact (i_out _ HI j0 Hj0).
  - intros k0 Hk0 Hseen. unfold chn. simpl in *.
    rewrite nth_upd_other by lia. exact (i_seen_closed _ HI k0 Hk0 Hseen).
Qed.

Lemma sel_unseen s pos k :
  Inv s -> pc s = LLoop -> sel s pos = Some k -> k < nin s /\ nth k (seen_closed s) false = false.
Proof.
  intros HI Epc Hsel. pose proof (i_sel _ HI) as S. pose proof (i_kind _ HI) as K.
  unfold sel_ok, sel in *. rewrite Epc in S. simpl in S.
  destruct (knd s) eqn:Ek.
  - destruct (Nat.eqb pos 0); inversion Hsel; subst. split; [lia|].
    destruct (nth 0 (seen_closed s) false); [|reflexivity]. destruct S as [_ S]. discriminate (S eq_refl).
  - destruct (nth_error (live s) pos) as [[|]|] eqn:El; inversion Hsel; subst.
    destruct (nth_error_nth_len _ _ _ false El) as [E1 E2]. rewrite (i_live _ HI) in E2.
    split; [exact E2|]. destruct S as (A & _). specialize (A k E2). rewrite E1 in A.
    destruct (nth k (seen_closed s) false); [discriminate|reflexivity].
  - destruct (nth_error (live s) pos) as [[|]|] eqn:El; inversion Hsel; subst.
    destruct (nth_error_nth_len _ _ _ false El) as [E1 E2]. rewrite (i_live _ HI) in E2.
    split; [exact E2|]. destruct S as (A & _). specialize (A k E2). rewrite E1 in A.
    destruct (nth k (seen_closed s) false); [discriminate|reflexivity].
  - destruct S as (_ & A & _). apply A. eapply nth_error_In; eauto.
  - destruct (Nat.eqb pos 0); inversion Hsel; subst. split; [lia|].
    destruct (nth 0 (seen_closed s) false); [|reflexivity]. destruct S as [_ S]. discriminate (S eq_refl).
Qed.

Lemma sel_ok_frame s s' :
  knd s' = knd s -> nin s' = nin s -> seen_closed s' = seen_closed s -> live s' = live s ->
  ndone s' = ndone s -> cases s' = cases s -> ret_pc (pc s') = ret_pc (pc s) -> sel_ok s -> sel_ok s'.
Proof. unfold sel_ok. intros -> -> -> -> -> -> ->. auto. Qed.

Lemma hol_cases s k v j :
  (hand_or_loop s k v j = LHand k v j /\ ((knd s = KRep /\ j < nout s) \/ (knd s <> KRep /\ j = 0)))
  \/ (hand_or_loop s k v j = LLoop /\ ((knd s = KRep /\ nout s <= j) \/ (knd s <> KRep /\ j <> 0))).
Proof.
  unfold hand_or_loop. destruct (knd s) eqn:Ek;
    try (destruct j; [left; split; [reflexivity|right; split; [discriminate|reflexivity]]
                     |right; split; [reflexivity|right; split; [discriminate|discriminate]]]).
  destruct (Nat.ltb j (nout s)) eqn:E.
  - apply Nat.ltb_lt in E. left. split; [reflexivity|]. left. auto.
  - apply Nat.ltb_ge in E. right. split; [reflexivity|]. left. auto.
Qed.

(* the call received v from input k (k's channel state and its ghost [produced] already updated in s1) *)
Lemma inv_take_value s s1 k v :
  Inv s -> pc s = LLoop -> k < nin s ->
  knd s1 = knd s -> nin s1 = nin s -> nout s1 = nout s -> pc s1 = pc s ->
  length (prods s1) = nin s -> conss s1 = conss s -> length (chs s1) = length (chs s) ->
  length (produced s1) = nin s -> gots s1 = gots s -> seen_closed s1 = seen_closed s ->
  outs s1 = outs s -> taken s1 = taken s -> live s1 = live s -> ndone s1 = ndone s -> cases s1 = cases s ->
  (forall i, i < nin s + nout s -> length (buf (chn s1 i)) <= cap (chn s1 i)) ->
  (forall k0, k0 < nin s ->
              nth k0 (produced s1) [] = (nth k0 (gots s) [] ++ (if Nat.eq_dec k k0 then [v] else [])) ++ buf (chn s1 k0)) ->
  (forall j, j < nout s -> buf (chn s1 (nin s + j)) = buf (chn s (nin s + j))) ->
  (forall k0, k0 < nin s -> nth k0 (seen_closed s) false = true -> closed (chn s1 k0) = true /\ buf (chn s1 k0) = []) ->
  Inv (take_value s1 k v).
Proof.
  intros HI Epc Hk Eknd En Em Epc1 Hprods Econss Hchs Hproduced Egots Eseen Eouts Etaken Elive Endone Ecases
         Hcap Hin Hout Hsc.
  assert (Hh : hand s = []) by (unfold hand; rewrite Epc; reflexivity).
  unfold take_value.
  constructor; simpl; rewrite ?snoc_at_length, ?Eknd, ?En, ?Em, ?Econss, ?Egots, ?Eseen, ?Eouts, ?Etaken, ?Elive;
    try same HI; try assumption.
  - rewrite Hchs. same HI.
  - (* hand *) intros k1 v1 j1 E. unfold hand_or_loop in E. rewrite Eknd, Em in E.
    pose proof (i_out1 _ HI) as O. pose proof (i_kind _ HI) as K.
    destruct (knd s) eqn:Ek; try (inversion E; subst; rewrite O by discriminate; repeat split; auto; lia).
    destruct (Nat.ltb 0 (nout s)) eqn:E0; inversion E; subst. apply Nat.ltb_lt in E0. repeat split; auto; congruence.
  - (* in *) intros k0 Hk0. rewrite (Hin k0 Hk0).
    destruct (Nat.eq_dec k k0) as [->|Hne].
    + rewrite nth_snoc_at_same by (rewrite (i_gots _ HI); exact Hk0). reflexivity.
    + rewrite nth_snoc_at_other by exact Hne. rewrite app_nil_r. reflexivity.
  - (* out *) intros j Hj. unfold vals, out_seq, chn in *. simpl. rewrite ?Eouts, ?Etaken, ?En.
    rewrite (Hout j Hj). exact (i_out _ HI j Hj).
  - (* sel *) eapply sel_ok_frame; try exact (i_sel _ HI); simpl; auto.
    rewrite Epc. destruct (hol_cases s1 k v 0) as [[-> _]|[-> _]]; reflexivity.
  - (* tags *) intros j Hj. unfold out_seq. simpl. rewrite ?Eouts. exact (i_tags _ HI j Hj).
  - (* merge *) intros Hnk k0 Hk0. unfold out_seq, hand. simpl. rewrite ?Eouts.
    assert (Ep : hand_or_loop s1 k v 0 = LHand k v 0).
    { unfold hand_or_loop. rewrite Eknd. destruct (knd s); try reflexivity. congruence. }
    rewrite Ep. rewrite from_app, from_single.
    pose proof (i_merge _ HI Hnk k0 Hk0) as A. rewrite Hh, app_nil_r in A. unfold out_seq in A. rewrite A.
    destruct (Nat.eq_dec k k0) as [->|Hne].
    + rewrite Nat.eqb_refl. rewrite nth_snoc_at_same by (rewrite (i_gots _ HI); exact Hk0). reflexivity.
    + apply Nat.eqb_neq in Hne as Hne'. rewrite Hne'. rewrite nth_snoc_at_other by exact Hne. apply app_nil_r.
  - (* rep *) intros Hrk. pose proof (i_rep _ HI Hrk) as A. unfold rep_ok in *. rewrite Epc in A. simpl.
    pose proof (i_kind _ HI) as K. rewrite Hrk in K.
    assert (k = 0) by lia. subst k.
    unfold hand_or_loop. rewrite Eknd, Hrk, Em.
    destruct (Nat.ltb 0 (nout s)) eqn:E0.
    + exists (nth 0 (gots s) []). split.
      * rewrite nth_snoc_at_same by (rewrite (i_gots _ HI); lia). reflexivity.
      * intros j' Hj'. unfold vals, out_seq in *. simpl. rewrite ?Eouts. simpl. apply A. exact Hj'.
    + apply Nat.ltb_ge in E0. intros j' Hj'. lia.
Qed.

Lemma inv_on_closed s pos k c :
  Inv s -> pc s = LLoop -> sel s pos = Some k -> nth_error (chs s) k = Some c -> buf c = [] -> closed c = true ->
  Inv (on_closed s pos k).
Proof.
  intros HI Epc Hsel Hc Hb Hcl.
  destruct (sel_unseen _ _ _ HI Epc Hsel) as [Hk Hun].
  destruct (chn_some _ _ _ Hc) as [Ec _].
  assert (Hh : hand s = []) by (unfold hand; rewrite Epc; reflexivity).
  assert (Hsc : forall k0, k0 < nin s -> nth k0 (upd (seen_closed s) k true) false = true ->
                           closed (chn s k0) = true /\ buf (chn s k0) = []).
  { intros k0 Hk0. destruct (Nat.eq_dec k k0) as [->|Hne].
    - intros _. rewrite Ec. auto.
    - rewrite nth_upd_other by exact Hne. apply (i_seen_closed _ HI k0 Hk0). }
  pose proof (i_sel _ HI) as S. pose proof (i_kind _ HI) as K.
  unfold on_closed. unfold sel_ok, sel in S, Hsel. rewrite Epc in S. simpl in S.
  destruct (knd s) eqn:Ek.
  - (* KM1 *)
    constructor; simpl; rewrite ?upd_length; try same HI; try assumption.
    + discriminate.
    + unfold sel_ok. simpl. rewrite Ek. destruct (Nat.eqb pos 0); inversion Hsel; subst.
      rewrite nth_upd_same by (rewrite (i_seen _ HI); lia). split; auto.
    + intros Hnk k0 Hk0. rewrite <- (i_merge _ HI Hnk k0 Hk0). rewrite Hh. reflexivity.
    + congruence.
  - (* KM2 *)
    destruct (nth_error (live s) pos) as [[|]|] eqn:El; inversion Hsel; subst pos.
    destruct S as (A & B & C).
    cbv zeta. remember (Nat.eqb (S (ndone s)) (nin s)) as fin eqn:Efin. symmetry in Efin.
    constructor; simpl; rewrite ?upd_length; try same HI; try assumption.
    + intros k1 v1 j1 E. destruct fin; discriminate.
    + unfold sel_ok. simpl. rewrite Ek. split; [|split].
      * intros k0 Hk0. destruct (Nat.eq_dec k k0) as [->|Hne].
        -- rewrite !nth_upd_same by (rewrite ?(i_live _ HI), ?(i_seen _ HI); exact Hk0). reflexivity.
        -- rewrite !nth_upd_other by exact Hne. apply A. exact Hk0.
      * rewrite count_true_upd by (rewrite ?(i_seen _ HI); assumption). congruence.
      * destruct fin; simpl.
        -- apply Nat.eqb_eq in Efin. exact Efin.
        -- apply Nat.eqb_neq in Efin. lia.
    + intros Hnk k0 Hk0. rewrite <- (i_merge _ HI Hnk k0 Hk0).
      rewrite Hh. unfold hand. simpl. destruct fin; reflexivity.
    + congruence.
  - (* KM3 *)
    destruct (nth_error (live s) pos) as [[|]|] eqn:El; inversion Hsel; subst pos.
    destruct S as (A & B & C).
    cbv zeta. remember (Nat.eqb (S (ndone s)) (nin s)) as fin eqn:Efin. symmetry in Efin.
    constructor; simpl; rewrite ?upd_length; try same HI; try assumption.
    + intros k1 v1 j1 E. destruct fin; discriminate.
    + unfold sel_ok. simpl. rewrite Ek. split; [|split].
      * intros k0 Hk0. destruct (Nat.eq_dec k k0) as [->|Hne].
        -- rewrite !nth_upd_same by (rewrite ?(i_live _ HI), ?(i_seen _ HI); exact Hk0). reflexivity.
        -- rewrite !nth_upd_other by exact Hne. apply A. exact Hk0.
      * rewrite count_true_upd by (rewrite ?(i_seen _ HI); assumption). congruence.
      * destruct fin; simpl.
        -- apply Nat.eqb_eq in Efin. exact Efin.
        -- apply Nat.eqb_neq in Efin. lia.
    + intros Hnk k0 Hk0. rewrite <- (i_merge _ HI Hnk k0 Hk0).
      rewrite Hh. unfold hand. simpl. destruct fin; reflexivity.
    + congruence.
  - (* KMR *)
    destruct S as (A & B & C).
    destruct (remove_unordered_1_spec _ _ _ A Hsel) as (R1 & R2 & _).
    constructor; simpl; rewrite ?upd_length; try same HI; try assumption.
    + discriminate.
    + unfold sel_ok. simpl. rewrite Ek. split; [exact R1|]. split; [|discriminate].
      intros k0. rewrite R2, B. destruct (Nat.eq_dec k k0) as [->|Hne].
      * rewrite nth_upd_same by (rewrite (i_seen _ HI); exact Hk). split; [intros [_ X]; congruence | intros [_ X]; discriminate].
      * rewrite nth_upd_other by exact Hne. split; [intros [X _]; exact X | intros X; split; [exact X | congruence]].
    + intros Hnk k0 Hk0. rewrite <- (i_merge _ HI Hnk k0 Hk0). rewrite Hh. reflexivity.
    + congruence.
  - (* KRep *)
    constructor; simpl; rewrite ?upd_length; try same HI; try assumption.
    + discriminate.
    + unfold sel_ok. simpl. rewrite Ek. destruct (Nat.eqb pos 0); inversion Hsel; subst.
      rewrite nth_upd_same by (rewrite (i_seen _ HI); lia). split; auto.
    + congruence.
    + intros _. pose proof (i_rep _ HI Ek) as A. unfold rep_ok in *. rewrite Epc in A. simpl. exact A.
Qed.

Lemma inv_TLibRecv s pos s' : Inv s -> step s (TLibRecv pos) = Some s' -> Inv s'.
Proof.
  intros HI Hs. destruct (step_TLibRecv _ _ _ Hs) as [Epc Hcase].
  destruct Hcase as [k c v b Hsel Hc Hb ->|k c Hsel Hc Hb Hcl ->|k c v q Hsel Hc Hb Hcl Hcap Hp ->].
  - destruct (sel_unseen _ _ _ HI Epc Hsel) as [Hk Hun].
    destruct (chn_some _ _ _ Hc) as [Ec Hkl].
    apply inv_take_value with (s := s); simpl; rewrite ?upd_length; auto; try same HI.
    + intros i Hi. unfold chn. simpl. destruct (Nat.eq_dec k i) as [->|Hne].
      * rewrite nth_upd_same by exact Hkl. simpl. pose proof (i_cap _ HI i Hi) as A. rewrite Ec, Hb in A. simpl in A. lia.
      * rewrite nth_upd_other by exact Hne. exact (i_cap _ HI i Hi).
    + intros k0 Hk0. unfold chn. simpl. destruct (Nat.eq_dec k k0) as [->|Hne].
      * rewrite nth_upd_same by exact Hkl. simpl. rewrite (i_in _ HI k0 Hk0), Ec, Hb. rewrite <- app_assoc. reflexivity.
      * rewrite nth_upd_other by exact Hne. rewrite app_nil_r. exact (i_in _ HI k0 Hk0).
    + intros j Hj. unfold chn. simpl. rewrite nth_upd_other by lia. reflexivity.
    + intros k0 Hk0 Hs0. unfold chn. simpl. destruct (Nat.eq_dec k k0) as [->|Hne]; [congruence|].
      rewrite nth_upd_other by exact Hne. exact (i_seen_closed _ HI k0 Hk0 Hs0).
  - eapply inv_on_closed; eauto.
  - destruct (sel_unseen _ _ _ HI Epc Hsel) as [Hk Hun].
    destruct (chn_some _ _ _ Hc) as [Ec Hkl].
    apply inv_take_value with (s := s); simpl; rewrite ?upd_length, ?snoc_at_length; auto; try same HI.
    + intros k0 Hk0. destruct (Nat.eq_dec k k0) as [->|Hne].
      * rewrite nth_snoc_at_same by (rewrite (i_produced _ HI); exact Hk0).
        rewrite (i_in _ HI k0 Hk0). unfold chn in *. simpl. rewrite Ec, Hb. rewrite !app_nil_r. reflexivity.
      * rewrite nth_snoc_at_other by exact Hne. rewrite app_nil_r. exact (i_in _ HI k0 Hk0).
Qed.

(* the value in hand was delivered to output j (the output channel / consumer already updated in s1) *)
Lemma inv_sent s s1 k v j :
  Inv s -> pc s = LHand k v j ->
  knd s1 = knd s -> nin s1 = nin s -> nout s1 = nout s ->
  length (prods s1) = nin s -> length (conss s1) = nout s -> length (chs s1) = length (chs s) ->
  produced s1 = produced s -> gots s1 = gots s -> seen_closed s1 = seen_closed s ->
  outs s1 = snoc_at (outs s) j (k, v) -> length (taken s1) = nout s ->
  live s1 = live s -> ndone s1 = ndone s -> cases s1 = cases s ->
  (forall i, i < nin s + nout s -> length (buf (chn s1 i)) <= cap (chn s1 i)) ->
  (forall k0, k0 < nin s -> chn s1 k0 = chn s k0) ->
  (forall j0, j0 < nout s ->
              nth j0 (taken s1) [] ++ buf (chn s1 (nin s + j0))
              = (nth j0 (taken s) [] ++ buf (chn s (nin s + j0))) ++ (if Nat.eq_dec j j0 then [v] else [])) ->
  Inv (with_pc s1 (hand_or_loop s k v (S j))).
Proof.
  intros HI Epc Eknd En Em Hprods Hconss Hchs Eproduced Egots Eseen Eouts Htaken Elive Endone Ecases Hcap Hin Hout.
  destruct (i_hand _ HI _ _ _ Epc) as (Hk & Hj & Hjz).
  assert (Hh : hand s = [(k, v)]) by (unfold hand; rewrite Epc; reflexivity).
  constructor; simpl; rewrite ?Eknd, ?En, ?Em, ?Eproduced, ?Egots, ?Eseen, ?Eouts, ?Elive, ?snoc_at_length;
    try same HI; try assumption.
  - rewrite Hchs. same HI.
  - (* hand *) intros k1 v1 j1 E. destruct (hol_cases s k v (S j)) as [[E' C]|[E' _]]; rewrite E' in E; [|discriminate].
    inversion E; subst. destruct C as [[C1 C2]|[_ C2]]; [|discriminate]. repeat split; auto. congruence.
  - (* in *) intros k0 Hk0. unfold chn in *. simpl. rewrite (Hin k0 Hk0). exact (i_in _ HI k0 Hk0).
  - (* out *) intros j0 Hj0. unfold vals, out_seq, chn in *. simpl. rewrite ?Eouts, ?En. rewrite (Hout j0 Hj0).
    pose proof (i_out _ HI j0 Hj0) as A. unfold vals, out_seq, chn in A.
    destruct (Nat.eq_dec j j0) as [->|Hne].
    + rewrite nth_snoc_at_same by (rewrite (i_outs _ HI); exact Hj0). rewrite map_app, A. reflexivity.
    + rewrite nth_snoc_at_other by exact Hne. rewrite app_nil_r. exact A.
  - (* seen_closed *) intros k0 Hk0 Hs0. unfold chn in *. simpl. rewrite (Hin k0 Hk0). exact (i_seen_closed _ HI k0 Hk0 Hs0).
  - (* sel *) eapply sel_ok_frame; try exact (i_sel _ HI); simpl; auto.
    rewrite Epc. destruct (hol_cases s k v (S j)) as [[-> _]|[-> _]]; reflexivity.
  - (* tags *) intros j0 Hj0. unfold out_seq. simpl. rewrite ?Eouts.
    destruct (Nat.eq_dec j j0) as [->|Hne].
    + rewrite nth_snoc_at_same by (rewrite (i_outs _ HI); exact Hj0).
      apply Forall_app. split; [exact (i_tags _ HI j0 Hj0)|]. constructor; [exact Hk|constructor].
    + rewrite nth_snoc_at_other by exact Hne. exact (i_tags _ HI j0 Hj0).
  - (* merge *) intros Hnk k0 Hk0. specialize (Hjz Hnk). subst j.
    assert (Ep : hand_or_loop s k v 1 = LLoop).
    { unfold hand_or_loop. destruct (knd s); try reflexivity. congruence. }
    unfold out_seq, hand. simpl. rewrite ?Eouts, Ep.
    rewrite nth_snoc_at_same by (rewrite (i_outs _ HI); exact Hj). rewrite app_nil_r.
    pose proof (i_merge _ HI Hnk k0 Hk0) as A. rewrite Hh in A. exact A.
  - (* rep *) intros Hrk. pose proof (i_rep _ HI Hrk) as A. unfold rep_ok in *. rewrite Epc in A.
    destruct A as (g0 & G & V). simpl.
    assert (Vj : forall j', j' < nout s ->
                 map snd (nth j' (snoc_at (outs s) j (k, v)) []) = if Nat.ltb j' (S j) then g0 ++ [v] else g0).
    { intros j' Hj'. specialize (V j' Hj'). unfold vals, out_seq in V.
      destruct (Nat.eq_dec j j') as [->|Hne].
      - rewrite nth_snoc_at_same by (rewrite (i_outs _ HI); exact Hj'). rewrite map_app, V.
        rewrite Nat.ltb_irrefl. replace (Nat.ltb j' (S j')) with true by (symmetry; apply Nat.ltb_lt; lia). reflexivity.
      - rewrite nth_snoc_at_other by exact Hne. rewrite V.
        destruct (Nat.ltb j' j) eqn:E1.
        + apply Nat.ltb_lt in E1. replace (Nat.ltb j' (S j)) with true by (symmetry; apply Nat.ltb_lt; lia). reflexivity.
        + apply Nat.ltb_ge in E1. replace (Nat.ltb j' (S j)) with false by (symmetry; apply Nat.ltb_ge; lia). reflexivity. }
    destruct (hol_cases s k v (S j)) as [[E' _]|[E' C]]; rewrite E'.
    + exists g0. split; [rewrite ?Egots; exact G|]. intros j' Hj'. simpl in Hj'. rewrite ?Em in Hj'. unfold vals, out_seq. simpl. rewrite ?Eouts. apply Vj. exact Hj'.
    + destruct C as [[_ C]|[C _]]; [|congruence].
      intros j' Hj'. simpl in Hj'. rewrite ?Em in Hj'. unfold vals, out_seq. simpl. rewrite ?Eouts, ?Egots. rewrite (Vj j' Hj'), G.
      replace (Nat.ltb j' (S j)) with true by (symmetry; apply Nat.ltb_lt; lia). reflexivity.
Qed.

Lemma inv_TLibSend s s' : Inv s -> step s TLibSend = Some s' -> Inv s'.
Proof.
  intros HI Hs. destruct (step_TLibSend _ _ Hs) as [k v j c cn Epc Hc Hcn Hlen ->|k v j c p Epc Hc Hcn Hcap ->].
  - destruct (i_hand _ HI _ _ _ Epc) as (Hk & Hj & _).
    destruct (chn_some _ _ _ Hc) as [Ec Hkl].
    match goal with |- Inv (with_pc ?s1 _) => apply (inv_sent s s1 k v j HI Epc) end;
      simpl; rewrite ?upd_length; auto; try same HI.
    + intros i Hi. unfold chn. simpl. destruct (Nat.eq_dec (nin s + j) i) as [<-|Hne].
      * rewrite nth_upd_same by exact Hkl. simpl. rewrite app_length. simpl. lia.
      * rewrite nth_upd_other by exact Hne. exact (i_cap _ HI i Hi).
    + intros k0 Hk0. unfold chn. simpl. rewrite nth_upd_other by lia. reflexivity.
    + intros j0 Hj0. unfold chn. simpl. destruct (Nat.eq_dec j j0) as [->|Hne].
      * rewrite nth_upd_same by exact Hkl. simpl. unfold chn in Ec. rewrite Ec. rewrite !app_assoc. reflexivity.
      * rewrite nth_upd_other by lia. rewrite app_nil_r. reflexivity.
  - destruct (i_hand _ HI _ _ _ Epc) as (Hk & Hj & _).
    destruct (chn_some _ _ _ Hc) as [Ec Hkl].
    assert (Hb : buf c = []).
    { pose proof (i_cap _ HI (nin s + j) ltac:(lia)) as A. rewrite Ec, Hcap in A. destruct (buf c); [reflexivity|simpl in A; lia]. }
    match goal with |- Inv (with_pc ?s1 _) => apply (inv_sent s s1 k v j HI Epc) end;
      simpl; rewrite ?upd_length, ?snoc_at_length; auto; try same HI.
    + intros j0 Hj0. unfold chn in *. simpl. destruct (Nat.eq_dec j j0) as [->|Hne].
      * rewrite nth_snoc_at_same by (rewrite (i_taken _ HI); exact Hj0). rewrite Ec, Hb. rewrite !app_nil_r. reflexivity.
      * rewrite nth_snoc_at_other by exact Hne. rewrite app_nil_r. reflexivity.
Qed.

Theorem inv_step s l s' : Inv s -> step s l = Some s' -> Inv s'.
Proof.
  intros HI Hs. destruct l.
  - eapply inv_LStart; eauto.
  - eapply inv_LRet; eauto.
  - eapply inv_LCmd; eauto.
  - eapply inv_LPermit; eauto.
  - eapply inv_LSent; eauto.
  - eapply inv_LClosed; eauto.
  - eapply inv_LRecvd; eauto.
  - discriminate.
  - eapply inv_TProdBuf; eauto.
  - eapply inv_TProdClose; eauto.
  - eapply inv_TLibRecv; eauto.
  - eapply inv_TLibSend; eauto.
  - eapply inv_TLibExit; eauto.
  - eapply inv_TConsTake; eauto.
Qed.

Lemma inv_qstep s l s' : Inv s -> qstep s l = Some s' -> Inv s'.
Proof.
  intros HI Hs. destruct l; try (exact (inv_step _ _ _ HI Hs)).
  simpl in Hs. destruct (quiescent s); inversion Hs; subst; exact HI.
Qed.

(* ---- initial states ---- *)
Lemma nth_repeat_self {A} (x : A) n k : nth k (repeat x n) x = x.
Proof.
  destruct (nth_in_or_default k (repeat x n) x) as [H|H]; [|exact H]. eapply repeat_spec; eauto.
Qed.

Lemma init_chn k incaps outcaps i :
  buf (chn (init_gen k incaps outcaps) i) = [] /\ closed (chn (init_gen k incaps outcaps) i) = false.
Proof.
  unfold chn. simpl.
  destruct (nth_in_or_default i (map (fun c => mkCh c [] false) (incaps ++ outcaps)) dch) as [H|H].
  - apply in_map_iff in H. destruct H as (c & <- & _). auto.
  - rewrite H. auto.
Qed.

Lemma count_true_repeat_false n : count_true (repeat false n) = 0.
Proof. unfold count_true. induction n; simpl; auto. Qed.

Lemma inv_init_gen k incaps outcaps :
  match k with KM1 | KRep => length incaps = 1 | KM2 => length incaps = 2 | KM3 => length incaps = 3 | KMR => True end ->
  (k <> KRep -> length outcaps = 1) ->
  Inv (init_gen k incaps outcaps).
Proof.
  intros Hk Ho.
  constructor; simpl; rewrite ?repeat_length, ?map_length, ?app_length; auto.
  - discriminate.
  - intros i _. destruct (init_chn k incaps outcaps i) as [-> _]. simpl. lia.
  - intros k0 _. destruct (init_chn k incaps outcaps k0) as [-> _]. rewrite !nth_repeat_self. reflexivity.
  - intros j _. unfold vals, out_seq. simpl.
    destruct (init_chn k incaps outcaps (length incaps + j)) as [-> _]. rewrite !nth_repeat_self. reflexivity.
  - intros k0 _. rewrite nth_repeat_self. discriminate.
  - unfold sel_ok. simpl. destruct k; simpl.
    + rewrite nth_repeat_self. split; discriminate.
    + split; [|split].
      * intros k0 Hk0. rewrite (nth_indep _ false true) by (rewrite repeat_length; exact Hk0).
        rewrite !nth_repeat_self. reflexivity.
      * rewrite count_true_repeat_false. reflexivity.
      * lia.
    + split; [|split].
      * intros k0 Hk0. rewrite (nth_indep _ false true) by (rewrite repeat_length; exact Hk0).
        rewrite !nth_repeat_self. reflexivity.
      * rewrite count_true_repeat_false. reflexivity.
      * lia.
    + split; [apply seq_NoDup|]. split; [|discriminate].
      intros k0. rewrite in_seq, nth_repeat_self. split; [intros [_ H]; split; [exact H|reflexivity] | intros [H _]; lia].
    + rewrite nth_repeat_self. split; discriminate.
  - intros j _. unfold out_seq. simpl. rewrite nth_repeat_self. constructor.
  - intros _ k0 _. unfold out_seq, hand. simpl. rewrite !nth_repeat_self. reflexivity.
  - intros _. unfold rep_ok. simpl. intros j' _. unfold vals, out_seq. simpl. rewrite !nth_repeat_self. reflexivity.
Qed.

Lemma inv_init_merge incaps outcap : Inv (init_merge incaps outcap).
Proof.
  unfold init_merge. apply inv_init_gen.
  - destruct incaps as [|a [|b [|c [|d l]]]]; simpl; auto.
  - reflexivity.
Qed.

Lemma inv_init_replicate srccap dstcaps : Inv (init_replicate srccap dstcaps).
Proof. unfold init_replicate. apply inv_init_gen; [reflexivity | congruence]. Qed.

(* the shape of the scenario never changes *)
Definition shape (s0 s : st) : Prop := knd s = knd s0 /\ nin s = nin s0 /\ nout s = nout s0.

Lemma reachable_inv s0 s : Inv s0 -> reachable qstep s0 s -> Inv s /\ shape s0 s.
Proof.
  intros H0 Hr.
  apply (invariant_rule qstep (fun s => Inv s /\ shape s0 s) s0); [split; [exact H0|unfold shape; auto]| |exact Hr].
  intros s1 l s2 [HI (A & B & C)] Hs. split; [eapply inv_qstep; eauto|].
  destruct l; try (destruct (step_frame _ _ _ Hs) as (F1 & F2 & F3 & _); unfold shape; repeat split; congruence).
  simpl in Hs. destruct (quiescent s1); inversion Hs; subst. unfold shape; auto.
Qed.

(* ---- C12_chans_interleaving ---- *)
Theorem chans_interleaving incaps outcap s :
  reachable qstep (init_merge incaps outcap) s ->
  forall k, k < length incaps ->
    (* the values sent on out so far plus the value in hand, restricted to input k, are exactly the values
       received from input k so far, in order *)
    from k (out_seq s 0 ++ hand s) = nth k (gots s) []
    (* everything the producer of input k has sent is received or still in k's buffer, in order *)
    /\ nth k (produced s) [] = nth k (gots s) [] ++ buf (chn s k)
    (* everything sent on out has been taken by the consumer or is in out's buffer, in order *)
    /\ vals s 0 = nth 0 (taken s) [] ++ buf (chn s (length incaps))
    (* out carries only values of the inputs *)
    /\ Forall (fun p => fst p < length incaps) (out_seq s 0).
Proof.
  intros Hr k Hk.
  destruct (reachable_inv _ _ (inv_init_merge incaps outcap) Hr) as [HI (Ek & En & Em)].
  simpl in En, Em, Ek.
  assert (Hnk : knd s <> KRep).
  { rewrite Ek. destruct incaps as [|a [|b [|c [|d l]]]]; discriminate. }
  rewrite <- En in *. split; [exact (i_merge _ HI Hnk k Hk)|]. split; [exact (i_in _ HI k Hk)|].
  split.
  - pose proof (i_out _ HI 0 ltac:(lia)) as A. rewrite Nat.add_0_r in A. exact A.
  - apply (i_tags _ HI 0). lia.
Qed.

(* multiset form: the output so far (plus the value in hand) is a permutation of everything received *)
Lemma perm_insert {A} (f g : nat -> list A) (a : nat) (x : A) ks :
  NoDup ks -> In a ks ->
  (forall k, g k = if Nat.eqb a k then x :: f k else f k) ->
  Permutation (x :: concat (map f ks)) (concat (map g ks)).
Proof.
  intros Hnd Hin Hg. induction ks as [|k0 ks IH]; [destruct Hin|].
  inversion Hnd as [|? ? Hnin Hnd']; subst. simpl.
  destruct (Nat.eq_dec a k0) as [->|Hne].
  - rewrite (Hg k0), Nat.eqb_refl. simpl. apply perm_skip.
    replace (map g ks) with (map f ks); [apply Permutation_refl|].
    apply map_ext_in. intros k Hk. rewrite Hg.
    destruct (Nat.eqb k0 k) eqn:E; [apply Nat.eqb_eq in E; subst; contradiction|reflexivity].
  - rewrite (Hg k0). apply Nat.eqb_neq in Hne as E. rewrite E.
    destruct Hin as [Hin|Hin]; [congruence|].
    eapply Permutation_trans; [apply Permutation_middle|].
    apply Permutation_app_head. apply IH; assumption.
Qed.

Lemma from_perm n l :
  Forall (fun p => fst p < n) l ->
  Permutation (map snd l) (concat (map (fun k => from k l) (seq 0 n))).
Proof.
  induction l as [|[a x] l IH]; intros HF.
  - simpl. replace (concat (map (fun k => from k []) (seq 0 n))) with (@nil Z); [constructor|].
    induction (seq 0 n); simpl; auto.
  - inversion HF as [|? ? Ha HF']; subst. simpl in Ha. simpl map at 1.
    eapply Permutation_trans; [apply perm_skip; apply IH; exact HF'|].
    apply perm_insert with (a := a); [apply seq_NoDup | apply in_seq; lia |].
    intros k. unfold from. simpl. destruct (Nat.eqb a k); reflexivity.
Qed.

Lemma map_nth_seq {A} (l : list A) d : map (fun k => nth k l d) (seq 0 (length l)) = l.
Proof.
  induction l as [|x l IH]; [reflexivity|]. simpl. f_equal.
  rewrite <- seq_shift, map_map. exact IH.
Qed.

Theorem chans_multiset incaps outcap s :
  reachable qstep (init_merge incaps outcap) s ->
  Permutation (map snd (out_seq s 0 ++ hand s)) (concat (gots s)).
Proof.
  intros Hr.
  destruct (reachable_inv _ _ (inv_init_merge incaps outcap) Hr) as [HI (Ek & En & Em)].
  simpl in En, Em, Ek.
  assert (Hnk : knd s <> KRep).
  { rewrite Ek. destruct incaps as [|a [|b [|c [|d l]]]]; discriminate. }
  assert (HF : Forall (fun p => fst p < nin s) (out_seq s 0 ++ hand s)).
  { apply Forall_app. split; [apply (i_tags _ HI 0); lia|].
    unfold hand. destruct (pc s) eqn:Epc; constructor; [|constructor].
    simpl. destruct (i_hand _ HI _ _ _ Epc) as [A _]. exact A. }
  eapply Permutation_trans; [apply (from_perm (nin s)); exact HF|].
  replace (map (fun k => from k (out_seq s 0 ++ hand s)) (seq 0 (nin s))) with (gots s); [apply Permutation_refl|].
  rewrite <- (map_nth_seq (gots s) []) at 1. rewrite (i_gots _ HI).
  apply map_ext_in. intros k Hk. apply in_seq in Hk. symmetry. apply (i_merge _ HI Hnk). lia.
Qed.

(* ---- C12_chans_terminates ---- *)
Lemma filter_len_le {A} (f : A -> bool) l : length (filter f l) <= length l.
Proof. induction l as [|x l IH]; simpl; [lia|]. destruct (f x); simpl; lia. Qed.

Lemma count_true_all l : count_true l = length l -> forall k, k < length l -> nth k l false = true.
Proof.
  unfold count_true. induction l as [|b l IH]; intros H k Hk; simpl in *; [lia|].
  destruct b; simpl in H.
  - destruct k; [reflexivity|]. apply IH; lia.
  - exfalso. pose proof (filter_len_le (fun b : bool => b) l) as F. lia.
Qed.

Lemma count_true_some_false l : count_true l < length l -> exists k, k < length l /\ nth k l false = false.
Proof.
  unfold count_true. induction l as [|b l IH]; intros H; simpl in *; [lia|].
  destruct b; simpl in H.
  - destruct IH as (k & Hk & E); [lia|]. exists (S k). split; [lia|exact E].
  - exists 0. split; [lia|reflexivity].
Qed.

Lemma ret_all_seen s : Inv s -> ret_pc (pc s) = true -> forall k, k < nin s -> nth k (seen_closed s) false = true.
Proof.
  intros HI Hret k Hk. pose proof (i_sel _ HI) as S. pose proof (i_kind _ HI) as K. unfold sel_ok in S.
  rewrite Hret in S.
  destruct (knd s).
  - assert (k = 0) by lia. subst. apply S. reflexivity.
  - destruct S as (_ & B & C). apply count_true_all; rewrite (i_seen _ HI); [congruence|exact Hk].
  - destruct S as (_ & B & C). apply count_true_all; rewrite (i_seen _ HI); [congruence|exact Hk].
  - destruct S as (_ & B & C). specialize (C eq_refl).
    destruct (nth k (seen_closed s) false) eqn:E; [reflexivity|].
    exfalso. assert (X : In k (cases s)) by (apply B; auto). rewrite C in X. destruct X.
  - assert (k = 0) by lia. subst. apply S. reflexivity.
Qed.

(* safety direction: once the call is about to return / has returned, every input is closed and drained
   and everything that was ever sent into an input has been sent on the output *)
Theorem chans_returned_only_when_done incaps outcap s :
  reachable qstep (init_merge incaps outcap) s ->
  ret_pc (pc s) = true ->
  forall k, k < length incaps ->
    closed (chn s k) = true /\ buf (chn s k) = [] /\ nth k (produced s) [] = from k (out_seq s 0).
Proof.
  intros Hr Hret k Hk.
  destruct (reachable_inv _ _ (inv_init_merge incaps outcap) Hr) as [HI (Ek & En & Em)].
  simpl in En, Em, Ek. rewrite <- En in Hk.
  assert (Hnk : knd s <> KRep).
  { rewrite Ek. destruct incaps as [|a [|b [|c [|d l]]]]; discriminate. }
  destruct (i_seen_closed _ HI k Hk (ret_all_seen _ HI Hret k Hk)) as [A B].
  split; [exact A|]. split; [exact B|].
  rewrite (i_in _ HI k Hk), B, app_nil_r. rewrite <- (i_merge _ HI Hnk k Hk).
  unfold hand. destruct (pc s); try discriminate; rewrite app_nil_r; reflexivity.
Qed.

(* progress: while the call is running, either one of its own steps is enabled, or it waits for an input that is
   open and empty (its producer must send or close), or it waits for room in an output (its consumer must receive) *)
Definition lib_enabled (s : st) : Prop := exists l, In l (LRet :: lib_taus s) /\ enabled s l = true.
Definition waits_for_input (s : st) : Prop :=
  pc s = LLoop /\ exists pos k, sel s pos = Some k /\ closed (chn s k) = false /\ buf (chn s k) = [].
Definition waits_for_output (s : st) : Prop :=
  exists k v j, pc s = LHand k v j /\ cap (chn s (nin s + j)) <= length (buf (chn s (nin s + j))).

Lemma sel_pos_le s pos k : Inv s -> sel s pos = Some k -> pos < S (nin s).
Proof.
  intros HI H. pose proof (i_sel _ HI) as S. pose proof (i_kind _ HI) as K. unfold sel, sel_ok in *.
  destruct (knd s).
  - destruct (Nat.eqb pos 0) eqn:E; [apply Nat.eqb_eq in E; lia|discriminate].
  - destruct (nth_error (live s) pos) eqn:E; [|discriminate].
    assert (pos < length (live s)) by (apply nth_error_Some; congruence). rewrite (i_live _ HI) in *. lia.
  - destruct (nth_error (live s) pos) eqn:E; [|discriminate].
    assert (pos < length (live s)) by (apply nth_error_Some; congruence). rewrite (i_live _ HI) in *. lia.
  - destruct S as (A & B & _).
    assert (pos < length (cases s)) by (apply nth_error_Some; congruence).
    assert (length (cases s) <= length (seq 0 (nin s))).
    { apply NoDup_incl_length; [exact A|]. intros x Hx. apply in_seq. apply B in Hx. lia. }
    rewrite seq_length in *. lia.
  - destruct (Nat.eqb pos 0) eqn:E; [apply Nat.eqb_eq in E; lia|discriminate].
Qed.

Lemma recv_enabled s pos k :
  Inv s -> pc s = LLoop -> sel s pos = Some k -> (closed (chn s k) = true \/ buf (chn s k) <> []) -> lib_enabled s.
Proof.
  intros HI Epc Hsel Hready.
  destruct (sel_unseen _ _ _ HI Epc Hsel) as [Hk _].
  exists (TLibRecv pos). split.
  - right. unfold lib_taus. apply in_or_app. left. apply in_map. apply in_seq. pose proof (sel_pos_le _ _ _ HI Hsel). lia.
  - unfold enabled, step. rewrite Epc, Hsel.
    assert (Hc : nth_error (chs s) k = Some (chn s k)).
    { unfold chn. apply nth_error_of_nth. rewrite (i_chs _ HI). lia. }
    rewrite Hc. destruct (buf (chn s k)) eqn:Eb; [|reflexivity].
    destruct Hready as [-> | X]; [reflexivity | congruence].
Qed.

Lemma progress_inv s :
  Inv s -> pc s <> LInit -> pc s <> LDone -> lib_enabled s \/ waits_for_input s \/ waits_for_output s.
Proof.
  intros HI Hni Hnd.
  destruct (pc s) as [| |k v j| |] eqn:Epc; try congruence.
  - (* LLoop *)
    assert (Hsome : (exists pos k, sel s pos = Some k) \/ (knd s = KMR /\ cases s = [])).
    { pose proof (i_sel _ HI) as S. pose proof (i_kind _ HI) as K. unfold sel_ok in S. rewrite Epc in S. simpl in S.
      unfold sel. destruct (knd s) eqn:Ek.
      - left. exists 0, 0. reflexivity.
      - destruct S as (A & B & C). rewrite B in C.
        destruct (count_true_some_false (seen_closed s)) as (k & Hk & E); [rewrite (i_seen _ HI); exact C|].
        rewrite (i_seen _ HI) in Hk. left. exists k, k.
        assert (X : nth_error (live s) k = Some (nth k (live s) false)) by (apply nth_error_of_nth; rewrite (i_live _ HI); exact Hk).
        rewrite X, (A k Hk), E. reflexivity.
      - destruct S as (A & B & C). rewrite B in C.
        destruct (count_true_some_false (seen_closed s)) as (k & Hk & E); [rewrite (i_seen _ HI); exact C|].
        rewrite (i_seen _ HI) in Hk. left. exists k, k.
        assert (X : nth_error (live s) k = Some (nth k (live s) false)) by (apply nth_error_of_nth; rewrite (i_live _ HI); exact Hk).
        rewrite X, (A k Hk), E. reflexivity.
      - destruct (cases s) as [|k0 cs] eqn:Ec; [right; auto|]. left. exists 0, k0. reflexivity.
      - left. exists 0, 0. reflexivity. }
    destruct Hsome as [(pos & k & Hsel)|[Ek Ec]].
    + destruct (closed (chn s k)) eqn:Ecl.
      * left. eapply recv_enabled; eauto.
      * destruct (buf (chn s k)) eqn:Eb.
        -- right. left. split; [exact Epc|]. exists pos, k. auto.
        -- left. eapply recv_enabled; eauto. right. congruence.
    + left. exists TLibExit. split.
      * right. unfold lib_taus. apply in_or_app. right. simpl. auto.
      * unfold enabled, step. rewrite Ek, Epc, Ec. reflexivity.
  - (* LHand *)
    destruct (i_hand _ HI _ _ _ Epc) as (Hk & Hj & _).
    destruct (Nat.lt_ge_cases (length (buf (chn s (nin s + j)))) (cap (chn s (nin s + j)))) as [Hlt|Hge].
    + left. exists TLibSend. split.
      * right. unfold lib_taus. apply in_or_app. right. simpl. auto.
      * unfold enabled, step. rewrite Epc.
        assert (Hc : nth_error (chs s) (nin s + j) = Some (chn s (nin s + j))).
        { unfold chn. apply nth_error_of_nth. rewrite (i_chs _ HI). lia. }
        rewrite Hc.
        destruct (nth_error (conss s) j) eqn:Ecn.
        -- apply Nat.ltb_lt in Hlt. rewrite Hlt. reflexivity.
        -- exfalso. apply nth_error_None in Ecn. rewrite (i_conss _ HI) in Ecn. lia.
    + right. right. exists k, v, j. auto.
  - (* LRetp *)
    left. exists LRet. split; [left; reflexivity|]. unfold enabled, step. rewrite Epc. reflexivity.
Qed.

Theorem chans_progress incaps outcap s :
  reachable qstep (init_merge incaps outcap) s -> pc s <> LInit -> pc s <> LDone ->
  lib_enabled s \/ waits_for_input s \/ waits_for_output s.
Proof.
  intros Hr. destruct (reachable_inv _ _ (inv_init_merge incaps outcap) Hr) as [HI _]. apply progress_inv. exact HI.
Qed.

(* liveness direction of "returns iff": when every input is closed and drained and nothing is in hand, the call
   needs nobody else: one of its own steps is enabled until it has returned *)
Theorem chans_returns_when_done incaps outcap s :
  reachable qstep (init_merge incaps outcap) s -> pc s = LLoop \/ pc s = LRetp ->
  (forall k, k < length incaps -> closed (chn s k) = true) ->
  lib_enabled s.
Proof.
  intros Hr Hpc Hcl.
  destruct (reachable_inv _ _ (inv_init_merge incaps outcap) Hr) as [HI (Ek & En & Em)]. simpl in En.
  destruct (progress_inv s HI) as [A|[(Epc & pos & k & Hsel & Hc & _)|(k & v & j & Epc & _)]]; auto.
  - destruct Hpc as [E|E]; rewrite E; discriminate.
  - destruct Hpc as [E|E]; rewrite E; discriminate.
  - destruct (sel_unseen _ _ _ HI Epc Hsel) as [Hk _]. rewrite Hcl in Hc by lia. discriminate.
  - destruct Hpc as [E|E]; rewrite E in Epc; discriminate.
Qed.

(* ---- C12_replicate ---- *)
Theorem replicate_correct srccap dstcaps s :
  reachable qstep (init_replicate srccap dstcaps) s ->
  let got := nth 0 (gots s) [] in
  (* the source's values are received in order, none lost *)
  nth 0 (produced s) [] = got ++ buf (chn s 0)
  /\ (forall j, j < length dstcaps ->
       (* destination j has been sent a prefix of what was received: all of it, or all but the value in hand;
          destinations earlier in the list get the value in hand first *)
       (match pc s with
        | LHand _ v j0 => exists g0, got = g0 ++ [v] /\ vals s j = if Nat.ltb j j0 then got else g0
        | _ => vals s j = got
        end)
       (* and what was sent to it is what its consumer took plus what sits in its buffer *)
       /\ vals s j = nth j (taken s) [] ++ buf (chn s (1 + j)))
  (* the call returns only when the source is closed and drained and every destination has been sent everything *)
  /\ (ret_pc (pc s) = true ->
      closed (chn s 0) = true /\ buf (chn s 0) = [] /\ forall j, j < length dstcaps -> vals s j = nth 0 (produced s) []).
Proof.
  intros Hr got.
  destruct (reachable_inv _ _ (inv_init_replicate srccap dstcaps) Hr) as [HI (Ek & En & Em)].
  simpl in Ek, En, Em.
  pose proof (i_rep _ HI Ek) as R. unfold rep_ok in R.
  pose proof (i_in _ HI 0 ltac:(lia)) as I0.
  split; [exact I0|]. split.
  - intros j Hj. rewrite <- Em in Hj. split.
    + destruct (pc s) eqn:Epc; try (apply R; exact Hj).
      destruct R as (g0 & G & V). exists g0. split; [exact G|]. rewrite (V j Hj). unfold got. rewrite G. reflexivity.
    + pose proof (i_out _ HI j Hj) as A. rewrite En in A. exact A.
  - intros Hret.
    destruct (i_seen_closed _ HI 0 ltac:(lia) (ret_all_seen _ HI Hret 0 ltac:(lia))) as [A B].
    split; [exact A|]. split; [exact B|]. intros j Hj. rewrite <- Em in Hj.
    rewrite I0, B, app_nil_r. destruct (pc s); try discriminate; apply R; exact Hj.
Qed.

Theorem replicate_progress srccap dstcaps s :
  reachable qstep (init_replicate srccap dstcaps) s -> pc s <> LInit -> pc s <> LDone ->
  lib_enabled s \/ waits_for_input s \/ waits_for_output s.
Proof.
  intros Hr. destruct (reachable_inv _ _ (inv_init_replicate srccap dstcaps) Hr) as [HI _]. apply progress_inv. exact HI.
Qed.
End CMP.
