(* C12 — proofs about the LTS models of Conc/Merge.v.  Statements are collected in Properties/C12.v. *)
From Coq Require Import Permutation.
From Juniper Require Import Common.Base Conc.GoLTS Conc.Merge.
Local Open Scope nat_scope.

(* ------------------------------------------------------------------ list helpers *)
Lemma nth_error_nth_len {A} (l : list A) k x d : nth_error l k = Some x -> nth k l d = x /\ k < length l.
Proof.
  intros H. split; [apply nth_error_nth; exact H|]. apply nth_error_Some. congruence.
Qed.

Lemma nth_error_of_nth {A} (l : list A) k d : k < length l -> nth_error l k = Some (nth k l d).
Proof. intros H. apply nth_error_nth'. exact H. Qed.

Lemma nth_upd_same {A} (l : list A) k x d : k < length l -> nth k (upd l k x) d = x.
Proof.
  intros H. apply nth_error_nth. apply nth_error_upd_same. exact H.
Qed.

Lemma nth_upd_other {A} (l : list A) k k' x d : k <> k' -> nth k' (upd l k x) d = nth k' l d.
Proof.
  intros H. destruct (Nat.lt_ge_cases k' (length l)) as [Hl|Hl].
  - apply nth_error_nth. rewrite nth_error_upd_other by exact H. apply nth_error_nth'. exact Hl.
  - rewrite !nth_overflow; [reflexivity| exact Hl | rewrite upd_length; exact Hl].
Qed.

Lemma snoc_at_length {A} (ll : list (list A)) k x : length (snoc_at ll k x) = length ll.
Proof. unfold snoc_at. destruct (nth_error ll k); [apply upd_length | reflexivity]. Qed.

Lemma nth_snoc_at_same {A} (ll : list (list A)) k x :
  k < length ll -> nth k (snoc_at ll k x) [] = nth k ll [] ++ [x].
Proof.
  intros H. unfold snoc_at. rewrite (nth_error_of_nth ll k [] H). apply nth_upd_same. exact H.
Qed.

Lemma nth_snoc_at_other {A} (ll : list (list A)) k k' x :
  k <> k' -> nth k' (snoc_at ll k x) [] = nth k' ll [].
Proof.
  intros H. unfold snoc_at. destruct (nth_error ll k); [apply nth_upd_other; exact H | reflexivity].
Qed.

Lemma nth_map_d {A B} (f : A -> B) l k d d' : k < length l -> nth k (map f l) d' = f (nth k l d).
Proof. intros H. rewrite (nth_indep _ d' (f d)) by (rewrite map_length; exact H). apply map_nth. Qed.

Lemma nth_repeat_d {A} (x : A) n k d : k < n -> nth k (repeat x n) d = x.
Proof. intros H. apply nth_error_nth. apply nth_error_repeat. exact H. Qed.

(* ------------------------------------------------------------------ xslices.RemoveUnordered(s, idx, 1) *)
Lemma remove_unordered_1 {A} (l : list A) pos k :
  nth_error l pos = Some k ->
  (exists a, l = a ++ [k] /\ length a = pos /\ remove_unordered l pos 1 = a)
  \/ (exists a b z, l = a ++ [k] ++ b ++ [z] /\ length a = pos /\ remove_unordered l pos 1 = a ++ [z] ++ b).
Proof.
  intros H. destruct (nth_error_split l pos H) as (a & r & Hl & Ha).
  destruct r as [|r0 r1].
  - left. exists a. subst l. split; [reflexivity|]. split; [exact Ha|].
    unfold remove_unordered, copy_at. rewrite app_length. simpl length.
    replace (length a + 1 - 1) with (length a) by lia.
    rewrite Ha. replace (Nat.max pos (pos + 1)) with (pos + 1) by lia.
    rewrite skipn_all2 by (rewrite app_length; simpl; lia).
    simpl. rewrite Nat.min_0_r. simpl. rewrite Nat.add_0_r.
    rewrite firstn_skipn. subst pos. rewrite firstn_app, firstn_all, Nat.sub_diag. simpl. apply app_nil_r.
  - destruct (exists_last (l := r0 :: r1)) as (b & z & Hbz); [discriminate|].
    right. exists a, b, z. rewrite Hbz in Hl. subst l. split; [reflexivity|]. split; [exact Ha|].
    unfold remove_unordered, copy_at.
    assert (Hlen : length (a ++ k :: b ++ [z]) = pos + 2 + length b).
    { rewrite app_length. simpl. rewrite app_length. simpl. lia. }
    rewrite Hlen.
    replace (Nat.max (pos + 2 + length b - 1) (pos + 1)) with (pos + 1 + length b) by lia.
    replace (a ++ k :: b ++ [z]) with ((a ++ k :: b) ++ [z]) by (rewrite <- app_assoc; reflexivity).
    assert (Hlen2 : length (a ++ k :: b) = pos + 1 + length b) by (rewrite app_length; simpl; lia).
    rewrite skipn_app. rewrite skipn_all2 by lia. rewrite Hlen2, Nat.sub_diag. simpl skipn. simpl app at 1.
    simpl length. replace (Nat.min (pos + 2 + length b - pos) 1) with 1 by lia.
    simpl firstn at 2.
    rewrite <- app_assoc. simpl app.
    rewrite <- Ha at 1. rewrite firstn_app, firstn_all, Nat.sub_diag. simpl firstn at 1. rewrite app_nil_r.
    replace (pos + 1) with (length (a ++ [k])) by (rewrite app_length; simpl; lia).
    replace (a ++ k :: b ++ [z]) with ((a ++ [k]) ++ b ++ [z]) by (rewrite <- app_assoc; reflexivity).
    rewrite skipn_app, skipn_all, Nat.sub_diag. simpl skipn. simpl app.
    replace (pos + 2 + length b - 1) with (length (a ++ z :: b)) by (rewrite app_length; simpl; lia).
    replace (a ++ z :: b ++ [z]) with ((a ++ z :: b) ++ [z]) by (rewrite <- app_assoc; reflexivity).
    rewrite firstn_app, firstn_all, Nat.sub_diag. simpl. rewrite app_nil_r. reflexivity.
Qed.

Lemma remove_unordered_1_spec (l : list nat) pos k :
  NoDup l -> nth_error l pos = Some k ->
  NoDup (remove_unordered l pos 1) /\
  (forall x, In x (remove_unordered l pos 1) <-> In x l /\ x <> k) /\
  length (remove_unordered l pos 1) = pred (length l).
Proof.
  intros Hnd H. destruct (remove_unordered_1 l pos k H) as [(a & Hl & _ & Hr)|(a & b & z & Hl & _ & Hr)];
    rewrite Hr; subst l.
  - apply NoDup_remove in Hnd. rewrite app_nil_r in Hnd. destruct Hnd as [Hnd Hnin].
    split; [exact Hnd|]. split.
    + intros x. rewrite in_app_iff. simpl. split.
      * intros Hx. split; [left; exact Hx|]. intros ->. contradiction.
      * intros [[Hx|[Hx|[]]] Hne]; [exact Hx | congruence].
    + rewrite app_length. simpl. lia.
  - assert (Hperm : Permutation (a ++ [k] ++ b ++ [z]) (k :: a ++ [z] ++ b)).
    { apply Permutation_sym. apply Permutation_cons_app.
      apply Permutation_app_head. simpl. apply Permutation_cons_append. }
    assert (Hnd2 : NoDup (k :: a ++ [z] ++ b)) by (eapply Permutation_NoDup; eauto).
    inversion Hnd2 as [|? ? Hnin Hnd3]; subst.
    split; [exact Hnd3|]. split.
    + intros x. split.
      * intros Hx. split.
        -- apply (Permutation_in x (Permutation_sym Hperm)). right. exact Hx.
        -- intros ->. contradiction.
      * intros [Hx Hne]. apply (Permutation_in x Hperm) in Hx. destruct Hx as [Hx|Hx]; [congruence|exact Hx].
    + rewrite !app_length. simpl. rewrite !app_length. simpl. lia.
Qed.
