(* C14 — LTS models of parallel.MapIterator and parallel.MapStream (parallel/parallel.go) together
   with the scenario harness (harness_parmap/parmap.go).  Model only (no proofs here).

   Two transition systems: module [MI] (MapIterator + mapIterator.Next) and module [MS] (MapStream +
   mapStream.Next/Close).  Threads: the dispatcher goroutine, [p] worker goroutines, the consumer
   (one goroutine of the harness that executes the Next/Close calls requested by the controller),
   and the sequential controller (requests, gate releases, context cancellations, quiescence).

   Granularity (DESIGN.md A2.7 / spike/CONC_RULES.md):
   * the two critical sections of MapIterator under [mIter.m] contain no blocking operation other
     than [cond.Wait] and are single steps: the dispatcher's  lock; for inFlight >= bufferSize
     { Wait }; inFlight++; unlock  is [TAcquire] (it either parks — Wait releases the mutex and parks
     atomically — or increments); the consumer's  lock; inFlight--; if inFlight == bufferSize-1
     { Signal }; unlock  is part of [TLoop].  Signal wakes the dispatcher only if it is parked at
     that moment (a Signal without a parked waiter is lost), and a woken dispatcher re-evaluates the
     loop condition.
   * consumer-local work (Peek/Pop/Push on the re-order heap, i++) is merged with the next
     shared-memory operation of the consumer; the heap is touched by the consumer only.
   * unbuffered channels [in] and [ch]: a send and a receive rendezvous in one joint step
     ([TDispatch w], [TResult w]); buffered channels ([ready], [c]) are a token counter and a FIFO
     list with capacity; a receive from / a select on a channel is enabled exactly when Go's
     operation can complete (parking is implicit: the thread simply has no enabled step);
     a [select] with several ready arms may take any of them (one label per arm).
   * [atomic.AddUint32(&nDone, 1) == parallelism] followed by [close] is one step ([TWorkerDone]):
     nDone is read by nobody else and only the last worker closes.
   * the re-order buffer [xheap.Heap] keyed by [idx] is an ideal priority queue (a list kept sorted
     by index: Push = sorted insertion, Peek = head, Pop = tail); justified by property C05.
   * errgroup (golang.org/x/sync v0.0.0-20210220032951): Go = wg.Add(1) + goroutine; when the
     function returns a non-nil error, errOnce records the first one and cancels the derived
     context (one step, [TDRet]/[TWRet]: nobody reads g.err before wg.Wait returns); wg.Done after
     that; Wait = wg.Wait, cancel, return g.err.
   * contexts: the caller's context P (cancelled by the controller), W = WithCancel(P) (cancelled by
     Close), G = errgroup's context derived from W.  The library observes only G.  [gctx] is
     [GLive] or [GDone cause]; cancelling W cancels G synchronously; the cancellation of P reaches
     W/G through the context package's propagation goroutine ([TParentProp]).  Each call of Next has
     its own context (index j), cancelled by the controller.

   Values: source item k carries the value [nth k src 0]; its result is [fv] of that value. *)
From Juniper Require Import Common.Base Conc.GoLTS.
From Coq Require Import Arith PeanoNat.

(* ---- parameter normalisation, as at the top of MapIterator / MapStream ---- *)
Definition norm_par (gomaxprocs parallelism : Z) : Z :=
  if parallelism <=? 0 then gomaxprocs else parallelism.
Definition norm_buf (par bufferSize : Z) : Z :=
  if bufferSize <? par then par else bufferSize.

(* ---- the re-order buffer: ideal priority queue keyed by index ---- *)
Definition entry := (nat * Z)%type.

Fixpoint hpush (x : entry) (h : list entry) : list entry :=
  match h with
  | [] => [x]
  | y :: t => if (fst x <=? fst y)%nat then x :: h else y :: hpush x t
  end.

(* ---- small equality helpers for the matcher ---- *)
(* lazy conjunction: [andb] evaluates both arguments under vm_compute *)
Notation "a &&& b" := (if a then b else false) (at level 40, left associativity).
Fixpoint list_eqb {A} (eqb : A -> A -> bool) (a b : list A) : bool :=
  match a, b with
  | [], [] => true
  | x :: a', y :: b' => if eqb x y then list_eqb eqb a' b' else false
  | _, _ => false
  end.
Definition entry_eqb (a b : entry) : bool := Nat.eqb (fst a) (fst b) && Z.eqb (snd a) (snd b).
Definition optZ_eqb (a b : option Z) : bool :=
  match a, b with None, None => true | Some x, Some y => Z.eqb x y | _, _ => false end.
Definition optnat_eqb (a b : option nat) : bool :=
  match a, b with None, None => true | Some x, Some y => Nat.eqb x y | _, _ => false end.

Definition nthb (l : list bool) (k : nat) : bool := nth k l false.

(* ====================================================================== *)
(*                              MapIterator                               *)
(* ====================================================================== *)
Module MI.

Inductive dpc :=
| DPull                 (* about to call iter.Next() *)
| DInSrc                (* inside iter.Next() (harness code) *)
| DAcq (k : nat)        (* has item k; at m.Lock() / re-evaluating the Wait loop *)
| DParked (k : nat)     (* parked in cond.Wait() *)
| DSend (k : nat)       (* inFlight++ done; at  in <- item  *)
| DCloseIn              (* source exhausted; about to close(in) *)
| DDone.

Inductive wpc :=
| WIdle                 (* at  range in  *)
| WHas (k : nat)        (* received item k; about to call f *)
| WInF (k : nat)        (* inside f (harness code, gated) *)
| WSend (k : nat) (v : Z)   (* at  mIter.ch <- result  *)
| WExit                 (* left the loop; about to add to nDone *)
| WDone.

Inductive cpc :=
| CIdle                 (* not inside Next *)
| CLoop                 (* inside Next, at the top of the loop *)
| CRecv                 (* at  <-iter.ch  *)
| CRet (r : option Z).  (* about to return (value, true) or (zero, false) *)

Record st := mkSt {
  src : list Z;           (* configuration: the source's items *)
  buf : Z;                (* configuration: bufferSize after normalisation *)
  rel : list bool;        (* gate of f for item k released? (ungated items start released) *)
  reqs : nat;             (* Next calls requested by the controller, not yet started *)
  pulled : nat;           (* items the source has returned *)
  disp : dpc;
  inflight : Z;
  ws : list wpc;
  in_closed : bool;
  ndone : nat;
  ch_closed : bool;
  heap : list entry;
  next : nat;             (* iter.i *)
  cons : cpc;
  yielded : list Z        (* ghost: values returned by Next so far *)
}.

Inductive lab :=
(* visible: up-calls *)
| LSrcEnter | LSrcExit (r : option nat)       (* Some k: item k returned; None: exhausted *)
| LFEnter (w k : nat) | LFExit (w k : nat)    (* the worker id is not observable: see [vis] *)
(* visible: consumer API calls *)
| LCallNext | LRetNext (r : option Z)
(* visible: controller *)
| LReqNext | LRelease (k : nat) | LQuiesce
(* internal *)
| TAcquire                (* dispatcher critical section: park or inFlight++ *)
| TDispatch (w : nat)     (* rendezvous on [in] with idle worker w *)
| TCloseIn
| TInClosed (w : nat)     (* worker w sees [in] closed *)
| TWorkerDone (w : nat)   (* nDone++, the last one closes [ch] *)
| TLoop                   (* consumer: pop-and-release-slot, or go on to receive *)
| TResult (w : nat)       (* rendezvous on [ch]: consumer receives from worker w and pushes *)
| TChClosed.              (* consumer sees [ch] closed *)

Section Step.
Variable fv : Z -> Z.

Definition set_disp (s : st) (d : dpc) : st :=
  mkSt (src s) (buf s) (rel s) (reqs s) (pulled s) d (inflight s) (ws s) (in_closed s) (ndone s)
       (ch_closed s) (heap s) (next s) (cons s) (yielded s).
Definition set_w (s : st) (w : nat) (x : wpc) : st :=
  mkSt (src s) (buf s) (rel s) (reqs s) (pulled s) (disp s) (inflight s) (upd (ws s) w x) (in_closed s)
       (ndone s) (ch_closed s) (heap s) (next s) (cons s) (yielded s).
Definition set_cons (s : st) (c : cpc) : st :=
  mkSt (src s) (buf s) (rel s) (reqs s) (pulled s) (disp s) (inflight s) (ws s) (in_closed s) (ndone s)
       (ch_closed s) (heap s) (next s) c (yielded s).

Definition getw (s : st) (w : nat) : option wpc := nth_error (ws s) w.

Definition step (s : st) (l : lab) : option st :=
  match l with
  | LSrcEnter => match disp s with DPull => Some (set_disp s DInSrc) | _ => None end
  | LSrcExit r =>
      match disp s with
      | DInSrc =>
          if (pulled s <? length (src s))%nat
          then if optnat_eqb r (Some (pulled s))
               then Some (mkSt (src s) (buf s) (rel s) (reqs s) (S (pulled s)) (DAcq (pulled s)) (inflight s)
                               (ws s) (in_closed s) (ndone s) (ch_closed s) (heap s) (next s) (cons s) (yielded s))
               else None
          else if optnat_eqb r None then Some (set_disp s DCloseIn) else None
      | _ => None
      end
  | TAcquire =>
      match disp s with
      | DAcq k =>
          if inflight s >=? buf s then Some (set_disp s (DParked k))
          else Some (mkSt (src s) (buf s) (rel s) (reqs s) (pulled s) (DSend k) (inflight s + 1) (ws s)
                          (in_closed s) (ndone s) (ch_closed s) (heap s) (next s) (cons s) (yielded s))
      | _ => None
      end
  | TDispatch w =>
      match disp s, getw s w with
      | DSend k, Some WIdle => Some (set_disp (set_w s w (WHas k)) DPull)
      | _, _ => None
      end
  | TCloseIn =>
      match disp s with
      | DCloseIn => Some (mkSt (src s) (buf s) (rel s) (reqs s) (pulled s) DDone (inflight s) (ws s) true
                               (ndone s) (ch_closed s) (heap s) (next s) (cons s) (yielded s))
      | _ => None
      end
  | TInClosed w =>
      match getw s w with
      | Some WIdle => if in_closed s then Some (set_w s w WExit) else None
      | _ => None
      end
  | LFEnter w k =>
      match getw s w with
      | Some (WHas k') => if Nat.eqb k k' then Some (set_w s w (WInF k)) else None
      | _ => None
      end
  | LFExit w k =>
      match getw s w with
      | Some (WInF k') =>
          if Nat.eqb k k' && nthb (rel s) k
          then Some (set_w s w (WSend k (fv (nth k (src s) 0))))
          else None
      | _ => None
      end
  | TResult w =>
      match getw s w, cons s with
      | Some (WSend k v), CRecv =>
          Some (mkSt (src s) (buf s) (rel s) (reqs s) (pulled s) (disp s) (inflight s) (upd (ws s) w WIdle)
                     (in_closed s) (ndone s) (ch_closed s) (hpush (k, v) (heap s)) (next s) CLoop (yielded s))
      | _, _ => None
      end
  | TWorkerDone w =>
      match getw s w with
      | Some WExit =>
          Some (mkSt (src s) (buf s) (rel s) (reqs s) (pulled s) (disp s) (inflight s) (upd (ws s) w WDone)
                     (in_closed s) (S (ndone s)) (ch_closed s || Nat.eqb (S (ndone s)) (length (ws s)))
                     (heap s) (next s) (cons s) (yielded s))
      | _ => None
      end
  | LReqNext =>
      Some (mkSt (src s) (buf s) (rel s) (S (reqs s)) (pulled s) (disp s) (inflight s) (ws s) (in_closed s)
                 (ndone s) (ch_closed s) (heap s) (next s) (cons s) (yielded s))
  | LCallNext =>
      match cons s, reqs s with
      | CIdle, S r =>
          Some (mkSt (src s) (buf s) (rel s) r (pulled s) (disp s) (inflight s) (ws s) (in_closed s)
                     (ndone s) (ch_closed s) (heap s) (next s) CLoop (yielded s))
      | _, _ => None
      end
  | TLoop =>
      match cons s with
      | CLoop =>
          match heap s with
          | (k, v) :: t =>
              if Nat.eqb k (next s)
              then (* Pop; i++; lock; inFlight--; Signal iff inFlight == bufferSize-1; unlock *)
                let infl := inflight s - 1 in
                let d := match disp s with
                         | DParked j => if infl =? buf s - 1 then DAcq j else DParked j
                         | d => d
                         end in
                Some (mkSt (src s) (buf s) (rel s) (reqs s) (pulled s) d infl (ws s) (in_closed s) (ndone s)
                           (ch_closed s) t (S (next s)) (CRet (Some v)) (yielded s ++ [v]))
              else Some (set_cons s CRecv)
          | [] => Some (set_cons s CRecv)
          end
      | _ => None
      end
  | TChClosed =>
      match cons s with
      | CRecv => if ch_closed s then Some (set_cons s (CRet None)) else None
      | _ => None
      end
  | LRetNext r =>
      match cons s with
      | CRet r' => if optZ_eqb r r' then Some (set_cons s CIdle) else None
      | _ => None
      end
  | LRelease k =>
      Some (mkSt (src s) (buf s) (upd (rel s) k true) (reqs s) (pulled s) (disp s) (inflight s) (ws s)
                 (in_closed s) (ndone s) (ch_closed s) (heap s) (next s) (cons s) (yielded s))
  | LQuiesce => None     (* see [qstep] *)
  end.

(* ---- label classes ---- *)
(* internal labels that can be enabled in s *)
Definition tau_all (s : st) : list lab :=
  [TAcquire; TCloseIn; TLoop; TChClosed]
  ++ flat_map (fun w => [TDispatch w; TInClosed w; TWorkerDone w; TResult w]) (seq 0 (length (ws s))).

(* visible labels of library/harness goroutines (everything but the controller) *)
Definition items_of (s : st) : list nat :=
  flat_map (fun x => match x with WHas k | WInF k => [k] | _ => [] end) (ws s).
Definition lib_visible (s : st) : list lab :=
  [LSrcEnter; LSrcExit None; LSrcExit (Some (pulled s)); LCallNext]
  ++ match cons s with CRet r => [LRetNext r] | _ => [] end
  ++ flat_map (fun w => match nth_error (ws s) w with
                        | Some (WHas k) => [LFEnter w k]
                        | Some (WInF k) => [LFExit w k]
                        | _ => [] end) (seq 0 (length (ws s))).

Definition enabled (s : st) (l : lab) : bool := match step s l with Some _ => true | None => false end.

Definition quiescent (s : st) : bool :=
  negb (existsb (enabled s) (tau_all s)) && negb (existsb (enabled s) (lib_visible s)).

Definition qstep (s : st) (l : lab) : option st :=
  match l with
  | LQuiesce => if quiescent s then Some s else None
  | _ => step s l
  end.

(* library labels (for the progress theorems): internal steps, the up-call entries and the return
   of Next.  [LSrcExit]/[LFExit] are the environment returning; the rest is the controller. *)
Definition is_lib (l : lab) : bool :=
  match l with
  | LSrcEnter | LFEnter _ _ | LRetNext _
  | TAcquire | TDispatch _ | TCloseIn | TInClosed _ | TWorkerDone _ | TLoop | TResult _ | TChClosed => true
  | _ => false
  end.

End Step.

(* ---- events: labels with the worker id erased ---- *)
Definition vis (l : lab) : option lab :=
  match l with
  | LSrcEnter | LSrcExit _ | LCallNext | LRetNext _ | LReqNext | LRelease _ | LQuiesce => Some l
  | LFEnter _ k => Some (LFEnter 0 k)
  | LFExit _ k => Some (LFExit 0 k)
  | _ => None
  end.

Definition lab_eqb (a b : lab) : bool :=
  match a, b with
  | LSrcEnter, LSrcEnter | LCallNext, LCallNext | LReqNext, LReqNext | LQuiesce, LQuiesce => true
  | LSrcExit x, LSrcExit y => optnat_eqb x y
  | LFEnter w k, LFEnter w' k' | LFExit w k, LFExit w' k' => Nat.eqb w w' && Nat.eqb k k'
  | LRetNext x, LRetNext y => optZ_eqb x y
  | LRelease x, LRelease y => Nat.eqb x y
  | _, _ => false
  end.

Definition dpc_eqb (a b : dpc) : bool :=
  match a, b with
  | DPull, DPull | DInSrc, DInSrc | DCloseIn, DCloseIn | DDone, DDone => true
  | DAcq x, DAcq y | DParked x, DParked y | DSend x, DSend y => Nat.eqb x y
  | _, _ => false
  end.
Definition wpc_eqb (a b : wpc) : bool :=
  match a, b with
  | WIdle, WIdle | WExit, WExit | WDone, WDone => true
  | WHas x, WHas y | WInF x, WInF y => Nat.eqb x y
  | WSend x v, WSend y u => Nat.eqb x y && Z.eqb v u
  | _, _ => false
  end.
Definition cpc_eqb (a b : cpc) : bool :=
  match a, b with
  | CIdle, CIdle | CLoop, CLoop | CRecv, CRecv => true
  | CRet x, CRet y => optZ_eqb x y
  | _, _ => false
  end.
Definition st_eqb (a b : st) : bool :=
  list_eqb wpc_eqb (ws a) (ws b) &&& dpc_eqb (disp a) (disp b) &&& cpc_eqb (cons a) (cons b)
  &&& list_eqb entry_eqb (heap a) (heap b) &&& Nat.eqb (next a) (next b) &&& Z.eqb (inflight a) (inflight b)
  &&& Nat.eqb (pulled a) (pulled b) &&& Nat.eqb (reqs a) (reqs b) &&& list_eqb Bool.eqb (rel a) (rel b)
  &&& Bool.eqb (in_closed a) (in_closed b) &&& Nat.eqb (ndone a) (ndone b) &&& Bool.eqb (ch_closed a) (ch_closed b)
  &&& list_eqb Z.eqb (yielded a) (yielded b) &&& Z.eqb (buf a) (buf b) &&& list_eqb Z.eqb (src a) (src b).

(* the state right after MapIterator(iter, parallelism, bufferSize, f) returned:
   [gated k = true] means the harness holds f on item k until the controller releases it *)
Definition init (gomaxprocs parallelism bufferSize : Z) (items : list Z) (gated : list bool) : st :=
  let p := norm_par gomaxprocs parallelism in
  mkSt items (norm_buf p bufferSize) (map negb gated) 0 0 DPull 0 (repeat WIdle (Z.to_nat p)) false 0 false
       [] 0 CIdle [].

(* ---- reductions used by the matcher only (the theorems are about [step]/[qstep]) ----
   (a) symmetry: workers are interchangeable, so the matcher keeps the worker list sorted
       ([canon]) and dispatches to the first idle worker only;
   (b) eager internal steps: [TCloseIn], [TInClosed w], [TWorkerDone w] never disable another label and
       commute with every other label, so when one of them is enabled it is the only internal
       step explored from that state. *)
Definition wrank (x : wpc) : nat * nat :=
  match x with
  | WIdle => (0, 0) | WHas k => (1, k) | WInF k => (2, k) | WSend k _ => (3, k) | WExit => (4, 0) | WDone => (5, 0)
  end%nat.
Definition wle (a b : wpc) : bool :=
  let '(r1, k1) := wrank a in let '(r2, k2) := wrank b in
  (r1 <? r2)%nat || ((r1 =? r2)%nat && (k1 <=? k2)%nat).
Fixpoint winsert (x : wpc) (l : list wpc) : list wpc :=
  match l with [] => [x] | y :: t => if wle x y then x :: l else y :: winsert x t end.
Definition wsort (l : list wpc) : list wpc := fold_right winsert [] l.
Definition canon (s : st) : st :=
  mkSt (src s) (buf s) (rel s) (reqs s) (pulled s) (disp s) (inflight s) (wsort (ws s)) (in_closed s) (ndone s)
       (ch_closed s) (heap s) (next s) (cons s) (yielded s).
Definition mstep (fv : Z -> Z) (s : st) (l : lab) : option st :=
  match qstep fv s l with Some s' => Some (canon s') | None => None end.

Fixpoint first_idle (l : list wpc) (i : nat) : list nat :=
  match l with
  | [] => []
  | WIdle :: _ => [i]
  | _ :: t => first_idle t (S i)
  end.
Definition eager_labels (s : st) : list lab :=
  TCloseIn :: flat_map (fun w => [TInClosed w; TWorkerDone w]) (seq 0 (length (ws s))).
Definition tau_labels (fv : Z -> Z) (s : st) : list lab :=
  match filter (enabled fv s) (eager_labels s) with
  | l :: _ => [l]
  | [] =>
      [TAcquire; TLoop; TChClosed]
      ++ map TDispatch (first_idle (ws s) 0)
      ++ map TResult (seq 0 (length (ws s)))
  end.

Definition labels_ev (s : st) (e : lab) : list lab :=
  match e with
  | LFEnter _ k => map (fun w => LFEnter w k) (seq 0 (length (ws s)))
  | LFExit _ k => map (fun w => LFExit w k) (seq 0 (length (ws s)))
  | _ => [e]
  end.

Definition accepts_history (fv : Z -> Z) (g par bufsz : Z) (items : list Z) (gated : list bool)
           (evs : list lab) : bool :=
  accepts (mstep fv) vis lab_eqb st_eqb (tau_labels fv) labels_ev 64 (init g par bufsz items gated) evs.

Definition first_rejected (fv : Z -> Z) (g par bufsz : Z) (items : list Z) (gated : list bool)
           (evs : list lab) : option nat :=
  first_reject (mstep fv) vis lab_eqb st_eqb (tau_labels fv) labels_ev 64
               (close (mstep fv) vis st_eqb (tau_labels fv) 64 [init g par bufsz items gated]) evs O.

End MI.

(* ====================================================================== *)
(*                               MapStream                                *)
(* ====================================================================== *)
Module MS.

Inductive cause := ByError | ByClose | ByParent | ByWait.   (* who cancelled the group's context *)
Inductive gstate := GLive | GDone (c : cause).

Inductive err :=
| EF (k : nat)          (* the error f returned for item k *)
| ESrc                  (* the error the source returned *)
| ECtx (c : cause).     (* ctx.Err() of the group's context (tagged with who cancelled it) *)

Inductive res := RVal (v : Z) | REnd | RErr (e : err) | RCtx.   (* RCtx: the per-call context's error *)

Inductive sout := SoItem (k : nat) | SoEnd | SoErr | SoCtx.     (* what the source's Next returned *)
Inductive fout := FoOk | FoErr | FoCtx.                         (* what f returned *)

Inductive creq := RqNext (j : nat) | RqClose.                   (* controller requests to the consumer *)

Inductive dpc :=
| SPull | SInSrc
| SWait (k : nat)             (* first select: ctx.Done / <-ready *)
| SSend (k : nat)             (* second select: ctx.Done / in <- item *)
| SCloseIn (r : option err)   (* function body returned r; deferred close(in) next *)
| SCloseSrc (r : option err)  (* deferred s.Close() next *)
| SInClose (r : option err)   (* inside the source's Close *)
| SRet (r : option err)       (* errgroup wrapper: record error, wg.Done *)
| SDone.

Inductive wpc :=
| TIdle | THas (k : nat) | TInF (k : nat)
| TSend (k : nat) (v : Z)     (* select: c <- result / ctx.Done *)
| TExit (r : option err)      (* deferred nDone++ / close(c) next *)
| TRet (r : option err)       (* errgroup wrapper *)
| TDone.

Inductive cpc :=
| KIdle
| KLoop (j : nat)             (* inside Next with context j, top of the loop *)
| KPut (j : nat) (v : Z)      (* at  s.ready <- struct{}{}  *)
| KSel (j : nat)              (* select: <-s.c / ctx.Done *)
| KWait                       (* c closed: inside eg.Wait() *)
| KRet (r : res)
| KClose1                     (* inside Close, about to cancel *)
| KClose2                     (* inside Close, in eg.Wait() *)
| KCloseRet
| KClosed.

Record st := mkSt {
  (* configuration *)
  src : list Z; ferr : list bool; serr : bool; buf : nat; fgated : list bool; sgated : list bool;
  (* harness state *)
  frel : list bool; srel : list bool; reqs : list creq; nctx : list bool; pdone : bool;
  (* library state *)
  g : gstate; eg_err : option err; egdone : nat;
  pulled : nat; disp : dpc; tokens : nat; ws : list wpc; in_closed : bool; ndone : nat;
  cbuf : list entry; c_closed : bool; heap : list entry; next : nat; cons : cpc;
  (* ghost *)
  yielded : list Z; taken : nat; ndisp : nat; failed : list nat; srcfailed : bool;
  close_called : bool; src_closed : nat
}.

Inductive lab :=
(* up-calls *)
| LSrcEnter | LSrcExit (o : sout) | LSrcCloseEnter | LSrcCloseExit
| LFEnter (w k : nat) | LFExit (w k : nat) (o : fout)
(* consumer API *)
| LCallNext (j : nat) | LRetNext (r : res) | LCallClose | LRetClose
(* controller *)
| LReq (c : creq) | LReleaseF (k : nat) | LReleaseS (k : nat) | LCancelParent | LCancelNext (j : nat)
| LQuiesce
(* internal: dispatcher *)
| TDReady | TDCtx | TDispatch (w : nat) | TCloseIn | TDRet
(* internal: workers *)
| TInClosed (w : nat) | TWSend (w : nat) | TWCtx (w : nat) | TWExit (w : nat) | TWRet (w : nat)
(* internal: consumer *)
| TLoop | TPut | TRecv | TCClosed | TNextCtx | TWait | TCloseCancel | TCloseWait
(* internal: context package *)
| TParentProp.

Definition cancelG (x : gstate) (c : cause) : gstate := match x with GLive => GDone c | _ => x end.

(* errgroup: the first non-nil error is recorded and cancels the group's context *)
Definition record (r : option err) (e : option err) (x : gstate) : option err * gstate :=
  match r, e with
  | Some a, None => (Some a, cancelG x ByError)
  | _, _ => (e, x)
  end.

Definition cause_eqb (a b : cause) : bool :=
  match a, b with
  | ByError, ByError | ByClose, ByClose | ByParent, ByParent | ByWait, ByWait => true
  | _, _ => false
  end.
Definition err_eqb (a b : err) : bool :=
  match a, b with
  | EF x, EF y => Nat.eqb x y
  | ESrc, ESrc => true
  | ECtx x, ECtx y => cause_eqb x y
  | _, _ => false
  end.
Definition res_eqb (a b : res) : bool :=
  match a, b with
  | RVal x, RVal y => Z.eqb x y
  | REnd, REnd | RCtx, RCtx => true
  | RErr x, RErr y => err_eqb x y
  | _, _ => false
  end.
Definition sout_eqb (a b : sout) : bool :=
  match a, b with
  | SoItem x, SoItem y => Nat.eqb x y
  | SoEnd, SoEnd | SoErr, SoErr | SoCtx, SoCtx => true
  | _, _ => false
  end.

Section Step.
Variable fv : Z -> Z.

(* single-field updates *)
Definition set_disp (s : st) (d : dpc) : st :=
  mkSt (src s) (ferr s) (serr s) (buf s) (fgated s) (sgated s) (frel s) (srel s) (reqs s) (nctx s) (pdone s)
       (g s) (eg_err s) (egdone s) (pulled s) d (tokens s) (ws s) (in_closed s) (ndone s)
       (cbuf s) (c_closed s) (heap s) (next s) (cons s)
       (yielded s) (taken s) (ndisp s) (failed s) (srcfailed s) (close_called s) (src_closed s).
Definition set_w (s : st) (w : nat) (x : wpc) : st :=
  mkSt (src s) (ferr s) (serr s) (buf s) (fgated s) (sgated s) (frel s) (srel s) (reqs s) (nctx s) (pdone s)
       (g s) (eg_err s) (egdone s) (pulled s) (disp s) (tokens s) (upd (ws s) w x) (in_closed s) (ndone s)
       (cbuf s) (c_closed s) (heap s) (next s) (cons s)
       (yielded s) (taken s) (ndisp s) (failed s) (srcfailed s) (close_called s) (src_closed s).
Definition set_cons (s : st) (c : cpc) : st :=
  mkSt (src s) (ferr s) (serr s) (buf s) (fgated s) (sgated s) (frel s) (srel s) (reqs s) (nctx s) (pdone s)
       (g s) (eg_err s) (egdone s) (pulled s) (disp s) (tokens s) (ws s) (in_closed s) (ndone s)
       (cbuf s) (c_closed s) (heap s) (next s) c
       (yielded s) (taken s) (ndisp s) (failed s) (srcfailed s) (close_called s) (src_closed s).
Definition set_g (s : st) (x : gstate) : st :=
  mkSt (src s) (ferr s) (serr s) (buf s) (fgated s) (sgated s) (frel s) (srel s) (reqs s) (nctx s) (pdone s)
       x (eg_err s) (egdone s) (pulled s) (disp s) (tokens s) (ws s) (in_closed s) (ndone s)
       (cbuf s) (c_closed s) (heap s) (next s) (cons s)
       (yielded s) (taken s) (ndisp s) (failed s) (srcfailed s) (close_called s) (src_closed s).
Definition set_harness (s : st) (fr sr : list bool) (rq : list creq) (nc : list bool) (pd : bool) : st :=
  mkSt (src s) (ferr s) (serr s) (buf s) (fgated s) (sgated s) fr sr rq nc pd
       (g s) (eg_err s) (egdone s) (pulled s) (disp s) (tokens s) (ws s) (in_closed s) (ndone s)
       (cbuf s) (c_closed s) (heap s) (next s) (cons s)
       (yielded s) (taken s) (ndisp s) (failed s) (srcfailed s) (close_called s) (src_closed s).

Definition getw (s : st) (w : nat) : option wpc := nth_error (ws s) w.

Definition step (s : st) (l : lab) : option st :=
  match l with
  (* ---------------- dispatcher ---------------- *)
  | LSrcEnter => match disp s with SPull => Some (set_disp s SInSrc) | _ => None end
  | LSrcExit o =>
      match disp s with
      | SInSrc =>
          match o with
          | SoItem k =>
              if Nat.eqb k (pulled s) && (pulled s <? length (src s))%nat && nthb (srel s) (pulled s)
              then Some (mkSt (src s) (ferr s) (serr s) (buf s) (fgated s) (sgated s) (frel s) (srel s) (reqs s)
                              (nctx s) (pdone s) (g s) (eg_err s) (egdone s) (S (pulled s)) (SWait k) (tokens s)
                              (ws s) (in_closed s) (ndone s) (cbuf s) (c_closed s) (heap s) (next s) (cons s)
                              (yielded s) (taken s) (ndisp s) (failed s) (srcfailed s) (close_called s) (src_closed s))
              else None
          | SoEnd =>
              if Nat.eqb (pulled s) (length (src s)) && negb (serr s) && nthb (srel s) (pulled s)
              then Some (set_disp s (SCloseIn None)) else None
          | SoErr =>
              if Nat.eqb (pulled s) (length (src s)) && serr s && nthb (srel s) (pulled s)
              then Some (mkSt (src s) (ferr s) (serr s) (buf s) (fgated s) (sgated s) (frel s) (srel s) (reqs s)
                              (nctx s) (pdone s) (g s) (eg_err s) (egdone s) (pulled s) (SCloseIn (Some ESrc)) (tokens s)
                              (ws s) (in_closed s) (ndone s) (cbuf s) (c_closed s) (heap s) (next s) (cons s)
                              (yielded s) (taken s) (ndisp s) (failed s) true (close_called s) (src_closed s))
              else None
          | SoCtx =>
              (* a gated source waits for its gate or for the context it was given *)
              match g s with
              | GDone c => if nthb (sgated s) (pulled s) then Some (set_disp s (SCloseIn (Some (ECtx c)))) else None
              | GLive => None
              end
          end
      | _ => None
      end
  | TDReady =>
      match disp s, tokens s with
      | SWait k, S t =>
          Some (mkSt (src s) (ferr s) (serr s) (buf s) (fgated s) (sgated s) (frel s) (srel s) (reqs s)
                     (nctx s) (pdone s) (g s) (eg_err s) (egdone s) (pulled s) (SSend k) t
                     (ws s) (in_closed s) (ndone s) (cbuf s) (c_closed s) (heap s) (next s) (cons s)
                     (yielded s) (S (taken s)) (ndisp s) (failed s) (srcfailed s) (close_called s) (src_closed s))
      | _, _ => None
      end
  | TDCtx =>
      match disp s, g s with
      | SWait _, GDone c | SSend _, GDone c => Some (set_disp s (SCloseIn (Some (ECtx c))))
      | _, _ => None
      end
  | TDispatch w =>
      match disp s, getw s w with
      | SSend k, Some TIdle =>
          Some (mkSt (src s) (ferr s) (serr s) (buf s) (fgated s) (sgated s) (frel s) (srel s) (reqs s)
                     (nctx s) (pdone s) (g s) (eg_err s) (egdone s) (pulled s) SPull (tokens s)
                     (upd (ws s) w (THas k)) (in_closed s) (ndone s) (cbuf s) (c_closed s) (heap s) (next s) (cons s)
                     (yielded s) (taken s) (S (ndisp s)) (failed s) (srcfailed s) (close_called s) (src_closed s))
      | _, _ => None
      end
  | TCloseIn =>
      match disp s with
      | SCloseIn r =>
          Some (mkSt (src s) (ferr s) (serr s) (buf s) (fgated s) (sgated s) (frel s) (srel s) (reqs s)
                     (nctx s) (pdone s) (g s) (eg_err s) (egdone s) (pulled s) (SCloseSrc r) (tokens s)
                     (ws s) true (ndone s) (cbuf s) (c_closed s) (heap s) (next s) (cons s)
                     (yielded s) (taken s) (ndisp s) (failed s) (srcfailed s) (close_called s) (src_closed s))
      | _ => None
      end
  | LSrcCloseEnter =>
      match disp s with
      | SCloseSrc r =>
          Some (mkSt (src s) (ferr s) (serr s) (buf s) (fgated s) (sgated s) (frel s) (srel s) (reqs s)
                     (nctx s) (pdone s) (g s) (eg_err s) (egdone s) (pulled s) (SInClose r) (tokens s)
                     (ws s) (in_closed s) (ndone s) (cbuf s) (c_closed s) (heap s) (next s) (cons s)
                     (yielded s) (taken s) (ndisp s) (failed s) (srcfailed s) (close_called s) (S (src_closed s)))
      | _ => None
      end
  | LSrcCloseExit => match disp s with SInClose r => Some (set_disp s (SRet r)) | _ => None end
  | TDRet =>
      match disp s with
      | SRet r =>
          let '(e, x) := record r (eg_err s) (g s) in
          Some (mkSt (src s) (ferr s) (serr s) (buf s) (fgated s) (sgated s) (frel s) (srel s) (reqs s)
                     (nctx s) (pdone s) x e (S (egdone s)) (pulled s) SDone (tokens s)
                     (ws s) (in_closed s) (ndone s) (cbuf s) (c_closed s) (heap s) (next s) (cons s)
                     (yielded s) (taken s) (ndisp s) (failed s) (srcfailed s) (close_called s) (src_closed s))
      | _ => None
      end
  (* ---------------- workers ---------------- *)
  | TInClosed w =>
      match getw s w with
      | Some TIdle => if in_closed s then Some (set_w s w (TExit None)) else None
      | _ => None
      end
  | LFEnter w k =>
      match getw s w with
      | Some (THas k') => if Nat.eqb k k' then Some (set_w s w (TInF k)) else None
      | _ => None
      end
  | LFExit w k o =>
      match getw s w with
      | Some (TInF k') =>
          if Nat.eqb k k' then
            match o with
            | FoOk =>
                if nthb (frel s) k && negb (nthb (ferr s) k)
                then Some (set_w s w (TSend k (fv (nth k (src s) 0)))) else None
            | FoErr =>
                if nthb (frel s) k && nthb (ferr s) k
                then Some (mkSt (src s) (ferr s) (serr s) (buf s) (fgated s) (sgated s) (frel s) (srel s) (reqs s)
                                (nctx s) (pdone s) (g s) (eg_err s) (egdone s) (pulled s) (disp s) (tokens s)
                                (upd (ws s) w (TExit (Some (EF k)))) (in_closed s) (ndone s) (cbuf s) (c_closed s)
                                (heap s) (next s) (cons s)
                                (yielded s) (taken s) (ndisp s) (k :: failed s) (srcfailed s) (close_called s) (src_closed s))
                else None
            | FoCtx =>
                match g s with
                | GDone c =>
                    if nthb (fgated s) k
                    then Some (mkSt (src s) (ferr s) (serr s) (buf s) (fgated s) (sgated s) (frel s) (srel s) (reqs s)
                                    (nctx s) (pdone s) (g s) (eg_err s) (egdone s) (pulled s) (disp s) (tokens s)
                                    (upd (ws s) w (TExit (Some (ECtx c)))) (in_closed s) (ndone s) (cbuf s) (c_closed s)
                                    (heap s) (next s) (cons s)
                                    (yielded s) (taken s) (ndisp s) (k :: failed s) (srcfailed s) (close_called s) (src_closed s))
                    else None
                | GLive => None
                end
            end
          else None
      | _ => None
      end
  | TWSend w =>
      match getw s w with
      | Some (TSend k v) =>
          if (length (cbuf s) <? buf s)%nat
          then Some (mkSt (src s) (ferr s) (serr s) (buf s) (fgated s) (sgated s) (frel s) (srel s) (reqs s)
                          (nctx s) (pdone s) (g s) (eg_err s) (egdone s) (pulled s) (disp s) (tokens s)
                          (upd (ws s) w TIdle) (in_closed s) (ndone s) (cbuf s ++ [(k, v)]) (c_closed s)
                          (heap s) (next s) (cons s)
                          (yielded s) (taken s) (ndisp s) (failed s) (srcfailed s) (close_called s) (src_closed s))
          else None
      | _ => None
      end
  | TWCtx w =>
      match getw s w, g s with
      | Some (TSend k v), GDone c => Some (set_w s w (TExit (Some (ECtx c))))
      | _, _ => None
      end
  | TWExit w =>
      match getw s w with
      | Some (TExit r) =>
          Some (mkSt (src s) (ferr s) (serr s) (buf s) (fgated s) (sgated s) (frel s) (srel s) (reqs s)
                     (nctx s) (pdone s) (g s) (eg_err s) (egdone s) (pulled s) (disp s) (tokens s)
                     (upd (ws s) w (TRet r)) (in_closed s) (S (ndone s)) (cbuf s)
                     (c_closed s || Nat.eqb (S (ndone s)) (length (ws s)))
                     (heap s) (next s) (cons s)
                     (yielded s) (taken s) (ndisp s) (failed s) (srcfailed s) (close_called s) (src_closed s))
      | _ => None
      end
  | TWRet w =>
      match getw s w with
      | Some (TRet r) =>
          let '(e, x) := record r (eg_err s) (g s) in
          Some (mkSt (src s) (ferr s) (serr s) (buf s) (fgated s) (sgated s) (frel s) (srel s) (reqs s)
                     (nctx s) (pdone s) x e (S (egdone s)) (pulled s) (disp s) (tokens s)
                     (upd (ws s) w TDone) (in_closed s) (ndone s) (cbuf s) (c_closed s)
                     (heap s) (next s) (cons s)
                     (yielded s) (taken s) (ndisp s) (failed s) (srcfailed s) (close_called s) (src_closed s))
      | _ => None
      end
  (* ---------------- consumer ---------------- *)
  | LCallNext j =>
      match cons s, reqs s with
      | KIdle, RqNext j' :: rq =>
          if Nat.eqb j j'
          then Some (set_cons (set_harness s (frel s) (srel s) rq (nctx s) (pdone s)) (KLoop j)) else None
      | _, _ => None
      end
  | TLoop =>
      match cons s with
      | KLoop j =>
          match heap s with
          | (k, v) :: t =>
              if Nat.eqb k (next s)
              then Some (mkSt (src s) (ferr s) (serr s) (buf s) (fgated s) (sgated s) (frel s) (srel s) (reqs s)
                              (nctx s) (pdone s) (g s) (eg_err s) (egdone s) (pulled s) (disp s) (tokens s)
                              (ws s) (in_closed s) (ndone s) (cbuf s) (c_closed s) t (S (next s)) (KPut j v)
                              (yielded s ++ [v]) (taken s) (ndisp s) (failed s) (srcfailed s) (close_called s)
                              (src_closed s))
              else Some (set_cons s (KSel j))
          | [] => Some (set_cons s (KSel j))
          end
      | _ => None
      end
  | TPut =>
      match cons s with
      | KPut j v =>
          if (tokens s <? buf s)%nat
          then Some (mkSt (src s) (ferr s) (serr s) (buf s) (fgated s) (sgated s) (frel s) (srel s) (reqs s)
                          (nctx s) (pdone s) (g s) (eg_err s) (egdone s) (pulled s) (disp s) (S (tokens s))
                          (ws s) (in_closed s) (ndone s) (cbuf s) (c_closed s) (heap s) (next s) (KRet (RVal v))
                          (yielded s) (taken s) (ndisp s) (failed s) (srcfailed s) (close_called s) (src_closed s))
          else None
      | _ => None
      end
  | TRecv =>
      match cons s, cbuf s with
      | KSel j, x :: t =>
          Some (mkSt (src s) (ferr s) (serr s) (buf s) (fgated s) (sgated s) (frel s) (srel s) (reqs s)
                     (nctx s) (pdone s) (g s) (eg_err s) (egdone s) (pulled s) (disp s) (tokens s)
                     (ws s) (in_closed s) (ndone s) t (c_closed s) (hpush x (heap s)) (next s) (KLoop j)
                     (yielded s) (taken s) (ndisp s) (failed s) (srcfailed s) (close_called s) (src_closed s))
      | _, _ => None
      end
  | TCClosed =>
      match cons s, cbuf s with
      | KSel j, [] => if c_closed s then Some (set_cons s KWait) else None
      | _, _ => None
      end
  | TNextCtx =>
      match cons s with
      | KSel j => if nthb (nctx s) j then Some (set_cons s (KRet RCtx)) else None
      | _ => None
      end
  | TWait =>
      match cons s with
      | KWait =>
          if Nat.eqb (egdone s) (S (length (ws s)))
          then Some (set_cons (set_g s (cancelG (g s) ByWait))
                              (KRet (match eg_err s with Some e => RErr e | None => REnd end)))
          else None
      | _ => None
      end
  | LRetNext r =>
      match cons s with
      | KRet r' => if res_eqb r r' then Some (set_cons s KIdle) else None
      | _ => None
      end
  | LCallClose =>
      match cons s, reqs s with
      | KIdle, RqClose :: rq => Some (set_cons (set_harness s (frel s) (srel s) rq (nctx s) (pdone s)) KClose1)
      | _, _ => None
      end
  | TCloseCancel =>
      match cons s with
      | KClose1 =>
          Some (mkSt (src s) (ferr s) (serr s) (buf s) (fgated s) (sgated s) (frel s) (srel s) (reqs s)
                     (nctx s) (pdone s) (cancelG (g s) ByClose) (eg_err s) (egdone s) (pulled s) (disp s) (tokens s)
                     (ws s) (in_closed s) (ndone s) (cbuf s) (c_closed s) (heap s) (next s) KClose2
                     (yielded s) (taken s) (ndisp s) (failed s) (srcfailed s) true (src_closed s))
      | _ => None
      end
  | TCloseWait =>
      match cons s with
      | KClose2 =>
          if Nat.eqb (egdone s) (S (length (ws s)))
          then Some (set_cons (set_g s (cancelG (g s) ByWait)) KCloseRet) else None
      | _ => None
      end
  | LRetClose => match cons s with KCloseRet => Some (set_cons s KClosed) | _ => None end
  (* ---------------- controller / contexts ---------------- *)
  | LReq c => Some (set_harness s (frel s) (srel s) (reqs s ++ [c]) (nctx s) (pdone s))
  | LReleaseF k => Some (set_harness s (upd (frel s) k true) (srel s) (reqs s) (nctx s) (pdone s))
  | LReleaseS k => Some (set_harness s (frel s) (upd (srel s) k true) (reqs s) (nctx s) (pdone s))
  | LCancelParent => Some (set_harness s (frel s) (srel s) (reqs s) (nctx s) true)
  | LCancelNext j => Some (set_harness s (frel s) (srel s) (reqs s) (upd (nctx s) j true) (pdone s))
  | TParentProp =>
      match g s with
      | GLive => if pdone s then Some (set_g s (GDone ByParent)) else None
      | _ => None
      end
  | LQuiesce => None
  end.

Definition tau_all (s : st) : list lab :=
  [TDReady; TDCtx; TCloseIn; TDRet; TLoop; TPut; TRecv; TCClosed; TNextCtx; TWait; TCloseCancel; TCloseWait;
   TParentProp]
  ++ flat_map (fun w => [TDispatch w; TInClosed w; TWSend w; TWCtx w; TWExit w; TWRet w]) (seq 0 (length (ws s))).

Definition lib_visible (s : st) : list lab :=
  [LSrcEnter; LSrcExit (SoItem (pulled s)); LSrcExit SoEnd; LSrcExit SoErr; LSrcExit SoCtx;
   LSrcCloseEnter; LSrcCloseExit; LCallClose; LRetClose]
  ++ match reqs s with RqNext j :: _ => [LCallNext j] | _ => [] end
  ++ match cons s with KRet r => [LRetNext r] | _ => [] end
  ++ flat_map (fun w => match nth_error (ws s) w with
                        | Some (THas k) => [LFEnter w k]
                        | Some (TInF k) => [LFExit w k FoOk; LFExit w k FoErr; LFExit w k FoCtx]
                        | _ => [] end) (seq 0 (length (ws s))).

Definition enabled (s : st) (l : lab) : bool := match step s l with Some _ => true | None => false end.

Definition quiescent (s : st) : bool :=
  negb (existsb (enabled s) (tau_all s)) && negb (existsb (enabled s) (lib_visible s)).

Definition qstep (s : st) (l : lab) : option st :=
  match l with
  | LQuiesce => if quiescent s then Some s else None
  | _ => step s l
  end.

(* library labels: internal steps of the library's goroutines and of Next/Close, the up-call entries and
   the API returns.  Environment: the up-calls returning ([LSrcExit], [LSrcCloseExit], [LFExit]) and
   the context package ([TParentProp]).  Controller: the rest. *)
Definition is_lib (l : lab) : bool :=
  match l with
  | LSrcEnter | LSrcCloseEnter | LFEnter _ _ | LRetNext _ | LRetClose
  | TDReady | TDCtx | TDispatch _ | TCloseIn | TDRet
  | TInClosed _ | TWSend _ | TWCtx _ | TWExit _ | TWRet _
  | TLoop | TPut | TRecv | TCClosed | TNextCtx | TWait | TCloseCancel | TCloseWait => true
  | _ => false
  end.
(* the environment returning from an up-call *)
Definition is_env (l : lab) : bool :=
  match l with LSrcExit _ | LSrcCloseExit | LFExit _ _ _ => true | _ => false end.

End Step.

(* ---- events: labels with unobservable data erased (worker ids; who cancelled the group's
        context when the error value is context.Canceled: the library's own cancellations and
        Close are indistinguishable by value, the caller's context has its own error value) ---- *)
Definition canon_cause (c : cause) : cause := match c with ByParent => ByParent | _ => ByClose end.
Definition canon_res (r : res) : res :=
  match r with RErr (ECtx c) => RErr (ECtx (canon_cause c)) | _ => r end.

Definition vis (l : lab) : option lab :=
  match l with
  | LSrcEnter | LSrcExit _ | LSrcCloseEnter | LSrcCloseExit | LCallNext _ | LCallClose | LRetClose
  | LReq _ | LReleaseF _ | LReleaseS _ | LCancelParent | LCancelNext _ | LQuiesce => Some l
  | LRetNext r => Some (LRetNext (canon_res r))
  | LFEnter _ k => Some (LFEnter 0 k)
  | LFExit _ k o => Some (LFExit 0 k o)
  | _ => None
  end.

Definition fout_eqb (a b : fout) : bool :=
  match a, b with FoOk, FoOk | FoErr, FoErr | FoCtx, FoCtx => true | _, _ => false end.
Definition creq_eqb (a b : creq) : bool :=
  match a, b with RqNext x, RqNext y => Nat.eqb x y | RqClose, RqClose => true | _, _ => false end.

Definition lab_eqb (a b : lab) : bool :=
  match a, b with
  | LSrcEnter, LSrcEnter | LSrcCloseEnter, LSrcCloseEnter | LSrcCloseExit, LSrcCloseExit
  | LCallClose, LCallClose | LRetClose, LRetClose | LCancelParent, LCancelParent | LQuiesce, LQuiesce => true
  | LSrcExit x, LSrcExit y => sout_eqb x y
  | LFEnter w k, LFEnter w' k' => Nat.eqb w w' && Nat.eqb k k'
  | LFExit w k o, LFExit w' k' o' => Nat.eqb w w' && Nat.eqb k k' && fout_eqb o o'
  | LCallNext x, LCallNext y | LReleaseF x, LReleaseF y | LReleaseS x, LReleaseS y
  | LCancelNext x, LCancelNext y => Nat.eqb x y
  | LRetNext x, LRetNext y => res_eqb x y
  | LReq x, LReq y => creq_eqb x y
  | _, _ => false
  end.

Definition gstate_eqb (a b : gstate) : bool :=
  match a, b with GLive, GLive => true | GDone x, GDone y => cause_eqb x y | _, _ => false end.
Definition opterr_eqb (a b : option err) : bool :=
  match a, b with None, None => true | Some x, Some y => err_eqb x y | _, _ => false end.
Definition dpc_eqb (a b : dpc) : bool :=
  match a, b with
  | SPull, SPull | SInSrc, SInSrc | SDone, SDone => true
  | SWait x, SWait y | SSend x, SSend y => Nat.eqb x y
  | SCloseIn x, SCloseIn y | SCloseSrc x, SCloseSrc y | SInClose x, SInClose y | SRet x, SRet y => opterr_eqb x y
  | _, _ => false
  end.
Definition wpc_eqb (a b : wpc) : bool :=
  match a, b with
  | TIdle, TIdle | TDone, TDone => true
  | THas x, THas y | TInF x, TInF y => Nat.eqb x y
  | TSend x v, TSend y u => Nat.eqb x y && Z.eqb v u
  | TExit x, TExit y | TRet x, TRet y => opterr_eqb x y
  | _, _ => false
  end.
Definition cpc_eqb (a b : cpc) : bool :=
  match a, b with
  | KIdle, KIdle | KWait, KWait | KClose1, KClose1 | KClose2, KClose2 | KCloseRet, KCloseRet
  | KClosed, KClosed => true
  | KLoop x, KLoop y | KSel x, KSel y => Nat.eqb x y
  | KPut x v, KPut y u => Nat.eqb x y && Z.eqb v u
  | KRet x, KRet y => res_eqb x y
  | _, _ => false
  end.
Definition st_eqb (a b : st) : bool :=
  list_eqb wpc_eqb (ws a) (ws b) &&& dpc_eqb (disp a) (disp b) &&& cpc_eqb (cons a) (cons b)
  &&& list_eqb entry_eqb (cbuf a) (cbuf b) &&& list_eqb entry_eqb (heap a) (heap b)
  &&& gstate_eqb (g a) (g b) &&& opterr_eqb (eg_err a) (eg_err b) &&& Nat.eqb (egdone a) (egdone b)
  &&& Nat.eqb (tokens a) (tokens b) &&& Nat.eqb (next a) (next b) &&& Nat.eqb (pulled a) (pulled b)
  &&& Bool.eqb (in_closed a) (in_closed b) &&& Nat.eqb (ndone a) (ndone b) &&& Bool.eqb (c_closed a) (c_closed b)
  &&& list_eqb creq_eqb (reqs a) (reqs b) &&& list_eqb Bool.eqb (frel a) (frel b)
  &&& list_eqb Bool.eqb (srel a) (srel b) &&& list_eqb Bool.eqb (nctx a) (nctx b) &&& Bool.eqb (pdone a) (pdone b)
  &&& Nat.eqb (taken a) (taken b) &&& Nat.eqb (ndisp a) (ndisp b) &&& list_eqb Nat.eqb (failed a) (failed b)
  &&& Bool.eqb (srcfailed a) (srcfailed b) &&& Bool.eqb (close_called a) (close_called b)
  &&& Nat.eqb (src_closed a) (src_closed b) &&& list_eqb Z.eqb (yielded a) (yielded b)
  &&& Nat.eqb (buf a) (buf b) &&& Bool.eqb (serr a) (serr b) &&& list_eqb Z.eqb (src a) (src b)
  &&& list_eqb Bool.eqb (ferr a) (ferr b) &&& list_eqb Bool.eqb (fgated a) (fgated b)
  &&& list_eqb Bool.eqb (sgated a) (sgated b).

(* scenario configuration *)
Record cfg := mkCfg {
  c_gomaxprocs : Z; c_par : Z; c_bufsz : Z;
  c_items : list Z; c_ferr : list bool; c_serr : bool;
  c_fgated : list bool; c_sgated : list bool;     (* f gated per item; source gated per pull 0..n *)
  c_nctx : nat                                    (* number of per-call contexts *)
}.

(* the state right after MapStream(ctx, s, parallelism, bufferSize, f) returned: [ready] is full *)
Definition init (c : cfg) : st :=
  let p := norm_par (c_gomaxprocs c) (c_par c) in
  let b := Z.to_nat (norm_buf p (c_bufsz c)) in
  mkSt (c_items c) (c_ferr c) (c_serr c) b (c_fgated c) (c_sgated c)
       (map negb (c_fgated c)) (map negb (c_sgated c)) [] (repeat false (c_nctx c)) false
       GLive None 0 0 SPull b (repeat TIdle (Z.to_nat p)) false 0 [] false [] 0 KIdle
       [] 0 0 [] false false 0.

(* ---- reductions used by the matcher only (see MI): sorted worker list, dispatch to the first idle
   worker, and eager internal steps that never disable another label and commute with every
   other label, now and in every future (each is the only possible next step of its thread, is not an
   arm of a select, and touches nothing another thread tests for being disabled): [TCloseIn],
   [TInClosed w], [TWExit w], [TLoop], [TPut], [TWait], [TCloseWait] and the errgroup bookkeeping
   ([TDRet], [TWRet w]) of a goroutine that returned nil.  Arms of a select are never taken eagerly.
   In addition the matcher keeps the channel buffer [c] sorted by index: the order inside [c] is not
   observable (the consumer pushes whatever it receives into the heap and returns only when the
   next index is there), and [c] is never full when a worker wants to send (at most bufferSize
   items hold a token: see MSP.Inv in ParMapProofs.v), so the FIFO order changes no visible event. *)
Definition erank (r : option err) : nat :=
  match r with
  | None => 0 | Some (ECtx ByError) => 1 | Some (ECtx ByClose) => 2 | Some (ECtx ByParent) => 3
  | Some (ECtx ByWait) => 4 | Some ESrc => 5 | Some (EF k) => 6 + k
  end%nat.
Definition wrank (x : wpc) : nat * nat :=
  match x with
  | TIdle => (0, 0) | THas k => (1, k) | TInF k => (2, k) | TSend k _ => (3, k)
  | TExit r => (4, erank r) | TRet r => (5, erank r) | TDone => (6, 0)
  end%nat.
Definition wle (a b : wpc) : bool :=
  let '(r1, k1) := wrank a in let '(r2, k2) := wrank b in
  (r1 <? r2)%nat || ((r1 =? r2)%nat && (k1 <=? k2)%nat).
Fixpoint winsert (x : wpc) (l : list wpc) : list wpc :=
  match l with [] => [x] | y :: t => if wle x y then x :: l else y :: winsert x t end.
Definition wsort (l : list wpc) : list wpc := fold_right winsert [] l.
Definition canon (s : st) : st :=
  mkSt (src s) (ferr s) (serr s) (buf s) (fgated s) (sgated s) (frel s) (srel s) (reqs s) (nctx s) (pdone s)
       (g s) (eg_err s) (egdone s) (pulled s) (disp s) (tokens s) (wsort (ws s)) (in_closed s) (ndone s)
       (fold_right hpush [] (cbuf s)) (c_closed s) (heap s) (next s) (cons s)
       (yielded s) (taken s) (ndisp s) (failed s) (srcfailed s) (close_called s) (src_closed s).
Definition mstep (fv : Z -> Z) (s : st) (l : lab) : option st :=
  match qstep fv s l with Some s' => Some (canon s') | None => None end.

Fixpoint first_idle (l : list wpc) (i : nat) : list nat :=
  match l with
  | [] => []
  | TIdle :: _ => [i]
  | _ :: t => first_idle t (S i)
  end.
Definition eager_labels (s : st) : list lab :=
  [TCloseIn; TLoop; TPut; TWait; TCloseWait]
  ++ match disp s with SRet None => [TDRet] | _ => [] end
  ++ flat_map (fun w => [TInClosed w; TWExit w]
                        ++ match nth_error (ws s) w with Some (TRet None) => [TWRet w] | _ => [] end)
              (seq 0 (length (ws s))).
Definition tau_labels (fv : Z -> Z) (s : st) : list lab :=
  match filter (enabled fv s) (eager_labels s) with
  | l :: _ => [l]
  | [] =>
      [TDReady; TDCtx; TDRet; TRecv; TCClosed; TNextCtx; TWait; TCloseCancel; TCloseWait; TParentProp]
      ++ map TDispatch (first_idle (ws s) 0)
      ++ flat_map (fun w => [TWSend w; TWCtx w; TWRet w]) (seq 0 (length (ws s)))
  end.

Definition labels_ev (s : st) (e : lab) : list lab :=
  match e with
  | LFEnter _ k => map (fun w => LFEnter w k) (seq 0 (length (ws s)))
  | LFExit _ k o => map (fun w => LFExit w k o) (seq 0 (length (ws s)))
  | LRetNext (RErr (ECtx ByClose)) =>
      [LRetNext (RErr (ECtx ByClose)); LRetNext (RErr (ECtx ByError)); LRetNext (RErr (ECtx ByWait))]
  | _ => [e]
  end.

Definition accepts_history (fv : Z -> Z) (c : cfg) (evs : list lab) : bool :=
  accepts (mstep fv) vis lab_eqb st_eqb (tau_labels fv) labels_ev 64 (init c) evs.

Definition first_rejected (fv : Z -> Z) (c : cfg) (evs : list lab) : option nat :=
  first_reject (mstep fv) vis lab_eqb st_eqb (tau_labels fv) labels_ev 64
               (close (mstep fv) vis st_eqb (tau_labels fv) 64 [init c]) evs O.

End MS.
