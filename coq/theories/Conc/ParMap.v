(* C14 — LTS models of parallel.MapIterator and parallel.MapStream (parallel/parallel.go) together
   with the scenario harness (harness_parmap/parmap.go).  Model only (no proofs here).

   Two transition systems: module [MI] (MapIterator + mapIterator.Next) and module [MS] (MapStream +
   mapStream.Next/Close).  Threads: the dispatcher goroutine, [p] worker goroutines, the consumer
   (one goroutine of the harness that executes the Next/Close calls requested by the controller),
   and the sequential controller (requests, gate releases, context cancellations, quiescence).

   Granularity (DESIGN.md A2.7 / spike/CONC_RULES.md):
   * the two critical sections of MapIterator under [mIter.m] contain no blocking operation other
     than [cond.Wait] and are single steps: the dispatcher's  lock; for inFlight >= bufferSize
     { Wait }; inFlight++; unlock  is [TAcquire] (it either parks — Wait releases the mutex and parks
     atomically — or increments); the consumer's  lock; inFlight--; if inFlight == bufferSize-1
     { Signal }; unlock  is part of [TLoop].  Signal wakes the dispatcher only if it is parked at
     that moment (a Signal without a parked waiter is lost), and a woken dispatcher re-evaluates the
     loop condition.
   * consumer-local work (Peek/Pop/Push on the re-order heap, i++) is merged with the next
     shared-memory operation of the consumer; the heap is touched by the consumer only.
   * unbuffered channels [in] and [ch]: a send and a receive rendezvous in one joint step
     ([TDispatch w], [TResult w]); buffered channels ([ready], [c]) are a token counter and a FIFO
     list with capacity; a receive from / a select on a channel is enabled exactly when Go's
     operation can complete (parking is implicit: the thread simply has no enabled step);
     a [select] with several ready arms may take any of them (one label per arm).
   * [atomic.AddUint32(&nDone, 1) == parallelism] followed by [close] is one step ([TWorkerDone]):
     nDone is read by nobody else and only the last worker closes.
   * the re-order buffer [xheap.Heap] keyed by [idx] is an ideal priority queue (a list kept sorted
     by index: Push = sorted insertion, Peek = head, Pop = tail); justified by property C05.
   * errgroup (golang.org/x/sync v0.0.0-20210220032951): Go = wg.Add(1) + goroutine; when the
     function returns a non-nil error, errOnce records the first one and cancels the derived
     context (one step, [TDRet]/[TWRet]: nobody reads g.err before wg.Wait returns); wg.Done after
     that; Wait = wg.Wait, cancel, return g.err.
   * contexts: the caller's context P (cancelled by the controller), W = WithCancel(P) (cancelled by
     Close), G = errgroup's context derived from W.  The library observes only G.  [gctx] is
     [GLive] or [GDone cause]; cancelling W cancels G synchronously; the cancellation of P reaches
     W/G through the context package's propagation goroutine ([TParentProp]).  Each call of Next has
     its own context (index j), cancelled by the controller.

   Values: source item k carries the value [nth k src 0]; its result is [fv] of that value. *)
From Juniper Require Import Common.Base Conc.GoLTS.
From Coq Require Import Arith PeanoNat.

(* ---- parameter normalisation, as at the top of MapIterator / MapStream ---- *)
Definition norm_par (gomaxprocs parallelism : Z) : Z :=
  if parallelism <=? 0 then gomaxprocs else parallelism.
Definition norm_buf (par bufferSize : Z) : Z :=
  if bufferSize <? par then par else bufferSize.

(* ---- the re-order buffer: ideal priority queue keyed by index ---- *)
Definition entry := (nat * Z)%type.

Fixpoint hpush (x : entry) (h : list entry) : list entry :=
  match h with
  | [] => [x]
  | y :: t => if (fst x <=? fst y)%nat then x :: h else y :: hpush x t
  end.

(* ---- small equality helpers for the matcher ---- *)
Fixpoint list_eqb {A} (eqb : A -> A -> bool) (a b : list A) : bool :=
  match a, b with
  | [], [] => true
  | x :: a', y :: b' => eqb x y && list_eqb eqb a' b'
  | _, _ => false
  end.
Definition entry_eqb (a b : entry) : bool := Nat.eqb (fst a) (fst b) && Z.eqb (snd a) (snd b).
Definition optZ_eqb (a b : option Z) : bool :=
  match a, b with None, None => true | Some x, Some y => Z.eqb x y | _, _ => false end.
Definition optnat_eqb (a b : option nat) : bool :=
  match a, b with None, None => true | Some x, Some y => Nat.eqb x y | _, _ => false end.

Definition nthb (l : list bool) (k : nat) : bool := nth k l false.

(* ====================================================================== *)
(*                              MapIterator                               *)
(* ====================================================================== *)
Module MI.

Inductive dpc :=
| DPull                 (* about to call iter.Next() *)
| DInSrc                (* inside iter.Next() (harness code) *)
| DAcq (k : nat)        (* has item k; at m.Lock() / re-evaluating the Wait loop *)
| DParked (k : nat)     (* parked in cond.Wait() *)
| DSend (k : nat)       (* inFlight++ done; at  in <- item  *)
| DCloseIn              (* source exhausted; about to close(in) *)
| DDone.

Inductive wpc :=
| WIdle                 (* at  range in  *)
| WHas (k : nat)        (* received item k; about to call f *)
| WInF (k : nat)        (* inside f (harness code, gated) *)
| WSend (k : nat) (v : Z)   (* at  mIter.ch <- result  *)
| WExit                 (* left the loop; about to add to nDone *)
| WDone.

Inductive cpc :=
| CIdle                 (* not inside Next *)
| CLoop                 (* inside Next, at the top of the loop *)
| CRecv                 (* at  <-iter.ch  *)
| CRet (r : option Z).  (* about to return (value, true) or (zero, false) *)

Record st := mkSt {
  src : list Z;           (* configuration: the source's items *)
  buf : Z;                (* configuration: bufferSize after normalisation *)
  rel : list bool;        (* gate of f for item k released? (ungated items start released) *)
  reqs : nat;             (* Next calls requested by the controller, not yet started *)
  pulled : nat;           (* items the source has returned *)
  disp : dpc;
  inflight : Z;
  ws : list wpc;
  in_closed : bool;
  ndone : nat;
  ch_closed : bool;
  heap : list entry;
  next : nat;             (* iter.i *)
  cons : cpc;
  yielded : list Z        (* ghost: values returned by Next so far *)
}.

Inductive lab :=
(* visible: up-calls *)
| LSrcEnter | LSrcExit (r : option nat)       (* Some k: item k returned; None: exhausted *)
| LFEnter (w k : nat) | LFExit (w k : nat)    (* the worker id is not observable: see [vis] *)
(* visible: consumer API calls *)
| LCallNext | LRetNext (r : option Z)
(* visible: controller *)
| LReqNext | LRelease (k : nat) | LQuiesce
(* internal *)
| TAcquire                (* dispatcher critical section: park or inFlight++ *)
| TDispatch (w : nat)     (* rendezvous on [in] with idle worker w *)
| TCloseIn
| TInClosed (w : nat)     (* worker w sees [in] closed *)
| TWorkerDone (w : nat)   (* nDone++, the last one closes [ch] *)
| TLoop                   (* consumer: pop-and-release-slot, or go on to receive *)
| TResult (w : nat)       (* rendezvous on [ch]: consumer receives from worker w and pushes *)
| TChClosed.              (* consumer sees [ch] closed *)

Section Step.
Variable fv : Z -> Z.

Definition set_disp (s : st) (d : dpc) : st :=
  mkSt (src s) (buf s) (rel s) (reqs s) (pulled s) d (inflight s) (ws s) (in_closed s) (ndone s)
       (ch_closed s) (heap s) (next s) (cons s) (yielded s).
Definition set_w (s : st) (w : nat) (x : wpc) : st :=
  mkSt (src s) (buf s) (rel s) (reqs s) (pulled s) (disp s) (inflight s) (upd (ws s) w x) (in_closed s)
       (ndone s) (ch_closed s) (heap s) (next s) (cons s) (yielded s).
Definition set_cons (s : st) (c : cpc) : st :=
  mkSt (src s) (buf s) (rel s) (reqs s) (pulled s) (disp s) (inflight s) (ws s) (in_closed s) (ndone s)
       (ch_closed s) (heap s) (next s) c (yielded s).

Definition getw (s : st) (w : nat) : option wpc := nth_error (ws s) w.

Definition step (s : st) (l : lab) : option st :=
  match l with
  | LSrcEnter => match disp s with DPull => Some (set_disp s DInSrc) | _ => None end
  | LSrcExit r =>
      match disp s with
      | DInSrc =>
          if (pulled s <? length (src s))%nat
          then if optnat_eqb r (Some (pulled s))
               then Some (mkSt (src s) (buf s) (rel s) (reqs s) (S (pulled s)) (DAcq (pulled s)) (inflight s)
                               (ws s) (in_closed s) (ndone s) (ch_closed s) (heap s) (next s) (cons s) (yielded s))
               else None
          else if optnat_eqb r None then Some (set_disp s DCloseIn) else None
      | _ => None
      end
  | TAcquire =>
      match disp s with
      | DAcq k =>
          if inflight s >=? buf s then Some (set_disp s (DParked k))
          else Some (mkSt (src s) (buf s) (rel s) (reqs s) (pulled s) (DSend k) (inflight s + 1) (ws s)
                          (in_closed s) (ndone s) (ch_closed s) (heap s) (next s) (cons s) (yielded s))
      | _ => None
      end
  | TDispatch w =>
      match disp s, getw s w with
      | DSend k, Some WIdle => Some (set_disp (set_w s w (WHas k)) DPull)
      | _, _ => None
      end
  | TCloseIn =>
      match disp s with
      | DCloseIn => Some (mkSt (src s) (buf s) (rel s) (reqs s) (pulled s) DDone (inflight s) (ws s) true
                               (ndone s) (ch_closed s) (heap s) (next s) (cons s) (yielded s))
      | _ => None
      end
  | TInClosed w =>
      match getw s w with
      | Some WIdle => if in_closed s then Some (set_w s w WExit) else None
      | _ => None
      end
  | LFEnter w k =>
      match getw s w with
      | Some (WHas k') => if Nat.eqb k k' then Some (set_w s w (WInF k)) else None
      | _ => None
      end
  | LFExit w k =>
      match getw s w with
      | Some (WInF k') =>
          if Nat.eqb k k' && nthb (rel s) k
          then Some (set_w s w (WSend k (fv (nth k (src s) 0))))
          else None
      | _ => None
      end
  | TResult w =>
      match getw s w, cons s with
      | Some (WSend k v), CRecv =>
          Some (mkSt (src s) (buf s) (rel s) (reqs s) (pulled s) (disp s) (inflight s) (upd (ws s) w WIdle)
                     (in_closed s) (ndone s) (ch_closed s) (hpush (k, v) (heap s)) (next s) CLoop (yielded s))
      | _, _ => None
      end
  | TWorkerDone w =>
      match getw s w with
      | Some WExit =>
          Some (mkSt (src s) (buf s) (rel s) (reqs s) (pulled s) (disp s) (inflight s) (upd (ws s) w WDone)
                     (in_closed s) (S (ndone s)) (ch_closed s || Nat.eqb (S (ndone s)) (length (ws s)))
                     (heap s) (next s) (cons s) (yielded s))
      | _ => None
      end
  | LReqNext =>
      Some (mkSt (src s) (buf s) (rel s) (S (reqs s)) (pulled s) (disp s) (inflight s) (ws s) (in_closed s)
                 (ndone s) (ch_closed s) (heap s) (next s) (cons s) (yielded s))
  | LCallNext =>
      match cons s, reqs s with
      | CIdle, S r =>
          Some (mkSt (src s) (buf s) (rel s) r (pulled s) (disp s) (inflight s) (ws s) (in_closed s)
                     (ndone s) (ch_closed s) (heap s) (next s) CLoop (yielded s))
      | _, _ => None
      end
  | TLoop =>
      match cons s with
      | CLoop =>
          match heap s with
          | (k, v) :: t =>
              if Nat.eqb k (next s)
              then (* Pop; i++; lock; inFlight--; Signal iff inFlight == bufferSize-1; unlock *)
                let infl := inflight s - 1 in
                let d := match disp s with
                         | DParked j => if infl =? buf s - 1 then DAcq j else DParked j
                         | d => d
                         end in
                Some (mkSt (src s) (buf s) (rel s) (reqs s) (pulled s) d infl (ws s) (in_closed s) (ndone s)
                           (ch_closed s) t (S (next s)) (CRet (Some v)) (yielded s ++ [v]))
              else Some (set_cons s CRecv)
          | [] => Some (set_cons s CRecv)
          end
      | _ => None
      end
  | TChClosed =>
      match cons s with
      | CRecv => if ch_closed s then Some (set_cons s (CRet None)) else None
      | _ => None
      end
  | LRetNext r =>
      match cons s with
      | CRet r' => if optZ_eqb r r' then Some (set_cons s CIdle) else None
      | _ => None
      end
  | LRelease k =>
      Some (mkSt (src s) (buf s) (upd (rel s) k true) (reqs s) (pulled s) (disp s) (inflight s) (ws s)
                 (in_closed s) (ndone s) (ch_closed s) (heap s) (next s) (cons s) (yielded s))
  | LQuiesce => None     (* see [qstep] *)
  end.

(* ---- label classes ---- *)
(* internal labels that can be enabled in s *)
Definition tau_all (s : st) : list lab :=
  [TAcquire; TCloseIn; TLoop; TChClosed]
  ++ flat_map (fun w => [TDispatch w; TInClosed w; TWorkerDone w; TResult w]) (seq 0 (length (ws s))).

(* visible labels of library/harness goroutines (everything but the controller) *)
Definition items_of (s : st) : list nat :=
  flat_map (fun x => match x with WHas k | WInF k => [k] | _ => [] end) (ws s).
Definition lib_visible (s : st) : list lab :=
  [LSrcEnter; LSrcExit None; LSrcExit (Some (pulled s)); LCallNext]
  ++ match cons s with CRet r => [LRetNext r] | _ => [] end
  ++ flat_map (fun w => match nth_error (ws s) w with
                        | Some (WHas k) => [LFEnter w k]
                        | Some (WInF k) => [LFExit w k]
                        | _ => [] end) (seq 0 (length (ws s))).

Definition enabled (s : st) (l : lab) : bool := match step s l with Some _ => true | None => false end.

Definition quiescent (s : st) : bool :=
  negb (existsb (enabled s) (tau_all s)) && negb (existsb (enabled s) (lib_visible s)).

Definition qstep (s : st) (l : lab) : option st :=
  match l with
  | LQuiesce => if quiescent s then Some s else None
  | _ => step s l
  end.

(* library labels (for the progress theorems): internal steps, the up-call entries and the return
   of Next.  [LSrcExit]/[LFExit] are the environment returning; the rest is the controller. *)
Definition is_lib (l : lab) : bool :=
  match l with
  | LSrcEnter | LFEnter _ _ | LRetNext _
  | TAcquire | TDispatch _ | TCloseIn | TInClosed _ | TWorkerDone _ | TLoop | TResult _ | TChClosed => true
  | _ => false
  end.

End Step.

(* ---- events: labels with the worker id erased ---- *)
Definition vis (l : lab) : option lab :=
  match l with
  | LSrcEnter | LSrcExit _ | LCallNext | LRetNext _ | LReqNext | LRelease _ | LQuiesce => Some l
  | LFEnter _ k => Some (LFEnter 0 k)
  | LFExit _ k => Some (LFExit 0 k)
  | _ => None
  end.

Definition lab_eqb (a b : lab) : bool :=
  match a, b with
  | LSrcEnter, LSrcEnter | LCallNext, LCallNext | LReqNext, LReqNext | LQuiesce, LQuiesce => true
  | LSrcExit x, LSrcExit y => optnat_eqb x y
  | LFEnter w k, LFEnter w' k' | LFExit w k, LFExit w' k' => Nat.eqb w w' && Nat.eqb k k'
  | LRetNext x, LRetNext y => optZ_eqb x y
  | LRelease x, LRelease y => Nat.eqb x y
  | _, _ => false
  end.

Definition dpc_eqb (a b : dpc) : bool :=
  match a, b with
  | DPull, DPull | DInSrc, DInSrc | DCloseIn, DCloseIn | DDone, DDone => true
  | DAcq x, DAcq y | DParked x, DParked y | DSend x, DSend y => Nat.eqb x y
  | _, _ => false
  end.
Definition wpc_eqb (a b : wpc) : bool :=
  match a, b with
  | WIdle, WIdle | WExit, WExit | WDone, WDone => true
  | WHas x, WHas y | WInF x, WInF y => Nat.eqb x y
  | WSend x v, WSend y u => Nat.eqb x y && Z.eqb v u
  | _, _ => false
  end.
Definition cpc_eqb (a b : cpc) : bool :=
  match a, b with
  | CIdle, CIdle | CLoop, CLoop | CRecv, CRecv => true
  | CRet x, CRet y => optZ_eqb x y
  | _, _ => false
  end.
Definition st_eqb (a b : st) : bool :=
  list_eqb Z.eqb (src a) (src b) && Z.eqb (buf a) (buf b) && list_eqb Bool.eqb (rel a) (rel b)
  && Nat.eqb (reqs a) (reqs b) && Nat.eqb (pulled a) (pulled b) && dpc_eqb (disp a) (disp b)
  && Z.eqb (inflight a) (inflight b) && list_eqb wpc_eqb (ws a) (ws b)
  && Bool.eqb (in_closed a) (in_closed b) && Nat.eqb (ndone a) (ndone b)
  && Bool.eqb (ch_closed a) (ch_closed b) && list_eqb entry_eqb (heap a) (heap b)
  && Nat.eqb (next a) (next b) && cpc_eqb (cons a) (cons b) && list_eqb Z.eqb (yielded a) (yielded b).

(* the state right after MapIterator(iter, parallelism, bufferSize, f) returned:
   [gated k = true] means the harness holds f on item k until the controller releases it *)
Definition init (gomaxprocs parallelism bufferSize : Z) (items : list Z) (gated : list bool) : st :=
  let p := norm_par gomaxprocs parallelism in
  mkSt items (norm_buf p bufferSize) (map negb gated) 0 0 DPull 0 (repeat WIdle (Z.to_nat p)) false 0 false
       [] 0 CIdle [].

(* symmetry reduction for the matcher only: workers are interchangeable, so a dispatch to the
   first idle worker represents all of them *)
Fixpoint first_idle (l : list wpc) (i : nat) : list nat :=
  match l with
  | [] => []
  | WIdle :: _ => [i]
  | _ :: t => first_idle t (S i)
  end.
Definition tau_labels (s : st) : list lab :=
  [TAcquire; TCloseIn; TLoop; TChClosed]
  ++ map TDispatch (first_idle (ws s) 0)
  ++ flat_map (fun w => [TInClosed w; TWorkerDone w; TResult w]) (seq 0 (length (ws s))).

Definition labels_ev (s : st) (e : lab) : list lab :=
  match e with
  | LFEnter _ k => map (fun w => LFEnter w k) (seq 0 (length (ws s)))
  | LFExit _ k => map (fun w => LFExit w k) (seq 0 (length (ws s)))
  | _ => [e]
  end.

Definition accepts_history (fv : Z -> Z) (g par bufsz : Z) (items : list Z) (gated : list bool)
           (evs : list lab) : bool :=
  accepts (qstep fv) vis lab_eqb st_eqb tau_labels labels_ev 64 (init g par bufsz items gated) evs.

Definition first_rejected (fv : Z -> Z) (g par bufsz : Z) (items : list Z) (gated : list bool)
           (evs : list lab) : option nat :=
  first_reject (qstep fv) vis lab_eqb st_eqb tau_labels labels_ev 64
               (close (qstep fv) vis st_eqb tau_labels 64 [init g par bufsz items gated]) evs O.

End MI.
