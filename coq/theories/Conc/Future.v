(* C18 (part A) — LTS models of xsync.Future (xsync/xsync.go) and xsync.Lazy (= sync.OnceValue,
   xsync/xsync_go1.21.go) together with their scenario harness (harness_watch/watch.go).
   Model only (no proofs here).  Two independent systems: module [Fut] and module [Lazy].

   Future: the struct is (c chan struct{}, filled uint32, x T).  Fill = one atomic
   CompareAndSwap(&f.filled, 0, 1) (the loser panics at once, before it writes anything; the ghost
   field [fwinner] records the goroutine that won), then write x, then close(c).
   Wait = receive from c (enabled once closed), then read x.
   WaitContext = first a non-blocking select (case <-f.c: read x and return it / default), then a
   two-arm select (one atomic poll: every ready arm may be taken; otherwise the goroutine stays
   parked and completes when an arm becomes ready), then read x.
   Contexts: Live / cancel requested / Done.
   [Fut.step_orig] is the code before the repair (Fill without the CompareAndSwap, WaitContext
   without the first select); it is used only by the refutation witnesses.

   Lazy: sync.OnceValue modelled by its documented specification — the first caller runs f, every
   other caller blocks until that call has completed, all callers get that result.  f is an up-call
   into harness code: it counts its invocations, can be held by a gate, and returns
   fbase + (its invocation number), so a second invocation would be observable. *)
From Juniper Require Import Common.Base Conc.GoLTS.
Local Open Scope nat_scope.

Inductive cstate := CLive | CReq | CDone.        (* context: live / cancel() called / Done closed *)
Definition cstate_eqb (a b : cstate) : bool :=
  match a, b with CLive, CLive | CReq, CReq | CDone, CDone => true | _, _ => false end.

Fixpoint list_eqb {A} (eqb : A -> A -> bool) (a b : list A) : bool :=
  match a, b with
  | [], [] => true
  | x :: a', y :: b' => if eqb x y then list_eqb eqb a' b' else false
  | _, _ => false
  end.
Definition optnat_eqb (a b : option nat) : bool :=
  match a, b with None, None => true | Some x, Some y => Nat.eqb x y | _, _ => false end.

(* ====================================================================== *)
Module Fut.

Inductive kind := KFill (v : Z) | KWait | KWaitCtx (c : nat).

Inductive pc :=
| PIdle | PGate | PReady
| PFillCalled                (* inside Fill, before the CompareAndSwap on f.filled *)
| PFillWon                   (* the CompareAndSwap succeeded; about to execute f.x = x *)
| PFillWritten               (* f.x written; about to close(f.c) *)
| PFillClosed                (* about to return from Fill *)
| PFillPanic                 (* the CompareAndSwap failed: panic("... already been filled"), nothing written
                                (also: the runtime panic of a close of a closed channel) *)
| PWaitCalled                (* inside Wait: blocked in / about to execute <-f.c *)
| PCtxCalled                 (* inside WaitContext: at the first, non-blocking select (case <-f.c / default) *)
| PCtxSel                    (* the first select took its default arm; at the second (blocking) select *)
| PRecvd                     (* received from f.c; about to read f.x *)
| PRead (v : Z)              (* read f.x = v; about to return it *)
| PCtxErr                    (* took the ctx.Done arm; about to return (zero, ctx.Err()) *)
| PDone.

Record thread := mkT { t_gate : option nat; t_kind : kind; t_pc : pc }.

Record st := mkSt {
  ths : list thread;
  fx : Z;                    (* the field f.x (zero value initially) *)
  fclosed : bool;            (* f.c closed? *)
  ffilled : bool;            (* the field f.filled (0 / 1) *)
  fwinner : option nat;      (* GHOST: the goroutine whose CompareAndSwap set f.filled *)
  ctxs : list cstate;
  gates : list bool
}.

Inductive lab :=
(* visible *)
| LSpawn (t : nat) | LRelease (g : nat) | LCancel (c : nat) | LQuiesce
| LCallFill (t : nat) (v : Z) | LRetFill (t : nat) | LPanicFill (t : nat)
| LCallWait (t : nat) | LRetWait (t : nat) (v : Z)
| LCallWaitCtx (t : nat) (c : nat) | LRetWaitCtx (t : nat) (v : Z) (err : bool)
(* internal *)
| TCas (t : nat)             (* Fill: atomic.CompareAndSwapUint32(&f.filled, 0, 1) *)
| TWrite (t : nat)           (* f.x = x *)
| TCloseF (t : nat)          (* close(f.c) *)
| TRecv (t : nat)            (* Wait: <-f.c *)
| TPollF (t : nat)           (* WaitContext: the first select takes the <-f.c arm *)
| TPollD (t : nat)           (* WaitContext: the first select takes the default arm *)
| TSelF (t : nat)            (* WaitContext: the second select takes the <-f.c arm *)
| TSelCtx (t : nat)          (* WaitContext: the second select takes the <-ctx.Done() arm *)
| TRead (t : nat)            (* read f.x *)
| TCancelEff (c : nat).

Definition getth (s : st) (t : nat) : option thread := nth_error (ths s) t.
Definition set_pc (x : thread) (p : pc) : thread := mkT (t_gate x) (t_kind x) p.
Definition setth (s : st) (t : nat) (x : thread) : st :=
  mkSt (upd (ths s) t x) (fx s) (fclosed s) (ffilled s) (fwinner s) (ctxs s) (gates s).
Definition with_fx (s : st) (v : Z) : st :=
  mkSt (ths s) v (fclosed s) (ffilled s) (fwinner s) (ctxs s) (gates s).
Definition with_closed (s : st) : st :=
  mkSt (ths s) (fx s) true (ffilled s) (fwinner s) (ctxs s) (gates s).
Definition with_filled (s : st) (t : nat) : st :=
  mkSt (ths s) (fx s) (fclosed s) true (Some t) (ctxs s) (gates s).
Definition with_ctxs (s : st) (c : list cstate) : st :=
  mkSt (ths s) (fx s) (fclosed s) (ffilled s) (fwinner s) c (gates s).
Definition with_gates (s : st) (g : list bool) : st :=
  mkSt (ths s) (fx s) (fclosed s) (ffilled s) (fwinner s) (ctxs s) g.

Definition gate_open (s : st) (x : thread) : bool :=
  match t_gate x with
  | None => true
  | Some g => match nth_error (gates s) g with Some b => b | None => false end
  end.

Definition ctx_done (s : st) (c : nat) : bool :=
  match nth_error (ctxs s) c with Some CDone => true | _ => false end.

(* about to make its call: passing the (open) start gate is merged with the invocation event *)
Definition ready (s : st) (x : thread) : bool :=
  match t_pc x with PReady => true | PGate => gate_open s x | _ => false end.

Definition step (s : st) (l : lab) : option st :=
  match l with
  | LSpawn t =>
      match getth s t with
      | Some x => match t_pc x with PIdle => Some (setth s t (set_pc x PGate)) | _ => None end
      | None => None
      end
  | LRelease g =>
      if g <? length (gates s) then Some (with_gates s (upd (gates s) g true)) else None
  | LCancel c =>
      match nth_error (ctxs s) c with
      | Some CLive => Some (with_ctxs s (upd (ctxs s) c CReq))
      | Some _ => Some s
      | None => None
      end
  | TCancelEff c =>
      match nth_error (ctxs s) c with
      | Some CReq => Some (with_ctxs s (upd (ctxs s) c CDone))
      | _ => None
      end
  | LCallFill t v =>
      match getth s t with
      | Some x => match t_kind x with
                  | KFill v' => if ready s x && Z.eqb v v' then Some (setth s t (set_pc x PFillCalled)) else None
                  | _ => None end
      | None => None
      end
  | TCas t =>
      (* one atomic step: the loser panics at once, before any write *)
      match getth s t with
      | Some x => match t_pc x with
                  | PFillCalled =>
                      if ffilled s then Some (setth s t (set_pc x PFillPanic))
                      else Some (setth (with_filled s t) t (set_pc x PFillWon))
                  | _ => None end
      | None => None
      end
  | TWrite t =>
      match getth s t with
      | Some x => match t_pc x, t_kind x with
                  | PFillWon, KFill v => Some (setth (with_fx s v) t (set_pc x PFillWritten))
                  | _, _ => None end
      | None => None
      end
  | TCloseF t =>
      match getth s t with
      | Some x => match t_pc x with
                  | PFillWritten =>
                      if fclosed s then Some (setth s t (set_pc x PFillPanic))
                      else Some (setth (with_closed s) t (set_pc x PFillClosed))
                  | _ => None end
      | None => None
      end
  | LRetFill t =>
      match getth s t with
      | Some x => match t_pc x with PFillClosed => Some (setth s t (set_pc x PDone)) | _ => None end
      | None => None
      end
  | LPanicFill t =>
      match getth s t with
      | Some x => match t_pc x with PFillPanic => Some (setth s t (set_pc x PDone)) | _ => None end
      | None => None
      end
  | LCallWait t =>
      match getth s t with
      | Some x => match t_kind x with
                  | KWait => if ready s x then Some (setth s t (set_pc x PWaitCalled)) else None
                  | _ => None end
      | None => None
      end
  | TRecv t =>
      match getth s t with
      | Some x => match t_pc x with
                  | PWaitCalled => if fclosed s then Some (setth s t (set_pc x PRecvd)) else None
                  | _ => None end
      | None => None
      end
  | LCallWaitCtx t c =>
      match getth s t with
      | Some x => match t_kind x with
                  | KWaitCtx c' => if ready s x && Nat.eqb c c' then Some (setth s t (set_pc x PCtxCalled)) else None
                  | _ => None end
      | None => None
      end
  | TPollF t =>
      match getth s t with
      | Some x => match t_pc x with
                  | PCtxCalled => if fclosed s then Some (setth s t (set_pc x PRecvd)) else None
                  | _ => None end
      | None => None
      end
  | TPollD t =>
      match getth s t with
      | Some x => match t_pc x with
                  | PCtxCalled => if fclosed s then None else Some (setth s t (set_pc x PCtxSel))
                  | _ => None end
      | None => None
      end
  | TSelF t =>
      match getth s t with
      | Some x => match t_pc x with
                  | PCtxSel => if fclosed s then Some (setth s t (set_pc x PRecvd)) else None
                  | _ => None end
      | None => None
      end
  | TSelCtx t =>
      match getth s t with
      | Some x => match t_pc x, t_kind x with
                  | PCtxSel, KWaitCtx c => if ctx_done s c then Some (setth s t (set_pc x PCtxErr)) else None
                  | _, _ => None end
      | None => None
      end
  | TRead t =>
      match getth s t with
      | Some x => match t_pc x with
                  | PRecvd => Some (setth s t (set_pc x (PRead (fx s))))
                  | _ => None end
      | None => None
      end
  | LRetWait t v =>
      match getth s t with
      | Some x => match t_pc x, t_kind x with
                  | PRead v', KWait => if Z.eqb v v' then Some (setth s t (set_pc x PDone)) else None
                  | _, _ => None end
      | None => None
      end
  | LRetWaitCtx t v err =>
      match getth s t with
      | Some x => match t_pc x, t_kind x with
                  | PRead v', KWaitCtx _ => if Z.eqb v v' && negb err then Some (setth s t (set_pc x PDone)) else None
                  | PCtxErr, KWaitCtx _ => if Z.eqb v 0%Z && err then Some (setth s t (set_pc x PDone)) else None
                  | _, _ => None end
      | None => None
      end
  | LQuiesce => None
  end.

(* The code BEFORE the repair, kept only for the refutation witnesses of Conc/WatchProofs.v
   ([FutP.orig_fill_refuted], [FutP.orig_waitcontext_refuted]):
     Fill        = f.x = x; close(f.c)                  (no CompareAndSwap: every Fill writes)
     WaitContext = the two-arm select only              (no first poll of f.c) *)
Definition step_orig (s : st) (l : lab) : option st :=
  match l with
  | TCas _ | TPollF _ | TPollD _ => None
  | TWrite t =>
      match getth s t with
      | Some x => match t_pc x, t_kind x with
                  | PFillCalled, KFill v => Some (setth (with_fx s v) t (set_pc x PFillWritten))
                  | _, _ => None end
      | None => None
      end
  | LCallWaitCtx t c =>
      match getth s t with
      | Some x => match t_kind x with
                  | KWaitCtx c' => if ready s x && Nat.eqb c c' then Some (setth s t (set_pc x PCtxSel)) else None
                  | _ => None end
      | None => None
      end
  | _ => step s l
  end.

Definition tau_labels (s : st) : list lab :=
  flat_map (fun t => [TCas t; TWrite t; TCloseF t; TRecv t; TPollF t; TPollD t; TSelF t; TSelCtx t; TRead t])
           (seq 0 (length (ths s)))
  ++ map TCancelEff (seq 0 (length (ctxs s))).

Definition thread_visible (s : st) (t : nat) : list lab :=
  match getth s t with
  | Some x =>
      match t_pc x, t_kind x with
      | PReady, KFill v | PGate, KFill v => [LCallFill t v]
      | PReady, KWait | PGate, KWait => [LCallWait t]
      | PReady, KWaitCtx c | PGate, KWaitCtx c => [LCallWaitCtx t c]
      | PFillClosed, _ => [LRetFill t]
      | PFillPanic, _ => [LPanicFill t]
      | PRead v, KWait => [LRetWait t v]
      | PRead v, KWaitCtx _ => [LRetWaitCtx t v false]
      | PCtxErr, _ => [LRetWaitCtx t 0%Z true]
      | _, _ => []
      end
  | None => []
  end.

Definition lib_visible (s : st) : list lab := flat_map (thread_visible s) (seq 0 (length (ths s))).
Definition enabled (s : st) (l : lab) : bool := match step s l with Some _ => true | None => false end.
Definition quiescent (s : st) : bool :=
  negb (existsb (enabled s) (tau_labels s)) && negb (existsb (enabled s) (lib_visible s)).
Definition qstep (s : st) (l : lab) : option st :=
  match l with
  | LQuiesce => if quiescent s then Some s else None
  | _ => step s l
  end.

Definition vis (l : lab) : option lab :=
  match l with
  | LSpawn _ | LRelease _ | LCancel _ | LQuiesce | LCallFill _ _ | LRetFill _ | LPanicFill _
  | LCallWait _ | LRetWait _ _ | LCallWaitCtx _ _ | LRetWaitCtx _ _ _ => Some l
  | _ => None
  end.

Definition lab_eqb (a b : lab) : bool :=
  match a, b with
  | LSpawn x, LSpawn y | LRelease x, LRelease y | LCancel x, LCancel y | LRetFill x, LRetFill y
  | LPanicFill x, LPanicFill y | LCallWait x, LCallWait y => Nat.eqb x y
  | LQuiesce, LQuiesce => true
  | LCallFill x v, LCallFill y w | LRetWait x v, LRetWait y w => Nat.eqb x y && Z.eqb v w
  | LCallWaitCtx x c, LCallWaitCtx y d => Nat.eqb x y && Nat.eqb c d
  | LRetWaitCtx x v e, LRetWaitCtx y w f => Nat.eqb x y && Z.eqb v w && Bool.eqb e f
  | _, _ => false
  end.

Definition kind_eqb (a b : kind) : bool :=
  match a, b with
  | KFill v, KFill w => Z.eqb v w
  | KWait, KWait => true
  | KWaitCtx c, KWaitCtx d => Nat.eqb c d
  | _, _ => false
  end.
Definition pc_eqb (a b : pc) : bool :=
  match a, b with
  | PIdle, PIdle | PGate, PGate | PReady, PReady | PFillCalled, PFillCalled | PFillWon, PFillWon
  | PFillWritten, PFillWritten | PFillClosed, PFillClosed | PFillPanic, PFillPanic
  | PWaitCalled, PWaitCalled | PCtxCalled, PCtxCalled | PCtxSel, PCtxSel
  | PRecvd, PRecvd | PCtxErr, PCtxErr | PDone, PDone => true
  | PRead v, PRead w => Z.eqb v w
  | _, _ => false
  end.
Definition thread_eqb (a b : thread) : bool :=
  if pc_eqb (t_pc a) (t_pc b)
  then if kind_eqb (t_kind a) (t_kind b) then optnat_eqb (t_gate a) (t_gate b) else false
  else false.
Definition st_eqb (a b : st) : bool :=
  if Bool.eqb (fclosed a) (fclosed b)
  then if Z.eqb (fx a) (fx b)
       then if list_eqb thread_eqb (ths a) (ths b)
            then if list_eqb cstate_eqb (ctxs a) (ctxs b)
                 then if list_eqb Bool.eqb (gates a) (gates b)
                      then if Bool.eqb (ffilled a) (ffilled b) then optnat_eqb (fwinner a) (fwinner b) else false
                      else false
                 else false
            else false
       else false
  else false.

Definition init (cfg : list (option nat * kind)) (nctx ngates : nat) : st :=
  mkSt (map (fun p => mkT (fst p) (snd p) PIdle) cfg) 0%Z false false None (repeat CLive nctx) (repeat false ngates).

Definition accepts_history (cfg : list (option nat * kind)) (nctx ngates : nat) (evs : list lab) : bool :=
  accepts qstep vis lab_eqb st_eqb tau_labels (fun _ e => [e]) 64 (init cfg nctx ngates) evs.

Definition first_rejected (cfg : list (option nat * kind)) (nctx ngates : nat) (evs : list lab) : option nat :=
  first_reject qstep vis lab_eqb st_eqb tau_labels (fun _ e => [e]) 64
               (close qstep vis st_eqb tau_labels 64 [init cfg nctx ngates]) evs O.

End Fut.

(* ====================================================================== *)
Module Lazy.

(* sync.Once(Value) by its specification *)
Inductive once := ONew | ORunning (t : nat) | ODone (v : Z).

Inductive pc :=
| PIdle | PGate
| PReady                     (* about to call the lazy value (if it has calls left) *)
| PCalled                    (* inside the OnceValue wrapper, at once.Do *)
| PRunF                      (* this caller is the one that runs f; f not entered yet *)
| PInF (n : nat)             (* inside f (its n-th invocation); waiting for f's gate *)
| PFRet (v : Z)              (* f returned v; once.Do about to complete *)
| PGot (v : Z).              (* once.Do returned; about to return v *)

Record thread := mkT { t_gate : option nat; t_calls : nat; t_pc : pc }.

Record st := mkSt {
  ths : list thread;
  onc : once;
  fcount : nat;              (* how many times f has been entered *)
  fgated : bool;             (* configuration: does f wait for the controller? *)
  fopen : bool;              (* f's gate released *)
  fbase : Z;
  gates : list bool
}.

Inductive lab :=
(* visible *)
| LSpawn (t : nat) | LRelease (g : nat) | LReleaseF | LQuiesce
| LCallLazy (t : nat) | LRetLazy (t : nat) (v : Z)
| LFEnter (t : nat) (n : nat) | LFExit (t : nat) (v : Z)
(* internal *)
| TOnce (t : nat)            (* once.Do: become the runner, or (once done) take the result *)
| TOnceDone (t : nat).       (* the runner marks the Once done and publishes the result *)

Definition getth (s : st) (t : nat) : option thread := nth_error (ths s) t.
Definition set_pc (x : thread) (p : pc) : thread := mkT (t_gate x) (t_calls x) p.
Definition setth (s : st) (t : nat) (x : thread) : st :=
  mkSt (upd (ths s) t x) (onc s) (fcount s) (fgated s) (fopen s) (fbase s) (gates s).
Definition with_onc (s : st) (o : once) : st :=
  mkSt (ths s) o (fcount s) (fgated s) (fopen s) (fbase s) (gates s).
Definition with_fcount (s : st) (n : nat) : st :=
  mkSt (ths s) (onc s) n (fgated s) (fopen s) (fbase s) (gates s).
Definition with_fopen (s : st) : st :=
  mkSt (ths s) (onc s) (fcount s) (fgated s) true (fbase s) (gates s).
Definition with_gates (s : st) (g : list bool) : st :=
  mkSt (ths s) (onc s) (fcount s) (fgated s) (fopen s) (fbase s) g.

Definition gate_open (s : st) (x : thread) : bool :=
  match t_gate x with
  | None => true
  | Some g => match nth_error (gates s) g with Some b => b | None => false end
  end.

Definition ready (s : st) (x : thread) : bool :=
  match t_pc x with PReady => true | PGate => gate_open s x | _ => false end.

Definition step (s : st) (l : lab) : option st :=
  match l with
  | LSpawn t =>
      match getth s t with
      | Some x => match t_pc x with PIdle => Some (setth s t (set_pc x PGate)) | _ => None end
      | None => None
      end
  | LRelease g =>
      if g <? length (gates s) then Some (with_gates s (upd (gates s) g true)) else None
  | LReleaseF => Some (with_fopen s)
  | LCallLazy t =>
      match getth s t with
      | Some x => match t_calls x with
                  | S n => if ready s x then Some (setth s t (mkT (t_gate x) n PCalled)) else None
                  | O => None end
      | None => None
      end
  | TOnce t =>
      match getth s t with
      | Some x => match t_pc x with
                  | PCalled =>
                      match onc s with
                      | ONew => Some (setth (with_onc s (ORunning t)) t (set_pc x PRunF))
                      | ORunning _ => None                      (* blocked until the first call completes *)
                      | ODone v => Some (setth s t (set_pc x (PGot v)))
                      end
                  | _ => None end
      | None => None
      end
  | LFEnter t n =>
      match getth s t with
      | Some x => match t_pc x with
                  | PRunF => if Nat.eqb n (S (fcount s))
                             then Some (setth (with_fcount s (S (fcount s))) t (set_pc x (PInF n)))
                             else None
                  | _ => None end
      | None => None
      end
  | LFExit t v =>
      match getth s t with
      | Some x => match t_pc x with
                  | PInF n => if (negb (fgated s) || fopen s) && Z.eqb v (fbase s + Z.of_nat n)
                              then Some (setth s t (set_pc x (PFRet v)))
                              else None
                  | _ => None end
      | None => None
      end
  | TOnceDone t =>
      match getth s t with
      | Some x => match t_pc x with
                  | PFRet v => Some (setth (with_onc s (ODone v)) t (set_pc x (PGot v)))
                  | _ => None end
      | None => None
      end
  | LRetLazy t v =>
      match getth s t with
      | Some x => match t_pc x with
                  | PGot v' => if Z.eqb v v' then Some (setth s t (set_pc x PReady)) else None
                  | _ => None end
      | None => None
      end
  | LQuiesce => None
  end.

Definition tau_labels (s : st) : list lab :=
  flat_map (fun t => [TOnce t; TOnceDone t]) (seq 0 (length (ths s))).

Definition thread_visible (s : st) (t : nat) : list lab :=
  match getth s t with
  | Some x =>
      match t_pc x with
      | PReady | PGate => [LCallLazy t]
      | PRunF => [LFEnter t (S (fcount s))]
      | PInF n => [LFExit t (fbase s + Z.of_nat n)%Z]
      | PGot v => [LRetLazy t v]
      | _ => []
      end
  | None => []
  end.

Definition lib_visible (s : st) : list lab := flat_map (thread_visible s) (seq 0 (length (ths s))).
Definition enabled (s : st) (l : lab) : bool := match step s l with Some _ => true | None => false end.
Definition quiescent (s : st) : bool :=
  negb (existsb (enabled s) (tau_labels s)) && negb (existsb (enabled s) (lib_visible s)).
Definition qstep (s : st) (l : lab) : option st :=
  match l with
  | LQuiesce => if quiescent s then Some s else None
  | _ => step s l
  end.

Definition vis (l : lab) : option lab :=
  match l with
  | LSpawn _ | LRelease _ | LReleaseF | LQuiesce | LCallLazy _ | LRetLazy _ _ | LFEnter _ _ | LFExit _ _ => Some l
  | _ => None
  end.

Definition lab_eqb (a b : lab) : bool :=
  match a, b with
  | LSpawn x, LSpawn y | LRelease x, LRelease y | LCallLazy x, LCallLazy y => Nat.eqb x y
  | LReleaseF, LReleaseF | LQuiesce, LQuiesce => true
  | LRetLazy x v, LRetLazy y w | LFExit x v, LFExit y w => Nat.eqb x y && Z.eqb v w
  | LFEnter x n, LFEnter y m => Nat.eqb x y && Nat.eqb n m
  | _, _ => false
  end.

Definition once_eqb (a b : once) : bool :=
  match a, b with
  | ONew, ONew => true
  | ORunning t, ORunning u => Nat.eqb t u
  | ODone v, ODone w => Z.eqb v w
  | _, _ => false
  end.
Definition pc_eqb (a b : pc) : bool :=
  match a, b with
  | PIdle, PIdle | PGate, PGate | PReady, PReady | PCalled, PCalled | PRunF, PRunF => true
  | PInF n, PInF m => Nat.eqb n m
  | PFRet v, PFRet w | PGot v, PGot w => Z.eqb v w
  | _, _ => false
  end.
Definition thread_eqb (a b : thread) : bool :=
  if pc_eqb (t_pc a) (t_pc b)
  then if Nat.eqb (t_calls a) (t_calls b) then optnat_eqb (t_gate a) (t_gate b) else false
  else false.
Definition st_eqb (a b : st) : bool :=
  if once_eqb (onc a) (onc b)
  then if list_eqb thread_eqb (ths a) (ths b)
       then Nat.eqb (fcount a) (fcount b) && Bool.eqb (fgated a) (fgated b) && Bool.eqb (fopen a) (fopen b)
            && Z.eqb (fbase a) (fbase b) && list_eqb Bool.eqb (gates a) (gates b)
       else false
  else false.

(* cfg: per thread (start gate, number of calls) *)
Definition init (cfg : list (option nat * nat)) (gated : bool) (base : Z) (ngates : nat) : st :=
  mkSt (map (fun p => mkT (fst p) (snd p) PIdle) cfg) ONew 0 gated false base (repeat false ngates).

Definition accepts_history (cfg : list (option nat * nat)) (gated : bool) (base : Z) (ngates : nat)
           (evs : list lab) : bool :=
  accepts qstep vis lab_eqb st_eqb tau_labels (fun _ e => [e]) 64 (init cfg gated base ngates) evs.

Definition first_rejected (cfg : list (option nat * nat)) (gated : bool) (base : Z) (ngates : nat)
           (evs : list lab) : option nat :=
  first_reject qstep vis lab_eqb st_eqb tau_labels (fun _ e => [e]) 64
               (close qstep vis st_eqb tau_labels 64 [init cfg gated base ngates]) evs O.

End Lazy.
