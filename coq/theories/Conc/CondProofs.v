(* C16 — proofs about the LTS model of xsync.ContextCond (Conc/Cond.v).

   One combined invariant [Inv] of every state reachable by [qstep] from [init cfg nctx], for
   every configuration; the per-waiter transition relation [pc_tr]; counting lemmas for Signal;
   the refutation of the unrestricted "m Signals wake min(k,m) waiters" claim.
   Stdlib only, no axioms. *)
From Juniper Require Import Common.Base Conc.GoLTS Conc.Cond.
From Coq Require Import Arith PeanoNat.
Local Open Scope nat_scope.

(* ------------------------------------------------------------------ *)
(* classes of program counters                                         *)
(* ------------------------------------------------------------------ *)

(* the pcs at which the waiter goroutine owns the caller's Locker L *)
Definition holds_lock (p : wpc) : bool :=
  match p with
  | WHasLock | WCalled | WSnap _ | WInUnlock _ false | WLocked | WRetNil => true
  | _ => false
  end.

(* the channel generation a waiter has snapshotted and may still receive from *)
Definition gen_of (p : wpc) : option nat :=
  match p with WSnap g | WInUnlock g _ | WSelect g | WParked g => Some g | _ => None end.

Definition is_parked (p : wpc) : bool := match p with WParked _ => true | _ => false end.

(* the select inside Wait has completed (either arm) *)
Definition past_select (p : wpc) : bool :=
  match p with WWoken | WLocked | WCtxErr | WRetNil | WDone => true | _ => false end.

(* "has entered Wait and released the lock", not yet through the select *)
Definition entered (p : wpc) : bool :=
  match p with WInUnlock _ true | WSelect _ | WParked _ => true | _ => false end.

Definition cdone (cxs : list cstate) (c : nat) : bool :=
  match nth_error cxs c with Some CDone => true | _ => false end.

Lemma ctx_done_cdone s c : ctx_done s c = cdone (ctxs s) c.
Proof. reflexivity. Qed.

(* ------------------------------------------------------------------ *)
(* list helpers                                                        *)
(* ------------------------------------------------------------------ *)

Lemma nth_map {A B} (f : A -> B) l n : nth_error (map f l) n = option_map f (nth_error l n).
Proof. revert n; induction l as [|h t IH]; intros [|n]; simpl; auto. Qed.

Lemma nth_upd {A} (l : list A) n m x :
  nth_error (upd l n x) m = if Nat.eq_dec n m then (if lt_dec n (length l) then Some x else None)
                            else nth_error l m.
Proof.
  destruct (Nat.eq_dec n m) as [->|Hne].
  - destruct (lt_dec m (length l)) as [Hlt|Hge].
    + apply nth_error_upd_same; exact Hlt.
    + apply nth_error_None. rewrite upd_length. lia.
  - apply nth_error_upd_other; exact Hne.
Qed.

Lemma nth_lt {A} (l : list A) n x : nth_error l n = Some x -> n < length l.
Proof. intros H. apply nth_error_Some. congruence. Qed.

Lemma nth_app_l {A} (l l' : list A) n x : nth_error l n = Some x -> nth_error (l ++ l') n = Some x.
Proof. intros H. rewrite nth_error_app1; [exact H | eapply nth_lt; eauto]. Qed.

(* ------------------------------------------------------------------ *)
(* the invariant                                                       *)
(* ------------------------------------------------------------------ *)

(* every generation but the last is closed; the last (current) one is open *)
Definition chans_ok (chs : list chan) : Prop :=
  chs <> [] /\ forall g c, nth_error chs g = Some c -> ch_closed c = negb (g =? pred (length chs)).

(* what a waiter's pc promises about the channel it snapshotted and about its context *)
Definition pcok (chs : list chan) (cxs : list cstate) (c : nat) (p : wpc) : Prop :=
  match p with
  | WSnap g | WInUnlock g _ | WSelect g => g < length chs
  | WParked g => exists ch, nth_error chs g = Some ch /\ ch_closed ch = false /\ ch_tok ch = false
                            /\ cdone cxs c = false
  | _ => True
  end.

Definition InvC (wl : list waiter) (chs : list chan) (cxs : list cstate) (l : option nat) : Prop :=
  chans_ok chs /\
  (forall w x, nth_error wl w = Some x ->
               pcok chs cxs (w_ctx x) (w_pc x) /\ (holds_lock (w_pc x) = true -> l = Some w)) /\
  (forall w, l = Some w -> exists x, nth_error wl w = Some x /\ holds_lock (w_pc x) = true).

Definition Inv (s : st) : Prop := InvC (ws s) (chans s) (ctxs s) (lck s).

Lemma chans_ok_cur chs : chans_ok chs -> pred (length chs) < length chs.
Proof. intros [Hne _]. destruct chs; [congruence | simpl; lia]. Qed.

Lemma chans_ok_open chs g c :
  chans_ok chs -> nth_error chs g = Some c -> ch_closed c = false -> g = pred (length chs).
Proof.
  intros [_ Hc] Hg Hcl. specialize (Hc g c Hg). rewrite Hcl in Hc.
  destruct (g =? pred (length chs)) eqn:E; [apply Nat.eqb_eq in E; exact E | discriminate].
Qed.

Lemma chans_ok_closed chs g c :
  chans_ok chs -> nth_error chs g = Some c -> (ch_closed c = true <-> g <> pred (length chs)).
Proof.
  intros [_ Hc] Hg. rewrite (Hc g c Hg).
  destruct (g =? pred (length chs)) eqn:E; simpl.
  - apply Nat.eqb_eq in E. split; [discriminate | congruence].
  - apply Nat.eqb_neq in E. split; auto.
Qed.

Lemma pcok_parked_cur chs cxs c g : chans_ok chs -> pcok chs cxs c (WParked g) -> g = pred (length chs).
Proof. intros Hc (ch & Hg & Hcl & _). eapply chans_ok_open; eauto. Qed.

(* changing the flags of one channel without touching its closed bit *)
Lemma chans_ok_upd chs g c c' :
  chans_ok chs -> nth_error chs g = Some c -> ch_closed c' = ch_closed c -> chans_ok (upd chs g c').
Proof.
  intros [Hne Hc] Hg Hcl. split.
  - intros E. apply (f_equal (@length chan)) in E. rewrite upd_length in E.
    destruct chs; [congruence | discriminate].
  - intros h d Hh. rewrite upd_length. rewrite nth_upd in Hh.
    destruct (Nat.eq_dec g h) as [->|Hne'].
    + destruct (lt_dec h (length chs)); [|discriminate]. inversion Hh; subst d.
      rewrite Hcl. apply Hc; exact Hg.
    + apply Hc; exact Hh.
Qed.

(* close the current generation and append a fresh one (Broadcast) *)
Lemma chans_ok_bc chs c t :
  chans_ok chs -> nth_error chs (pred (length chs)) = Some c ->
  chans_ok (upd chs (pred (length chs)) (mkCh t true) ++ [mkCh false false]).
Proof.
  intros Hok Hg. pose proof (chans_ok_cur chs Hok) as Hlt. destruct Hok as [Hne Hc]. split.
  - intros E. apply (f_equal (@length chan)) in E. rewrite app_length in E. simpl in E. lia.
  - intros h d Hh. rewrite app_length, upd_length. simpl length.
    replace (pred (length chs + 1)) with (length chs) by lia.
    destruct (lt_dec h (length chs)) as [Hlt'|Hge].
    + rewrite nth_error_app1 in Hh by (rewrite upd_length; exact Hlt').
      rewrite nth_upd in Hh. destruct (Nat.eq_dec (pred (length chs)) h) as [E|Hne'].
      * destruct (lt_dec (pred (length chs)) (length chs)); [|lia]. inversion Hh; subst d. simpl.
        symmetry. apply negb_true_iff. apply Nat.eqb_neq. lia.
      * rewrite (Hc h d Hh).
        replace (h =? pred (length chs)) with false by (symmetry; apply Nat.eqb_neq; lia).
        replace (h =? length chs) with false by (symmetry; apply Nat.eqb_neq; lia). reflexivity.
    + rewrite nth_error_app2 in Hh by (rewrite upd_length; lia). rewrite upd_length in Hh.
      destruct (h - length chs) as [|k] eqn:Ek.
      * simpl in Hh. inversion Hh; subst d. simpl.
        replace (h =? length chs) with true by (symmetry; apply Nat.eqb_eq; lia). reflexivity.
      * simpl in Hh. destruct k; discriminate.
Qed.

(* how the Locker changes together with one waiter's pc *)
Definition lock_tr (l l' : option nat) (w : nat) (h h' : bool) : Prop :=
  (l' = l /\ h = h') \/ (l = None /\ l' = Some w /\ h' = true) \/ (h = true /\ l' = None /\ h' = false).

Lemma InvC_upd wl chs cxs l w x x' l' :
  InvC wl chs cxs l -> nth_error wl w = Some x ->
  pcok chs cxs (w_ctx x') (w_pc x') ->
  lock_tr l l' w (holds_lock (w_pc x)) (holds_lock (w_pc x')) ->
  InvC (upd wl w x') chs cxs l'.
Proof.
  intros (Hc & Hw & Hl) Hx Hp Ht.
  pose proof (nth_lt _ _ _ Hx) as Hlen.
  split; [exact Hc|]. split.
  - intros v y Hy. rewrite nth_upd in Hy. destruct (Nat.eq_dec w v) as [Ev|Hne].
    + subst v. destruct (lt_dec w (length wl)); [|lia]. inversion Hy; subst y. split; [exact Hp|].
      intros Hh. destruct Ht as [[El E]|[(_ & El & _)|(_ & _ & E)]].
      * rewrite El. apply (Hw w x Hx). congruence.
      * exact El.
      * congruence.
    + destruct (Hw v y Hy) as [Hpy Hly]. split; [exact Hpy|].
      intros Hh. specialize (Hly Hh). destruct Ht as [[El _]|[(E & _ & _)|(E & _ & _)]].
      * rewrite El; exact Hly.
      * congruence.
      * destruct (Hw w x Hx) as [_ Hlx]. specialize (Hlx E). congruence.
  - intros v Hv. destruct Ht as [[El E]|[(_ & El & E)|(_ & El & _)]].
    + rewrite El in Hv. destruct (Hl v Hv) as (y & Hy & Hh).
      rewrite nth_upd. destruct (Nat.eq_dec w v) as [Ev|Hne].
      * subst v. destruct (lt_dec w (length wl)); [|lia]. exists x'. split; [reflexivity|].
        assert (y = x) by congruence. subst y. congruence.
      * exists y. auto.
    + rewrite El in Hv. inversion Hv; subst v. exists x'. rewrite nth_upd.
      destruct (Nat.eq_dec w w); [|congruence]. destruct (lt_dec w (length wl)); [|lia]. auto.
    + congruence.
Qed.

Lemma InvC_map wl chs cxs l chs' cxs' f :
  InvC wl chs cxs l -> chans_ok chs' ->
  (forall w x, nth_error wl w = Some x -> pcok chs cxs (w_ctx x) (w_pc x) ->
               pcok chs' cxs' (w_ctx (f x)) (w_pc (f x)) /\
               holds_lock (w_pc (f x)) = holds_lock (w_pc x)) ->
  InvC (map f wl) chs' cxs' l.
Proof.
  intros (Hc & Hw & Hl) Hc' Hf. split; [exact Hc'|]. split.
  - intros w y Hy. rewrite nth_map in Hy. destruct (nth_error wl w) as [x|] eqn:Hx; [|discriminate].
    simpl in Hy. inversion Hy; subst y. destruct (Hw w x Hx) as [Hp Hh].
    destruct (Hf w x Hx Hp) as [Hp' Hh']. split; [exact Hp'|]. rewrite Hh'. exact Hh.
  - intros w Hlw. destruct (Hl w Hlw) as (x & Hx & Hh). exists (f x). rewrite nth_map, Hx. split; [reflexivity|].
    destruct (Hw w x Hx) as [Hp _]. destruct (Hf w x Hx Hp) as [_ Hh']. congruence.
Qed.

Lemma InvC_same_ws wl chs cxs l chs' cxs' :
  InvC wl chs cxs l -> chans_ok chs' ->
  (forall w x, nth_error wl w = Some x -> pcok chs cxs (w_ctx x) (w_pc x) ->
               pcok chs' cxs' (w_ctx x) (w_pc x)) ->
  InvC wl chs' cxs' l.
Proof.
  intros HI Hc' Hf. rewrite <- (map_id wl). eapply InvC_map; [exact HI | exact Hc' |].
  intros w x Hx Hp. split; [eapply Hf; eauto | reflexivity].
Qed.

Lemma Inv_init cfg nctx : Inv (init cfg nctx).
Proof.
  unfold Inv, init; simpl. split; [|split].
  - split; [discriminate|]. intros [|g] c Hg; simpl in Hg; [inversion Hg; reflexivity|].
    destruct g; discriminate.
  - intros w x Hx. rewrite nth_map in Hx. destruct (nth_error cfg w); [|discriminate].
    simpl in Hx. inversion Hx; subst x. simpl. split; [exact I | discriminate].
  - discriminate.
Qed.

(* ------------------------------------------------------------------ *)
(* step inversion tactic                                               *)
(* ------------------------------------------------------------------ *)

Ltac dstep Hs :=
  repeat match type of Hs with
         | match ?e with _ => _ end = Some _ =>
             let E := fresh "E" in destruct e eqn:E; try discriminate Hs
         end.

Lemma existsb_parked_none s :
  chans_ok (chans s) ->
  (forall w x, nth_error (ws s) w = Some x -> pcok (chans s) (ctxs s) (w_ctx x) (w_pc x)) ->
  existsb (is_parked_on (cur s)) (ws s) = false ->
  forall w x, nth_error (ws s) w = Some x -> is_parked (w_pc x) = false.
Proof.
  intros Hc Hw He w x Hx. destruct (w_pc x) eqn:Hp; try reflexivity. exfalso.
  pose proof (Hw w x Hx) as Hpx. rewrite Hp in Hpx.
  pose proof (pcok_parked_cur _ _ _ _ Hc Hpx) as Hg.
  assert (Ht : existsb (is_parked_on (cur s)) (ws s) = true).
  { apply existsb_exists. exists x. split; [eapply nth_error_In; eauto|].
    unfold is_parked_on. rewrite Hp. apply Nat.eqb_eq. unfold cur. congruence. }
  congruence.
Qed.

(* single-waiter cases of the preservation proof *)
Ltac t_upd :=
  match goal with
  | HI : InvC (ws ?s) _ _ _, Hx : getw ?s ?w = Some ?x, Hp : w_pc ?x = _ |- _ =>
      let Hpx := fresh "Hpx" in
      pose proof (proj1 (proj1 (proj2 HI) w x Hx)) as Hpx; rewrite Hp in Hpx; simpl in Hpx;
      eapply InvC_upd; [exact HI | exact Hx | simpl | rewrite Hp; simpl; unfold lock_tr; auto ]
  end.

Lemma cdone_upd_req cxs c c' :
  nth_error cxs c = Some CLive -> cdone (upd cxs c CReq) c' = cdone cxs c'.
Proof.
  intros H. unfold cdone. rewrite nth_upd. destruct (Nat.eq_dec c c') as [->|Hne]; [|reflexivity].
  rewrite H. destruct (lt_dec c' (length cxs)); reflexivity.
Qed.

Lemma cdone_upd_other cxs c c' v : c <> c' -> cdone (upd cxs c v) c' = cdone cxs c'.
Proof. intros H. unfold cdone. rewrite nth_error_upd_other by exact H. reflexivity. Qed.

Lemma pcok_cxs chs cxs cxs' c p :
  cdone cxs' c = cdone cxs c -> pcok chs cxs c p -> pcok chs cxs' c p.
Proof.
  intros H Hp. destruct p; simpl in *; auto.
  destruct Hp as (ch & H1 & H2 & H3 & H4). exists ch. rewrite H. auto.
Qed.

Lemma pcok_not_parked chs chs' cxs cxs' c p :
  is_parked p = false -> length chs <= length chs' -> pcok chs cxs c p -> pcok chs' cxs' c p.
Proof. intros Hn Hl Hp. destruct p; simpl in *; auto; try lia; try discriminate. Qed.

Lemma inv_step s l s' : Inv s -> step s l = Some s' -> Inv s'.
Proof.
  unfold Inv. intros HI Hs. unfold step in Hs.
  destruct l; dstep Hs; try discriminate Hs; injection Hs as Hs; subst s'; simpl;
    try exact HI; try (t_upd; auto; fail).
  - (* LCancel, live context *)
    eapply InvC_same_ws; [exact HI | exact (proj1 HI) |].
    intros v y Hy Hp. eapply pcok_cxs; [|exact Hp]. apply cdone_upd_req; assumption.
  - (* LRelease *)
    match goal with Hx : getw s ?w = Some ?x |- _ =>
      eapply InvC_upd; [exact HI | exact Hx | simpl; exact (proj1 (proj1 (proj2 HI) w x Hx))
                       | simpl; left; split; reflexivity] end.
  - (* TSnapshot *)
    t_upd. apply chans_ok_cur. exact (proj1 HI).
  - (* TSelCh, token *)
    match goal with Hg : nth_error (chans s) ?g = Some ?c, Hcl : ch_closed ?c = false,
                    Ht : ch_tok ?c = true, Hx : getw s ?w = Some ?x, Hp : w_pc ?x = _ |- _ =>
      assert (HI' : InvC (ws s) (upd (chans s) g (mkCh false false)) (ctxs s) (lck s));
      [ eapply InvC_same_ws; [exact HI | eapply chans_ok_upd; [exact (proj1 HI) | exact Hg | simpl; congruence] |];
        intros v y Hy Hpy; destruct (w_pc y) eqn:Hq; simpl in *; try rewrite upd_length; auto;
        destruct Hpy as (ch & H1 & H2 & H3 & H4); exists ch; rewrite nth_upd;
        destruct (Nat.eq_dec g g0) as [Eg|Eg]; [subst g0; congruence | auto]
      | eapply InvC_upd; [exact HI' | exact Hx | simpl; exact I | rewrite Hp; simpl; left; auto] ]
    end.
  - (* TPark *)
    t_upd.
    match goal with Hg : nth_error (chans s) ?g = Some ?c, Hb : (_ || _ || _) = false |- _ =>
      apply orb_false_iff in Hb; destruct Hb as [Hb Hd]; apply orb_false_iff in Hb; destruct Hb as [Hb1 Hb2];
      exists c; auto end.
  - (* TSigHandoff *)
    match goal with Hx : getw s ?w = Some ?x, Hb : is_parked_on _ ?x = true |- _ =>
      unfold is_parked_on in Hb; destruct (w_pc x) eqn:Hp; try discriminate Hb end.
    t_upd. exact I.
  - (* TSigBuffer *)
    match goal with Hg : nth_error (chans s) (cur s) = Some _, Hb : (_ || _) = false |- _ =>
      rename Hg into Hg'; apply orb_false_iff in Hb; destruct Hb as [Hb1 Hb2] end.
    eapply InvC_same_ws; [exact HI | eapply chans_ok_upd; [exact (proj1 HI) | exact Hg' | reflexivity] |].
    intros v y Hy Hpy. eapply pcok_not_parked with (chs := chans s) (cxs := ctxs s); [| rewrite upd_length; apply le_n | exact Hpy].
    eapply existsb_parked_none; [exact (proj1 HI) | | exact Hb1 | exact Hy].
    intros v' y' Hy'. exact (proj1 (proj1 (proj2 HI) v' y' Hy')).
  - (* TBroadcast *)
    match goal with Hg : nth_error (chans s) (cur s) = Some ?c |- _ =>
      eapply InvC_map; [exact HI | apply chans_ok_bc with (c := c); [exact (proj1 HI) | exact Hg] |] end.
    intros v y Hy Hpy. unfold is_parked_on. destruct (w_pc y) eqn:Hq; simpl; rewrite ?Hq; simpl;
      rewrite ?app_length, ?upd_length; simpl in Hpy; auto; try (split; [lia | reflexivity]).
    pose proof (pcok_parked_cur _ _ _ _ (proj1 HI) Hpy) as Eg. unfold cur.
    replace (pred (length (chans s)) =? g) with true by (symmetry; apply Nat.eqb_eq; congruence).
    simpl. auto.
  - (* TCancelEff *)
    eapply InvC_map; [exact HI | exact (proj1 HI) |].
    intros v y Hy Hpy. destruct (w_pc y) eqn:Hq; simpl; rewrite ?Hq; simpl; simpl in Hpy; auto.
    destruct (w_ctx y =? c) eqn:Ec; simpl; [auto|]. rewrite Hq. simpl. split; [|reflexivity].
    destruct Hpy as (ch & H1 & H2 & H3 & H4). exists ch. rewrite cdone_upd_other; auto.
    apply Nat.eqb_neq in Ec. congruence.
Qed.

Lemma qstep_cases s l s' :
  qstep s l = Some s' -> (l = LQuiesce /\ s' = s /\ quiescent s = true) \/ step s l = Some s'.
Proof.
  destruct l; simpl; auto. destruct (quiescent s) eqn:Q; [|discriminate].
  intros H; inversion H; auto.
Qed.

Lemma step_qstep s l s' : step s l = Some s' -> qstep s l = Some s'.
Proof. destruct l; simpl; auto. discriminate. Qed.

Lemma inv_qstep s l s' : Inv s -> qstep s l = Some s' -> Inv s'.
Proof.
  intros HI Hq. destruct (qstep_cases _ _ _ Hq) as [(_ & -> & _)|Hs]; [exact HI|].
  eapply inv_step; eauto.
Qed.

Theorem reachable_inv cfg nctx s : reachable qstep (init cfg nctx) s -> Inv s.
Proof. apply invariant_rule; [apply Inv_init | exact inv_qstep]. Qed.

Lemma reachable_qstep cfg nctx s l s' :
  reachable qstep (init cfg nctx) s -> qstep s l = Some s' -> reachable qstep (init cfg nctx) s'.
Proof. apply reachable_step. Qed.

Lemma reachable_run cfg nctx s ls s' :
  reachable qstep (init cfg nctx) s -> run qstep s ls = Some s' -> reachable qstep (init cfg nctx) s'.
Proof.
  intros [ls0 H0] Hr. exists (ls0 ++ ls). rewrite run_app, H0. exact Hr.
Qed.

(* ------------------------------------------------------------------ *)
(* the per-waiter transition relation induced by each label            *)
(* ------------------------------------------------------------------ *)

Definition pc_tr (l : lab) (p p' : wpc) : bool :=
  match l, p, p' with
  | LSpawn _, WIdle, WStart => true
  | TLockL _, WStart, WHasLock => true
  | LCallWait _, WHasLock, WCalled => true
  | TSnapshot _, WCalled, WSnap _ => true
  | LUnlockEnter _, WSnap g, WInUnlock h false => g =? h
  | TRealUnlock _, WInUnlock g false, WInUnlock h true => g =? h
  | LUnlockExit _, WInUnlock g true, WSelect h => g =? h
  | TSelCh _, WSelect _, WWoken => true
  | TSelCtx _, WSelect _, WCtxErr => true
  | TPark _, WSelect g, WParked h => g =? h
  | TRelock _, WWoken, WLocked => true
  | LRetWait _ true true, WLocked, WRetNil => true
  | LRetWait _ false false, WCtxErr, WDone => true
  | THarnessUnlock _, WRetNil, WDone => true
  | TSigHandoff _, WParked _, WWoken => true
  | TBroadcast, WParked _, WWoken => true
  | TCancelEff _, WParked _, WCtxErr => true
  | _, _, _ => false
  end.

Definition wstep (l : lab) (x x' : waiter) : Prop :=
  w_ctx x' = w_ctx x /\ w_gate x' = w_gate x /\
  (w_pc x' = w_pc x \/ pc_tr l (w_pc x) (w_pc x') = true).

Lemma wstep_refl l x : wstep l x x.
Proof. unfold wstep; auto. Qed.

Lemma wstep_upd l wl v y y' :
  nth_error wl v = Some y -> wstep l y y' ->
  forall w x, nth_error wl w = Some x -> exists x', nth_error (upd wl v y') w = Some x' /\ wstep l x x'.
Proof.
  intros Hy Hst w x Hx. rewrite nth_upd. destruct (Nat.eq_dec v w) as [->|Hne].
  - destruct (lt_dec w (length wl)) as [_|Hge]; [|exfalso; apply Hge; eapply nth_lt; eauto].
    exists y'. split; [reflexivity|]. congruence.
  - exists x. split; [exact Hx | apply wstep_refl].
Qed.

Lemma wstep_map l wl f :
  (forall x, wstep l x (f x)) ->
  forall w x, nth_error wl w = Some x -> exists x', nth_error (map f wl) w = Some x' /\ wstep l x x'.
Proof. intros Hf w x Hx. exists (f x). rewrite nth_map, Hx. split; [reflexivity | apply Hf]. Qed.

Lemma wstep_same l wl :
  forall w x, nth_error wl w = Some x -> exists x', nth_error wl w = Some x' /\ wstep l x x'.
Proof. intros w x Hx. exists x. split; [exact Hx | apply wstep_refl]. Qed.

Ltac t_wstep :=
  match goal with
  | Hx : nth_error (ws ?s) ?w = Some ?x, Hp : w_pc ?x = _ |- _ =>
      eapply wstep_upd; [exact Hx | unfold wstep; simpl; rewrite Hp; simpl; rewrite ?Nat.eqb_refl; auto]
  end.

Lemma step_pc s l s' :
  step s l = Some s' ->
  forall w x, getw s w = Some x -> exists x', getw s' w = Some x' /\ wstep l x x'.
Proof.
  intros Hs. unfold step in Hs. unfold getw in *.
  destruct l; dstep Hs; try discriminate Hs; injection Hs as Hs; subst s'; simpl;
    try apply wstep_same; try (t_wstep; fail).
  - (* LRelease *)
    match goal with Hx : nth_error (ws s) _ = Some _ |- _ =>
      eapply wstep_upd; [exact Hx | unfold wstep; simpl; auto] end.
  - (* TSigHandoff *)
    match goal with Hx : nth_error (ws s) _ = Some ?x, Hb : is_parked_on _ ?x = true |- _ =>
      unfold is_parked_on in Hb; destruct (w_pc x) eqn:Hp; try discriminate Hb end.
    t_wstep.
  - (* TBroadcast *)
    apply wstep_map. intros x. unfold is_parked_on, wstep.
    destruct (w_pc x) eqn:Hp; auto. destruct (cur s =? g); simpl; rewrite ?Hp; auto.
  - (* TCancelEff *)
    apply wstep_map. intros x. unfold wstep.
    destruct (w_pc x) eqn:Hp; auto. destruct (w_ctx x =? c); simpl; rewrite ?Hp; auto.
Qed.

Lemma step_len s l s' : step s l = Some s' -> length (ws s') = length (ws s).
Proof.
  intros Hs. unfold step in Hs.
  destruct l; dstep Hs; try discriminate Hs; injection Hs as Hs; subst s'; simpl;
    rewrite ?upd_length, ?map_length; reflexivity.
Qed.

Definition b2n (b : bool) : nat := if b then 1 else 0.

(* labels that take a parked waiter out of the parked state *)
Definition unparks (l : lab) : bool :=
  match l with TSigHandoff _ | TBroadcast | TCancelEff _ => true | _ => false end.

Ltac dmatch H :=
  repeat match type of H with
         | (match ?e with _ => _ end) = true => destruct e; try discriminate H
         end.

Lemma pc_tr_mono l p p' :
  pc_tr l p p' = true ->
  b2n (past_select p) <= b2n (past_select p') /\
  b2n (past_select p) + b2n (is_parked p) <= b2n (past_select p') + b2n (is_parked p').
Proof. intros H. unfold pc_tr in H. dmatch H; simpl; lia. Qed.

Lemma pc_tr_unpark l p p' :
  pc_tr l p p' = true -> unparks l = false -> b2n (is_parked p) <= b2n (is_parked p').
Proof. intros H. unfold pc_tr in H. dmatch H; simpl; intros; try lia; discriminate. Qed.

Lemma pc_tr_gen l p p' g :
  pc_tr l p p' = true -> gen_of p = Some g -> gen_of p' = Some g \/ past_select p' = true.
Proof.
  intros H. unfold pc_tr in H. dmatch H; simpl; intros Hg; try discriminate Hg; auto;
    apply Nat.eqb_eq in H; subst; auto.
Qed.

Lemma pc_tr_past l p p' : pc_tr l p p' = true -> past_select p = true -> past_select p' = true.
Proof. intros H. unfold pc_tr in H. dmatch H; simpl; auto. Qed.

Lemma pc_tr_parks l p p' :
  pc_tr l p p' = true -> is_parked p' = true -> exists w g, l = TPark w /\ p = WSelect g /\ p' = WParked g.
Proof.
  intros H. unfold pc_tr in H. dmatch H; simpl; intros Hp; try discriminate Hp.
  apply Nat.eqb_eq in H; subst. eauto.
Qed.

(* ------------------------------------------------------------------ *)
(* counting waiters                                                    *)
(* ------------------------------------------------------------------ *)

Fixpoint sumw (m : waiter -> nat) (l : list waiter) : nat :=
  match l with [] => 0 | x :: t => m x + sumw m t end.

Definition nparked (s : st) : nat := sumw (fun x => b2n (is_parked (w_pc x))) (ws s).
Definition npast (s : st) : nat := sumw (fun x => b2n (past_select (w_pc x))) (ws s).

Lemma sumw_add a b l : sumw (fun x => a x + b x) l = sumw a l + sumw b l.
Proof. induction l as [|x t IH]; simpl; [reflexivity | rewrite IH; lia]. Qed.

Lemma sumw_le m m' l : forall l',
  (forall w x, nth_error l w = Some x -> exists x', nth_error l' w = Some x' /\ m x <= m' x') ->
  sumw m l <= sumw m' l'.
Proof.
  induction l as [|x t IH]; intros l' H; simpl; [lia|].
  destruct (H 0 x eq_refl) as (x' & Hx' & Hle). destruct l' as [|y t']; [discriminate|].
  simpl in Hx'. inversion Hx'; subst y. simpl.
  assert (sumw m t <= sumw m' t'); [|lia].
  apply IH. intros w z Hz. exact (H (S w) z Hz).
Qed.

Lemma sumw_upd m l n x y :
  nth_error l n = Some y -> sumw m (upd l n x) + m y = sumw m l + m x.
Proof.
  revert n; induction l as [|h t IH]; intros [|n] H; simpl in *; try discriminate.
  - inversion H; subst. lia.
  - specialize (IH n H). lia.
Qed.

Lemma sumw_zero m l : (forall w x, nth_error l w = Some x -> m x = 0) -> sumw m l = 0.
Proof.
  induction l as [|h t IH]; intros H; simpl; [reflexivity|].
  rewrite (H 0 h eq_refl). rewrite IH; [reflexivity|]. intros w x Hx. exact (H (S w) x Hx).
Qed.

Lemma step_counts_mono s l s' :
  step s l = Some s' ->
  npast s <= npast s' /\ npast s + nparked s <= npast s' + nparked s'.
Proof.
  intros Hs. pose proof (step_pc _ _ _ Hs) as Hpc. unfold getw in Hpc. unfold npast, nparked.
  rewrite <- !sumw_add. split; apply sumw_le; intros w x Hx;
    destruct (Hpc w x Hx) as (x' & Hx' & _ & _ & Hp); exists x'; (split; [exact Hx'|]);
    (destruct Hp as [Hp|Hp]; [rewrite Hp; lia | apply pc_tr_mono in Hp; lia]).
Qed.

Lemma step_parked_mono s l s' :
  step s l = Some s' -> unparks l = false -> nparked s <= nparked s'.
Proof.
  intros Hs Hu. pose proof (step_pc _ _ _ Hs) as Hpc. unfold getw in Hpc. unfold nparked.
  apply sumw_le; intros w x Hx.
  destruct (Hpc w x Hx) as (x' & Hx' & _ & _ & Hp); exists x'; (split; [exact Hx'|]).
  destruct Hp as [Hp|Hp]; [rewrite Hp; lia | eapply pc_tr_unpark; eauto].
Qed.

(* a hand-off wakes exactly one waiter that is parked on the current generation *)
Lemma step_handoff s w s' :
  step s (TSigHandoff w) = Some s' ->
  ctl s = CtlSig /\
  exists x, getw s w = Some x /\ w_pc x = WParked (cur s) /\ s' = with_ctl (setw s w (set_pc x WWoken)) CtlSigDone.
Proof.
  intros Hs. unfold step in Hs. dstep Hs. injection Hs as Hs; subst s'. split; [first [assumption | reflexivity]|].
  match goal with Hx : getw s w = Some ?x, Hb : is_parked_on _ ?x = true |- _ =>
    exists x; unfold is_parked_on in Hb; destruct (w_pc x) eqn:Hp; try discriminate Hb;
    apply Nat.eqb_eq in Hb; subst; auto end.
Qed.

Lemma step_handoff_counts s w s' :
  step s (TSigHandoff w) = Some s' -> nparked s = S (nparked s') /\ npast s' = S (npast s).
Proof.
  intros Hs. destruct (step_handoff _ _ _ Hs) as (_ & x & Hx & Hp & ->). unfold getw in Hx.
  unfold nparked, npast; simpl.
  pose proof (sumw_upd (fun x => b2n (is_parked (w_pc x))) _ _ (set_pc x WWoken) _ Hx) as H1.
  pose proof (sumw_upd (fun x => b2n (past_select (w_pc x))) _ _ (set_pc x WWoken) _ Hx) as H2.
  simpl in H1, H2. rewrite Hp in H1, H2. simpl in H1, H2. lia.
Qed.

(* the buffered / dropped outcomes of Signal only happen when nobody is parked *)
Lemma step_bufdrop s l s' :
  Inv s -> step s l = Some s' -> l = TSigBuffer \/ l = TSigDrop ->
  existsb (is_parked_on (cur s)) (ws s) = false /\ nparked s = 0.
Proof.
  intros HI Hs Hl.
  assert (He : existsb (is_parked_on (cur s)) (ws s) = false).
  { unfold step in Hs. destruct Hl; subst l; dstep Hs;
      match goal with Hb : (_ || _) = false |- _ => apply orb_false_iff in Hb; exact (proj1 Hb) end. }
  split; [exact He|]. unfold nparked. apply sumw_zero. intros w x Hx.
  rewrite (existsb_parked_none s (proj1 HI) (fun v y Hy => proj1 (proj1 (proj2 HI) v y Hy)) He w x Hx).
  reflexivity.
Qed.

(* ------------------------------------------------------------------ *)
(* the controller's program counter                                    *)
(* ------------------------------------------------------------------ *)

Definition ctl_after (l : lab) (c : cpc) : cpc :=
  match l with
  | LCallSignal => CtlSig
  | TSigHandoff _ | TSigBuffer | TSigDrop => CtlSigDone
  | LRetSignal | LRetBroadcast => CtlIdle
  | LCallBroadcast => CtlBc
  | TBroadcast => CtlBcDone
  | _ => c
  end.

Definition ctl_pre (l : lab) (c : cpc) : bool :=
  match l with
  | LCallSignal | LCallBroadcast | LCancel _ | LRelease _ => cpc_eqb c CtlIdle
  | TSigHandoff _ | TSigBuffer | TSigDrop => cpc_eqb c CtlSig
  | LRetSignal => cpc_eqb c CtlSigDone
  | TBroadcast => cpc_eqb c CtlBc
  | LRetBroadcast => cpc_eqb c CtlBcDone
  | _ => true
  end.

Lemma step_ctl s l s' :
  step s l = Some s' -> ctl_pre l (ctl s) = true /\ ctl s' = ctl_after l (ctl s).
Proof.
  intros Hs. unfold step in Hs.
  destruct l; dstep Hs; try discriminate Hs; injection Hs as Hs; subst s'; simpl; auto;
    match goal with E : ctl s = _ |- _ => rewrite E; auto end.
Qed.

Lemma step_chans_len s l s' : step s l = Some s' -> length (chans s) <= length (chans s').
Proof.
  intros Hs. unfold step in Hs.
  destruct l; dstep Hs; try discriminate Hs; injection Hs as Hs; subst s'; simpl;
    rewrite ?app_length, ?upd_length; simpl; lia.
Qed.

Lemma step_ctx_done s l s' c : step s l = Some s' -> ctx_done s c = true -> ctx_done s' c = true.
Proof.
  intros Hs. unfold step in Hs. rewrite !ctx_done_cdone.
  destruct l; dstep Hs; try discriminate Hs; injection Hs as Hs; subst s'; simpl; auto.
  - (* LCancel *) rewrite cdone_upd_req by assumption. auto.
  - (* TCancelEff *)
    match goal with |- cdone _ _ = true -> cdone (upd _ ?c0 _) _ = true =>
      intros Hd; destruct (Nat.eq_dec c0 c) as [->|Hne];
      [ unfold cdone; rewrite nth_upd; destruct (Nat.eq_dec c c); [|congruence];
        destruct (lt_dec c (length (ctxs s))) as [_|Hge]; [reflexivity|];
        exfalso; apply Hge; eapply nth_lt; eassumption
      | rewrite cdone_upd_other by exact Hne; exact Hd ] end.
Qed.

(* ------------------------------------------------------------------ *)
(* Signal: the count version                                           *)
(* ------------------------------------------------------------------ *)

Definition count (f : lab -> bool) (ls : list lab) : nat := length (filter f ls).

(* the critical section of one Signal call *)
Definition is_sigcs (l : lab) : bool :=
  match l with TSigHandoff _ | TSigBuffer | TSigDrop => true | _ => false end.
Definition is_handoff (l : lab) : bool := match l with TSigHandoff _ => true | _ => false end.
Definition is_retsig (l : lab) : bool := match l with LRetSignal => true | _ => false end.
Definition is_bc_cancel (l : lab) : bool :=
  match l with TBroadcast | TCancelEff _ => true | _ => false end.

Lemma count_cons f l ls : count f (l :: ls) = b2n (f l) + count f ls.
Proof. unfold count; simpl. destruct (f l); reflexivity. Qed.

(* every completed Signal call has executed its critical section *)
Lemma retsig_le_sigcs : forall ls s s',
  run qstep s ls = Some s' ->
  count is_retsig ls <= count is_sigcs ls + b2n (cpc_eqb (ctl s) CtlSigDone).
Proof.
  induction ls as [|l ls IH]; intros s s' Hr; simpl in Hr.
  - unfold count; simpl; lia.
  - destruct (qstep s l) as [s1|] eqn:Hq; [|discriminate]. specialize (IH s1 s' Hr).
    rewrite !count_cons.
    destruct (qstep_cases _ _ _ Hq) as [(-> & -> & _)|Hs]; [simpl; exact IH|].
    destruct (step_ctl _ _ _ Hs) as [Hpre Hpost]. rewrite Hpost in IH.
    destruct l; simpl in *; destruct (ctl s); simpl in *; try discriminate Hpre; lia.
Qed.

(* the state form: [m] Signal critical sections executed from a state with [k] parked waiters
   move at least [min k m] more waiters past the select, whatever else happens in between *)
Lemma signals_past_inv : forall ls s s',
  Inv s -> run qstep s ls = Some s' ->
  npast s + min (nparked s) (count is_sigcs ls) <= npast s'.
Proof.
  induction ls as [|l ls IH]; intros s s' HI Hr; simpl in Hr.
  - inversion Hr; subst. unfold count; simpl. lia.
  - destruct (qstep s l) as [s1|] eqn:Hq; [|discriminate].
    pose proof (inv_qstep _ _ _ HI Hq) as HI1. specialize (IH s1 s' HI1 Hr).
    rewrite count_cons.
    destruct (qstep_cases _ _ _ Hq) as [(-> & -> & _)|Hs]; [simpl; exact IH|].
    destruct (step_counts_mono _ _ _ Hs) as [M1 M2].
    destruct (is_sigcs l) eqn:Hc; simpl.
    + destruct l; try discriminate Hc.
      * destruct (step_handoff_counts _ _ _ Hs) as [H1 H2]. lia.
      * destruct (step_bufdrop _ _ _ HI Hs (or_introl eq_refl)) as [_ H0]. lia.
      * destruct (step_bufdrop _ _ _ HI Hs (or_intror eq_refl)) as [_ H0]. lia.
    + lia.
Qed.

(* the label form: without Broadcast and context expiry in between, at least [min k m] of the
   [m] Signal critical sections are hand-offs to a parked waiter *)
Lemma signals_handoffs_inv : forall ls s s',
  Inv s -> run qstep s ls = Some s' ->
  forallb (fun l => negb (is_bc_cancel l)) ls = true ->
  min (nparked s) (count is_sigcs ls) <= count is_handoff ls.
Proof.
  induction ls as [|l ls IH]; intros s s' HI Hr Hall; simpl in Hr.
  - unfold count; simpl. lia.
  - destruct (qstep s l) as [s1|] eqn:Hq; [|discriminate].
    simpl in Hall. apply andb_true_iff in Hall. destruct Hall as [Hl Hall].
    pose proof (inv_qstep _ _ _ HI Hq) as HI1. specialize (IH s1 s' HI1 Hr Hall).
    rewrite !count_cons.
    destruct (qstep_cases _ _ _ Hq) as [(-> & -> & _)|Hs]; [simpl; exact IH|].
    destruct (is_sigcs l) eqn:Hc; simpl.
    + destruct l; try discriminate Hc; simpl.
      * destruct (step_handoff_counts _ _ _ Hs) as [H1 H2]. lia.
      * destruct (step_bufdrop _ _ _ HI Hs (or_introl eq_refl)) as [_ H0]. lia.
      * destruct (step_bufdrop _ _ _ HI Hs (or_intror eq_refl)) as [_ H0]. lia.
    + assert (Hu : unparks l = false) by (destruct l; simpl in *; congruence).
      assert (Hh : is_handoff l = false) by (destruct l; simpl in *; congruence).
      pose proof (step_parked_mono _ _ _ Hs Hu) as Hm. rewrite Hh. simpl. lia.
Qed.

(* ================================================================== *)
(* the property-level theorems (restated in Properties/C16.v)          *)
(* ================================================================== *)

Section Props.
  Variables (cfg : list (gpos * nat)) (nctx : nat).
  Notation Reach := (reachable qstep (init cfg nctx)).

  (* ---- mutual exclusion of the caller's critical sections ---- *)
  Theorem cond_lock_mutex s : Reach s ->
    (forall w, lck s = Some w <-> exists x, getw s w = Some x /\ holds_lock (w_pc x) = true) /\
    (forall w1 w2 x1 x2, getw s w1 = Some x1 -> getw s w2 = Some x2 ->
        holds_lock (w_pc x1) = true -> holds_lock (w_pc x2) = true -> w1 = w2).
  Proof.
    intros HR. destruct (reachable_inv _ _ _ HR) as (_ & Hw & Hl). unfold getw. split.
    - intros w. split; [apply Hl|]. intros (x & Hx & Hh). exact (proj2 (Hw w x Hx) Hh).
    - intros w1 w2 x1 x2 H1 H2 Hh1 Hh2.
      pose proof (proj2 (Hw w1 x1 H1) Hh1) as E1. pose proof (proj2 (Hw w2 x2 H2) Hh2) as E2. congruence.
  Qed.

  (* ---- a Wait that returns nil holds the lock again ---- *)
  Theorem cond_nil_holds_lock s w held s' : Reach s ->
    step s (LRetWait w true held) = Some s' -> held = true /\ lck s = Some w /\ lck s' = Some w.
  Proof.
    intros HR Hs. destruct (reachable_inv _ _ _ HR) as (_ & Hw & _).
    unfold step in Hs. dstep Hs. injection Hs as Hs; subst s'. simpl.
    match goal with Hx : getw s w = Some ?x, Hp : w_pc ?x = WLocked |- _ =>
      pose proof (proj2 (Hw w x Hx)) as Hh; rewrite Hp in Hh; specialize (Hh eq_refl) end.
    auto.
  Qed.

  (* ---- a Wait that returns the context's error does not hold the lock ---- *)
  Theorem cond_ctx_error_without_lock s w held s' : Reach s ->
    step s (LRetWait w false held) = Some s' -> held = false /\ lck s <> Some w /\ lck s' <> Some w.
  Proof.
    intros HR Hs. destruct (reachable_inv _ _ _ HR) as (_ & _ & Hl).
    unfold step in Hs. dstep Hs. injection Hs as Hs; subst s'. simpl.
    assert (Hn : lck s <> Some w).
    { intros Elk. destruct (Hl w Elk) as (y & Hy & Hh). unfold getw in *.
      match goal with Hx : nth_error (ws s) w = Some ?x, Hp : w_pc ?x = WCtxErr |- _ =>
        assert (y = x) by congruence; subst y; rewrite Hp in Hh; discriminate Hh end. }
    auto.
  Qed.

  (* ---- Broadcast ---- *)

  (* a waiter whose snapshot generation is closed never parks: once true, true for ever *)
  Lemma closed_gen_never_parks : forall ls s s' w x g,
    Inv s -> getw s w = Some x ->
    (gen_of (w_pc x) = Some g /\ g < cur s) \/ past_select (w_pc x) = true ->
    run qstep s ls = Some s' ->
    exists x', getw s' w = Some x' /\ is_parked (w_pc x') = false /\
               ((gen_of (w_pc x') = Some g /\ g < cur s') \/ past_select (w_pc x') = true).
  Proof.
    induction ls as [|l ls IH]; intros s s' w x g HI Hx HQ Hr; simpl in Hr.
    - inversion Hr; subst s'. exists x. split; [exact Hx|]. split; [|exact HQ].
      destruct (w_pc x) eqn:Hp; try reflexivity. exfalso.
      destruct HQ as [[Hg Hlt]|Hps]; [|discriminate Hps]. simpl in Hg. inversion Hg; subst g0.
      pose proof (proj1 (proj1 (proj2 HI) w x Hx)) as Hpx. rewrite Hp in Hpx.
      pose proof (pcok_parked_cur _ _ _ _ (proj1 HI) Hpx) as Eg. unfold cur in Hlt. lia.
    - destruct (qstep s l) as [s1|] eqn:Hq; [|discriminate].
      pose proof (inv_qstep _ _ _ HI Hq) as HI1.
      destruct (qstep_cases _ _ _ Hq) as [(_ & -> & _)|Hs]; [eapply IH; eauto|].
      destruct (step_pc _ _ _ Hs w x Hx) as (x1 & Hx1 & _ & _ & Hp).
      pose proof (step_chans_len _ _ _ Hs) as Hlen.
      eapply (IH s1 s' w x1 g HI1 Hx1); [|exact Hr].
      destruct HQ as [[Hg Hlt]|Hps].
      + destruct Hp as [Hp|Hp].
        * left. rewrite Hp. split; [exact Hg | unfold cur in *; lia].
        * destruct (pc_tr_gen _ _ _ _ Hp Hg) as [Hg'|Hps']; [left|right; exact Hps'].
          split; [exact Hg' | unfold cur in *; lia].
      + right. destruct Hp as [Hp|Hp]; [rewrite Hp; exact Hps | eapply pc_tr_past; eauto].
  Qed.

  Theorem cond_broadcast_wakes_all s : Reach s ->
    (* nobody is parked on a closed generation: every parked waiter is on the current, open one *)
    (forall w x g, getw s w = Some x -> w_pc x = WParked g ->
        g = cur s /\ exists c, nth_error (chans s) g = Some c /\ ch_closed c = false) /\
    (* a snapshot generation exists, and it is closed exactly when a Broadcast came after it *)
    (forall w x g, getw s w = Some x -> gen_of (w_pc x) = Some g ->
        exists c, nth_error (chans s) g = Some c /\ (ch_closed c = true <-> g <> cur s)) /\
    (* at the select on a closed generation the channel arm is enabled and parking is not *)
    (forall w x g c, getw s w = Some x -> w_pc x = WSelect g ->
        nth_error (chans s) g = Some c -> ch_closed c = true ->
        enabled s (TSelCh w) = true /\ enabled s (TPark w) = false) /\
    (* the Broadcast step wakes every parked waiter and closes the generation of every waiter
       that has taken its snapshot but is not parked yet *)
    (forall s', step s TBroadcast = Some s' ->
        cur s' = S (cur s) /\
        forall w x, getw s w = Some x ->
          (is_parked (w_pc x) = true -> getw s' w = Some (set_pc x WWoken)) /\
          (forall g, gen_of (w_pc x) = Some g -> is_parked (w_pc x) = false ->
              getw s' w = Some x /\ exists c, nth_error (chans s') g = Some c /\ ch_closed c = true)) /\
    (* ... and such a waiter can never park afterwards: its select takes the channel or ctx arm *)
    (forall w x g c ls s', getw s w = Some x -> gen_of (w_pc x) = Some g ->
        nth_error (chans s) g = Some c -> ch_closed c = true -> run qstep s ls = Some s' ->
        exists x', getw s' w = Some x' /\ is_parked (w_pc x') = false /\
                   (gen_of (w_pc x') = Some g \/ past_select (w_pc x') = true)).
  Proof.
    intros HR. pose proof (reachable_inv _ _ _ HR) as HI. destruct HI as (Hc & Hw & Hl).
    unfold getw. split; [|split; [|split; [|split]]].
    - intros w x g Hx Hp. pose proof (proj1 (Hw w x Hx)) as Hpx. rewrite Hp in Hpx.
      split; [exact (pcok_parked_cur _ _ _ _ Hc Hpx)|].
      destruct Hpx as (ch & H1 & H2 & _). eauto.
    - intros w x g Hx Hg. pose proof (proj1 (Hw w x Hx)) as Hpx.
      assert (Hlt : g < length (chans s)).
      { destruct (w_pc x); simpl in Hg; try discriminate Hg; inversion Hg; subst; simpl in Hpx; auto.
        destruct Hpx as (ch & H1 & _). eapply nth_lt; eauto. }
      destruct (nth_error (chans s) g) as [c|] eqn:Ec; [|apply nth_error_None in Ec; lia].
      exists c. split; [reflexivity|]. unfold cur. eapply chans_ok_closed; eauto.
    - intros w x g c Hx Hp Hg Hcl. unfold enabled, step, getw. rewrite Hx, Hp, Hg, Hcl. simpl. auto.
    - intros s' Hs.
      assert (HI' : Inv s') by (eapply inv_step; [exact (conj Hc (conj Hw Hl)) | exact Hs]).
      unfold step in Hs. dstep Hs. injection Hs as Hs; subst s'. simpl.
      assert (Hcur : cur (with_ctl (with_ws (with_chans s (upd (chans s) (cur s)
                        {| ch_tok := ch_tok c; ch_closed := true |} ++ [{| ch_tok := false; ch_closed := false |}]))
                        (map (fun x => if is_parked_on (cur s) x then set_pc x WWoken else x) (ws s))) CtlBcDone)
                   = S (cur s)).
      { unfold cur; simpl. rewrite app_length, upd_length. simpl.
        pose proof (chans_ok_cur _ Hc). lia. }
      split; [exact Hcur|].
      intros w x Hx. rewrite nth_map, Hx. simpl. unfold is_parked_on. split.
      + intros Hpk. destruct (w_pc x) eqn:Hp; try discriminate Hpk.
        pose proof (proj1 (Hw w x Hx)) as Hpx. rewrite Hp in Hpx.
        pose proof (pcok_parked_cur _ _ _ _ Hc Hpx) as Eg. unfold cur.
        replace (pred (length (chans s)) =? g) with true by (symmetry; apply Nat.eqb_eq; congruence).
        reflexivity.
      + intros g Hg Hnp.
        assert (Enp : (match w_pc x with WParked h => cur s =? h | _ => false end) = false)
          by (destruct (w_pc x); try reflexivity; discriminate Hnp).
        rewrite Enp. split; [reflexivity|].
        pose proof (proj1 (Hw w x Hx)) as Hpx.
        assert (Hlt : g < length (chans s)).
        { destruct (w_pc x); simpl in Hg; try discriminate Hg; inversion Hg; subst; simpl in Hpx; auto.
          discriminate Hnp. }
        destruct HI' as (Hc' & _ & _). simpl in Hc'.
        match goal with |- exists _, nth_error ?L g = Some _ /\ _ =>
          destruct (nth_error L g) as [dch|] eqn:Ec0;
          [ exists dch; split; [reflexivity|];
            apply (proj2 (chans_ok_closed _ _ _ Hc' Ec0));
            rewrite app_length, upd_length; simpl; lia
          | apply nth_error_None in Ec0; rewrite app_length, upd_length in Ec0; simpl in Ec0; lia ] end.
    - intros w x g c ls s' Hx Hg Hch Hcl Hr.
      assert (Hlt : g < cur s).
      { pose proof (proj1 (chans_ok_closed _ _ _ Hc Hch) Hcl) as Hne.
        pose proof (nth_lt _ _ _ Hch). unfold cur. lia. }
      destruct (closed_gen_never_parks ls s s' w x g (conj Hc (conj Hw Hl)) Hx (or_introl (conj Hg Hlt)) Hr)
        as (x' & Hx' & Hnp & HQ).
      exists x'. split; [exact Hx'|]. split; [exact Hnp|]. destruct HQ as [[HQ _]|HQ]; auto.
  Qed.

  (* ---- Signal: what does hold ---- *)
  Theorem cond_signal_partial s : Reach s ->
    (* (i) a token is never stranded while someone is parked on its channel *)
    (forall g c w x, nth_error (chans s) g = Some c -> ch_tok c = true ->
        getw s w = Some x -> w_pc x <> WParked g) /\
    (forall g c w x, nth_error (chans s) g = Some c -> ch_tok c = true ->
        getw s w = Some x -> w_pc x = WSelect g ->
        enabled s (TPark w) = false /\ enabled s (TSelCh w) = true) /\
    (* (ii) with a parked waiter, a Signal can only be a hand-off *)
    (forall w x g, getw s w = Some x -> w_pc x = WParked g ->
        step s TSigBuffer = None /\ step s TSigDrop = None /\
        (ctl s = CtlSig -> enabled s (TSigHandoff w) = true)) /\
    (forall w s', step s (TSigHandoff w) = Some s' ->
        exists x, getw s w = Some x /\ w_pc x = WParked (cur s) /\ getw s' w = Some (set_pc x WWoken)) /\
    (* (iii) the ctx arm never consumes a token *)
    (forall w s', step s (TSelCtx w) = Some s' -> chans s' = chans s) /\
    (forall c s', step s (TCancelEff c) = Some s' -> chans s' = chans s).
  Proof.
    intros HR. pose proof (reachable_inv _ _ _ HR) as HI. destruct HI as (Hc & Hw & Hl).
    split; [|split; [|split; [|split; [|split]]]].
    - intros g c w x Hg Ht Hx Hp. pose proof (proj1 (Hw w x Hx)) as Hpx. rewrite Hp in Hpx.
      destruct Hpx as (ch & H1 & _ & H3 & _). congruence.
    - intros g c w x Hg Ht Hx Hp. unfold enabled, step. rewrite Hx, Hp, Hg, Ht.
      rewrite orb_true_r. simpl. destruct (ch_closed c); auto.
    - intros w x g Hx Hp. pose proof (proj1 (Hw w x Hx)) as Hpx. rewrite Hp in Hpx.
      pose proof (pcok_parked_cur _ _ _ _ Hc Hpx) as Eg.
      assert (Hpo : is_parked_on (cur s) x = true).
      { unfold is_parked_on. rewrite Hp. apply Nat.eqb_eq. unfold cur. congruence. }
      assert (He : existsb (is_parked_on (cur s)) (ws s) = true).
      { apply existsb_exists. exists x. split; [eapply nth_error_In; exact Hx | exact Hpo]. }
      unfold enabled, step. rewrite He. simpl.
      split; [|split].
      + destruct (ctl s); try reflexivity. destruct (nth_error (chans s) (cur s)); reflexivity.
      + destruct (ctl s); try reflexivity. destruct (nth_error (chans s) (cur s)); reflexivity.
      + intros ->. rewrite Hx, Hpo. reflexivity.
    - intros w s' Hs. destruct (step_handoff _ _ _ Hs) as (_ & x & Hx & Hp & ->).
      exists x. split; [exact Hx|]. split; [exact Hp|]. unfold getw in *; simpl.
      apply nth_error_upd_same. eapply nth_lt; eauto.
    - intros w s' Hs. unfold step in Hs. dstep Hs. injection Hs as Hs; subst s'. reflexivity.
    - intros c s' Hs. unfold step in Hs. dstep Hs. injection Hs as Hs; subst s'. reflexivity.
  Qed.

  (* (ii), count version *)
  Theorem cond_signal_count s ls s' : Reach s -> run qstep s ls = Some s' ->
    (* state form, any interleaving *)
    npast s + min (nparked s) (count is_sigcs ls) <= npast s' /\
    (* every completed Signal call has run its critical section *)
    (ctl s = CtlIdle -> count is_retsig ls <= count is_sigcs ls) /\
    (* label form: no Broadcast / context expiry in between *)
    (forallb (fun l => negb (is_bc_cancel l)) ls = true ->
       min (nparked s) (count is_sigcs ls) <= count is_handoff ls) /\
    (ctl s = CtlIdle -> forallb (fun l => negb (is_bc_cancel l)) ls = true ->
       min (nparked s) (count is_retsig ls) <= count is_handoff ls).
  Proof.
    intros HR Hr. pose proof (reachable_inv _ _ _ HR) as HI.
    pose proof (retsig_le_sigcs _ _ _ Hr) as Hrs.
    split; [eapply signals_past_inv; eauto|]. split; [|split].
    - intros E. rewrite E in Hrs. simpl in Hrs. lia.
    - intros Hall. eapply signals_handoffs_inv; eauto.
    - intros E Hall. rewrite E in Hrs. simpl in Hrs.
      pose proof (signals_handoffs_inv _ _ _ HI Hr Hall). lia.
  Qed.

  (* ---- context expiry is prompt ---- *)
  Theorem cond_ctx_prompt s : Reach s ->
    (forall w x g, getw s w = Some x -> w_pc x = WParked g -> ctx_done s (w_ctx x) = false) /\
    (forall w x g, getw s w = Some x -> w_pc x = WSelect g -> ctx_done s (w_ctx x) = true ->
        enabled s (TSelCtx w) = true /\ enabled s (TPark w) = false) /\
    (forall w x, getw s w = Some x -> w_pc x = WCtxErr -> enabled s (LRetWait w false false) = true) /\
    (forall c s', step s (TCancelEff c) = Some s' ->
        ctx_done s' c = true /\
        forall w x g, getw s w = Some x -> w_pc x = WParked g -> w_ctx x = c ->
                      getw s' w = Some (set_pc x WCtxErr)) /\
    (forall l s' c, qstep s l = Some s' -> ctx_done s c = true -> ctx_done s' c = true).
  Proof.
    intros HR. pose proof (reachable_inv _ _ _ HR) as HI. destruct HI as (Hc & Hw & Hl).
    split; [|split; [|split; [|split]]].
    - intros w x g Hx Hp. pose proof (proj1 (Hw w x Hx)) as Hpx. rewrite Hp in Hpx.
      destruct Hpx as (ch & _ & _ & _ & H4). exact H4.
    - intros w x g Hx Hp Hd. unfold enabled, step. rewrite Hx, Hp, Hd. split; [reflexivity|].
      destruct (nth_error (chans s) g); [|reflexivity]. rewrite !orb_true_r. reflexivity.
    - intros w x Hx Hp. unfold enabled, step. rewrite Hx, Hp. reflexivity.
    - intros c s' Hs. unfold step in Hs. dstep Hs. injection Hs as Hs; subst s'. split.
      + unfold ctx_done; simpl. rewrite nth_error_upd_same; [reflexivity | eapply nth_lt; eassumption].
      + intros w x g Hx Hp Hcx. unfold getw in *; simpl. rewrite nth_map, Hx. simpl.
        rewrite Hp. replace (w_ctx x =? c) with true by (symmetry; apply Nat.eqb_eq; exact Hcx).
        reflexivity.
    - intros l s' c Hq Hd. destruct (qstep_cases _ _ _ Hq) as [(_ & -> & _)|Hs]; [exact Hd|].
      eapply step_ctx_done; eauto.
  Qed.
End Props.

(* ================================================================== *)
(* the unrestricted claim "m Signals wake min(k,m) waiters" is false   *)
(* ================================================================== *)

(* controller events; everything else is a step of a waiter goroutine or of the library *)
Definition is_ctl_event (l : lab) : bool :=
  match l with
  | LSpawn _ | LCallSignal | LCallBroadcast | LCancel _ | LRelease _ | LQuiesce => true
  | _ => false
  end.
(* phase 1: complete Signal calls, interleaved with arbitrary progress of the waiters *)
Definition signal_phase_lab (l : lab) : bool :=
  negb (is_ctl_event l) || match l with LCallSignal => true | _ => false end.
(* phase 2: no further controller calls; the harness only opens gates *)
Definition settle_phase_lab (l : lab) : bool :=
  negb (is_ctl_event l) || match l with LRelease _ => true | _ => false end.

Definition gates_open (s : st) : bool :=
  forallb (fun x => gate_open x GPre && gate_open x GPost) (ws s).
Definition nentered (s : st) : nat := length (filter (fun x => entered (w_pc x)) (ws s)).
(* waiters that had released the lock inside Wait in [s0] and are past the select in [s2] *)
Definition woken_of (s0 s2 : st) : nat :=
  length (filter (fun p => entered (w_pc (fst p)) && past_select (w_pc (snd p)))
                 (combine (ws s0) (ws s2))).

Definition signal_wakes_min_statement : Prop :=
  forall cfg nctx s0 ls1 s1 ls2 s2,
    reachable qstep (init cfg nctx) s0 -> ctl s0 = CtlIdle ->
    (* k := nentered s0 waiters have entered Wait and released the lock;
       then m := count is_retsig ls1 complete Signal calls ... *)
    run qstep s0 ls1 = Some s1 -> forallb signal_phase_lab ls1 = true -> ctl s1 = CtlIdle ->
    (* ... then, eventually: in every quiescent state with all gates open reached without
       further Signal / Broadcast / cancel ... *)
    run qstep s1 ls2 = Some s2 -> forallb settle_phase_lab ls2 = true ->
    quiescent s2 = true -> gates_open s2 = true ->
    (* ... at least min k m of the k waiters have got through their select *)
    min (nentered s0) (count is_retsig ls1) <= woken_of s0 s2.

Definition run_or (s : st) (ls : list lab) : st :=
  match run qstep s ls with Some s' => s' | None => s end.

Definition cex_cfg : list (gpos * nat) := [(GPost, 0); (GPost, 1)].
(* both waiters release the lock and are held by the gate between the real unlock and the select *)
Definition cex_ls0 : list lab :=
  [LSpawn 0; TLockL 0; LCallWait 0; TSnapshot 0; LUnlockEnter 0; TRealUnlock 0;
   LSpawn 1; TLockL 1; LCallWait 1; TSnapshot 1; LUnlockEnter 1; TRealUnlock 1].
(* two complete Signal calls: one token buffered, the other dropped *)
Definition cex_ls1 : list lab :=
  [LCallSignal; TSigBuffer; LRetSignal; LCallSignal; TSigDrop; LRetSignal].
(* gates opened; waiter 1 takes the token, waiter 0 parks for ever *)
Definition cex_ls2 : list lab :=
  [LRelease 0; LRelease 1; LUnlockExit 0; LUnlockExit 1; TSelCh 1; TPark 0;
   TRelock 1; LRetWait 1 true true; THarnessUnlock 1].
Definition cex_s0 : st := Eval vm_compute in run_or (init cex_cfg 2) cex_ls0.
Definition cex_s1 : st := Eval vm_compute in run_or cex_s0 cex_ls1.
Definition cex_s2 : st := Eval vm_compute in run_or cex_s1 cex_ls2.

Theorem signal_wakes_min_refuted : ~ signal_wakes_min_statement.
Proof.
  intros H.
  assert (Hc : min (nentered cex_s0) (count is_retsig cex_ls1) <= woken_of cex_s0 cex_s2).
  { apply (H cex_cfg 2 cex_s0 cex_ls1 cex_s1 cex_ls2 cex_s2).
    - exists cex_ls0. vm_compute. reflexivity.
    - reflexivity.
    - vm_compute. reflexivity.
    - vm_compute. reflexivity.
    - reflexivity.
    - vm_compute. reflexivity.
    - vm_compute. reflexivity.
    - vm_compute. reflexivity.
    - vm_compute. reflexivity. }
  vm_compute in Hc. lia.
Qed.

(* the same witness as one run: two waiters released the lock, two Signal calls completed, both
   gates opened, the system is quiescent, and waiter 0 is parked for ever *)
Theorem signal_wakes_min_refuted_run :
  exists ls s,
    run qstep (init [(GPost, 0); (GPost, 1)] 2) ls = Some s /\
    ls = cex_ls0 ++ cex_ls1 ++ cex_ls2 ++ [LQuiesce] /\
    count is_retsig ls = 2 /\
    quiescent s = true /\ gates_open s = true /\ ctl s = CtlIdle /\ lck s = None /\
    map w_pc (ws s) = [WParked 0; WDone] /\
    chans s = [mkCh false false].
Proof.
  exists (cex_ls0 ++ cex_ls1 ++ cex_ls2 ++ [LQuiesce]). eexists. split; [vm_compute; reflexivity|].
  vm_compute. repeat split; reflexivity.
Qed.

(* ================================================================== *)
(* non-vacuity: the model runs the histories the theorems talk about   *)
(* ================================================================== *)

Definition park0 : list lab :=
  [LSpawn 0; TLockL 0; LCallWait 0; TSnapshot 0; LUnlockEnter 0; TRealUnlock 0; LUnlockExit 0; TPark 0].
Definition park1 : list lab :=
  [LSpawn 1; TLockL 1; LCallWait 1; TSnapshot 1; LUnlockEnter 1; TRealUnlock 1; LUnlockExit 1; TPark 1].
Definition ret_nil (w : nat) : list lab := [TRelock w; LRetWait w true true; THarnessUnlock w].

Definition final_pcs (cfg : list (gpos * nat)) (nctx : nat) (ls : list lab) : option (list wpc * option nat) :=
  match run qstep (init cfg nctx) ls with Some s => Some (map w_pc (ws s), lck s) | None => None end.

(* a parked waiter is woken by a Signal hand-off, re-locks and returns nil *)
Example ex_signal_handoff :
  final_pcs [(GNone, 0)] 1
    (park0 ++ [LQuiesce; LCallSignal; TSigHandoff 0; LRetSignal] ++ ret_nil 0 ++ [LQuiesce])
  = Some ([WDone], None).
Proof. vm_compute. reflexivity. Qed.

(* two parked waiters, two Signals: two hand-offs (the count theorem is tight) *)
Example ex_two_signals :
  let ls := park0 ++ park1 ++ [LCallSignal; TSigHandoff 1; LRetSignal; LCallSignal; TSigHandoff 0; LRetSignal]
            ++ ret_nil 0 ++ ret_nil 1 ++ [LQuiesce] in
  final_pcs [(GNone, 0); (GNone, 1)] 2 ls = Some ([WDone; WDone], None) /\
  nparked (run_or (init [(GNone, 0); (GNone, 1)] 2) (park0 ++ park1)) = 2 /\
  count is_handoff ls = 2.
Proof. vm_compute. repeat split; reflexivity. Qed.

(* Broadcast wakes a parked waiter and a waiter that has only taken its snapshot *)
Example ex_broadcast :
  final_pcs [(GNone, 0); (GPost, 1)] 2
    (park0 ++ [LSpawn 1; TLockL 1; LCallWait 1; TSnapshot 1; LUnlockEnter 1; TRealUnlock 1]
     ++ [LCallBroadcast; TBroadcast; LRetBroadcast; LRelease 1; LUnlockExit 1; TSelCh 1]
     ++ ret_nil 1 ++ ret_nil 0 ++ [LQuiesce])
  = Some ([WDone; WDone], None).
Proof. vm_compute. reflexivity. Qed.

(* cancellation of a parked waiter: returns the error without the lock *)
Example ex_cancel_parked :
  final_pcs [(GNone, 0)] 1 (park0 ++ [LCancel 0; TCancelEff 0; LRetWait 0 false false; LQuiesce])
  = Some ([WDone], None).
Proof. vm_compute. reflexivity. Qed.

(* cancellation racing with a signal at the select: both arms are enabled, parking is not, and the
   ctx arm leaves the token for another waiter *)
Example ex_cancel_vs_signal :
  let s := run_or (init [(GNone, 0); (GNone, 1)] 2)
             [LSpawn 0; TLockL 0; LCallWait 0; TSnapshot 0; LUnlockEnter 0; TRealUnlock 0; LUnlockExit 0;
              LCallSignal; TSigBuffer; LRetSignal; LCancel 0; TCancelEff 0] in
  enabled s (TSelCh 0) = true /\ enabled s (TSelCtx 0) = true /\ enabled s (TPark 0) = false /\
  final_pcs [(GNone, 0); (GNone, 1)] 2
    ([LSpawn 0; TLockL 0; LCallWait 0; TSnapshot 0; LUnlockEnter 0; TRealUnlock 0; LUnlockExit 0;
      LCallSignal; TSigBuffer; LRetSignal; LCancel 0; TCancelEff 0; TSelCtx 0; LRetWait 0 false false;
      LSpawn 1; TLockL 1; LCallWait 1; TSnapshot 1; LUnlockEnter 1; TRealUnlock 1; LUnlockExit 1; TSelCh 1]
     ++ ret_nil 1 ++ [LQuiesce])
  = Some ([WDone; WDone], None).
Proof. vm_compute. repeat split; reflexivity. Qed.

(* the enabling hypotheses of the two return theorems are satisfiable *)
Example ex_ret_enabled :
  enabled (run_or (init [(GNone, 0)] 1) (park0 ++ [LCallSignal; TSigHandoff 0; LRetSignal; TRelock 0]))
          (LRetWait 0 true true) = true /\
  enabled (run_or (init [(GNone, 0)] 1) (park0 ++ [LCancel 0; TCancelEff 0]))
          (LRetWait 0 false false) = true.
Proof. vm_compute. split; reflexivity. Qed.

(* ================================================================== *)
(* no spurious token wake-ups                                          *)
(* ================================================================== *)

(* the token currently stored in the open generation *)
Definition tok_cur (s : st) : nat :=
  match nth_error (chans s) (cur s) with Some c => b2n (ch_tok c) | None => 0 end.

(* the step wakes a waiter by a token: a hand-off, or the channel arm on an open channel *)
Definition is_tokwake (s : st) (l : lab) : bool :=
  match l with
  | TSigHandoff _ => true
  | TSelCh w =>
      match getw s w with
      | Some x => match w_pc x with
                  | WSelect g => match nth_error (chans s) g with
                                 | Some c => negb (ch_closed c)
                                 | None => false
                                 end
                  | _ => false
                  end
      | None => false
      end
  | _ => false
  end.

Fixpoint tokwakes (s : st) (ls : list lab) : nat :=
  match ls with
  | [] => 0
  | l :: ls' => match qstep s l with
                | Some s1 => b2n (is_tokwake s l) + tokwakes s1 ls'
                | None => 0
                end
  end.

Lemma step_tokens s l s' :
  Inv s -> step s l = Some s' ->
  b2n (is_tokwake s l) + tok_cur s' <= b2n (is_sigcs l) + tok_cur s.
Proof.
  intros HI Hs. pose proof (proj1 HI) as Hc. unfold step in Hs.
  destruct l; dstep Hs; try discriminate Hs; injection Hs as Hs; subst s'; unfold tok_cur, cur; simpl;
    try lia.
  - (* TSelCh on a closed generation: not a token wake-up *)
    match goal with Hx : getw s _ = Some ?x, Hp : w_pc ?x = WSelect ?g,
                    Hg : nth_error (chans s) ?g = Some ?c, Hcl : ch_closed ?c = true |- _ =>
      rewrite Hx, Hp, Hg, Hcl end. simpl. lia.
  - (* TSelCh consuming the token of the open generation *)
    match goal with Hx : getw s _ = Some ?x, Hp : w_pc ?x = WSelect ?g,
                    Hg : nth_error (chans s) ?g = Some ?c, Hcl : ch_closed ?c = false,
                    Ht : ch_tok ?c = true |- _ =>
      rewrite Hx, Hp, Hg, Hcl; pose proof (chans_ok_open _ _ _ Hc Hg Hcl) as Eg; subst g;
      rewrite upd_length, nth_error_upd_same by (apply chans_ok_cur; exact Hc);
      rewrite Hg, Ht end. simpl. lia.
  - (* TSigBuffer *)
    rewrite upd_length, nth_error_upd_same by (apply chans_ok_cur; exact Hc). simpl. lia.
  - (* TBroadcast: the fresh generation is empty *)
    rewrite app_length, upd_length. simpl length.
    replace (Init.Nat.pred (length (chans s) + 1)) with (length (chans s)) by lia.
    rewrite nth_error_app2 by (rewrite upd_length; lia). rewrite upd_length, Nat.sub_diag. simpl. lia.
Qed.

(* along every run: token wake-ups + the token still buffered <= Signal critical sections
   + the token buffered at the start *)
Lemma tokwakes_le_inv : forall ls s s',
  Inv s -> run qstep s ls = Some s' ->
  tokwakes s ls + tok_cur s' <= count is_sigcs ls + tok_cur s.
Proof.
  induction ls as [|l ls IH]; intros s s' HI Hr; simpl in Hr |- *.
  - inversion Hr; subst. unfold count; simpl. lia.
  - destruct (qstep s l) as [s1|] eqn:Hq; [|discriminate].
    pose proof (inv_qstep _ _ _ HI Hq) as HI1. specialize (IH s1 s' HI1 Hr). rewrite count_cons.
    destruct (qstep_cases _ _ _ Hq) as [(-> & -> & _)|Hs]; [simpl; exact IH|].
    pose proof (step_tokens _ _ _ HI Hs). lia.
Qed.

Theorem cond_no_spurious_wakeup cfg nctx ls s :
  run qstep (init cfg nctx) ls = Some s ->
  tokwakes (init cfg nctx) ls + tok_cur s <= count is_sigcs ls /\
  (forall ls' s', run qstep s ls' = Some s' ->
                  tokwakes s ls' + tok_cur s' <= count is_sigcs ls' + tok_cur s).
Proof.
  intros Hr. split.
  - pose proof (tokwakes_le_inv _ _ _ (Inv_init cfg nctx) Hr) as H.
    change (tok_cur (init cfg nctx)) with 0 in H. lia.
  - intros ls' s' Hr'. apply tokwakes_le_inv; [|exact Hr'].
    apply (reachable_inv cfg nctx). exists ls. exact Hr.
Qed.

Example ex_tokwakes :
  tokwakes (init cex_cfg 2) (cex_ls0 ++ cex_ls1 ++ cex_ls2) = 1 /\
  count is_sigcs (cex_ls0 ++ cex_ls1 ++ cex_ls2) = 2.
Proof. vm_compute. split; reflexivity. Qed.
