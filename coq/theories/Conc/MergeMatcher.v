(* C12 — the history matchers of Conc/Merge.v are certified:
     CM.accepts_history rep incaps outcaps evs   (chans.Merge / chans.Replicate)
     SM.accepts_history scripts prog nctx evs    (stream.Merge)
   These are the functions the correspondence check calls ([chk] in props/merge_common.py).  Both
   are the generic matcher [GoLTS.accepts] run on the UNREDUCED relation [qstep] with the complete
   enumerations [tau_labels] / [fun _ e => [e]] and fuel 200; the only model-specific reduction is
   the state test [st_eqb] used to deduplicate the state sets, which is much coarser than equality:
     - it ignores the ghost history (CM: produced, gots, seen_closed, outs, taken; SM: recvd,
       winners, seen, sclosed and the s_out / s_closes fields of every source);
     - it ignores the constants of the scenario (CM: knd, nin, nout, the capacity of every
       channel; SM: nw and the s_fin field of every source);
     - CM: it compares the reflect path's select-case list [cases] up to order ([set_eqb]).

   Proved here (stdlib only, no axioms):
   1. SOUNDNESS, unconditional ([cm_accepts_sound], [sm_accepts_sound]): an accepted history is
      the visible trace of a run of [qstep] from [init].  (Deduplication can only drop states.)
   2. COMPLETENESS whenever the closures converged within the fuel ([cm_converged],
      [sm_converged]: executable tests) — [cm_accepts_complete], [cm_reject_genuine],
      [cm_accepts_iff] and the same for SM.  The generic theorems of GoLTSProofs.v need a state
      test that decides equality, which [st_eqb] does not even on reachable states.  Part 1 of
      this file therefore proves a generalisation ([accepts_complete_quot]): completeness holds
      when [st_eqb], on states satisfying an invariant of the transition function, implies a
      transitive relation [R] that is a bisimulation for the transition function (related states
      answer every label by a label with the same visible event and reach related states).
      The bisimulations:
        SM: R s t := erase s = erase t  (erase = forget the ghost history); every step commutes
            with the erasure ([SMM.step_erase], [SMM.qstep_erase]), so [R] is a strong
            bisimulation with the SAME label ([SMM.R_bisim]);
        CM: R s t := the real components other than [cases] coincide and [cases s] is a permutation
            of [cases t]; steps commute with the erasure ([CMM.step_erase]), steps that do not
            read the case list commute with replacing it ([CMM.step_set_cases]), and a receive
            of the reflect path on arm [pos] is answered by the arm [pos'] that holds the same
            channel, RemoveUnordered of a duplicate-free list at either position leaving
            permutations of each other ([CMM.recv_perm], [CMM.remove_perm]); quiescence is
            invariant under [R] ([CMM.quiescent_R]); hence [CMM.R_bisim], in which only the arm
            index of [TLibRecv] is renamed.
      The invariants ([CMM.LI], [SMM.MI]) are the constants of the scenario, the lengths that
      bound the label enumerations, and (CM) NoDup of the case list; they hold initially and are
      preserved by [qstep].
   3. Non-vacuity: accepted and (genuinely) rejected concrete histories for both modules,
      including the reflect path (4 inputs) and Replicate. *)
From Coq Require Import Permutation Arith PeanoNat.
From Juniper Require Import Common.Base Conc.GoLTS Conc.GoLTSProofs Conc.Merge Conc.MergeProofs.
From Juniper Require Conc.CondMatcher.
Local Open Scope nat_scope.

(* ====================================================================== *)
(* Part 1: completeness of the generic matcher up to a bisimulation        *)
(* ====================================================================== *)

Section MatcherQuot.
  Variables St Lab Ev : Type.
  Variable step : St -> Lab -> option St.
  Variable vis : Lab -> option Ev.
  Variable ev_eqb : Ev -> Ev -> bool.
  Variable st_eqb : St -> St -> bool.
  Variable labels : St -> list Lab.
  Variable labels_ev : St -> Ev -> list Lab.
  Variable Inv : St -> Prop.
  Variable R : St -> St -> Prop.
  Hypothesis Inv_step : forall s l s', Inv s -> step s l = Some s' -> Inv s'.
  Hypothesis R_refl : forall s, R s s.
  Hypothesis R_trans : forall a b c, R a b -> R b c -> R a c.
  Hypothesis eqb_R : forall a b, Inv a -> Inv b -> st_eqb a b = true -> R a b.
  Hypothesis bisim : forall s t l s', Inv s -> Inv t -> R s t -> step s l = Some s' ->
    exists l' t', vis l' = vis l /\ step t l' = Some t' /\ R s' t'.
  Hypothesis ev_eqb_refl_vis : forall l e, vis l = Some e -> ev_eqb e e = true.
  Hypothesis labels_complete :
    forall s l, Inv s -> vis l = None -> step s l <> None -> In l (labels s).
  Hypothesis labels_ev_complete :
    forall s l e, Inv s -> vis l = Some e -> step s l <> None -> In l (labels_ev s e).

  Local Notation succ_tau := (GoLTS.succ_tau St Lab step Ev vis labels).
  Local Notation succ_ev := (GoLTS.succ_ev St Lab step Ev vis ev_eqb labels_ev).
  Local Notation mem := (GoLTS.mem St st_eqb).
  Local Notation add_new := (GoLTS.add_new St st_eqb).
  Local Notation closure := (GoLTS.closure St Lab step Ev vis st_eqb labels).
  Local Notation close := (GoLTS.close step vis st_eqb labels).
  Local Notation states_after := (GoLTS.states_after step vis ev_eqb st_eqb labels labels_ev).
  Local Notation first_reject := (GoLTS.first_reject step vis ev_eqb st_eqb labels labels_ev).
  Local Notation accepts := (GoLTS.accepts step vis ev_eqb st_eqb labels labels_ev).
  Local Notation run := (GoLTS.run step).
  Local Notation trace := (GoLTSProofs.trace Lab Ev vis).
  Local Notation tau_closedb := (GoLTSProofs.tau_closedb St Lab Ev step vis st_eqb labels).
  Local Notation closed_alongb :=
    (GoLTSProofs.closed_alongb St Lab Ev step vis ev_eqb st_eqb labels labels_ev).
  Local Notation convergedb :=
    (GoLTSProofs.convergedb St Lab Ev step vis ev_eqb st_eqb labels labels_ev).

  (* [s] is represented in [S] by a state related to it *)
  Definition covers (S : list St) (s : St) : Prop := exists t, In t S /\ R s t.

  Lemma mem_true_ex x l : mem x l = true -> exists y, In y l /\ st_eqb x y = true.
  Proof.
    induction l as [|y t IH]; simpl; [discriminate|].
    intros H. apply orb_true_iff in H. destruct H as [H|H].
    - exists y. split; [left; reflexivity | exact H].
    - destruct (IH H) as [z [Hz Ez]]. exists z. split; [right; exact Hz | exact Ez].
  Qed.

  Lemma add_new_covers new : forall seen, Forall Inv new -> Forall Inv seen ->
    (forall x, In x seen -> In x (snd (add_new new seen))) /\
    (forall x, In x new -> covers (snd (add_new new seen)) x).
  Proof.
    induction new as [|a t IH]; intros seen Hn Hs; simpl.
    - split; [intros x Hx; exact Hx | intros x []].
    - inversion Hn as [|a' t' Ha Ht]; subst.
      destruct (mem a seen) eqn:Em.
      + destruct (IH seen Ht Hs) as [I1 I2]. split; [exact I1|].
        intros x [Hx|Hx]; [subst x | apply I2; exact Hx].
        destruct (mem_true_ex a seen Em) as [y [Hy Ey]].
        exists y. split; [apply I1; exact Hy|].
        apply eqb_R; [exact Ha | | exact Ey].
        rewrite Forall_forall in Hs. apply Hs; exact Hy.
      + destruct (IH (a :: seen) Ht (Forall_cons a Ha Hs)) as [I1 I2].
        destruct (add_new t (a :: seen)) as [n sn] eqn:Ea. simpl in *. split.
        * intros x Hx. apply I1. right; exact Hx.
        * intros x [Hx|Hx]; [subst x | apply I2; exact Hx].
          exists a. split; [apply I1; left; reflexivity | apply R_refl].
  Qed.

  Lemma close_covers fuel ss x : Forall Inv ss -> In x ss -> covers (close fuel ss) x.
  Proof.
    intros Hss Hx. unfold GoLTS.close.
    destruct (add_new_covers ss [] Hss (Forall_nil Inv)) as [_ I2].
    destruct (I2 x Hx) as [y [Hy Ry]].
    destruct (add_new ss []) as [n sn] eqn:Ea. simpl in Hy.
    exists y. split; [apply closure_seen_incl; exact Hy | exact Ry].
  Qed.

  Lemma close_Inv fuel ss : Forall Inv ss -> Forall Inv (close fuel ss).
  Proof.
    intros Hss.
    exact (proj2 (CondMatcher.close_ext St Lab Ev step vis st_eqb st_eqb labels Inv Inv_step
                    (fun _ _ _ _ => eq_refl) fuel ss Hss)).
  Qed.

  Lemma succ_ev_Inv e ss : Forall Inv ss -> Forall Inv (flat_map (succ_ev e) ss).
  Proof.
    intros Hss. apply Forall_forall. intros x Hx.
    apply in_flat_map in Hx. destruct Hx as [s [Hs Hx]].
    unfold GoLTS.succ_ev in Hx. apply in_flat_map in Hx. destruct Hx as [l [_ Hl]].
    destruct (vis l) as [e'|]; [|destruct Hl].
    destruct (ev_eqb e e'); [|destruct Hl].
    destruct (step s l) as [s1|] eqn:Es; [|destruct Hl].
    destruct Hl as [Hl|[]]. subst s1.
    rewrite Forall_forall in Hss. eapply Inv_step; [apply Hss; exact Hs | exact Es].
  Qed.

  (* closed under internal steps, up to [R] *)
  Definition tau_closed_R (S : list St) : Prop :=
    forall s l s', In s S -> vis l = None -> step s l = Some s' -> covers S s'.

  Lemma tau_closedb_R S : Forall Inv S -> tau_closedb S = true -> tau_closed_R S.
  Proof.
    intros HS Hb s l s' Hs Hv Hst. unfold GoLTSProofs.tau_closedb in Hb.
    rewrite forallb_forall in Hb. specialize (Hb s Hs). rewrite forallb_forall in Hb.
    assert (His : Inv s) by (rewrite Forall_forall in HS; apply HS; exact Hs).
    assert (Hin : In s' (succ_tau s)).
    { apply (succ_tau_complete St Lab Ev step vis labels s l s'); [|exact Hv|exact Hst].
      apply labels_complete; [exact His | exact Hv | rewrite Hst; discriminate]. }
    destruct (mem_true_ex s' S (Hb s' Hin)) as [y [Hy Ey]].
    exists y. split; [exact Hy|].
    apply eqb_R; [eapply Inv_step; eassumption | | exact Ey].
    rewrite Forall_forall in HS. apply HS; exact Hy.
  Qed.

  Lemma covers_step S s0 l s1 :
    Forall Inv S -> Inv s0 -> covers S s0 -> step s0 l = Some s1 ->
    exists t l' t1, In t S /\ vis l' = vis l /\ step t l' = Some t1 /\ R s1 t1.
  Proof.
    intros HS H0 [t [Ht Rt]] Hst.
    assert (Hit : Inv t) by (rewrite Forall_forall in HS; apply HS; exact Ht).
    destruct (bisim s0 t l s1 H0 Hit Rt Hst) as [l' [t1 [Hv [Hs1 R1]]]].
    exists t, l', t1. repeat split; assumption.
  Qed.

  Theorem states_after_cover fuel ls : forall evs ss s0 s,
    Forall Inv ss -> tau_closedb ss = true -> closed_alongb fuel ss evs = true ->
    Inv s0 -> covers ss s0 -> run s0 ls = Some s -> trace ls = evs ->
    covers (states_after fuel ss evs) s.
  Proof.
    induction ls as [|l ls IH]; intros evs ss s0 s HS Hc Hal H0 Hcov Hr Ht; simpl in Hr, Ht.
    - inversion Hr; subst. simpl. exact Hcov.
    - destruct (step s0 l) as [s1|] eqn:Es; [|discriminate].
      assert (H1 : Inv s1) by (eapply Inv_step; eassumption).
      destruct (covers_step ss s0 l s1 HS H0 Hcov Es) as [t [l' [t1 [Ht0 [Hv [Hs1 R1]]]]]].
      assert (Hit : Inv t) by (rewrite Forall_forall in HS; apply HS; exact Ht0).
      destruct (vis l) as [e|] eqn:Evis.
      + subst evs.
        change (closed_alongb fuel ss (e :: trace ls))
          with (tau_closedb (close fuel (flat_map (succ_ev e) ss))
                && closed_alongb fuel (close fuel (flat_map (succ_ev e) ss)) (trace ls)) in Hal.
        apply andb_true_iff in Hal. destruct Hal as [Hc' Hal'].
        change (states_after fuel ss (e :: trace ls))
          with (states_after fuel (close fuel (flat_map (succ_ev e) ss)) (trace ls)).
        assert (HS' : Forall Inv (flat_map (succ_ev e) ss)) by (apply succ_ev_Inv; exact HS).
        apply (IH (trace ls) _ s1 s (close_Inv fuel _ HS') Hc' Hal' H1); [|exact Hr|reflexivity].
        assert (Hin : In t1 (flat_map (succ_ev e) ss)).
        { apply in_flat_map. exists t. split; [exact Ht0|].
          unfold GoLTS.succ_ev. apply in_flat_map. exists l'. split.
          - apply labels_ev_complete; [exact Hit | exact Hv | rewrite Hs1; discriminate].
          - rewrite Hv, (ev_eqb_refl_vis l' e Hv), Hs1. left; reflexivity. }
        destruct (close_covers fuel _ t1 HS' Hin) as [y [Hy Ry]].
        exists y. split; [exact Hy | eapply R_trans; eassumption].
      + apply (IH evs ss s1 s HS Hc Hal H1); [|exact Hr|exact Ht].
        destruct (tau_closedb_R ss HS Hc t l' t1 Ht0 Hv Hs1) as [y [Hy Ry]].
        exists y. split; [exact Hy | eapply R_trans; eassumption].
  Qed.

  (* COMPLETENESS up to the bisimulation: no false rejections when the closures converged *)
  Theorem accepts_complete_quot fuel init evs ls s :
    Inv init -> convergedb fuel init evs = true ->
    run init ls = Some s -> trace ls = evs -> accepts fuel init evs = true.
  Proof.
    intros Hi Hb Hr Ht. unfold GoLTSProofs.convergedb in Hb.
    apply andb_true_iff in Hb. destruct Hb as [Hc Hal].
    assert (HS : Forall Inv (close fuel [init])).
    { apply close_Inv. constructor; [exact Hi | constructor]. }
    assert (Hcov : covers (close fuel [init]) init).
    { apply close_covers; [constructor; [exact Hi | constructor] | left; reflexivity]. }
    destruct (states_after_cover fuel ls evs _ init s HS Hc Hal Hi Hcov Hr Ht) as [y [Hy _]].
    unfold GoLTS.accepts.
    rewrite (first_reject_complete St Lab Ev step vis ev_eqb st_eqb labels labels_ev fuel evs
               (close fuel [init]) 0); [reflexivity|].
    intros E. rewrite E in Hy. destruct Hy.
  Qed.

  Corollary reject_genuine_quot fuel init evs :
    Inv init -> convergedb fuel init evs = true -> accepts fuel init evs = false ->
    forall ls s, run init ls = Some s -> trace ls <> evs.
  Proof.
    intros Hi Hb Hacc ls s Hr Ht.
    rewrite (accepts_complete_quot fuel init evs ls s Hi Hb Hr Ht) in Hacc. discriminate.
  Qed.
End MatcherQuot.

(* ====================================================================== *)
(* list / equality-test helpers                                            *)
(* ====================================================================== *)

Lemma map_upd {A B} (f : A -> B) l : forall i x, map f (upd l i x) = upd (map f l) i (f x).
Proof. induction l as [|h t IH]; intros [|i] x; simpl; try reflexivity. rewrite IH. reflexivity. Qed.

Lemma map_upd_same {A B} (f : A -> B) l : forall i x y,
  nth_error l i = Some y -> f x = f y -> map f (upd l i x) = map f l.
Proof.
  induction l as [|h t IH]; intros [|i] x y Hn Hf; simpl in *; try discriminate.
  - inversion Hn; subst. rewrite Hf. reflexivity.
  - rewrite (IH i x y Hn Hf). reflexivity.
Qed.

Lemma andl_true_iff (a b : bool) : (if a then b else false) = true <-> a = true /\ b = true.
Proof.
  destruct a, b; simpl; (split; [intros H | intros [H1 H2]]); try discriminate; auto.
Qed.

Lemma list_eqb_spec {A} (eqb : A -> A -> bool) :
  (forall x y, eqb x y = true <-> x = y) ->
  forall a b, list_eqb eqb a b = true <-> a = b.
Proof.
  intros Hspec a. induction a as [|x a IH]; intros [|y b]; simpl.
  - split; reflexivity.
  - split; discriminate.
  - split; discriminate.
  - rewrite andl_true_iff, Hspec, IH. split.
    + intros [Hx Ha]. subst. reflexivity.
    + intros H. inversion H. split; reflexivity.
Qed.

Lemma opt_eqb_spec {A} (eqb : A -> A -> bool) :
  (forall x y, eqb x y = true <-> x = y) ->
  forall a b, opt_eqb eqb a b = true <-> a = b.
Proof.
  intros Hspec [x|] [y|]; simpl; try (split; intros H; try discriminate H; reflexivity).
  rewrite Hspec. split; [intros ->; reflexivity | intros H; inversion H; reflexivity].
Qed.

Lemma bool_eqb_spec a b : Bool.eqb a b = true <-> a = b.
Proof. split; [apply Bool.eqb_prop | intros ->; apply Bool.eqb_reflx]. Qed.

Lemma existsb_ext_in {A} (f g : A -> bool) l :
  (forall x, In x l -> f x = g x) -> existsb f l = existsb g l.
Proof.
  induction l as [|a t IH]; intros H; simpl; [reflexivity|].
  rewrite (H a (or_introl eq_refl)), IH; [reflexivity|]. intros x Hx. apply H. right; exact Hx.
Qed.

(* ====================================================================== *)
(* Part 2: chans.Merge / chans.Replicate                                   *)
(* ====================================================================== *)

Module CMM.
Import CM.

Lemma cmd_eqb_spec a b : cmd_eqb a b = true <-> a = b.
Proof.
  destruct a as [x|], b as [y|]; simpl; try (split; intros H; try discriminate H; reflexivity).
  rewrite Z.eqb_eq. split; [intros ->; reflexivity | intros H; inversion H; reflexivity].
Qed.

Lemma plog_eqb_spec a b : plog_eqb a b = true <-> a = b.
Proof.
  destruct a as [|x|], b as [|y|]; simpl; try (split; intros H; try discriminate H; reflexivity).
  rewrite Z.eqb_eq. split; [intros ->; reflexivity | intros H; inversion H; reflexivity].
Qed.

Lemma prod_eqb_spec a b : prod_eqb a b = true <-> a = b.
Proof.
  destruct a as [q1 l1], b as [q2 l2]. unfold prod_eqb. simpl.
  rewrite andl_true_iff, plog_eqb_spec, (list_eqb_spec _ cmd_eqb_spec). split.
  - intros [H1 H2]. subst. reflexivity.
  - intros H. inversion H. split; reflexivity.
Qed.

Lemma cons_eqb_spec a b : cons_eqb a b = true <-> a = b.
Proof.
  destruct a as [p1 h1], b as [p2 h2]. unfold cons_eqb. simpl.
  rewrite andb_true_iff, Nat.eqb_eq, (opt_eqb_spec _ Z.eqb_eq). split.
  - intros [H1 H2]. subst. reflexivity.
  - intros H. inversion H. split; reflexivity.
Qed.

Ltac eqb_crush :=
  repeat match goal with
  | H : (_ && _) = true |- _ => apply andb_true_iff in H; destruct H
  | H : Nat.eqb _ _ = true |- _ => apply Nat.eqb_eq in H
  | H : Z.eqb _ _ = true |- _ => apply Z.eqb_eq in H
  | H : Bool.eqb _ _ = true |- _ => apply Bool.eqb_prop in H
  | H : cmd_eqb _ _ = true |- _ => apply (proj1 (cmd_eqb_spec _ _)) in H
  end; subst.

Ltac eqb_refl :=
  rewrite ?Nat.eqb_refl, ?Z.eqb_refl, ?Bool.eqb_reflx, ?(proj2 (cmd_eqb_spec _ _) eq_refl); reflexivity.

Lemma lpc_eqb_spec a b : lpc_eqb a b = true <-> a = b.
Proof.
  split.
  - destruct a, b; simpl; intros H; try discriminate H; eqb_crush; reflexivity.
  - intros ->. destruct b; simpl; eqb_refl.
Qed.

(* [chan_eqb] does not compare the (constant) capacity *)
Lemma chan_eqb_spec a b : cap a = cap b -> (chan_eqb a b = true <-> a = b).
Proof.
  destruct a as [c1 b1 d1], b as [c2 b2 d2]. unfold chan_eqb. simpl. intros ->.
  rewrite andl_true_iff, bool_eqb_spec, (list_eqb_spec _ Z.eqb_eq). split.
  - intros [H1 H2]. subst. reflexivity.
  - intros H. inversion H. split; reflexivity.
Qed.

Lemma chs_eqb_eq a : forall b,
  map cap a = map cap b -> list_eqb chan_eqb a b = true -> a = b.
Proof.
  induction a as [|x a IH]; intros [|y b] Hc He; simpl in *; try discriminate; [reflexivity|].
  inversion Hc as [[Hc1 Hc2]]. apply andl_true_iff in He. destruct He as [Hxy Hab].
  apply (chan_eqb_spec x y Hc1) in Hxy. rewrite Hxy, (IH b Hc2 Hab). reflexivity.
Qed.

(* ---- events are labels ---- *)
Lemma vis_some l e : vis l = Some e -> e = l.
Proof. destruct l; simpl; intros H; try discriminate; inversion H; reflexivity. Qed.

Lemma lab_eqb_sound a b : lab_eqb a b = true -> a = b.
Proof. destruct a, b; simpl; intros H; try discriminate H; eqb_crush; reflexivity. Qed.

Lemma lab_eqb_refl_vis l e : vis l = Some e -> lab_eqb e e = true.
Proof.
  intros H. pose proof (vis_some l e H) as He. subst e.
  destruct l; simpl in H; try discriminate H; simpl; eqb_refl.
Qed.

(* ---- erasure of the ghost history; replacing the case list ---- *)
Definition erase (s : st) : st :=
  mkSt (knd s) (nin s) (nout s) (chs s) (prods s) (conss s) (live s) (ndone s) (cases s) (pc s) [] [] [] [] [].
Definition set_cases (s : st) (cs : list nat) : st :=
  mkSt (knd s) (nin s) (nout s) (chs s) (prods s) (conss s) (live s) (ndone s) cs (pc s)
       (produced s) (gots s) (seen_closed s) (outs s) (taken s).

Ltac crush_match :=
  repeat (first [ match goal with |- context [match ?x with _ => _ end] => is_var x; destruct x end
                | match goal with |- context [match ?x with _ => _ end] => destruct x eqn:? end ]).
Ltac unf :=
  cbv [step take_value on_closed hand_or_loop sel with_chs with_prods with_conss with_pc with_sel
       with_produced with_gots with_outs with_taken
       knd nin nout chs prods conss live ndone cases pc produced gots seen_closed outs taken].
Ltac fin :=
  cbv [option_map erase set_cases
       knd nin nout chs prods conss live ndone cases pc produced gots seen_closed outs taken].

Lemma erase_mk a b c d e f g h i j k l m n o :
  erase (mkSt a b c d e f g h i j k l m n o) = mkSt a b c d e f g h i j [] [] [] [] [].
Proof. reflexivity. Qed.
Lemma set_cases_mk a b c d e f g h i j k l m n o cs :
  set_cases (mkSt a b c d e f g h i j k l m n o) cs = mkSt a b c d e f g h cs j k l m n o.
Proof. reflexivity. Qed.

Lemma erase_idem s : erase (erase s) = erase s.
Proof. reflexivity. Qed.

(* no step reads the ghost fields *)
Lemma step_erase s l : option_map erase (step (erase s) l) = option_map erase (step s l).
Proof.
  destruct s as [kd ni no ch pr cn lv nd cs p g1 g2 g3 g4 g5].
  rewrite erase_mk.
  destruct l; unf; crush_match; unf; fin; reflexivity.
Qed.

(* only the reflect path's TLibRecv / TLibExit read the case list *)
Lemma step_set_cases s cs l :
  (knd s <> KMR \/ (l <> TLibExit /\ forall pos, l <> TLibRecv pos)) ->
  step (set_cases s cs) l = option_map (fun s' => set_cases s' cs) (step s l).
Proof.
  destruct s as [kd ni no ch pr cn lv nd cs0 p g1 g2 g3 g4 g5].
  rewrite set_cases_mk. cbn [knd]. intros Hk.
  destruct l; unf;
    try (destruct kd; try (exfalso; destruct Hk as [Hk|[Hk1 Hk2]];
                           [apply Hk; reflexivity | first [apply Hk1; reflexivity | eapply Hk2; reflexivity]]));
    crush_match; unf; fin; reflexivity.
Qed.

Lemma set_cases_self s : set_cases s (cases s) = s.
Proof. destruct s; reflexivity. Qed.

Lemma cases_same s l s' :
  (knd s <> KMR \/ (l <> TLibExit /\ forall pos, l <> TLibRecv pos)) ->
  step s l = Some s' -> cases s' = cases s.
Proof.
  intros Hk Hs. pose proof (step_set_cases s (cases s) l Hk) as E.
  rewrite set_cases_self, Hs in E. simpl in E. inversion E as [E1].
  rewrite E1 at 1. reflexivity.
Qed.

Lemma classify s l :
  (knd s <> KMR \/ (l <> TLibExit /\ forall pos, l <> TLibRecv pos))
  \/ (knd s = KMR /\ (l = TLibExit \/ exists pos, l = TLibRecv pos)).
Proof.
  destruct (knd s), l;
    first [ left; left; discriminate
          | left; right; split; [discriminate | intros; discriminate]
          | right; split; [reflexivity | first [left; reflexivity | right; eexists; reflexivity]] ].
Qed.

(* how a step changes the case list *)
Lemma step_cases s l s' : step s l = Some s' ->
  cases s' = cases s
  \/ exists pos k, nth_error (cases s) pos = Some k /\ cases s' = remove_unordered (cases s) pos 1.
Proof.
  intros Hs. destruct (classify s l) as [Hk | [Hk [-> | [pos ->]]]].
  - left. eapply cases_same; eassumption.
  - left. destruct (CMP.step_TLibExit _ _ Hs) as (_ & _ & _ & ->). reflexivity.
  - destruct (CMP.step_TLibRecv _ _ _ Hs) as [_ Hc].
    destruct Hc as [k c v b Hsel _ _ -> | k c Hsel _ _ _ -> | k c v q Hsel _ _ _ _ _ ->].
    + left. reflexivity.
    + right. exists pos, k. unfold sel in Hsel. rewrite Hk in Hsel. split; [exact Hsel|].
      unfold on_closed. rewrite Hk. reflexivity.
    + left. reflexivity.
Qed.

Lemma remove_perm (l1 l2 : list nat) p1 p2 k :
  NoDup l1 -> Permutation l1 l2 -> nth_error l1 p1 = Some k -> nth_error l2 p2 = Some k ->
  Permutation (remove_unordered l1 p1 1) (remove_unordered l2 p2 1).
Proof.
  intros Hnd Hp H1 H2.
  assert (Hnd2 : NoDup l2) by (eapply Permutation_NoDup; eassumption).
  destruct (remove_unordered_1_spec l1 p1 k Hnd H1) as (N1 & I1 & _).
  destruct (remove_unordered_1_spec l2 p2 k Hnd2 H2) as (N2 & I2 & _).
  apply NoDup_Permutation; [exact N1 | exact N2|].
  intros x. rewrite I1, I2. split; intros [Hx Hne]; (split; [|exact Hne]).
  - eapply Permutation_in; eassumption.
  - eapply Permutation_in; [apply Permutation_sym|]; eassumption.
Qed.

(* the reflect path's receive, from a state whose case list is permuted *)
Lemma recv_perm s cb pos s' :
  knd s = KMR -> NoDup (cases s) -> Permutation (cases s) cb ->
  step s (TLibRecv pos) = Some s' ->
  exists pos' cb', step (set_cases s cb) (TLibRecv pos') = Some (set_cases s' cb') /\
                   Permutation (cases s') cb'.
Proof.
  intros Hk Hnd Hp Hs.
  destruct (CMP.step_TLibRecv _ _ _ Hs) as [Hpc Hc].
  assert (Hpos : forall k, sel s pos = Some k ->
                 exists pos', nth_error cb pos' = Some k /\ nth_error (cases s) pos = Some k
                              /\ sel (set_cases s cb) pos' = Some k).
  { intros k Hsel. unfold sel in Hsel. rewrite Hk in Hsel.
    assert (Hin : In k cb) by (eapply Permutation_in; [exact Hp | eapply nth_error_In; exact Hsel]).
    destruct (In_nth_error cb k Hin) as [pos' Hpos']. exists pos'. split; [exact Hpos'|].
    split; [exact Hsel|]. unfold sel. change (knd (set_cases s cb)) with (knd s). rewrite Hk. exact Hpos'. }
  destruct Hc as [k c v b Hsel Hch Hbuf -> | k c Hsel Hch Hbuf Hcl -> | k c v q Hsel Hch Hbuf Hcl Hcap Hpr ->];
    destruct (Hpos k Hsel) as (pos' & Hpos' & Hposs & Hsel').
  - exists pos', cb. split; [|exact Hp].
    unfold step. change (pc (set_cases s cb)) with (pc s). rewrite Hpc, Hsel'.
    change (chs (set_cases s cb)) with (chs s). rewrite Hch, Hbuf. reflexivity.
  - exists pos', (remove_unordered cb pos' 1). split.
    + unfold step. change (pc (set_cases s cb)) with (pc s). rewrite Hpc, Hsel'.
      change (chs (set_cases s cb)) with (chs s). rewrite Hch, Hbuf, Hcl.
      unfold on_closed. change (knd (set_cases s cb)) with (knd s). rewrite Hk. reflexivity.
    + unfold on_closed. rewrite Hk. cbn [cases with_pc with_sel].
      eapply remove_perm; eassumption.
  - exists pos', cb. split; [|exact Hp].
    unfold step. change (pc (set_cases s cb)) with (pc s). rewrite Hpc, Hsel'.
    change (chs (set_cases s cb)) with (chs s). rewrite Hch, Hbuf, Hcl, Hcap.
    change (prods (set_cases s cb)) with (prods s). rewrite Hpr. reflexivity.
Qed.

(* two states that differ only in the order of the case list simulate each other *)
Lemma perm_bisim a b l a' :
  set_cases a [] = set_cases b [] -> Permutation (cases a) (cases b) -> NoDup (cases a) ->
  step a l = Some a' ->
  exists l' b', vis l' = vis l /\ step b l' = Some b' /\
                set_cases a' [] = set_cases b' [] /\ Permutation (cases a') (cases b').
Proof.
  intros He Hp Hnd Hs.
  assert (Hb : b = set_cases a (cases b)).
  { destruct a, b. cbn in He. inversion He; subst. reflexivity. }
  destruct (classify a l) as [Hk | [Hk [-> | [pos ->]]]].
  - exists l, (set_cases a' (cases b)). split; [reflexivity|]. split.
    + rewrite Hb at 1. rewrite (step_set_cases a (cases b) l Hk), Hs. reflexivity.
    + split; [reflexivity|]. cbn [cases set_cases].
      rewrite (cases_same a l a' Hk Hs). exact Hp.
  - destruct (CMP.step_TLibExit _ _ Hs) as (_ & _ & Hc & _).
    rewrite Hc in Hp. apply Permutation_nil in Hp.
    assert (Eab : b = a) by (rewrite Hb, Hp, <- Hc; apply set_cases_self).
    subst b. exists TLibExit, a'. split; [reflexivity|]. split; [exact Hs|].
    split; [reflexivity | apply Permutation_refl].
  - destruct (recv_perm a (cases b) pos a' Hk Hnd Hp Hs) as (pos' & cb' & Hs' & Hp').
    exists (TLibRecv pos'), (set_cases a' cb'). split; [reflexivity|]. split.
    + rewrite Hb at 1. exact Hs'.
    + split; [reflexivity | exact Hp'].
Qed.

(* ---- the constants of a scenario and the shape of the real components ---- *)
Record LI (K : kind) (N M : nat) (C : list nat) (s : st) : Prop := {
  li_knd : knd s = K;
  li_nin : nin s = N;
  li_nout : nout s = M;
  li_caps : map cap (chs s) = C;
  li_prods : length (prods s) = N;
  li_conss : length (conss s) = M;
  li_live : length (live s) = N;
  li_cases : length (cases s) <= N;
  li_nodup : NoDup (cases s)
}.

Lemma step_caps s l s' : step s l = Some s' -> map cap (chs s') = map cap (chs s).
Proof.
  destruct s as [kd ni no ch pr cn lv nd cs p g1 g2 g3 g4 g5].
  destruct l; unf; crush_match; intros H; try discriminate H; inversion H; subst; clear H; unf;
    try reflexivity; (eapply map_upd_same; [eassumption | reflexivity]).
Qed.

Lemma LI_step K N M C s l s' : LI K N M C s -> step s l = Some s' -> LI K N M C s'.
Proof.
  intros [H1 H2 H3 H4 H5 H6 H7 H8 H9] Hs.
  destruct (CMP.step_frame s l s' Hs) as (F1 & F2 & F3 & F4 & F5 & _ & _ & _ & _ & _ & _ & F12).
  pose proof (step_caps s l s' Hs) as Hc.
  constructor; try congruence.
  - destruct (step_cases s l s' Hs) as [E | (pos & k & Hn & E)]; rewrite E; [exact H8|].
    destruct (remove_unordered_1_spec (cases s) pos k H9 Hn) as (_ & _ & L). rewrite L. lia.
  - destruct (step_cases s l s' Hs) as [E | (pos & k & Hn & E)]; rewrite E; [exact H9|].
    destruct (remove_unordered_1_spec (cases s) pos k H9 Hn) as (L & _ & _). exact L.
Qed.

Lemma LI_qstep K N M C s l s' : LI K N M C s -> qstep s l = Some s' -> LI K N M C s'.
Proof.
  intros HI Hs. destruct l; try (exact (LI_step K N M C s _ s' HI Hs)).
  unfold qstep in Hs. destruct (quiescent s); [|discriminate Hs]. inversion Hs; subst. exact HI.
Qed.

Lemma LI_init_gen k ic oc :
  LI k (length ic) (length oc) (ic ++ oc) (init_gen k ic oc).
Proof.
  constructor; simpl; rewrite ?repeat_length, ?seq_length; try reflexivity.
  - rewrite map_map. simpl. apply map_id.
  - apply seq_NoDup.
Qed.

Lemma LI_init rep ic oc : exists K N M C, LI K N M C (init rep ic oc).
Proof.
  unfold init, init_replicate, init_merge. destruct rep; do 4 eexists; apply LI_init_gen.
Qed.

(* ---- the relation decided by [st_eqb] on states of one scenario ---- *)
Definition R (s t : st) : Prop :=
  set_cases (erase s) [] = set_cases (erase t) [] /\ Permutation (cases s) (cases t).

Lemma R_refl s : R s s.
Proof. split; [reflexivity | apply Permutation_refl]. Qed.
Lemma R_sym s t : R s t -> R t s.
Proof. intros [E P]. split; [symmetry; exact E | apply Permutation_sym; exact P]. Qed.
Lemma R_trans a b c : R a b -> R b c -> R a c.
Proof. intros [E1 P1] [E2 P2]. split; [congruence | eapply Permutation_trans; eassumption]. Qed.

Lemma set_eqb_perm a b : NoDup a -> set_eqb a b = true -> Permutation a b.
Proof.
  unfold set_eqb. intros Hnd H. destruct (Nat.eqb (length a) (length b)) eqn:El; [|discriminate H].
  apply Nat.eqb_eq in El. apply NoDup_Permutation_bis; [exact Hnd | lia|].
  intros x Hx. rewrite forallb_forall in H. specialize (H x Hx). apply existsb_exists in H.
  destruct H as [y [Hy Exy]]. apply Nat.eqb_eq in Exy. subst y. exact Hy.
Qed.

Theorem st_eqb_R K N M C a b : LI K N M C a -> LI K N M C b -> st_eqb a b = true -> R a b.
Proof.
  intros [A1 A2 A3 A4 _ _ _ _ A9] [B1 B2 B3 B4 _ _ _ _ _].
  destruct a as [kd1 ni1 no1 ch1 pr1 cn1 lv1 nd1 cs1 p1 g11 g12 g13 g14 g15],
           b as [kd2 ni2 no2 ch2 pr2 cn2 lv2 nd2 cs2 p2 g21 g22 g23 g24 g25].
  unfold st_eqb, R.
  cbn [knd nin nout chs prods conss live ndone cases pc] in *. intros H.
  apply andl_true_iff in H. destruct H as [Hpc H]. apply lpc_eqb_spec in Hpc.
  apply andl_true_iff in H. destruct H as [Hnd H]. apply Nat.eqb_eq in Hnd.
  apply andl_true_iff in H. destruct H as [Hcs H].
  apply andl_true_iff in H. destruct H as [Hlv H]. apply (list_eqb_spec _ bool_eqb_spec) in Hlv.
  apply andl_true_iff in H. destruct H as [Hcn H]. apply (list_eqb_spec _ cons_eqb_spec) in Hcn.
  apply andl_true_iff in H. destruct H as [Hpr Hch]. apply (list_eqb_spec _ prod_eqb_spec) in Hpr.
  apply chs_eqb_eq in Hch; [|congruence].
  split; [|apply set_eqb_perm; assumption].
  rewrite !erase_mk, !set_cases_mk. subst. reflexivity.
Qed.

Lemma erase_set_cases s cs : erase (set_cases s cs) = set_cases (erase s) cs.
Proof. reflexivity. Qed.

(* [R] is a bisimulation for [step]; only the arm index of a reflect-path receive is renamed *)
Lemma R_bisim_step s t l s' : NoDup (cases s) -> R s t -> step s l = Some s' ->
  exists l' t', vis l' = vis l /\ step t l' = Some t' /\ R s' t'.
Proof.
  intros Hnd [He Hp] Hs.
  pose proof (step_erase s l) as E1. rewrite Hs in E1. simpl in E1.
  destruct (step (erase s) l) as [a'|] eqn:Ea; [|discriminate E1]. simpl in E1.
  assert (Ea' : erase a' = erase s') by congruence. clear E1.
  destruct (perm_bisim (erase s) (erase t) l a' He Hp Hnd Ea) as (l' & b' & Hv & Hb & He' & Hp').
  pose proof (step_erase t l') as E2. rewrite Hb in E2. simpl in E2.
  destruct (step t l') as [t'|] eqn:Et; [|discriminate E2]. simpl in E2.
  assert (Eb' : erase b' = erase t') by congruence. clear E2.
  exists l', t'. split; [exact Hv|]. split; [exact Et|]. split.
  - rewrite <- Ea', <- Eb', <- !erase_set_cases, He'. reflexivity.
  - change (cases s') with (cases (erase s')). change (cases t') with (cases (erase t')).
    rewrite <- Ea', <- Eb'. exact Hp'.
Qed.

(* ---- the label enumerations contain every enabled label ---- *)
Ltac in_list := solve [simpl; repeat (first [left; reflexivity | right])].

Lemma sel_pos_lt K N M C s pos k : LI K N M C s -> sel s pos = Some k -> pos < S (nin s).
Proof.
  intros HI H. unfold sel in H.
  pose proof (li_live _ _ _ _ _ HI) as Hl. pose proof (li_cases _ _ _ _ _ HI) as Hc.
  rewrite <- (li_nin _ _ _ _ _ HI) in Hl, Hc.
  destruct (knd s).
  - destruct (Nat.eqb pos 0) eqn:E; [apply Nat.eqb_eq in E; lia | discriminate H].
  - destruct (nth_error (live s) pos) eqn:E; [|discriminate H].
    assert (pos < length (live s)) by (apply nth_error_Some; congruence). lia.
  - destruct (nth_error (live s) pos) eqn:E; [|discriminate H].
    assert (pos < length (live s)) by (apply nth_error_Some; congruence). lia.
  - assert (pos < length (cases s)) by (apply nth_error_Some; congruence). lia.
  - destruct (Nat.eqb pos 0) eqn:E; [apply Nat.eqb_eq in E; lia | discriminate H].
Qed.

Lemma tau_complete_step K N M C s l :
  LI K N M C s -> vis l = None -> step s l <> None -> In l (tau_labels s).
Proof.
  intros HI Hv Hs. unfold tau_labels, lib_taus.
  destruct l as [ | |k c|j n|k v|k|j v| |k|k|pos| | |j]; simpl in Hv; try discriminate Hv; clear Hv.
  - assert (Hk : k < nin s).
    { rewrite (li_nin _ _ _ _ _ HI), <- (li_prods _ _ _ _ _ HI). apply nth_error_Some.
      intros E. apply Hs. simpl. rewrite E. reflexivity. }
    apply in_or_app; left. apply in_flat_map. exists k.
    split; [apply in_seq; split; [apply Nat.le_0_l | exact Hk] | in_list].
  - assert (Hk : k < nin s).
    { rewrite (li_nin _ _ _ _ _ HI), <- (li_prods _ _ _ _ _ HI). apply nth_error_Some.
      intros E. apply Hs. simpl. rewrite E. reflexivity. }
    apply in_or_app; left. apply in_flat_map. exists k.
    split; [apply in_seq; split; [apply Nat.le_0_l | exact Hk] | in_list].
  - destruct (sel s pos) as [k|] eqn:Esel.
    + pose proof (sel_pos_lt _ _ _ _ s pos k HI Esel) as Hp.
      apply in_or_app; right. apply in_or_app; left. apply in_or_app; left.
      apply in_map. apply in_seq. split; [apply Nat.le_0_l | exact Hp].
    + exfalso. apply Hs. unfold step. destruct (pc s); try reflexivity. rewrite Esel. reflexivity.
  - apply in_or_app; right. apply in_or_app; left. apply in_or_app; right. in_list.
  - apply in_or_app; right. apply in_or_app; left. apply in_or_app; right. in_list.
  - assert (Hj : j < nout s).
    { rewrite (li_nout _ _ _ _ _ HI), <- (li_conss _ _ _ _ _ HI). apply nth_error_Some.
      intros E. apply Hs. simpl. rewrite E. reflexivity. }
    apply in_or_app; right. apply in_or_app; right. apply in_map.
    apply in_seq. split; [apply Nat.le_0_l | exact Hj].
Qed.

Lemma qstep_of_step s l s' : step s l = Some s' -> qstep s l = Some s'.
Proof. destruct l; intros H; try exact H. discriminate H. Qed.

Theorem tau_labels_complete K N M C s l :
  LI K N M C s -> vis l = None -> qstep s l <> None -> In l (tau_labels s).
Proof.
  intros HI Hv Hs. apply (tau_complete_step K N M C s l HI Hv).
  destruct l; try exact Hs. discriminate Hv.
Qed.

Theorem labels_ev_complete (s : st) (l e : lab) :
  vis l = Some e -> qstep s l <> None -> In l ((fun (_ : st) (x : lab) => [x]) s e).
Proof. intros Hv _. left. apply (vis_some l e Hv). Qed.

(* ---- quiescence is invariant under [R] ---- *)
Lemma tau_labels_vis s l : In l (tau_labels s) -> vis l = None.
Proof.
  unfold tau_labels, lib_taus. intros H.
  apply in_app_or in H. destruct H as [H|H].
  - apply in_flat_map in H. destruct H as [k [_ [<-|[<-|[]]]]]; reflexivity.
  - apply in_app_or in H. destruct H as [H|H].
    + apply in_app_or in H. destruct H as [H|H].
      * apply in_map_iff in H. destruct H as [p [<- _]]. reflexivity.
      * destruct H as [<-|[<-|[]]]; reflexivity.
    + apply in_map_iff in H. destruct H as [j [<- _]]. reflexivity.
Qed.

Lemma lib_visible_vis s l : In l (lib_visible s) -> vis l = Some l.
Proof.
  unfold lib_visible. intros H.
  apply in_app_or in H. destruct H as [[<-|[]]|H]; [reflexivity|].
  apply in_app_or in H. destruct H as [H|H]; apply in_flat_map in H; destruct H as [k [_ H]].
  - destruct (nth_error (prods s) k) as [[q [|v|]]|]; simpl in H;
      try (destruct H as [<-|[]]; reflexivity); destruct H.
  - destruct (nth_error (conss s) k) as [[p [v|]]|]; simpl in H;
      try (destruct H as [<-|[]]; reflexivity); destruct H.
Qed.

Lemma lib_visible_R s t : R s t -> lib_visible s = lib_visible t.
Proof.
  intros [He _].
  change (lib_visible s) with (lib_visible (set_cases (erase s) [])).
  change (lib_visible t) with (lib_visible (set_cases (erase t) [])).
  rewrite He. reflexivity.
Qed.

Lemma quiescent_R K N M C s t :
  LI K N M C s -> LI K N M C t -> R s t -> quiescent s = true -> quiescent t = true.
Proof.
  intros HIs HIt HR Hq. unfold quiescent in *.
  apply andb_true_iff in Hq. destruct Hq as [Hq1 Hq2].
  apply negb_true_iff in Hq1. apply negb_true_iff in Hq2.
  apply andb_true_iff. split; apply negb_true_iff.
  - destruct (existsb (enabled t) (tau_labels t)) eqn:E; [exfalso|reflexivity].
    apply existsb_exists in E. destruct E as [l [Hin Hen]].
    unfold enabled in Hen. destruct (step t l) as [t'|] eqn:Et; [|discriminate Hen].
    destruct (R_bisim_step t s l t' (li_nodup _ _ _ _ _ HIt) (R_sym _ _ HR) Et) as (l' & s' & Hv & Hs' & _).
    rewrite (tau_labels_vis t l Hin) in Hv.
    assert (Hin' : In l' (tau_labels s)).
    { apply (tau_complete_step K N M C s l' HIs Hv). rewrite Hs'. discriminate. }
    assert (X : existsb (enabled s) (tau_labels s) = true).
    { apply existsb_exists. exists l'. split; [exact Hin'|]. unfold enabled. rewrite Hs'. reflexivity. }
    rewrite X in Hq1. discriminate Hq1.
  - destruct (existsb (enabled t) (lib_visible t)) eqn:E; [exfalso|reflexivity].
    apply existsb_exists in E. destruct E as [l [Hin Hen]].
    unfold enabled in Hen. destruct (step t l) as [t'|] eqn:Et; [|discriminate Hen].
    destruct (R_bisim_step t s l t' (li_nodup _ _ _ _ _ HIt) (R_sym _ _ HR) Et) as (l' & s' & Hv & Hs' & _).
    rewrite (lib_visible_vis t l Hin) in Hv. apply vis_some in Hv. subst l'.
    assert (X : existsb (enabled s) (lib_visible s) = true).
    { apply existsb_exists. exists l. split; [rewrite (lib_visible_R s t HR); exact Hin|].
      unfold enabled. rewrite Hs'. reflexivity. }
    rewrite X in Hq2. discriminate Hq2.
Qed.

(* [R] is a bisimulation for [qstep] *)
Theorem R_bisim K N M C s t l s' :
  LI K N M C s -> LI K N M C t -> R s t -> qstep s l = Some s' ->
  exists l' t', vis l' = vis l /\ qstep t l' = Some t' /\ R s' t'.
Proof.
  intros HIs HIt HR Hs.
  assert (Hstep : forall l0, step s l0 = Some s' ->
            exists l' t', vis l' = vis l0 /\ qstep t l' = Some t' /\ R s' t').
  { intros l0 H0.
    destruct (R_bisim_step s t l0 s' (li_nodup _ _ _ _ _ HIs) HR H0) as (l' & t' & Hv & Ht & HR').
    exists l', t'. split; [exact Hv|]. split; [apply qstep_of_step; exact Ht | exact HR']. }
  destruct l; try (apply Hstep; exact Hs).
  unfold qstep in Hs. destruct (quiescent s) eqn:Eq; [|discriminate Hs]. inversion Hs; subst s'.
  exists LQuiesce, t. split; [reflexivity|]. split; [|exact HR].
  unfold qstep. rewrite (quiescent_R K N M C s t HIs HIt HR Eq). reflexivity.
Qed.

(* ---- the instantiated theorems ---- *)
Definition cm_trace : list lab -> list lab := trace lab lab vis.

Definition cm_converged (rep : bool) (incaps outcaps : list nat) (evs : list lab) : bool :=
  convergedb st lab lab qstep vis lab_eqb st_eqb tau_labels (fun _ e => [e]) 200
             (init rep incaps outcaps) evs.

(* SOUNDNESS (unconditional) *)
Theorem cm_accepts_sound rep incaps outcaps evs :
  accepts_history rep incaps outcaps evs = true ->
  exists ls s, run qstep (init rep incaps outcaps) ls = Some s /\ cm_trace ls = evs.
Proof.
  unfold accepts_history, cm_trace.
  apply (accepts_sound st lab lab qstep vis lab_eqb st_eqb tau_labels (fun _ e => [e]) lab_eqb_sound).
Qed.

(* COMPLETENESS when the closures converged *)
Theorem cm_accepts_complete rep incaps outcaps evs ls s :
  cm_converged rep incaps outcaps evs = true ->
  run qstep (init rep incaps outcaps) ls = Some s -> cm_trace ls = evs ->
  accepts_history rep incaps outcaps evs = true.
Proof.
  unfold cm_converged, accepts_history, cm_trace. intros Hc Hr Ht.
  destruct (LI_init rep incaps outcaps) as (K & N & M & C & HI).
  apply (accepts_complete_quot st lab lab qstep vis lab_eqb st_eqb tau_labels (fun _ e => [e])
           (LI K N M C) R
           (LI_qstep K N M C) R_refl R_trans (st_eqb_R K N M C)
           (R_bisim K N M C) lab_eqb_refl_vis
           (tau_labels_complete K N M C) (fun s l e _ => labels_ev_complete s l e)
           200 (init rep incaps outcaps) evs ls s HI Hc Hr Ht).
Qed.

Theorem cm_reject_genuine rep incaps outcaps evs :
  cm_converged rep incaps outcaps evs = true -> accepts_history rep incaps outcaps evs = false ->
  forall ls s, run qstep (init rep incaps outcaps) ls = Some s -> cm_trace ls <> evs.
Proof.
  intros Hc Hacc ls s Hr Ht.
  rewrite (cm_accepts_complete rep incaps outcaps evs ls s Hc Hr Ht) in Hacc. discriminate.
Qed.

Theorem cm_accepts_iff rep incaps outcaps evs :
  cm_converged rep incaps outcaps evs = true ->
  (accepts_history rep incaps outcaps evs = true <->
   exists ls s, run qstep (init rep incaps outcaps) ls = Some s /\ cm_trace ls = evs).
Proof.
  intros Hc. split.
  - apply cm_accepts_sound.
  - intros [ls [s [Hr Ht]]]. eapply cm_accepts_complete; eassumption.
Qed.


(* [first_rejected] (used to report the offending event) agrees with [accepts_history] *)
Lemma cm_first_rejected_none rep incaps outcaps evs :
  first_rejected rep incaps outcaps evs = None <-> accepts_history rep incaps outcaps evs = true.
Proof.
  unfold first_rejected, accepts_history, accepts.
  destruct (first_reject qstep vis lab_eqb st_eqb tau_labels (fun _ e => [e]) 200
              (close qstep vis st_eqb tau_labels 200 [init rep incaps outcaps]) evs 0);
    split; intros H; try discriminate H; reflexivity.
Qed.

(* ---- non-vacuity ---- *)
(* merge2 (hand-written select) *)
Definition ex_hist : list lab :=
  [LStart; LCmd 0 (CSend 7%Z); LPermit 0 1; LSent 0 7%Z; LRecvd 0 7%Z; LCmd 0 CClose; LClosed 0;
   LCmd 1 CClose; LClosed 1; LRet; LQuiesce].

Example ex_accepts :
  accepts_history false [0; 1] [0] ex_hist = true /\ cm_converged false [0; 1] [0] ex_hist = true.
Proof. vm_compute. split; reflexivity. Qed.

Example ex_is_trace :
  exists ls s, run qstep (init false [0; 1] [0]) ls = Some s /\ cm_trace ls = ex_hist.
Proof. apply cm_accepts_sound. exact (proj1 ex_accepts). Qed.

(* four inputs: the reflect.Select path, whose case list is compared up to order *)
Definition ex_hist4 : list lab :=
  [LStart; LCmd 3 CClose; LClosed 3; LCmd 0 CClose; LClosed 0; LCmd 1 (CSend 5%Z); LPermit 0 1; LSent 1 5%Z;
   LRecvd 0 5%Z; LCmd 1 CClose; LClosed 1; LCmd 2 CClose; LClosed 2; LRet; LQuiesce].

Example ex_accepts4 :
  accepts_history false [0; 0; 0; 0] [0] ex_hist4 = true /\
  cm_converged false [0; 0; 0; 0] [0] ex_hist4 = true.
Proof. vm_compute. split; reflexivity. Qed.

(* Replicate *)
Definition ex_hist_rep : list lab :=
  [LStart; LCmd 0 (CSend 7%Z); LPermit 0 1; LPermit 1 1; LSent 0 7%Z; LRecvd 0 7%Z; LRecvd 1 7%Z;
   LCmd 0 CClose; LClosed 0; LRet; LQuiesce].

Example ex_accepts_rep :
  accepts_history true [0] [0; 1] ex_hist_rep = true /\ cm_converged true [0] [0; 1] ex_hist_rep = true.
Proof. vm_compute. split; reflexivity. Qed.

(* the output delivers a value no input sent: rejected, and the rejection is genuine *)
Definition ex_bad : list lab := [LStart; LCmd 0 (CSend 7%Z); LPermit 0 1; LRecvd 0 8%Z].

Example ex_rejects :
  accepts_history false [0; 1] [0] ex_bad = false /\ cm_converged false [0; 1] [0] ex_bad = true.
Proof. vm_compute. split; reflexivity. Qed.

Example ex_no_run :
  forall ls s, run qstep (init false [0; 1] [0]) ls = Some s -> cm_trace ls <> ex_bad.
Proof. apply cm_reject_genuine; [exact (proj2 ex_rejects) | exact (proj1 ex_rejects)]. Qed.

(* Merge returning while an input is still open (the early-return defect class): rejected, genuinely *)
Definition ex_bad_ret : list lab := [LStart; LCmd 0 CClose; LClosed 0; LRet].

Example ex_rejects_ret :
  accepts_history false [0; 1] [0] ex_bad_ret = false /\ cm_converged false [0; 1] [0] ex_bad_ret = true.
Proof. vm_compute. split; reflexivity. Qed.
End CMM.

(* ====================================================================== *)
(* Part 3: stream.Merge                                                    *)
(* ====================================================================== *)

Module SMM.
Import SM.

Lemma err_eqb_spec a b : err_eqb a b = true <-> a = b.
Proof.
  destruct a as [x| |], b as [y| |]; simpl; try (split; intros H; try discriminate H; reflexivity).
  rewrite Z.eqb_eq. split; [intros ->; reflexivity | intros H; inversion H; reflexivity].
Qed.

Lemma sres_eqb_spec a b : sres_eqb a b = true <-> a = b.
Proof.
  destruct a as [x| |x], b as [y| |y]; simpl; try (split; intros H; try discriminate H; reflexivity).
  - rewrite Z.eqb_eq. split; [intros ->; reflexivity | intros H; inversion H; reflexivity].
  - rewrite err_eqb_spec. split; [intros ->; reflexivity | intros H; inversion H; reflexivity].
Qed.

Lemma nres_eqb_spec a b : nres_eqb a b = true <-> a = b.
Proof.
  destruct a as [x| |x], b as [y| |y]; simpl; try (split; intros H; try discriminate H; reflexivity).
  - rewrite Z.eqb_eq. split; [intros ->; reflexivity | intros H; inversion H; reflexivity].
  - rewrite err_eqb_spec. split; [intros ->; reflexivity | intros H; inversion H; reflexivity].
Qed.

Lemma err_eqb_refl a : err_eqb a a = true.
Proof. apply err_eqb_spec. reflexivity. Qed.
Lemma sres_eqb_refl a : sres_eqb a a = true.
Proof. apply sres_eqb_spec. reflexivity. Qed.
Lemma nres_eqb_refl a : nres_eqb a a = true.
Proof. apply nres_eqb_spec. reflexivity. Qed.

Ltac eqb_crush :=
  repeat match goal with
  | H : (_ && _) = true |- _ => apply andb_true_iff in H; destruct H
  | H : Nat.eqb _ _ = true |- _ => apply Nat.eqb_eq in H
  | H : Z.eqb _ _ = true |- _ => apply Z.eqb_eq in H
  | H : Bool.eqb _ _ = true |- _ => apply Bool.eqb_prop in H
  | H : err_eqb _ _ = true |- _ => apply (proj1 (err_eqb_spec _ _)) in H
  | H : sres_eqb _ _ = true |- _ => apply (proj1 (sres_eqb_spec _ _)) in H
  | H : nres_eqb _ _ = true |- _ => apply (proj1 (nres_eqb_spec _ _)) in H
  end; subst.

Ltac eqb_refl :=
  rewrite ?Nat.eqb_refl, ?Z.eqb_refl, ?Bool.eqb_reflx, ?err_eqb_refl, ?sres_eqb_refl, ?nres_eqb_refl;
  reflexivity.

Lemma wpc_eqb_spec a b : wpc_eqb a b = true <-> a = b.
Proof.
  split.
  - destruct a, b; simpl; intros H; try discriminate H; eqb_crush; reflexivity.
  - intros ->. destruct b; simpl; eqb_refl.
Qed.

Lemma kcmd_eqb_spec a b : kcmd_eqb a b = true <-> a = b.
Proof.
  split.
  - destruct a, b; simpl; intros H; try discriminate H; eqb_crush; reflexivity.
  - intros ->. destruct b; simpl; eqb_refl.
Qed.

Lemma kpc_eqb_spec a b : kpc_eqb a b = true <-> a = b.
Proof.
  split.
  - destruct a, b; simpl; intros H; try discriminate H; eqb_crush; reflexivity.
  - intros ->. destruct b; simpl; eqb_refl.
Qed.

Lemma cstate_eqb_spec a b : cstate_eqb a b = true <-> a = b.
Proof. destruct a, b; simpl; split; intros H; try discriminate; reflexivity. Qed.

(* ---- events are labels ---- *)
Lemma vis_some l e : vis l = Some e -> e = l.
Proof. destruct l; simpl; intros H; try discriminate; inversion H; reflexivity. Qed.

Lemma lab_eqb_sound a b : lab_eqb a b = true -> a = b.
Proof. destruct a, b; simpl; intros H; try discriminate H; eqb_crush; reflexivity. Qed.

Lemma lab_eqb_refl_vis l e : vis l = Some e -> lab_eqb e e = true.
Proof.
  intros H. pose proof (vis_some l e H) as He. subst e.
  destruct l; simpl in H; try discriminate H; simpl; eqb_refl.
Qed.

(* ---- erasure of the ghost history ---- *)
Definition esrc (x : src) : src := mkSrc (s_items x) (s_fin x) (s_tokens x) [] 0.
Definition erase (s : st) : st :=
  mkSt (nw s) (ws s) (map esrc (srcs s)) (merged s) (ctx s) (sdone s) (serr s) (rdone s)
       (ndone s) (once s) (wg s) (kctxs s) (kprog s) (kgo s) (kpc_ s) [] [] [] 0.

Ltac crush_match :=
  repeat (first [ match goal with |- context [match ?x with _ => _ end] => is_var x; destruct x end
                | match goal with |- context [match ?x with _ => _ end] => destruct x eqn:? end ]).
Ltac unf :=
  cbv [step close_sender kctx_done k_parked setw with_kpc with_k with_ws with_srcs
    with_merged with_ctx with_sender_closed with_rdone with_ndone with_once with_wg with_kctxs
    with_recvd with_seen
    nw ws srcs merged ctx sdone serr rdone ndone once wg kctxs kprog kgo kpc_ recvd winners seen sclosed].
Ltac fin :=
  cbv [option_map erase
    nw ws srcs merged ctx sdone serr rdone ndone once wg kctxs kprog kgo kpc_ recvd winners seen sclosed].

Lemma map_esrc_idem l : map esrc (map esrc l) = map esrc l.
Proof. rewrite map_map. reflexivity. Qed.

Lemma erase_idem s : erase (erase s) = erase s.
Proof. unfold erase. cbn [nw ws srcs merged ctx sdone serr rdone ndone once wg kctxs kprog kgo kpc_].
  rewrite map_esrc_idem. reflexivity. Qed.

Lemma erase_mk a b c d e f g h i j k l m n o p q r t :
  erase (mkSt a b c d e f g h i j k l m n o p q r t) = mkSt a b (map esrc c) d e f g h i j k l m n o [] [] [] 0.
Proof. reflexivity. Qed.

(* no step reads the ghost fields: stepping commutes with the erasure *)
Lemma step_erase s l : option_map erase (step (erase s) l) = option_map erase (step s l).
Proof.
  destruct s as [n w sr mg cx sd se rd nd oc wgv kc kp kg kpc rc wn sn scl].
  rewrite erase_mk.
  destruct l; unf; rewrite ?nth_error_map;
    try (destruct (nth_error sr i) as [x|] eqn:Ex; cbn [option_map esrc s_items s_fin s_tokens s_out s_closes]);
    crush_match; unf; fin; rewrite ?map_upd, ?map_esrc_idem; reflexivity.
Qed.

Lemma enabled_erase s l : enabled (erase s) l = enabled s l.
Proof.
  unfold enabled. pose proof (step_erase s l) as H.
  destruct (step (erase s) l), (step s l); simpl in H; try discriminate H; reflexivity.
Qed.

Lemma tau_labels_erase s : tau_labels (erase s) = tau_labels s.
Proof. reflexivity. Qed.

Lemma lib_visible_erase s : lib_visible (erase s) = lib_visible s.
Proof.
  unfold lib_visible. f_equal.
  change (nw (erase s)) with (nw s). apply flat_map_ext. intros i.
  unfold worker_visible. f_equal. change (srcs (erase s)) with (map esrc (srcs s)).
  rewrite nth_error_map. destruct (nth_error (srcs s) i) as [x|]; reflexivity.
Qed.

Lemma quiescent_erase s : quiescent (erase s) = quiescent s.
Proof.
  unfold quiescent. rewrite tau_labels_erase, lib_visible_erase.
  rewrite (existsb_ext_in (enabled (erase s)) (enabled s) (tau_labels s)) by (intros; apply enabled_erase).
  rewrite (existsb_ext_in (enabled (erase s)) (enabled s) (lib_visible s)) by (intros; apply enabled_erase).
  reflexivity.
Qed.

Lemma qstep_erase s l : option_map erase (qstep (erase s) l) = option_map erase (qstep s l).
Proof.
  destruct l; try apply step_erase.
  unfold qstep. rewrite quiescent_erase. change (alive (erase s)) with (alive s).
  destruct (quiescent s && Nat.eqb alive0 (alive s)); [|reflexivity].
  simpl. rewrite erase_idem. reflexivity.
Qed.

(* the relation decided by [st_eqb] on states of one scenario *)
Definition R (s t : st) : Prop := erase s = erase t.

Lemma R_refl s : R s s.
Proof. reflexivity. Qed.
Lemma R_trans a b c : R a b -> R b c -> R a c.
Proof. unfold R. congruence. Qed.

(* [R] is a strong bisimulation for [qstep] (same label on both sides) *)
Theorem R_bisim s t l s' : R s t -> qstep s l = Some s' ->
  exists l' t', vis l' = vis l /\ qstep t l' = Some t' /\ R s' t'.
Proof.
  unfold R. intros HR Hs.
  pose proof (qstep_erase s l) as E1. pose proof (qstep_erase t l) as E2.
  rewrite HR, E2, Hs in E1. simpl in E1.
  destruct (qstep t l) as [t'|] eqn:Et; [|discriminate E1]. simpl in E1.
  assert (E : erase s' = erase t') by congruence.
  exists l, t'. split; [reflexivity|]. split; [exact Et | exact E].
Qed.

(* ---- the constants of a scenario ---- *)
Record MI (N : nat) (F : list (option Z)) (s : st) : Prop := {
  mi_len : length (ws s) = nw s;
  mi_nw : nw s = N;
  mi_fin : map s_fin (srcs s) = F
}.

Lemma step_consts s l s' : step s l = Some s' ->
  length (ws s') = length (ws s) /\ nw s' = nw s /\ map s_fin (srcs s') = map s_fin (srcs s).
Proof.
  destruct s as [n w sr mg cx sd se rd nd oc wgv kc kp kg kpc rc wn sn scl].
  destruct l; unf; try (destruct (nth_error sr i) as [x|] eqn:Ex);
    crush_match; intros H; try discriminate H; inversion H; subst; clear H; unf;
    rewrite ?upd_length, ?map_length, ?upd_length; repeat split; try reflexivity;
    (eapply map_upd_same; [eassumption | cbn; congruence]).
Qed.

Lemma MI_qstep N F s l s' : MI N F s -> qstep s l = Some s' -> MI N F s'.
Proof.
  intros [H1 H2 H3] Hs.
  assert (Hc : length (ws s') = length (ws s) /\ nw s' = nw s /\ map s_fin (srcs s') = map s_fin (srcs s)).
  { destruct l; try (exact (step_consts s _ s' Hs)).
    unfold qstep in Hs. destruct (quiescent s && Nat.eqb alive0 (alive s)); [|discriminate Hs].
    inversion Hs; subst. repeat split; reflexivity. }
  destruct Hc as (C1 & C2 & C3). constructor; congruence.
Qed.

Lemma MI_init scripts prog nctx : MI (length scripts) (map snd scripts) (init scripts prog nctx).
Proof.
  constructor; simpl; rewrite ?map_length; try reflexivity.
  rewrite map_map. reflexivity.
Qed.

Lemma srcs_erase_eq a : forall b,
  list_eqb src_eqb a b = true -> map s_fin a = map s_fin b -> map esrc a = map esrc b.
Proof.
  induction a as [|x a IH]; intros [|y b] He Hf; simpl in *; try discriminate; [reflexivity|].
  apply andl_true_iff in He. destruct He as [Hxy Hab]. inversion Hf as [[Hf1 Hf2]].
  unfold src_eqb in Hxy. apply andl_true_iff in Hxy. destruct Hxy as [Ht Hi].
  apply Nat.eqb_eq in Ht. apply (list_eqb_spec Z.eqb Z.eqb_eq) in Hi.
  rewrite (IH b Hab Hf2). unfold esrc. rewrite Ht, Hi, Hf1. reflexivity.
Qed.

Theorem st_eqb_R N F a b : MI N F a -> MI N F b -> st_eqb a b = true -> R a b.
Proof.
  intros [_ Hn1 Hf1] [_ Hn2 Hf2].
  destruct a as [n1 w1 sr1 mg1 cx1 sd1 se1 rd1 nd1 oc1 wg1 kc1 kp1 kg1 kpc1 rc1 wn1 sn1 scl1],
           b as [n2 w2 sr2 mg2 cx2 sd2 se2 rd2 nd2 oc2 wg2 kc2 kp2 kg2 kpc2 rc2 wn2 sn2 scl2].
  unfold st_eqb, R.
  cbn [nw ws srcs merged ctx sdone serr rdone ndone once wg kctxs kprog kgo kpc_] in *.
  intros H.
  apply andl_true_iff in H. destruct H as [Hkpc H]. apply kpc_eqb_spec in Hkpc.
  apply andl_true_iff in H. destruct H as [Hws H]. apply (list_eqb_spec _ wpc_eqb_spec) in Hws.
  apply andl_true_iff in H. destruct H as [Hb H].
  apply andl_true_iff in H. destruct H as [Hnn H].
  apply andl_true_iff in H. destruct H as [Hse H]. apply (opt_eqb_spec _ err_eqb_spec) in Hse.
  apply andl_true_iff in H. destruct H as [Hsr H].
  apply andl_true_iff in H. destruct H as [Hkc Hkp].
  apply (list_eqb_spec _ cstate_eqb_spec) in Hkc. apply (list_eqb_spec _ kcmd_eqb_spec) in Hkp.
  eqb_crush. rewrite !erase_mk. rewrite (srcs_erase_eq sr1 sr2 Hsr); [reflexivity|]. congruence.
Qed.

(* ---- the label enumerations contain every enabled label ---- *)
Ltac in_list := solve [simpl; repeat (first [left; reflexivity | right])].

Ltac worker_bound s i Hs HI Hw :=
  let E := fresh "E" in
  assert (Hw : i < nw s)
    by (rewrite <- (mi_len _ _ _ HI); apply nth_error_Some; intros E; apply Hs; simpl;
        try (destruct (kpc_ s); try reflexivity); rewrite E; reflexivity).

Ltac worker_label s i Hs HI :=
  let Hw := fresh "Hw" in
  worker_bound s i Hs HI Hw;
  apply in_or_app; left; apply in_flat_map; exists i;
  split; [apply in_seq; split; [apply Nat.le_0_l | exact Hw] | unfold worker_taus; in_list].

Theorem tau_labels_complete N F s l :
  MI N F s -> vis l = None -> qstep s l <> None -> In l (tau_labels s).
Proof.
  intros HI Hv Hs. unfold tau_labels.
  destruct l as [ |i|i r|i|i k|k|c|r| | |c|a|i|i a|i|i|i|i|i|i|i|a|o|c| | | ];
    simpl in Hv; try discriminate Hv; clear Hv.
  - worker_label s i Hs HI.
  - destruct a; worker_label s i Hs HI.
  - worker_label s i Hs HI.
  - worker_label s i Hs HI.
  - worker_label s i Hs HI.
  - worker_label s i Hs HI.
  - worker_label s i Hs HI.
  - worker_label s i Hs HI.
  - worker_label s i Hs HI.
  - apply in_or_app; right. apply in_or_app; left. unfold consumer_taus.
    destruct a as [ |i| | ]; try (apply in_or_app; left; in_list).
    worker_bound s i Hs HI Hw. apply in_or_app; right. apply in_flat_map. exists i.
    split; [apply in_seq; split; [apply Nat.le_0_l | exact Hw] | in_list].
  - apply in_or_app; right. apply in_or_app; left. unfold consumer_taus.
    destruct o as [i|]; [|apply in_or_app; left; in_list].
    worker_bound s i Hs HI Hw. apply in_or_app; right. apply in_flat_map. exists i.
    split; [apply in_seq; split; [apply Nat.le_0_l | exact Hw] | in_list].
  - apply in_or_app; right. apply in_or_app; right. apply in_map. apply in_seq.
    split; [apply Nat.le_0_l|]. simpl. apply nth_error_Some.
    intros E. apply Hs. simpl. rewrite E. reflexivity.
  - apply in_or_app; right. apply in_or_app; left. unfold consumer_taus. apply in_or_app; left. in_list.
  - apply in_or_app; right. apply in_or_app; left. unfold consumer_taus. apply in_or_app; left. in_list.
  - apply in_or_app; right. apply in_or_app; left. unfold consumer_taus. apply in_or_app; left. in_list.
Qed.

Theorem labels_ev_complete (s : st) (l e : lab) :
  vis l = Some e -> qstep s l <> None -> In l ((fun (_ : st) (x : lab) => [x]) s e).
Proof. intros Hv _. left. apply (vis_some l e Hv). Qed.

(* ---- the instantiated theorems ---- *)
Definition sm_trace : list lab -> list lab := trace lab lab vis.

Definition sm_converged (scripts : list (list Z * option Z)) (prog : list kcmd) (nctx : nat)
           (evs : list lab) : bool :=
  convergedb st lab lab qstep vis lab_eqb st_eqb tau_labels (fun _ e => [e]) 200
             (init scripts prog nctx) evs.

(* SOUNDNESS (unconditional) *)
Theorem sm_accepts_sound scripts prog nctx evs :
  accepts_history scripts prog nctx evs = true ->
  exists ls s, run qstep (init scripts prog nctx) ls = Some s /\ sm_trace ls = evs.
Proof.
  unfold accepts_history, sm_trace.
  apply (accepts_sound st lab lab qstep vis lab_eqb st_eqb tau_labels (fun _ e => [e]) lab_eqb_sound).
Qed.

(* COMPLETENESS when the closures converged *)
Theorem sm_accepts_complete scripts prog nctx evs ls s :
  sm_converged scripts prog nctx evs = true ->
  run qstep (init scripts prog nctx) ls = Some s -> sm_trace ls = evs ->
  accepts_history scripts prog nctx evs = true.
Proof.
  unfold sm_converged, accepts_history, sm_trace. intros Hc Hr Ht.
  apply (accepts_complete_quot st lab lab qstep vis lab_eqb st_eqb tau_labels (fun _ e => [e])
           (MI (length scripts) (map snd scripts)) R
           (MI_qstep _ _) R_refl R_trans (st_eqb_R _ _)
           (fun s t l s' _ _ => R_bisim s t l s') lab_eqb_refl_vis
           (tau_labels_complete _ _) (fun s l e _ => labels_ev_complete s l e)
           200 (init scripts prog nctx) evs ls s (MI_init scripts prog nctx) Hc Hr Ht).
Qed.

Theorem sm_reject_genuine scripts prog nctx evs :
  sm_converged scripts prog nctx evs = true -> accepts_history scripts prog nctx evs = false ->
  forall ls s, run qstep (init scripts prog nctx) ls = Some s -> sm_trace ls <> evs.
Proof.
  intros Hc Hacc ls s Hr Ht.
  rewrite (sm_accepts_complete scripts prog nctx evs ls s Hc Hr Ht) in Hacc. discriminate.
Qed.

Theorem sm_accepts_iff scripts prog nctx evs :
  sm_converged scripts prog nctx evs = true ->
  (accepts_history scripts prog nctx evs = true <->
   exists ls s, run qstep (init scripts prog nctx) ls = Some s /\ sm_trace ls = evs).
Proof.
  intros Hc. split.
  - apply sm_accepts_sound.
  - intros [ls [s [Hr Ht]]]. eapply sm_accepts_complete; eassumption.
Qed.


(* [first_rejected] (used to report the offending event) agrees with [accepts_history] *)
Lemma sm_first_rejected_none scripts prog nctx evs :
  first_rejected scripts prog nctx evs = None <-> accepts_history scripts prog nctx evs = true.
Proof.
  unfold first_rejected, accepts_history, accepts.
  destruct (first_reject qstep vis lab_eqb st_eqb tau_labels (fun _ e => [e]) 200
              (close qstep vis st_eqb tau_labels 200 [init scripts prog nctx]) evs 0);
    split; intros H; try discriminate H; reflexivity.
Qed.

(* ---- non-vacuity ---- *)
Definition ex_scripts : list (list Z * option Z) := [([5%Z], None)].
Definition ex_prog : list kcmd := [KCNext 0; KCClose].
Definition ex_hist : list lab :=
  [LMerge; LRelease 0 2; LSrcEnter 0; LSrcExit 0 (SRItem 5%Z); LGo 2; LCallNext 0; LRetNext (NItem 5%Z);
   LSrcEnter 0; LSrcExit 0 SREnd; LSrcClose 0; LCallClose; LRetClose; LQuiesce 0].

Example ex_accepts :
  accepts_history ex_scripts ex_prog 1 ex_hist = true /\ sm_converged ex_scripts ex_prog 1 ex_hist = true.
Proof. vm_compute. split; reflexivity. Qed.

Example ex_is_trace :
  exists ls s, run qstep (init ex_scripts ex_prog 1) ls = Some s /\ sm_trace ls = ex_hist.
Proof. apply sm_accepts_sound. exact (proj1 ex_accepts). Qed.

(* the merged stream yields an item no input produced: rejected, and the rejection is genuine *)
Definition ex_bad : list lab :=
  [LMerge; LRelease 0 2; LSrcEnter 0; LSrcExit 0 (SRItem 5%Z); LGo 2; LCallNext 0; LRetNext (NItem 7%Z)].

Example ex_rejects :
  accepts_history ex_scripts ex_prog 1 ex_bad = false /\ sm_converged ex_scripts ex_prog 1 ex_bad = true.
Proof. vm_compute. split; reflexivity. Qed.

Example ex_no_run :
  forall ls s, run qstep (init ex_scripts ex_prog 1) ls = Some s -> sm_trace ls <> ex_bad.
Proof. apply sm_reject_genuine; [exact (proj2 ex_rejects) | exact (proj1 ex_rejects)]. Qed.
End SMM.

Print Assumptions accepts_complete_quot.
Print Assumptions reject_genuine_quot.
Print Assumptions CMM.step_erase.
Print Assumptions CMM.R_bisim.
Print Assumptions CMM.st_eqb_R.
Print Assumptions CMM.tau_labels_complete.
Print Assumptions CMM.cm_accepts_sound.
Print Assumptions CMM.cm_accepts_complete.
Print Assumptions CMM.cm_reject_genuine.
Print Assumptions CMM.cm_accepts_iff.
Print Assumptions CMM.ex_no_run.
Print Assumptions SMM.step_erase.
Print Assumptions SMM.R_bisim.
Print Assumptions SMM.st_eqb_R.
Print Assumptions SMM.tau_labels_complete.
Print Assumptions SMM.sm_accepts_sound.
Print Assumptions SMM.sm_accepts_complete.
Print Assumptions SMM.sm_reject_genuine.
Print Assumptions SMM.sm_accepts_iff.
Print Assumptions SMM.ex_no_run.
