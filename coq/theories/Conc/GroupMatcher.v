(* C17 -- the history matcher of Conc/Group.v (xsync.Group) is certified.

   The correspondence check calls  chk c = accepts_history (fst c) (snd c)  (props/group_common.py),
   and [Group.accepts_history c evs] is the generic matcher [GoLTS.accepts] run on
     qstep, vis, lab_eqb, st_eqb, match_labels, (fun _ e => [e]), fuel 200, init c.
   [st_eqb] compares every field (ghosts included), events are labels.  The only model-specific
   reduction is the partial-order reduction [match_labels]: if some "eager candidate" (TGo, TRUnlock,
   TNewTimer, TReset, TDrain, TDone, TCheckCtx once the context is cancelled, TWUnlock) is enabled,
   the FIRST enabled one is the only internal label explored from that state; otherwise all of
   [tau_labels].  Visible events are matched from every state of the (reduced) closure.

   Proved here (stdlib only, no axioms):

   1. SOUNDNESS, unconditional ([group_accepts_sound], [group_first_rejected_sound]):
        accepts_history c evs = true ->
        exists ls s, run qstep (init c) ls = Some s /\ group_trace ls = evs
      ([qstep] is the unreduced model: [step] plus the quiescence observation LQuiesce).
      The reduction can only prune; nothing model-specific is needed.

   2. For cross-checking, the UNREDUCED matcher [accepts_history_full] (all of [tau_labels]) is certified
      in both directions by instantiating the generic theorems ([group_full_sound],
      [group_full_complete], [group_full_reject_genuine]); [group_reduced_le_full] and
      [group_reduced_eq_full] relate the two.

   3. COMPLETENESS of the SHIPPED, REDUCED matcher ([group_accepts_complete], [group_reject_genuine],
      [group_accepts_iff]), under the executable test [group_converged c evs] (= GoLTSProofs.convergedb
      for the reduced label enumeration: every closure computed along the history reached its fixpoint
      within the fuel):
        group_converged c evs = true -> accepts_history c evs = false ->
        forall ls s, run qstep (init c) ls = Some s -> group_trace ls <> evs.
      This does NOT follow from GoLTSProofs.reject_genuine ([labels_complete] is false for
      [match_labels]); it is the partial-order-reduction argument, carried out in full:
        - [diamond_*] (one lemma per eager label, against all 39 labels): on states satisfying the
          invariants Inv1 /\ Inv2 of GroupProofs.v an enabled eager step  a  commutes with every other
          enabled step  l  (same resulting state, a stays enabled and eager).  The invariants are
          needed: e.g. TRUnlock/TRLock and TDone/TDone commute only because readers / wg are large
          enough, TNewTimer/TReset/TDrain against TFire only because the timer is not pending there.
          ONE pair does not commute: TDone r (which contains the deferred t.Stop()) disables TFire r
          of a goroutine in GExiting.  The two orders differ only in the bit r_tchan of a goroutine
          that has exited, which nothing ever reads again:
        - [clr] erases that dead bit; [clr_step_fwd]/[clr_step_bwd] show that [clr] is a functional
          bisimulation of [step] (all 39 labels) and [quiescent_clr_eq] that it preserves LQuiesce;
        - [ahead s s']: s' is reached from s by eager steps, up to [clr].  [path]: a model step from s
          is either absorbed (s' is still ahead) or can be replayed from s'.  [settle]: from a state of
          a reduced-closed set, following the forced eager steps (termination measure [mu]) the
          replayed step lands in the set again.  [sim]: induction over the model run.

   What remains conditional: completeness is relative to [group_converged] (fuel 200 waves); no closed
   bound "fuel >= number of tau-reachable states" ([fuel_sufficient]) is proved for Group. *)
From Juniper Require Import Common.Base Conc.GoLTS Conc.GoLTSProofs Conc.Group Conc.GroupProofs.
From Juniper Require Conc.CondMatcher.
From Coq Require Import Arith PeanoNat.
Local Open Scope nat_scope.

Definition group_trace : list lab -> list lab := trace lab lab vis.

(* ---------------------------------------------------------------------- *)
(* the equality tests                                                      *)
(* ---------------------------------------------------------------------- *)

Lemma andl_true_iff (a b : bool) : (if a then b else false) = true <-> a = true /\ b = true.
Proof.
  destruct a, b; simpl; (split; [intros H | intros [H1 H2]]); try discriminate; auto.
Qed.

Lemma list_eqb_spec {A} (eqb : A -> A -> bool) :
  (forall x y, eqb x y = true <-> x = y) ->
  forall a b, list_eqb eqb a b = true <-> a = b.
Proof.
  intros Hspec a. induction a as [|x a IH]; intros [|y b]; simpl.
  - split; reflexivity.
  - split; discriminate.
  - split; discriminate.
  - rewrite andl_true_iff, Hspec, IH. split.
    + intros [Hx Ha]. subst. reflexivity.
    + intros H. inversion H. split; reflexivity.
Qed.

Lemma bool_eqb_spec a b : Bool.eqb a b = true <-> a = b.
Proof. split; [apply Bool.eqb_prop | intros ->; apply Bool.eqb_reflx]. Qed.

Lemma kind_eqb_spec a b : kind_eqb a b = true <-> a = b.
Proof. destruct a, b; simpl; split; intros H; try discriminate; reflexivity. Qed.
Lemma rpc_eqb_spec a b : rpc_eqb a b = true <-> a = b.
Proof. destruct a, b; simpl; split; intros H; try discriminate; reflexivity. Qed.
Lemma gpc_eqb_spec a b : gpc_eqb a b = true <-> a = b.
Proof. destruct a, b; simpl; split; intros H; try discriminate; reflexivity. Qed.
Lemma tpc_eqb_spec a b : tpc_eqb a b = true <-> a = b.
Proof. destruct a, b; simpl; split; intros H; try discriminate; reflexivity. Qed.
Lemma spc_eqb_spec a b : spc_eqb a b = true <-> a = b.
Proof. destruct a, b; simpl; split; intros H; try discriminate; reflexivity. Qed.
Lemma cstate_eqb_spec a b : cstate_eqb a b = true <-> a = b.
Proof. destruct a, b; simpl; split; intros H; try discriminate; reflexivity. Qed.

Lemma reg_eqb_spec a b : reg_eqb a b = true <-> a = b.
Proof.
  destruct a as [k1 f1 o1 p1 rp1 gp1 tk1 ta1 tc1 ru1 in1 sp1],
           b as [k2 f2 o2 p2 rp2 gp2 tk2 ta2 tc2 ru2 in2 sp2].
  unfold reg_eqb. cbn [r_kind r_fctx r_open r_permits r_rpc r_gpc r_tok r_tact r_tchan r_runs r_infl r_spawns].
  rewrite !andl_true_iff, rpc_eqb_spec, gpc_eqb_spec, kind_eqb_spec, !bool_eqb_spec, !Nat.eqb_eq.
  split.
  - intros H. decompose [and] H. subst. reflexivity.
  - intros H. inversion H. subst. repeat split; reflexivity.
Qed.

Lemma trig_eqb_spec a b : trig_eqb a b = true <-> a = b.
Proof.
  destruct a as [r1 p1 n1], b as [r2 p2 n2]. unfold trig_eqb. cbn [t_reg t_pc t_runs0].
  rewrite !andl_true_iff, tpc_eqb_spec, !Nat.eqb_eq. split.
  - intros H. decompose [and] H. subst. reflexivity.
  - intros H. inversion H. subst. repeat split; reflexivity.
Qed.

Lemma stopper_eqb_spec a b : stopper_eqb a b = true <-> a = b.
Proof.
  destruct a as [w1 p1], b as [w2 p2]. unfold stopper_eqb. cbn [s_wait s_pc].
  rewrite !andl_true_iff, spc_eqb_spec, bool_eqb_spec. split.
  - intros [H1 H2]. subst. reflexivity.
  - intros H. inversion H. subst. split; reflexivity.
Qed.

(* the shipped state test decides Leibniz equality (ghost fields included) *)
Theorem group_st_eqb_spec a b : st_eqb a b = true <-> a = b.
Proof.
  destruct a as [r1 t1 k1 rd1 w1 c1 p1 s1 g1], b as [r2 t2 k2 rd2 w2 c2 p2 s2 g2].
  unfold st_eqb. cbn [regs trigs stops readers writer ctxd parent stopped wg].
  rewrite !andl_true_iff, (list_eqb_spec _ reg_eqb_spec), (list_eqb_spec _ stopper_eqb_spec),
    (list_eqb_spec _ trig_eqb_spec), !Nat.eqb_eq, !bool_eqb_spec, cstate_eqb_spec.
  split.
  - intros H. decompose [and] H. subst. reflexivity.
  - intros H. inversion H. subst. repeat split; reflexivity.
Qed.

(* ---- events are labels ---- *)
Lemma group_vis_some l e : vis l = Some e -> e = l.
Proof. destruct l; simpl; intros H; try discriminate; inversion H; reflexivity. Qed.

Lemma group_vis_idem l e : vis l = Some e -> vis e = Some e.
Proof. intros H. pose proof (group_vis_some l e H) as He. subst e. exact H. Qed.

Lemma group_lab_eqb_sound a b : lab_eqb a b = true -> a = b.
Proof.
  destruct a, b; simpl; intros H; try discriminate H; try reflexivity;
    apply Nat.eqb_eq in H; subst; reflexivity.
Qed.

Lemma group_lab_eqb_refl_vis a e : vis a = Some e -> lab_eqb a a = true.
Proof. destruct a; simpl; intros H; try discriminate H; rewrite ?Nat.eqb_refl; reflexivity. Qed.

Theorem group_lab_eqb_spec a b e : vis b = Some e -> (lab_eqb a b = true <-> a = b).
Proof.
  intros Hv. split; [apply group_lab_eqb_sound|].
  intros ->. eapply group_lab_eqb_refl_vis; exact Hv.
Qed.

(* ====================================================================== *)
(* 1. SOUNDNESS of the shipped (eager-reduced) matcher                     *)
(* ====================================================================== *)

Theorem group_accepts_sound c evs :
  accepts_history c evs = true ->
  exists ls s, run qstep (init c) ls = Some s /\ group_trace ls = evs.
Proof.
  unfold accepts_history, group_trace.
  apply (accepts_sound st lab lab qstep vis lab_eqb st_eqb match_labels (fun _ e => [e])
           group_lab_eqb_sound).
Qed.

Theorem group_first_rejected_sound c evs :
  first_rejected c evs = None ->
  exists ls s, run qstep (init c) ls = Some s /\ group_trace ls = evs.
Proof.
  unfold first_rejected, group_trace.
  apply (first_reject_sound st lab lab qstep vis lab_eqb st_eqb match_labels (fun _ e => [e])
           group_lab_eqb_sound).
Qed.

(* ====================================================================== *)
(* 2. [tau_labels] is complete; the UNREDUCED matcher (cross-check)        *)
(* ====================================================================== *)

Definition accepts_history_full (c : config) (evs : list lab) : bool :=
  accepts qstep vis lab_eqb st_eqb tau_labels (fun _ e => [e]) match_fuel (init c) evs.

Definition group_full_converged (c : config) (evs : list lab) : bool :=
  convergedb st lab lab qstep vis lab_eqb st_eqb tau_labels (fun _ e => [e]) match_fuel (init c) evs.

Ltac in_list := solve [simpl; repeat (first [left; reflexivity | right])].

Lemma idx_lt {A} (l : list A) n : nth_error l n <> None -> n < length l.
Proof. apply nth_error_Some. Qed.

Ltac idx_bound Hs :=
  apply in_seq; split; [apply Nat.le_0_l|]; simpl; apply idx_lt;
  let E := fresh "E" in intros E; apply Hs; simpl; unfold getr, gett, gets; rewrite E; reflexivity.

Theorem group_tau_labels_complete s l :
  vis l = None -> qstep s l <> None -> In l (tau_labels s).
Proof.
  intros Hv Hs. unfold tau_labels, nonfire_tau.
  destruct l; simpl in Hv; try discriminate Hv; clear Hv.
  (* reg-indexed internal labels *)
  1-15: apply in_or_app; left; apply in_or_app; left; apply in_flat_map;
        match goal with |- exists x, In x _ /\ In (_ ?r) _ => exists r end;
        (split; [idx_bound Hs | in_list]).
  - (* TFire *) apply in_or_app; right. apply in_map. idx_bound Hs.
  - apply in_or_app; left; apply in_or_app; right; apply in_or_app; left; apply in_flat_map;
      exists t; (split; [idx_bound Hs | in_list]).
  - apply in_or_app; left; apply in_or_app; right; apply in_or_app; left; apply in_flat_map;
      exists t; (split; [idx_bound Hs | in_list]).
  - apply in_or_app; left; apply in_or_app; right; apply in_or_app; left; apply in_flat_map;
      exists t; (split; [idx_bound Hs | in_list]).
  - apply in_or_app; left; apply in_or_app; right; apply in_or_app; right; apply in_or_app; left;
      apply in_flat_map; exists k; (split; [idx_bound Hs | in_list]).
  - apply in_or_app; left; apply in_or_app; right; apply in_or_app; right; apply in_or_app; left;
      apply in_flat_map; exists k; (split; [idx_bound Hs | in_list]).
  - apply in_or_app; left; apply in_or_app; right; apply in_or_app; right; apply in_or_app; left;
      apply in_flat_map; exists k; (split; [idx_bound Hs | in_list]).
  - apply in_or_app; left; apply in_or_app; right; apply in_or_app; right; apply in_or_app; left;
      apply in_flat_map; exists k; (split; [idx_bound Hs | in_list]).
  - apply in_or_app; left; apply in_or_app; right; apply in_or_app; right; apply in_or_app; right.
    in_list.
Qed.

Theorem group_labels_ev_complete (s : st) (l e : lab) :
  vis l = Some e -> qstep s l <> None -> In l ((fun (_ : st) (x : lab) => [x]) s e).
Proof. intros Hv _. left. apply (group_vis_some l e Hv). Qed.

Definition lab_eqb_tot (a b : lab) : bool :=
  match vis b with Some _ => lab_eqb a b | None => true end.

Lemma lab_eqb_tot_refl a : lab_eqb_tot a a = true.
Proof.
  unfold lab_eqb_tot. destruct (vis a) as [e|] eqn:Ev; [|reflexivity].
  eapply group_lab_eqb_refl_vis; exact Ev.
Qed.

Lemma lab_eqb_tot_agree (e l e' : lab) : vis l = Some e' -> lab_eqb e e' = lab_eqb_tot e e'.
Proof. intros Hv. unfold lab_eqb_tot. rewrite (group_vis_idem l e' Hv). reflexivity. Qed.

Theorem group_full_sound c evs :
  accepts_history_full c evs = true ->
  exists ls s, run qstep (init c) ls = Some s /\ group_trace ls = evs.
Proof.
  unfold accepts_history_full, group_trace.
  apply (accepts_sound st lab lab qstep vis lab_eqb st_eqb tau_labels (fun _ e => [e])
           group_lab_eqb_sound).
Qed.

Lemma group_full_tot c evs :
  accepts_history_full c evs =
  accepts qstep vis lab_eqb_tot st_eqb tau_labels (fun _ e => [e]) match_fuel (init c) evs.
Proof.
  unfold accepts_history_full.
  apply (CondMatcher.accepts_ext st lab lab qstep vis lab_eqb lab_eqb_tot st_eqb st_eqb tau_labels
           (fun _ e => [e]) (fun _ => True)).
  - intros; exact I.
  - intros; reflexivity.
  - exact lab_eqb_tot_agree.
  - exact I.
Qed.

Lemma group_full_converged_tot c evs :
  group_full_converged c evs =
  convergedb st lab lab qstep vis lab_eqb_tot st_eqb tau_labels (fun _ e => [e]) match_fuel (init c) evs.
Proof.
  unfold group_full_converged.
  apply (CondMatcher.convergedb_ext st lab lab qstep vis lab_eqb lab_eqb_tot st_eqb st_eqb tau_labels
           (fun _ e => [e]) (fun _ => True)).
  - intros; exact I.
  - intros; reflexivity.
  - exact lab_eqb_tot_agree.
  - exact I.
Qed.

Theorem group_full_complete c evs ls s :
  group_full_converged c evs = true ->
  run qstep (init c) ls = Some s -> group_trace ls = evs ->
  accepts_history_full c evs = true.
Proof.
  rewrite group_full_converged_tot, group_full_tot. unfold group_trace.
  apply (accepts_complete_b st lab lab qstep vis lab_eqb_tot st_eqb tau_labels (fun _ e => [e])
           group_st_eqb_spec lab_eqb_tot_refl group_tau_labels_complete group_labels_ev_complete).
Qed.

Theorem group_full_reject_genuine c evs :
  group_full_converged c evs = true -> accepts_history_full c evs = false ->
  forall ls s, run qstep (init c) ls = Some s -> group_trace ls <> evs.
Proof.
  intros Hc Hacc ls s Hr Ht.
  rewrite (group_full_complete c evs ls s Hc Hr Ht) in Hacc. discriminate.
Qed.

Theorem group_reduced_le_full c evs :
  group_full_converged c evs = true ->
  accepts_history c evs = true -> accepts_history_full c evs = true.
Proof.
  intros Hc Hacc. destruct (group_accepts_sound c evs Hacc) as [ls [s [Hr Ht]]].
  eapply group_full_complete; eassumption.
Qed.

(* ====================================================================== *)
(* 3a. COMPLETENESS of the shipped matcher: tactics and list lemmas       *)
(* ====================================================================== *)
Lemma upd_upd {A} (l : list A) n x y : upd (upd l n x) n y = upd l n y.
Proof. revert n; induction l as [|h t IH]; intros [|n]; simpl; auto. rewrite IH. reflexivity. Qed.

Lemma upd_comm {A} (l : list A) n m x y : n <> m -> upd (upd l n x) m y = upd (upd l m y) n x.
Proof.
  revert n m; induction l as [|h t IH]; intros [|n] [|m] H; simpl; auto; try congruence.
  rewrite IH; [reflexivity | congruence].
Qed.

Lemma map_upd {A B} (f : A -> B) l n x : map f (upd l n x) = upd (map f l) n (f x).
Proof. revert n; induction l as [|h t IH]; intros [|n]; simpl; auto. rewrite IH. reflexivity. Qed.

Definition eager (s : st) (a : lab) : Prop :=
  match a with
  | TGo _ | TRUnlock _ | TNewTimer _ | TReset _ | TDrain _ | TDone _ | TWUnlock _ => True
  | TCheckCtx _ => ctxd s = true
  | _ => False
  end.

(* erase the (dead) timer-channel bit of goroutines that have exited *)
Definition clr_reg (x : reg) : reg :=
  match r_gpc x with GExited => r_settimer x (r_tact x) false | _ => x end.
Definition clr (s : st) : st := with_regs s (map clr_reg (regs s)).

Lemma clr_reg_mk k fc o p rp gp tok ta tc ru inf spw :
  clr_reg (mkR k fc o p rp gp tok ta tc ru inf spw) =
  match gp with
  | GExited => mkR k fc o p rp gp tok ta false ru inf spw
  | _ => mkR k fc o p rp gp tok ta tc ru inf spw
  end.
Proof. reflexivity. Qed.

(* controlled evaluation: record projections / updates, never list functions *)
Ltac red_goal :=
  lazy beta iota zeta delta
    [getr gett gets setr sett sets with_regs with_trigs with_stops with_lock with_ctx with_wg
     regs trigs stops readers writer ctxd parent stopped wg
     r_kind r_fctx r_open r_permits r_rpc r_gpc r_tok r_tact r_tchan r_runs r_infl r_spawns
     t_reg t_pc t_runs0 s_wait s_pc r_gate r_setr r_setg r_settok r_settimer r_ghost
     has_timer has_trig wake_ctx after_trig first_pc after_f andb orb negb Nat.pred option_map clr].
Ltac red_in H :=
  lazy beta iota zeta delta
    [getr gett gets setr sett sets with_regs with_trigs with_stops with_lock with_ctx with_wg
     regs trigs stops readers writer ctxd parent stopped wg
     r_kind r_fctx r_open r_permits r_rpc r_gpc r_tok r_tact r_tchan r_runs r_infl r_spawns
     t_reg t_pc t_runs0 s_wait s_pc r_gate r_setr r_setg r_settok r_settimer r_ghost
     has_timer has_trig wake_ctx after_trig first_pc after_f andb orb negb Nat.pred option_map clr] in H.

(* case split on an index of the same list as a known entry *)
Ltac split_idx Hl :=
  match type of Hl with
  | context [nth_error ?L ?i] =>
      match goal with
      | E : nth_error L ?r = Some _ |- _ =>
          lazymatch i with r => fail | _ => idtac end;
          lazymatch goal with
          | _ : i <> r |- _ => fail
          | _ : r <> i |- _ => fail
          | _ => idtac
          end;
          let Hn := fresh "Hn" in
          destruct (Nat.eq_dec i r) as [->|Hn]
      end
  end.

Ltac head_scrut e :=
  lazymatch e with
  | match ?e' with _ => _ end => head_scrut e'
  | _ => e
  end.

(* invert a successful step completely: all finite data become constructors *)
Ltac inv_step Hl :=
  repeat first
    [ discriminate Hl
    | progress (red_in Hl)
    | match goal with x : reg |- _ => destruct x end
    | match goal with x : trig |- _ => destruct x end
    | match goal with x : stopper |- _ => destruct x end
    | match goal with E : nth_error ?L ?i = Some _ |- _ =>
        match type of Hl with context [nth_error L i] => rewrite E in Hl end end
    | match type of Hl with context [nth_error (map ?f ?L) ?i] => rewrite (nth_map f L i) in Hl end
    | rewrite clr_reg_mk in Hl
    | split_idx Hl
    | match type of Hl with match ?e with _ => _ end = Some _ =>
        let v := head_scrut e in
        first [ is_var v; destruct v
              | lazymatch v with nth_error ?L ?i => let E := fresh "E" in destruct (nth_error L i) eqn:E end ]
      end
    ].

Ltac ev :=
  repeat first
    [ progress red_goal
    | match goal with
      | E : nth_error ?l ?r = Some ?x |- context [nth_error (upd ?l ?r ?y) ?r] =>
          rewrite (nth_upd_same l r y x E)
      | H : ?r <> ?r' |- context [nth_error (upd ?l ?r ?y) ?r'] =>
          rewrite (nth_error_upd_other l r r' y H)
      | H : ?r' <> ?r |- context [nth_error (upd ?l ?r ?y) ?r'] =>
          rewrite (nth_error_upd_other l r r' y (not_eq_sym H))
      | E : nth_error ?l ?r = Some ?x |- context [nth_error ?l ?r] => rewrite E
      | |- context [nth_error (map ?f ?l) ?r] => rewrite (nth_map f l r)
      | |- context [clr_reg (mkR _ _ _ _ _ _ _ _ _ _ _ _)] => rewrite clr_reg_mk
      | |- match ?e with _ => _ end = _ => let v := head_scrut e in is_var v; destruct v
      end ].

Ltac fin_field :=
  first
    [ reflexivity
    | apply upd_comm; solve [assumption | apply not_eq_sym; assumption]
    | rewrite ?map_upd, ?upd_upd; red_goal;
      repeat match goal with |- context [match ?v with _ => _ end] => is_var v; destruct v end;
      reflexivity ].

Ltac fin := apply f_equal; f_equal; fin_field.

Ltac close_diamond0 :=
  eexists; split; [unfold step; ev; reflexivity | unfold step; ev; fin].
Ltac close_diamond :=
  first [ close_diamond0
        | match goal with k : kind |- _ => destruct k end; close_diamond0 ].

Lemma inv1_reg s r x : Inv1 s -> nth_error (regs s) r = Some x ->
  reg_okb (ctxd s) (r_kind x) (r_rpc x) (r_gpc x) (r_tok x) (r_tact x) (r_tchan x) = true.
Proof. intros H E. destruct (H r x E) as (Hok & _ & _). exact Hok. Qed.

(* facts read off Inv1 *)
Lemma inv1_pre d k rp g tok a c : reg_okb d k rp g tok a c = true -> rpc_pre rp = true ->
  g = GNone /\ a = false /\ c = false.
Proof.
  unfold reg_okb. intros H Hp. rewrite Hp in H.
  destruct g; simpl in H; rewrite ?andb_false_r in H; simpl in H; try discriminate H.
  unfold timer_ok in H. destruct (has_timer k), a, c; simpl in H; try discriminate H; auto.
Qed.


Lemma inv1_live d k rp g tok a c : reg_okb d k rp g tok a c = true -> g <> GNone -> rpc_pre rp = false.
Proof.
  unfold reg_okb. intros H Hg. destruct (rpc_pre rp); [|reflexivity].
  destruct g; try congruence; simpl in H; rewrite ?andb_false_r in H; simpl in H; discriminate H.
Qed.

Lemma inv1_timer d k rp g tok a c : reg_okb d k rp g tok a c = true ->
  match g with
  | GStart | GReset => a = false /\ c = false
  | GDrain => a = false /\ c = true
  | _ => True
  end.
Proof.
  unfold reg_okb, timer_ok. intros H.
  destruct g; try exact I; destruct k, a, c; simpl in H; rewrite ?andb_false_r in H; simpl in H;
    try discriminate H; auto.
Qed.

Lemma inv2_reader s r x : Inv2 s -> nth_error (regs s) r = Some x -> holds_r (r_rpc x) = true ->
  exists n, readers s = S n.
Proof.
  intros H E Hh. pose proof (i_readers s H) as Hr. pose proof (suml_le mr _ _ _ E) as Hle.
  unfold mr in Hle at 1. rewrite Hh in Hle. simpl in Hle.
  destruct (readers s) as [|n]; [lia | exists n; reflexivity].
Qed.

Ltac diamond_cases l Hl t :=
  destruct l; unfold step in Hl; inv_step Hl; try (injection Hl as Hl; subst t);
  try (exfalso; congruence);
  try (match goal with H : rpc_pre _ = false |- _ => simpl in H; discriminate H end);
  try close_diamond.

Ltac get_ok H1 Hok :=
  match goal with E : nth_error ?rs ?r = Some _ |- _ =>
    pose proof (inv1_reg _ _ _ H1 E) as Hok; red_in Hok end.

(* ====================================================================== *)
(* 3b. eager steps commute with every other step (on invariant states)    *)
(* ====================================================================== *)
Lemma diamond_TGo s r s1 l t :
  Inv1 s -> Inv2 s ->
  step s (TGo r) = Some s1 -> step s l = Some t -> l <> TGo r ->
  exists u, step s1 l = Some u /\ step t (TGo r) = Some u.
Proof.
  intros H1 H2 Ha Hl Hne.
  destruct s as [rs ts ks rd wr cd pa sp w].
  unfold step in Ha. inv_step Ha. injection Ha as Ha; subst s1.
  get_ok H1 Hok. destruct (inv1_pre _ _ _ _ _ _ _ Hok eq_refl) as (-> & -> & ->); clear Hok.
  clear H1 H2.
  diamond_cases l Hl t.
Qed.

Lemma diamond_TRUnlock s r s1 l t :
  Inv1 s -> Inv2 s ->
  step s (TRUnlock r) = Some s1 -> step s l = Some t -> l <> TRUnlock r ->
  exists u, step s1 l = Some u /\ step t (TRUnlock r) = Some u.
Proof.
  intros H1 H2 Ha Hl Hne.
  destruct s as [rs ts ks rd wr cd pa sp w].
  unfold step in Ha. inv_step Ha; injection Ha as Ha; subst s1.
  all: get_ok H1 Hok; destruct (inv1_pre _ _ _ _ _ _ _ Hok eq_refl) as (-> & -> & ->); clear Hok.
  all: match goal with E : nth_error _ _ = Some _ |- _ =>
         destruct (inv2_reader _ _ _ H2 E eq_refl) as [rd' Hrd]; red_in Hrd; subst end.
  all: clear H1 H2.
  all: diamond_cases l Hl t.
Qed.

(* goroutine-local eager steps *)
Ltac g_facts H1 :=
  let Hok := fresh "Hok" in
  get_ok H1 Hok;
  let Hpre := fresh "Hpre" in
  pose proof (inv1_live _ _ _ _ _ _ _ Hok ltac:(discriminate)) as Hpre;
  let Ht := fresh "Ht" in
  pose proof (inv1_timer _ _ _ _ _ _ _ Hok) as Ht; red_in Ht; clear Hok.

Lemma diamond_TNewTimer s r s1 l t :
  Inv1 s -> Inv2 s ->
  step s (TNewTimer r) = Some s1 -> step s l = Some t -> l <> TNewTimer r ->
  exists u, step s1 l = Some u /\ step t (TNewTimer r) = Some u.
Proof.
  intros H1 H2 Ha Hl Hne.
  destruct s as [rs ts ks rd wr cd pa sp w].
  unfold step in Ha. inv_step Ha; injection Ha as Ha; subst s1.
  g_facts H1. destruct Ht as [-> ->].
  clear H1 H2.
  diamond_cases l Hl t.
Qed.

Lemma diamond_TReset s r s1 l t :
  Inv1 s -> Inv2 s ->
  step s (TReset r) = Some s1 -> step s l = Some t -> l <> TReset r ->
  exists u, step s1 l = Some u /\ step t (TReset r) = Some u.
Proof.
  intros H1 H2 Ha Hl Hne.
  destruct s as [rs ts ks rd wr cd pa sp w].
  unfold step in Ha. inv_step Ha; injection Ha as Ha; subst s1.
  g_facts H1. destruct Ht as [-> ->].
  clear H1 H2.
  diamond_cases l Hl t.
Qed.

Lemma diamond_TDrain s r s1 l t :
  Inv1 s -> Inv2 s ->
  step s (TDrain r) = Some s1 -> step s l = Some t -> l <> TDrain r ->
  exists u, step s1 l = Some u /\ step t (TDrain r) = Some u.
Proof.
  intros H1 H2 Ha Hl Hne.
  destruct s as [rs ts ks rd wr cd pa sp w].
  unfold step in Ha. inv_step Ha; injection Ha as Ha; subst s1.
  g_facts H1. destruct Ht as [-> _].
  clear H1 H2.
  diamond_cases l Hl t.
Qed.

Lemma diamond_TCheckCtx s r s1 l t :
  Inv1 s -> Inv2 s -> ctxd s = true ->
  step s (TCheckCtx r) = Some s1 -> step s l = Some t -> l <> TCheckCtx r ->
  exists u, step s1 l = Some u /\ step t (TCheckCtx r) = Some u.
Proof.
  intros H1 H2 Hc Ha Hl Hne.
  destruct s as [rs ts ks rd wr cd pa sp w]. red_in Hc. subst cd.
  unfold step in Ha. inv_step Ha; injection Ha as Ha; subst s1.
  g_facts H1. clear Ht.
  clear H1 H2.
  diamond_cases l Hl t.
Qed.

Lemma suml_two {A} (m : A -> nat) l : forall i j x y,
  i <> j -> nth_error l i = Some x -> nth_error l j = Some y -> m x + m y <= suml m l.
Proof.
  induction l as [|h t IH]; intros [|i] [|j] x y Hij Hx Hy; simpl in *; try discriminate; try congruence.
  - inversion Hx; subst. pose proof (suml_le m t j y Hy). lia.
  - inversion Hy; subst. pose proof (suml_le m t i x Hx). lia.
  - assert (Hij' : i <> j) by congruence. specialize (IH i j x y Hij' Hx Hy). lia.
Qed.

Lemma inv2_two_live s r r1 x x1 : Inv2 s -> r1 <> r ->
  nth_error (regs s) r = Some x -> nth_error (regs s) r1 = Some x1 ->
  r_gpc x = GExiting -> r_gpc x1 = GExiting -> exists n, wg s = S (S n).
Proof.
  intros H Hn E E1 Hg Hg1. pose proof (i_wg s H) as Hw.
  pose proof (suml_two contrib _ _ _ _ _ Hn E1 E) as Hle.
  assert (Hc : contrib x = 1) by (unfold contrib; rewrite Hg; destruct (r_rpc x); reflexivity).
  assert (Hc1 : contrib x1 = 1) by (unfold contrib; rewrite Hg1; destruct (r_rpc x1); reflexivity).
  destruct (wg s) as [|[|n]]; [lia | lia | exists n; reflexivity].
Qed.

Lemma diamond_TDone s r s1 l t :
  Inv1 s -> Inv2 s ->
  step s (TDone r) = Some s1 -> step s l = Some t -> l <> TDone r ->
  (exists u, step s1 l = Some u /\ step t (TDone r) = Some u) \/
  (l = TFire r /\ exists u, step t (TDone r) = Some u /\ clr u = clr s1).
Proof.
  intros H1 H2 Ha Hl Hne.
  destruct s as [rs ts ks rd wr cd pa sp w].
  unfold step in Ha. inv_step Ha; injection Ha as Ha; subst s1.
  g_facts H1. clear Ht.
  match goal with E : nth_error rs r = Some ?x |- _ =>
    assert (Hw2 : forall r1 x1, r1 <> r -> nth_error rs r1 = Some x1 -> r_gpc x1 = GExiting ->
                                exists n', w = S n')
      by (intros r1 x1 Hn1 E1 Hg1;
          destruct (inv2_two_live _ r r1 x x1 H2 Hn1 E E1 eq_refl Hg1) as [n' Hn']; red_in Hn';
          exists n'; congruence) end.
  clear H1 H2.
  destruct l; unfold step in Hl; inv_step Hl; try (injection Hl as Hl; subst t);
    try (exfalso; congruence);
    try (match goal with H : rpc_pre _ = false |- _ => simpl in H; discriminate H end);
    try (left; close_diamond).
  - match goal with Hn : _ <> r, E0 : nth_error rs _ = Some _ |- _ =>
      destruct (Hw2 _ _ Hn E0 eq_refl) as [n' ->] end.
    left; close_diamond.
  - right. split; [reflexivity|]. eexists. split; [unfold step; ev; reflexivity|].
    red_goal. f_equal. rewrite upd_upd, !map_upd. reflexivity.
Qed.

Lemma inv2_writer s k y : Inv2 s -> nth_error (stops s) k = Some y -> holds_w (s_pc y) = true ->
  writer s = true.
Proof. intros H E Hh. exact (proj1 (mw_pos_writer s k y H E Hh)). Qed.

Lemma diamond_TWUnlock s k s1 l t :
  Inv1 s -> Inv2 s ->
  step s (TWUnlock k) = Some s1 -> step s l = Some t -> l <> TWUnlock k ->
  exists u, step s1 l = Some u /\ step t (TWUnlock k) = Some u.
Proof.
  intros H1 H2 Ha Hl Hne.
  destruct s as [rs ts ks rd wr cd pa sp w].
  unfold step in Ha. inv_step Ha; injection Ha as Ha; subst s1.
  match goal with E : nth_error ks k = Some _ |- _ =>
    pose proof (inv2_writer _ _ _ H2 E eq_refl) as Hwr; red_in Hwr; subst wr end.
  clear H1 H2.
  diamond_cases l Hl t.
Qed.

(* ====================================================================== *)
(* 3c. erasing the dead timer-channel bit is a bisimulation               *)
(* ====================================================================== *)
Lemma clr_reg_idem x : clr_reg (clr_reg x) = clr_reg x.
Proof. destruct x as [k fc o p rp gp tok ta tc ru inf spw]. destruct gp; reflexivity. Qed.

Lemma map_clr_idem l : map clr_reg (map clr_reg l) = map clr_reg l.
Proof. rewrite map_map. apply map_ext. exact clr_reg_idem. Qed.

Lemma clr_idem s : clr (clr s) = clr s.
Proof. destruct s. unfold clr. simpl. rewrite map_clr_idem. reflexivity. Qed.

Lemma clr_wake x : clr_reg (wake_ctx (clr_reg x)) = clr_reg (wake_ctx x).
Proof. destruct x as [k fc o p rp gp tok ta tc ru inf spw]. destruct gp; reflexivity. Qed.

Lemma map_clr_wake l : map clr_reg (map wake_ctx (map clr_reg l)) = map clr_reg (map wake_ctx l).
Proof. rewrite !map_map. apply map_ext. exact clr_wake. Qed.

Ltac fin_clr :=
  red_goal; f_equal; try reflexivity;
  rewrite ?map_upd, ?map_clr_idem, ?map_clr_wake; try reflexivity;
  f_equal; rewrite ?clr_reg_mk; red_goal;
  repeat match goal with |- context [match ?v with _ => _ end] => is_var v; destruct v end;
  reflexivity.

Ltac close_H0 := eexists; split; [unfold step; ev; reflexivity | fin_clr].
Ltac close_H :=
  first [ close_H0
        | match goal with g : gpc |- _ => destruct g end; close_H0
        | match goal with k : kind |- _ => destruct k end; close_H0 ].

Ltac use_pre H1 :=
  try (match goal with E : nth_error ?rs ?r = Some (mkR _ _ _ _ _ _ _ _ _ _ _ _) |- _ =>
         let Hok := fresh "Hok" in
         pose proof (inv1_reg _ _ _ H1 E) as Hok; red_in Hok;
         let Hg := fresh "Hg" in let Ha := fresh "Ha" in let Hc := fresh "Hc" in
         destruct (inv1_pre _ _ _ _ _ _ _ Hok eq_refl) as (Hg & Ha & Hc); clear Hok;
         try discriminate Hg; try discriminate Ha; try discriminate Hc; subst end).

Lemma clr_step_fwd s l t : Inv1 s -> step s l = Some t ->
  exists t', step (clr s) l = Some t' /\ clr t' = clr t.
Proof.
  intros H1 Hl. destruct s as [rs ts ks rd wr cd pa sp w].
  destruct l; unfold step in Hl; inv_step Hl; try (injection Hl as Hl; subst t); use_pre H1; try clear H1;
    try close_H.
Qed.

Ltac close_B0 := eexists; split; [unfold step; ev; reflexivity | symmetry; fin_clr].
Ltac close_B :=
  first [ close_B0
        | match goal with g : gpc |- _ => destruct g end; close_B0
        | match goal with k : kind |- _ => destruct k end; close_B0 ].

Lemma clr_step_bwd s l t' : Inv1 s -> step (clr s) l = Some t' ->
  exists t, step s l = Some t /\ clr t' = clr t.
Proof.
  intros H1 Hl. destruct s as [rs ts ks rd wr cd pa sp w].
  destruct l; unfold step in Hl; inv_step Hl; try (injection Hl as Hl; subst t'); use_pre H1; try clear H1;
    try close_B.
Qed.

(* ====================================================================== *)
(* 3d. the partial-order-reduction argument                               *)
(* ====================================================================== *)
(* ---------------------------------------------------------------------- *)
(* invariants carried along                                                *)
(* ---------------------------------------------------------------------- *)
Definition good (s : st) : Prop := Inv1 s /\ Inv2 s.

Lemma good_init c : good (init c).
Proof. split; [apply Inv1_init | apply Inv2_init]. Qed.

Lemma good_qstep s l s' : good s -> qstep s l = Some s' -> good s'.
Proof.
  intros [H1 H2] Hq. split; [eapply Inv1_qstep; eauto | eapply Inv2_qstep; eauto].
Qed.

Lemma qstep_step s l : l <> LQuiesce -> qstep s l = step s l.
Proof. destruct l; try reflexivity. congruence. Qed.

Lemma good_step s l s' : good s -> step s l = Some s' -> good s'.
Proof.
  intros [H1 H2] Hs. split; [eapply Inv1_step; eauto | eapply Inv2_step; eauto].
Qed.

Lemma lab_eq_dec (a b : lab) : {a = b} + {a <> b}.
Proof. decide equality; apply Nat.eq_dec. Qed.

(* ---------------------------------------------------------------------- *)
(* eager labels                                                            *)
(* ---------------------------------------------------------------------- *)
Lemma cand_eager s a : In a (eager_candidates s) -> eager s a.
Proof.
  unfold eager_candidates. intros Hin. apply in_app_or in Hin. destruct Hin as [Hin|Hin].
  - apply in_flat_map in Hin. destruct Hin as [r [_ Hin]]. apply in_app_or in Hin.
    destruct Hin as [Hin|Hin].
    + simpl in Hin. decompose [or] Hin; subst; try exact I. contradiction.
    + destruct (ctxd s) eqn:Ec; simpl in Hin; [|contradiction].
      destruct Hin as [<-|[]]. exact Ec.
  - apply in_map_iff in Hin. destruct Hin as [k [<- _]]. exact I.
Qed.

Lemma eager_vis s a : eager s a -> vis a = None.
Proof. destruct a; simpl; intros H; try contradiction; reflexivity. Qed.

Lemma eager_not_fire s a : eager s a -> forall r, a <> TFire r.
Proof. destruct a; simpl; intros H; try contradiction; intros r0; discriminate. Qed.

Lemma ctxd_mono s l t : step s l = Some t -> ctxd s = true -> ctxd t = true.
Proof.
  intros Hs Hc. unfold step in Hs.
  destruct l; dstep Hs; try discriminate Hs; injection Hs as Hs; subst t; simpl; auto.
Qed.

Lemma eager_mono s l t a : step s l = Some t -> eager s a -> eager t a.
Proof.
  intros Hs He. destruct a; simpl in *; try exact He. eapply ctxd_mono; eauto.
Qed.

Lemma ctxd_clr s : ctxd (clr s) = ctxd s.
Proof. reflexivity. Qed.

Lemma eager_clr s s' a : clr s = clr s' -> eager s a -> eager s' a.
Proof.
  intros Hc He. destruct a; simpl in *; try exact He.
  rewrite <- (ctxd_clr s'), <- Hc, ctxd_clr. exact He.
Qed.

(* every enabled internal label other than a timer fire is in [nonfire_tau] *)
Lemma nonfire_complete s l :
  vis l = None -> step s l <> None -> (forall r, l <> TFire r) -> In l (nonfire_tau s).
Proof.
  intros Hv Hs Hnf.
  assert (Hq : qstep s l <> None) by (destruct l; try exact Hs; discriminate Hv).
  pose proof (group_tau_labels_complete s l Hv Hq) as Hin.
  unfold tau_labels in Hin. apply in_app_or in Hin. destruct Hin as [Hin|Hin]; [exact Hin|].
  unfold fire_labels in Hin. apply in_map_iff in Hin. destruct Hin as [r [<- _]].
  exfalso. exact (Hnf r eq_refl).
Qed.

Lemma eager_not_calm s a s1 : eager s a -> step s a = Some s1 -> calm s = false.
Proof.
  intros He Hs. unfold calm.
  assert (Hex : existsb (enabled s) (nonfire_tau s) = true).
  { apply existsb_exists. exists a. split.
    - apply nonfire_complete; [eapply eager_vis; eauto | rewrite Hs; discriminate | eapply eager_not_fire; eauto].
    - unfold enabled. rewrite Hs. reflexivity. }
  rewrite Hex. reflexivity.
Qed.

Lemma eager_not_quiescent s a s1 : eager s a -> step s a = Some s1 -> quiescent s = false.
Proof. intros He Hs. unfold quiescent. rewrite (eager_not_calm s a s1 He Hs). reflexivity. Qed.

(* ---------------------------------------------------------------------- *)
(* the diamond                                                             *)
(* ---------------------------------------------------------------------- *)
Lemma diamond s a s1 l t :
  good s -> eager s a -> step s a = Some s1 -> step s l = Some t -> l <> a ->
  (exists u, step s1 l = Some u /\ step t a = Some u) \/
  (vis l = None /\ exists u, step t a = Some u /\ clr u = clr s1).
Proof.
  intros [H1 H2] He Ha Hl Hne.
  destruct a; simpl in He; try contradiction.
  - left. eapply diamond_TRUnlock; eauto.
  - left. eapply diamond_TGo; eauto.
  - left. eapply diamond_TNewTimer; eauto.
  - left. eapply diamond_TCheckCtx; eauto.
  - left. eapply diamond_TDrain; eauto.
  - left. eapply diamond_TReset; eauto.
  - destruct (diamond_TDone s r s1 l t H1 H2 Ha Hl Hne) as [H|[-> H]]; [left; exact H|].
    right. split; [reflexivity | exact H].
  - left. eapply diamond_TWUnlock; eauto.
Qed.

(* ---------------------------------------------------------------------- *)
(* [clr] is a bisimulation                                                 *)
(* ---------------------------------------------------------------------- *)
Lemma step_transfer s s' l t :
  clr s = clr s' -> Inv1 s -> Inv1 s' -> step s l = Some t ->
  exists t', step s' l = Some t' /\ clr t = clr t'.
Proof.
  intros Hc H1 H1' Hs.
  destruct (clr_step_fwd s l t H1 Hs) as [t1 [Hs1 Hc1]].
  rewrite Hc in Hs1.
  destruct (clr_step_bwd s' l t1 H1' Hs1) as [t' [Hs' Hc']].
  exists t'. split; [exact Hs' | congruence].
Qed.

Lemma Inv1_clr s : Inv1 s -> Inv1 (clr s).
Proof.
  intros H r x Hx. unfold clr in Hx. simpl in Hx. rewrite nth_map in Hx.
  destruct (nth_error (regs s) r) as [y|] eqn:Ey; [|discriminate Hx]. simpl in Hx.
  inversion Hx; subst x. specialize (H r y Ey). simpl.
  destruct y as [k fc o p rp gp tok ta tc ru inf spw]. unfold clr_reg. simpl.
  destruct gp; try exact H.
  unfold reg_ok in *. simpl in *. destruct H as (Hok & Hi & Hsp). split; [|split; assumption].
  revert Hok. destruct (ctxd s), k, rp, tok, ta, tc; simpl; intros Hok; try discriminate Hok; reflexivity.
Qed.

Lemma existsb_ext' {A} (f g : A -> bool) l : (forall x, f x = g x) -> existsb f l = existsb g l.
Proof. intros H. induction l as [|a t IH]; simpl; [reflexivity | rewrite H, IH; reflexivity]. Qed.

Lemma enabled_clr s l : Inv1 s -> enabled (clr s) l = enabled s l.
Proof.
  intros H1. unfold enabled.
  destruct (step s l) as [t|] eqn:Es.
  - destruct (clr_step_fwd s l t H1 Es) as [t1 [Hs1 _]]. rewrite Hs1. reflexivity.
  - destruct (step (clr s) l) as [t1|] eqn:Es1; [|reflexivity].
    destruct (clr_step_bwd s l t1 H1 Es1) as [t [Hs _]]. congruence.
Qed.

Lemma calm_clr s : Inv1 s -> calm (clr s) = calm s.
Proof.
  intros H1. unfold calm.
  assert (Hn : nonfire_tau (clr s) = nonfire_tau s).
  { unfold nonfire_tau, clr. simpl. rewrite map_length. reflexivity. }
  assert (Hv : lib_visible (clr s) = lib_visible s).
  { unfold lib_visible, clr. simpl. rewrite map_length. reflexivity. }
  rewrite Hn, Hv.
  rewrite (existsb_ext' (enabled (clr s)) (enabled s) _ (fun l => enabled_clr s l H1)).
  rewrite (existsb_ext' (enabled (clr s)) (enabled s) (lib_visible s) (fun l => enabled_clr s l H1)).
  reflexivity.
Qed.

Lemma calm_clr_eq s s' : clr s = clr s' -> Inv1 s -> Inv1 s' -> calm s = calm s'.
Proof. intros Hc H1 H1'. rewrite <- (calm_clr s H1), <- (calm_clr s' H1'), Hc. reflexivity. Qed.

Lemma quiescent_clr_eq s s' : clr s = clr s' -> Inv1 s -> Inv1 s' -> quiescent s = quiescent s'.
Proof.
  intros Hc H1 H1'. unfold quiescent. rewrite (calm_clr_eq s s' Hc H1 H1'). f_equal.
  assert (Hf : fire_labels s = fire_labels s').
  { unfold fire_labels. f_equal. f_equal.
    assert (Hl : length (regs (clr s)) = length (regs (clr s'))) by (rewrite Hc; reflexivity).
    unfold clr in Hl. simpl in Hl. rewrite !map_length in Hl. exact Hl. }
  rewrite Hf. apply CondMatcher.forallb_ext_in. intros l _.
  destruct (step s l) as [t|] eqn:Es.
  - destruct (step_transfer s s' l t Hc H1 H1' Es) as [t' [Es' Hct]]. rewrite Es'.
    apply calm_clr_eq; [exact Hct | exact (Inv1_step s l t H1 Es) | exact (Inv1_step s' l t' H1' Es')].
  - destruct (step s' l) as [t'|] eqn:Es'; [|reflexivity].
    destruct (step_transfer s' s l t' (eq_sym Hc) H1' H1 Es') as [t [Es2 _]]. congruence.
Qed.

Lemma qstep_transfer s s' l t :
  clr s = clr s' -> Inv1 s -> Inv1 s' -> qstep s l = Some t ->
  exists t', qstep s' l = Some t' /\ clr t = clr t'.
Proof.
  intros Hc H1 H1' Hq.
  destruct (lab_eq_dec l LQuiesce) as [->|Hne].
  - simpl in Hq. destruct (quiescent s) eqn:Eq; [|discriminate Hq]. inversion Hq; subst t.
    exists s'. simpl. rewrite <- (quiescent_clr_eq s s' Hc H1 H1'), Eq. split; [reflexivity | exact Hc].
  - rewrite (qstep_step s l Hne) in Hq. rewrite (qstep_step s' l Hne).
    eapply step_transfer; eauto.
Qed.

(* ---------------------------------------------------------------------- *)
(* a termination measure for eager steps                                   *)
(* ---------------------------------------------------------------------- *)
Definition mu_rpc (p : rpc) : nat :=
  match p with RAdded => 6 | RUnlocked => 5 | RNoSpawn => 1 | _ => 0 end.
Definition mu_gpc (g : gpc) : nat :=
  match g with GStart => 3 | GTop => 2 | GDrain => 2 | GReset => 1 | GExiting => 1 | _ => 0 end.
Definition mu_reg (x : reg) : nat := mu_rpc (r_rpc x) + mu_gpc (r_gpc x).
Definition mu_stop (y : stopper) : nat := match s_pc y with SCancelled => 1 | _ => 0 end.
Definition mu (s : st) : nat := suml mu_reg (regs s) + suml mu_stop (stops s).

Lemma mu_dec s a s1 : eager s a -> step s a = Some s1 -> mu s1 < mu s.
Proof.
  intros He Hs. unfold step in Hs.
  destruct a; simpl in He; try contradiction; dstep Hs; try discriminate Hs; injection Hs as Hs; subst s1;
    unfold mu; simpl;
    try (match goal with Hx : getr s ?r = Some ?x |- context [upd (regs s) ?r ?y] =>
           pose proof (suml_upd mu_reg (regs s) r y x Hx) as Hu;
           cut (mu_reg y < mu_reg x); [lia|]; clear Hu; unfold mu_reg; simpl;
           repeat match goal with E : r_rpc _ = _ |- _ => rewrite E | E : r_gpc _ = _ |- _ => rewrite E end;
           simpl end);
    try (match goal with Hy : gets s ?k = Some ?y |- context [upd (stops s) ?k ?z] =>
           pose proof (suml_upd mu_stop (stops s) k z y Hy) as Hu;
           cut (mu_stop z < mu_stop y); [lia|]; clear Hu; unfold mu_stop; simpl;
           repeat match goal with E : s_pc _ = _ |- _ => rewrite E end; simpl end);
    try lia.
  - (* TGo *) match goal with |- context [first_pc (r_kind ?x)] => destruct (r_kind x) end; simpl; lia.
  - (* TCheckCtx *) rewrite He. simpl. lia.
Qed.

(* ---------------------------------------------------------------------- *)
(* "s' is ahead of s": s' is reached from s by eager steps, up to [clr]     *)
(* ---------------------------------------------------------------------- *)
Inductive ahead : st -> st -> Prop :=
| ah_base s s' : clr s = clr s' -> ahead s s'
| ah_step s a s1 s' : eager s a -> step s a = Some s1 -> ahead s1 s' -> ahead s s'.

Lemma ahead_refl s : ahead s s.
Proof. apply ah_base. reflexivity. Qed.

Lemma ahead_clr_l s s' : ahead s s' -> forall s0, good s -> good s0 -> clr s0 = clr s -> ahead s0 s'.
Proof.
  induction 1 as [s s' Hc | s a s1 s' He Hs Hah IH]; intros s0 Hg Hg0 Hc0.
  - apply ah_base. congruence.
  - destruct (step_transfer s s0 a s1 (eq_sym Hc0) (proj1 Hg) (proj1 Hg0) Hs) as [s01 [Hs0 Hc1]].
    apply (ah_step s0 a s01 s').
    + eapply eager_clr; [symmetry; exact Hc0 | exact He].
    + exact Hs0.
    + apply IH; [exact (good_step s a s1 Hg Hs) | exact (good_step s0 a s01 Hg0 Hs0) | symmetry; exact Hc1].
Qed.

Lemma ahead_trans s s' s'' : ahead s s' -> good s -> good s' -> ahead s' s'' -> ahead s s''.
Proof.
  induction 1 as [s s' Hc | s a s1 s' He Hs Hah IH]; intros Hg Hg' Hah2.
  - eapply ahead_clr_l; eauto.
  - apply (ah_step s a s1 s''); [exact He | exact Hs |].
    apply IH; [exact (good_step s a s1 Hg Hs) | exact Hg' | exact Hah2].
Qed.

(* one step of the model against a state that is ahead *)
Lemma path s s' : ahead s s' -> good s -> good s' ->
  forall l t, qstep s l = Some t ->
    (vis l = None /\ ahead t s') \/ (exists t', qstep s' l = Some t' /\ ahead t t').
Proof.
  induction 1 as [s s' Hc | s a s1 s' He Hs Hah IH]; intros Hg Hg' l t Hq.
  - right. destruct (qstep_transfer s s' l t Hc (proj1 Hg) (proj1 Hg') Hq) as [t' [Hq' Hct]].
    exists t'. split; [exact Hq' | apply ah_base; exact Hct].
  - destruct (lab_eq_dec l LQuiesce) as [->|Hnq].
    { simpl in Hq. rewrite (eager_not_quiescent s a s1 He Hs) in Hq. discriminate Hq. }
    rewrite (qstep_step s l Hnq) in Hq.
    assert (Hg1 : good s1) by (exact (good_step s a s1 Hg Hs)).
    assert (Hgt : good t) by (exact (good_step s l t Hg Hq)).
    destruct (lab_eq_dec l a) as [->|Hne].
    + left. split; [eapply eager_vis; eauto|]. rewrite Hs in Hq. inversion Hq; subst t. exact Hah.
    + pose proof (eager_mono s l t a Hq He) as Het.
      destruct (diamond s a s1 l t Hg He Hs Hq Hne) as [[u [Hu1 Hu2]]|[Hv [u [Hu2 Hcu]]]].
      * rewrite <- (qstep_step s1 l Hnq) in Hu1.
        destruct (IH Hg1 Hg' l u Hu1) as [[Hv Hau]|[t' [Hq' Hau]]].
        -- left. split; [exact Hv | exact (ah_step t a u s' Het Hu2 Hau)].
        -- right. exists t'. split; [exact Hq' | exact (ah_step t a u t' Het Hu2 Hau)].
      * left. split; [exact Hv|]. apply (ah_step t a u s' Het Hu2).
        apply (ahead_clr_l s1 s' Hah u Hg1); [exact (good_step t a u Hgt Hu2) | exact Hcu].
Qed.

(* ---------------------------------------------------------------------- *)
(* the reduced closure                                                     *)
(* ---------------------------------------------------------------------- *)
Local Notation rsucc_tau := (GoLTS.succ_tau st lab qstep lab vis match_labels).
Local Notation rsucc_ev := (GoLTS.succ_ev st lab qstep lab vis lab_eqb (fun _ e => [e])).
Local Notation rclose := (GoLTS.close qstep vis st_eqb match_labels match_fuel).
Local Notation rstates_after :=
  (GoLTS.states_after qstep vis lab_eqb st_eqb match_labels (fun _ e => [e]) match_fuel).

Definition red_closed (S : list st) : Prop :=
  forall s s', In s S -> In s' (rsucc_tau s) -> In s' S.

Fixpoint red_along (ss : list st) (evs : list lab) : Prop :=
  match evs with
  | [] => True
  | e :: evs' =>
      let ss' := rclose (flat_map (rsucc_ev e) ss) in
      red_closed ss' /\ red_along ss' evs'
  end.

Lemma tau_closedb_red S :
  tau_closedb st lab lab qstep vis st_eqb match_labels S = true -> red_closed S.
Proof.
  unfold tau_closedb, red_closed. intros Hb s s' Hs Hs'.
  rewrite forallb_forall in Hb. specialize (Hb s Hs). rewrite forallb_forall in Hb.
  apply (mem_true_iff st st_eqb group_st_eqb_spec). apply Hb. exact Hs'.
Qed.

Lemma closed_alongb_red evs : forall ss,
  closed_alongb st lab lab qstep vis lab_eqb st_eqb match_labels (fun _ e => [e]) match_fuel ss evs = true ->
  red_along ss evs.
Proof.
  induction evs as [|e evs IH]; intros ss Hb; simpl in *; [exact I|].
  apply andb_true_iff in Hb. destruct Hb as [Hb1 Hb2].
  split; [apply tau_closedb_red; exact Hb1 | apply IH; exact Hb2].
Qed.

(* a model step from a state of a reduced-closed set lands (up to [ahead]) in the set *)
Lemma settle (S : list st) (HS : red_closed S) : forall n s' l t',
  mu s' < n -> good s' -> In s' S -> qstep s' l = Some t' -> vis l = None ->
  exists t'', In t'' S /\ ahead t' t''.
Proof.
  induction n as [|n IH]; intros s' l t' Hmu Hg Hin Hq Hv; [lia|].
  assert (Hnq : l <> LQuiesce) by (intros ->; discriminate Hv).
  destruct (find (enabled s') (eager_candidates s')) as [a0|] eqn:Ef.
  - destruct (find_some _ _ Ef) as [Hc Hen].
    pose proof (cand_eager s' a0 Hc) as He.
    unfold enabled in Hen. destruct (step s' a0) as [s1'|] eqn:Es1; [|discriminate Hen].
    assert (Hva : vis a0 = None) by (eapply eager_vis; eauto).
    assert (Hna : a0 <> LQuiesce) by (intros ->; discriminate Hva).
    assert (Hin1 : In s1' S).
    { apply (HS s' s1' Hin). apply (succ_tau_complete st lab lab qstep vis match_labels s' a0 s1').
      - unfold match_labels. rewrite Ef. left; reflexivity.
      - exact Hva.
      - rewrite (qstep_step s' a0 Hna). exact Es1. }
    rewrite (qstep_step s' l Hnq) in Hq.
    destruct (lab_eq_dec l a0) as [->|Hne].
    + exists s1'. split; [exact Hin1|]. rewrite Es1 in Hq. inversion Hq; subst t'. apply ahead_refl.
    + pose proof (eager_mono s' l t' a0 Hq He) as Het.
      destruct (diamond s' a0 s1' l t' Hg He Es1 Hq Hne) as [[u [Hu1 Hu2]]|[_ [u [Hu2 Hcu]]]].
      * rewrite <- (qstep_step s1' l Hnq) in Hu1.
        pose proof (mu_dec s' a0 s1' He Es1) as Hdec.
        destruct (IH s1' l u) as [t'' [Hin'' Hah]]; [lia | exact (good_step s' a0 s1' Hg Es1) | exact Hin1 | exact Hu1 | exact Hv |].
        exists t''. split; [exact Hin''|]. exact (ah_step t' a0 u t'' Het Hu2 Hah).
      * exists s1'. split; [exact Hin1|]. apply (ah_step t' a0 u s1' Het Hu2). apply ah_base. exact Hcu.
  - exists t'. split; [|apply ahead_refl].
    apply (HS s' t' Hin). apply (succ_tau_complete st lab lab qstep vis match_labels s' l t').
    + unfold match_labels. rewrite Ef. apply group_tau_labels_complete; [exact Hv | rewrite Hq; discriminate].
    + exact Hv.
    + exact Hq.
Qed.

Lemma good_succ_tau s s' : good s -> In s' (rsucc_tau s) -> good s'.
Proof.
  intros Hg Hin. destruct (in_succ_tau st lab lab qstep vis match_labels s s' Hin) as [l [_ Hq]].
  eapply good_qstep; eauto.
Qed.

Lemma good_close ss : (forall x, In x ss -> good x) -> forall x, In x (rclose ss) -> good x.
Proof.
  intros Hss. apply (close_inv st lab lab qstep vis st_eqb match_labels good good_succ_tau match_fuel ss Hss).
Qed.

Lemma good_succ_ev e ss : (forall x, In x ss -> good x) ->
  forall x, In x (flat_map (rsucc_ev e) ss) -> good x.
Proof.
  intros Hss x Hx. apply in_flat_map in Hx. destruct Hx as [s [Hs Hx]].
  destruct (in_succ_ev st lab lab qstep vis lab_eqb (fun _ e => [e]) group_lab_eqb_sound e s x Hx) as [l [_ Hq]].
  eapply good_qstep; [apply Hss; exact Hs | exact Hq].
Qed.

(* the simulation: the reduced state sets always contain a state ahead of the model's *)
Lemma sim ls : forall evs ss s s' sf,
  red_closed ss -> red_along ss evs -> (forall x, In x ss -> good x) ->
  good s -> In s' ss -> ahead s s' ->
  run qstep s ls = Some sf -> group_trace ls = evs ->
  rstates_after ss evs <> [].
Proof.
  unfold group_trace.
  induction ls as [|l ls IH]; intros evs ss s s' sf Hc Hal Hgs Hg Hin Hah Hr Ht.
  - simpl in Ht. subst evs. simpl. intros E. rewrite E in Hin. destruct Hin.
  - simpl in Hr. destruct (qstep s l) as [t|] eqn:Hq; [|discriminate Hr].
    assert (Hgt : good t) by (eapply good_qstep; eauto).
    simpl in Ht.
    destruct (path s s' Hah Hg (Hgs s' Hin) l t Hq) as [[Hv Hat]|[t' [Hq' Hat]]].
    + rewrite Hv in Ht. eapply (IH evs ss t s'); eauto.
    + destruct (vis l) as [e|] eqn:Hv.
      * subst evs. simpl in Hal. destruct Hal as [Hc' Hal']. simpl.
        pose proof (group_vis_some l e Hv) as He. subst e.
        assert (Hin' : In t' (rclose (flat_map (rsucc_ev l) ss))).
        { apply (close_incl st lab lab qstep vis st_eqb match_labels group_st_eqb_spec).
          apply in_flat_map. exists s'. split; [exact Hin|].
          unfold GoLTS.succ_ev. simpl. rewrite Hv, (group_lab_eqb_refl_vis l l Hv), Hq'. left; reflexivity. }
        eapply (IH _ _ t t'); eauto.
        apply good_close. apply good_succ_ev. exact Hgs.
      * destruct (settle ss Hc (S (mu s')) s' l t') as [t'' [Hin'' Hat']]; auto.
        eapply (IH evs ss t t''); eauto.
        eapply ahead_trans; [exact Hat | exact Hgt | eapply good_qstep; [apply Hgs; exact Hin | exact Hq'] | exact Hat'].
Qed.

(* the executable convergence test of the shipped matcher *)
Definition group_converged (c : config) (evs : list lab) : bool :=
  convergedb st lab lab qstep vis lab_eqb st_eqb match_labels (fun _ e => [e]) match_fuel (init c) evs.

(* COMPLETENESS of the shipped (eager-reduced) matcher *)
Theorem group_accepts_complete c evs ls s :
  group_converged c evs = true ->
  run qstep (init c) ls = Some s -> group_trace ls = evs ->
  accepts_history c evs = true.
Proof.
  intros Hconv Hr Ht. unfold group_converged, convergedb in Hconv.
  apply andb_true_iff in Hconv. destruct Hconv as [Hb1 Hb2].
  unfold accepts_history, GoLTS.accepts.
  rewrite (first_reject_complete st lab lab qstep vis lab_eqb st_eqb match_labels (fun _ e => [e])
             match_fuel evs (rclose [init c]) 0); [reflexivity|].
  apply (sim ls evs (rclose [init c]) (init c) (init c) s).
  - apply tau_closedb_red. exact Hb1.
  - apply closed_alongb_red. exact Hb2.
  - apply good_close. intros x [<-|[]]. apply good_init.
  - apply good_init.
  - apply close_init.
  - apply ahead_refl.
  - exact Hr.
  - exact Ht.
Qed.

Theorem group_reject_genuine c evs :
  group_converged c evs = true -> accepts_history c evs = false ->
  forall ls s, run qstep (init c) ls = Some s -> group_trace ls <> evs.
Proof.
  intros Hc Hacc ls s Hr Ht.
  rewrite (group_accepts_complete c evs ls s Hc Hr Ht) in Hacc. discriminate.
Qed.

Theorem group_accepts_iff c evs :
  group_converged c evs = true ->
  (accepts_history c evs = true <->
   exists ls s, run qstep (init c) ls = Some s /\ group_trace ls = evs).
Proof.
  intros Hc. split.
  - apply group_accepts_sound.
  - intros [ls [s [Hr Ht]]]. eapply group_accepts_complete; eassumption.
Qed.


(* the two matchers agree wherever both converged *)
Theorem group_reduced_eq_full c evs :
  group_converged c evs = true -> group_full_converged c evs = true ->
  accepts_history c evs = accepts_history_full c evs.
Proof.
  intros Hc Hf. destruct (accepts_history_full c evs) eqn:Ef.
  - destruct (group_full_sound c evs Ef) as [ls [s [Hr Ht]]].
    eapply group_accepts_complete; eassumption.
  - destruct (accepts_history c evs) eqn:Ea; [|reflexivity].
    rewrite (group_reduced_le_full c evs Hf Ea) in Ef. discriminate Ef.
Qed.

(* ====================================================================== *)
(* 4. non-vacuity                                                          *)
(* ====================================================================== *)
(* the scenario of GroupProofs.ex_cfg: all four kinds, a trigger hand-off, a buffered trigger racing
   the timer of PeriodicOrTrigger, StopAndWait blocked by a run of f, a registration after the stop *)
Definition ex_hist : list lab :=
  [LCallReg 0; LRetReg 0; LCallTrig 0; LRetTrig 0; LFEnter 0; LFExit 0;
   LCallReg 1; LRetReg 1; LFEnter 1; LFExit 1; LFEnter 1; LFExit 1;
   LCallReg 2; LRetReg 2; LCallTrig 1; LRetTrig 1; LFEnter 2;
   LCallStop 0; LRelease 2; LFExit 2; LRetStop 0; LQuiesce;
   LCallReg 3; LRetReg 3; LQuiesce].

Example ex_accepts : accepts_history ex_cfg ex_hist = true /\ group_converged ex_cfg ex_hist = true.
Proof. split; vm_cast_no_check (eq_refl true). Qed.

Example ex_is_trace : exists ls s, run qstep (init ex_cfg) ls = Some s /\ group_trace ls = ex_hist.
Proof. apply group_accepts_sound. exact (proj1 ex_accepts). Qed.

(* f runs after StopAndWait has returned: rejected by both matchers, and the rejection of the SHIPPED
   matcher is genuine *)
Definition ex_bad : list lab :=
  [LCallReg 0; LRetReg 0; LCallTrig 0; LRetTrig 0; LCallStop 0; LRetStop 0; LFEnter 0].

Example ex_rejects :
  accepts_history ex_cfg ex_bad = false /\ group_converged ex_cfg ex_bad = true /\
  accepts_history_full ex_cfg ex_bad = false /\ group_full_converged ex_cfg ex_bad = true.
Proof. vm_compute. repeat split; reflexivity. Qed.

Example ex_no_run : forall ls s, run qstep (init ex_cfg) ls = Some s -> group_trace ls <> ex_bad.
Proof. apply group_reject_genuine; [exact (proj1 (proj2 ex_rejects)) | exact (proj1 ex_rejects)]. Qed.

(* the hypotheses of the commutation lemmas are satisfiable: after  Do  has executed wg.Add, its
   eager step TRUnlock and a concurrent call of StopAndWait commute *)
Example ex_diamond :
  exists s s1 t u, reachable qstep (init ex_cfg) s /\ eager s (TRUnlock 3) /\
    step s (TRUnlock 3) = Some s1 /\ step s (LCallStop 0) = Some t /\
    step s1 (LCallStop 0) = Some u /\ step t (TRUnlock 3) = Some u.
Proof.
  destruct (run qstep (init ex_cfg) [LCallReg 3; TRLock 3; TCheck 3; TAdd 3]) as [s|] eqn:E;
    [|vm_compute in E; discriminate E].
  assert (Hre : reachable qstep (init ex_cfg) s) by (eexists; exact E).
  vm_compute in E. inversion E; subst s.
  do 4 eexists. split; [exact Hre|]. split; [exact I|]. repeat split; vm_compute; reflexivity.
Qed.

Print Assumptions group_st_eqb_spec.
Print Assumptions group_lab_eqb_spec.
Print Assumptions group_accepts_sound.
Print Assumptions group_first_rejected_sound.
Print Assumptions diamond.
Print Assumptions clr_step_fwd.
Print Assumptions clr_step_bwd.
Print Assumptions group_accepts_complete.
Print Assumptions group_reject_genuine.
Print Assumptions group_accepts_iff.
Print Assumptions group_tau_labels_complete.
Print Assumptions group_full_sound.
Print Assumptions group_full_complete.
Print Assumptions group_full_reject_genuine.
Print Assumptions group_reduced_le_full.
Print Assumptions group_reduced_eq_full.
