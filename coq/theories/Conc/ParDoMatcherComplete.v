(* C13 -- COMPLETENESS of the shipped history matcher of Conc/ParDo.v
   (parallel.Do / DoContext / Map / MapContext).

   ParDoMatcher.v proves the shipped matcher [accepts_history] sound and certifies the unreduced
   matcher both ways; it leaves open whether the reductions of the shipped matcher can make it
   reject a history that the (unreduced) model produces.  This file closes that gap:

     pardo_accepts_complete :
       pardo_converged c gated evs = true ->
       run qstep (init c gated) ls = Some s -> pardo_trace ls = evs ->
       accepts_history c gated evs = true
     pardo_reject_genuine :
       pardo_converged c gated evs = true -> accepts_history c gated evs = false ->
       forall ls s, run qstep (init c gated) ls = Some s -> pardo_trace ls <> evs
     pardo_accepts_iff, pardo_reduced_eq_full

   for EVERY configuration, gating and history (no restriction on the worker symmetry), where
   [pardo_converged] is the executable test GoLTSProofs.convergedb run with exactly the functions
   the shipped matcher uses (mstep (will_of (c_n c) evs), vis, ev_eqb, st_eqb, m_labels, labels_ev,
   fuel 64): every closure computed along the history reached its fixpoint.

   The shipped matcher explores the big-step relation [mstep will] = one label of [qstep] followed by
   [settle] (all "eager" internal steps: AddInt32 of the lowest ready worker, the positional write,
   a worker return that cannot record the first error, Wait, and ctx.Err() checks whose outcome is
   fixed -- context already Done, or index entered somewhere in the history according to the hint
   [will]); only TFinish and TCancelEff are searched ([m_labels]).  The generic completeness theorem
   does not apply ([labels_complete] is false).  The argument, carried out in full:

     1-3  [peq]: equality of states up to a permutation of the workers, ignoring the ghost [owner]
          (never read by [step]).  [transfer]/[qtransfer]: [peq] is a bisimulation for [step]/[qstep]
          (labels change only in their worker component, [lkind]), [quiescent_peq].
     4    [diamond_*]: on invariant states (InvA /\ InvB of ParDoProofs.v) an enabled eager step  a
          commutes with every other enabled step  l : exactly, except TFetch/TFetch which commute
          up to [peq] (the two workers swap indices).  TWrite/TWrite needs "two workers never hold
          the same index".  ONE pair does not commute: a check that is eager only because of the hint
          (context live, index entered later) against a step that makes the context Done.  It is
          excluded by [wf will t]: in a run whose remaining history enters index i, the context is not
          Done while the check of i is outstanding ([wf_of_future], from [never_enter]); [wf] is kept
          by eager steps ([wf_eager]) and by [peq].
     5    [ahead will s s']: s' is reached from s by eager steps, up to [peq].  [path]: a step of
          the model from s is either absorbed (s' stays ahead) or replayed from s'.
     6    [settle] only takes eager steps ([settle_ahead]) and [settle_fuel] suffices
          ([settle_settled], measure [smu] <= 4 * workers + 1): matcher states enable no eager step.
     7-8  [sim]: induction over the run; in a settled state every enabled internal label is a searched
          one ([internal_settled]) unless it is a check the reduction refuses to take.
     9-11 such checks (context live, index never entered) leave their worker in front of a call that
          never begins; [zsim]/[zrun] drop them from the run without changing the history.
          [normalise_run] packages: every run has a run with the same history satisfying [okrun].

   What remains conditional: completeness is relative to [pardo_converged] (fuel 64 waves), an
   executable test per history; no closed bound on the number of matcher states is proved.
   Stdlib only, no axioms. *)
From Juniper Require Import Common.Base Conc.GoLTS Conc.GoLTSProofs Conc.ParDo Conc.ParDoProofs Conc.ParDoMatcher.
From Juniper Require Conc.CondMatcher.
From Coq Require Import Arith PeanoNat Permutation.
Local Open Scope nat_scope.

(* ====================================================================== *)
(* 0. list helpers                                                         *)
(* ====================================================================== *)
Lemma upd_upd {A} (l : list A) n x y : upd (upd l n x) n y = upd l n y.
Proof. revert n; induction l as [|h t IH]; intros [|n]; simpl; auto. rewrite IH. reflexivity. Qed.

Lemma upd_comm {A} (l : list A) n m x y : n <> m -> upd (upd l n x) m y = upd (upd l m y) n x.
Proof.
  revert n m; induction l as [|h t IH]; intros [|n] [|m] H; simpl; auto; try congruence.
  rewrite IH; [reflexivity | congruence].
Qed.

(* a position of a list corresponds to a position of every permutation of it, also after an update *)
Lemma perm_nth {A} (l l' : list A) : Permutation l l' -> forall w p, nth_error l w = Some p ->
  exists w', nth_error l' w' = Some p /\ forall q, Permutation (upd l w q) (upd l' w' q).
Proof.
  induction 1 as [|x l l' HP IH|x y l|l l' l'' HP1 IH1 HP2 IH2]; intros w p Hw.
  - destruct w; discriminate Hw.
  - destruct w as [|w]; simpl in Hw.
    + exists 0. split; [exact Hw|]. intros q. simpl. apply perm_skip. exact HP.
    + destruct (IH w p Hw) as [w' [Hw' Hq]]. exists (S w'). split; [exact Hw'|].
      intros q. simpl. apply perm_skip. apply Hq.
  - destruct w as [|[|w]]; simpl in Hw.
    + exists 1. split; [exact Hw|]. intros q. simpl. apply perm_swap.
    + exists 0. split; [exact Hw|]. intros q. simpl. apply perm_swap.
    + exists (S (S w)). split; [exact Hw|]. intros q. simpl. apply perm_swap.
  - destruct (IH1 w p Hw) as [w1 [Hw1 Hq1]]. destruct (IH2 w1 p Hw1) as [w2 [Hw2 Hq2]].
    exists w2. split; [exact Hw2|]. intros q. eapply perm_trans; [apply Hq1 | apply Hq2].
Qed.

Lemma perm_forallb {A} (f : A -> bool) l l' : Permutation l l' -> forallb f l = forallb f l'.
Proof.
  induction 1 as [|x l l' HP IH|x y l|l l' l'' HP1 IH1 HP2 IH2]; simpl.
  - reflexivity.
  - rewrite IH. reflexivity.
  - destruct (f x), (f y); reflexivity.
  - congruence.
Qed.

Lemma perm_existsb {A} (f : A -> bool) l l' : Permutation l l' -> existsb f l = existsb f l'.
Proof.
  induction 1 as [|x l l' HP IH|x y l|l l' l'' HP1 IH1 HP2 IH2]; simpl.
  - reflexivity.
  - rewrite IH. reflexivity.
  - destruct (f x), (f y); reflexivity.
  - congruence.
Qed.

Lemma perm_nth_in {A} (l l' : list A) p :
  Permutation l l' -> (exists w, nth_error l w = Some p) -> exists w', nth_error l' w' = Some p.
Proof.
  intros HP [w Hw]. destruct (perm_nth l l' HP w p Hw) as [w' [Hw' _]]. exists w'. exact Hw'.
Qed.

(* ====================================================================== *)
(* 1. states up to the identity of workers                                 *)
(* ====================================================================== *)
(* [peq s s']: the same state up to a permutation of the workers; the ghost [owner] (which records
   worker identities and is never read by [step]) is ignored *)
Record peq (s s' : st) : Prop := mkPeq {
  q_cfg : cfg s = cfg s';
  q_pc : pc s = pc s';
  q_ws : Permutation (ws s) (ws s');
  q_next : next s = next s';
  q_cctx : cctx s = cctx s';
  q_dctx : dctx s = dctx s';
  q_errc : errc s = errc s';
  q_out : out s = out s';
  q_gopen : gopen s = gopen s';
  q_started : started s = started s';
  q_finished : finished s = finished s';
  q_cstarts : cstarts s = cstarts s'
}.

Lemma peq_refl s : peq s s.
Proof. constructor; reflexivity. Qed.

Lemma peq_sym s s' : peq s s' -> peq s' s.
Proof. intros []. constructor; symmetry; assumption. Qed.

Lemma peq_trans s s' s'' : peq s s' -> peq s' s'' -> peq s s''.
Proof.
  intros [] []. constructor; etransitivity; eassumption.
Qed.

Ltac proj :=
  cbn [cfg pc ws next cctx dctx errc out gopen owner started finished cstarts].
Ltac proj_in H :=
  cbn [cfg pc ws next cctx dctx errc out gopen owner started finished cstarts] in H.
Ltac proj_all :=
  cbn [cfg pc ws next cctx dctx errc out gopen owner started finished cstarts] in *.

(* labels up to the worker *)
Definition lkind (l : lab) : lab :=
  match l with
  | LEnter _ i c => LEnter 0 i c
  | LExit _ i r v => LExit 0 i r v
  | TFetch _ => TFetch 0 | TCheck _ => TCheck 0 | TWrite _ => TWrite 0 | TFinish _ => TFinish 0
  | x => x
  end.

Lemma lkind_vis l l' : lkind l' = lkind l -> vis l' = vis l.
Proof. destruct l, l'; simpl; intros H; try discriminate H; inversion H; reflexivity. Qed.

(* ---- the eager labels of the reduction ---- *)
Definition eager (will : list bool) (s : st) (a : lab) : Prop :=
  match a with
  | TWait => True
  | TFetch w => nth_error (ws s) w = Some WFetch
  | TWrite w => exists i v r, nth_error (ws s) w = Some (WWrite i v r)
  | TCheck w => exists i, nth_error (ws s) w = Some (WCheck i) /\ (dctx s || nth i will false) = true
  | TFinish w => exists r, nth_error (ws s) w = Some (WRet r) /\ (r = None \/ errc s <> None)
  | _ => False
  end.

Lemma eager_vis will s a : eager will s a -> vis a = None.
Proof. destruct a; simpl; intros H; try contradiction; reflexivity. Qed.

Lemma safe_of_eager will s w p a :
  nth_error (ws s) w = Some p -> safe_of will s w p = Some a -> eager will s a.
Proof.
  intros Hw Hs. destruct p as [|i|i|i|i v r|r|]; simpl in Hs; try discriminate Hs.
  - inversion Hs; subst. exact Hw.
  - destruct (dctx s || nth i will false) eqn:E; [|discriminate Hs]. inversion Hs; subst.
    exists i. split; assumption.
  - inversion Hs; subst. exists i, v, r. exact Hw.
  - destruct r as [e|].
    + destruct (errc s) as [e0|] eqn:Ee; simpl in Hs; [|discriminate Hs]. inversion Hs; subst.
      exists (Some e). split; [exact Hw|]. right. congruence.
    + inversion Hs; subst. exists None. split; [exact Hw | left; reflexivity].
Qed.

Lemma eager_safe_of will s a : eager will s a -> a <> TWait ->
  exists w p, nth_error (ws s) w = Some p /\ safe_of will s w p = Some a.
Proof.
  destruct a; simpl; intros H Hne; try contradiction; try congruence.
  - exists w, WFetch. split; [exact H | reflexivity].
  - destruct H as [i [Hw Hc]]. exists w, (WCheck i). split; [exact Hw|]. simpl. rewrite Hc. reflexivity.
  - destruct H as [i [v [r Hw]]]. exists w, (WWrite i v r). split; [exact Hw | reflexivity].
  - destruct H as [r [Hw Hr]]. exists w, (WRet r). split; [exact Hw|]. simpl.
    destruct r as [e|]; [|reflexivity]. destruct Hr as [Hr|Hr]; [discriminate Hr|].
    destruct (errc s); [reflexivity | congruence].
Qed.

Lemma first_safe_none will s : forall l w0,
  first_safe will s w0 l = None <->
  (forall k p, nth_error l k = Some p -> safe_of will s (w0 + k) p = None).
Proof.
  induction l as [|p t IH]; intros w0; simpl.
  - split; [intros _ k p Hk; destruct k; discriminate Hk | reflexivity].
  - destruct (safe_of will s w0 p) as [x|] eqn:E.
    + split; [discriminate|]. intros H. specialize (H 0 p eq_refl). rewrite Nat.add_0_r in H. congruence.
    + rewrite IH. split.
      * intros H [|k] q Hk; simpl in Hk.
        -- inversion Hk; subst. rewrite Nat.add_0_r. exact E.
        -- rewrite <- Nat.add_succ_comm. apply H. exact Hk.
      * intros H k q Hk. rewrite Nat.add_succ_comm. apply (H (S k) q). exact Hk.
Qed.

Lemma first_safe_some will s : forall l w0 a,
  first_safe will s w0 l = Some a ->
  exists k p, nth_error l k = Some p /\ safe_of will s (w0 + k) p = Some a.
Proof.
  induction l as [|p t IH]; intros w0 a; simpl; [discriminate|].
  destruct (safe_of will s w0 p) as [x|] eqn:E.
  - intros H. inversion H; subst. exists 0, p. rewrite Nat.add_0_r. split; [reflexivity | exact E].
  - intros H. destruct (IH (S w0) a H) as [k [q [Hk Hs]]]. exists (S k), q.
    rewrite <- Nat.add_succ_comm. split; [exact Hk | exact Hs].
Qed.

(* an eager label returned by the matcher's scheduler *)
Lemma safe_tau_eager will s a : safe_tau will s = Some a -> eager will s a.
Proof.
  unfold safe_tau. destruct (first_safe will s 0 (ws s)) as [x|] eqn:E.
  - intros H. inversion H; subst. destruct (first_safe_some will s (ws s) 0 a E) as [k [p [Hk Hs]]].
    simpl in Hs. eapply safe_of_eager; eauto.
  - destruct (pc s); try discriminate. destruct (forallb is_done (ws s)); [|discriminate].
    intros H. inversion H. exact I.
Qed.

(* a settled state enables no eager label *)
Lemma settled_no_eager will s a s1 :
  safe_tau will s = None -> eager will s a -> step s a = Some s1 -> False.
Proof.
  unfold safe_tau. intros Hs He Ha.
  destruct (first_safe will s 0 (ws s)) as [x|] eqn:E; [discriminate Hs|].
  assert (Hw : a = TWait \/ a <> TWait) by (destruct a; try (right; discriminate); left; reflexivity).
  destruct Hw as [->|Hne].
  - apply step_TWait in Ha. destruct Ha as (Hp & Hall & _). rewrite Hp in Hs.
    assert (Hf : forallb is_done (ws s) = true).
    { apply forallb_nth. intros n y Hn. rewrite (Hall n y Hn). reflexivity. }
    rewrite Hf in Hs. discriminate Hs.
  - destruct (eager_safe_of will s a He Hne) as [w [p [Hw Hsf]]].
    pose proof (proj1 (first_safe_none will s (ws s) 0) E w p Hw) as Hn. simpl in Hn.
    rewrite Hn in Hsf. discriminate Hsf.
Qed.

Lemma lab_eq_dec (a b : lab) : {a = b} + {a <> b}.
Proof.
  assert (Hb : forall x y : bool, {x = y} + {x <> y}) by (decide equality).
  assert (Hon : forall x y : option nat, {x = y} + {x <> y}) by (decide equality; apply Nat.eq_dec).
  assert (Hr : forall x y : rerr, {x = y} + {x <> y}) by (decide equality; apply Nat.eq_dec).
  assert (Hor : forall x y : option rerr, {x = y} + {x <> y}) by (decide equality).
  assert (Hlz : forall x y : list Z, {x = y} + {x <> y}) by (apply list_eq_dec; apply Z.eq_dec).
  assert (Holz : forall x y : option (list Z), {x = y} + {x <> y}) by (decide equality).
  decide equality; try apply Nat.eq_dec; try apply Z.eq_dec; auto.
Qed.

(* ====================================================================== *)
(* 2. what a step leaves alone                                             *)
(* ====================================================================== *)
Definition good (c : config) (s : st) : Prop := InvA s /\ InvB c s.

Lemma good_init c g : good c (init c g).
Proof. split; [apply InvA_init | apply InvB_init]. Qed.

Lemma good_qstep c s l s' : good c s -> qstep s l = Some s' -> good c s'.
Proof. intros [HA HB] Hq. split; [eapply InvA_step; eauto | eapply InvB_step; eauto]. Qed.

Lemma step_qstep s l t : step s l = Some t -> qstep s l = Some t.
Proof. destruct l; simpl; intros H; try exact H. discriminate H. Qed.

Lemma qstep_step s l : l <> LQuiesce -> qstep s l = step s l.
Proof. destruct l; try reflexivity. congruence. Qed.

Lemma good_step c s l s' : good c s -> step s l = Some s' -> good c s'.
Proof. intros Hg Hs. eapply good_qstep; [exact Hg | apply step_qstep; exact Hs]. Qed.

(* the frame of a step: the other workers, and the monotone cells *)
Lemma step_frame c s l t : good c s -> step s l = Some t ->
  (forall w p, nth_error (ws s) w = Some p -> thread_of l <> Some w -> nth_error (ws t) w = Some p) /\
  (dctx s = true -> dctx t = true) /\ (errc s <> None -> errc t <> None) /\ cfg t = cfg s.
Proof.
  intros [HA HB] H.
  destruct l as [| w i b | w i r v | r o | | | i | | w | w | w | w | | ].
  - apply step_LCall in H. destruct H as [Hp ->]. proj.
    destruct (A_idle s HA Hp) as [Hws _]. rewrite Hws.
    repeat split; auto. intros w p Hw. destruct w; discriminate Hw.
  - apply step_LEnter in H. destruct H as (Hw & _ & ->). proj. repeat split; auto.
    intros w0 p Hp Hne. simpl in Hne. rewrite nth_error_upd_other; [exact Hp | congruence].
  - apply step_LExit in H. destruct H as (Hw & _ & _ & _ & ->). proj. repeat split; auto.
    intros w0 p Hp Hne. simpl in Hne. rewrite nth_error_upd_other; [exact Hp | congruence].
  - apply step_LRet in H. destruct H as (_ & _ & ->). proj. repeat split; auto.
  - apply step_LCancel in H. subst t. proj. repeat split; auto.
  - apply step_LCancelDone in H. destruct H as [_ ->]. repeat split; auto.
  - apply step_LRelease in H. subst t. proj. repeat split; auto.
  - discriminate H.
  - apply step_TFetch in H. destruct H as (Hw & ->). proj. repeat split; auto.
    intros w0 p Hp Hne. simpl in Hne. rewrite nth_error_upd_other; [exact Hp | congruence].
  - apply step_TCheck in H. destruct H as (i & Hw & ->). unfold setw, set_ws. proj. repeat split; auto.
    intros w0 p Hp Hne. simpl in Hne. rewrite nth_error_upd_other; [exact Hp | congruence].
  - apply step_TWrite in H. destruct H as (i & v & r & Hw & ->). proj. repeat split; auto.
    intros w0 p Hp Hne. simpl in Hne. rewrite nth_error_upd_other; [exact Hp | congruence].
  - apply step_TFinish in H. destruct H as (r & Hw & [(e & _ & _ & ->)|(_ & ->)]); unfold setw, set_ws; proj.
    + repeat split; auto.
      * intros w0 p Hp Hne. simpl in Hne. rewrite nth_error_upd_other; [exact Hp | congruence].
      * intros ->. reflexivity.
      * discriminate.
    + repeat split; auto.
      intros w0 p Hp Hne. simpl in Hne. rewrite nth_error_upd_other; [exact Hp | congruence].
  - apply step_TWait in H. destruct H as (_ & _ & ->). proj. repeat split; auto.
    intros ->. reflexivity.
  - apply step_TCancelEff in H. destruct H as (_ & ->). proj. repeat split; auto.
    intros ->. reflexivity.
Qed.

(* an eager label of another thread stays eager *)
Lemma eager_step_other will c s l t a :
  good c s -> step s l = Some t -> eager will s a ->
  (forall w, thread_of a = Some w -> thread_of l <> Some w) -> eager will t a.
Proof.
  intros Hg Hl He Hth.
  destruct (step_frame c s l t Hg Hl) as (Hws & Hd & He' & _).
  destruct a; simpl in He |- *; try contradiction; try exact I.
  - apply (Hws w _ He). apply Hth. reflexivity.
  - destruct He as [i [Hw Hc]]. exists i. split; [apply (Hws w _ Hw); apply Hth; reflexivity|].
    destruct (dctx s); [rewrite Hd; reflexivity|]. simpl in Hc. rewrite Hc. apply orb_true_r.
  - destruct He as [i [v [r Hw]]]. exists i, v, r. apply (Hws w _ Hw). apply Hth. reflexivity.
  - destruct He as [r [Hw Hr]]. exists r. split; [apply (Hws w _ Hw); apply Hth; reflexivity|].
    destruct Hr as [Hr|Hr]; [left; exact Hr | right; apply He'; exact Hr].
Qed.

(* two enabled labels of the same worker, one of them eager, are equal *)
Lemma same_worker_same_label will s a s1 l t w :
  eager will s a -> step s a = Some s1 -> step s l = Some t ->
  thread_of a = Some w -> thread_of l = Some w -> l = a.
Proof.
  intros He Ha Hl Hta Htl.
  destruct a; simpl in He, Hta; try contradiction; try discriminate Hta; inversion Hta; subst w0;
    destruct l; simpl in Htl; try discriminate Htl; inversion Htl; subst w0;
    try reflexivity; exfalso.
  all: try (apply step_TFetch in Ha; destruct Ha as (Hwa & _)).
  all: try (apply step_TCheck in Ha; destruct Ha as (ia & Hwa & _)).
  all: try (apply step_TWrite in Ha; destruct Ha as (ia & va & ra & Hwa & _)).
  all: try (apply step_TFinish in Ha; destruct Ha as (ra & Hwa & _)).
  all: try (apply step_LEnter in Hl; destruct Hl as (Hwl & _)).
  all: try (apply step_LExit in Hl; destruct Hl as (Hwl & _)).
  all: try (apply step_TFetch in Hl; destruct Hl as (Hwl & _)).
  all: try (apply step_TCheck in Hl; destruct Hl as (il & Hwl & _)).
  all: try (apply step_TWrite in Hl; destruct Hl as (il & vl & rl & Hwl & _)).
  all: try (apply step_TFinish in Hl; destruct Hl as (rl & Hwl & _)).
  all: congruence.
Qed.

(* ====================================================================== *)
(* 3. [peq] is a bisimulation                                              *)
(* ====================================================================== *)
Ltac top_destruct H :=
  repeat match type of H with
  | (match ?x with _ => _ end) = Some _ => destruct x eqn:?; try discriminate H
  end.

Ltac use_eqns :=
  repeat match goal with
  | Hc : ?b = _ |- context [?b] => rewrite Hc
  end.

Ltac tr_start H HP w :=
  unfold step, gate_open in H; proj_in H;
  let p := fresh "p" in let Hw := fresh "Hw" in
  destruct (nth_error _ w) as [p|] eqn:Hw; [|discriminate H];
  let w' := fresh "w'" in let Hw' := fresh "Hw'" in let HPq := fresh "HPq" in
  destruct (perm_nth _ _ HP w p Hw) as [w' [Hw' HPq]];
  destruct p; try discriminate H; top_destruct H; inversion H; subst; clear H.

Ltac tr_step Hw' := unfold step, gate_open; proj; rewrite Hw'; use_eqns; reflexivity.

Ltac tr_peq HPq := constructor; proj; try reflexivity; try apply HPq.

Lemma transfer will s s' l t :
  peq s s' -> step s l = Some t ->
  exists l' t', step s' l' = Some t' /\ lkind l' = lkind l /\ peq t t' /\
                (eager will s l -> eager will s' l').
Proof.
  intros HP H.
  destruct s as [cf p0 wl nx cc dc ec ou go ow sa fi cs],
           s' as [cf' p0' wl' nx' cc' dc' ec' ou' go' ow' sa' fi' cs'].
  destruct HP as [E1 E2 HP E4 E5 E6 E7 E8 E9 E10 E11 E12]. proj_all. subst.
  destruct l as [| w i b | w i r v | r o | | | i | | w | w | w | w | | ].
  - (* LCall *) exists LCall. unfold step in H |- *. proj_all. top_destruct H. inversion H; subst; clear H.
    eexists. split; [reflexivity|]. split; [reflexivity|]. split; [tr_peq HP | intros []].
  - (* LEnter *) tr_start H HP w. exists (LEnter w' i b). eexists.
    split; [tr_step Hw'|]. split; [reflexivity|]. split; [tr_peq HPq | intros []].
  - (* LExit *) tr_start H HP w. exists (LExit w' i r v). eexists.
    split; [tr_step Hw'|]. split; [reflexivity|]. split; [tr_peq HPq | intros []].
  - (* LRet *) exists (LRet r o). unfold step, ret_out in H |- *. proj_all. top_destruct H.
    inversion H; subst; clear H. eexists. split; [use_eqns; reflexivity|].
    split; [reflexivity|]. split; [tr_peq HP | intros []].
  - (* LCancel *) exists LCancel. unfold step in H |- *. proj_all. inversion H; subst; clear H.
    eexists. split; [reflexivity|]. split; [reflexivity|]. split; [tr_peq HP | intros []].
  - (* LCancelDone *) exists LCancelDone. unfold step in H |- *. proj_all. top_destruct H.
    inversion H; subst; clear H. eexists. split; [reflexivity|]. split; [reflexivity|].
    split; [tr_peq HP | intros []].
  - (* LRelease *) exists (LRelease i). unfold step in H |- *. proj_all. inversion H; subst; clear H.
    eexists. split; [reflexivity|]. split; [reflexivity|]. split; [tr_peq HP | intros []].
  - discriminate H.
  - (* TFetch *) tr_start H HP w. exists (TFetch w'). eexists.
    split; [tr_step Hw'|]. split; [reflexivity|]. split; [tr_peq HPq|].
    simpl. intros _. exact Hw'.
  - (* TCheck *) tr_start H HP w. exists (TCheck w'). eexists.
    split; [tr_step Hw'|]. split; [reflexivity|]. split; [unfold setw, set_ws; tr_peq HPq|].
    simpl. intros [j [Hj Hc]]. rewrite Hw in Hj. inversion Hj; subst j. exists i. split; assumption.
  - (* TWrite *) tr_start H HP w. exists (TWrite w'). eexists.
    split; [tr_step Hw'|]. split; [reflexivity|]. split; [tr_peq HPq|].
    simpl. intros _. eauto.
  - (* TFinish *) tr_start H HP w; exists (TFinish w'); eexists.
    all: (split; [tr_step Hw'|]; split; [reflexivity|]; split; [unfold setw, set_ws; tr_peq HPq|]).
    all: simpl; intros [rr [Hrr Hc]]; rewrite Hw in Hrr; inversion Hrr; subst rr; eexists; split; [exact Hw' | exact Hc].
  - (* TWait *) exists TWait. unfold step in H |- *. proj_all. top_destruct H. inversion H; subst; clear H.
    rewrite <- (perm_forallb is_done wl wl' HP). use_eqns.
    eexists. split; [reflexivity|]. split; [reflexivity|]. split; [tr_peq HP | intros _; exact I].
  - (* TCancelEff *) exists TCancelEff. unfold step in H |- *. proj_all. top_destruct H.
    inversion H; subst; clear H. eexists. split; [reflexivity|]. split; [reflexivity|].
    split; [tr_peq HP | intros []].
Qed.

Lemma tau_labels_vis s l : In l (tau_labels s) -> vis l = None.
Proof.
  unfold tau_labels. intros Hin. apply in_app_or in Hin. destruct Hin as [Hin|Hin].
  - apply in_flat_map in Hin. destruct Hin as [w [_ Hin]]. simpl in Hin.
    decompose [or] Hin; subst; try reflexivity. contradiction.
  - simpl in Hin. decompose [or] Hin; subst; try reflexivity. contradiction.
Qed.

Lemma tau_enabled_iff s :
  existsb (enabled s) (tau_labels s) = true <-> exists l, vis l = None /\ step s l <> None.
Proof.
  rewrite existsb_exists. split.
  - intros [l [Hin Hen]]. exists l. split; [eapply tau_labels_vis; eauto|].
    unfold enabled in Hen. destruct (step s l); [discriminate | discriminate Hen].
  - intros [l [Hv Hen]]. exists l. split.
    + apply pardo_tau_labels_complete; [exact Hv | rewrite (qstep_tau s l Hv); exact Hen].
    + unfold enabled. destruct (step s l); [reflexivity | congruence].
Qed.

Lemma tau_enabled_peq s s' : peq s s' ->
  existsb (enabled s) (tau_labels s) = true -> existsb (enabled s') (tau_labels s') = true.
Proof.
  intros HP H. apply tau_enabled_iff in H. apply tau_enabled_iff.
  destruct H as [l [Hv Hen]]. destruct (step s l) as [t|] eqn:Es; [|congruence].
  destruct (transfer [] s s' l t HP Es) as [l' [t' [Es' [Hk _]]]].
  exists l'. split; [rewrite (lkind_vis l l' Hk); exact Hv | rewrite Es'; discriminate].
Qed.

Lemma existsb_ext' {A} (f g : A -> bool) l : (forall x, f x = g x) -> existsb f l = existsb g l.
Proof. intros H. induction l as [|a t IH]; simpl; [reflexivity | rewrite H, IH; reflexivity]. Qed.

Lemma quiescent_peq s s' : peq s s' -> quiescent s = quiescent s'.
Proof.
  intros HP. unfold quiescent. f_equal.
  - f_equal. destruct (existsb (enabled s) (tau_labels s)) eqn:E1.
    + symmetry. apply (tau_enabled_peq s s' HP E1).
    + destruct (existsb (enabled s') (tau_labels s')) eqn:E2; [|reflexivity].
      rewrite (tau_enabled_peq s' s (peq_sym _ _ HP) E2) in E1. discriminate E1.
  - f_equal. unfold lib_visible_enabled. rewrite (q_pc _ _ HP). f_equal.
    rewrite (perm_existsb _ _ _ (q_ws _ _ HP)). apply existsb_ext'.
    intros p. destruct p; try reflexivity. unfold gate_open. rewrite (q_gopen _ _ HP). reflexivity.
Qed.

Lemma qtransfer will s s' l t :
  peq s s' -> qstep s l = Some t ->
  exists l' t', qstep s' l' = Some t' /\ lkind l' = lkind l /\ peq t t' /\
                (eager will s l -> eager will s' l').
Proof.
  intros HP Hq. destruct (lab_eq_dec l LQuiesce) as [->|Hne].
  - simpl in Hq. destruct (quiescent s) eqn:Eq; [|discriminate Hq]. inversion Hq; subst t.
    exists LQuiesce, s'. simpl. rewrite <- (quiescent_peq s s' HP), Eq.
    split; [reflexivity|]. split; [reflexivity|]. split; [exact HP | intros []].
  - rewrite (qstep_step s l Hne) in Hq.
    destruct (transfer will s s' l t HP Hq) as [l' [t' [Hs' [Hk [HP' He]]]]].
    exists l', t'. split; [apply step_qstep; exact Hs'|]. auto.
Qed.

(* ====================================================================== *)
(* 4. eager steps commute with every other step                            *)
(* ====================================================================== *)
(* the knowledge about the rest of the run that the hint [will] encodes: once the context handed to f
   is Done, no index that is still going to be entered is waiting for its ctx.Err() check *)
Definition wf (will : list bool) (s : st) : Prop :=
  forall i, nth i will false = true -> dctx s = true -> use_eg (cfg s) = true -> pc s = MWait ->
    i < next s /\ forall w, nth_error (ws s) w <> Some (WCheck i).

Lemma perm_upd_cons {A} (t : list A) : forall k x y, k < length t ->
  Permutation (y :: upd t k x) (x :: upd t k y).
Proof.
  induction t as [|h t IH]; intros [|k] x y Hk; simpl in *; try lia.
  - apply perm_swap.
  - eapply perm_trans; [apply perm_swap|]. eapply perm_trans; [|apply perm_swap].
    apply perm_skip. apply IH. lia.
Qed.

Lemma perm_upd_swap {A} (l : list A) : forall w w0 x y, w <> w0 -> w < length l -> w0 < length l ->
  Permutation (upd (upd l w0 x) w y) (upd (upd l w x) w0 y).
Proof.
  induction l as [|h t IH]; intros [|w] [|w0] x y Hne Hw Hw0; simpl in *; try lia.
  - apply perm_upd_cons. lia.
  - apply Permutation_sym. apply perm_upd_cons. lia.
  - apply perm_skip. apply IH; lia.
Qed.

Ltac top_destruct2 H :=
  repeat (lazy beta iota in H;
          match type of H with
          | (match ?x with _ => _ end) = Some _ => destruct x eqn:?; try discriminate H
          end);
  lazy beta iota in H.

Ltac inv_lab H :=
  unfold step, gate_open, ret_out, setw, set_ws in H; proj_in H; top_destruct2 H; inversion H; subst; clear H.

Ltac run_lab :=
  unfold step, gate_open, ret_out, setw, set_ws; proj;
  repeat match goal with
  | Hne : ?w <> ?w0 |- context [nth_error (upd ?l ?w ?x) ?w0] =>
      rewrite (nth_error_upd_other l w w0 x Hne)
  | Hne : ?w0 <> ?w |- context [nth_error (upd ?l ?w ?x) ?w0] =>
      rewrite (nth_error_upd_other l w w0 x (not_eq_sym Hne))
  end;
  use_eqns; lazy beta iota; try reflexivity.

Ltac ws_comm :=
  first [ reflexivity
        | rewrite upd_comm; [reflexivity | solve [assumption | apply not_eq_sym; assumption]] ].

Ltac fin_peq := constructor; proj; try reflexivity; try (ws_comm).

Ltac thread_ne Hth w w0 :=
  assert (w <> w0) by (let E := fresh in intros E; subst; apply (Hth _ eq_refl); reflexivity).

Ltac not_done :=
  exfalso;
  match goal with
  | Hf : forallb is_done ?l = true, Hw : nth_error ?l ?w = Some ?p |- _ =>
      let H := fresh in pose proof (proj1 (forallb_nth is_done l) Hf w p Hw) as H; discriminate H
  end.

Ltac not_idle Hidle :=
  exfalso; destruct (Hidle eq_refl) as [Hnil _]; subst;
  match goal with Hw : nth_error [] ?w = Some _ |- _ => destruct w; discriminate Hw end.

Ltac not_retp Hretp :=
  exfalso;
  match goal with
  | Hw : nth_error ?l ?w = Some ?p |- _ =>
      let H := fresh in pose proof (Hretp _ (or_introl eq_refl) w p Hw) as H; discriminate H
  end.

Ltac close_dia := solve [do 2 eexists; split; [run_lab | split; [run_lab | fin_peq]]].

Lemma diamond_TFetch c s w s1 l t :
  good c s -> step s (TFetch w) = Some s1 -> step s l = Some t ->
  thread_of l <> Some w ->
  exists u u', step s1 l = Some u /\ step t (TFetch w) = Some u' /\ peq u' u.
Proof.
  intros Hg Ha Hl Hth.
  pose proof (A_idle s (proj1 Hg)) as Hidle.
  destruct s as [cf p0 wl nx cc dc ec ou go ow sa fi cs]. proj_in Hidle.
  inv_lab Ha.
  destruct l as [| w0 i b | w0 i r v | r o | | | i | | w0 | w0 | w0 | w0 | | ]; simpl in Hth;
    try (assert (Hne : w <> w0) by congruence); inv_lab Hl.
  all: try close_dia.
  - not_idle Hidle.
  - do 2 eexists; split; [run_lab | split; [run_lab | fin_peq]].
    apply perm_upd_swap; [assumption | eapply nth_lt; eassumption | eapply nth_lt; eassumption].
  - not_done.
Qed.

Lemma diamond_TWrite c s w s1 l t :
  good c s -> step s (TWrite w) = Some s1 -> step s l = Some t ->
  thread_of l <> Some w ->
  exists u u', step s1 l = Some u /\ step t (TWrite w) = Some u' /\ peq u' u.
Proof.
  intros Hg Ha Hl Hth.
  pose proof (A_idle s (proj1 Hg)) as Hidle.
  pose proof (fun w1 w2 p1 p2 i => A_unique s w1 w2 p1 p2 i (proj1 Hg)) as Huniq.
  pose proof (fun r H => proj1 (proj2 (B_retp c s (proj2 Hg) r H))) as Hretp.
  destruct s as [cf p0 wl nx cc dc ec ou go ow sa fi cs]. proj_in Hidle. proj_in Huniq. proj_in Hretp.
  inv_lab Ha.
  destruct l as [| w0 i0 b | w0 i0 r0 v0 | r0 o | | | i0 | | w0 | w0 | w0 | w0 | | ]; simpl in Hth;
    try (assert (Hne : w <> w0) by congruence); inv_lab Hl.
  all: try close_dia.
  - not_idle Hidle.
  - not_retp Hretp.
  - do 2 eexists; split; [run_lab | split; [run_lab | fin_peq]].
    apply upd_comm.
    match goal with
    | H1 : nth_error wl w = Some (WWrite ?i _ _), H2 : nth_error wl w0 = Some (WWrite ?j _ _) |- _ =>
        intros E; apply Hne; apply (Huniq w w0 _ _ i H1 H2 eq_refl); simpl; rewrite E; reflexivity
    end.
  - not_done.
Qed.

Lemma check_facts c s w i : good c s -> nth_error (ws s) w = Some (WCheck i) ->
  pc s = MWait /\ use_eg (cfg s) = true.
Proof.
  intros [HA HB] Hw. split.
  - destruct (pc s) as [| |r|r] eqn:Ep; [|reflexivity| |].
    + destruct (A_idle s HA Ep) as [Hnil _]. rewrite Hnil in Hw. destruct w; discriminate Hw.
    + destruct (B_retp c s HB r (or_introl Ep)) as (_ & Hall & _). specialize (Hall w _ Hw). discriminate Hall.
    + destruct (B_retp c s HB r (or_intror Ep)) as (_ & Hall & _). specialize (Hall w _ Hw). discriminate Hall.
  - destruct (use_eg (cfg s)) eqn:E; [reflexivity|]. exfalso.
    rewrite (B_cfg c s HB) in E. exact (B_nochk c s HB E w i Hw).
Qed.

Lemma diamond_TCheck will c s w s1 l t :
  good c s -> eager will s (TCheck w) -> step s (TCheck w) = Some s1 -> step s l = Some t ->
  thread_of l <> Some w -> wf will t ->
  exists u u', step s1 l = Some u /\ step t (TCheck w) = Some u' /\ peq u' u.
Proof.
  intros Hg He Ha Hl Hth Hwf.
  pose proof (A_idle s (proj1 Hg)) as Hidle.
  pose proof (fun i => check_facts c s w i Hg) as Hcf.
  destruct He as [i [Hwi Hc]].
  destruct s as [cf p0 wl nx cc dc ec ou go ow sa fi cs]. proj_in Hidle. proj_in Hcf. proj_in Hwi. proj_in Hc.
  unfold step, setw, set_ws in Ha; proj_in Ha; rewrite Hwi in Ha; inversion Ha; subst s1; clear Ha.
  destruct (Hcf i Hwi) as [Hpc Hueg]; clear Hcf.
  subst p0.
  destruct l as [| w0 i0 b | w0 i0 r0 v0 | r0 o | | | i0 | | w0 | w0 | w0 | w0 | | ]; simpl in Hth;
    try (assert (Hne : w <> w0) by congruence); inv_lab Hl.
  all: try close_dia.
  all: try not_done.
  - (* TFinish w0 recording the first error: cancels the derived context *)
    destruct dc; [close_dia|]. simpl in Hc. exfalso.
    unfold wf in Hwf. proj_in Hwf. rewrite Hueg in Hwf.
    destruct (Hwf i Hc eq_refl eq_refl eq_refl) as [_ Hno]. apply (Hno w).
    rewrite (nth_error_upd_other _ _ _ _ (not_eq_sym Hne)). assumption.
  - (* TCancelEff *)
    destruct dc; [close_dia|]. simpl in Hc.
    destruct (c_ctx cf) eqn:Ectx; [|close_dia]. exfalso.
    unfold wf in Hwf. proj_in Hwf.
    destruct (Hwf i Hc eq_refl Hueg eq_refl) as [_ Hno]. apply (Hno w). assumption.
Qed.

Lemma diamond_TFinish will c s w s1 l t :
  good c s -> eager will s (TFinish w) -> step s (TFinish w) = Some s1 -> step s l = Some t ->
  thread_of l <> Some w ->
  exists u u', step s1 l = Some u /\ step t (TFinish w) = Some u' /\ peq u' u.
Proof.
  intros Hg He Ha Hl Hth.
  pose proof (A_idle s (proj1 Hg)) as Hidle.
  destruct He as [r [Hwr Hr]].
  destruct s as [cf p0 wl nx cc dc ec ou go ow sa fi cs]. proj_in Hidle. proj_in Hwr. proj_in Hr.
  unfold step, setw, set_ws in Ha; proj_in Ha; rewrite Hwr in Ha.
  assert (Ha' : s1 = {| cfg := cf; pc := p0; ws := upd wl w WDone; next := nx; cctx := cc; dctx := dc;
                        errc := ec; out := ou; gopen := go; owner := ow; started := sa; finished := fi;
                        cstarts := cs |}).
  { destruct Hr as [->|Hr]; [inversion Ha; reflexivity|].
    destruct r; destruct ec; try congruence; inversion Ha; reflexivity. }
  subst s1. clear Ha.
  assert (Hcase : r = None \/ exists e0, ec = Some e0).
  { destruct Hr as [Hr|Hr]; [left; exact Hr | right].
    destruct ec as [e0|]; [exists e0; reflexivity | congruence]. }
  clear Hr. destruct Hcase as [->|[e0 ->]]; [|destruct r as [e1|]].
  all: destruct l as [| w0 i0 b | w0 i0 r0 v0 | r0 o | | | i0 | | w0 | w0 | w0 | w0 | | ]; simpl in Hth;
    try (assert (Hne : w <> w0) by congruence); inv_lab Hl.
  all: try close_dia.
  all: try not_done.
  all: try (not_idle Hidle).
Qed.

Lemma diamond_TWait c s s1 l t :
  good c s -> step s TWait = Some s1 -> step s l = Some t -> l <> TWait ->
  exists u u', step s1 l = Some u /\ step t TWait = Some u' /\ peq u' u.
Proof.
  intros Hg Ha Hl Hne0.
  destruct s as [cf p0 wl nx cc dc ec ou go ow sa fi cs].
  inv_lab Ha.
  destruct l as [| w0 i0 b | w0 i0 r0 v0 | r0 o | | | i0 | | w0 | w0 | w0 | w0 | | ]; inv_lab Hl.
  all: try close_dia.
  all: try not_done.
  all: try congruence.
  do 2 eexists; split; [run_lab | split; [run_lab | fin_peq]].
  destruct dc, (use_eg cf), (c_ctx cf); reflexivity.
Qed.

Lemma diamond will c s a s1 l t :
  good c s -> eager will s a -> step s a = Some s1 -> step s l = Some t -> l <> a -> wf will t ->
  exists u u', step s1 l = Some u /\ step t a = Some u' /\ peq u' u /\
               eager will t a /\ (eager will s l -> eager will s1 l).
Proof.
  intros Hg He Ha Hl Hne Hwf.
  assert (Hth : forall w, thread_of a = Some w -> thread_of l <> Some w).
  { intros w Hta Htl. apply Hne. eapply same_worker_same_label; eauto. }
  assert (Het : eager will t a) by (eapply eager_step_other; eauto).
  assert (Hel : eager will s l -> eager will s1 l).
  { intros Hel. eapply (eager_step_other will c s a s1 l); eauto.
    intros w Htl Hta. exact (Hth w Hta Htl). }
  assert (Hcore : exists u u', step s1 l = Some u /\ step t a = Some u' /\ peq u' u).
  { destruct a; simpl in He; try contradiction.
    - apply (diamond_TFetch c s w s1 l t Hg Ha Hl). apply Hth. reflexivity.
    - apply (diamond_TCheck will c s w s1 l t Hg He Ha Hl); [apply Hth; reflexivity | exact Hwf].
    - apply (diamond_TWrite c s w s1 l t Hg Ha Hl). apply Hth. reflexivity.
    - apply (diamond_TFinish will c s w s1 l t Hg He Ha Hl). apply Hth. reflexivity.
    - apply (diamond_TWait c s s1 l t Hg Ha Hl Hne). }
  destruct Hcore as [u [u' [H1 [H2 H3]]]]. exists u, u'.
  split; [exact H1|]. split; [exact H2|]. split; [exact H3|]. split; [exact Het | exact Hel].
Qed.

(* [wf] is kept by eager steps and by [peq] *)
Lemma wf_peq will s s' : peq s s' -> wf will s -> wf will s'.
Proof.
  intros HP Hwf i Hi Hd Hu Hp.
  rewrite <- (q_dctx _ _ HP) in Hd. rewrite <- (q_cfg _ _ HP) in Hu. rewrite <- (q_pc _ _ HP) in Hp.
  destruct (Hwf i Hi Hd Hu Hp) as [Hlt Hno]. split; [rewrite <- (q_next _ _ HP); exact Hlt|].
  intros w Hw.
  destruct (perm_nth _ _ (Permutation_sym (q_ws _ _ HP)) w _ Hw) as [w' [Hw' _]].
  exact (Hno w' Hw').
Qed.

Lemma wf_eager will c s a s1 :
  good c s -> wf will s -> eager will s a -> step s a = Some s1 -> wf will s1.
Proof.
  intros Hg Hwf He Ha i Hi Hd Hu Hp.
  destruct a; simpl in He; try contradiction.
  - (* TFetch *) apply step_TFetch in Ha. destruct Ha as (Hw & ->). proj_all.
    destruct (Hwf i Hi Hd Hu Hp) as [Hlt Hno]. split; [lia|].
    intros w0 Hw0. apply nth_upd_inv in Hw0. destruct Hw0 as [[_ E]|[_ Hw0]]; [|exact (Hno w0 Hw0)].
    destruct (next s <? c_n (cfg s)); [destruct (use_eg (cfg s))|]; try discriminate E.
    inversion E. lia.
  - (* TCheck *) apply step_TCheck in Ha. destruct Ha as (j & Hw & ->). unfold setw, set_ws in *. proj_all.
    destruct (Hwf i Hi Hd Hu Hp) as [Hlt Hno]. split; [exact Hlt|].
    intros w0 Hw0. apply nth_upd_inv in Hw0. destruct Hw0 as [[_ E]|[_ Hw0]]; [|exact (Hno w0 Hw0)].
    destruct (dctx s); discriminate E.
  - (* TWrite *) apply step_TWrite in Ha. destruct Ha as (j & v & r & Hw & ->). proj_all.
    destruct (Hwf i Hi Hd Hu Hp) as [Hlt Hno]. split; [exact Hlt|].
    intros w0 Hw0. apply nth_upd_inv in Hw0. destruct Hw0 as [[_ E]|[_ Hw0]]; [|exact (Hno w0 Hw0)].
    destruct r; discriminate E.
  - (* TFinish, not the first error *)
    destruct He as [r [Hwr Hr]].
    apply step_TFinish in Ha. destruct Ha as (r' & Hw & [(e & -> & Hec & _)|(_ & ->)]).
    + exfalso. rewrite Hw in Hwr. inversion Hwr; subst r. destruct Hr as [Hr|Hr]; [discriminate Hr | exact (Hr Hec)].
    + unfold setw, set_ws in *. proj_all.
      destruct (Hwf i Hi Hd Hu Hp) as [Hlt Hno]. split; [exact Hlt|].
      intros w0 Hw0. apply nth_upd_inv in Hw0. destruct Hw0 as [[_ E]|[_ Hw0]]; [discriminate E | exact (Hno w0 Hw0)].
  - (* TWait *) apply step_TWait in Ha. destruct Ha as (_ & _ & ->). proj_all. discriminate Hp.
Qed.

(* ====================================================================== *)
(* 5. "s' is ahead of s": reached by eager steps, up to [peq]              *)
(* ====================================================================== *)
Inductive ahead (will : list bool) : st -> st -> Prop :=
| ah_base s s' : peq s s' -> ahead will s s'
| ah_step s a s1 s' : eager will s a -> step s a = Some s1 -> ahead will s1 s' -> ahead will s s'.

Lemma ahead_refl will s : ahead will s s.
Proof. apply ah_base. apply peq_refl. Qed.

Lemma ahead_peq_l will s s' : ahead will s s' -> forall s0, peq s0 s -> ahead will s0 s'.
Proof.
  induction 1 as [s s' HP | s a s1 s' He Hs Hah IH]; intros s0 HP0.
  - apply ah_base. eapply peq_trans; eassumption.
  - destruct (transfer will s s0 a s1 (peq_sym _ _ HP0) Hs) as [a' [s01 [Hs0 [_ [HP1 He']]]]].
    apply (ah_step will s0 a' s01 s' (He' He) Hs0). apply IH. apply peq_sym. exact HP1.
Qed.

Lemma ahead_trans will s s' s'' : ahead will s s' -> ahead will s' s'' -> ahead will s s''.
Proof.
  induction 1 as [s s' HP | s a s1 s' He Hs Hah IH]; intros H2.
  - eapply ahead_peq_l; eassumption.
  - apply (ah_step will s a s1 s'' He Hs). apply IH. exact H2.
Qed.

Lemma eager_not_quiescent will s a s1 : eager will s a -> step s a = Some s1 -> quiescent s = false.
Proof.
  intros He Hs. unfold quiescent.
  assert (Hex : existsb (enabled s) (tau_labels s) = true).
  { apply tau_enabled_iff. exists a. split; [eapply eager_vis; eauto | rewrite Hs; discriminate]. }
  rewrite Hex. reflexivity.
Qed.

(* one step of the model against a state that is ahead *)
Lemma path will c s s' : ahead will s s' -> good c s ->
  forall l t, qstep s l = Some t -> wf will t ->
    (vis l = None /\ ahead will t s') \/
    (exists l' t', qstep s' l' = Some t' /\ lkind l' = lkind l /\ ahead will t t' /\
                   (eager will s l -> eager will s' l')).
Proof.
  induction 1 as [s s' HP | s a s1 s' He Hs Hah IH]; intros Hg l t Hq Hwf.
  - right. destruct (qtransfer will s s' l t HP Hq) as [l' [t' [Hq' [Hk [HP' He']]]]].
    exists l', t'. split; [exact Hq'|]. split; [exact Hk|]. split; [apply ah_base; exact HP' | exact He'].
  - destruct (lab_eq_dec l LQuiesce) as [->|Hnq].
    { simpl in Hq. rewrite (eager_not_quiescent will s a s1 He Hs) in Hq. discriminate Hq. }
    rewrite (qstep_step s l Hnq) in Hq.
    assert (Hg1 : good c s1) by (exact (good_step c s a s1 Hg Hs)).
    assert (Hgt : good c t) by (exact (good_step c s l t Hg Hq)).
    destruct (lab_eq_dec l a) as [->|Hne].
    + left. split; [eapply eager_vis; eauto|]. rewrite Hs in Hq. inversion Hq; subst t. exact Hah.
    + destruct (diamond will c s a s1 l t Hg He Hs Hq Hne Hwf) as [u [u' [Hu1 [Hu2 [HPu [Het Hel]]]]]].
      assert (Hwfu : wf will u).
      { apply (wf_peq will u' u HPu). exact (wf_eager will c t a u' Hgt Hwf Het Hu2). }
      assert (Hlift : forall x, ahead will u x -> ahead will t x).
      { intros x Hx. apply (ah_step will t a u' x Het Hu2). eapply ahead_peq_l; [exact Hx | exact HPu]. }
      destruct (IH Hg1 l u (step_qstep _ _ _ Hu1) Hwfu) as [[Hv Hau]|[l' [t' [Hq' [Hk [Hau Hel']]]]]].
      * left. split; [exact Hv | apply Hlift; exact Hau].
      * right. exists l', t'. split; [exact Hq'|]. split; [exact Hk|]. split; [apply Hlift; exact Hau|].
        intros Hx. apply Hel'. apply Hel. exact Hx.
Qed.

(* ====================================================================== *)
(* 6. the matcher's eager closure [settle]                                 *)
(* ====================================================================== *)
Lemma settle_ahead will : forall f s, ahead will s (settle will f s).
Proof.
  induction f as [|f IH]; intros s; simpl; [apply ahead_refl|].
  destruct (safe_tau will s) as [a|] eqn:Ea; [|apply ahead_refl].
  destruct (step s a) as [s1|] eqn:Es; [|apply ahead_refl].
  apply (ah_step will s a s1 _ (safe_tau_eager will s a Ea) Es). apply IH.
Qed.

(* a termination measure for the eager steps *)
Definition srank (p : wpc) : nat :=
  match p with WWrite _ _ _ => 4 | WFetch => 3 | WCheck _ => 2 | WRet _ => 1 | _ => 0 end.
Fixpoint ssum (l : list wpc) : nat := match l with [] => 0 | p :: t => srank p + ssum t end.
Definition smu (s : st) : nat := ssum (ws s) + match pc s with MWait => 1 | _ => 0 end.

Lemma ssum_upd l w p p' : nth_error l w = Some p -> ssum (upd l w p') + srank p = ssum l + srank p'.
Proof.
  revert w; induction l as [|h t IH]; intros [|w] H; simpl in *; try discriminate.
  - inversion H; subst. lia.
  - specialize (IH w H). lia.
Qed.

Lemma ssum_le l : ssum l <= 4 * length l.
Proof. induction l as [|h t IH]; simpl; [lia|]. destruct h; simpl; lia. Qed.

Lemma smu_fuel s : smu s <= settle_fuel s.
Proof. unfold smu, settle_fuel. pose proof (ssum_le (ws s)). destruct (pc s); cbv iota; lia. Qed.

Lemma safe_step_dec will s a : safe_tau will s = Some a -> exists s1, step s a = Some s1 /\ smu s1 < smu s.
Proof.
  unfold safe_tau. destruct (first_safe will s 0 (ws s)) as [x|] eqn:E.
  - intros H. inversion H; subst x. clear H.
    destruct (first_safe_some will s (ws s) 0 a E) as [k [p [Hk Hs]]]. simpl in Hs.
    pose proof (fun p' => ssum_upd (ws s) k p p' Hk) as Hsum.
    destruct p as [|i|i|i|i v r|r|]; simpl in Hs; try discriminate Hs.
    + inversion Hs; subst a. unfold step. rewrite Hk. eexists. split; [reflexivity|].
      unfold smu. proj.
      specialize (Hsum (if next s <? c_n (cfg s) then if use_eg (cfg s) then WCheck (next s) else WCall (next s) else WRet None)).
      destruct (next s <? c_n (cfg s)); [destruct (use_eg (cfg s))|]; simpl in Hsum; lia.
    + destruct (dctx s || nth i will false); [|discriminate Hs]. inversion Hs; subst a.
      unfold step. rewrite Hk. eexists. split; [reflexivity|]. unfold smu, setw, set_ws. proj.
      specialize (Hsum (if dctx s then WRet (Some ECtx) else WCall i)).
      destruct (dctx s); simpl in Hsum; lia.
    + inversion Hs; subst a. unfold step. rewrite Hk. eexists. split; [reflexivity|].
      unfold smu. proj. specialize (Hsum (after_call r)). unfold after_call in *. destruct r; simpl in Hsum; lia.
    + assert (Ha : a = TFinish k).
      { destruct r; [destruct (is_none (errc s)); [discriminate Hs|]|]; inversion Hs; reflexivity. }
      subst a. specialize (Hsum WDone). simpl in Hsum.
      unfold step. rewrite Hk.
      destruct r as [e|]; [destruct (errc s) as [e0|] eqn:Ee; [|simpl in Hs; discriminate Hs]|];
        (eexists; split; [reflexivity|]); unfold smu, setw, set_ws; proj; lia.
  - destruct (pc s) eqn:Ep; try discriminate. destruct (forallb is_done (ws s)) eqn:Ef; [|discriminate].
    intros H. inversion H; subst a. unfold step. rewrite Ep, Ef. eexists. split; [reflexivity|].
    unfold smu. proj. rewrite Ep. lia.
Qed.

Lemma settle_settled will : forall f s, smu s <= f -> safe_tau will (settle will f s) = None.
Proof.
  induction f as [|f IH]; intros s Hle; simpl.
  - destruct (safe_tau will s) as [a|] eqn:Ea; [|reflexivity].
    destruct (safe_step_dec will s a Ea) as [s1 [_ Hlt]]. lia.
  - destruct (safe_tau will s) as [a|] eqn:Ea; [|exact Ea].
    destruct (safe_step_dec will s a Ea) as [s1 [Hs Hlt]]. rewrite Hs. apply IH. lia.
Qed.

Lemma mstep_spec will s l t :
  mstep will s l = Some t ->
  exists t0, qstep s l = Some t0 /\ t = settle will (settle_fuel t0) t0.
Proof.
  unfold mstep. destruct (qstep s l) as [t0|]; [|discriminate]. intros H. inversion H. eauto.
Qed.

Lemma mstep_settled will s l t : mstep will s l = Some t -> safe_tau will t = None.
Proof.
  intros H. destruct (mstep_spec will s l t H) as [t0 [_ ->]]. apply settle_settled. apply smu_fuel.
Qed.

Lemma run_good c : forall ls s t, good c s -> run qstep s ls = Some t -> good c t.
Proof.
  induction ls as [|l ls IH]; intros s t Hg Hr; simpl in Hr.
  - inversion Hr; subst; exact Hg.
  - destruct (qstep s l) as [s1|] eqn:E; [|discriminate]. eapply IH; [eapply good_qstep; eauto | exact Hr].
Qed.

Lemma mstep_good will c s l t : good c s -> mstep will s l = Some t -> good c t.
Proof.
  intros Hg H. destruct (mstep_run will s l t H) as [ls [_ Hr]]. eapply run_good; eauto.
Qed.

(* ====================================================================== *)
(* 7. the simulation: the matcher's state sets contain a state ahead        *)
(* ====================================================================== *)
(* what the simulation needs to know about the run of the model: every ctx.Err() check is taken when
   the reduction would take it, and [wf] holds after every step *)
Fixpoint okrun (will : list bool) (s : st) (ls : list lab) : Prop :=
  match ls with
  | [] => True
  | l :: r =>
      match qstep s l with
      | Some t => (forall w, l = TCheck w -> eager will s l) /\ wf will t /\ okrun will t r
      | None => True
      end
  end.

(* an internal label enabled in a settled state is one of the searched labels *)
Lemma internal_settled will s l t :
  safe_tau will s = None -> step s l = Some t -> vis l = None ->
  (forall w, l = TCheck w -> eager will s l) -> In l (m_labels s).
Proof.
  intros Hs Hl Hv Hchk. unfold m_labels.
  destruct l as [| w i b | w i r v | r o | | | i | | w | w | w | w | | ]; try discriminate Hv.
  - exfalso. apply (settled_no_eager will s (TFetch w) t Hs); [|exact Hl].
    apply step_TFetch in Hl. destruct Hl as [Hw _]. exact Hw.
  - exfalso. apply (settled_no_eager will s (TCheck w) t Hs); [|exact Hl]. apply (Hchk w eq_refl).
  - exfalso. apply (settled_no_eager will s (TWrite w) t Hs); [|exact Hl].
    apply step_TWrite in Hl. destruct Hl as (i & v & r & Hw & _). exists i, v, r. exact Hw.
  - apply in_or_app. left. apply in_map. apply in_seq. split; [lia|]. simpl.
    apply step_TFinish in Hl. destruct Hl as (r & Hw & _). eapply nth_lt; eauto.
  - exfalso. apply (settled_no_eager will s TWait t Hs); [exact I | exact Hl].
  - apply in_or_app. right. left. reflexivity.
Qed.

Section Sim.
  Variable will : list bool.
  Variable c : config.

  Local Notation rsucc_tau := (GoLTS.succ_tau st lab (mstep will) ev vis m_labels).
  Local Notation rsucc_ev := (GoLTS.succ_ev st lab (mstep will) ev vis ev_eqb labels_ev).
  Local Notation rclose := (GoLTS.close (mstep will) vis st_eqb_cfg m_labels 64).
  Local Notation rstates_after :=
    (GoLTS.states_after (mstep will) vis ev_eqb st_eqb_cfg m_labels labels_ev 64).

  Definition red_closed (S : list st) : Prop :=
    forall s s', In s S -> In s' (rsucc_tau s) -> In s' S.

  Fixpoint red_along (ss : list st) (evs : list ev) : Prop :=
    match evs with
    | [] => True
    | e :: evs' =>
        let ss' := rclose (flat_map (rsucc_ev e) ss) in
        red_closed ss' /\ red_along ss' evs'
    end.

  Lemma tau_closedb_red S :
    tau_closedb st lab ev (mstep will) vis st_eqb_cfg m_labels S = true -> red_closed S.
  Proof.
    unfold tau_closedb, red_closed. intros Hb s s' Hs Hs'.
    rewrite forallb_forall in Hb. specialize (Hb s Hs). rewrite forallb_forall in Hb.
    apply (mem_true_iff st st_eqb_cfg pardo_st_eqb_cfg_spec). apply Hb. exact Hs'.
  Qed.

  Lemma closed_alongb_red evs : forall ss,
    closed_alongb st lab ev (mstep will) vis ev_eqb st_eqb_cfg m_labels labels_ev 64 ss evs = true ->
    red_along ss evs.
  Proof.
    induction evs as [|e evs IH]; intros ss Hb; simpl in *; [exact I|].
    apply andb_true_iff in Hb. destruct Hb as [Hb1 Hb2].
    split; [apply tau_closedb_red; exact Hb1 | apply IH; exact Hb2].
  Qed.

  (* the states of the matcher: invariant states in which no eager step is enabled *)
  Definition mst (x : st) : Prop := good c x /\ safe_tau will x = None.

  Lemma mst_mstep s l t : mst s -> mstep will s l = Some t -> mst t.
  Proof.
    intros [Hg _] Hm. split; [eapply mstep_good; eauto | eapply mstep_settled; eauto].
  Qed.

  Lemma mst_succ_tau s s' : mst s -> In s' (rsucc_tau s) -> mst s'.
  Proof.
    intros Hs Hin. destruct (in_succ_tau st lab ev (mstep will) vis m_labels s s' Hin) as [l [_ Hm]].
    eapply mst_mstep; eauto.
  Qed.

  Lemma mst_close ss : (forall x, In x ss -> mst x) -> forall x, In x (rclose ss) -> mst x.
  Proof.
    intros Hss. apply (close_inv st lab ev (mstep will) vis st_eqb_cfg m_labels mst mst_succ_tau 64 ss Hss).
  Qed.

  Lemma mst_succ_ev e ss : (forall x, In x ss -> mst x) ->
    forall x, In x (flat_map (rsucc_ev e) ss) -> mst x.
  Proof.
    intros Hss x Hx. apply in_flat_map in Hx. destruct Hx as [s [Hs Hx]].
    destruct (in_succ_ev st lab ev (mstep will) vis ev_eqb labels_ev pardo_ev_eqb_sound e s x Hx)
      as [l [_ Hm]].
    eapply mst_mstep; [apply Hss; exact Hs | exact Hm].
  Qed.

  Lemma sim ls : forall evs ss s s' sf,
    red_closed ss -> red_along ss evs -> (forall x, In x ss -> mst x) ->
    good c s -> In s' ss -> ahead will s s' ->
    run qstep s ls = Some sf -> okrun will s ls -> pardo_trace ls = evs ->
    rstates_after ss evs <> [].
  Proof.
    unfold pardo_trace.
    induction ls as [|l ls IH]; intros evs ss s s' sf Hc Hal Hms Hg Hin Hah Hr Hok Ht.
    - simpl in Ht. subst evs. simpl. intros E. rewrite E in Hin. destruct Hin.
    - simpl in Hr, Hok. destruct (qstep s l) as [t|] eqn:Hq; [|discriminate Hr].
      destruct Hok as (Hchk & Hwf & Hok).
      assert (Hgt : good c t) by (eapply good_qstep; eauto).
      simpl in Ht.
      destruct (path will c s s' Hah Hg l t Hq Hwf) as [[Hv Hat]|[l' [t' [Hq' [Hk [Hat Hel]]]]]].
      + rewrite Hv in Ht. eapply (IH evs ss t s'); eauto.
      + pose proof (lkind_vis l l' Hk) as Hv'.
        remember (settle will (settle_fuel t') t') as t'' eqn:Et''.
        assert (Hm : mstep will s' l' = Some t'') by (unfold mstep; rewrite Hq'; subst t''; reflexivity).
        assert (Hat' : ahead will t t'').
        { eapply ahead_trans; [exact Hat|]. subst t''. apply settle_ahead. }
        destruct (vis l) as [e|] eqn:Hv.
        * subst evs. simpl in Hal. destruct Hal as [Hc' Hal']. simpl.
          assert (Hin' : In t'' (rclose (flat_map (rsucc_ev e) ss))).
          { apply (close_incl st lab ev (mstep will) vis st_eqb_cfg m_labels pardo_st_eqb_cfg_spec).
            apply in_flat_map. exists s'. split; [exact Hin|].
            unfold GoLTS.succ_ev. apply in_flat_map. exists l'. split.
            - apply pardo_labels_ev_complete; [exact Hv' | rewrite Hq'; discriminate].
            - rewrite Hv', pardo_ev_eqb_refl, Hm. left; reflexivity. }
          eapply (IH _ _ t t''); eauto.
          apply mst_close. apply mst_succ_ev. exact Hms.
        * assert (Hin' : In t'' ss).
          { apply (Hc s' t'' Hin).
            apply (succ_tau_complete st lab ev (mstep will) vis m_labels s' l' t''); [|exact Hv'|exact Hm].
            destruct (Hms s' Hin) as [_ Hset].
            rewrite (qstep_tau s' l' Hv') in Hq'.
            apply (internal_settled will s' l' t' Hset Hq' Hv').
            intros w' Hl'. apply Hel.
            assert (Hl : exists w, l = TCheck w).
            { subst l'. destruct l; simpl in Hk; try discriminate Hk. eauto. }
            destruct Hl as [w Hl]. exact (Hchk w Hl). }
          eapply (IH evs ss t t''); eauto.
  Qed.
End Sim.

(* ====================================================================== *)
(* 8. completeness of the shipped matcher, for runs satisfying [okrun]     *)
(* ====================================================================== *)
Definition pardo_converged (c : config) (gated : list bool) (evs : list ev) : bool :=
  convergedb st lab ev (mstep (will_of (c_n c) evs)) vis ev_eqb st_eqb m_labels labels_ev 64
             (init c gated) evs.

Lemma run_cfg : forall ls s t, run qstep s ls = Some t -> cfg t = cfg s.
Proof.
  induction ls as [|l ls IH]; intros s t Hr; simpl in Hr.
  - inversion Hr; reflexivity.
  - destruct (qstep s l) as [s1|] eqn:E; [|discriminate].
    rewrite (IH s1 t Hr). eapply pardo_qstep_cfg; eauto.
Qed.

Lemma cfg_inv_mstep will c (s : st) (l : lab) (s' : st) :
  cfg s = c -> mstep will s l = Some s' -> cfg s' = c.
Proof.
  intros Hc Hm. destruct (mstep_run will s l s' Hm) as [ls [_ Hr]].
  rewrite (run_cfg _ _ _ Hr). exact Hc.
Qed.

Lemma init_settled will c gated : safe_tau will (init c gated) = None.
Proof. reflexivity. Qed.

Theorem complete_okrun will c gated evs ls s :
  convergedb st lab ev (mstep will) vis ev_eqb st_eqb m_labels labels_ev 64 (init c gated) evs = true ->
  run qstep (init c gated) ls = Some s -> okrun will (init c gated) ls -> pardo_trace ls = evs ->
  accepts (mstep will) vis ev_eqb st_eqb m_labels labels_ev 64 (init c gated) evs = true.
Proof.
  intros Hconv Hr Hok Ht.
  rewrite (CondMatcher.convergedb_ext st lab ev (mstep will) vis ev_eqb ev_eqb st_eqb st_eqb_cfg
             m_labels labels_ev (fun s => cfg s = c)
             (cfg_inv_mstep will c) (st_eqb_cfg_agree c) (fun _ _ _ _ => eq_refl) 64 (init c gated) evs
             eq_refl) in Hconv.
  rewrite (CondMatcher.accepts_ext st lab ev (mstep will) vis ev_eqb ev_eqb st_eqb st_eqb_cfg
             m_labels labels_ev (fun s => cfg s = c)
             (cfg_inv_mstep will c) (st_eqb_cfg_agree c) (fun _ _ _ _ => eq_refl) 64 (init c gated) evs
             eq_refl).
  unfold convergedb in Hconv. apply andb_true_iff in Hconv. destruct Hconv as [Hb1 Hb2].
  unfold GoLTS.accepts.
  rewrite (first_reject_complete st lab ev (mstep will) vis ev_eqb st_eqb_cfg m_labels labels_ev
             64 evs (close (mstep will) vis st_eqb_cfg m_labels 64 [init c gated]) 0); [reflexivity|].
  apply (sim will c ls evs _ (init c gated) (init c gated) s).
  - apply tau_closedb_red. exact Hb1.
  - apply closed_alongb_red. exact Hb2.
  - apply mst_close. intros x [<-|[]]. split; [apply good_init | apply init_settled].
  - apply good_init.
  - apply close_init.
  - apply ahead_refl.
  - exact Hr.
  - exact Hok.
  - exact Ht.
Qed.

(* ====================================================================== *)
(* 9. the hint [will_of]                                                   *)
(* ====================================================================== *)
Lemma nth_upd_true (l : list bool) : forall i j, nth j (upd l i true) false = true -> j = i \/ nth j l false = true.
Proof.
  induction l as [|h t IH]; intros [|i] [|j] H; simpl in *; auto.
  destruct (IH i j H) as [->|H']; auto.
Qed.

Lemma nth_upd_true_intro (l : list bool) : forall i j,
  (j = i /\ i < length l) \/ nth j l false = true -> nth j (upd l i true) false = true.
Proof.
  induction l as [|h t IH]; intros i j H.
  - destruct H as [[_ H]|H]; [simpl in H; lia | destruct j; simpl in H; discriminate H].
  - destruct i as [|i], j as [|j]; simpl in *.
    + reflexivity.
    + destruct H as [[H _]|H]; [discriminate H | exact H].
    + destruct H as [[H _]|H]; [discriminate H | exact H].
    + apply IH. destruct H as [[H1 H2]|H]; [left; split; lia | right; exact H].
Qed.

Lemma will_of_length n evs : length (will_of n evs) = n.
Proof.
  induction evs as [|e evs IH]; simpl; [apply repeat_length|].
  destruct e; try exact IH. rewrite upd_length. exact IH.
Qed.

Lemma nth_repeat_false n i : nth i (repeat false n) false = false.
Proof. revert i; induction n as [|n IH]; intros [|i]; simpl; auto. Qed.

Lemma will_of_true n evs i : nth i (will_of n evs) false = true -> exists b, In (EEnter i b) evs.
Proof.
  induction evs as [|e evs IH]; simpl; intros H.
  - rewrite nth_repeat_false in H. discriminate H.
  - destruct e as [|j b|j r v|r o| | |j|];
      try (destruct (IH H) as [b' Hb]; exists b'; right; exact Hb).
    destruct (nth_upd_true _ _ _ H) as [->|H'].
    + exists b. left. reflexivity.
    + destruct (IH H') as [b' Hb]. exists b'. right. exact Hb.
Qed.

Lemma will_of_intro n evs i b : In (EEnter i b) evs -> i < n -> nth i (will_of n evs) false = true.
Proof.
  induction evs as [|e evs IH]; simpl; intros Hin Hlt; [destruct Hin|].
  destruct Hin as [->|Hin].
  - apply nth_upd_true_intro. left. split; [reflexivity | rewrite will_of_length; exact Hlt].
  - destruct e; try (apply IH; assumption).
    apply nth_upd_true_intro. right. apply IH; assumption.
Qed.

(* ====================================================================== *)
(* 10. an index whose check has not happened when the context is Done is never entered *)
(* ====================================================================== *)
Definition dead (i : nat) (s : st) : Prop :=
  dctx s = true /\ use_eg (cfg s) = true /\ forall w, nth_error (ws s) w <> Some (WCall i).

Lemma dead_step i s l t : dead i s -> qstep s l = Some t ->
  dead i t /\ forall b, vis l <> Some (EEnter i b).
Proof.
  intros (Hd & Hu & Hno) H.
  assert (Hupd : forall w p', p' <> WCall i -> forall w0, nth_error (upd (ws s) w p') w0 <> Some (WCall i)).
  { intros w p' Hp' w0 Hw0. apply nth_upd_inv in Hw0. destruct Hw0 as [[_ E]|[_ Hw0]]; [congruence | exact (Hno w0 Hw0)]. }
  destruct l as [| w j b | w j r v | r o | | | j | | w | w | w | w | | ]; simpl qstep in H.
  - apply step_LCall in H. destruct H as [_ ->]. split; [|discriminate]. repeat split; proj; auto.
    intros w Hw. apply nth_repeat in Hw. discriminate Hw.
  - apply step_LEnter in H. destruct H as (Hw & _ & ->). split.
    + repeat split; proj; auto. apply Hupd. discriminate.
    + intros b0 E. simpl in E. inversion E; subst j. exact (Hno w Hw).
  - apply step_LExit in H. destruct H as (Hw & _ & _ & _ & ->). split; [|discriminate].
    repeat split; proj; auto. apply Hupd. destruct (c_map (cfg s)); [discriminate | destruct r; discriminate].
  - apply step_LRet in H. destruct H as (_ & _ & ->). split; [|discriminate]. repeat split; proj; auto.
  - apply step_LCancel in H. subst t. split; [|discriminate]. repeat split; proj; auto.
  - apply step_LCancelDone in H. destruct H as [_ ->]. split; [|discriminate]. repeat split; auto.
  - apply step_LRelease in H. subst t. split; [|discriminate]. repeat split; proj; auto.
  - apply qstep_LQuiesce in H. subst t. split; [|discriminate]. repeat split; auto.
  - apply step_TFetch in H. destruct H as (Hw & ->). split; [|discriminate]. repeat split; proj; auto.
    apply Hupd. rewrite Hu. destruct (next s <? c_n (cfg s)); discriminate.
  - apply step_TCheck in H. destruct H as (j & Hw & ->). split; [|discriminate].
    unfold setw, set_ws. repeat split; proj; auto. apply Hupd. rewrite Hd. discriminate.
  - apply step_TWrite in H. destruct H as (j & v & r & Hw & ->). split; [|discriminate].
    repeat split; proj; auto. apply Hupd. destruct r; discriminate.
  - apply step_TFinish in H. destruct H as (r & Hw & [(e & _ & _ & ->)|(_ & ->)]); (split; [|discriminate]);
      unfold setw, set_ws; repeat split; proj; auto; try (apply Hupd; discriminate).
    rewrite Hd. reflexivity.
  - apply step_TWait in H. destruct H as (_ & _ & ->). split; [|discriminate]. repeat split; proj; auto.
    rewrite Hd. reflexivity.
  - apply step_TCancelEff in H. destruct H as (_ & ->). split; [|discriminate]. repeat split; proj; auto.
    rewrite Hd. reflexivity.
Qed.

Lemma never_enter i : forall ls s sf, dead i s -> run qstep s ls = Some sf ->
  forall b, ~ In (EEnter i b) (pardo_trace ls).
Proof.
  unfold pardo_trace.
  induction ls as [|l ls IH]; intros s sf Hd Hr b Hin; simpl in Hr, Hin; [exact Hin|].
  destruct (qstep s l) as [t|] eqn:Hq; [|discriminate Hr].
  destruct (dead_step i s l t Hd Hq) as [Hd' Hv].
  destruct (vis l) as [e|] eqn:Ev.
  - destruct Hin as [->|Hin]; [exact (Hv b eq_refl) | exact (IH t sf Hd' Hr b Hin)].
  - exact (IH t sf Hd' Hr b Hin).
Qed.

Lemma enter_started s l t : qstep s l = Some t ->
  (forall i, In i (started s) -> In i (started t)) /\
  (forall i b, vis l = Some (EEnter i b) -> In i (started t)).
Proof.
  intros H.
  destruct l as [| w j b | w j r v | r o | | | j | | w | w | w | w | | ]; simpl qstep in H.
  - apply step_LCall in H. destruct H as [_ ->]. split; [auto | discriminate].
  - apply step_LEnter in H. destruct H as (_ & _ & ->). proj. split.
    + intros i Hi. apply in_or_app. left. exact Hi.
    + intros i b0 E. simpl in E. inversion E; subst. apply in_or_app. right. left. reflexivity.
  - apply step_LExit in H. destruct H as (_ & _ & _ & _ & ->). split; [auto | discriminate].
  - apply step_LRet in H. destruct H as (_ & _ & ->). split; [auto | discriminate].
  - apply step_LCancel in H. subst t. split; [auto | discriminate].
  - apply step_LCancelDone in H. destruct H as [_ ->]. split; [auto | discriminate].
  - apply step_LRelease in H. subst t. split; [auto | discriminate].
  - apply qstep_LQuiesce in H. subst t. split; [auto | discriminate].
  - apply step_TFetch in H. destruct H as (_ & ->). split; [auto | discriminate].
  - apply step_TCheck in H. destruct H as (j & _ & ->). split; [auto | discriminate].
  - apply step_TWrite in H. destruct H as (j & v & r & _ & ->). split; [auto | discriminate].
  - apply step_TFinish in H. destruct H as (r & _ & [(e & _ & _ & ->)|(_ & ->)]); (split; [auto | discriminate]).
  - apply step_TWait in H. destruct H as (_ & _ & ->). split; [auto | discriminate].
  - apply step_TCancelEff in H. destruct H as (_ & ->). split; [auto | discriminate].
Qed.

(* [wf] holds along every run whose remaining trace enters every hinted index not yet started *)
Fixpoint wf_run (will : list bool) (s : st) (ls : list lab) : Prop :=
  match ls with
  | [] => True
  | l :: r => match qstep s l with Some t => wf will t /\ wf_run will t r | None => True end
  end.

Lemma wf_of_future will c s ls sf :
  good c s -> run qstep s ls = Some sf ->
  (forall i, nth i will false = true -> In i (started s) \/ exists b, In (EEnter i b) (pardo_trace ls)) ->
  wf will s.
Proof.
  intros [HA HB] Hr Hfut i Hi Hd Hu Hp.
  assert (Hkey : (forall w, nth_error (ws s) w <> Some (WCall i)) -> In i (started s)).
  { intros Hno. destruct (Hfut i Hi) as [H|[b Hb]]; [exact H|]. exfalso.
    apply (never_enter i ls s sf (conj Hd (conj Hu Hno)) Hr b Hb). }
  split.
  - destruct (lt_dec i (next s)) as [Hlt|Hge]; [exact Hlt|]. exfalso.
    assert (Hin : In i (started s)).
    { apply Hkey. intros w Hw. destruct (A_own s HA w _ i Hw eq_refl) as [Ho _].
      apply nth_lt in Ho. rewrite <- (A_next s HA) in Ho. lia. }
    destruct (A_st_lt s HA i Hin) as [Hlt _]. lia.
  - intros w Hw.
    assert (Hin : In i (started s)).
    { apply Hkey. intros w' Hw'. pose proof (A_unique s w w' _ _ i HA Hw Hw' eq_refl eq_refl) as E.
      subst w'. rewrite Hw in Hw'. discriminate Hw'. }
    exact (A_held s HA w _ i Hw eq_refl Hin).
Qed.

Lemma wf_run_of_trace will c : forall ls s sf,
  good c s -> run qstep s ls = Some sf ->
  (forall i, nth i will false = true -> In i (started s) \/ exists b, In (EEnter i b) (pardo_trace ls)) ->
  wf_run will s ls.
Proof.
  unfold pardo_trace.
  induction ls as [|l ls IH]; intros s sf Hg Hr Hfut; simpl; [exact I|].
  simpl in Hr. destruct (qstep s l) as [t|] eqn:Hq; [|exact I].
  assert (Hgt : good c t) by (eapply good_qstep; eauto).
  destruct (enter_started s l t Hq) as [Hmono Hent].
  assert (Hfut' : forall i, nth i will false = true ->
                    In i (started t) \/ exists b, In (EEnter i b) (trace lab ev vis ls)).
  { intros i Hi. destruct (Hfut i Hi) as [H|[b Hb]]; [left; apply Hmono; exact H|].
    simpl in Hb. destruct (vis l) as [e|] eqn:Ev; [|right; exists b; exact Hb].
    destruct Hb as [->|Hb]; [left; apply (Hent i b eq_refl) | right; exists b; exact Hb]. }
  split.
  - apply (wf_of_future will c t ls sf Hgt Hr Hfut').
  - apply (IH t sf Hgt Hr Hfut').
Qed.

(* ====================================================================== *)
(* 11. checks that the reduction never takes can be dropped from a run     *)
(* ====================================================================== *)
(* A ctx.Err() check of an index that is never entered, taken while the context is still live, leaves
   its worker in front of a call of f that never begins: the worker takes no further step.  The same
   history is produced by the run in which that check is not taken at all. *)
Definition zrel (will : list bool) (p q : wpc) : Prop :=
  p = q \/ exists i, p = WCall i /\ q = WCheck i /\ nth i will false = false.

Definition zsim_st (will : list bool) (s z : st) : Prop :=
  exists wz, z = set_ws s wz /\ Forall2 (zrel will) (ws s) wz.

Lemma forall2_nth {A B} (R : A -> B -> Prop) l l' : Forall2 R l l' ->
  forall w p, nth_error l w = Some p -> exists q, nth_error l' w = Some q /\ R p q.
Proof.
  induction 1 as [|x y l l' Hxy HF IH]; intros [|w] p Hw; simpl in Hw; try discriminate Hw.
  - inversion Hw; subst. exists y. split; [reflexivity | exact Hxy].
  - exact (IH w p Hw).
Qed.

Lemma forall2_upd {A B} (R : A -> B -> Prop) l l' : Forall2 R l l' ->
  forall w p q, R p q -> Forall2 R (upd l w p) (upd l' w q).
Proof.
  induction 1 as [|x y l l' Hxy HF IH]; intros [|w] p q Hpq; simpl; constructor; auto.
Qed.

Lemma upd_self {A} (l : list A) : forall w q, nth_error l w = Some q -> upd l w q = l.
Proof.
  induction l as [|h t IH]; intros [|w] q Hw; simpl in *; try discriminate Hw.
  - inversion Hw; reflexivity.
  - rewrite (IH w q Hw). reflexivity.
Qed.

Lemma forall2_upd_l {A B} (R : A -> B -> Prop) l l' w p q :
  Forall2 R l l' -> nth_error l' w = Some q -> R p q -> Forall2 R (upd l w p) l'.
Proof.
  intros HF Hq Hpq. rewrite <- (upd_self l' w q Hq). apply forall2_upd; assumption.
Qed.

Lemma forall2_zrel_refl will l : Forall2 (zrel will) l l.
Proof. induction l; constructor; [left; reflexivity | assumption]. Qed.

Lemma zrel_done will l l' : Forall2 (zrel will) l l' -> forallb is_done l = true -> forallb is_done l' = true.
Proof.
  induction 1 as [|x y l l' Hxy HF IH]; simpl; [reflexivity|].
  intros H. apply andb_true_iff in H. destruct H as [H1 H2]. rewrite (IH H2), andb_true_r.
  destruct Hxy as [<-|[i [-> _]]]; [exact H1 | discriminate H1].
Qed.

Lemma zrel_nocall will l l' : Forall2 (zrel will) l l' ->
  (forall w i, nth_error l w <> Some (WCall i)) -> l' = l.
Proof.
  induction 1 as [|x y l l' Hxy HF IH]; intros Hno; [reflexivity|].
  rewrite IH; [|intros w i; exact (Hno (S w) i)].
  destruct Hxy as [<-|[i [-> _]]]; [reflexivity|]. exfalso. exact (Hno 0 i eq_refl).
Qed.

Lemma quiescent_nocall s : quiescent s = true -> forall w i, nth_error (ws s) w <> Some (WCall i).
Proof.
  unfold quiescent, lib_visible_enabled. intros H w i Hw.
  apply andb_true_iff in H. destruct H as [_ H]. apply negb_true_iff in H.
  apply orb_false_iff in H. destruct H as [H _].
  assert (Hex : existsb (fun p => match p with WCall _ => true | WIn i0 => gate_open s i0 | _ => false end) (ws s) = true).
  { apply existsb_exists. exists (WCall i). split; [eapply nth_error_In; eauto | reflexivity]. }
  congruence.
Qed.

Ltac z_start H HF w :=
  unfold qstep, step, gate_open in H; proj_in H;
  let p := fresh "p" in let Hw := fresh "Hw" in
  destruct (nth_error _ w) as [p|] eqn:Hw; [|discriminate H];
  let q := fresh "q" in let Hq := fresh "Hq" in let Hrel := fresh "Hrel" in
  destruct (forall2_nth _ _ _ HF w p Hw) as [q [Hq Hrel]];
  destruct p; try discriminate H; top_destruct H; inversion H; subst; clear H.

Ltac z_same Hrel := destruct Hrel as [<-|[? [Hrel _]]]; [|discriminate Hrel].

Ltac z_step Hq := unfold qstep, step, gate_open, set_ws; proj; rewrite Hq; use_eqns; reflexivity.

Ltac z_rel HF := eexists; split; [unfold set_ws; proj; reflexivity | proj; apply (forall2_upd _ _ _ HF); left; reflexivity].

Lemma zsim will s z l t :
  zsim_st will s z -> qstep s l = Some t ->
  (forall w i b, l = LEnter w i b -> nth i will false = true) ->
  (zsim_st will t z /\ vis l = None) \/
  (exists tz, qstep z l = Some tz /\ zsim_st will t tz /\ (forall w, l = TCheck w -> eager will z l)).
Proof.
  intros [wz [-> HF]] H Hent.
  destruct s as [cf p0 wl nx cc dc ec ou go ow sa fi cs]. unfold set_ws. proj_all.
  destruct l as [| w i b | w i r v | r o | | | i | | w | w | w | w | | ].
  - (* LCall *) right. unfold qstep, step in H |- *. proj_all. top_destruct H. inversion H; subst; clear H.
    eexists. split; [reflexivity|]. split; [|intros; discriminate].
    eexists. split; [unfold set_ws; proj; reflexivity | proj; apply forall2_zrel_refl].
  - (* LEnter *) specialize (Hent w i b eq_refl). z_start H HF w. right.
    match goal with E : (i =? ?j) && _ = true |- _ =>
      let E1 := fresh in pose proof E as E1; apply andb_true_iff in E1; destruct E1 as [E1 _];
      apply Nat.eqb_eq in E1; subst j end.
    destruct Hrel as [<-|[j [Ej [_ Hwill]]]]; [|inversion Ej; subst j; congruence].
    eexists. split; [z_step Hq|]. split; [z_rel HF | intros; discriminate].
  - (* LExit *) z_start H HF w. z_same Hrel. right.
    eexists. split; [z_step Hq|]. split; [z_rel HF | intros; discriminate].
  - (* LRet *) right. unfold qstep, step, ret_out in H |- *. proj_all. top_destruct H. inversion H; subst; clear H.
    eexists. split; [use_eqns; reflexivity|]. split; [|intros; discriminate].
    eexists. split; [unfold set_ws; proj; reflexivity | proj; exact HF].
  - (* LCancel *) right. unfold qstep, step in H |- *. proj_all. inversion H; subst; clear H.
    eexists. split; [reflexivity|]. split; [|intros; discriminate].
    eexists. split; [unfold set_ws; proj; reflexivity | proj; exact HF].
  - (* LCancelDone *) right. unfold qstep, step in H |- *. proj_all. top_destruct H. inversion H; subst; clear H.
    eexists. split; [reflexivity|]. split; [|intros; discriminate].
    eexists. split; [unfold set_ws; proj; reflexivity | proj; exact HF].
  - (* LRelease *) right. unfold qstep, step in H |- *. proj_all. inversion H; subst; clear H.
    eexists. split; [reflexivity|]. split; [|intros; discriminate].
    eexists. split; [unfold set_ws; proj; reflexivity | proj; exact HF].
  - (* LQuiesce *) right. simpl in H. destruct (quiescent _) eqn:Eq; [|discriminate H]. inversion H; subst t; clear H.
    pose proof (zrel_nocall will wl wz HF (quiescent_nocall _ Eq)) as E. proj_in E. subst wz.
    eexists. split; [simpl; rewrite Eq; reflexivity|]. split; [|intros; discriminate].
    eexists. split; [unfold set_ws; proj; reflexivity | proj; exact HF].
  - (* TFetch *) z_start H HF w. z_same Hrel. right.
    eexists. split; [z_step Hq|]. split; [z_rel HF | intros; discriminate].
  - (* TCheck *) z_start H HF w. z_same Hrel.
    destruct (dc || nth i will false) eqn:Ec.
    + right. eexists. split; [z_step Hq|]. split; [unfold setw; z_rel HF|].
      intros w0 E. inversion E; subst w0. simpl. exists i. split; [exact Hq | exact Ec].
    + left. apply orb_false_iff in Ec. destruct Ec as [-> Ew]. split; [|reflexivity].
      exists wz. split; [reflexivity|]. unfold setw, set_ws. proj.
      apply (forall2_upd_l _ _ _ w _ (WCheck i) HF Hq). right. exists i. auto.
  - (* TWrite *) z_start H HF w. z_same Hrel. right.
    eexists. split; [z_step Hq|]. split; [z_rel HF | intros; discriminate].
  - (* TFinish *) z_start H HF w; z_same Hrel; right.
    all: eexists; (split; [z_step Hq|]); (split; [unfold setw; z_rel HF | intros; discriminate]).
  - (* TWait *) right. unfold qstep, step in H |- *. proj_all. top_destruct H. inversion H; subst; clear H.
    rewrite (zrel_done will wl wz HF) by assumption.
    eexists. split; [reflexivity|]. split; [|intros; discriminate].
    eexists. split; [unfold set_ws; proj; reflexivity | proj; exact HF].
  - (* TCancelEff *) right. unfold qstep, step in H |- *. proj_all. top_destruct H. inversion H; subst; clear H.
    eexists. split; [reflexivity|]. split; [|intros; discriminate].
    eexists. split; [unfold set_ws; proj; reflexivity | proj; exact HF].
Qed.

Fixpoint legit_run (will : list bool) (s : st) (ls : list lab) : Prop :=
  match ls with
  | [] => True
  | l :: r =>
      match qstep s l with
      | Some t => (forall w, l = TCheck w -> eager will s l) /\ legit_run will t r
      | None => True
      end
  end.

Lemma zrun will c : forall ls s z sf,
  good c s -> zsim_st will s z -> run qstep s ls = Some sf ->
  (forall i b, In (EEnter i b) (pardo_trace ls) -> i < c_n c -> nth i will false = true) ->
  exists ls2 zf, run qstep z ls2 = Some zf /\ pardo_trace ls2 = pardo_trace ls /\ legit_run will z ls2.
Proof.
  unfold pardo_trace.
  induction ls as [|l ls IH]; intros s z sf Hg HZ Hr Hwill.
  - exists [], z. split; [reflexivity|]. split; [reflexivity | exact I].
  - simpl in Hr. destruct (qstep s l) as [t|] eqn:Hq; [|discriminate Hr].
    assert (Hgt : good c t) by (eapply good_qstep; eauto).
    assert (Hwill' : forall i b, In (EEnter i b) (trace lab ev vis ls) -> i < c_n c -> nth i will false = true).
    { intros i b Hin Hlt. apply (Hwill i b); [|exact Hlt]. simpl. destruct (vis l); [right|]; exact Hin. }
    assert (Hent : forall w i b, l = LEnter w i b -> nth i will false = true).
    { intros w i b ->. apply (Hwill i b); [simpl; left; reflexivity|].
      simpl in Hq. apply step_LEnter in Hq. destruct Hq as (Hw & _).
      destruct Hg as [HA HB]. destruct (A_own s HA w _ i Hw eq_refl) as [_ Hlt].
      rewrite (B_cfg c s HB) in Hlt. exact Hlt. }
    destruct (zsim will s z l t HZ Hq Hent) as [[HZ' Hv]|[tz [Hqz [HZ' Hleg]]]].
    + destruct (IH t z sf Hgt HZ' Hr Hwill') as [ls2 [zf [Hr2 [Ht2 Hl2]]]].
      exists ls2, zf. split; [exact Hr2|]. split; [|exact Hl2]. simpl. rewrite Hv. exact Ht2.
    + destruct (IH t tz sf Hgt HZ' Hr Hwill') as [ls2 [zf [Hr2 [Ht2 Hl2]]]].
      exists (l :: ls2), zf. split; [simpl; rewrite Hqz; exact Hr2|]. split.
      * simpl. rewrite Ht2. reflexivity.
      * simpl. rewrite Hqz. split; assumption.
Qed.

Lemma okrun_intro will : forall ls s, legit_run will s ls -> wf_run will s ls -> okrun will s ls.
Proof.
  induction ls as [|l ls IH]; intros s Hl Hw; simpl in *; [exact I|].
  destruct (qstep s l) as [t|]; [|exact I].
  destruct Hl as [Hl1 Hl2]. destruct Hw as [Hw1 Hw2]. split; [exact Hl1|]. split; [exact Hw1 | apply IH; assumption].
Qed.

(* ====================================================================== *)
(* 12. COMPLETENESS of the shipped matcher                                 *)
(* ====================================================================== *)
(* every run of the model can be replaced by one the simulation applies to, with the same history *)
Lemma normalise_run c gated ls s :
  run qstep (init c gated) ls = Some s ->
  exists ls2 s2, run qstep (init c gated) ls2 = Some s2 /\ pardo_trace ls2 = pardo_trace ls /\
                 okrun (will_of (c_n c) (pardo_trace ls)) (init c gated) ls2.
Proof.
  intros Hr. set (will := will_of (c_n c) (pardo_trace ls)).
  destruct (zrun will c ls (init c gated) (init c gated) s (good_init c gated)) as [ls2 [s2 [Hr2 [Ht2 Hl2]]]].
  - exists (ws (init c gated)). split; [reflexivity | apply forall2_zrel_refl].
  - exact Hr.
  - intros i b Hin Hlt. unfold will. eapply will_of_intro; eauto.
  - exists ls2, s2. split; [exact Hr2|]. split; [exact Ht2|]. apply okrun_intro; [exact Hl2|].
    apply (wf_run_of_trace will c ls2 (init c gated) s2 (good_init c gated) Hr2).
    intros i Hi. right. rewrite Ht2. unfold will in Hi. exact (will_of_true _ _ _ Hi).
Qed.

(* COMPLETENESS of the shipped (reduced, hinted) matcher *)
Theorem pardo_accepts_complete c gated evs ls s :
  pardo_converged c gated evs = true ->
  run qstep (init c gated) ls = Some s -> pardo_trace ls = evs ->
  accepts_history c gated evs = true.
Proof.
  intros Hconv Hr Ht. destruct (normalise_run c gated ls s Hr) as [ls2 [s2 [Hr2 [Ht2 Hok]]]].
  rewrite Ht in Ht2, Hok. unfold accepts_history.
  exact (complete_okrun (will_of (c_n c) evs) c gated evs ls2 s2 Hconv Hr2 Hok Ht2).
Qed.

Theorem pardo_reject_genuine c gated evs :
  pardo_converged c gated evs = true -> accepts_history c gated evs = false ->
  forall ls s, run qstep (init c gated) ls = Some s -> pardo_trace ls <> evs.
Proof.
  intros Hc Hacc ls s Hr Ht.
  rewrite (pardo_accepts_complete c gated evs ls s Hc Hr Ht) in Hacc. discriminate.
Qed.

Theorem pardo_accepts_iff c gated evs :
  pardo_converged c gated evs = true ->
  (accepts_history c gated evs = true <->
   exists ls s, run qstep (init c gated) ls = Some s /\ pardo_trace ls = evs).
Proof.
  intros Hc. split.
  - apply pardo_accepts_sound.
  - intros [ls [s [Hr Ht]]]. eapply pardo_accepts_complete; eassumption.
Qed.


(* the two matchers agree wherever both converged *)
Theorem pardo_reduced_eq_full c gated evs :
  pardo_converged c gated evs = true -> pardo_full_converged c gated evs = true ->
  accepts_history c gated evs = accepts_history_full c gated evs.
Proof.
  intros Hc Hf. destruct (accepts_history_full c gated evs) eqn:Ef.
  - destruct (pardo_full_sound c gated evs Ef) as [ls [s [Hr Ht]]].
    eapply pardo_accepts_complete; eassumption.
  - destruct (accepts_history c gated evs) eqn:Ea; [|reflexivity].
    rewrite (pardo_reduced_le_full c gated evs Hf Ea) in Ef. discriminate Ef.
Qed.

(* ====================================================================== *)
(* 13. non-vacuity                                                         *)
(* ====================================================================== *)
(* the accepted history of ParDoMatcher.v: the closures of the shipped matcher converged *)
Example ex_hist_converged :
  accepts_history ex_cfg_err [] ex_hist = true /\ pardo_converged ex_cfg_err [] ex_hist = true.
Proof. vm_compute. split; reflexivity. Qed.

(* the rejection of [ex_bad] by the SHIPPED matcher is genuine *)
Example ex_bad_converged :
  accepts_history ex_cfg_err [] ex_bad = false /\ pardo_converged ex_cfg_err [] ex_bad = true.
Proof. vm_compute. split; reflexivity. Qed.

Example ex_no_run_shipped :
  forall ls s, run qstep (init ex_cfg_err []) ls = Some s -> pardo_trace ls <> ex_bad.
Proof.
  apply pardo_reject_genuine; [exact (proj2 ex_bad_converged) | exact (proj1 ex_bad_converged)].
Qed.

(* a run the reduction never explores: worker 1 (not the lowest ready worker) is handed index 0 and
   later index 1, worker 0 has not even fetched; at the end worker 1 checks index 2, which is never
   entered, on a live context (a check the matcher refuses to take).  Completeness applies. *)
Definition ex_run_odd : list lab :=
  [LCall; TFetch 1; TCheck 1; LEnter 1 0 false; LExit 1 0 None 0%Z; TFetch 1; TCheck 1; LEnter 1 1 false;
   LExit 1 1 None 0%Z; TFetch 1; TCheck 1].
Definition ex_hist_odd : list ev :=
  [ECall; EEnter 0 false; EExit 0 None 0%Z; EEnter 1 false; EExit 1 None 0%Z].

Example ex_odd_runs :
  (exists s, run qstep (init ex_cfg_err []) ex_run_odd = Some s) /\ pardo_trace ex_run_odd = ex_hist_odd.
Proof.
  split; [|reflexivity].
  destruct (run qstep (init ex_cfg_err []) ex_run_odd) as [s|] eqn:E; [eauto | vm_compute in E; discriminate E].
Qed.

Example ex_odd_accepted : accepts_history ex_cfg_err [] ex_hist_odd = true.
Proof.
  destruct ex_odd_runs as [[s Hr] Ht].
  apply (pardo_accepts_complete ex_cfg_err [] ex_hist_odd ex_run_odd s); [|exact Hr|exact Ht].
  vm_compute. reflexivity.
Qed.

(* the hypotheses of the commutation lemma are satisfiable, and the worker symmetry is really needed:
   two AddInt32 steps commute only up to the identity of the workers *)
Example ex_diamond_fetch :
  exists s s1 t u u', reachable qstep (init ex_cfg_err []) s /\
    step s (TFetch 0) = Some s1 /\ step s (TFetch 1) = Some t /\
    step s1 (TFetch 1) = Some u /\ step t (TFetch 0) = Some u' /\ peq u' u /\ ws u' <> ws u.
Proof.
  destruct (run qstep (init ex_cfg_err []) [LCall]) as [s|] eqn:E; [|vm_compute in E; discriminate E].
  assert (Hre : reachable qstep (init ex_cfg_err []) s) by (eexists; exact E).
  vm_compute in E. inversion E; subst s.
  do 5 eexists. split; [exact Hre|].
  split; [vm_compute; reflexivity|]. split; [vm_compute; reflexivity|].
  split; [vm_compute; reflexivity|]. split; [vm_compute; reflexivity|].
  split; [|vm_compute; discriminate].
  constructor; try reflexivity. simpl. apply perm_swap.
Qed.

Print Assumptions transfer.
Print Assumptions diamond.
Print Assumptions path.
Print Assumptions settle_settled.
Print Assumptions normalise_run.
Print Assumptions pardo_accepts_complete.
Print Assumptions pardo_reject_genuine.
Print Assumptions pardo_accepts_iff.
Print Assumptions pardo_reduced_eq_full.
