(* C10 — the history matcher of Conc/Pipe.v (stream.Pipe) is certified.

   [Pipe.accepts_history n nt nc evs] is the generic matcher [GoLTS.accepts] run on
   [qstep], [vis], [lab_eqb], [st_eqb], [tau_labels], [fun _ e => [e]] with fuel 64.  This file
   discharges the hypotheses of the generic soundness / completeness theorems of GoLTSProofs.v
   for these functions and instantiates them:
     - soundness (unconditional): an accepted history is the visible trace of a run of [qstep];
     - completeness (when the closures converged within the fuel, [pipe_converged], an
       executable test): a rejected history is the trace of no run.

   Two of the generic hypotheses do not hold literally for the shipped tests and are handled by
   the extensionality theorems of CondMatcher.v (part 1):
     - [st_eqb] compares every field except the constant [cap]; it decides equality on states of
       equal capacity ([pipe_st_eqb_spec]), [qstep] never changes [cap] ([pipe_qstep_cap]), so
       on the states the matcher ever sees it agrees with the exact test
       [st_eqb a b && (cap a =? cap b)];
     - events are labels and [lab_eqb] is [false] on internal labels, which are never events.
   Stdlib only, no axioms. *)
From Juniper Require Import Common.Base Conc.GoLTS Conc.GoLTSProofs Conc.Pipe.
From Juniper Require Conc.CondMatcher.
From Coq Require Import Arith PeanoNat.
Local Open Scope nat_scope.

(* ---------------------------------------------------------------------- *)
(* the equality tests                                                      *)
(* ---------------------------------------------------------------------- *)

Lemma andl_true_iff (a b : bool) : (if a then b else false) = true <-> a = true /\ b = true.
Proof.
  destruct a, b; simpl; (split; [intros H | intros [H1 H2]]); try discriminate; auto.
Qed.

Lemma list_eqb_spec {A} (eqb : A -> A -> bool) :
  (forall x y, eqb x y = true <-> x = y) ->
  forall a b, list_eqb eqb a b = true <-> a = b.
Proof.
  intros Hspec a. induction a as [|x a IH]; intros [|y b]; simpl.
  - split; reflexivity.
  - split; discriminate.
  - split; discriminate.
  - rewrite andl_true_iff, Hspec, IH. split.
    + intros [Hx Ha]. subst. reflexivity.
    + intros H. inversion H. split; reflexivity.
Qed.

Lemma bool_eqb_spec a b : Bool.eqb a b = true <-> a = b.
Proof. split; [apply Bool.eqb_prop | intros ->; apply Bool.eqb_reflx]. Qed.

Lemma res_eqb_spec a b : res_eqb a b = true <-> a = b.
Proof. destruct a, b; simpl; split; intros H; try discriminate; reflexivity. Qed.

Lemma val_eqb_spec a b : val_eqb a b = true <-> a = b.
Proof.
  destruct a as [a1 a2], b as [b1 b2]. unfold val_eqb. simpl.
  rewrite andb_true_iff, !Nat.eqb_eq. split.
  - intros [H1 H2]. subst. reflexivity.
  - intros H. inversion H. split; reflexivity.
Qed.

Lemma rres_eqb_spec a b : rres_eqb a b = true <-> a = b.
Proof.
  destruct a as [v| | |], b as [w| | |]; simpl;
    try (split; intros H; try discriminate; reflexivity).
  rewrite val_eqb_spec. split; [intros ->; reflexivity | intros H; inversion H; reflexivity].
Qed.

Lemma cstate_eqb_spec a b : cstate_eqb a b = true <-> a = b.
Proof. destruct a, b; simpl; split; intros H; try discriminate; reflexivity. Qed.

Lemma rcpc_eqb_spec a b : rcpc_eqb a b = true <-> a = b.
Proof. destruct a, b; simpl; split; intros H; try discriminate; reflexivity. Qed.

Ltac eqb_crush :=
  repeat match goal with
  | H : (_ && _) = true |- _ => apply andb_true_iff in H; destruct H
  | H : Nat.eqb _ _ = true |- _ => apply Nat.eqb_eq in H
  | H : Bool.eqb _ _ = true |- _ => apply Bool.eqb_prop in H
  | H : res_eqb _ _ = true |- _ => apply (proj1 (res_eqb_spec _ _)) in H
  | H : rres_eqb _ _ = true |- _ => apply (proj1 (rres_eqb_spec _ _)) in H
  end; subst.

Lemma res_eqb_refl a : res_eqb a a = true.
Proof. apply res_eqb_spec. reflexivity. Qed.
Lemma rres_eqb_refl a : rres_eqb a a = true.
Proof. apply rres_eqb_spec. reflexivity. Qed.

Lemma spc_eqb_spec a b : spc_eqb a b = true <-> a = b.
Proof.
  split.
  - destruct a, b; simpl; intros H; try discriminate H; eqb_crush; reflexivity.
  - intros ->. destruct b; simpl;
      rewrite ?Nat.eqb_refl, ?Bool.eqb_reflx, ?res_eqb_refl; reflexivity.
Qed.

Lemma thread_eqb_spec a b : thread_eqb a b = true <-> a = b.
Proof.
  destruct a as [i1 p1], b as [i2 p2]. unfold thread_eqb. simpl.
  rewrite andb_true_iff, Nat.eqb_eq, spc_eqb_spec. split.
  - intros [H1 H2]. subst. reflexivity.
  - intros H. inversion H. split; reflexivity.
Qed.

Lemma rpc_eqb_spec a b : rpc_eqb a b = true <-> a = b.
Proof.
  split.
  - destruct a, b; simpl; intros H; try discriminate H; eqb_crush; reflexivity.
  - intros ->. destruct b; simpl; rewrite ?Nat.eqb_refl, ?rres_eqb_refl; reflexivity.
Qed.

(* the shipped test decides equality of states of equal capacity *)
Theorem pipe_st_eqb_spec a b : cap a = cap b -> (st_eqb a b = true <-> a = b).
Proof.
  destruct a as [cp1 bf1 sd1 se1 rd1 th1 rv1 rc1 cx1 gc1 ge1 gs1 gm1 gr1 gt1 ga1],
           b as [cp2 bf2 sd2 se2 rd2 th2 rv2 rc2 cx2 gc2 ge2 gs2 gm2 gr2 gt2 ga2].
  cbn [cap]. intros Hcap. subst cp2. unfold st_eqb.
  cbn [ths rcv buf sdone serr rdone rcl ctxs g_closing g_cerr g_comm g_rcvd g_ret g_acked g_sent].
  rewrite !andl_true_iff, !(list_eqb_spec _ val_eqb_spec), (list_eqb_spec _ thread_eqb_spec),
    (list_eqb_spec _ cstate_eqb_spec), rpc_eqb_spec, rcpc_eqb_spec, !bool_eqb_spec.
  split.
  - intros H. decompose [and] H. subst. reflexivity.
  - intros H. inversion H. subst. repeat split; reflexivity.
Qed.

(* the exact test: the shipped one plus the capacity *)
Definition st_eqb_cap (a b : st) : bool := st_eqb a b && Nat.eqb (cap a) (cap b).

Theorem pipe_st_eqb_cap_spec a b : st_eqb_cap a b = true <-> a = b.
Proof.
  unfold st_eqb_cap. rewrite andb_true_iff, Nat.eqb_eq. split.
  - intros [He Hc]. apply (pipe_st_eqb_spec a b Hc). exact He.
  - intros ->. split; [apply (pipe_st_eqb_spec b b eq_refl) |]; reflexivity.
Qed.

(* ---------------------------------------------------------------------- *)
(* the capacity is constant along every run                                *)
(* ---------------------------------------------------------------------- *)

Ltac step_crush H :=
  repeat match type of H with
  | context [match ?x with _ => _ end] => destruct x eqn:?
  end;
  try discriminate H; inversion H; subst; first [reflexivity | simpl; congruence].

Lemma pipe_step_cap s l s' : step s l = Some s' -> cap s' = cap s.
Proof.
  intros H. destruct l; unfold step, do_take in H; cbv zeta in H; step_crush H.
Qed.

Theorem pipe_qstep_cap s l s' : qstep s l = Some s' -> cap s' = cap s.
Proof.
  intros H.
  destruct l;
    try (match type of H with qstep _ ?L = _ => apply (pipe_step_cap s L s'); exact H end).
  unfold qstep in H. destruct (quiescent s); [|discriminate H]. inversion H. reflexivity.
Qed.

(* ---------------------------------------------------------------------- *)
(* events are labels                                                       *)
(* ---------------------------------------------------------------------- *)

Lemma pipe_vis_some l e : vis l = Some e -> e = l.
Proof. destruct l; simpl; intros H; try discriminate; inversion H; reflexivity. Qed.

Lemma pipe_vis_idem l e : vis l = Some e -> vis e = Some e.
Proof. intros H. pose proof (pipe_vis_some l e H) as He. subst e. exact H. Qed.

(* [lab_eqb] never confuses two labels (visible or not) *)
Lemma pipe_lab_eqb_sound a b : lab_eqb a b = true -> a = b.
Proof.
  destruct a, b; simpl; intros H; try discriminate H; eqb_crush; reflexivity.
Qed.

(* it is reflexive on visible labels (it is [false] on internal ones) *)
Lemma pipe_lab_eqb_refl_vis a e : vis a = Some e -> lab_eqb a a = true.
Proof.
  destruct a; simpl; intros H; try discriminate H;
    rewrite ?Nat.eqb_refl, ?Bool.eqb_reflx, ?res_eqb_refl, ?rres_eqb_refl; reflexivity.
Qed.

(* on visible labels it decides equality *)
Theorem pipe_lab_eqb_spec a b e : vis b = Some e -> (lab_eqb a b = true <-> a = b).
Proof.
  intros Hv. split; [apply pipe_lab_eqb_sound|].
  intros ->. eapply pipe_lab_eqb_refl_vis; exact Hv.
Qed.

(* ---------------------------------------------------------------------- *)
(* the label enumerations contain every enabled label                      *)
(* ---------------------------------------------------------------------- *)

Lemma getT_lt s t : getT s t <> None -> t < length (ths s).
Proof. unfold getT. apply nth_error_Some. Qed.

Ltac in_list := solve [simpl; repeat (first [left; reflexivity | right])].

Ltac thread_label s t Hs :=
  let Ht := fresh "Ht" in
  let E := fresh "E" in
  assert (Ht : t < length (ths s))
    by (apply getT_lt; intros E; apply Hs; simpl; rewrite E; reflexivity);
  apply in_or_app; left; apply in_flat_map; exists t;
  split; [apply in_seq; split; [apply Nat.le_0_l | exact Ht] | unfold thread_taus; in_list].

(* a label of the receiver that completes the send of parked sender t *)
Ltac recv_sender_label s t Hs :=
  let Ht := fresh "Ht" in
  let E := fresh "E" in
  assert (Ht : t < length (ths s))
    by (apply getT_lt; intros E; apply Hs; simpl; destruct (rcv s); try reflexivity;
        try unfold do_take; rewrite E; reflexivity);
  apply in_or_app; right; apply in_or_app; left; unfold recv_taus; apply in_or_app; right;
  apply in_flat_map; exists t;
  split; [apply in_seq; split; [apply Nat.le_0_l | exact Ht] | in_list].

Ltac recv_fixed_label :=
  apply in_or_app; right; apply in_or_app; left; unfold recv_taus; apply in_or_app; left; in_list.

Theorem pipe_tau_labels_complete s l :
  vis l = None -> qstep s l <> None -> In l (tau_labels s).
Proof.
  intros Hv Hs. unfold tau_labels.
  destruct l as [t c|t r|t c|t ok r|t e|t|c|r| | |c| |t|t|t|t|t|t|t|t|t|t|t|t|t|t|t|t| |o| | |o| | |c];
    simpl in Hv; try discriminate Hv; clear Hv.
  - thread_label s t Hs.
  - thread_label s t Hs.
  - thread_label s t Hs.
  - thread_label s t Hs.
  - thread_label s t Hs.
  - thread_label s t Hs.
  - thread_label s t Hs.
  - thread_label s t Hs.
  - thread_label s t Hs.
  - thread_label s t Hs.
  - thread_label s t Hs.
  - thread_label s t Hs.
  - thread_label s t Hs.
  - thread_label s t Hs.
  - thread_label s t Hs.
  - thread_label s t Hs.
  - recv_fixed_label.
  - destruct o as [t|]; [recv_sender_label s t Hs | recv_fixed_label].
  - recv_fixed_label.
  - recv_fixed_label.
  - destruct o as [t|]; [recv_sender_label s t Hs | recv_fixed_label].
  - recv_fixed_label.
  - apply in_or_app; right. apply in_or_app; right. apply in_or_app; left. in_list.
  - apply in_or_app; right. apply in_or_app; right. apply in_or_app; right.
    apply in_map. apply in_seq. split; [apply Nat.le_0_l|]. simpl. apply nth_error_Some.
    intros E. apply Hs. simpl. rewrite E. reflexivity.
Qed.

Theorem pipe_labels_ev_complete (s : st) (l e : lab) :
  vis l = Some e -> qstep s l <> None -> In l ((fun (_ : st) (x : lab) => [x]) s e).
Proof. intros Hv _. left. apply (pipe_vis_some l e Hv). Qed.

(* ---------------------------------------------------------------------- *)
(* the instantiated theorems                                               *)
(* ---------------------------------------------------------------------- *)

Definition pipe_trace : list lab -> list lab := trace lab lab vis.

(* the executable convergence test for a history *)
Definition pipe_converged (n nt nc : nat) (evs : list lab) : bool :=
  convergedb st lab lab qstep vis lab_eqb st_eqb tau_labels (fun _ e => [e]) 64 (init n nt nc) evs.

(* SOUNDNESS (unconditional): an accepted history is the visible trace of a run of the model *)
Theorem pipe_accepts_sound n nt nc evs :
  accepts_history n nt nc evs = true ->
  exists ls s, run qstep (init n nt nc) ls = Some s /\ pipe_trace ls = evs.
Proof.
  unfold accepts_history, pipe_trace.
  apply (accepts_sound st lab lab qstep vis lab_eqb st_eqb tau_labels (fun _ e => [e])
           pipe_lab_eqb_sound).
Qed.

(* an event test that agrees with [lab_eqb] wherever the matcher uses it and is reflexive everywhere *)
Definition lab_eqb_tot (a b : lab) : bool :=
  match vis b with Some _ => lab_eqb a b | None => true end.

Lemma lab_eqb_tot_refl a : lab_eqb_tot a a = true.
Proof.
  unfold lab_eqb_tot. destruct (vis a) as [e|] eqn:Ev; [|reflexivity].
  eapply pipe_lab_eqb_refl_vis; exact Ev.
Qed.

Lemma lab_eqb_tot_agree (e l e' : lab) : vis l = Some e' -> lab_eqb e e' = lab_eqb_tot e e'.
Proof. intros Hv. unfold lab_eqb_tot. rewrite (pipe_vis_idem l e' Hv). reflexivity. Qed.

Lemma st_eqb_cap_agree n (a b : st) : cap a = n -> cap b = n -> st_eqb a b = st_eqb_cap a b.
Proof.
  intros Ha Hb. unfold st_eqb_cap. rewrite Ha, Hb, Nat.eqb_refl, andb_true_r. reflexivity.
Qed.

Lemma cap_inv_step n (s : st) (l : lab) (s' : st) : cap s = n -> qstep s l = Some s' -> cap s' = n.
Proof. intros Hn Hs. rewrite (pipe_qstep_cap s l s' Hs). exact Hn. Qed.

Lemma pipe_accepts_tot n nt nc evs :
  accepts_history n nt nc evs =
  accepts qstep vis lab_eqb_tot st_eqb_cap tau_labels (fun _ e => [e]) 64 (init n nt nc) evs.
Proof.
  unfold accepts_history.
  apply (CondMatcher.accepts_ext st lab lab qstep vis lab_eqb lab_eqb_tot st_eqb st_eqb_cap
           tau_labels (fun _ e => [e]) (fun s => cap s = n)
           (cap_inv_step n) (st_eqb_cap_agree n) lab_eqb_tot_agree).
  reflexivity.
Qed.

Lemma pipe_converged_tot n nt nc evs :
  pipe_converged n nt nc evs =
  convergedb st lab lab qstep vis lab_eqb_tot st_eqb_cap tau_labels (fun _ e => [e]) 64
             (init n nt nc) evs.
Proof.
  unfold pipe_converged.
  apply (CondMatcher.convergedb_ext st lab lab qstep vis lab_eqb lab_eqb_tot st_eqb st_eqb_cap
           tau_labels (fun _ e => [e]) (fun s => cap s = n)
           (cap_inv_step n) (st_eqb_cap_agree n) lab_eqb_tot_agree).
  reflexivity.
Qed.

(* COMPLETENESS: when the closures converged, a history produced by a run is accepted *)
Theorem pipe_accepts_complete n nt nc evs ls s :
  pipe_converged n nt nc evs = true ->
  run qstep (init n nt nc) ls = Some s -> pipe_trace ls = evs ->
  accepts_history n nt nc evs = true.
Proof.
  rewrite pipe_converged_tot, pipe_accepts_tot. unfold pipe_trace.
  apply (accepts_complete_b st lab lab qstep vis lab_eqb_tot st_eqb_cap tau_labels (fun _ e => [e])
           pipe_st_eqb_cap_spec lab_eqb_tot_refl pipe_tau_labels_complete pipe_labels_ev_complete).
Qed.

(* a rejection is genuine: no run of the model has this trace *)
Theorem pipe_reject_genuine n nt nc evs :
  pipe_converged n nt nc evs = true -> accepts_history n nt nc evs = false ->
  forall ls s, run qstep (init n nt nc) ls = Some s -> pipe_trace ls <> evs.
Proof.
  intros Hc Hacc ls s Hr Ht.
  rewrite (pipe_accepts_complete n nt nc evs ls s Hc Hr Ht) in Hacc. discriminate.
Qed.

(* the matcher decides trace membership when the closures converged *)
Theorem pipe_accepts_iff n nt nc evs :
  pipe_converged n nt nc evs = true ->
  (accepts_history n nt nc evs = true <->
   exists ls s, run qstep (init n nt nc) ls = Some s /\ pipe_trace ls = evs).
Proof.
  intros Hc. split.
  - apply pipe_accepts_sound.
  - intros [ls [s [Hr Ht]]]. eapply pipe_accepts_complete; eassumption.
Qed.

(* ---- non-vacuity ---- *)
Definition ex_hist : list lab :=
  [LCallSend 0 0; LRetSend 0 RNil; LCallTrySend 1 0; LRetTrySend 1 false RNil; LCallNext 0;
   LRetNext (VVal (0, 0)); LCallClose 0 false; LRetClose 0; LCallNext 0; LRetNext VEnd; LQuiesce].

Example ex_accepts : accepts_history 1 2 1 ex_hist = true /\ pipe_converged 1 2 1 ex_hist = true.
Proof. vm_compute. split; reflexivity. Qed.

Example ex_is_trace : exists ls s, run qstep (init 1 2 1) ls = Some s /\ pipe_trace ls = ex_hist.
Proof. apply pipe_accepts_sound. exact (proj1 ex_accepts). Qed.

(* Next returning a value that was never sent: rejected, and the rejection is genuine *)
Definition ex_bad : list lab := [LCallSend 0 0; LCallNext 0; LRetNext (VVal (1, 0))].

Example ex_rejects : accepts_history 1 2 1 ex_bad = false /\ pipe_converged 1 2 1 ex_bad = true.
Proof. vm_compute. split; reflexivity. Qed.

Example ex_no_run : forall ls s, run qstep (init 1 2 1) ls = Some s -> pipe_trace ls <> ex_bad.
Proof. apply pipe_reject_genuine; [exact (proj2 ex_rejects) | exact (proj1 ex_rejects)]. Qed.

Print Assumptions pipe_st_eqb_spec.
Print Assumptions pipe_qstep_cap.
Print Assumptions pipe_lab_eqb_spec.
Print Assumptions pipe_tau_labels_complete.
Print Assumptions pipe_labels_ev_complete.
Print Assumptions pipe_accepts_sound.
Print Assumptions pipe_accepts_complete.
Print Assumptions pipe_reject_genuine.
Print Assumptions pipe_accepts_iff.
