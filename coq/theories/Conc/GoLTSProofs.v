(* Soundness and (conditional) completeness of the executable history matcher of GoLTS.v.

   Soundness (no hypothesis on [st_eqb], [labels], [labels_ev] or the fuel; only
   [ev_eqb a b = true -> a = b]):  whatever the matcher accepts is the visible trace of a
   genuine run of the LTS.  Deduplication with an arbitrary [st_eqb] can only DROP states, a
   short fuel can only stop the closure early, and incomplete label enumerations can only miss
   successors: all of these make the matcher reject more, never accept more.

   Completeness (no false rejections) needs: [st_eqb] decides equality, [ev_eqb] is reflexive,
   the label enumerations contain every enabled label, and every closure computed along the
   history reached its fixpoint within [fuel] waves ([closed_along]; decidable by
   [convergedb]; implied by [fuel >= number of states tau-reachable], [fuel_sufficient]).

   Stdlib only, no axioms. *)
From Juniper Require Import Common.Base Conc.GoLTS.
Local Open Scope nat_scope.

Section MatcherProofs.
  Variables St Lab Ev : Type.
  Variable step : St -> Lab -> option St.
  Variable vis : Lab -> option Ev.
  Variable ev_eqb : Ev -> Ev -> bool.
  Variable st_eqb : St -> St -> bool.
  Variable labels : St -> list Lab.
  Variable labels_ev : St -> Ev -> list Lab.

  Local Notation succ_tau := (GoLTS.succ_tau St Lab step Ev vis labels).
  Local Notation succ_ev := (GoLTS.succ_ev St Lab step Ev vis ev_eqb labels_ev).
  Local Notation mem := (GoLTS.mem St st_eqb).
  Local Notation add_new := (GoLTS.add_new St st_eqb).
  Local Notation closure := (GoLTS.closure St Lab step Ev vis st_eqb labels).
  Local Notation close := (GoLTS.close step vis st_eqb labels).
  Local Notation states_after := (GoLTS.states_after step vis ev_eqb st_eqb labels labels_ev).
  Local Notation first_reject := (GoLTS.first_reject step vis ev_eqb st_eqb labels labels_ev).
  Local Notation accepts := (GoLTS.accepts step vis ev_eqb st_eqb labels labels_ev).
  Local Notation final_exists := (GoLTS.final_exists step vis ev_eqb st_eqb labels labels_ev).
  Local Notation run := (GoLTS.run step).

  (* the visible events of a run, in order *)
  Fixpoint trace (ls : list Lab) : list Ev :=
    match ls with
    | [] => []
    | l :: t => match vis l with Some e => e :: trace t | None => trace t end
    end.

  Lemma trace_app ls1 ls2 : trace (ls1 ++ ls2) = trace ls1 ++ trace ls2.
  Proof.
    induction ls1 as [|l ls1 IH]; simpl; [reflexivity|].
    destruct (vis l) as [e|]; rewrite IH; reflexivity.
  Qed.

  (* [trace ls = []] is the same as "every label of ls is internal" *)
  Lemma trace_nil_iff ls : trace ls = [] <-> Forall (fun l => vis l = None) ls.
  Proof.
    induction ls as [|l ls IH]; simpl.
    - split; intros _; [constructor | reflexivity].
    - destruct (vis l) as [e|] eqn:Evis.
      + split; [discriminate|]. intros HF. inversion HF as [|x y Hx Hy]; subst.
        rewrite Evis in Hx. discriminate.
      + split.
        * intros Ht. constructor; [exact Evis | apply IH; exact Ht].
        * intros HF. inversion HF as [|x y Hx Hy]; subst. apply IH; exact Hy.
  Qed.

  Lemma run_snoc s ls l s1 s2 :
    run s ls = Some s1 -> step s1 l = Some s2 -> run s (ls ++ [l]) = Some s2.
  Proof.
    intros Hr Hs. rewrite run_app, Hr. simpl. rewrite Hs. reflexivity.
  Qed.

  Lemma run_trans s ls1 s1 ls2 s2 :
    run s ls1 = Some s1 -> run s1 ls2 = Some s2 -> run s (ls1 ++ ls2) = Some s2.
  Proof.
    intros H1 H2. rewrite run_app, H1. exact H2.
  Qed.

  (* ------------------------------------------------------------------ *)
  (* successor functions                                                 *)

  Lemma in_succ_tau s s' :
    In s' (succ_tau s) -> exists l, vis l = None /\ step s l = Some s'.
  Proof.
    unfold GoLTS.succ_tau. intros Hin. apply in_flat_map in Hin.
    destruct Hin as [l [_ Hl]].
    destruct (vis l) as [e|] eqn:Evis; [destruct Hl|].
    destruct (step s l) as [s1|] eqn:Es; [|destruct Hl].
    destruct Hl as [Hl|[]]. subst s1. exists l. split; assumption.
  Qed.

  Lemma succ_tau_complete s l s' :
    In l (labels s) -> vis l = None -> step s l = Some s' -> In s' (succ_tau s).
  Proof.
    intros Hin Hv Hs. unfold GoLTS.succ_tau. apply in_flat_map. exists l. split; [exact Hin|].
    rewrite Hv, Hs. left; reflexivity.
  Qed.

  Section Soundness.
    Hypothesis ev_eqb_sound : forall a b, ev_eqb a b = true -> a = b.

    Lemma in_succ_ev e s s' :
      In s' (succ_ev e s) -> exists l, vis l = Some e /\ step s l = Some s'.
    Proof.
      unfold GoLTS.succ_ev. intros Hin. apply in_flat_map in Hin.
      destruct Hin as [l [_ Hl]].
      destruct (vis l) as [e'|] eqn:Evis; [|destruct Hl].
      destruct (ev_eqb e e') eqn:Ee; [|destruct Hl].
      destruct (step s l) as [s1|] eqn:Es; [|destruct Hl].
      destruct Hl as [Hl|[]]. subst s1. apply ev_eqb_sound in Ee. subst e'.
      exists l. split; [exact Evis | exact Es].
    Qed.

    (* ---------------- add_new only keeps elements it was given ---------------- *)
    Lemma add_new_sound new : forall seen,
      (forall x, In x (fst (add_new new seen)) -> In x new) /\
      (forall x, In x (snd (add_new new seen)) -> In x seen \/ In x (fst (add_new new seen))).
    Proof.
      induction new as [|a t IH]; intros seen; simpl.
      - split; [intros x [] | intros x Hx; left; exact Hx].
      - destruct (mem a seen) eqn:Em.
        + destruct (IH seen) as [IH1 IH2]. split.
          * intros x Hx. right. apply IH1; exact Hx.
          * exact IH2.
        + destruct (IH (a :: seen)) as [IH1 IH2].
          destruct (add_new t (a :: seen)) as [n sn] eqn:Ea. simpl in *. split.
          * intros x [Hx|Hx]; [left; exact Hx | right; apply IH1; exact Hx].
          * intros x Hx. destruct (IH2 x Hx) as [[Hx'|Hx']|Hx'].
            -- right; left; exact Hx'.
            -- left; exact Hx'.
            -- right; right; exact Hx'.
    Qed.

    Lemma add_new_fst_in new seen x : In x (fst (add_new new seen)) -> In x new.
    Proof. apply (add_new_sound new seen). Qed.

    Lemma add_new_snd_in new seen x :
      In x (snd (add_new new seen)) -> In x seen \/ In x new.
    Proof.
      intros Hx. destruct (proj2 (add_new_sound new seen) x Hx) as [H|H].
      - left; exact H.
      - right; apply (add_new_fst_in new seen); exact H.
    Qed.

    (* ---------------- the closure preserves any tau-closed predicate ---------------- *)
    Lemma closure_inv (P : St -> Prop) :
      (forall s s', P s -> In s' (succ_tau s) -> P s') ->
      forall fuel fr seen,
        (forall x, In x fr -> P x) -> (forall x, In x seen -> P x) ->
        forall x, In x (closure fuel fr seen) -> P x.
    Proof.
      intros Hstep fuel. induction fuel as [|f IH]; intros fr seen Hfr Hseen x Hx; simpl in Hx.
      - apply Hseen; exact Hx.
      - destruct fr as [|y fr'].
        + apply Hseen; exact Hx.
        + remember (y :: fr') as fr eqn:Efr.
          pose proof (add_new_fst_in (flat_map succ_tau fr) seen) as Hn.
          pose proof (add_new_snd_in (flat_map succ_tau fr) seen) as Hsn.
          destruct (add_new (flat_map succ_tau fr) seen) as [n sn] eqn:Ea. simpl in Hn, Hsn.
          assert (Hsucc : forall z, In z (flat_map succ_tau fr) -> P z).
          { intros z Hz. apply in_flat_map in Hz. destruct Hz as [s [Hs Hz]].
            apply (Hstep s z); [apply Hfr; exact Hs | exact Hz]. }
          apply (IH n sn); [| | exact Hx].
          * intros z Hz. apply Hsucc, Hn, Hz.
          * intros z Hz. destruct (Hsn z Hz) as [H|H]; [apply Hseen; exact H | apply Hsucc; exact H].
    Qed.

    Lemma close_inv (P : St -> Prop) :
      (forall s s', P s -> In s' (succ_tau s) -> P s') ->
      forall fuel ss, (forall x, In x ss -> P x) -> forall x, In x (close fuel ss) -> P x.
    Proof.
      intros Hstep fuel ss Hss x Hx. unfold GoLTS.close in Hx.
      pose proof (add_new_fst_in ss []) as Hn.
      pose proof (add_new_snd_in ss []) as Hsn.
      destruct (add_new ss []) as [n sn] eqn:Ea. simpl in Hn, Hsn.
      apply (closure_inv P Hstep fuel n sn); [| | exact Hx].
      - intros z Hz. apply Hss, Hn, Hz.
      - intros z Hz. destruct (Hsn z Hz) as [[]|H]. apply Hss; exact H.
    Qed.

    (* 1. closure / close: every state found is tau-reachable from a given state *)
    Theorem closure_sound fuel fr seen (ss : list St) :
      (forall x, In x fr -> In x ss) -> (forall x, In x seen -> In x ss) ->
      forall s, In s (closure fuel fr seen) ->
        exists s0 ls, In s0 ss /\ run s0 ls = Some s /\ trace ls = [].
    Proof.
      intros Hfr Hseen.
      apply (closure_inv (fun s => exists s0 ls, In s0 ss /\ run s0 ls = Some s /\ trace ls = [])).
      - intros s s' [s0 [ls [H0 [Hr Ht]]]] Hs'.
        apply in_succ_tau in Hs'. destruct Hs' as [l [Hv Hs]].
        exists s0, (ls ++ [l]). split; [exact H0|]. split.
        + eapply run_snoc; eassumption.
        + rewrite trace_app, Ht. simpl. rewrite Hv. reflexivity.
      - intros x Hx. exists x, []. split; [apply Hfr; exact Hx|]. split; reflexivity.
      - intros x Hx. exists x, []. split; [apply Hseen; exact Hx|]. split; reflexivity.
    Qed.

    Theorem close_sound fuel ss s :
      In s (close fuel ss) ->
      exists s0 ls, In s0 ss /\ run s0 ls = Some s /\ trace ls = [].
    Proof.
      revert s.
      apply (close_inv (fun s => exists s0 ls, In s0 ss /\ run s0 ls = Some s /\ trace ls = [])).
      - intros s s' [s0 [ls [H0 [Hr Ht]]]] Hs'.
        apply in_succ_tau in Hs'. destruct Hs' as [l [Hv Hs]].
        exists s0, (ls ++ [l]). split; [exact H0|]. split.
        + eapply run_snoc; eassumption.
        + rewrite trace_app, Ht. simpl. rewrite Hv. reflexivity.
      - intros x Hx. exists x, []. split; [exact Hx|]. split; reflexivity.
    Qed.

    (* same, with the run expressed as "all labels internal" *)
    Corollary close_sound_internal fuel ss s :
      In s (close fuel ss) ->
      exists s0 ls, In s0 ss /\ run s0 ls = Some s /\ Forall (fun l => vis l = None) ls.
    Proof.
      intros H. destruct (close_sound fuel ss s H) as [s0 [ls [H0 [Hr Ht]]]].
      exists s0, ls. split; [exact H0|]. split; [exact Hr | apply trace_nil_iff; exact Ht].
    Qed.

    (* 2. states_after *)
    Theorem states_after_sound_gen fuel evs : forall ss s,
      In s (states_after fuel ss evs) ->
      exists s0 ls, In s0 ss /\ run s0 ls = Some s /\ trace ls = evs.
    Proof.
      induction evs as [|e evs IH]; intros ss s Hin; simpl in Hin.
      - exists s, []. split; [exact Hin|]. split; reflexivity.
      - destruct (IH _ _ Hin) as [s1 [ls1 [H1 [Hr1 Ht1]]]].
        destruct (close_sound _ _ _ H1) as [s2 [ls2 [H2 [Hr2 Ht2]]]].
        apply in_flat_map in H2. destruct H2 as [s0 [H0 H2]].
        apply in_succ_ev in H2. destruct H2 as [l [Hv Hs]].
        exists s0, (l :: ls2 ++ ls1). split; [exact H0|]. split.
        + simpl. rewrite Hs. eapply run_trans; eassumption.
        + simpl. rewrite Hv, trace_app, Ht2, Ht1. reflexivity.
    Qed.

    Theorem states_after_sound fuel init evs s :
      In s (states_after fuel (close fuel [init]) evs) ->
      exists ls, run init ls = Some s /\ trace ls = evs.
    Proof.
      intros Hin.
      destruct (states_after_sound_gen _ _ _ _ Hin) as [s1 [ls1 [H1 [Hr1 Ht1]]]].
      destruct (close_sound _ _ _ H1) as [s0 [ls0 [H0 [Hr0 Ht0]]]].
      destruct H0 as [H0|[]]. subst s0.
      exists (ls0 ++ ls1). split.
      - eapply run_trans; eassumption.
      - rewrite trace_app, Ht0, Ht1. reflexivity.
    Qed.

    (* first_reject = None keeps the state set non-empty *)
    Lemma first_reject_none_nonempty fuel evs : forall ss i,
      first_reject fuel ss evs i = None -> ss <> [] -> states_after fuel ss evs <> [].
    Proof.
      induction evs as [|e evs IH]; intros ss i Hfr Hne; simpl in *.
      - exact Hne.
      - destruct (close fuel (flat_map (succ_ev e) ss)) as [|x r] eqn:Ec; [discriminate|].
        apply (IH (x :: r) (S i)); [exact Hfr | discriminate].
    Qed.

    Lemma closure_seen_incl fuel : forall fr seen x,
      In x seen -> In x (closure fuel fr seen).
    Proof.
      induction fuel as [|f IH]; intros fr seen x Hx; simpl; [exact Hx|].
      destruct fr as [|y fr']; [exact Hx|].
      remember (y :: fr') as fr eqn:Efr. clear Efr.
      assert (Hmono : forall new sn0, In x sn0 -> In x (snd (add_new new sn0))).
      { intros new. induction new as [|a t IHn]; intros sn0 H0; simpl; [exact H0|].
        destruct (mem a sn0); [apply IHn; exact H0|].
        specialize (IHn (a :: sn0) (or_intror H0)).
        destruct (add_new t (a :: sn0)) as [n' sn'] eqn:Ea. exact IHn. }
      specialize (Hmono (flat_map succ_tau fr) seen Hx).
      destruct (add_new (flat_map succ_tau fr) seen) as [n sn] eqn:Ea.
      apply IH. exact Hmono.
    Qed.

    Lemma close_init fuel init : In init (close fuel [init]).
    Proof.
      unfold GoLTS.close. simpl. apply closure_seen_incl. left; reflexivity.
    Qed.

    (* 4. first_reject *)
    Theorem first_reject_sound fuel init evs i :
      first_reject fuel (close fuel [init]) evs i = None ->
      exists ls s, run init ls = Some s /\ trace ls = evs.
    Proof.
      intros Hfr.
      assert (Hne : close fuel [init] <> []).
      { intros E. pose proof (close_init fuel init) as Hi. rewrite E in Hi. destruct Hi. }
      pose proof (first_reject_none_nonempty _ _ _ _ Hfr Hne) as Hsa.
      destruct (states_after fuel (close fuel [init]) evs) as [|s r] eqn:Es; [congruence|].
      destruct (states_after_sound fuel init evs s) as [ls [Hr Ht]].
      { rewrite Es. left; reflexivity. }
      exists ls, s. split; assumption.
    Qed.

    (* 3. accepts *)
    Theorem accepts_sound fuel init evs :
      accepts fuel init evs = true ->
      exists ls s, run init ls = Some s /\ trace ls = evs.
    Proof.
      unfold GoLTS.accepts. intros Hacc.
      destruct (first_reject fuel (close fuel [init]) evs 0) as [i|] eqn:Efr; [discriminate|].
      eapply first_reject_sound; exact Efr.
    Qed.

    (* 5. final_exists *)
    Theorem final_exists_sound fuel init evs p :
      final_exists fuel init evs p = true ->
      exists ls s, run init ls = Some s /\ trace ls = evs /\ p s = true.
    Proof.
      unfold GoLTS.final_exists. intros Hex. apply existsb_exists in Hex.
      destruct Hex as [s [Hin Hp]].
      destruct (states_after_sound fuel init evs s Hin) as [ls [Hr Ht]].
      exists ls, s. split; [exact Hr|]. split; [exact Ht | exact Hp].
    Qed.

    (* reachable-state form, convenient together with [invariant_rule] *)
    Corollary final_exists_reachable fuel init evs p :
      final_exists fuel init evs p = true ->
      exists s, reachable step init s /\ p s = true.
    Proof.
      intros H. destruct (final_exists_sound _ _ _ _ H) as [ls [s [Hr [_ Hp]]]].
      exists s. split; [exists ls; exact Hr | exact Hp].
    Qed.
  End Soundness.

  (* ------------------------------------------------------------------ *)
  (* Completeness                                                        *)

  (* a state set that is closed under internal steps *)
  Definition tau_closed (S : list St) : Prop :=
    forall s l s', In s S -> vis l = None -> step s l = Some s' -> In s' S.

  (* every closure computed while matching evs from ss reached its fixpoint *)
  Fixpoint closed_along (fuel : nat) (ss : list St) (evs : list Ev) : Prop :=
    match evs with
    | [] => True
    | e :: evs' =>
        let ss' := close fuel (flat_map (succ_ev e) ss) in
        tau_closed ss' /\ closed_along fuel ss' evs'
    end.

  (* executable versions *)
  Definition tau_closedb (S : list St) : bool :=
    forallb (fun s => forallb (fun s' => mem s' S) (succ_tau s)) S.

  Fixpoint closed_alongb (fuel : nat) (ss : list St) (evs : list Ev) : bool :=
    match evs with
    | [] => true
    | e :: evs' =>
        let ss' := close fuel (flat_map (succ_ev e) ss) in
        tau_closedb ss' && closed_alongb fuel ss' evs'
    end.

  Definition convergedb (fuel : nat) (init : St) (evs : list Ev) : bool :=
    tau_closedb (close fuel [init]) && closed_alongb fuel (close fuel [init]) evs.

  Lemma tau_closed_run S : tau_closed S ->
    forall ls s0 s, In s0 S -> run s0 ls = Some s -> trace ls = [] -> In s S.
  Proof.
    intros HS ls. induction ls as [|l ls IH]; intros s0 s H0 Hr Ht; simpl in Hr, Ht.
    - inversion Hr; subst; exact H0.
    - destruct (step s0 l) as [s1|] eqn:Es; [|discriminate].
      destruct (vis l) as [e|] eqn:Evis; [discriminate|].
      apply (IH s1); [eapply HS; eassumption | exact Hr | exact Ht].
  Qed.

  Lemma states_after_nil fuel evs : states_after fuel [] evs = [].
  Proof.
    induction evs as [|e evs IH]; simpl; [reflexivity|].
    replace (close fuel []) with (@nil St); [exact IH|].
    unfold GoLTS.close. simpl. destruct fuel; reflexivity.
  Qed.

  Lemma first_reject_complete fuel evs : forall ss i,
    states_after fuel ss evs <> [] -> first_reject fuel ss evs i = None.
  Proof.
    induction evs as [|e evs IH]; intros ss i Hne; simpl in *; [reflexivity|].
    destruct (close fuel (flat_map (succ_ev e) ss)) as [|x r] eqn:Ec.
    - exfalso. apply Hne. apply states_after_nil.
    - apply IH. exact Hne.
  Qed.

  Section Completeness.
    Hypothesis st_eqb_spec : forall a b, st_eqb a b = true <-> a = b.
    Hypothesis ev_eqb_refl : forall a, ev_eqb a a = true.
    Hypothesis labels_complete :
      forall s l, vis l = None -> step s l <> None -> In l (labels s).
    Hypothesis labels_ev_complete :
      forall s l e, vis l = Some e -> step s l <> None -> In l (labels_ev s e).

    Lemma succ_tau_all s l s' : vis l = None -> step s l = Some s' -> In s' (succ_tau s).
    Proof.
      intros Hv Hs. apply (succ_tau_complete s l s'); [|exact Hv|exact Hs].
      apply labels_complete; [exact Hv | rewrite Hs; discriminate].
    Qed.

    Lemma succ_ev_all s l e s' : vis l = Some e -> step s l = Some s' -> In s' (succ_ev e s).
    Proof.
      intros Hv Hs. unfold GoLTS.succ_ev. apply in_flat_map. exists l. split.
      - apply labels_ev_complete; [exact Hv | rewrite Hs; discriminate].
      - rewrite Hv, ev_eqb_refl, Hs. left; reflexivity.
    Qed.

    Lemma mem_true_iff x l : mem x l = true <-> In x l.
    Proof.
      induction l as [|y t IH]; simpl.
      - split; [discriminate | intros []].
      - rewrite orb_true_iff, IH, st_eqb_spec. split.
        + intros [H|H]; [left; symmetry; exact H | right; exact H].
        + intros [H|H]; [left; symmetry; exact H | right; exact H].
    Qed.

    Lemma mem_false_iff x l : mem x l = false <-> ~ In x l.
    Proof.
      rewrite <- mem_true_iff. destruct (mem x l); split; intros H; congruence.
    Qed.

    (* add_new loses nothing; it keeps [seen] duplicate-free and counts exactly *)
    Lemma add_new_complete new : forall seen,
      (forall x, In x seen -> In x (snd (add_new new seen))) /\
      (forall x, In x new -> In x (snd (add_new new seen))) /\
      (forall x, In x (fst (add_new new seen)) -> In x (snd (add_new new seen))) /\
      (NoDup seen -> NoDup (snd (add_new new seen))) /\
      length (snd (add_new new seen)) = length seen + length (fst (add_new new seen)).
    Proof.
      induction new as [|a t IH]; intros seen; simpl.
      - repeat split; try (intros x H; solve [exact H | destruct H]); try (intros H; exact H). lia.
      - destruct (mem a seen) eqn:Em.
        + destruct (IH seen) as [I1 [I2 [I3 [I4 I5]]]]. repeat split; try assumption.
          intros x [Hx|Hx]; [subst x; apply I1, mem_true_iff; exact Em | apply I2; exact Hx].
        + destruct (IH (a :: seen)) as [I1 [I2 [I3 [I4 I5]]]].
          destruct (add_new t (a :: seen)) as [n sn] eqn:Ea. simpl in *. repeat split.
          * intros x Hx. apply I1. right; exact Hx.
          * intros x [Hx|Hx]; [apply I1; left; exact Hx | apply I2; exact Hx].
          * intros x [Hx|Hx]; [apply I1; left; exact Hx | apply I3; exact Hx].
          * intros Hnd. apply I4. constructor; [apply mem_false_iff; exact Em | exact Hnd].
          * lia.
    Qed.

    Lemma close_incl fuel ss x : In x ss -> In x (close fuel ss).
    Proof.
      intros Hx. unfold GoLTS.close.
      pose proof (proj1 (proj2 (add_new_complete ss [])) x Hx) as H.
      destruct (add_new ss []) as [n sn] eqn:Ea. simpl in H.
      apply closure_seen_incl. exact H.
    Qed.

    (* reflection of the executable fixpoint test *)
    Lemma tau_closedb_sound S : tau_closedb S = true -> tau_closed S.
    Proof.
      unfold tau_closedb, tau_closed. intros Hb s l s' Hs Hv Hst.
      rewrite forallb_forall in Hb. specialize (Hb s Hs).
      rewrite forallb_forall in Hb. apply mem_true_iff. apply Hb.
      eapply succ_tau_all; eassumption.
    Qed.

    Lemma tau_closedb_complete S : tau_closed S -> tau_closedb S = true.
    Proof.
      unfold tau_closedb, tau_closed. intros HS.
      apply forallb_forall. intros s Hs. apply forallb_forall. intros s' Hs'.
      apply mem_true_iff. apply in_succ_tau in Hs'. destruct Hs' as [l [Hv Hst]].
      eapply HS; eassumption.
    Qed.

    Lemma closed_alongb_sound fuel evs : forall ss,
      closed_alongb fuel ss evs = true -> closed_along fuel ss evs.
    Proof.
      induction evs as [|e evs IH]; intros ss Hb; simpl in *; [exact I|].
      apply andb_true_iff in Hb. destruct Hb as [H1 H2].
      split; [apply tau_closedb_sound; exact H1 | apply IH; exact H2].
    Qed.

    (* the closure contains every tau-successor of every state it contains, provided it
       reached its fixpoint *)
    Theorem close_complete fuel ss s0 ls s :
      tau_closed (close fuel ss) ->
      In s0 ss -> run s0 ls = Some s -> trace ls = [] -> In s (close fuel ss).
    Proof.
      intros Hc H0 Hr Ht.
      apply (tau_closed_run _ Hc ls s0 s); [apply close_incl; exact H0 | exact Hr | exact Ht].
    Qed.

    Theorem states_after_complete_gen fuel ls : forall evs ss s0 s,
      tau_closed ss -> closed_along fuel ss evs ->
      In s0 ss -> run s0 ls = Some s -> trace ls = evs ->
      In s (states_after fuel ss evs).
    Proof.
      induction ls as [|l ls IH]; intros evs ss s0 s Hc Hal H0 Hr Ht; simpl in Hr, Ht.
      - inversion Hr; subst. simpl. exact H0.
      - destruct (step s0 l) as [s1|] eqn:Es; [|discriminate].
        destruct (vis l) as [e|] eqn:Evis.
        + subst evs. simpl in Hal. destruct Hal as [Hc' Hal']. simpl.
          apply (IH (trace ls) _ s1 s Hc' Hal'); [|exact Hr|reflexivity].
          apply close_incl. apply in_flat_map. exists s0. split; [exact H0|].
          eapply succ_ev_all; eassumption.
        + apply (IH evs ss s1 s Hc Hal); [|exact Hr|exact Ht].
          eapply Hc; eassumption.
    Qed.

    Theorem states_after_complete fuel init evs ls s :
      tau_closed (close fuel [init]) -> closed_along fuel (close fuel [init]) evs ->
      run init ls = Some s -> trace ls = evs ->
      In s (states_after fuel (close fuel [init]) evs).
    Proof.
      intros Hc Hal Hr Ht.
      apply (states_after_complete_gen fuel ls evs _ init s Hc Hal); [|exact Hr|exact Ht].
      apply close_incl. left; reflexivity.
    Qed.

    (* COMPLETENESS: no false rejections *)
    Theorem accepts_complete fuel init evs ls s :
      tau_closed (close fuel [init]) -> closed_along fuel (close fuel [init]) evs ->
      run init ls = Some s -> trace ls = evs ->
      accepts fuel init evs = true.
    Proof.
      intros Hc Hal Hr Ht. unfold GoLTS.accepts.
      rewrite (first_reject_complete fuel evs (close fuel [init]) 0); [reflexivity|].
      intros E. pose proof (states_after_complete fuel init evs ls s Hc Hal Hr Ht) as Hin.
      rewrite E in Hin. destruct Hin.
    Qed.

    Theorem final_exists_complete fuel init evs p ls s :
      tau_closed (close fuel [init]) -> closed_along fuel (close fuel [init]) evs ->
      run init ls = Some s -> trace ls = evs -> p s = true ->
      final_exists fuel init evs p = true.
    Proof.
      intros Hc Hal Hr Ht Hp. unfold GoLTS.final_exists. apply existsb_exists.
      exists s. split; [|exact Hp]. eapply states_after_complete; eassumption.
    Qed.

    (* the same with the executable convergence test *)
    Lemma convergedb_sound fuel init evs :
      convergedb fuel init evs = true ->
      tau_closed (close fuel [init]) /\ closed_along fuel (close fuel [init]) evs.
    Proof.
      unfold convergedb. intros Hb. apply andb_true_iff in Hb. destruct Hb as [H1 H2].
      split; [apply tau_closedb_sound; exact H1 | apply closed_alongb_sound; exact H2].
    Qed.

    Corollary accepts_complete_b fuel init evs ls s :
      convergedb fuel init evs = true ->
      run init ls = Some s -> trace ls = evs -> accepts fuel init evs = true.
    Proof.
      intros Hb. destruct (convergedb_sound _ _ _ Hb) as [Hc Hal].
      apply accepts_complete; assumption.
    Qed.

    Corollary final_exists_complete_b fuel init evs p ls s :
      convergedb fuel init evs = true ->
      run init ls = Some s -> trace ls = evs -> p s = true ->
      final_exists fuel init evs p = true.
    Proof.
      intros Hb. destruct (convergedb_sound _ _ _ Hb) as [Hc Hal].
      apply final_exists_complete; assumption.
    Qed.

    (* a rejection is genuine: no run of the model has this trace *)
    Corollary reject_genuine fuel init evs :
      convergedb fuel init evs = true -> accepts fuel init evs = false ->
      forall ls s, run init ls = Some s -> trace ls <> evs.
    Proof.
      intros Hb Hacc ls s Hr Ht.
      rewrite (accepts_complete_b fuel init evs ls s Hb Hr Ht) in Hacc. discriminate.
    Qed.

    (* with both directions: accepts decides trace membership when the closures converged *)
    Corollary accepts_iff (ev_eqb_sound : forall a b, ev_eqb a b = true -> a = b)
      fuel init evs :
      convergedb fuel init evs = true ->
      (accepts fuel init evs = true <-> exists ls s, run init ls = Some s /\ trace ls = evs).
    Proof.
      intros Hb. split.
      - apply accepts_sound. exact ev_eqb_sound.
      - intros [ls [s [Hr Ht]]]. eapply accepts_complete_b; eassumption.
    Qed.

    (* ---------------- how much fuel is enough ---------------- *)

    (* closure invariant: states of [seen] outside the frontier have all successors in [seen] *)
    Definition cl_inv (fr seen : list St) : Prop :=
      forall s, In s seen -> In s fr \/ (forall s', In s' (succ_tau s) -> In s' seen).

    Lemma cl_inv_nil_closed seen : cl_inv [] seen -> tau_closed seen.
    Proof.
      intros Hi s l s' Hs Hv Hst. destruct (Hi s Hs) as [[]|H].
      apply H. eapply succ_tau_all; eassumption.
    Qed.

    Lemma cl_inv_step fr seen :
      cl_inv fr seen ->
      cl_inv (fst (add_new (flat_map succ_tau fr) seen))
             (snd (add_new (flat_map succ_tau fr) seen)).
    Proof.
      intros Hi s Hs.
      destruct (add_new_complete (flat_map succ_tau fr) seen) as [I1 [I2 _]].
      assert (Hsn : In s seen \/
                    In s (fst (add_new (flat_map succ_tau fr) seen))).
      { clear - Hs. revert seen Hs. generalize (flat_map succ_tau fr) as new.
        induction new as [|a t IH]; intros seen Hs; simpl in *; [left; exact Hs|].
        destruct (mem a seen) eqn:Em; [apply IH; exact Hs|].
        specialize (IH (a :: seen)).
        destruct (add_new t (a :: seen)) as [n sn] eqn:Ea. simpl in *.
        destruct (IH Hs) as [[H|H]|H].
        - right; left; exact H.
        - left; exact H.
        - right; right; exact H. }
      destruct Hsn as [Hold|Hnew]; [|left; exact Hnew].
      right. intros s' Hs'. destruct (Hi s Hold) as [Hfr|Hdone].
      - apply I2. apply in_flat_map. exists s. split; assumption.
      - apply I1. apply Hdone. exact Hs'.
    Qed.

    Lemma closure_nil_frontier fuel seen : closure fuel [] seen = seen.
    Proof. destruct fuel; reflexivity. Qed.

    (* either the fixpoint was reached or every wave added at least one state *)
    Lemma closure_closed_or_grows fuel : forall fr seen,
      cl_inv fr seen ->
      tau_closed (closure fuel fr seen) \/ length seen + fuel <= length (closure fuel fr seen).
    Proof.
      induction fuel as [|f IH]; intros fr seen Hi.
      - right. simpl. lia.
      - destruct fr as [|y fr'].
        + left. simpl. apply cl_inv_nil_closed. exact Hi.
        + remember (y :: fr') as fr eqn:Efr.
          assert (Hunf : closure (S f) fr seen =
                         closure f (fst (add_new (flat_map succ_tau fr) seen))
                                   (snd (add_new (flat_map succ_tau fr) seen))).
          { rewrite Efr. simpl. destruct (add_new _ seen) as [n sn]. reflexivity. }
          rewrite Hunf.
          pose proof (cl_inv_step fr seen Hi) as Hi'.
          destruct (add_new_complete (flat_map succ_tau fr) seen) as [_ [_ [_ [_ Hlen]]]].
          destruct (fst (add_new (flat_map succ_tau fr) seen)) as [|z n'] eqn:En.
          * left. rewrite closure_nil_frontier. apply cl_inv_nil_closed. exact Hi'.
          * destruct (IH _ _ Hi') as [Hc|Hg]; [left; exact Hc|].
            right. simpl in Hlen. lia.
    Qed.

    Lemma closure_nodup fuel : forall fr seen, NoDup seen -> NoDup (closure fuel fr seen).
    Proof.
      induction fuel as [|f IH]; intros fr seen Hnd; simpl; [exact Hnd|].
      destruct fr as [|y fr']; [exact Hnd|].
      destruct (add_new_complete (flat_map succ_tau (y :: fr')) seen) as [_ [_ [_ [I4 _]]]].
      destruct (add_new (flat_map succ_tau (y :: fr')) seen) as [n sn] eqn:Ea.
      apply IH. apply I4. exact Hnd.
    Qed.

    (* FUEL: if the states tau-reachable from ss all lie in a list of length <= fuel then the
       closure reaches its fixpoint *)
    Theorem fuel_sufficient fuel ss (univ : list St) :
      (forall s0 ls s, In s0 ss -> run s0 ls = Some s -> trace ls = [] -> In s univ) ->
      length univ <= fuel ->
      tau_closed (close fuel ss).
    Proof.
      intros Huniv Hlen.
      destruct ss as [|a t].
      { unfold GoLTS.close. simpl. rewrite closure_nil_frontier. intros s l s' []. }
      remember (a :: t) as ss eqn:Ess.
      assert (Hincl : incl (close fuel ss) univ).
      { intros s Hs. destruct (close_sound fuel ss s Hs) as [s0 [ls [H0 [Hr Ht]]]].
        eapply Huniv; eassumption. }
      assert (Ha : In a ss) by (rewrite Ess; left; reflexivity).
      unfold GoLTS.close in *.
      destruct (add_new_complete ss []) as [_ [I2 [_ [I4 _]]]].
      assert (Hinv : cl_inv (fst (add_new ss [])) (snd (add_new ss []))).
      { intros s Hs. left.
        destruct (proj2 (add_new_sound ss []) s Hs) as [[]|H]. exact H. }
      specialize (I2 a Ha).
      destruct (add_new ss []) as [n sn] eqn:Ea. simpl in *.
      destruct (closure_closed_or_grows fuel n sn Hinv) as [Hc|Hg]; [exact Hc|].
      exfalso.
      assert (Hnd : NoDup (closure fuel n sn)).
      { apply closure_nodup. apply I4. constructor. }
      pose proof (NoDup_incl_length Hnd Hincl) as Hle.
      destruct sn as [|b sn']; [destruct I2|]. simpl in Hg. lia.
    Qed.
  End Completeness.
End MatcherProofs.

(* ---------------------------------------------------------------------- *)
(* Non-vacuity: a small LTS on which every hypothesis holds and the theorems apply.
   State = counter; internal label None: s -> s+1 while s < 3; visible label Some k: enabled
   iff the counter is k, emits event k and resets the counter. *)
Module Demo.
  Definition dstep (s : nat) (l : option nat) : option nat :=
    match l with
    | None => if s <? 3 then Some (S s) else None
    | Some k => if s =? k then Some 0 else None
    end.
  Definition dvis (l : option nat) : option nat := l.
  Definition dlabels (_ : nat) : list (option nat) := [None].
  Definition dlabels_ev (_ : nat) (e : nat) : list (option nat) := [Some e].

  Definition daccepts := accepts dstep dvis Nat.eqb Nat.eqb dlabels dlabels_ev.

  Example demo_accepts : daccepts 10 0 [2; 1; 3; 0] = true.
  Proof. vm_compute. reflexivity. Qed.
  Example demo_rejects : daccepts 10 0 [2; 4] = false.
  Proof. vm_compute. reflexivity. Qed.
  (* too little fuel: a false rejection, detected by convergedb *)
  Example demo_short_fuel :
    daccepts 1 0 [2] = false /\
    convergedb _ _ _ dstep dvis Nat.eqb Nat.eqb dlabels dlabels_ev 1 0 [2] = false.
  Proof. vm_compute. split; reflexivity. Qed.
  Example demo_converged :
    convergedb _ _ _ dstep dvis Nat.eqb Nat.eqb dlabels dlabels_ev 10 0 [2; 1; 3; 0] = true.
  Proof. vm_compute. reflexivity. Qed.

  Lemma d_ev_sound : forall a b, Nat.eqb a b = true -> a = b.
  Proof. intros a b H. apply Nat.eqb_eq. exact H. Qed.
  Lemma d_st_spec : forall a b, Nat.eqb a b = true <-> a = b.
  Proof. intros a b. apply Nat.eqb_eq. Qed.
  Lemma d_labels : forall s l, dvis l = None -> dstep s l <> None -> In l (dlabels s).
  Proof. intros s l Hv _. unfold dvis in Hv. subst l. left; reflexivity. Qed.
  Lemma d_labels_ev : forall s l e, dvis l = Some e -> dstep s l <> None -> In l (dlabels_ev s e).
  Proof. intros s l e Hv _. unfold dvis in Hv. subst l. left; reflexivity. Qed.

  (* soundness instantiated: the accepted history is a real trace *)
  Example demo_sound :
    exists ls s, run dstep 0 ls = Some s /\ trace _ _ dvis ls = [2; 1; 3; 0].
  Proof. apply (accepts_sound _ _ _ dstep dvis Nat.eqb Nat.eqb dlabels dlabels_ev d_ev_sound 10 0).
         exact demo_accepts. Qed.

  (* completeness instantiated: the rejected history is not a trace of any run *)
  Example demo_reject_genuine :
    forall ls s, run dstep 0 ls = Some s -> trace _ _ dvis ls <> [2; 4].
  Proof.
    apply (reject_genuine _ _ _ dstep dvis Nat.eqb Nat.eqb dlabels dlabels_ev
             d_st_spec Nat.eqb_refl d_labels d_labels_ev 10 0).
    - vm_compute. reflexivity.
    - exact demo_rejects.
  Qed.

  Example demo_final :
    final_exists dstep dvis Nat.eqb Nat.eqb dlabels dlabels_ev 10 0 [2; 1] (Nat.eqb 3) = true.
  Proof. vm_compute. reflexivity. Qed.

  (* fuel bound instantiated: 4 reachable states, fuel 4 suffices for every start set *)
  Example demo_fuel : forall ss, (forall s, In s ss -> s <= 3) ->
    tau_closed _ _ _ dstep dvis
      (close dstep dvis Nat.eqb dlabels 4 ss).
  Proof.
    intros ss Hss.
    apply (fuel_sufficient _ _ _ dstep dvis Nat.eqb dlabels
             d_st_spec d_labels 4 ss [0; 1; 2; 3]); [|simpl; lia].
    intros s0 ls. revert s0. induction ls as [|l ls IH]; intros s0 s H0 Hr Ht.
    - simpl in Hr. inversion Hr; subst. specialize (Hss s H0).
      simpl. lia.
    - simpl in Hr, Ht. destruct l as [k|]; [simpl in Ht; discriminate|].
      simpl in Hr. destruct (s0 <? 3) eqn:El; [|discriminate].
      apply Nat.ltb_lt in El.
      assert (Hgen : forall ls' s1 s2, s1 <= 3 -> run dstep s1 ls' = Some s2 ->
                                       trace _ _ dvis ls' = [] -> s2 <= 3).
      { clear. induction ls' as [|l' ls' IH']; intros s1 s2 H1 Hr Ht; simpl in Hr, Ht.
        - inversion Hr; subst; exact H1.
        - destruct l' as [k|]; [simpl in Ht; discriminate|]. simpl in Hr.
          destruct (s1 <? 3) eqn:E; [|discriminate]. apply Nat.ltb_lt in E.
          apply (IH' (S s1) s2); [lia | exact Hr | exact Ht]. }
      assert (Hs : s <= 3) by (apply (Hgen ls (S s0) s); [lia | exact Hr | exact Ht]).
      simpl. lia.
  Qed.
End Demo.

Print Assumptions closure_sound.
Print Assumptions close_sound.
Print Assumptions states_after_sound.
Print Assumptions accepts_sound.
Print Assumptions first_reject_sound.
Print Assumptions final_exists_sound.
Print Assumptions accepts_complete.
Print Assumptions final_exists_complete.
Print Assumptions reject_genuine.
Print Assumptions accepts_iff.
Print Assumptions fuel_sufficient.
