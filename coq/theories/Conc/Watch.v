(* C18 (part A) — LTS model of xsync.Watchable (xsync/xsync_go1.19.go) together with the scenario
   harness (harness_watch/watch.go): a fixed set of goroutines, each running a small program of
   Set / Value calls or the documented observer loop (`for { v, c := w.Value(); use v; <-c }`),
   optionally parked behind a start gate; a sequential controller that spawns goroutines, opens
   gates and waits for quiescence.  Model only (no proofs here).

   Store: the cells (`watchableInner`) ever published, in publication order; a cell is its value,
   whether its channel is closed, and whether it was created by Set (true) or is the empty inner
   installed by Value (false).  `ptr` is the atomic pointer.  The sequence of Swap steps (= the
   cells created by Set, in order) is the Set history.

   Granularity: every atomic operation (Load, Swap, CompareAndSwap) is one step; allocation of a
   cell is thread-local and merged with the step that publishes it; the close of the old channel
   in Set is a LATER step than the Swap; the harness's non-blocking receive on the returned channel
   (right after Value returns) is a step of its own. *)
From Juniper Require Import Common.Base Conc.GoLTS.
Local Open Scope nat_scope.

(* AValueHeld g: a Value call whose caller is held by gate g between the return of Value and its
   look at the returned channel (so that scenarios can place Sets in that window) *)
Inductive act := ASet (v : Z) | AValue | AValueHeld (g : nat) | AWatch.

Inductive pc :=
| PIdle                               (* goroutine not spawned yet *)
| PGate                               (* spawned; waiting for its start gate, then as PReady *)
| PReady                              (* about to start the next action of its program *)
| PSetCalled (v : Z)                  (* inside Set, before the Swap *)
| PSetSwapped (old : option nat)      (* Swap done, it returned [old]; about to close old's channel *)
| PSetClosed                          (* about to return from Set *)
| PValCalled                          (* inside Value, before the Load *)
| PValNil                             (* Load returned nil; about to CompareAndSwap(nil, empty) *)
| PValCasFailed                       (* the CAS failed; about to Load again *)
| PValGot (k : nat)                   (* Value has its cell (linearised); returns (k.t, k.c) *)
| PValPolled (k : nat) (b : bool)     (* harness: non-blocking receive on k.c gave b *)
| PWait (k : nat)                     (* observer loop: blocked in <-k.c *)
| PPanic.                             (* the goroutine died with a run-time panic *)

Record cell := mkCell { c_val : Z; c_closed : bool; c_set : bool }.
Record thread := mkT { t_gate : option nat; t_prog : list act; t_pc : pc }.

Record st := mkSt {
  ths : list thread;
  cells : list cell;         (* every cell ever published, in publication order *)
  ptr : option nat;          (* the atomic pointer w.p *)
  gates : list bool          (* released? *)
}.

(* the Set history: the values of the Swap steps so far, in order *)
Definition set_history (s : st) : list Z := map c_val (filter c_set (cells s)).

Inductive lab :=
(* visible events (recorded by the harness) *)
| LSpawn (t : nat) | LRelease (g : nat) | LQuiesce
| LCallSet (t : nat) (v : Z) | LRetSet (t : nat)
| LCallValue (t : nat) | LRetValue (t : nat) (v : Z) (closed : bool)
| LPanic (t : nat)            (* a recovered run-time panic; the model never produces it *)
(* internal steps *)
| TSwap (t : nat)             (* Set: oldInner := w.p.Swap(newInner) *)
| TClose (t : nat)            (* Set: if oldInner != nil { close(oldInner.c) } *)
| TLoad (t : nat)             (* Value: inner := w.p.Load() *)
| TCas (t : nat)              (* Value: w.p.CompareAndSwap(nil, emptyInner) *)
| TReload (t : nat)           (* Value: inner = w.p.Load() after a failed CAS *)
| TPoll (t : nat).            (* harness: select { case <-c: closed default: open } *)

(* ---- helpers ---- *)
Definition getth (s : st) (t : nat) : option thread := nth_error (ths s) t.
Definition set_pc (x : thread) (p : pc) : thread := mkT (t_gate x) (t_prog x) p.
Definition setth (s : st) (t : nat) (x : thread) : st := mkSt (upd (ths s) t x) (cells s) (ptr s) (gates s).
Definition with_cells (s : st) (c : list cell) (p : option nat) : st := mkSt (ths s) c p (gates s).
Definition with_gates (s : st) (g : list bool) : st := mkSt (ths s) (cells s) (ptr s) g.

Definition gate_open (s : st) (x : thread) : bool :=
  match t_gate x with
  | None => true
  | Some g => match nth_error (gates s) g with Some b => b | None => false end
  end.

(* the harness looks at the returned channel at once, or after its hold gate has been opened *)
Definition poll_allowed (s : st) (x : thread) : bool :=
  match t_prog x with
  | AValueHeld g :: _ => match nth_error (gates s) g with Some b => b | None => false end
  | _ => true
  end.

Definition close_cell (c : cell) : cell := mkCell (c_val c) true (c_set c).

Definition cell_closed (s : st) (k : nat) : bool :=
  match nth_error (cells s) k with Some c => c_closed c | None => false end.

(* the goroutine is about to start the next action of its program: it has passed its start gate
   (the gate is open), or it has finished the previous action, or (observer loop) the channel it
   waits on is closed.  Passing the gate / waking up is not a step of its own: it is merged with
   the invocation event that follows. *)
Definition ready (s : st) (x : thread) : bool :=
  match t_pc x with
  | PReady => true
  | PGate => gate_open s x
  | PWait k => cell_closed s k
  | _ => false
  end.

(* ---- the transition function ---- *)
Definition step (s : st) (l : lab) : option st :=
  match l with
  | LSpawn t =>
      match getth s t with
      | Some x => match t_pc x with PIdle => Some (setth s t (set_pc x PGate)) | _ => None end
      | None => None
      end
  | LRelease g =>
      if g <? length (gates s) then Some (with_gates s (upd (gates s) g true)) else None
  | LCallSet t v =>
      match getth s t with
      | Some x => match t_prog x with
                  | ASet v' :: _ => if ready s x && Z.eqb v v' then Some (setth s t (set_pc x (PSetCalled v))) else None
                  | _ => None end
      | None => None
      end
  | TSwap t =>
      match getth s t with
      | Some x => match t_pc x with
                  | PSetCalled v =>
                      Some (setth (with_cells s (cells s ++ [mkCell v false true]) (Some (length (cells s))))
                                  t (set_pc x (PSetSwapped (ptr s))))
                  | _ => None end
      | None => None
      end
  | TClose t =>
      match getth s t with
      | Some x => match t_pc x with
                  | PSetSwapped None => Some (setth s t (set_pc x PSetClosed))
                  | PSetSwapped (Some k) =>
                      match nth_error (cells s) k with
                      | Some c =>
                          if c_closed c
                          then Some (setth s t (set_pc x PPanic))       (* close of closed channel *)
                          else Some (setth (with_cells s (upd (cells s) k (close_cell c)) (ptr s)) t (set_pc x PSetClosed))
                      | None => None
                      end
                  | _ => None end
      | None => None
      end
  | LRetSet t =>
      match getth s t with
      | Some x => match t_pc x with
                  | PSetClosed => Some (setth s t (mkT (t_gate x) (tl (t_prog x)) PReady))
                  | _ => None end
      | None => None
      end
  | LCallValue t =>
      match getth s t with
      | Some x => match t_prog x with
                  | AValue :: _ | AValueHeld _ :: _ | AWatch :: _ =>
                      if ready s x then Some (setth s t (set_pc x PValCalled)) else None
                  | _ => None end
      | None => None
      end
  | TLoad t =>
      match getth s t with
      | Some x => match t_pc x with
                  | PValCalled =>
                      match ptr s with
                      | Some k => Some (setth s t (set_pc x (PValGot k)))
                      | None => Some (setth s t (set_pc x PValNil))
                      end
                  | _ => None end
      | None => None
      end
  | TCas t =>
      match getth s t with
      | Some x => match t_pc x with
                  | PValNil =>
                      match ptr s with
                      | None =>
                          Some (setth (with_cells s (cells s ++ [mkCell 0%Z false false]) (Some (length (cells s))))
                                      t (set_pc x (PValGot (length (cells s)))))
                      | Some _ => Some (setth s t (set_pc x PValCasFailed))
                      end
                  | _ => None end
      | None => None
      end
  | TReload t =>
      match getth s t with
      | Some x => match t_pc x with
                  | PValCasFailed =>
                      match ptr s with
                      | Some k => Some (setth s t (set_pc x (PValGot k)))
                      | None => Some (setth s t (set_pc x PPanic))        (* nil dereference *)
                      end
                  | _ => None end
      | None => None
      end
  | TPoll t =>
      match getth s t with
      | Some x => match t_pc x with
                  | PValGot k =>
                      match nth_error (cells s) k with
                      | Some c => if poll_allowed s x then Some (setth s t (set_pc x (PValPolled k (c_closed c)))) else None
                      | None => None
                      end
                  | _ => None end
      | None => None
      end
  | LRetValue t v b =>
      match getth s t with
      | Some x => match t_pc x with
                  | PValPolled k b' =>
                      match nth_error (cells s) k with
                      | Some c =>
                          if Z.eqb (c_val c) v && Bool.eqb b b'
                          then match t_prog x with
                               | AWatch :: _ => Some (setth s t (set_pc x (PWait k)))
                               | AValue :: rest | AValueHeld _ :: rest => Some (setth s t (mkT (t_gate x) rest PReady))
                               | _ => None
                               end
                          else None
                      | None => None
                      end
                  | _ => None end
      | None => None
      end
  | LPanic _ => None
  | LQuiesce => None     (* replaced by [qstep] below *)
  end.

(* ---- label enumeration for the matcher ---- *)
Definition tau_labels (s : st) : list lab :=
  flat_map (fun t => [TSwap t; TClose t; TLoad t; TCas t; TReload t; TPoll t])
           (seq 0 (length (ths s))).

(* visible labels that the scenario's goroutines (not the controller) can emit *)
Definition thread_visible (s : st) (t : nat) : list lab :=
  match getth s t with
  | Some x =>
      match t_pc x with
      | PReady | PGate | PWait _ =>
          match t_prog x with
          | ASet v :: _ => [LCallSet t v]
          | AValue :: _ | AValueHeld _ :: _ | AWatch :: _ => [LCallValue t]
          | [] => []
          end
      | PSetClosed => [LRetSet t]
      | PValPolled k b => match nth_error (cells s) k with Some c => [LRetValue t (c_val c) b] | None => [] end
      | _ => []
      end
  | None => []
  end.

Definition lib_visible (s : st) : list lab := flat_map (thread_visible s) (seq 0 (length (ths s))).

Definition enabled (s : st) (l : lab) : bool := match step s l with Some _ => true | None => false end.

(* nothing can happen without the controller: what the harness's quiescence detector observes *)
Definition quiescent (s : st) : bool :=
  negb (existsb (enabled s) (tau_labels s)) && negb (existsb (enabled s) (lib_visible s)).

Definition qstep (s : st) (l : lab) : option st :=
  match l with
  | LQuiesce => if quiescent s then Some s else None
  | _ => step s l
  end.

(* ---- events ---- *)
Definition vis (l : lab) : option lab :=
  match l with
  | LSpawn _ | LRelease _ | LQuiesce | LCallSet _ _ | LRetSet _ | LCallValue _ | LRetValue _ _ _ | LPanic _ => Some l
  | _ => None
  end.

Definition lab_eqb (a b : lab) : bool :=
  match a, b with
  | LSpawn x, LSpawn y | LRelease x, LRelease y | LRetSet x, LRetSet y | LCallValue x, LCallValue y
  | LPanic x, LPanic y => Nat.eqb x y
  | LQuiesce, LQuiesce => true
  | LCallSet x v, LCallSet y w => Nat.eqb x y && Z.eqb v w
  | LRetValue x v b, LRetValue y w c => Nat.eqb x y && Z.eqb v w && Bool.eqb b c
  | _, _ => false
  end.

Definition optnat_eqb (a b : option nat) : bool :=
  match a, b with None, None => true | Some x, Some y => Nat.eqb x y | _, _ => false end.

Definition pc_eqb (a b : pc) : bool :=
  match a, b with
  | PIdle, PIdle | PGate, PGate | PReady, PReady | PSetClosed, PSetClosed | PValCalled, PValCalled
  | PValNil, PValNil | PValCasFailed, PValCasFailed | PPanic, PPanic => true
  | PSetCalled v, PSetCalled w => Z.eqb v w
  | PSetSwapped x, PSetSwapped y => optnat_eqb x y
  | PValGot k, PValGot j | PWait k, PWait j => Nat.eqb k j
  | PValPolled k b, PValPolled j c => Nat.eqb k j && Bool.eqb b c
  | _, _ => false
  end.

Definition act_eqb (a b : act) : bool :=
  match a, b with
  | ASet v, ASet w => Z.eqb v w
  | AValueHeld g, AValueHeld h => Nat.eqb g h
  | AValue, AValue | AWatch, AWatch => true
  | _, _ => false
  end.

(* the comparisons below use `if` rather than `&&` so that vm_compute stops at the first difference *)
Fixpoint list_eqb {A} (eqb : A -> A -> bool) (a b : list A) : bool :=
  match a, b with
  | [], [] => true
  | x :: a', y :: b' => if eqb x y then list_eqb eqb a' b' else false
  | _, _ => false
  end.

Definition thread_eqb (a b : thread) : bool :=
  if pc_eqb (t_pc a) (t_pc b)
  then if Nat.eqb (length (t_prog a)) (length (t_prog b))
       then if optnat_eqb (t_gate a) (t_gate b) then list_eqb act_eqb (t_prog a) (t_prog b) else false
       else false
  else false.
Definition cell_eqb (a b : cell) : bool :=
  if Z.eqb (c_val a) (c_val b)
  then if Bool.eqb (c_closed a) (c_closed b) then Bool.eqb (c_set a) (c_set b) else false
  else false.
Definition st_eqb (a b : st) : bool :=
  if optnat_eqb (ptr a) (ptr b)
  then if list_eqb thread_eqb (ths a) (ths b)
       then if list_eqb cell_eqb (cells a) (cells b)
            then list_eqb Bool.eqb (gates a) (gates b)
            else false
       else false
  else false.

(* ---- state reduction used by the matcher ----
   A cell is DEAD when its channel is closed, it is not the current cell, and no goroutine holds a
   reference to it (as the cell a Set is about to close, or as the cell a Value obtained / an
   observer waits on).  A dead cell can never be observed again (the pointer only moves to fresh
   cells).  The VALUE of a cell can only be observed through the pointer (a later Load) or by a
   Value call that already holds the cell.  [canon] drops dead cells (renumbering the references),
   clears unobservable values and the ghost flag c_set.  A state and its canonical form have the
   same visible behaviour (same enabled labels, canonical forms of the successors agree), so
   running the matcher on canonical forms accepts exactly the same histories; it keeps the set of
   candidate states small when many overlapping Sets were never observed by a Value.
   [accepts_history_plain] is the matcher without this reduction (used to cross-check it). *)
Definition refers (k : nat) (x : thread) : bool :=
  match t_pc x with
  | PSetSwapped (Some j) | PValGot j | PValPolled j _ | PWait j => Nat.eqb j k
  | _ => false
  end.

Definition reads_value (k : nat) (x : thread) : bool :=
  match t_pc x with
  | PValGot j | PValPolled j _ => Nat.eqb j k
  | _ => false
  end.

Definition dead (s : st) (k : nat) (c : cell) : bool :=
  c_closed c && negb (optnat_eqb (ptr s) (Some k)) && negb (existsb (refers k) (ths s)).

Fixpoint live_from (s : st) (k : nat) (cs : list cell) : list bool :=
  match cs with
  | [] => []
  | c :: t => negb (dead s k c) :: live_from s (S k) t
  end.

(* the new index of cell k: the number of live cells before it *)
Fixpoint renum (lv : list bool) (k : nat) : nat :=
  match k, lv with
  | S k', b :: t => (if b then 1 else 0) + renum t k'
  | _, _ => 0
  end.

Fixpoint compact_from (s : st) (k : nat) (cs : list cell) : list cell :=
  match cs with
  | [] => []
  | c :: t =>
      if dead s k c then compact_from s (S k) t
      else mkCell (if optnat_eqb (ptr s) (Some k) || existsb (reads_value k) (ths s) then c_val c else 0%Z)
                  (c_closed c) true
           :: compact_from s (S k) t
  end.

Definition renum_pc (lv : list bool) (p : pc) : pc :=
  match p with
  | PSetSwapped (Some k) => PSetSwapped (Some (renum lv k))
  | PValGot k => PValGot (renum lv k)
  | PValPolled k b => PValPolled (renum lv k) b
  | PWait k => PWait (renum lv k)
  | _ => p
  end.

Definition canon (s : st) : st :=
  let lv := live_from s 0 (cells s) in
  mkSt (map (fun x => mkT (t_gate x) (t_prog x) (renum_pc lv (t_pc x))) (ths s))
       (compact_from s 0 (cells s))
       (match ptr s with Some k => Some (renum lv k) | None => None end)
       (gates s).

Definition cqstep (s : st) (l : lab) : option st :=
  match qstep s l with Some s' => Some (canon s') | None => None end.

(* the initial state of a scenario: thread t has the configured start gate and program *)
Definition init (cfg : list (option nat * list act)) (ngates : nat) : st :=
  mkSt (map (fun p => mkT (fst p) (snd p) PIdle) cfg) [] None (repeat false ngates).

(* history acceptance: some run of the model produces exactly the recorded events, in order *)
Definition accepts_history (cfg : list (option nat * list act)) (ngates : nat) (evs : list lab) : bool :=
  accepts cqstep vis lab_eqb st_eqb tau_labels (fun _ e => [e]) 64 (init cfg ngates) evs.

Definition first_rejected (cfg : list (option nat * list act)) (ngates : nat) (evs : list lab) : option nat :=
  first_reject cqstep vis lab_eqb st_eqb tau_labels (fun _ e => [e]) 64
               (close cqstep vis st_eqb tau_labels 64 [init cfg ngates]) evs O.

(* the same without the state reduction *)
Definition accepts_history_plain (cfg : list (option nat * list act)) (ngates : nat) (evs : list lab) : bool :=
  accepts qstep vis lab_eqb st_eqb tau_labels (fun _ e => [e]) 64 (init cfg ngates) evs.
