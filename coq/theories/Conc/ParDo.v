(* C13 — LTS model of parallel.Do / DoContext / Map / MapContext (parallel/parallel.go) together with
   the scenario harness (harness_pardo/pardo.go).  Model only (no proofs here).

   Threads: the calling goroutine ([mpc]) and [eff cfg] worker threads ([wpc]).  Program counters sit
   at the atomic AddInt32, the ctx.Err() check, the up-call f (enter / exit are visible events logged
   by the instrumented f; its duration is arbitrary: the exit label is an environment choice that is
   only held back by a harness gate), the positional write out[i] = v of the Map wrappers, the return
   of the worker function (errgroup: first error recorded + derived context cancelled, wg.Done) and
   wg.Wait / eg.Wait in the caller.

   errgroup is modelled from its documentation: Go(f) runs f in a goroutine; the first non-nil error
   is recorded and cancels the derived context; Wait blocks until all have returned, then cancels the
   derived context and returns the recorded error.

   The sequential path (effective parallelism 1) is the same loop run by the calling goroutine itself:
   it is represented by ONE pseudo worker that never checks the context ([use_eg] = false: no WCheck
   pc), is handed the caller's own context, and whose first error is returned as is (no errgroup, no
   cancellation).  The trailing [TWait] is then a stutter step of the caller.

   Context: [cctx] is the caller's context (Live / cancel() called / Done); [dctx] says whether the
   context handed to f is Done: it is the derived errgroup context on the parallel path (Done as soon
   as the caller's is: parent -> child propagation happens inside the cancel-effect step) and the
   caller's context itself on the sequential path. *)
From Juniper Require Import Common.Base Conc.GoLTS.
From Coq Require Import Arith PeanoNat.
Local Open Scope nat_scope.

Inductive cstate := CLive | CReq | CDone.
Inductive rerr := ECtx | EF (code : nat).        (* ctx.Err() / an error returned by a call of f *)

Record config := mkCfg {
  c_ctx : bool;      (* DoContext / MapContext *)
  c_map : bool;      (* Map / MapContext *)
  c_n : nat;
  c_par : Z;         (* the requested parallelism *)
  c_gmp : nat        (* runtime.GOMAXPROCS(-1) *)
}.

(* parallelism as computed by the code: <= 0 -> GOMAXPROCS; capped by n *)
Definition eff (c : config) : nat :=
  Nat.min (if (c_par c <=? 0)%Z then c_gmp c else Z.to_nat (c_par c)) (c_n c).
Definition seqm (c : config) : bool := eff c =? 1.
(* errgroup + ctx.Err() check exist only on the parallel path of the context API *)
Definition use_eg (c : config) : bool := c_ctx c && negb (seqm c).

Inductive wpc :=
| WFetch                                   (* about to i := AddInt32(&x, 1)  (sequential: loop head) *)
| WCheck (i : nat)                         (* i < n; about to read ctx.Err() *)
| WCall (i : nat)                          (* about to call f(i) *)
| WIn (i : nat)                            (* inside f(i) *)
| WWrite (i : nat) (v : Z) (r : option nat)  (* Map wrappers: f returned (v, r); about to write out[i] *)
| WRet (r : option rerr)                   (* worker function about to return r *)
| WDone.

Inductive mpc :=
| MIdle                                    (* API not called yet *)
| MWait                                    (* workers spawned; in wg.Wait / eg.Wait *)
| MRetp (r : option rerr)                  (* about to return r *)
| MDone (r : option rerr).

Record st := mkSt {
  cfg : config;
  pc : mpc;
  ws : list wpc;
  next : nat;                 (* x + 1: the next index AddInt32 will hand out *)
  cctx : cstate;
  dctx : bool;
  errc : option rerr;         (* errgroup's first error (sequential: the returned error) *)
  out : list Z;
  gopen : list bool;          (* harness gate of f(i) is open *)
  (* ghost history *)
  owner : list nat;           (* owner[i] = the worker that was handed index i *)
  started : list nat;         (* indices f was entered with, in order *)
  finished : list (nat * option nat * Z);   (* (i, error code, value) of every returned call *)
  cstarts : nat               (* calls entered with a cancelled context while the caller's was not Done *)
}.

Inductive lab :=
(* visible events *)
| LCall
| LEnter (w i : nat) (c : bool)
| LExit (w i : nat) (r : option nat) (v : Z)
| LRet (r : option rerr) (o : option (list Z))
| LCancel | LCancelDone | LRelease (i : nat) | LQuiesce
(* internal steps *)
| TFetch (w : nat) | TCheck (w : nat) | TWrite (w : nat) | TFinish (w : nat) | TWait | TCancelEff.

(* ---- helpers ---- *)
Definition set_ws (s : st) (l : list wpc) : st :=
  mkSt (cfg s) (pc s) l (next s) (cctx s) (dctx s) (errc s) (out s) (gopen s) (owner s) (started s) (finished s) (cstarts s).
Definition setw (s : st) (w : nat) (p : wpc) : st := set_ws s (upd (ws s) w p).

Definition after_call (r : option nat) : wpc :=
  match r with None => WFetch | Some c => WRet (Some (EF c)) end.

Definition cdone (c : cstate) : bool := match c with CDone => true | _ => false end.
Definition is_done (p : wpc) : bool := match p with WDone => true | _ => false end.
Definition gate_open (s : st) (i : nat) : bool := nth i (gopen s) true.
Definition is_none {A} (o : option A) : bool := match o with None => true | Some _ => false end.

Fixpoint zlist_eqb (a b : list Z) : bool :=
  match a, b with
  | [], [] => true
  | x :: a', y :: b' => Z.eqb x y && zlist_eqb a' b'
  | _, _ => false
  end.
Definition ozlist_eqb (a b : option (list Z)) : bool :=
  match a, b with None, None => true | Some x, Some y => zlist_eqb x y | _, _ => false end.
Definition rerr_eqb (a b : rerr) : bool :=
  match a, b with ECtx, ECtx => true | EF x, EF y => Nat.eqb x y | _, _ => false end.
Definition orerr_eqb (a b : option rerr) : bool :=
  match a, b with None, None => true | Some x, Some y => rerr_eqb x y | _, _ => false end.

(* what the API hands back besides the error: Map returns out; MapContext returns out only with a nil error *)
Definition ret_out (s : st) (r : option rerr) : option (list Z) :=
  if c_map (cfg s)
  then (if c_ctx (cfg s) then match r with None => Some (out s) | Some _ => None end else Some (out s))
  else None.

(* ---- the transition function ---- *)
Definition step (s : st) (l : lab) : option st :=
  match l with
  | LCall =>
      match pc s with
      | MIdle => Some (mkSt (cfg s) MWait (repeat WFetch (eff (cfg s))) (next s) (cctx s) (dctx s) (errc s)
                            (out s) (gopen s) (owner s) (started s) (finished s) (cstarts s))
      | _ => None
      end
  | TFetch w =>
      match nth_error (ws s) w with
      | Some WFetch =>
          let i := next s in
          let p := if i <? c_n (cfg s)
                   then (if use_eg (cfg s) then WCheck i else WCall i)
                   else WRet None in
          Some (mkSt (cfg s) (pc s) (upd (ws s) w p) (S i) (cctx s) (dctx s) (errc s) (out s) (gopen s)
                     (owner s ++ [w]) (started s) (finished s) (cstarts s))
      | _ => None
      end
  | TCheck w =>
      match nth_error (ws s) w with
      | Some (WCheck i) => Some (setw s w (if dctx s then WRet (Some ECtx) else WCall i))
      | _ => None
      end
  | LEnter w i c =>
      match nth_error (ws s) w with
      | Some (WCall j) =>
          if (i =? j) && Bool.eqb c (dctx s)
          then Some (mkSt (cfg s) (pc s) (upd (ws s) w (WIn i)) (next s) (cctx s) (dctx s) (errc s) (out s)
                          (gopen s) (owner s) (started s ++ [i]) (finished s)
                          (cstarts s + (if c && negb (cdone (cctx s)) then 1 else 0)))
          else None
      | _ => None
      end
  | LExit w i r v =>
      match nth_error (ws s) w with
      | Some (WIn j) =>
          if (i =? j) && gate_open s i
             && (c_ctx (cfg s) || is_none r)          (* Do / Map: f cannot fail *)
             && (c_map (cfg s) || Z.eqb v 0%Z)          (* Do / DoContext: f returns no value *)
          then Some (mkSt (cfg s) (pc s)
                          (upd (ws s) w (if c_map (cfg s) then WWrite i v r else after_call r))
                          (next s) (cctx s) (dctx s) (errc s) (out s) (gopen s) (owner s) (started s)
                          (finished s ++ [(i, r, v)]) (cstarts s))
          else None
      | _ => None
      end
  | TWrite w =>
      match nth_error (ws s) w with
      | Some (WWrite i v r) =>
          Some (mkSt (cfg s) (pc s) (upd (ws s) w (after_call r)) (next s) (cctx s) (dctx s) (errc s)
                     (upd (out s) i v) (gopen s) (owner s) (started s) (finished s) (cstarts s))
      | _ => None
      end
  | TFinish w =>
      match nth_error (ws s) w with
      | Some (WRet r) =>
          match r, errc s with
          | Some e, None =>   (* errOnce: record the first error, cancel the derived context *)
              Some (mkSt (cfg s) (pc s) (upd (ws s) w WDone) (next s) (cctx s) (dctx s || use_eg (cfg s)) (Some e)
                         (out s) (gopen s) (owner s) (started s) (finished s) (cstarts s))
          | _, _ => Some (setw s w WDone)
          end
      | _ => None
      end
  | TWait =>
      match pc s with
      | MWait =>
          if forallb is_done (ws s)
          then Some (mkSt (cfg s) (MRetp (errc s)) (ws s) (next s) (cctx s) (dctx s || use_eg (cfg s)) (errc s)
                          (out s) (gopen s) (owner s) (started s) (finished s) (cstarts s))
          else None
      | _ => None
      end
  | LRet r o =>
      match pc s with
      | MRetp r' =>
          if orerr_eqb r r' && ozlist_eqb o (ret_out s r)
          then Some (mkSt (cfg s) (MDone r) (ws s) (next s) (cctx s) (dctx s) (errc s) (out s) (gopen s)
                          (owner s) (started s) (finished s) (cstarts s))
          else None
      | _ => None
      end
  | LCancel =>
      Some (mkSt (cfg s) (pc s) (ws s) (next s) (match cctx s with CLive => CReq | c => c end) (dctx s) (errc s)
                 (out s) (gopen s) (owner s) (started s) (finished s) (cstarts s))
  | TCancelEff =>
      match cctx s with
      | CReq => Some (mkSt (cfg s) (pc s) (ws s) (next s) CDone (dctx s || c_ctx (cfg s)) (errc s)
                           (out s) (gopen s) (owner s) (started s) (finished s) (cstarts s))
      | _ => None
      end
  | LCancelDone => if cdone (cctx s) then Some s else None     (* cancel() has returned *)
  | LRelease i =>
      Some (mkSt (cfg s) (pc s) (ws s) (next s) (cctx s) (dctx s) (errc s) (out s) (upd (gopen s) i true)
                 (owner s) (started s) (finished s) (cstarts s))
  | LQuiesce => None     (* see [qstep] *)
  end.

(* ---- label enumeration ---- *)
Definition tau_labels (s : st) : list lab :=
  flat_map (fun w => [TFetch w; TCheck w; TWrite w; TFinish w]) (seq 0 (length (ws s)))
  ++ [TWait; TCancelEff].

Definition enabled (s : st) (l : lab) : bool := match step s l with Some _ => true | None => false end.

(* visible labels of the library side (not the controller) that are enabled: entering a call, leaving a
   call whose gate is open, returning *)
Definition lib_visible_enabled (s : st) : bool :=
  existsb (fun p => match p with
                    | WCall _ => true
                    | WIn i => gate_open s i
                    | _ => false end) (ws s)
  || match pc s with MRetp _ => true | _ => false end.

Definition quiescent (s : st) : bool :=
  negb (existsb (enabled s) (tau_labels s)) && negb (lib_visible_enabled s).

Definition qstep (s : st) (l : lab) : option st :=
  match l with
  | LQuiesce => if quiescent s then Some s else None
  | _ => step s l
  end.

(* ---- events (what the harness records: no worker identities) ---- *)
Inductive ev :=
| ECall | EEnter (i : nat) (c : bool) | EExit (i : nat) (r : option nat) (v : Z)
| ERet (r : option rerr) (o : option (list Z)) | ECancel | ECancelDone | ERelease (i : nat) | EQuiesce.

Definition vis (l : lab) : option ev :=
  match l with
  | LCall => Some ECall
  | LEnter _ i c => Some (EEnter i c)
  | LExit _ i r v => Some (EExit i r v)
  | LRet r o => Some (ERet r o)
  | LCancel => Some ECancel
  | LCancelDone => Some ECancelDone
  | LRelease i => Some (ERelease i)
  | LQuiesce => Some EQuiesce
  | _ => None
  end.

Definition onat_eqb (a b : option nat) : bool :=
  match a, b with None, None => true | Some x, Some y => Nat.eqb x y | _, _ => false end.

Definition ev_eqb (a b : ev) : bool :=
  match a, b with
  | ECall, ECall | ECancel, ECancel | ECancelDone, ECancelDone | EQuiesce, EQuiesce => true
  | EEnter i c, EEnter j d => Nat.eqb i j && Bool.eqb c d
  | EExit i r v, EExit j q u => Nat.eqb i j && onat_eqb r q && Z.eqb v u
  | ERet r o, ERet q p => orerr_eqb r q && ozlist_eqb o p
  | ERelease i, ERelease j => Nat.eqb i j
  | _, _ => false
  end.

Definition labels_ev (s : st) (e : ev) : list lab :=
  match e with
  | ECall => [LCall]
  | EEnter i c => map (fun w => LEnter w i c) (seq 0 (length (ws s)))
  | EExit i r v => map (fun w => LExit w i r v) (seq 0 (length (ws s)))
  | ERet r o => [LRet r o]
  | ECancel => [LCancel]
  | ECancelDone => [LCancelDone]
  | ERelease i => [LRelease i]
  | EQuiesce => [LQuiesce]
  end.

(* ---- state equality (ghosts included; cfg is constant along a run) ---- *)
Fixpoint list_eqb {A} (eqb : A -> A -> bool) (a b : list A) : bool :=
  match a, b with
  | [], [] => true
  | x :: a', y :: b' => eqb x y && list_eqb eqb a' b'
  | _, _ => false
  end.
Definition wpc_eqb (a b : wpc) : bool :=
  match a, b with
  | WFetch, WFetch | WDone, WDone => true
  | WCheck i, WCheck j | WCall i, WCall j | WIn i, WIn j => Nat.eqb i j
  | WWrite i v r, WWrite j u q => Nat.eqb i j && Z.eqb v u && onat_eqb r q
  | WRet r, WRet q => orerr_eqb r q
  | _, _ => false
  end.
Definition mpc_eqb (a b : mpc) : bool :=
  match a, b with
  | MIdle, MIdle | MWait, MWait => true
  | MRetp r, MRetp q | MDone r, MDone q => orerr_eqb r q
  | _, _ => false
  end.
Definition cstate_eqb (a b : cstate) : bool :=
  match a, b with CLive, CLive | CReq, CReq | CDone, CDone => true | _, _ => false end.
Definition fin_eqb (a b : nat * option nat * Z) : bool :=
  let '(i, r, v) := a in let '(j, q, u) := b in Nat.eqb i j && onat_eqb r q && Z.eqb v u.
Definition st_eqb (a b : st) : bool :=
  mpc_eqb (pc a) (pc b) && list_eqb wpc_eqb (ws a) (ws b) && Nat.eqb (next a) (next b)
  && cstate_eqb (cctx a) (cctx b) && Bool.eqb (dctx a) (dctx b) && orerr_eqb (errc a) (errc b)
  && zlist_eqb (out a) (out b) && list_eqb Bool.eqb (gopen a) (gopen b)
  && list_eqb Nat.eqb (owner a) (owner b) && list_eqb Nat.eqb (started a) (started b)
  && list_eqb fin_eqb (finished a) (finished b) && Nat.eqb (cstarts a) (cstarts b).

(* the initial state of a scenario: [gated] lists, per index, whether f(i) waits for a release *)
Definition init (c : config) (gated : list bool) : st :=
  mkSt c MIdle [] 0 CLive false None (repeat 0%Z (c_n c)) (map negb gated) [] [] [] 0.

(* ---- the matcher's reduced exploration ----
   Exploring every interleaving of the workers' internal steps is exponential in the number of
   workers.  The matcher therefore runs, after every label, all internal steps whose outcome is
   already determined ([safe_tau]):
   - AddInt32 of the lowest-numbered ready worker (workers are interchangeable: events carry no
     worker identity), the positional write, a worker return that cannot record the first error, Wait:
     they commute with every later step of the other threads;
   - a ctx.Err() check once the context is Done (the outcome can no longer change);
   - a ctx.Err() check on a live context exactly when the history contains an enter event for that
     index ([will], computed from the whole recorded history): a worker whose index is entered must
     have seen a live context, and such a check commutes with everything before the first
     cancellation; a worker whose index is never entered must have seen a cancelled one, so its check
     waits until the context is Done.
   Left to the search: TCancelEff and a TFinish that may record the first error (and cancel).
   Every step taken is a genuine [step] of the model (lemma [mstep_run] in ParDoProofs.v), so every
   history the matcher accepts is produced by a run of [qstep]; the hint only prunes. *)
Definition safe_of (will : list bool) (s : st) (w : nat) (p : wpc) : option lab :=
  match p with
  | WFetch => Some (TFetch w)
  | WWrite _ _ _ => Some (TWrite w)
  | WCheck i => if dctx s || nth i will false then Some (TCheck w) else None
  | WRet None => Some (TFinish w)
  | WRet (Some _) => if is_none (errc s) then None else Some (TFinish w)   (* first error: order matters *)
  | _ => None
  end.

Fixpoint first_safe (will : list bool) (s : st) (w : nat) (l : list wpc) : option lab :=
  match l with
  | [] => None
  | p :: t => match safe_of will s w p with Some x => Some x | None => first_safe will s (S w) t end
  end.

Definition safe_tau (will : list bool) (s : st) : option lab :=
  match first_safe will s 0 (ws s) with
  | Some x => Some x
  | None => match pc s with MWait => if forallb is_done (ws s) then Some TWait else None | _ => None end
  end.

Fixpoint settle (will : list bool) (fuel : nat) (s : st) : st :=
  match fuel with
  | O => s
  | S f => match safe_tau will s with
           | Some l => match step s l with Some s' => settle will f s' | None => s end
           | None => s
           end
  end.

Definition settle_fuel (s : st) : nat := 6 * length (ws s) + 8.

Definition mstep (will : list bool) (s : st) (l : lab) : option st :=
  match qstep s l with Some s' => Some (settle will (settle_fuel s') s') | None => None end.

(* internal labels the matcher explores by search *)
Definition m_labels (s : st) : list lab := map TFinish (seq 0 (length (ws s))) ++ [TCancelEff].

(* will[i] = the history contains an enter event of index i *)
Fixpoint will_of (n : nat) (evs : list ev) : list bool :=
  match evs with
  | [] => repeat false n
  | EEnter i _ :: t => upd (will_of n t) i true
  | _ :: t => will_of n t
  end.

Definition accepts_history (c : config) (gated : list bool) (evs : list ev) : bool :=
  let will := will_of (c_n c) evs in
  accepts (mstep will) vis ev_eqb st_eqb m_labels labels_ev 64 (init c gated) evs.

Definition first_rejected (c : config) (gated : list bool) (evs : list ev) : option nat :=
  let will := will_of (c_n c) evs in
  first_reject (mstep will) vis ev_eqb st_eqb m_labels labels_ev 64
               (close (mstep will) vis st_eqb m_labels 64 [init c gated]) evs O.

(* the same with the unreduced relation (exponential; used to cross-check the reduction on small cases) *)
Definition accepts_history_full (c : config) (gated : list bool) (evs : list ev) : bool :=
  accepts qstep vis ev_eqb st_eqb tau_labels labels_ev 64 (init c gated) evs.
