(* C17 — LTS model of xsync.Group (xsync/xsync.go: NewGroup, spawn, Do, Periodic, Trigger,
   PeriodicOrTrigger, Stop, StopAndWait) together with the scenario harness (harness_group/group.go).
   Model only (no proofs here).

   Threads.
   * one REGISTRATION thread per registration r (a call of Do / Periodic / Trigger / PeriodicOrTrigger);
     its program counter [rpc] follows spawn():  RLock / ctx.Err() check / wg.Add(1) / RUnlock / go
     as SEPARATE steps, so that the race with Stop's  Lock / cancel / Unlock  is really examined.
   * the goroutine spawned for r ([gpc]): the loop of Periodic / Trigger / PeriodicOrTrigger with the
     g.ctx.Err() check, the select (one poll-or-park step; a send / timer-fire / cancel that makes a
     parked select ready completes it in the same step), t.Stop(), the conditional drain <-t.C,
     t.Reset, the up-call f (enter/exit events), wg.Done.
   * TRIGGER-CALL threads: one call of the function returned by Trigger / PeriodicOrTrigger
     (non-blocking send into the one-slot channel c).
   * STOPPER threads: Stop or StopAndWait (Lock / cancel / Unlock / wg.Wait).
   * the environment: cancels the parent context, fires timers, releases the gates inside f.

   RWMutex m  = (number of readers, writer flag); RLock needs no writer, Lock needs no reader and no
   writer (Go's writer preference only removes schedules).  WaitGroup = counter, Wait enabled at 0.
   g.ctx = one bit [ctxd] (cancelCtx sets err and closes Done under one mutex, so Err() and Done agree);
   the parent context is Live / cancel requested / Done, the child is cancelled in the effect step.
   Timer (go.mod says go 1.18, so the pre-1.23 channel semantics apply): two bits
     (t_act, t_chan) = (timer is pending, a value sits in the capacity-1 channel t.C)
     Idle = (false,false)   Armed = (true,false)   Fired = (false,true)   stale value = (true,true).
   Fire needs t_act: t_act := false and the value is put into the channel (or handed to the parked
   select).  Stop returns t_act and clears it; Reset sets t_act and does NOT touch the channel; a
   receive clears t_chan.  A timer may fire at any time after it was armed ([TFire] is an environment
   label; real intervals / jitter are not part of the property, so there is no clock value). *)
From Juniper Require Import Common.Base Conc.GoLTS.
From Coq Require Import Arith PeanoNat.
Local Open Scope nat_scope.

Inductive kind := KDo | KPeriodic | KTrigger | KPoT.

(* registration thread (spawn) *)
Inductive rpc :=
| RIdle        (* call not started *)
| RCalled      (* Call logged; about to g.m.RLock() *)
| RLocked      (* holds m in R; about to evaluate g.ctx.Err() *)
| RCheckOk     (* saw Err()==nil; about to g.wg.Add(1) *)
| RNoSpawn     (* saw Err()!=nil; about to RUnlock and return *)
| RAdded       (* wg.Add(1) done; about to RUnlock *)
| RUnlocked    (* about to execute the go statement *)
| RSkipped     (* returned from spawn without spawning; about to return to the caller *)
| RSpawned     (* go statement executed; about to return to the caller *)
| RRet.        (* Ret logged *)

(* the spawned goroutine *)
Inductive gpc :=
| GNone        (* not spawned *)
| GStart       (* Periodic / PoT: about to t := time.NewTimer(..) *)
| GTop         (* loop head: about to evaluate g.ctx.Err() *)
| GSelect      (* about to execute the select *)
| GParked      (* parked in the select *)
| GStopT       (* PoT, case <-c taken: about to call t.Stop() *)
| GDrain       (* PoT, t.Stop() returned false: about to <-t.C *)
| GReset       (* about to t.Reset(..) *)
| GRunF        (* about to call f(g.ctx) *)
| GInF         (* inside f *)
| GExiting     (* returning: deferred t.Stop(), then g.wg.Done() *)
| GExited.

Inductive tpc := TIdle | TCalled | TSent | TRet.
Inductive spc := SIdle | SCalled | SLocked | SCancelled | SUnlocked | SWaited | SRet.
Inductive cstate := CLive | CReq | CDone.

Record reg := mkR {
  r_kind : kind;
  r_fctx : bool;       (* harness f: true = blocks until ctx.Done; false = waits at its gate *)
  r_open : bool;       (* gate permanently open *)
  r_permits : nat;     (* gate: one permit lets one run of f return *)
  r_rpc : rpc;
  r_gpc : gpc;
  r_tok : bool;        (* the one-slot trigger channel c holds a token *)
  r_tact : bool;       (* timer pending *)
  r_tchan : bool;      (* value in t.C *)
  r_runs : nat;        (* ghost: number of f-enter events so far *)
  r_infl : nat;        (* ghost: runs of f in progress (enter counted, exit not yet) *)
  r_spawns : nat       (* ghost: number of go statements executed for this registration *)
}.

Record trig := mkT { t_reg : nat; t_pc : tpc; t_runs0 : nat (* ghost: r_runs at the Call event *) }.
Record stopper := mkS { s_wait : bool; s_pc : spc }.

Record st := mkSt {
  regs : list reg;
  trigs : list trig;
  stops : list stopper;
  readers : nat;       (* g.m: number of read holders *)
  writer : bool;       (* g.m: write-held *)
  ctxd : bool;         (* g.ctx is cancelled *)
  parent : cstate;     (* the parent context *)
  stopped : bool;      (* ghost: g.cancel() was executed (under the write lock) *)
  wg : nat
}.

Inductive lab :=
(* visible events *)
| LCallReg (r : nat) | LRetReg (r : nat)
| LCallTrig (t : nat) | LRetTrig (t : nat)
| LCallStop (k : nat) | LRetStop (k : nat)
| LFEnter (r : nat) | LFExit (r : nat)
| LRelease (r : nat) | LOpen (r : nat) | LCancelParent | LQuiesce
(* internal steps: spawn *)
| TRLock (r : nat) | TCheck (r : nat) | TAdd (r : nat) | TRUnlock (r : nat) | TGo (r : nat)
(* internal steps: the loops *)
| TNewTimer (r : nat) | TCheckCtx (r : nat) | TSelCtx (r : nat) | TSelTimer (r : nat)
| TSelTrig (r : nat) | TPark (r : nat) | TStopTimer (r : nat) | TDrain (r : nat) | TReset (r : nat)
| TDone (r : nat)
(* environment: the runtime fires r's timer *)
| TFire (r : nat)
(* trigger function *)
| TTrigHandoff (t : nat) | TTrigBuffer (t : nat) | TTrigDrop (t : nat)
(* Stop / StopAndWait *)
| TWLock (k : nat) | TStopCancel (k : nat) | TWUnlock (k : nat) | TWait (k : nat)
(* parent cancellation takes effect on g.ctx *)
| TParentEff.

(* ---- record updates ---- *)
Definition r_gate (x : reg) (o : bool) (p : nat) : reg :=
  mkR (r_kind x) (r_fctx x) o p (r_rpc x) (r_gpc x) (r_tok x) (r_tact x) (r_tchan x) (r_runs x) (r_infl x) (r_spawns x).
Definition r_setr (x : reg) (p : rpc) : reg :=
  mkR (r_kind x) (r_fctx x) (r_open x) (r_permits x) p (r_gpc x) (r_tok x) (r_tact x) (r_tchan x) (r_runs x) (r_infl x) (r_spawns x).
Definition r_setg (x : reg) (p : gpc) : reg :=
  mkR (r_kind x) (r_fctx x) (r_open x) (r_permits x) (r_rpc x) p (r_tok x) (r_tact x) (r_tchan x) (r_runs x) (r_infl x) (r_spawns x).
Definition r_settok (x : reg) (b : bool) : reg :=
  mkR (r_kind x) (r_fctx x) (r_open x) (r_permits x) (r_rpc x) (r_gpc x) b (r_tact x) (r_tchan x) (r_runs x) (r_infl x) (r_spawns x).
Definition r_settimer (x : reg) (a c : bool) : reg :=
  mkR (r_kind x) (r_fctx x) (r_open x) (r_permits x) (r_rpc x) (r_gpc x) (r_tok x) a c (r_runs x) (r_infl x) (r_spawns x).
Definition r_ghost (x : reg) (runs infl spawns : nat) : reg :=
  mkR (r_kind x) (r_fctx x) (r_open x) (r_permits x) (r_rpc x) (r_gpc x) (r_tok x) (r_tact x) (r_tchan x) runs infl spawns.

Definition with_regs (s : st) (l : list reg) : st :=
  mkSt l (trigs s) (stops s) (readers s) (writer s) (ctxd s) (parent s) (stopped s) (wg s).
Definition with_trigs (s : st) (l : list trig) : st :=
  mkSt (regs s) l (stops s) (readers s) (writer s) (ctxd s) (parent s) (stopped s) (wg s).
Definition with_stops (s : st) (l : list stopper) : st :=
  mkSt (regs s) (trigs s) l (readers s) (writer s) (ctxd s) (parent s) (stopped s) (wg s).
Definition with_lock (s : st) (rd : nat) (w : bool) : st :=
  mkSt (regs s) (trigs s) (stops s) rd w (ctxd s) (parent s) (stopped s) (wg s).
Definition with_ctx (s : st) (d : bool) (p : cstate) (sp : bool) : st :=
  mkSt (regs s) (trigs s) (stops s) (readers s) (writer s) d p sp (wg s).
Definition with_wg (s : st) (n : nat) : st :=
  mkSt (regs s) (trigs s) (stops s) (readers s) (writer s) (ctxd s) (parent s) (stopped s) n.

Definition getr (s : st) (r : nat) : option reg := nth_error (regs s) r.
Definition setr (s : st) (r : nat) (x : reg) : st := with_regs s (upd (regs s) r x).
Definition gett (s : st) (t : nat) : option trig := nth_error (trigs s) t.
Definition sett (s : st) (t : nat) (x : trig) : st := with_trigs s (upd (trigs s) t x).
Definition gets (s : st) (k : nat) : option stopper := nth_error (stops s) k.
Definition sets (s : st) (k : nat) (x : stopper) : st := with_stops s (upd (stops s) k x).

Definition has_timer (k : kind) : bool := match k with KPeriodic | KPoT => true | _ => false end.
Definition has_trig (k : kind) : bool := match k with KTrigger | KPoT => true | _ => false end.

(* g.ctx is cancelled: every goroutine parked in its select takes the ctx.Done arm *)
Definition wake_ctx (x : reg) : reg :=
  match r_gpc x with GParked => r_setg x GExiting | _ => x end.

(* where the goroutine goes after receiving from the trigger channel c *)
Definition after_trig (k : kind) : gpc := match k with KPoT => GStopT | _ => GRunF end.
(* first pc of the goroutine body *)
Definition first_pc (k : kind) : gpc :=
  match k with KDo => GRunF | KTrigger => GTop | KPeriodic | KPoT => GStart end.
(* after f returned *)
Definition after_f (k : kind) : gpc := match k with KDo => GExiting | _ => GTop end.

(* ---- the transition function ---- *)
Definition step (s : st) (l : lab) : option st :=
  match l with
  (* ---------------- registration: Do / Periodic / Trigger / PeriodicOrTrigger -> spawn *)
  | LCallReg r =>
      match getr s r with
      | Some x => match r_rpc x with RIdle => Some (setr s r (r_setr x RCalled)) | _ => None end
      | None => None
      end
  | TRLock r =>
      match getr s r with
      | Some x => match r_rpc x with
                  | RCalled => if writer s then None
                               else Some (with_lock (setr s r (r_setr x RLocked)) (S (readers s)) false)
                  | _ => None end
      | None => None
      end
  | TCheck r =>
      match getr s r with
      | Some x => match r_rpc x with
                  | RLocked => Some (setr s r (r_setr x (if ctxd s then RNoSpawn else RCheckOk)))
                  | _ => None end
      | None => None
      end
  | TAdd r =>
      match getr s r with
      | Some x => match r_rpc x with
                  | RCheckOk => Some (with_wg (setr s r (r_setr x RAdded)) (S (wg s)))
                  | _ => None end
      | None => None
      end
  | TRUnlock r =>
      match getr s r with
      | Some x => match r_rpc x with
                  | RAdded => Some (with_lock (setr s r (r_setr x RUnlocked)) (pred (readers s)) (writer s))
                  | RNoSpawn => Some (with_lock (setr s r (r_setr x RSkipped)) (pred (readers s)) (writer s))
                  | _ => None end
      | None => None
      end
  | TGo r =>
      match getr s r with
      | Some x => match r_rpc x with
                  | RUnlocked =>
                      Some (setr s r (r_ghost (r_setg (r_setr x RSpawned) (first_pc (r_kind x)))
                                              (r_runs x) (r_infl x) (S (r_spawns x))))
                  | _ => None end
      | None => None
      end
  | LRetReg r =>
      match getr s r with
      | Some x => match r_rpc x with
                  | RSkipped | RSpawned => Some (setr s r (r_setr x RRet))
                  | _ => None end
      | None => None
      end
  (* ---------------- the spawned goroutine *)
  | TNewTimer r =>
      match getr s r with
      | Some x => match r_gpc x with
                  | GStart => Some (setr s r (r_settimer (r_setg x GTop) true false))
                  | _ => None end
      | None => None
      end
  | TCheckCtx r =>
      match getr s r with
      | Some x => match r_gpc x with
                  | GTop => Some (setr s r (r_setg x (if ctxd s then GExiting else GSelect)))
                  | _ => None end
      | None => None
      end
  | TSelCtx r =>
      match getr s r with
      | Some x => match r_gpc x with
                  | GSelect => if ctxd s then Some (setr s r (r_setg x GExiting)) else None
                  | _ => None end
      | None => None
      end
  | TSelTimer r =>
      match getr s r with
      | Some x => match r_gpc x with
                  | GSelect => if has_timer (r_kind x) && r_tchan x
                               then Some (setr s r (r_settimer (r_setg x GReset) (r_tact x) false))
                               else None
                  | _ => None end
      | None => None
      end
  | TSelTrig r =>
      match getr s r with
      | Some x => match r_gpc x with
                  | GSelect => if has_trig (r_kind x) && r_tok x
                               then Some (setr s r (r_settok (r_setg x (after_trig (r_kind x))) false))
                               else None
                  | _ => None end
      | None => None
      end
  | TPark r =>
      match getr s r with
      | Some x => match r_gpc x with
                  | GSelect => if ctxd s || (has_timer (r_kind x) && r_tchan x) || (has_trig (r_kind x) && r_tok x)
                               then None else Some (setr s r (r_setg x GParked))
                  | _ => None end
      | None => None
      end
  | TStopTimer r =>
      match getr s r with
      | Some x => match r_gpc x with
                  | GStopT => Some (setr s r (r_settimer (r_setg x (if r_tact x then GReset else GDrain)) false (r_tchan x)))
                  | _ => None end
      | None => None
      end
  | TDrain r =>
      match getr s r with
      | Some x => match r_gpc x with
                  | GDrain => if r_tchan x then Some (setr s r (r_settimer (r_setg x GReset) (r_tact x) false)) else None
                  | _ => None end
      | None => None
      end
  | TReset r =>
      match getr s r with
      | Some x => match r_gpc x with
                  | GReset => Some (setr s r (r_settimer (r_setg x GRunF) true (r_tchan x)))
                  | _ => None end
      | None => None
      end
  | LFEnter r =>
      match getr s r with
      | Some x => match r_gpc x with
                  | GRunF => Some (setr s r (r_ghost (r_setg x GInF) (S (r_runs x)) (S (r_infl x)) (r_spawns x)))
                  | _ => None end
      | None => None
      end
  | LFExit r =>
      match getr s r with
      | Some x => match r_gpc x with
                  | GInF =>
                      let y := r_ghost (r_setg x (after_f (r_kind x))) (r_runs x) (pred (r_infl x)) (r_spawns x) in
                      if r_fctx x then (if ctxd s then Some (setr s r y) else None)
                      else if r_open x then Some (setr s r y)
                      else match r_permits x with
                           | S p => Some (setr s r (r_gate y false p))
                           | O => None
                           end
                  | _ => None end
      | None => None
      end
  | TDone r =>
      match getr s r with
      | Some x => match r_gpc x, wg s with
                  | GExiting, S n => Some (with_wg (setr s r (r_settimer (r_setg x GExited) false (r_tchan x))) n)
                  | _, _ => None end
      | None => None
      end
  | TFire r =>
      match getr s r with
      | Some x => if r_tact x
                  then match r_gpc x with
                       | GParked => Some (setr s r (r_settimer (r_setg x GReset) false (r_tchan x)))
                       | _ => Some (setr s r (r_settimer x false true))
                       end
                  else None
      | None => None
      end
  (* ---------------- the trigger function *)
  | LCallTrig t =>
      match gett s t with
      | Some y =>
          match t_pc y, getr s (t_reg y) with
          | TIdle, Some x =>
              match r_rpc x with
              | RRet => if has_trig (r_kind x) then Some (sett s t (mkT (t_reg y) TCalled (r_runs x))) else None
              | _ => None end
          | _, _ => None
          end
      | None => None
      end
  | TTrigHandoff t =>
      match gett s t with
      | Some y =>
          match t_pc y, getr s (t_reg y) with
          | TCalled, Some x =>
              match r_gpc x with
              | GParked => Some (sett (setr s (t_reg y) (r_setg x (after_trig (r_kind x)))) t (mkT (t_reg y) TSent (t_runs0 y)))
              | _ => None end
          | _, _ => None
          end
      | None => None
      end
  | TTrigBuffer t =>
      match gett s t with
      | Some y =>
          match t_pc y, getr s (t_reg y) with
          | TCalled, Some x =>
              match r_gpc x with
              | GParked => None
              | _ => if r_tok x then None
                     else Some (sett (setr s (t_reg y) (r_settok x true)) t (mkT (t_reg y) TSent (t_runs0 y)))
              end
          | _, _ => None
          end
      | None => None
      end
  | TTrigDrop t =>
      match gett s t with
      | Some y =>
          match t_pc y, getr s (t_reg y) with
          | TCalled, Some x =>
              match r_gpc x with
              | GParked => None
              | _ => if r_tok x then Some (sett s t (mkT (t_reg y) TSent (t_runs0 y))) else None
              end
          | _, _ => None
          end
      | None => None
      end
  | LRetTrig t =>
      match gett s t with
      | Some y => match t_pc y with TSent => Some (sett s t (mkT (t_reg y) TRet (t_runs0 y))) | _ => None end
      | None => None
      end
  (* ---------------- Stop / StopAndWait *)
  | LCallStop k =>
      match gets s k with
      | Some y => match s_pc y with SIdle => Some (sets s k (mkS (s_wait y) SCalled)) | _ => None end
      | None => None
      end
  | TWLock k =>
      match gets s k with
      | Some y => match s_pc y, readers s, writer s with
                  | SCalled, O, false => Some (with_lock (sets s k (mkS (s_wait y) SLocked)) O true)
                  | _, _, _ => None end
      | None => None
      end
  | TStopCancel k =>
      match gets s k with
      | Some y => match s_pc y with
                  | SLocked => Some (with_ctx (with_regs (sets s k (mkS (s_wait y) SCancelled)) (map wake_ctx (regs s)))
                                              true (parent s) true)
                  | _ => None end
      | None => None
      end
  | TWUnlock k =>
      match gets s k with
      | Some y => match s_pc y with
                  | SCancelled => Some (with_lock (sets s k (mkS (s_wait y) SUnlocked)) (readers s) false)
                  | _ => None end
      | None => None
      end
  | TWait k =>
      match gets s k with
      | Some y => match s_pc y, s_wait y, wg s with
                  | SUnlocked, true, O => Some (sets s k (mkS true SWaited))
                  | _, _, _ => None end
      | None => None
      end
  | LRetStop k =>
      match gets s k with
      | Some y => match s_pc y, s_wait y with
                  | SUnlocked, false => Some (sets s k (mkS false SRet))
                  | SWaited, true => Some (sets s k (mkS true SRet))
                  | _, _ => None end
      | None => None
      end
  (* ---------------- environment / controller *)
  | LCancelParent =>
      match parent s with
      | CLive => Some (with_ctx s (ctxd s) CReq (stopped s))
      | _ => Some s
      end
  | TParentEff =>
      match parent s with
      | CReq => Some (with_ctx (with_regs s (map wake_ctx (regs s))) true CDone (stopped s))
      | _ => None
      end
  | LRelease r =>
      match getr s r with
      | Some x => Some (setr s r (r_gate x (r_open x) (S (r_permits x))))
      | None => None
      end
  | LOpen r =>
      match getr s r with
      | Some x => Some (setr s r (r_gate x true (r_permits x)))
      | None => None
      end
  | LQuiesce => None    (* see [qstep] *)
  end.

(* ---- label enumeration ---- *)
Definition fire_labels (s : st) : list lab := map TFire (seq 0 (length (regs s))).

(* every internal label except the timer fires *)
Definition nonfire_tau (s : st) : list lab :=
  flat_map (fun r => [TRLock r; TCheck r; TAdd r; TRUnlock r; TGo r; TNewTimer r; TCheckCtx r; TSelCtx r;
                      TSelTimer r; TSelTrig r; TPark r; TStopTimer r; TDrain r; TReset r; TDone r])
           (seq 0 (length (regs s)))
  ++ flat_map (fun t => [TTrigHandoff t; TTrigBuffer t; TTrigDrop t]) (seq 0 (length (trigs s)))
  ++ flat_map (fun k => [TWLock k; TStopCancel k; TWUnlock k; TWait k]) (seq 0 (length (stops s)))
  ++ [TParentEff].

Definition tau_labels (s : st) : list lab := nonfire_tau s ++ fire_labels s.

(* visible labels emitted by library / harness goroutines (not by the controller) *)
Definition lib_visible (s : st) : list lab :=
  flat_map (fun r => [LRetReg r; LFEnter r; LFExit r]) (seq 0 (length (regs s)))
  ++ map LRetTrig (seq 0 (length (trigs s)))
  ++ map LRetStop (seq 0 (length (stops s))).

Definition enabled (s : st) (l : lab) : bool := match step s l with Some _ => true | None => false end.

(* nothing but a timer can make progress *)
Definition calm (s : st) : bool :=
  negb (existsb (enabled s) (nonfire_tau s)) && negb (existsb (enabled s) (lib_visible s)).

(* what the harness's quiescence detector observes: all goroutines are blocked and no pending timer
   can unblock one (a timer whose goroutine sits inside a gated f may still fire: that changes
   nothing until the controller acts) *)
Definition quiescent (s : st) : bool :=
  calm s && forallb (fun l => match step s l with Some s' => calm s' | None => true end) (fire_labels s).

Definition qstep (s : st) (l : lab) : option st :=
  match l with
  | LQuiesce => if quiescent s then Some s else None
  | _ => step s l
  end.

(* ---- events ---- *)
Definition vis (l : lab) : option lab :=
  match l with
  | LCallReg _ | LRetReg _ | LCallTrig _ | LRetTrig _ | LCallStop _ | LRetStop _
  | LFEnter _ | LFExit _ | LRelease _ | LOpen _ | LCancelParent | LQuiesce => Some l
  | _ => None
  end.

Definition lab_eqb (a b : lab) : bool :=
  match a, b with
  | LCallReg x, LCallReg y | LRetReg x, LRetReg y | LCallTrig x, LCallTrig y | LRetTrig x, LRetTrig y
  | LCallStop x, LCallStop y | LRetStop x, LRetStop y | LFEnter x, LFEnter y | LFExit x, LFExit y
  | LRelease x, LRelease y | LOpen x, LOpen y => Nat.eqb x y
  | LCancelParent, LCancelParent | LQuiesce, LQuiesce => true
  | _, _ => false
  end.

Definition kind_eqb (a b : kind) : bool :=
  match a, b with KDo, KDo | KPeriodic, KPeriodic | KTrigger, KTrigger | KPoT, KPoT => true | _, _ => false end.
Definition rpc_eqb (a b : rpc) : bool :=
  match a, b with
  | RIdle, RIdle | RCalled, RCalled | RLocked, RLocked | RCheckOk, RCheckOk | RNoSpawn, RNoSpawn
  | RAdded, RAdded | RUnlocked, RUnlocked | RSkipped, RSkipped | RSpawned, RSpawned | RRet, RRet => true
  | _, _ => false end.
Definition gpc_eqb (a b : gpc) : bool :=
  match a, b with
  | GNone, GNone | GStart, GStart | GTop, GTop | GSelect, GSelect | GParked, GParked | GStopT, GStopT
  | GDrain, GDrain | GReset, GReset | GRunF, GRunF | GInF, GInF | GExiting, GExiting | GExited, GExited => true
  | _, _ => false end.
Definition tpc_eqb (a b : tpc) : bool :=
  match a, b with TIdle, TIdle | TCalled, TCalled | TSent, TSent | TRet, TRet => true | _, _ => false end.
Definition spc_eqb (a b : spc) : bool :=
  match a, b with
  | SIdle, SIdle | SCalled, SCalled | SLocked, SLocked | SCancelled, SCancelled | SUnlocked, SUnlocked
  | SWaited, SWaited | SRet, SRet => true
  | _, _ => false end.
Definition cstate_eqb (a b : cstate) : bool :=
  match a, b with CLive, CLive | CReq, CReq | CDone, CDone => true | _, _ => false end.

(* lazy conjunction: vm_compute evaluates the arguments of [andb] eagerly *)
Notation "a &&& b" := (if a then b else false) (at level 40, left associativity, only parsing).

Definition reg_eqb (a b : reg) : bool :=
  rpc_eqb (r_rpc a) (r_rpc b) &&& gpc_eqb (r_gpc a) (r_gpc b) &&& Bool.eqb (r_tok a) (r_tok b)
  &&& Bool.eqb (r_tact a) (r_tact b) &&& Bool.eqb (r_tchan a) (r_tchan b)
  &&& Nat.eqb (r_runs a) (r_runs b) &&& Nat.eqb (r_infl a) (r_infl b) &&& Nat.eqb (r_spawns a) (r_spawns b)
  &&& Bool.eqb (r_open a) (r_open b) &&& Nat.eqb (r_permits a) (r_permits b)
  &&& kind_eqb (r_kind a) (r_kind b) &&& Bool.eqb (r_fctx a) (r_fctx b).
Definition trig_eqb (a b : trig) : bool :=
  tpc_eqb (t_pc a) (t_pc b) &&& Nat.eqb (t_reg a) (t_reg b) &&& Nat.eqb (t_runs0 a) (t_runs0 b).
Definition stopper_eqb (a b : stopper) : bool := spc_eqb (s_pc a) (s_pc b) &&& Bool.eqb (s_wait a) (s_wait b).

Fixpoint list_eqb {A} (eqb : A -> A -> bool) (a b : list A) : bool :=
  match a, b with
  | [], [] => true
  | x :: a', y :: b' => eqb x y &&& list_eqb eqb a' b'
  | _, _ => false
  end.

Definition st_eqb (a b : st) : bool :=
  list_eqb reg_eqb (regs a) (regs b) &&& list_eqb stopper_eqb (stops a) (stops b)
  &&& list_eqb trig_eqb (trigs a) (trigs b)
  &&& Nat.eqb (wg a) (wg b) &&& Nat.eqb (readers a) (readers b) &&& Bool.eqb (writer a) (writer b)
  &&& Bool.eqb (ctxd a) (ctxd b) &&& cstate_eqb (parent a) (parent b) &&& Bool.eqb (stopped a) (stopped b).

(* ---- partial-order reduction for the history matcher ----
   A purely local internal step (it reads and writes only the thread's own registers, can never be
   disabled by, and never disables or changes the effect of, a step of another thread) may be taken
   first: every history accepted through the reduced exploration is accepted by the full model, and
   the reduced exploration reaches (up to commuting such steps) every state the full one does.
   Candidates: the go statement, RUnlock, time.NewTimer, t.Reset, the enabled drain <-t.C,
   the exit path (deferred t.Stop + wg.Done), the ctx.Err() check once the context is cancelled
   (it never becomes live again), and Stop's Unlock. *)
Definition eager_candidates (s : st) : list lab :=
  flat_map (fun r => [TGo r; TRUnlock r; TNewTimer r; TReset r; TDrain r; TDone r] ++ (if ctxd s then [TCheckCtx r] else []))
           (seq 0 (length (regs s)))
  ++ map TWUnlock (seq 0 (length (stops s))).

Definition match_labels (s : st) : list lab :=
  match find (enabled s) (eager_candidates s) with
  | Some l => [l]
  | None => tau_labels s
  end.

(* ---- scenarios ---- *)
(* registration r: (kind, f blocks until ctx.Done, gate initially open);
   trigger call t: the registration whose trigger function it calls;  stopper k: true = StopAndWait *)
Record config := mkCfg { c_regs : list (kind * bool * bool); c_trigs : list nat; c_stops : list bool }.

Definition init_reg (p : kind * bool * bool) : reg :=
  let '(k, fc, o) := p in mkR k fc o 0 RIdle GNone false false false 0 0 0.

Definition init (c : config) : st :=
  mkSt (map init_reg (c_regs c)) (map (fun r => mkT r TIdle 0) (c_trigs c))
       (map (fun w => mkS w SIdle) (c_stops c)) 0 false false CLive false 0.

Definition match_fuel : nat := 200.

(* history acceptance: some run of the model produces exactly the recorded events, in order *)
Definition accepts_history (c : config) (evs : list lab) : bool :=
  accepts qstep vis lab_eqb st_eqb match_labels (fun _ e => [e]) match_fuel (init c) evs.

Definition first_rejected (c : config) (evs : list lab) : option nat :=
  first_reject qstep vis lab_eqb st_eqb match_labels (fun _ e => [e]) match_fuel
               (close qstep vis st_eqb match_labels match_fuel [init c]) evs O.
