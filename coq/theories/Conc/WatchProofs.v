(* C18 (part A) — proofs about the LTS models of xsync.Watchable (Conc/Watch.v), xsync.Future and
   xsync.Lazy (Conc/Future.v).  Each system has one combined invariant of every state reachable by
   [qstep] from [init], for every scenario configuration.  Stdlib only, no axioms. *)
From Juniper Require Import Common.Base Conc.GoLTS Conc.Watch Conc.Future.
From Juniper Require Conc.GoLTSProofs.
From Coq Require Import Arith PeanoNat.
Local Open Scope nat_scope.

(* ------------------------------------------------------------------ *)
(* list helpers                                                        *)
(* ------------------------------------------------------------------ *)

Lemma nth_upd {A} (l : list A) n m x :
  nth_error (upd l n x) m = if Nat.eq_dec n m then (if lt_dec n (length l) then Some x else None)
                            else nth_error l m.
Proof.
  destruct (Nat.eq_dec n m) as [->|Hne].
  - destruct (lt_dec m (length l)) as [Hlt|Hge].
    + apply nth_error_upd_same; exact Hlt.
    + apply nth_error_None. rewrite upd_length. lia.
  - apply nth_error_upd_other; exact Hne.
Qed.

Lemma nth_lt {A} (l : list A) n x : nth_error l n = Some x -> n < length l.
Proof. intros H. apply nth_error_Some. congruence. Qed.

Lemma nth_upd_same {A} (l : list A) n x y : nth_error l n = Some y -> nth_error (upd l n x) n = Some x.
Proof. intros H. apply nth_error_upd_same. eapply nth_lt; eauto. Qed.

Lemma nth_upd_Some {A} (l : list A) n m x y :
  nth_error (upd l n x) m = Some y -> (n = m /\ y = x) \/ (n <> m /\ nth_error l m = Some y).
Proof.
  rewrite nth_upd. destruct (Nat.eq_dec n m) as [->|Hne].
  - destruct (lt_dec m (length l)); [|discriminate]. intros H; inversion H; auto.
  - auto.
Qed.

Lemma nth_app_l {A} (l l' : list A) n x : nth_error l n = Some x -> nth_error (l ++ l') n = Some x.
Proof. intros H. rewrite nth_error_app1; [exact H | eapply nth_lt; eauto]. Qed.

Lemma nth_app_one {A} (l : list A) c n x :
  nth_error (l ++ [c]) n = Some x -> (n < length l /\ nth_error l n = Some x) \/ (n = length l /\ x = c).
Proof.
  intros H. destruct (lt_dec n (length l)) as [Hlt|Hge].
  - rewrite nth_error_app1 in H by exact Hlt. auto.
  - rewrite nth_error_app2 in H by lia. right.
    destruct (n - length l) as [|d] eqn:E.
    + simpl in H. inversion H. split; [lia | reflexivity].
    + simpl in H. destruct d; discriminate.
Qed.

Lemma nth_app_last {A} (l : list A) c : nth_error (l ++ [c]) (length l) = Some c.
Proof. rewrite nth_error_app2 by lia. rewrite Nat.sub_diag. reflexivity. Qed.

(* ================================================================== *)
(*                            Watchable                                *)
(* ================================================================== *)
Module WatchP.
Import Watch.

(* the cell (if any) a Set is about to close / a Value (or observer) holds *)
Definition closes (p : pc) : option nat :=
  match p with PSetSwapped (Some k) => Some k | _ => None end.
Definition holds (p : pc) : option nat :=
  match p with PValGot k | PValPolled k _ | PWait k => Some k | _ => None end.

(* a Set call is in progress: invoked, not yet returned *)
Definition set_in_progress (p : pc) : bool :=
  match p with PSetCalled _ | PSetSwapped _ | PSetClosed => true | _ => false end.

(* some Set whose Swap displaced cell k has not yet executed its close step *)
Definition closing (s : st) (k : nat) : Prop :=
  exists t x, nth_error (ths s) t = Some x /\ t_pc x = PSetSwapped (Some k).

Definition last_idx {A} (l : list A) : option nat :=
  match l with [] => None | _ => Some (pred (length l)) end.

(* the most recently Set value: the last element of the Set history, the zero value before the first Set *)
Definition cur_value (s : st) : Z := last (set_history s) 0%Z.

Definition pc_ok (cs : list cell) (po : option nat) (p : pc) : Prop :=
  match p with
  | PSetSwapped (Some k) => S k < length cs /\ exists c, nth_error cs k = Some c /\ c_closed c = false
  | PValGot k | PWait k => k < length cs
  | PValPolled k b => k < length cs /\ (b = true -> exists c, nth_error cs k = Some c /\ c_closed c = true)
  | PValCasFailed => po <> None
  | PPanic => False
  | _ => True
  end.

Record Inv (s : st) : Prop := mkInv {
  inv_ptr : ptr s = last_idx (cells s);
  inv_closed_lt : forall k c, nth_error (cells s) k = Some c -> c_closed c = true -> S k < length (cells s);
  inv_open_closing : forall k c, nth_error (cells s) k = Some c -> c_closed c = false ->
                                 S k < length (cells s) -> closing s k;
  inv_pcs : forall t x, nth_error (ths s) t = Some x -> pc_ok (cells s) (ptr s) (t_pc x);
  inv_uniq : forall t t' x x' k, nth_error (ths s) t = Some x -> nth_error (ths s) t' = Some x' ->
                                 t_pc x = PSetSwapped (Some k) -> t_pc x' = PSetSwapped (Some k) -> t = t';
  inv_empty_first : forall k c, nth_error (cells s) k = Some c -> c_set c = false -> k = 0 /\ c_val c = 0%Z
}.

(* ---- the shape of every step ---- *)

(* transitions of one goroutine that leave the store alone *)
Inductive neutral (s : st) : pc -> pc -> Prop :=
| N_spawn : neutral s PIdle PGate
| N_callset p v : neutral s p (PSetCalled v)
| N_closenil : neutral s (PSetSwapped None) PSetClosed
| N_retset : neutral s PSetClosed PReady
| N_callval p : closes p = None -> neutral s p PValCalled
| N_load k : ptr s = Some k -> neutral s PValCalled (PValGot k)
| N_loadnil : ptr s = None -> neutral s PValCalled PValNil
| N_casfail : ptr s <> None -> neutral s PValNil PValCasFailed
| N_reload k : ptr s = Some k -> neutral s PValCasFailed (PValGot k)
| N_reloadnil : ptr s = None -> neutral s PValCasFailed PPanic
| N_poll k c : nth_error (cells s) k = Some c -> neutral s (PValGot k) (PValPolled k (c_closed c))
| N_retwatch k b : neutral s (PValPolled k b) (PWait k)
| N_retval k b : neutral s (PValPolled k b) PReady.

Inductive effect (s s' : st) (t : nat) (x x' : thread) : Prop :=
| E_neutral : cells s' = cells s -> ptr s' = ptr s -> closes (t_pc x) = None ->
              neutral s (t_pc x) (t_pc x') -> effect s s' t x x'
| E_swap v : t_pc x = PSetCalled v -> t_pc x' = PSetSwapped (ptr s) ->
             cells s' = cells s ++ [mkCell v false true] -> ptr s' = Some (length (cells s)) ->
             effect s s' t x x'
| E_close k c : t_pc x = PSetSwapped (Some k) -> nth_error (cells s) k = Some c -> c_closed c = false ->
                t_pc x' = PSetClosed -> cells s' = upd (cells s) k (close_cell c) -> ptr s' = ptr s ->
                effect s s' t x x'
| E_closepanic k c : t_pc x = PSetSwapped (Some k) -> nth_error (cells s) k = Some c -> c_closed c = true ->
                     cells s' = cells s -> ptr s' = ptr s -> effect s s' t x x'
| E_cas : t_pc x = PValNil -> ptr s = None -> t_pc x' = PValGot (length (cells s)) ->
          cells s' = cells s ++ [mkCell 0%Z false false] -> ptr s' = Some (length (cells s)) ->
          effect s s' t x x'.

Definition ready_closes s x : ready s x = true -> closes (t_pc x) = None.
Proof. unfold ready. destruct (t_pc x); simpl; intros; try discriminate; reflexivity. Qed.

Lemma step_cases s l s' :
  step s l = Some s' ->
  (ths s' = ths s /\ cells s' = cells s /\ ptr s' = ptr s) \/
  (exists t x x', nth_error (ths s) t = Some x /\ ths s' = upd (ths s) t x' /\ effect s s' t x x').
Proof.
  intros H. destruct l as [t|g| |t v|t|t|t v b|t|t|t|t|t|t|t]; simpl in H.
  - (* LSpawn *)
    unfold getth in H. destruct (nth_error (ths s) t) as [x|] eqn:Hx; [|discriminate].
    destruct (t_pc x) eqn:Hp; try discriminate. inversion H; subst s'; clear H.
    right. exists t, x, (set_pc x PGate). split; [exact Hx|]. split; [reflexivity|].
    apply E_neutral; simpl; auto. { rewrite Hp; reflexivity. } rewrite Hp. constructor.
  - (* LRelease *)
    destruct (g <? length (gates s)); [|discriminate]. inversion H; subst s'. left. simpl. auto.
  - discriminate.
  - (* LCallSet *)
    unfold getth in H. destruct (nth_error (ths s) t) as [x|] eqn:Hx; [|discriminate].
    destruct (t_prog x) as [|[w|  |g|] rest] eqn:Hprog; try discriminate.
    destruct (ready s x && Z.eqb v w) eqn:Hr; [|discriminate]. inversion H; subst s'; clear H.
    apply andb_true_iff in Hr. destruct Hr as [Hr _].
    right. exists t, x, (set_pc x (PSetCalled v)). split; [exact Hx|]. split; [reflexivity|].
    apply E_neutral; simpl; auto. { exact (ready_closes s x Hr). } constructor.
  - (* LRetSet *)
    unfold getth in H. destruct (nth_error (ths s) t) as [x|] eqn:Hx; [|discriminate].
    destruct (t_pc x) eqn:Hp; try discriminate. inversion H; subst s'; clear H.
    right. exists t, x, (mkT (t_gate x) (tl (t_prog x)) PReady). split; [exact Hx|]. split; [reflexivity|].
    apply E_neutral; simpl; auto. { rewrite Hp; reflexivity. } rewrite Hp. constructor.
  - (* LCallValue *)
    unfold getth in H. destruct (nth_error (ths s) t) as [x|] eqn:Hx; [|discriminate].
    assert (Hr : ready s x = true /\ s' = setth s t (set_pc x PValCalled)).
    { destruct (t_prog x) as [|[w|  |g|] rest]; try discriminate;
        (destruct (ready s x); [|discriminate]); inversion H; auto. }
    destruct Hr as [Hr ->]. clear H.
    right. exists t, x, (set_pc x PValCalled). split; [exact Hx|]. split; [reflexivity|].
    apply E_neutral; simpl; auto. { exact (ready_closes s x Hr). }
    constructor. exact (ready_closes s x Hr).
  - (* LRetValue *)
    unfold getth in H. destruct (nth_error (ths s) t) as [x|] eqn:Hx; [|discriminate].
    destruct (t_pc x) as [| | | | | | | | |k|k b'| |] eqn:Hp; try discriminate.
    destruct (nth_error (cells s) k) as [c|] eqn:Hc; [|discriminate].
    destruct (Z.eqb (c_val c) v && Bool.eqb b b'); [|discriminate].
    destruct (t_prog x) as [|[w|  |g|] rest] eqn:Hprog; try discriminate; inversion H; subst s'; clear H; right.
    + exists t, x, (mkT (t_gate x) rest PReady). split; [exact Hx|]. split; [reflexivity|].
      apply E_neutral; simpl; auto. { rewrite Hp; reflexivity. } rewrite Hp. constructor.
    + exists t, x, (mkT (t_gate x) rest PReady). split; [exact Hx|]. split; [reflexivity|].
      apply E_neutral; simpl; auto. { rewrite Hp; reflexivity. } rewrite Hp. constructor.
    + exists t, x, (set_pc x (PWait k)). split; [exact Hx|]. split; [reflexivity|].
      apply E_neutral; simpl; auto. { rewrite Hp; reflexivity. } rewrite Hp. constructor.
  - discriminate.
  - (* TSwap *)
    unfold getth in H. destruct (nth_error (ths s) t) as [x|] eqn:Hx; [|discriminate].
    destruct (t_pc x) as [| | |v| | | | | | | | |] eqn:Hp; try discriminate. inversion H; subst s'; clear H.
    right. exists t, x, (set_pc x (PSetSwapped (ptr s))). split; [exact Hx|]. split; [reflexivity|].
    eapply E_swap; simpl; eauto.
  - (* TClose *)
    unfold getth in H. destruct (nth_error (ths s) t) as [x|] eqn:Hx; [|discriminate].
    destruct (t_pc x) as [| | | |[k|]| | | | | | | |] eqn:Hp; try discriminate.
    + destruct (nth_error (cells s) k) as [c|] eqn:Hc; [|discriminate].
      destruct (c_closed c) eqn:Hcl; inversion H; subst s'; clear H; right.
      * exists t, x, (set_pc x PPanic). split; [exact Hx|]. split; [reflexivity|].
        eapply E_closepanic; eauto.
      * exists t, x, (set_pc x PSetClosed). split; [exact Hx|]. split; [reflexivity|].
        eapply E_close; simpl; eauto.
    + inversion H; subst s'; clear H. right.
      exists t, x, (set_pc x PSetClosed). split; [exact Hx|]. split; [reflexivity|].
      apply E_neutral; simpl; auto. { rewrite Hp; reflexivity. } rewrite Hp. constructor.
  - (* TLoad *)
    unfold getth in H. destruct (nth_error (ths s) t) as [x|] eqn:Hx; [|discriminate].
    destruct (t_pc x) eqn:Hp; try discriminate.
    destruct (ptr s) as [k|] eqn:Hptr; inversion H; subst s'; clear H; right.
    + exists t, x, (set_pc x (PValGot k)). split; [exact Hx|]. split; [reflexivity|].
      apply E_neutral; simpl; auto. { rewrite Hp; reflexivity. } rewrite Hp. constructor. exact Hptr.
    + exists t, x, (set_pc x PValNil). split; [exact Hx|]. split; [reflexivity|].
      apply E_neutral; simpl; auto. { rewrite Hp; reflexivity. } rewrite Hp. constructor. exact Hptr.
  - (* TCas *)
    unfold getth in H. destruct (nth_error (ths s) t) as [x|] eqn:Hx; [|discriminate].
    destruct (t_pc x) eqn:Hp; try discriminate.
    destruct (ptr s) as [k|] eqn:Hptr; inversion H; subst s'; clear H; right.
    + exists t, x, (set_pc x PValCasFailed). split; [exact Hx|]. split; [reflexivity|].
      apply E_neutral; simpl; auto. { rewrite Hp; reflexivity. } rewrite Hp. constructor. congruence.
    + exists t, x, (set_pc x (PValGot (length (cells s)))). split; [exact Hx|]. split; [reflexivity|].
      eapply E_cas; simpl; eauto.
  - (* TReload *)
    unfold getth in H. destruct (nth_error (ths s) t) as [x|] eqn:Hx; [|discriminate].
    destruct (t_pc x) eqn:Hp; try discriminate.
    destruct (ptr s) as [k|] eqn:Hptr; inversion H; subst s'; clear H; right.
    + exists t, x, (set_pc x (PValGot k)). split; [exact Hx|]. split; [reflexivity|].
      apply E_neutral; simpl; auto. { rewrite Hp; reflexivity. } rewrite Hp. constructor. exact Hptr.
    + exists t, x, (set_pc x PPanic). split; [exact Hx|]. split; [reflexivity|].
      apply E_neutral; simpl; auto. { rewrite Hp; reflexivity. } rewrite Hp. constructor. exact Hptr.
  - (* TPoll *)
    unfold getth in H. destruct (nth_error (ths s) t) as [x|] eqn:Hx; [|discriminate].
    destruct (t_pc x) as [| | | | | | | | |k| | |] eqn:Hp; try discriminate.
    destruct (nth_error (cells s) k) as [c|] eqn:Hc; [|discriminate].
    destruct (poll_allowed s x); [|discriminate]. inversion H; subst s'; clear H. right.
    exists t, x, (set_pc x (PValPolled k (c_closed c))). split; [exact Hx|]. split; [reflexivity|].
    apply E_neutral; simpl; auto. { rewrite Hp; reflexivity. } rewrite Hp. constructor. exact Hc.
Qed.

Lemma qstep_cases s l s' :
  qstep s l = Some s' ->
  (ths s' = ths s /\ cells s' = cells s /\ ptr s' = ptr s) \/
  (exists t x x', nth_error (ths s) t = Some x /\ ths s' = upd (ths s) t x' /\ effect s s' t x x').
Proof.
  intros H.
  assert (Hl : l = LQuiesce \/ qstep s l = step s l) by (destruct l; auto).
  destruct Hl as [->|E].
  - simpl in H. destruct (quiescent s); [|discriminate]. inversion H; subst. left; auto.
  - rewrite E in H. apply step_cases in H. exact H.
Qed.

(* ---- preservation ---- *)

Lemma last_idx_app {A} (l : list A) c : last_idx (l ++ [c]) = Some (length l).
Proof.
  unfold last_idx. destruct (l ++ [c]) eqn:E.
  - destruct l; discriminate.
  - rewrite <- E. rewrite app_length. simpl. f_equal. lia.
Qed.

Lemma last_idx_upd {A} (l : list A) k c : last_idx (upd l k c) = last_idx l.
Proof.
  unfold last_idx. rewrite upd_length. destruct l; simpl; [reflexivity|]. destruct k; reflexivity.
Qed.

Lemma last_idx_lt {A} (l : list A) k : last_idx l = Some k -> S k = length l.
Proof. unfold last_idx. destruct l; [discriminate|]. intros H; inversion H. simpl. reflexivity. Qed.

Lemma last_idx_none {A} (l : list A) : last_idx l = None -> l = [].
Proof. unfold last_idx. destruct l; [reflexivity | discriminate]. Qed.

Lemma pc_ok_app cs po c p k : pc_ok cs po p -> pc_ok (cs ++ [c]) (Some k) p.
Proof.
  destruct p as [| | | |[j|]| | | | |j|j b|j|]; simpl; auto; rewrite ?app_length; simpl.
  - intros [Hlt (d & Hd & Hcl)]. split; [lia|]. exists d. split; [apply nth_app_l; exact Hd | exact Hcl].
  - intros _; discriminate.
  - lia.
  - intros [Hlt Hb]. split; [lia|]. intros E. destruct (Hb E) as (d & Hd & Hcl).
    exists d. split; [apply nth_app_l; exact Hd | exact Hcl].
  - lia.
Qed.

Lemma neutral_pc_ok s p p' :
  ptr s = last_idx (cells s) -> pc_ok (cells s) (ptr s) p -> neutral s p p' -> pc_ok (cells s) (ptr s) p'.
Proof.
  intros I1 Hok Hn.
  destruct Hn as [ |p v| | |p Hcp|k Hk|Hk|Hk|k Hk|Hk|k c Hk|k b|k b]; simpl in *; auto.
  all: try (rewrite I1 in Hk; apply last_idx_lt in Hk; lia).
  all: try congruence.
  all: try tauto.
  all: try (split; [eapply nth_lt; eauto|]; intros E; exists c; auto).
Qed.

Lemma Inv_same s s' :
  Inv s -> ths s' = ths s -> cells s' = cells s -> ptr s' = ptr s -> Inv s'.
Proof.
  intros [I1 I2 I3 I4 I5 I6] Ht Hc Hp.
  constructor; unfold closing; rewrite ?Ht, ?Hc, ?Hp; auto.
Qed.

Lemma Inv_effect s s' t x x' :
  Inv s -> nth_error (ths s) t = Some x -> ths s' = upd (ths s) t x' -> effect s s' t x x' -> Inv s'.
Proof.
  intros I Hx Hths Heff. pose proof I as [I1 I2 I3 I4 I5 I6].
  assert (Hnew : nth_error (ths s') t = Some x') by (rewrite Hths; eapply nth_upd_same; eauto).
  assert (Hoth : forall u y, nth_error (ths s') u = Some y -> u <> t -> nth_error (ths s) u = Some y).
  { intros u y Hu Hne. rewrite Hths in Hu. apply nth_upd_Some in Hu. destruct Hu as [[E _]|[_ Hu]]; [congruence | exact Hu]. }
  assert (Hback : forall u y, nth_error (ths s) u = Some y -> u <> t -> nth_error (ths s') u = Some y).
  { intros u y Hu Hne. rewrite Hths. rewrite nth_error_upd_other by congruence. exact Hu. }
  destruct Heff as [Hc Hp Hcl Hn | v Hpx Hpx' Hc Hp | k c Hpx Hk Hop Hpx' Hc Hp | k c Hpx Hk Hcd _ _ | Hpx Hnil Hpx' Hc Hp].
  - (* neutral *)
    assert (Hcl' : closes (t_pc x') = None) by (inversion Hn; reflexivity).
    constructor; rewrite ?Hc, ?Hp; auto.
    + intros k c Hk Hop Hlt. destruct (I3 k c Hk Hop Hlt) as (u & y & Hu & Hpy).
      assert (u <> t) by (intros ->; rewrite Hx in Hu; inversion Hu; subst y; rewrite Hpy in Hcl; discriminate).
      exists u, y. split; [apply Hback; auto | exact Hpy].
    + intros u y Hu. destruct (Nat.eq_dec u t) as [->|Hne].
      * rewrite Hnew in Hu; inversion Hu; subst y. clear Hu.
        eapply neutral_pc_ok; eauto.
      * apply I4 with (t := u). apply Hoth; auto.
    + intros u u' y y' k Hu Hu' Hpy Hpy'.
      assert (u <> t) by (intros ->; rewrite Hnew in Hu; inversion Hu; subst y; rewrite Hpy in Hcl'; discriminate).
      assert (u' <> t) by (intros ->; rewrite Hnew in Hu'; inversion Hu'; subst y'; rewrite Hpy' in Hcl'; discriminate).
      eapply I5; eauto.
  - (* swap *)
    constructor; rewrite ?Hc, ?Hp.
    + symmetry. apply last_idx_app.
    + intros k c Hk Hcd. rewrite app_length; simpl. apply nth_app_one in Hk.
      destruct Hk as [[Hlt Hk]|[-> ->]]; [|discriminate]. specialize (I2 k c Hk Hcd). lia.
    + intros k c Hk Hop Hlt. rewrite app_length in Hlt; simpl in Hlt. apply nth_app_one in Hk.
      destruct Hk as [[Hlt' Hk]|[-> ->]]; [|lia].
      destruct (Nat.eq_dec (S k) (length (cells s))) as [E|Hne].
      * (* k was the current cell: the swapping goroutine is now about to close it *)
        exists t, x'. split; [exact Hnew|]. rewrite Hpx'. rewrite I1.
        unfold last_idx. destruct (cells s) eqn:Ecs; [simpl in Hlt'; lia|]. simpl in E. simpl. f_equal. f_equal. lia.
      * destruct (I3 k c Hk Hop ltac:(lia)) as (u & y & Hu & Hpy).
        assert (u <> t) by (intros ->; rewrite Hx in Hu; inversion Hu; subst y; congruence).
        exists u, y. split; [apply Hback; auto | exact Hpy].
    + intros u y Hu. destruct (Nat.eq_dec u t) as [->|Hne].
      * rewrite Hnew in Hu; inversion Hu; subst y. rewrite Hpx'.
        destruct (ptr s) as [k|] eqn:Hptr; simpl; [|exact Logic.I].
        symmetry in I1. apply last_idx_lt in I1. rewrite app_length; simpl. split; [lia|].
        destruct (nth_error (cells s) k) as [c|] eqn:Hk; [|apply nth_error_None in Hk; lia].
        exists c. split; [apply nth_app_l; exact Hk|].
        destruct (c_closed c) eqn:Hcd; [|reflexivity]. specialize (I2 k c Hk Hcd). lia.
      * apply pc_ok_app with (po := ptr s). apply I4 with (t := u). apply Hoth; auto.
    + intros u u' y y' k Hu Hu' Hpy Hpy'.
      (* a goroutine already about to close k has S k < length; the new one closes the last cell *)
      assert (Hold : forall w z, w <> t -> nth_error (ths s') w = Some z -> t_pc z = PSetSwapped (Some k) -> S k < length (cells s)).
      { intros w z Hw Hz Hpz. specialize (I4 w z (Hoth w z Hz Hw)). rewrite Hpz in I4. simpl in I4. tauto. }
      assert (Hme : forall z, nth_error (ths s') t = Some z -> t_pc z = PSetSwapped (Some k) -> S k = length (cells s)).
      { intros z Hz Hpz. rewrite Hnew in Hz; inversion Hz; subst z. rewrite Hpx' in Hpz. inversion Hpz as [Hptr].
        rewrite I1 in Hptr. apply last_idx_lt in Hptr. exact Hptr. }
      destruct (Nat.eq_dec u t) as [->|Hne]; destruct (Nat.eq_dec u' t) as [->|Hne']; auto.
      * specialize (Hme y Hu Hpy). specialize (Hold u' y' Hne' Hu' Hpy'). lia.
      * specialize (Hme y' Hu' Hpy'). specialize (Hold u y Hne Hu Hpy). lia.
      * eapply I5; eauto.
    + intros k c Hk Hs. apply nth_app_one in Hk. destruct Hk as [[_ Hk]|[_ ->]]; [eauto | discriminate].
  - (* close *)
    constructor; rewrite ?Hc, ?Hp, ?upd_length.
    + rewrite last_idx_upd. exact I1.
    + intros j d Hj Hcd. apply nth_upd_Some in Hj. destruct Hj as [[<- ->]|[Hne Hj]]; [|eauto].
      specialize (I4 t x Hx). rewrite Hpx in I4. simpl in I4. tauto.
    + intros j d Hj Hopj Hlt. apply nth_upd_Some in Hj. destruct Hj as [[<- ->]|[Hne Hj]]; [discriminate|].
      destruct (I3 j d Hj Hopj Hlt) as (u & y & Hu & Hpy).
      assert (u <> t) by (intros ->; rewrite Hx in Hu; inversion Hu; subst y; congruence).
      exists u, y. split; [apply Hback; auto | exact Hpy].
    + intros u y Hu. destruct (Nat.eq_dec u t) as [->|Hne].
      * rewrite Hnew in Hu; inversion Hu; subst y. rewrite Hpx'. exact Logic.I.
      * pose proof (Hoth u y Hu Hne) as Hu0. specialize (I4 u y Hu0).
        destruct (t_pc y) as [| | | |[j|]| | | | |j|j b|j|] eqn:Hpy; simpl in *; rewrite ?upd_length; auto.
        -- destruct I4 as [Hlt (d & Hd & Hop')]. split; [exact Hlt|].
           assert (j <> k) by (intros ->; apply Hne; eapply I5; eauto).
           exists d. split; [rewrite nth_error_upd_other by congruence; exact Hd | exact Hop'].
        -- destruct I4 as [Hlt Hb]. split; [exact Hlt|]. intros E. destruct (Hb E) as (d & Hd & Hcd).
           destruct (Nat.eq_dec k j) as [->|Hnk].
           ++ exists (close_cell c). split; [eapply nth_upd_same; eauto | reflexivity].
           ++ exists d. split; [rewrite nth_error_upd_other by congruence; exact Hd | exact Hcd].
    + intros u u' y y' j Hu Hu' Hpy Hpy'.
      assert (u <> t) by (intros ->; rewrite Hnew in Hu; inversion Hu; subst y; congruence).
      assert (u' <> t) by (intros ->; rewrite Hnew in Hu'; inversion Hu'; subst y'; congruence).
      eapply I5; eauto.
    + intros j d Hj Hs. apply nth_upd_Some in Hj. destruct Hj as [[<- ->]|[Hne Hj]]; [|eauto].
      simpl in Hs. simpl. exact (I6 k c Hk Hs).
  - (* close of a closed channel: impossible *)
    specialize (I4 t x Hx). rewrite Hpx in I4. simpl in I4. destruct I4 as [_ (d & Hd & Hop)]. congruence.
  - (* successful CAS: the store was empty *)
    assert (Hempty : cells s = []) by (apply last_idx_none; rewrite <- I1; exact Hnil).
    constructor; rewrite ?Hc, ?Hp.
    + symmetry. apply last_idx_app.
    + intros k c Hk Hcd. rewrite Hempty in Hk. destruct k as [|[|k]]; simpl in Hk; try discriminate.
      inversion Hk; subst c. discriminate.
    + intros k c Hk Hop Hlt. rewrite Hempty in Hlt. simpl in Hlt. lia.
    + intros u y Hu. destruct (Nat.eq_dec u t) as [->|Hne].
      * rewrite Hnew in Hu; inversion Hu; subst y. rewrite Hpx'. simpl. rewrite app_length. simpl. lia.
      * apply pc_ok_app with (po := ptr s). apply I4 with (t := u). apply Hoth; auto.
    + intros u u' y y' k Hu Hu' Hpy Hpy'.
      assert (u <> t) by (intros ->; rewrite Hnew in Hu; inversion Hu; subst y; congruence).
      assert (u' <> t) by (intros ->; rewrite Hnew in Hu'; inversion Hu'; subst y'; congruence).
      eapply I5; eauto.
    + intros k c Hk Hs. rewrite Hempty in Hk. destruct k as [|[|k]]; simpl in Hk; try discriminate.
      inversion Hk; subst c. auto.
Qed.

Lemma Inv_init cfg ng : Inv (init cfg ng).
Proof.
  constructor; simpl.
  - reflexivity.
  - intros k c Hk. destruct k; discriminate.
  - intros k c Hk. destruct k; discriminate.
  - intros t x Hx. rewrite nth_error_map in Hx. destruct (nth_error cfg t); [|discriminate].
    inversion Hx. simpl. exact Logic.I.
  - intros t t' x x' k Hx _ Hp. rewrite nth_error_map in Hx. destruct (nth_error cfg t); [|discriminate].
    inversion Hx; subst x. discriminate.
  - intros k c Hk. destruct k; discriminate.
Qed.

Lemma Inv_step s l s' : Inv s -> qstep s l = Some s' -> Inv s'.
Proof.
  intros I H. apply qstep_cases in H. destruct H as [(Ht & Hc & Hp)|(t & x & x' & Hx & Hths & Heff)].
  - eapply Inv_same; eauto.
  - eapply Inv_effect; eauto.
Qed.

Theorem watch_inv cfg ng s : reachable qstep (init cfg ng) s -> Inv s.
Proof. apply (invariant_rule qstep Inv). - apply Inv_init. - intros; eapply Inv_step; eauto. Qed.

(* ---- consequences ---- *)

(* the cell the pointer designates carries the most recently Set value *)
Lemma last_filter_set cs c :
  c_set c = true -> last (map c_val (filter c_set (cs ++ [c]))) 0%Z = c_val c.
Proof.
  intros Hs. rewrite filter_app. simpl. rewrite Hs. rewrite map_app. simpl. apply last_last.
Qed.

Lemma split_last {A} (l : list A) : l <> [] -> exists l' c, l = l' ++ [c] /\ length l' = pred (length l).
Proof.
  intros Hne. destruct (exists_last Hne) as (l' & c & ->). exists l', c. split; [reflexivity|].
  rewrite app_length. simpl. lia.
Qed.

Lemma current_cell s :
  Inv s ->
  match ptr s with
  | Some k => exists c, nth_error (cells s) k = Some c /\ S k = length (cells s) /\ c_val c = cur_value s
  | None => cells s = [] /\ set_history s = []
  end.
Proof.
  intros I. pose proof (inv_ptr s I) as I1. rewrite I1. clear I1. unfold last_idx.
  destruct (cells s) as [|c0 cs0] eqn:Ecs.
  - unfold set_history. rewrite Ecs. auto.
  - rewrite <- Ecs. assert (Hne : cells s <> []) by (rewrite Ecs; discriminate).
    clear Ecs c0 cs0. pose proof (inv_empty_first s I) as I6.
    destruct (split_last _ Hne) as (l' & c & El & Hlen).
    exists c. rewrite <- Hlen. split; [rewrite El; apply nth_app_last|].
    split; [rewrite El, app_length; simpl; lia|].
    unfold cur_value, set_history. rewrite El.
    destruct (c_set c) eqn:Hs; [symmetry; apply last_filter_set; exact Hs|].
    (* the newest cell is the empty one: then it is the only cell and nothing was Set *)
    assert (Hk : nth_error (cells s) (length l') = Some c) by (rewrite El; apply nth_app_last).
    destruct (I6 _ _ Hk Hs) as [H0 Hv]. destruct l'; [|discriminate]. simpl. rewrite Hs. simpl. exact Hv.
Qed.

(* cells are immutable; a closed channel stays closed *)
Lemma cells_stable s l s' :
  qstep s l = Some s' ->
  forall k c, nth_error (cells s) k = Some c ->
              exists c', nth_error (cells s') k = Some c' /\ c_val c' = c_val c /\ c_set c' = c_set c /\
                         (c_closed c = true -> c_closed c' = true).
Proof.
  intros H k c Hk. apply qstep_cases in H. destruct H as [(Ht & Hc & Hp)|(t & x & x' & Hx & Hths & Heff)].
  - rewrite Hc. exists c. auto.
  - destruct Heff as [Hc Hp Hcl Hn | v Hpx Hpx' Hc Hp | j d Hpx Hj Hop Hpx' Hc Hp | j d Hpx Hj Hcd Hc Hp | Hpx Hnil Hpx' Hc Hp].
    + rewrite Hc. exists c. auto.
    + rewrite Hc. exists c. split; [apply nth_app_l; exact Hk | auto].
    + rewrite Hc. destruct (Nat.eq_dec j k) as [->|Hne].
      * exists (close_cell d). split; [eapply nth_upd_same; eauto|]. rewrite Hj in Hk. inversion Hk; subst d. simpl. auto.
      * exists c. split; [rewrite nth_error_upd_other by congruence; exact Hk | auto].
    + rewrite Hc. exists c. auto.
    + rewrite Hc. exists c. split; [apply nth_app_l; exact Hk | auto].
Qed.


(* the channel of cell k is closed iff a later cell exists and no Set is still about to close k *)
Lemma closed_iff s k c :
  Inv s -> nth_error (cells s) k = Some c ->
  (c_closed c = true <-> S k < length (cells s) /\ ~ closing s k).
Proof.
  intros HI Hk. split.
  - intros Hcd. split; [eapply inv_closed_lt; eauto|].
    intros (t & x & Hx & Hp). pose proof (inv_pcs s HI t x Hx) as Hok. rewrite Hp in Hok. simpl in Hok.
    destruct Hok as [_ (d & Hd & Hop)]. congruence.
  - intros [Hlt Hn]. destruct (c_closed c) eqn:Hcd; [reflexivity|].
    exfalso. apply Hn. eapply inv_open_closing; eauto.
Qed.

Lemma no_panic s t x : Inv s -> nth_error (ths s) t = Some x -> t_pc x <> PPanic.
Proof. intros HI Hx E. pose proof (inv_pcs s HI t x Hx) as Hok. rewrite E in Hok. exact Hok. Qed.

(* an open channel whose cell has been displaced is about to be closed by a Set in progress;
   so with no Set in progress, whoever holds an open channel holds the current cell *)
Lemma open_is_current s k c :
  Inv s ->
  (forall t x, nth_error (ths s) t = Some x -> set_in_progress (t_pc x) = false) ->
  nth_error (cells s) k = Some c -> c_closed c = false ->
  ptr s = Some k /\ c_val c = cur_value s.
Proof.
  intros HI Hno Hk Hop.
  assert (Hlast : S k = length (cells s)).
  { pose proof (nth_lt _ _ _ Hk) as Hlt. destruct (Nat.eq_dec (S k) (length (cells s))) as [E|Hne]; [exact E|].
    exfalso. destruct (inv_open_closing s HI k c Hk Hop ltac:(lia)) as (t & x & Hx & Hp).
    specialize (Hno t x Hx). rewrite Hp in Hno. discriminate. }
  assert (Hptr : ptr s = Some k).
  { rewrite (inv_ptr s HI). unfold last_idx. destruct (cells s); [discriminate|]. simpl in Hlast. simpl. f_equal. lia. }
  split; [exact Hptr|]. pose proof (current_cell s HI) as Hcur. rewrite Hptr in Hcur.
  destruct Hcur as (c' & Hk' & _ & Hv). congruence.
Qed.

(* linearisation: the step at which a Value obtains its cell leaves that cell current *)
Lemma got_is_current s l s' t x x' k :
  Inv s -> qstep s l = Some s' ->
  nth_error (ths s) t = Some x -> nth_error (ths s') t = Some x' ->
  t_pc x <> PValGot k -> t_pc x' = PValGot k ->
  ptr s' = Some k.
Proof.
  intros HI H Hx Hx' Hne Hgot. apply qstep_cases in H.
  destruct H as [(Ht & Hc & Hp)|(u & y & y' & Hy & Hths & Heff)].
  - rewrite Ht in Hx'. congruence.
  - destruct (Nat.eq_dec u t) as [->|Hut].
    + assert (y = x) by congruence. subst y.
      assert (y' = x') by (rewrite Hths in Hx'; erewrite nth_upd_same in Hx' by eauto; congruence). subst y'.
      destruct Heff as [Hc Hp Hcl Hn | v Hpx Hpx' Hc Hp | j d Hpx Hj Hop Hpx' Hc Hp | j d Hpx Hj Hcd Hc Hp | Hpx Hnil Hpx' Hc Hp].
      * rewrite Hp. rewrite Hgot in Hn. inversion Hn; congruence.
      * congruence.
      * congruence.
      * exfalso. pose proof (inv_pcs s HI t x Hx) as Hok. rewrite Hpx in Hok. simpl in Hok.
        destruct Hok as [_ (e & He & Hop)]. congruence.
      * congruence.
    + rewrite Hths in Hx'. rewrite nth_error_upd_other in Hx' by exact Hut. congruence.
Qed.

(* only the Load, the CompareAndSwap and the second Load of Value can be that step *)
Definition lin_thread (l : lab) : option nat :=
  match l with TLoad t | TCas t | TReload t => Some t | _ => None end.

Ltac fin := (left; simpl; discriminate) || (right; reflexivity).

Lemma got_label s l s' t x x' k :
  step s l = Some s' ->
  nth_error (ths s) t = Some x -> nth_error (ths s') t = Some x' ->
  t_pc x <> PValGot k -> t_pc x' = PValGot k -> lin_thread l = Some t.
Proof.
  intros H Hx Hx' Hne Hgot.
  assert (Hupd : forall u y y' cs po, getth s u = Some y -> setth (with_cells s cs po) u y' = s' ->
                                  t_pc y' <> PValGot k \/ lin_thread l = Some u -> lin_thread l = Some t).
  { intros u y y' cs po Hy <- Hd. simpl in Hx'. destruct (Nat.eq_dec u t) as [->|Hut].
    - unfold getth in Hy. erewrite nth_upd_same in Hx' by eauto. inversion Hx'; subst y'.
      destruct Hd as [Hd|Hd]; [congruence | exact Hd].
    - rewrite nth_error_upd_other in Hx' by exact Hut. congruence. }
  assert (Hupd0 : forall u y y', getth s u = Some y -> setth s u y' = s' ->
                                 t_pc y' <> PValGot k \/ lin_thread l = Some u -> lin_thread l = Some t).
  { intros u y y' Hy E Hd. apply (Hupd u y y' (cells s) (ptr s) Hy); [|exact Hd]. destruct s; exact E. }
  destruct l as [u|g| |u v|u|u|u v b|u|u|u|u|u|u|u]; simpl in H; try discriminate;
    try (destruct (g <? length (gates s)); [|discriminate]; inversion H; subst s'; simpl in Hx'; congruence);
    destruct (getth s u) as [y|] eqn:Hy; try discriminate.
  - destruct (t_pc y); try discriminate. inversion H as [E]. eapply Hupd0; [exact Hy | exact E | fin].
  - destruct (t_prog y) as [|[w| |g|] r]; try discriminate. destruct (ready s y && Z.eqb v w); [|discriminate].
    inversion H as [E]. eapply Hupd0; [exact Hy | exact E | fin].
  - destruct (t_pc y); try discriminate. inversion H as [E]. eapply Hupd0; [exact Hy | exact E | fin].
  - destruct (t_prog y) as [|[w| |g|] r]; try discriminate; (destruct (ready s y); [|discriminate]);
      inversion H as [E]; (eapply Hupd0; [exact Hy | exact E | fin]).
  - destruct (t_pc y) as [| | | | | | | | |j|j b'| |]; try discriminate.
    destruct (nth_error (cells s) j); [|discriminate]. destruct (Z.eqb (c_val c) v && Bool.eqb b b'); [|discriminate].
    destruct (t_prog y) as [|[w| |g|] r]; try discriminate; inversion H as [E]; (eapply Hupd0; [exact Hy | exact E | fin]).
  - destruct (t_pc y); try discriminate. inversion H as [E]. eapply Hupd; [exact Hy | exact E | fin].
  - destruct (t_pc y) as [| | | |[j|]| | | | | | | |]; try discriminate.
    + destruct (nth_error (cells s) j); [|discriminate]. destruct (c_closed c); inversion H as [E].
      * eapply Hupd0; [exact Hy | exact E | fin].
      * eapply Hupd; [exact Hy | exact E | fin].
    + inversion H as [E]. eapply Hupd0; [exact Hy | exact E | fin].
  - destruct (t_pc y); try discriminate. destruct (ptr s); inversion H as [E]; (eapply Hupd0; [exact Hy | exact E | fin]).
  - destruct (t_pc y); try discriminate. destruct (ptr s); inversion H as [E];
      [eapply Hupd0; [exact Hy | exact E | fin] | eapply Hupd; [exact Hy | exact E | fin]].
  - destruct (t_pc y); try discriminate. destruct (ptr s); inversion H as [E]; (eapply Hupd0; [exact Hy | exact E | fin]).
  - destruct (t_pc y) as [| | | | | | | | |j| | |]; try discriminate.
    destruct (nth_error (cells s) j); [|discriminate]. destruct (poll_allowed s y); [|discriminate].
    inversion H as [E]. eapply Hupd0; [exact Hy | exact E | fin].
Qed.

(* what Value returns *)
Lemma ret_value s t v b s' :
  step s (LRetValue t v b) = Some s' ->
  exists x k c, nth_error (ths s) t = Some x /\ t_pc x = PValPolled k b /\
                nth_error (cells s) k = Some c /\ c_val c = v.
Proof.
  simpl. unfold getth. intros H. destruct (nth_error (ths s) t) as [x|] eqn:Hx; [|discriminate].
  destruct (t_pc x) as [| | | | | | | | | |k b'| |] eqn:Hp; try discriminate.
  destruct (nth_error (cells s) k) as [c|] eqn:Hc; [|discriminate].
  destruct (Z.eqb (c_val c) v && Bool.eqb b b') eqn:E; [|discriminate].
  apply andb_true_iff in E. destruct E as [Ev Eb]. apply Z.eqb_eq in Ev. apply Bool.eqb_prop in Eb. subst b'.
  exists x, k, c. auto.
Qed.

(* ---- quiescence ---- *)
Lemma in_tau s t l :
  t < length (ths s) -> In l [TSwap t; TClose t; TLoad t; TCas t; TReload t; TPoll t] -> In l (tau_labels s).
Proof.
  intros Hlt Hin. unfold tau_labels. apply in_flat_map. exists t. split; [apply in_seq; lia | exact Hin].
Qed.

Lemma quiescent_tau s t l :
  quiescent s = true -> t < length (ths s) ->
  In l [TSwap t; TClose t; TLoad t; TCas t; TReload t; TPoll t] -> step s l = None.
Proof.
  intros Hq Hlt Hin. unfold quiescent in Hq. apply andb_true_iff in Hq. destruct Hq as [Hq _].
  apply negb_true_iff in Hq. destruct (step s l) eqn:E; [|reflexivity].
  exfalso. assert (Hex : existsb (enabled s) (tau_labels s) = true).
  { apply existsb_exists. exists l. split; [eapply in_tau; eauto|]. unfold enabled. rewrite E. reflexivity. }
  congruence.
Qed.

Lemma quiescent_vis s t l :
  quiescent s = true -> t < length (ths s) -> In l (thread_visible s t) -> step s l = None.
Proof.
  intros Hq Hlt Hin. unfold quiescent in Hq. apply andb_true_iff in Hq. destruct Hq as [_ Hq].
  apply negb_true_iff in Hq. destruct (step s l) eqn:E; [|reflexivity].
  exfalso. assert (Hex : existsb (enabled s) (lib_visible s) = true).
  { apply existsb_exists. exists l. split.
    - unfold lib_visible. apply in_flat_map. exists t. split; [apply in_seq; lia | exact Hin].
    - unfold enabled. rewrite E. reflexivity. }
  congruence.
Qed.

(* at a quiescence point no Set is in progress ... *)
Lemma quiescent_no_set s t x :
  Inv s -> quiescent s = true -> nth_error (ths s) t = Some x -> set_in_progress (t_pc x) = false.
Proof.
  intros HI Hq Hx. pose proof (nth_lt _ _ _ Hx) as Hlt.
  destruct (t_pc x) as [| | |v|[k|]| | | | | | | |] eqn:Hp; try reflexivity; exfalso.
  - assert (E : step s (TSwap t) = None) by (eapply quiescent_tau; eauto; simpl; auto).
    simpl in E. unfold getth in E. rewrite Hx, Hp in E. discriminate.
  - assert (E : step s (TClose t) = None) by (eapply quiescent_tau; eauto; simpl; auto).
    simpl in E. unfold getth in E. rewrite Hx, Hp in E.
    pose proof (inv_pcs s HI t x Hx) as Hok. rewrite Hp in Hok. simpl in Hok. destruct Hok as [_ (c & Hc & Hop)].
    rewrite Hc, Hop in E. discriminate.
  - assert (E : step s (TClose t) = None) by (eapply quiescent_tau; eauto; simpl; auto).
    simpl in E. unfold getth in E. rewrite Hx, Hp in E. discriminate.
  - assert (E : step s (LRetSet t) = None).
    { eapply quiescent_vis; eauto. unfold thread_visible, getth. rewrite Hx, Hp. simpl; auto. }
    simpl in E. unfold getth in E. rewrite Hx, Hp in E. discriminate.
Qed.

(* ... and every observer loop that has started is parked on the open channel of the current cell *)
Lemma quiescent_observer s t x r :
  Inv s -> quiescent s = true -> nth_error (ths s) t = Some x -> t_prog x = AWatch :: r ->
  t_pc x = PIdle \/ (t_pc x = PGate /\ gate_open s x = false) \/
  exists k c, t_pc x = PWait k /\ nth_error (cells s) k = Some c /\ c_closed c = false /\
              ptr s = Some k /\ c_val c = cur_value s.
Proof.
  intros HI Hq Hx Hprog. pose proof (nth_lt _ _ _ Hx) as Hlt.
  pose proof (inv_pcs s HI t x Hx) as Hok.
  pose proof (quiescent_no_set s t x HI Hq Hx) as Hns.
  assert (Hcall : ready s x = true -> False).
  { intros Hr. assert (E : step s (LCallValue t) = None).
    { eapply quiescent_vis; eauto. unfold thread_visible, getth. rewrite Hx, Hprog.
      unfold ready in Hr. destruct (t_pc x); try discriminate; simpl; auto. }
    simpl in E. unfold getth in E. rewrite Hx, Hprog, Hr in E. discriminate. }
  destruct (t_pc x) as [| | |v|o| | | | |k|k b|k|] eqn:Hp; try discriminate.
  - left; reflexivity.
  - right; left. split; [reflexivity|]. destruct (gate_open s x) eqn:G; [|reflexivity].
    exfalso. apply Hcall. unfold ready. rewrite Hp. exact G.
  - exfalso. apply Hcall. unfold ready. rewrite Hp. reflexivity.
  - exfalso. assert (E : step s (TLoad t) = None) by (eapply quiescent_tau; eauto; simpl; auto).
    simpl in E. unfold getth in E. rewrite Hx, Hp in E. destruct (ptr s); discriminate.
  - exfalso. assert (E : step s (TCas t) = None) by (eapply quiescent_tau; eauto; simpl; auto 6).
    simpl in E. unfold getth in E. rewrite Hx, Hp in E. destruct (ptr s); discriminate.
  - exfalso. assert (E : step s (TReload t) = None) by (eapply quiescent_tau; eauto; simpl; auto 6).
    simpl in E. unfold getth in E. rewrite Hx, Hp in E. destruct (ptr s); discriminate.
  - exfalso. assert (E : step s (TPoll t) = None) by (eapply quiescent_tau; eauto; simpl; auto 8).
    simpl in E. unfold getth in E. rewrite Hx, Hp in E. simpl in Hok.
    destruct (nth_error (cells s) k) eqn:Hk; [|apply nth_error_None in Hk; lia].
    unfold poll_allowed in E. rewrite Hprog in E. discriminate.
  - exfalso. simpl in Hok. destruct Hok as [Hk _].
    destruct (nth_error (cells s) k) as [c|] eqn:Hc; [|apply nth_error_None in Hc; lia].
    assert (E : step s (LRetValue t (c_val c) b) = None).
    { eapply quiescent_vis; eauto. unfold thread_visible, getth. rewrite Hx, Hp, Hc. simpl; auto. }
    simpl in E. unfold getth in E. rewrite Hx, Hp, Hc, Hprog, Z.eqb_refl, Bool.eqb_reflx in E. discriminate.
  - right; right. simpl in Hok.
    destruct (nth_error (cells s) k) as [c|] eqn:Hc; [|apply nth_error_None in Hc; lia].
    destruct (c_closed c) eqn:Hcd.
    + exfalso. apply Hcall. unfold ready, cell_closed. rewrite Hp, Hc. exact Hcd.
    + destruct (open_is_current s k c HI (fun u y Hy => quiescent_no_set s u y HI Hq Hy) Hc Hcd) as [Hptr Hv].
      exists k, c. auto.
  - exfalso. exact Hok.
Qed.

(* every cell after the first one was created by a Set *)
Lemma later_is_set s k c : Inv s -> nth_error (cells s) (S k) = Some c -> c_set c = true.
Proof.
  intros HI Hk. destruct (c_set c) eqn:E; [reflexivity|]. destruct (inv_empty_first s HI _ _ Hk E) as [H0 _]. discriminate.
Qed.

(* ---- the statements of C18 (Watchable) ---- *)
Definition value_is_latest_stmt (s : st) : Prop :=
  (* (a) the pointer designates the newest cell; its value is the most recently Set one (zero before the first Set) *)
  match ptr s with
  | Some k => exists c, nth_error (cells s) k = Some c /\ S k = length (cells s) /\ c_val c = cur_value s
  | None => cells s = [] /\ set_history s = []
  end /\
  (* (b) linearisation: the step at which a Value call obtains its cell is its Load, its successful
     CompareAndSwap or its second Load, and that cell is the current one right after the step *)
  (forall l s' t x x' k,
      qstep s l = Some s' -> nth_error (ths s) t = Some x -> nth_error (ths s') t = Some x' ->
      t_pc x <> PValGot k -> t_pc x' = PValGot k ->
      lin_thread l = Some t /\ ptr s' = Some k /\
      exists c, nth_error (cells s') k = Some c /\ c_val c = cur_value s') /\
  (* (c) Value returns the value of that cell; a channel seen closed is closed, and a later Set exists *)
  (forall t v b s',
      qstep s (LRetValue t v b) = Some s' ->
      exists x k c, nth_error (ths s) t = Some x /\ t_pc x = PValPolled k b /\
                    nth_error (cells s) k = Some c /\ c_val c = v /\
                    (b = true -> c_closed c = true /\ S k < length (cells s))) /\
  (* (d) the channel of cell k is closed iff a later Swap has happened and that Set has executed its close *)
  (forall k c, nth_error (cells s) k = Some c ->
               (c_closed c = true <-> S k < length (cells s) /\ ~ closing s k)) /\
  (* (e) every cell after the first was installed by a Set (only the first can be Value's empty cell) *)
  (forall k c, nth_error (cells s) (S k) = Some c -> c_set c = true) /\
  (* (f) cells are immutable and closed channels stay closed *)
  (forall l s', qstep s l = Some s' ->
                forall k c, nth_error (cells s) k = Some c ->
                            exists c', nth_error (cells s') k = Some c' /\ c_val c' = c_val c /\ c_set c' = c_set c /\
                                       (c_closed c = true -> c_closed c' = true)) /\
  (* (g) the Set history: a Swap step appends its value; no other step changes it *)
  (forall l s', qstep s l = Some s' ->
                (forall t, l = TSwap t ->
                           exists x v, nth_error (ths s) t = Some x /\ t_pc x = PSetCalled v /\
                                       set_history s' = set_history s ++ [v]) /\
                ((forall t, l <> TSwap t) -> set_history s' = set_history s)) /\
  (* (h) no close of a closed channel, no nil dereference *)
  (forall t x, nth_error (ths s) t = Some x -> t_pc x <> PPanic).

Lemma filter_upd_set cs k c :
  nth_error cs k = Some c -> map c_val (filter c_set (upd cs k (close_cell c))) = map c_val (filter c_set cs).
Proof.
  revert k. induction cs as [|d cs IH]; intros [|k] Hk; simpl in *; try discriminate.
  - inversion Hk; subst d. destruct (c_set c); reflexivity.
  - destruct (c_set d); simpl; rewrite (IH k Hk); reflexivity.
Qed.

Lemma history_swap s t s' :
  step s (TSwap t) = Some s' ->
  exists x v, nth_error (ths s) t = Some x /\ t_pc x = PSetCalled v /\ set_history s' = set_history s ++ [v].
Proof.
  simpl. unfold getth. intros H. destruct (nth_error (ths s) t) as [x|] eqn:Hx; [|discriminate].
  destruct (t_pc x) as [| | |v| | | | | | | | |] eqn:Hp; try discriminate. inversion H; subst s'.
  exists x, v. split; [reflexivity|]. split; [exact Hp|].
  unfold set_history. simpl. rewrite filter_app, map_app. reflexivity.
Qed.

Lemma history_other s l s' :
  step s l = Some s' -> (forall t, l <> TSwap t) -> set_history s' = set_history s.
Proof.
  intros H Hne. unfold set_history.
  destruct l as [t|g| |t v|t|t|t v b|t|t|t|t|t|t|t]; simpl in H; try discriminate;
    try (exfalso; eapply Hne; reflexivity);
    try (destruct (g <? length (gates s)); [|discriminate]; inversion H; reflexivity);
    unfold getth in H; destruct (nth_error (ths s) t) as [x|] eqn:Hx; try discriminate.
  all: repeat match type of H with
              | context [match ?e with _ => _ end] => destruct e eqn:?; try discriminate
              end.
  all: inversion H; subst s'; simpl; try reflexivity.
  - eapply filter_upd_set; eassumption.
  - rewrite filter_app, map_app. simpl. rewrite app_nil_r. reflexivity.
Qed.

Theorem value_is_latest cfg ng s : reachable qstep (init cfg ng) s -> value_is_latest_stmt s.
Proof.
  intros Hr. pose proof (watch_inv cfg ng s Hr) as HI. unfold value_is_latest_stmt.
  split; [apply current_cell; exact HI|].
  split.
  { intros l s' t x x' k H Hx Hx' Hne Hgot.
    pose proof (Inv_step s l s' HI H) as HI'.
    pose proof (got_is_current s l s' t x x' k HI H Hx Hx' Hne Hgot) as Hptr.
    split; [|split; [exact Hptr|]].
    - assert (Hl : l = LQuiesce \/ qstep s l = step s l) by (destruct l; auto).
      destruct Hl as [->|E].
      + simpl in H. destruct (quiescent s); [|discriminate]. inversion H; subst s'. congruence.
      + rewrite E in H. eapply got_label; eauto.
    - pose proof (current_cell s' HI') as Hc. rewrite Hptr in Hc. destruct Hc as (c & Hk & _ & Hv). exists c. auto. }
  split.
  { intros t v b s' H. change (step s (LRetValue t v b) = Some s') in H.
    destruct (ret_value s t v b s' H) as (x & k & c & Hx & Hp & Hk & Hv).
    exists x, k, c. split; [exact Hx|]. split; [exact Hp|]. split; [exact Hk|]. split; [exact Hv|].
    intros Hbt. pose proof (inv_pcs s HI t x Hx) as Hok. rewrite Hp in Hok. simpl in Hok. destruct Hok as [_ Hb].
    destruct (Hb Hbt) as (d & Hd & Hcd). assert (d = c) by congruence. subst d.
    split; [exact Hcd | eapply inv_closed_lt; eauto]. }
  split; [intros k c Hk; apply closed_iff; auto|].
  split; [intros k c Hk; eapply later_is_set; eauto|].
  split; [intros l s' H; eapply cells_stable; eauto|].
  split.
  { intros l s' H. split.
    - intros t ->. apply history_swap. exact H.
    - intros Hne. assert (Hl : l = LQuiesce \/ qstep s l = step s l) by (destruct l; auto).
      destruct Hl as [->|E].
      + simpl in H. destruct (quiescent s); [|discriminate]. inversion H; reflexivity.
      + rewrite E in H. eapply history_other; eauto. }
  intros t x Hx. eapply no_panic; eauto.
Qed.

(* ---- the statement of C18 (observer loop) ---- *)
Definition observer_converges_stmt (s : st) : Prop :=
  (* with no Set in progress, whoever holds an open channel holds the current cell: its value is the final one *)
  ((forall t x, nth_error (ths s) t = Some x -> set_in_progress (t_pc x) = false) ->
   forall t x k c, nth_error (ths s) t = Some x -> holds (t_pc x) = Some k ->
                   nth_error (cells s) k = Some c -> c_closed c = false ->
                   ptr s = Some k /\ c_val c = cur_value s) /\
  (* at a quiescence point no Set is in progress and every observer loop that has started is parked
     on the open channel of the current cell, having last seen the most recently Set value *)
  (quiescent s = true ->
   (forall t x, nth_error (ths s) t = Some x -> set_in_progress (t_pc x) = false) /\
   (forall t x r, nth_error (ths s) t = Some x -> t_prog x = AWatch :: r ->
                  t_pc x = PIdle \/ (t_pc x = PGate /\ gate_open s x = false) \/
                  exists k c, t_pc x = PWait k /\ nth_error (cells s) k = Some c /\ c_closed c = false /\
                              ptr s = Some k /\ c_val c = cur_value s)) /\
  (* an observer never stays parked on a closed channel: its next Value call is enabled *)
  (forall t x k r, nth_error (ths s) t = Some x -> t_pc x = PWait k -> t_prog x = AWatch :: r ->
                   cell_closed s k = true -> exists s', step s (LCallValue t) = Some s').

Theorem observer_converges cfg ng s : reachable qstep (init cfg ng) s -> observer_converges_stmt s.
Proof.
  intros Hr. pose proof (watch_inv cfg ng s Hr) as HI. unfold observer_converges_stmt.
  split; [|split].
  - intros Hno t x k c Hx Hh Hk Hop. eapply open_is_current; eauto.
  - intros Hq. split.
    + intros t x Hx. eapply quiescent_no_set; eauto.
    + intros t x r Hx Hprog. eapply quiescent_observer; eauto.
  - intros t x k r Hx Hp Hprog Hcl. simpl. unfold getth. rewrite Hx, Hprog. unfold ready. rewrite Hp, Hcl. eauto.
Qed.

End WatchP.

(* ================================================================== *)
(*                              Future                                 *)
(* ================================================================== *)
Module FutP.
Import Fut.

Definition is_fill (k : kind) : bool := match k with KFill _ => true | _ => false end.

(* what a goroutine's program counter promises about the future's fields ([t] is its own index) *)
Definition th_ok (s : st) (t : nat) (x : thread) : Prop :=
  match t_pc x with
  | PIdle | PGate | PReady => fwinner s <> Some t
  | PFillCalled => is_fill (t_kind x) = true /\ fwinner s <> Some t
  | PFillWon => is_fill (t_kind x) = true /\ fwinner s = Some t /\ fclosed s = false
  | PFillWritten => t_kind x = KFill (fx s) /\ fwinner s = Some t /\ fclosed s = false
  | PFillClosed => t_kind x = KFill (fx s) /\ fwinner s = Some t /\ fclosed s = true
  | PFillPanic => is_fill (t_kind x) = true /\ fwinner s <> Some t /\ ffilled s = true
  | PWaitCalled | PCtxCalled | PCtxSel => is_fill (t_kind x) = false
  | PRecvd => fclosed s = true /\ is_fill (t_kind x) = false
  | PRead w => fclosed s = true /\ w = fx s /\ is_fill (t_kind x) = false
  | PCtxErr => exists c, t_kind x = KWaitCtx c /\ ctx_done s c = true
  | PDone => fwinner s = Some t -> t_kind x = KFill (fx s) /\ fclosed s = true
  end.

Record FInv (s : st) : Prop := mkFInv {
  f_ths : forall t x, nth_error (ths s) t = Some x -> th_ok s t x;
  f_win_some : forall tw, fwinner s = Some tw ->
                 ffilled s = true /\ exists xw, nth_error (ths s) tw = Some xw /\ is_fill (t_kind xw) = true;
  f_win_none : fwinner s = None -> ffilled s = false /\ fclosed s = false
}.

(* the scenario contains at most one Fill call (Fill's documented precondition) *)
Definition at_most_one_fill (cfg : list (option nat * kind)) : Prop :=
  forall i j p q, nth_error cfg i = Some p -> nth_error cfg j = Some q ->
                  is_fill (snd p) = true -> is_fill (snd q) = true -> i = j.

(* the fields of the future are unchanged *)
Definition same_fut (s s' : st) : Prop :=
  fx s' = fx s /\ fclosed s' = fclosed s /\ ffilled s' = ffilled s /\ fwinner s' = fwinner s.

Lemma same_fut_refl s : same_fut s s.
Proof. unfold same_fut. auto. Qed.

(* transitions of one goroutine that do not write the future's fields (with their labels) *)
Inductive plain (s : st) (t : nat) (x : thread) : lab -> pc -> Prop :=
| P_spawn : t_pc x = PIdle -> plain s t x (LSpawn t) PGate
| P_callfill v : ready s x = true -> t_kind x = KFill v -> plain s t x (LCallFill t v) PFillCalled
| P_caslose : t_pc x = PFillCalled -> ffilled s = true -> plain s t x (TCas t) PFillPanic
| P_retfill : t_pc x = PFillClosed -> plain s t x (LRetFill t) PDone
| P_retpanic : t_pc x = PFillPanic -> plain s t x (LPanicFill t) PDone
| P_callwait : ready s x = true -> t_kind x = KWait -> plain s t x (LCallWait t) PWaitCalled
| P_callctx c : ready s x = true -> t_kind x = KWaitCtx c -> plain s t x (LCallWaitCtx t c) PCtxCalled
| P_recv : t_pc x = PWaitCalled -> fclosed s = true -> plain s t x (TRecv t) PRecvd
| P_pollf : t_pc x = PCtxCalled -> fclosed s = true -> plain s t x (TPollF t) PRecvd
| P_polld : t_pc x = PCtxCalled -> fclosed s = false -> plain s t x (TPollD t) PCtxSel
| P_self : t_pc x = PCtxSel -> fclosed s = true -> plain s t x (TSelF t) PRecvd
| P_selctx c : t_pc x = PCtxSel -> t_kind x = KWaitCtx c -> ctx_done s c = true ->
               plain s t x (TSelCtx t) PCtxErr
| P_read : t_pc x = PRecvd -> plain s t x (TRead t) (PRead (fx s))
| P_retwait v : t_pc x = PRead v -> t_kind x = KWait -> plain s t x (LRetWait t v) PDone
| P_retctx v c : t_pc x = PRead v -> t_kind x = KWaitCtx c -> plain s t x (LRetWaitCtx t v false) PDone
| P_reterr c : t_pc x = PCtxErr -> t_kind x = KWaitCtx c -> plain s t x (LRetWaitCtx t 0%Z true) PDone.

Inductive feff (s s' : st) (t : nat) (x : thread) : lab -> pc -> Prop :=
| FE_plain l p' : same_fut s s' -> plain s t x l p' -> feff s s' t x l p'
| FE_caswin : t_pc x = PFillCalled -> ffilled s = false -> ffilled s' = true -> fwinner s' = Some t ->
              fx s' = fx s -> fclosed s' = fclosed s -> feff s s' t x (TCas t) PFillWon
| FE_write v : t_pc x = PFillWon -> t_kind x = KFill v -> fx s' = v -> fclosed s' = fclosed s ->
               ffilled s' = ffilled s -> fwinner s' = fwinner s -> feff s s' t x (TWrite t) PFillWritten
| FE_close : t_pc x = PFillWritten -> fclosed s = false -> fx s' = fx s -> fclosed s' = true ->
             ffilled s' = ffilled s -> fwinner s' = fwinner s -> feff s s' t x (TCloseF t) PFillClosed
| FE_panic : t_pc x = PFillWritten -> fclosed s = true -> same_fut s s' ->
             feff s s' t x (TCloseF t) PFillPanic.

Lemma ctx_done_upd s c st' d :
  ctx_done s d = true -> nth_error (ctxs s) c <> Some CDone ->
  match nth_error (upd (ctxs s) c st') d with Some CDone => true | _ => false end = true.
Proof.
  unfold ctx_done. intros Hd Hc. rewrite nth_upd. destruct (Nat.eq_dec c d) as [->|Hne]; [|exact Hd].
  destruct (nth_error (ctxs s) d) as [[| |]|]; try discriminate. congruence.
Qed.

Definition frame (s s' : st) : Prop :=
  ths s' = ths s /\ same_fut s s' /\ (forall c, ctx_done s c = true -> ctx_done s' c = true).

Definition thread_step (s s' : st) (l : lab) : Prop :=
  exists t x p', nth_error (ths s) t = Some x /\ ths s' = upd (ths s) t (set_pc x p') /\
                 ctxs s' = ctxs s /\ feff s s' t x l p'.

Lemma fstep_cases s l s' : step s l = Some s' -> frame s s' \/ thread_step s s' l.
Proof.
  intros H.
  assert (Hplain : forall t x p', getth s t = Some x -> setth s t (set_pc x p') = s' -> plain s t x l p' ->
                                  thread_step s s' l).
  { intros t x p' Hx <- Hp. exists t, x, p'. split; [exact Hx|]. split; [reflexivity|]. split; [reflexivity|].
    apply FE_plain; [unfold same_fut; simpl; auto | exact Hp]. }
  unfold frame, same_fut.
  destruct l as [t|g|c| |t v|t|t|t|t v|t c|t v e|t|t|t|t|t|t|t|t|t|c]; simpl in H; try discriminate.
  - (* LSpawn *) destruct (getth s t) as [x|] eqn:Hx; [|discriminate].
    destruct (t_pc x) eqn:Hp; try discriminate. injection H as E. right. eapply Hplain; eauto.
    apply P_spawn; exact Hp.
  - (* LRelease *) destruct (g <? length (gates s)); [|discriminate]. inversion H; subst s'. left. simpl. auto 6.
  - (* LCancel *)
    destruct (nth_error (ctxs s) c) as [[| |]|] eqn:Hc; try discriminate; inversion H; subst s'; left; simpl; auto 6.
    split; [reflexivity|]. split; [auto|]. intros d Hd. unfold ctx_done at 1. simpl.
    apply ctx_done_upd; [exact Hd | congruence].
  - (* LCallFill *) destruct (getth s t) as [x|] eqn:Hx; [|discriminate].
    destruct (t_kind x) as [v'| |c'] eqn:Hk; try discriminate.
    destruct (ready s x && Z.eqb v v') eqn:Hr; [|discriminate].
    apply andb_true_iff in Hr. destruct Hr as [Hr Hv]. apply Z.eqb_eq in Hv. subst v'.
    injection H as E. right. eapply Hplain; eauto. apply P_callfill; [exact Hr | exact Hk].
  - (* LRetFill *) destruct (getth s t) as [x|] eqn:Hx; [|discriminate].
    destruct (t_pc x) eqn:Hp; try discriminate. injection H as E. right. eapply Hplain; eauto.
    apply P_retfill; exact Hp.
  - (* LPanicFill *) destruct (getth s t) as [x|] eqn:Hx; [|discriminate].
    destruct (t_pc x) eqn:Hp; try discriminate. injection H as E. right. eapply Hplain; eauto.
    apply P_retpanic; exact Hp.
  - (* LCallWait *) destruct (getth s t) as [x|] eqn:Hx; [|discriminate].
    destruct (t_kind x) as [v'| |c'] eqn:Hk; try discriminate. destruct (ready s x) eqn:Hr; [|discriminate].
    injection H as E. right. eapply Hplain; eauto. apply P_callwait; [exact Hr | exact Hk].
  - (* LRetWait *) destruct (getth s t) as [x|] eqn:Hx; [|discriminate].
    destruct (t_pc x) as [| | | | | | | | | | | |w| |] eqn:Hp; try discriminate.
    destruct (t_kind x) as [v'| |c'] eqn:Hk; try discriminate.
    destruct (Z.eqb v w) eqn:Hv; [|discriminate]. apply Z.eqb_eq in Hv. subst w.
    injection H as E. right. eapply Hplain; eauto. apply P_retwait; [exact Hp | exact Hk].
  - (* LCallWaitCtx *) destruct (getth s t) as [x|] eqn:Hx; [|discriminate].
    destruct (t_kind x) as [v'| |c'] eqn:Hk; try discriminate.
    destruct (ready s x && Nat.eqb c c') eqn:Hr; [|discriminate].
    apply andb_true_iff in Hr. destruct Hr as [Hr Hc]. apply Nat.eqb_eq in Hc. subst c'.
    injection H as E. right. eapply Hplain; eauto. apply P_callctx; [exact Hr | exact Hk].
  - (* LRetWaitCtx *) destruct (getth s t) as [x|] eqn:Hx; [|discriminate].
    destruct (t_pc x) as [| | | | | | | | | | | |w| |] eqn:Hp; try discriminate;
      destruct (t_kind x) as [v'| |c'] eqn:Hk; try discriminate.
    + destruct (Z.eqb v w && negb e) eqn:Hv; [|discriminate].
      apply andb_true_iff in Hv. destruct Hv as [Hv He]. apply Z.eqb_eq in Hv. subst w.
      apply negb_true_iff in He. subst e.
      injection H as E. right. eapply Hplain; eauto. eapply P_retctx; [exact Hp | exact Hk].
    + destruct (Z.eqb v 0%Z && e) eqn:Hv; [|discriminate].
      apply andb_true_iff in Hv. destruct Hv as [Hv He]. apply Z.eqb_eq in Hv. subst v e.
      injection H as E. right. eapply Hplain; eauto. eapply P_reterr; [exact Hp | exact Hk].
  - (* TCas *) destruct (getth s t) as [x|] eqn:Hx; [|discriminate].
    destruct (t_pc x) eqn:Hp; try discriminate. destruct (ffilled s) eqn:Hfi.
    + injection H as E. right. eapply Hplain; eauto. apply P_caslose; [exact Hp | exact Hfi].
    + inversion H; subst s'. right. exists t, x, PFillWon. split; [exact Hx|]. split; [reflexivity|].
      split; [reflexivity|]. apply FE_caswin; simpl; auto.
  - (* TWrite *) destruct (getth s t) as [x|] eqn:Hx; [|discriminate].
    destruct (t_pc x) eqn:Hp; try discriminate. destruct (t_kind x) as [v'| |c'] eqn:Hk; try discriminate.
    inversion H; subst s'. right. exists t, x, PFillWritten. split; [exact Hx|]. split; [reflexivity|].
    split; [reflexivity|]. eapply FE_write; simpl; eauto.
  - (* TCloseF *) destruct (getth s t) as [x|] eqn:Hx; [|discriminate].
    destruct (t_pc x) eqn:Hp; try discriminate. destruct (fclosed s) eqn:Hcl; inversion H; subst s'; right.
    + exists t, x, PFillPanic. split; [exact Hx|]. split; [reflexivity|]. split; [reflexivity|].
      apply FE_panic; [exact Hp | exact Hcl | unfold same_fut; simpl; auto].
    + exists t, x, PFillClosed. split; [exact Hx|]. split; [reflexivity|]. split; [reflexivity|].
      apply FE_close; simpl; auto.
  - (* TRecv *) destruct (getth s t) as [x|] eqn:Hx; [|discriminate].
    destruct (t_pc x) eqn:Hp; try discriminate. destruct (fclosed s) eqn:Hcl; [|discriminate].
    injection H as E. right. eapply Hplain; eauto. apply P_recv; [exact Hp | exact Hcl].
  - (* TPollF *) destruct (getth s t) as [x|] eqn:Hx; [|discriminate].
    destruct (t_pc x) eqn:Hp; try discriminate. destruct (fclosed s) eqn:Hcl; [|discriminate].
    injection H as E. right. eapply Hplain; eauto. apply P_pollf; [exact Hp | exact Hcl].
  - (* TPollD *) destruct (getth s t) as [x|] eqn:Hx; [|discriminate].
    destruct (t_pc x) eqn:Hp; try discriminate. destruct (fclosed s) eqn:Hcl; [discriminate|].
    injection H as E. right. eapply Hplain; eauto. apply P_polld; [exact Hp | exact Hcl].
  - (* TSelF *) destruct (getth s t) as [x|] eqn:Hx; [|discriminate].
    destruct (t_pc x) eqn:Hp; try discriminate. destruct (fclosed s) eqn:Hcl; [|discriminate].
    injection H as E. right. eapply Hplain; eauto. apply P_self; [exact Hp | exact Hcl].
  - (* TSelCtx *) destruct (getth s t) as [x|] eqn:Hx; [|discriminate].
    destruct (t_pc x) eqn:Hp; try discriminate. destruct (t_kind x) as [v'| |c'] eqn:Hk; try discriminate.
    destruct (ctx_done s c') eqn:Hd; [|discriminate].
    injection H as E. right. eapply Hplain; eauto. eapply P_selctx; [exact Hp | exact Hk | exact Hd].
  - (* TRead *) destruct (getth s t) as [x|] eqn:Hx; [|discriminate].
    destruct (t_pc x) eqn:Hp; try discriminate.
    injection H as E. right. eapply Hplain; eauto. apply P_read; exact Hp.
  - (* TCancelEff *)
    destruct (nth_error (ctxs s) c) as [[| |]|] eqn:Hc; try discriminate; inversion H; subst s'; left; simpl.
    split; [reflexivity|]. split; [auto|]. intros d Hd. unfold ctx_done at 1. simpl.
    apply ctx_done_upd; [exact Hd | congruence].
Qed.

Lemma fqstep_cases s l s' : qstep s l = Some s' -> frame s s' \/ thread_step s s' l.
Proof.
  intros H.
  assert (Hl : l = LQuiesce \/ qstep s l = step s l) by (destruct l; auto).
  destruct Hl as [->|E].
  - simpl in H. destruct (quiescent s); [|discriminate]. inversion H; subst. left.
    split; [reflexivity|]. split; [apply same_fut_refl | auto].
  - rewrite E in H. apply fstep_cases in H. exact H.
Qed.

Lemma th_ok_ext s s' t x :
  same_fut s s' -> (forall c, ctx_done s c = true -> ctx_done s' c = true) ->
  th_ok s t x -> th_ok s' t x.
Proof.
  intros (Hf & Hc & Hfi & Hw) Hd. unfold th_ok. rewrite Hf, Hc, Hfi, Hw. destruct (t_pc x); auto.
  intros (c & Hk & Hdc). exists c. auto.
Qed.

Lemma ready_pc s x : ready s x = true -> t_pc x = PReady \/ t_pc x = PGate.
Proof. unfold ready. destruct (t_pc x); intros H; try discriminate H; auto. Qed.

Lemma plain_ok s t x l p' :
  (is_fill (t_kind x) = false -> fwinner s <> Some t) ->
  th_ok s t x -> plain s t x l p' -> th_ok s t (set_pc x p').
Proof.
  intros Hnf Hok Hp. unfold th_ok in *.
  destruct Hp as [Hp|v Hr Hk|Hp Hfi|Hp|Hp|Hr Hk|c Hr Hk|Hp Hcl|Hp Hcl|Hp Hcl|Hp Hcl|c Hp Hk Hd|Hp|v Hp Hk|v c Hp Hk|c Hp Hk];
    simpl.
  - rewrite Hp in Hok. exact Hok.
  - rewrite Hk. split; [reflexivity|]. destruct (ready_pc s x Hr) as [E|E]; rewrite E in Hok; exact Hok.
  - rewrite Hp in Hok. destruct Hok as [Hf Hw]. auto.
  - rewrite Hp in Hok. destruct Hok as (Hk & Hw & Hcl). intros _. auto.
  - rewrite Hp in Hok. destruct Hok as (Hf & Hw & Hfi). intros E. contradiction.
  - rewrite Hk. reflexivity.
  - rewrite Hk. reflexivity.
  - rewrite Hp in Hok. auto.
  - rewrite Hp in Hok. auto.
  - rewrite Hp in Hok. exact Hok.
  - rewrite Hp in Hok. auto.
  - exists c. auto.
  - rewrite Hp in Hok. destruct Hok as [Hcl Hf]. auto.
  - intros E. exfalso. apply Hnf; [rewrite Hk; reflexivity | exact E].
  - intros E. exfalso. apply Hnf; [rewrite Hk; reflexivity | exact E].
  - intros E. exfalso. apply Hnf; [rewrite Hk; reflexivity | exact E].
Qed.

(* the goroutines other than the winner are indifferent to the winner's write and close
   (which happen while the channel is still open) *)
Lemma th_ok_other s s' tw u y :
  fwinner s = Some tw -> u <> tw -> fclosed s = false ->
  fwinner s' = fwinner s -> ffilled s' = ffilled s -> ctxs s' = ctxs s ->
  th_ok s u y -> th_ok s' u y.
Proof.
  intros Hw Hne Hcl Hw' Hfi Hcx. unfold th_ok, ctx_done. rewrite Hw', Hfi, Hcx, Hw, Hcl.
  destruct (t_pc y); auto.
  - intros (_ & E & _). exfalso. apply Hne. congruence.
  - intros (_ & E & _). exfalso. apply Hne. congruence.
  - intros (_ & E & _). exfalso. apply Hne. congruence.
  - intros (E & _). discriminate.
  - intros (E & _). discriminate.
  - intros _ E. exfalso. apply Hne. congruence.
Qed.

(* ... and to the CompareAndSwap that elects the winner *)
Lemma th_ok_caswin s s' t u y :
  fwinner s = None -> ffilled s = false -> u <> t ->
  fwinner s' = Some t -> fx s' = fx s -> fclosed s' = fclosed s -> ctxs s' = ctxs s ->
  th_ok s u y -> th_ok s' u y.
Proof.
  intros Hw Hfi Hne Hw' Hf Hc Hcx. unfold th_ok, ctx_done. rewrite Hw', Hf, Hc, Hcx, Hw, Hfi.
  assert (Hd : Some t <> Some u) by congruence.
  destruct (t_pc y); auto.
  - intros [E _]. auto.
  - intros (_ & E & _). discriminate.
  - intros (_ & E & _). discriminate.
  - intros (_ & E & _). discriminate.
  - intros (_ & _ & E). discriminate.
  - intros _ E. exfalso. apply Hd. exact E.
Qed.

Lemma FInv_step s l s' : FInv s -> qstep s l = Some s' -> FInv s'.
Proof.
  intros HI H. apply fqstep_cases in H. destruct HI as [F1 F2 F3].
  destruct H as [(Ht & Hsame & Hd)|(t & x & p' & Hx & Hths & Hcx & Heff)].
  - pose proof Hsame as (Hf & Hc & Hfi & Hw).
    constructor; rewrite ?Ht, ?Hc, ?Hfi, ?Hw; auto. intros t x Hx. eapply th_ok_ext; eauto.
  - assert (Hnew : nth_error (ths s') t = Some (set_pc x p')) by (rewrite Hths; eapply nth_upd_same; eauto).
    assert (Hoth : forall u y, nth_error (ths s') u = Some y -> u <> t -> nth_error (ths s) u = Some y).
    { intros u y Hu Hne. rewrite Hths in Hu. apply nth_upd_Some in Hu.
      destruct Hu as [[E _]|[_ Hu]]; [congruence | exact Hu]. }
    assert (Hfwd : forall u y, nth_error (ths s) u = Some y -> is_fill (t_kind y) = true ->
                               exists y', nth_error (ths s') u = Some y' /\ is_fill (t_kind y') = true).
    { intros u y Hu Hfy. destruct (Nat.eq_dec u t) as [->|Hne].
      - exists (set_pc x p'). split; [exact Hnew|]. simpl. congruence.
      - exists y. split; [|exact Hfy]. rewrite Hths. rewrite nth_error_upd_other by congruence. exact Hu. }
    assert (Hd0 : forall c, ctx_done s c = true -> ctx_done s' c = true) by (intros c; unfold ctx_done; rewrite Hcx; auto).
    pose proof (F1 t x Hx) as Hokx.
    assert (Hnf : is_fill (t_kind x) = false -> fwinner s <> Some t).
    { intros Hf E. destruct (F2 t E) as (_ & xw & Hxw & Hfw). congruence. }
    destruct Heff as [l p' Hsame Hp | Hpx Hfi Hfi' Hw' Hf Hc | v Hpx Hk Hf Hc Hfi Hw | Hpx Hcl Hf Hc Hfi Hw | Hpx Hcl Hsame].
    + (* plain *)
      pose proof Hsame as (Hf & Hc & Hfi & Hw).
      constructor.
      * intros u y Hu. destruct (Nat.eq_dec u t) as [->|Hne].
        -- rewrite Hnew in Hu; inversion Hu; subst y. eapply th_ok_ext; eauto. eapply plain_ok; eauto.
        -- eapply th_ok_ext; eauto.
      * rewrite Hw, Hfi. intros tw E. destruct (F2 tw E) as (Hfl & xw & Hxw & Hfw). split; [exact Hfl|].
        eapply Hfwd; eauto.
      * rewrite Hw, Hfi, Hc. exact F3.
    + (* the CompareAndSwap succeeds: this goroutine becomes the winner *)
      assert (Hw0 : fwinner s = None).
      { destruct (fwinner s) as [tw|] eqn:E; [|reflexivity]. destruct (F2 tw eq_refl) as [Hc0 _]. congruence. }
      unfold th_ok in Hokx. rewrite Hpx in Hokx. destruct Hokx as [Hfx _].
      destruct (F3 Hw0) as [_ Hcl].
      constructor.
      * intros u y Hu. destruct (Nat.eq_dec u t) as [->|Hne].
        -- rewrite Hnew in Hu; inversion Hu; subst y. unfold th_ok. simpl. rewrite Hw', Hc. auto.
        -- eapply th_ok_caswin with (s := s) (t := t); eauto.
      * rewrite Hw'. intros tw E. inversion E; subst tw. split; [exact Hfi'|].
        exists (set_pc x PFillWon). split; [exact Hnew | exact Hfx].
      * rewrite Hw'. discriminate.
    + (* the winner writes f.x *)
      unfold th_ok in Hokx. rewrite Hpx in Hokx. destruct Hokx as (Hfx & Hwt & Hcl).
      constructor.
      * intros u y Hu. destruct (Nat.eq_dec u t) as [->|Hne].
        -- rewrite Hnew in Hu; inversion Hu; subst y. unfold th_ok. simpl. rewrite Hf, Hc, Hw. auto.
        -- eapply th_ok_other with (s := s) (tw := t); eauto.
      * rewrite Hw, Hfi. intros tw E. destruct (F2 tw E) as (Hfl & xw & Hxw & Hfw). split; [exact Hfl|].
        eapply Hfwd; eauto.
      * rewrite Hw, Hwt. discriminate.
    + (* the winner closes f.c *)
      unfold th_ok in Hokx. rewrite Hpx in Hokx. destruct Hokx as (Hkx & Hwt & _).
      constructor.
      * intros u y Hu. destruct (Nat.eq_dec u t) as [->|Hne].
        -- rewrite Hnew in Hu; inversion Hu; subst y. unfold th_ok. simpl. rewrite Hf, Hc, Hw. auto.
        -- eapply th_ok_other with (s := s) (tw := t); eauto.
      * rewrite Hw, Hfi. intros tw E. destruct (F2 tw E) as (Hfl & xw & Hxw & Hfw). split; [exact Hfl|].
        eapply Hfwd; eauto.
      * rewrite Hw, Hwt. discriminate.
    + (* close of a closed channel: excluded *)
      unfold th_ok in Hokx. rewrite Hpx in Hokx. destruct Hokx as (_ & _ & Hop). congruence.
Qed.

Lemma FInv_init cfg nctx ng : FInv (init cfg nctx ng).
Proof.
  constructor; simpl.
  - intros t x Hx. rewrite nth_error_map in Hx. destruct (nth_error cfg t); [|discriminate].
    inversion Hx. unfold th_ok. simpl. discriminate.
  - discriminate.
  - auto.
Qed.

Theorem fut_inv cfg nctx ng s : reachable qstep (init cfg nctx ng) s -> FInv s.
Proof.
  apply (invariant_rule qstep FInv). - apply FInv_init. - intros; eapply FInv_step; eauto.
Qed.

(* the goroutines keep the kinds the configuration gave them *)
Definition KInv (cfg : list (option nat * kind)) (s : st) : Prop :=
  forall u, option_map t_kind (nth_error (ths s) u) = option_map snd (nth_error cfg u).

Lemma KInv_step cfg s l s' : KInv cfg s -> qstep s l = Some s' -> KInv cfg s'.
Proof.
  intros HK H. apply fqstep_cases in H.
  destruct H as [(Ht & _ & _)|(t & x & p' & Hx & Hths & _ & _)]; unfold KInv; intros u.
  - rewrite Ht. apply HK.
  - rewrite Hths. destruct (Nat.eq_dec t u) as [<-|Hne].
    + erewrite nth_upd_same by eauto. rewrite <- HK, Hx. reflexivity.
    + rewrite nth_error_upd_other by exact Hne. apply HK.
Qed.

Theorem fut_kinds cfg nctx ng s : reachable qstep (init cfg nctx ng) s -> KInv cfg s.
Proof.
  apply (invariant_rule qstep (KInv cfg)).
  - intros u. simpl. rewrite nth_error_map. destruct (nth_error cfg u); reflexivity.
  - intros; eapply KInv_step; eauto.
Qed.

(* once the channel is closed, f.x is the value of the Fill call that won the CompareAndSwap *)
Lemma closed_value s :
  FInv s -> fclosed s = true ->
  exists tw xw, fwinner s = Some tw /\ nth_error (ths s) tw = Some xw /\ t_kind xw = KFill (fx s).
Proof.
  intros [F1 F2 F3] Hcl. destruct (fwinner s) as [tw|] eqn:Hw.
  - destruct (F2 tw eq_refl) as (_ & xw & Hxw & Hf). exists tw, xw. split; [reflexivity|]. split; [exact Hxw|].
    pose proof (F1 tw xw Hxw) as Hok. unfold th_ok in Hok. rewrite Hw in Hok.
    destruct (t_pc xw) as [| | | | | | | | | | | |w| |].
    + exfalso. apply Hok. reflexivity.
    + exfalso. apply Hok. reflexivity.
    + exfalso. apply Hok. reflexivity.
    + destruct Hok as [_ Hne]. exfalso. apply Hne. reflexivity.
    + destruct Hok as (_ & _ & Hop). congruence.
    + destruct Hok as (_ & _ & Hop). congruence.
    + destruct Hok as (Hk & _ & _). exact Hk.
    + destruct Hok as (_ & Hne & _). exfalso. apply Hne. reflexivity.
    + congruence.
    + congruence.
    + congruence.
    + destruct Hok as (_ & Hnf). congruence.
    + destruct Hok as (_ & _ & Hnf). congruence.
    + destruct Hok as (c & Hk & _). rewrite Hk in Hf. discriminate.
    + destruct (Hok eq_refl) as [Hk _]. exact Hk.
  - destruct (F3 eq_refl) as [_ Hop]. congruence.
Qed.

(* the flag f.filled is set exactly when some Fill has won; a closed channel implies it *)
Lemma filled_iff_winner s : FInv s -> (ffilled s = true <-> fwinner s <> None).
Proof.
  intros [F1 F2 F3]. split.
  - intros Hfi E. destruct (F3 E) as [Hn _]. congruence.
  - intros Hne. destruct (fwinner s) as [tw|] eqn:Hw; [|congruence]. destruct (F2 tw eq_refl) as [Hfi _]. exact Hfi.
Qed.

Lemma closed_filled s : FInv s -> fclosed s = true -> ffilled s = true.
Proof.
  intros HI Hcl. destruct (closed_value s HI Hcl) as (tw & xw & Hw & _).
  apply (filled_iff_winner s HI). congruence.
Qed.

(* after the close, no step changes f.x, reopens the channel or changes the winner *)
Lemma filled_stable s l s' :
  FInv s -> fclosed s = true -> qstep s l = Some s' ->
  fx s' = fx s /\ fclosed s' = true /\ fwinner s' = fwinner s.
Proof.
  intros HI Hcl H. pose proof (closed_filled s HI Hcl) as Hfl. apply fqstep_cases in H.
  destruct H as [(Ht & (Hf & Hc & Hfi & Hw) & Hd)|(t & x & p' & Hx & Hths & Hcx & Heff)].
  - repeat split; congruence.
  - pose proof (f_ths s HI t x Hx) as Hok. unfold th_ok in Hok.
    destruct Heff as [l p' (Hf & Hc & Hfi & Hw) Hp | Hpx Hfi Hfi' Hw' Hf Hc | v Hpx Hk Hf Hc Hfi Hw | Hpx Hop Hf Hc Hfi Hw | Hpx Hcl' (Hf & Hc & Hfi & Hw)].
    + repeat split; congruence.
    + congruence.
    + rewrite Hpx in Hok. destruct Hok as (_ & _ & Hop). congruence.
    + congruence.
    + repeat split; congruence.
Qed.

Lemma filled_stable_run s ls s' :
  FInv s -> fclosed s = true -> run qstep s ls = Some s' ->
  fx s' = fx s /\ fclosed s' = true /\ fwinner s' = fwinner s.
Proof.
  revert s. induction ls as [|l ls IH]; intros s HI Hcl Hr; simpl in Hr.
  - inversion Hr; subst s'. auto.
  - destruct (qstep s l) as [s1|] eqn:E; [|discriminate].
    destruct (filled_stable s l s1 HI Hcl E) as (Hf & Hc & Hw).
    destruct (IH s1 (FInv_step s l s1 HI E) Hc Hr) as (Hf' & Hc' & Hw'). repeat split; congruence.
Qed.

(* f.x is written only by the winner, and only while the channel is still open *)
Lemma only_winner_writes s l s' :
  FInv s -> qstep s l = Some s' -> fx s' <> fx s ->
  exists tw xw, l = TWrite tw /\ fwinner s = Some tw /\ nth_error (ths s) tw = Some xw /\
                t_kind xw = KFill (fx s') /\ fclosed s = false.
Proof.
  intros HI H Hne. apply fqstep_cases in H.
  destruct H as [(Ht & (Hf & _) & Hd)|(t & x & p' & Hx & Hths & Hcx & Heff)]; [congruence|].
  pose proof (f_ths s HI t x Hx) as Hok. unfold th_ok in Hok.
  destruct Heff as [l p' (Hf & _) Hp | Hpx Hfi Hfi' Hw' Hf Hc | v Hpx Hk Hf Hc Hfi Hw | Hpx Hop Hf Hc Hfi Hw | Hpx Hcl' (Hf & _)];
    try congruence.
  rewrite Hpx in Hok. destruct Hok as (_ & Hwt & Hop).
  exists t, x. rewrite Hf. auto.
Qed.

(* the CompareAndSwap: the first one wins, every later one panics at once and changes nothing *)
Lemma cas_step s t s' :
  FInv s -> qstep s (TCas t) = Some s' ->
  exists x, nth_error (ths s) t = Some x /\ t_pc x = PFillCalled /\
  ((ffilled s = false /\ fwinner s = None /\ ffilled s' = true /\ fwinner s' = Some t /\
    nth_error (ths s') t = Some (set_pc x PFillWon)) \/
   (ffilled s = true /\ (exists tw, fwinner s = Some tw /\ tw <> t) /\ ffilled s' = true /\
    fwinner s' = fwinner s /\ nth_error (ths s') t = Some (set_pc x PFillPanic))) /\
  fx s' = fx s /\ fclosed s' = fclosed s.
Proof.
  intros HI H. simpl in H. unfold getth in H. destruct (nth_error (ths s) t) as [x|] eqn:Hx; [|discriminate].
  destruct (t_pc x) eqn:Hp; try discriminate. exists x. split; [reflexivity|]. split; [exact Hp|].
  pose proof (f_ths s HI t x Hx) as Hok. unfold th_ok in Hok. rewrite Hp in Hok. destruct Hok as [_ Hnw].
  destruct (ffilled s) eqn:Hfi; inversion H; subst s'; simpl.
  - split; [|auto]. right. split; [reflexivity|]. split.
    + destruct (fwinner s) as [tw|] eqn:Hw.
      * exists tw. split; [reflexivity|]. intros ->. apply Hnw. reflexivity.
      * destruct (f_win_none s HI Hw) as [E _]. congruence.
    + split; [exact Hfi|]. split; [reflexivity|]. eapply nth_upd_same; eauto.
  - split; [|auto]. left. split; [reflexivity|]. split.
    + destruct (fwinner s) as [tw|] eqn:Hw; [|reflexivity]. destruct (f_win_some s HI tw Hw) as [E _]. congruence.
    + split; [reflexivity|]. split; [reflexivity|]. eapply nth_upd_same; eauto.
Qed.

(* only the winner is ever past the CompareAndSwap; a goroutine that panics is not the winner *)
Lemma winner_pcs s t x :
  FInv s -> nth_error (ths s) t = Some x ->
  (t_pc x = PFillWon \/ t_pc x = PFillWritten \/ t_pc x = PFillClosed -> fwinner s = Some t) /\
  (t_pc x = PFillPanic -> exists tw, fwinner s = Some tw /\ tw <> t).
Proof.
  intros HI Hx. pose proof (f_ths s HI t x Hx) as Hok. unfold th_ok in Hok. split.
  - intros [E|[E|E]]; rewrite E in Hok; tauto.
  - intros E. rewrite E in Hok. destruct Hok as (_ & Hnw & Hfi).
    destruct (fwinner s) as [tw|] eqn:Hw.
    + exists tw. split; [reflexivity|]. intros ->. apply Hnw. reflexivity.
    + destruct (f_win_none s HI Hw) as [E' _]. congruence.
Qed.

(* what Fill's two outcomes mean *)
Lemma ret_fill s t s' :
  FInv s -> qstep s (LRetFill t) = Some s' ->
  fwinner s = Some t /\ fclosed s = true /\ exists x, nth_error (ths s) t = Some x /\ t_kind x = KFill (fx s).
Proof.
  intros HI H. simpl in H. unfold getth in H. destruct (nth_error (ths s) t) as [x|] eqn:Hx; [|discriminate].
  destruct (t_pc x) eqn:Hp; try discriminate.
  pose proof (f_ths s HI t x Hx) as Hok. unfold th_ok in Hok. rewrite Hp in Hok. destruct Hok as (Hk & Hw & Hcl).
  split; [exact Hw|]. split; [exact Hcl|]. exists x. auto.
Qed.

Lemma panic_fill s t s' :
  FInv s -> qstep s (LPanicFill t) = Some s' -> exists tw, fwinner s = Some tw /\ tw <> t.
Proof.
  intros HI H. simpl in H. unfold getth in H. destruct (nth_error (ths s) t) as [x|] eqn:Hx; [|discriminate].
  destruct (t_pc x) eqn:Hp; try discriminate.
  apply (proj2 (winner_pcs s t x HI Hx)). exact Hp.
Qed.

(* what Wait / WaitContext return *)
Lemma ret_wait s t v s' :
  FInv s -> step s (LRetWait t v) = Some s' ->
  fclosed s = true /\ fx s = v /\
  exists tw xw, fwinner s = Some tw /\ nth_error (ths s) tw = Some xw /\ t_kind xw = KFill v.
Proof.
  intros HI H. simpl in H. unfold getth in H. destruct (nth_error (ths s) t) as [x|] eqn:Hx; [|discriminate].
  destruct (t_pc x) as [| | | | | | | | | | | |w| |] eqn:Hp; try discriminate. destruct (t_kind x); try discriminate.
  destruct (Z.eqb v w) eqn:E; [|discriminate]. apply Z.eqb_eq in E. subst w.
  pose proof (f_ths s HI t x Hx) as Hok. unfold th_ok in Hok. rewrite Hp in Hok. destruct Hok as (Hcl & Hv & _).
  split; [exact Hcl|]. split; [congruence|]. rewrite Hv. apply closed_value; auto.
Qed.

Lemma ret_waitctx s t v e s' :
  FInv s -> step s (LRetWaitCtx t v e) = Some s' ->
  (e = false /\ fclosed s = true /\ fx s = v /\
   exists tw xw, fwinner s = Some tw /\ nth_error (ths s) tw = Some xw /\ t_kind xw = KFill v) \/
  (e = true /\ v = 0%Z /\ exists x c, nth_error (ths s) t = Some x /\ t_kind x = KWaitCtx c /\ ctx_done s c = true).
Proof.
  intros HI H. simpl in H. unfold getth in H. destruct (nth_error (ths s) t) as [x|] eqn:Hx; [|discriminate].
  pose proof (f_ths s HI t x Hx) as Hok. unfold th_ok in Hok.
  destruct (t_pc x) as [| | | | | | | | | | | |w| |] eqn:Hp; try discriminate; destruct (t_kind x) eqn:Hk; try discriminate.
  - destruct (Z.eqb v w && negb e) eqn:E; [|discriminate]. apply andb_true_iff in E. destruct E as [Ev Ee].
    apply Z.eqb_eq in Ev. subst w. apply negb_true_iff in Ee. destruct Hok as (Hcl & Hv & _).
    left. split; [exact Ee|]. split; [exact Hcl|]. split; [congruence|]. rewrite Hv. apply closed_value; auto.
  - destruct (Z.eqb v 0%Z && e) eqn:E; [|discriminate]. apply andb_true_iff in E. destruct E as [Ev Ee].
    apply Z.eqb_eq in Ev. destruct Hok as (c' & Hk' & Hd). right. split; [exact Ee|]. split; [exact Ev|].
    exists x, c'. repeat split; [congruence | exact Hd].
Qed.

(* progress: the enabling conditions of the blocking points; every other point is always enabled *)
Lemma fill_progress s t x :
  nth_error (ths s) t = Some x ->
  (t_pc x = PFillCalled -> exists s', step s (TCas t) = Some s') /\
  (t_pc x = PFillWon -> is_fill (t_kind x) = true -> exists s', step s (TWrite t) = Some s') /\
  (t_pc x = PFillWritten -> exists s', step s (TCloseF t) = Some s') /\
  (t_pc x = PFillClosed -> exists s', step s (LRetFill t) = Some s') /\
  (t_pc x = PFillPanic -> exists s', step s (LPanicFill t) = Some s').
Proof.
  intros Hx. repeat split.
  - intros Hp. simpl. unfold getth. rewrite Hx, Hp. destruct (ffilled s); eauto.
  - intros Hp Hf. simpl. unfold getth. rewrite Hx, Hp. destruct (t_kind x); try discriminate. eauto.
  - intros Hp. simpl. unfold getth. rewrite Hx, Hp. destruct (fclosed s); eauto.
  - intros Hp. simpl. unfold getth. rewrite Hx, Hp. eauto.
  - intros Hp. simpl. unfold getth. rewrite Hx, Hp. eauto.
Qed.

Lemma wait_progress s t x :
  nth_error (ths s) t = Some x -> t_pc x = PWaitCalled -> fclosed s = true -> exists s', step s (TRecv t) = Some s'.
Proof. intros Hx Hp Hcl. simpl. unfold getth. rewrite Hx, Hp, Hcl. eauto. Qed.

(* the first select of WaitContext never blocks: exactly one of its arms is enabled *)
Lemma waitctx_progress_poll s t x :
  nth_error (ths s) t = Some x -> t_pc x = PCtxCalled ->
  (fclosed s = true -> (exists s', step s (TPollF t) = Some s') /\ step s (TPollD t) = None) /\
  (fclosed s = false -> (exists s', step s (TPollD t) = Some s') /\ step s (TPollF t) = None).
Proof.
  intros Hx Hp. split; intros Hcl; simpl; unfold getth; rewrite Hx, Hp, Hcl; eauto.
Qed.

Lemma waitctx_progress_fill s t x :
  nth_error (ths s) t = Some x -> t_pc x = PCtxSel -> fclosed s = true -> exists s', step s (TSelF t) = Some s'.
Proof. intros Hx Hp Hcl. simpl. unfold getth. rewrite Hx, Hp, Hcl. eauto. Qed.

Lemma waitctx_progress_ctx s t x c :
  nth_error (ths s) t = Some x -> t_pc x = PCtxSel -> t_kind x = KWaitCtx c -> ctx_done s c = true ->
  exists s', step s (TSelCtx t) = Some s'.
Proof. intros Hx Hp Hk Hd. simpl. unfold getth. rewrite Hx, Hp, Hk, Hd. eauto. Qed.

Lemma after_select_progress s t x :
  nth_error (ths s) t = Some x ->
  (t_pc x = PRecvd -> exists s', step s (TRead t) = Some s') /\
  (forall v, t_pc x = PRead v -> t_kind x = KWait -> exists s', step s (LRetWait t v) = Some s') /\
  (forall v c, t_pc x = PRead v -> t_kind x = KWaitCtx c -> exists s', step s (LRetWaitCtx t v false) = Some s') /\
  (forall c, t_pc x = PCtxErr -> t_kind x = KWaitCtx c -> exists s', step s (LRetWaitCtx t 0%Z true) = Some s').
Proof.
  intros Hx. repeat split.
  - intros Hp. simpl. unfold getth. rewrite Hx, Hp. eauto.
  - intros v Hp Hk. simpl. unfold getth. rewrite Hx, Hp, Hk, Z.eqb_refl. eauto.
  - intros v c Hp Hk. simpl. unfold getth. rewrite Hx, Hp, Hk, Z.eqb_refl. simpl. eauto.
  - intros c Hp Hk. simpl. unfold getth. rewrite Hx, Hp, Hk. simpl. eauto.
Qed.

(* with a single Fill nothing panics *)
Lemma no_panic cfg s t x :
  at_most_one_fill cfg -> FInv s -> KInv cfg s -> nth_error (ths s) t = Some x -> t_pc x <> PFillPanic.
Proof.
  intros H1 HI HK Hx E.
  destruct (proj2 (winner_pcs s t x HI Hx) E) as (tw & Hw & Hne).
  destruct (f_win_some s HI tw Hw) as (_ & xw & Hxw & Hfw).
  pose proof (f_ths s HI t x Hx) as Hok. unfold th_ok in Hok. rewrite E in Hok. destruct Hok as (Hfx & _).
  pose proof (HK t) as Kt. pose proof (HK tw) as Kw. rewrite Hx in Kt. rewrite Hxw in Kw. simpl in Kt, Kw.
  destruct (nth_error cfg t) as [p|] eqn:Ep; [|discriminate]. destruct (nth_error cfg tw) as [q|] eqn:Eq; [|discriminate].
  simpl in Kt, Kw. inversion Kt as [Kt']. inversion Kw as [Kw'].
  apply Hne. symmetry. eapply H1; eauto; congruence.
Qed.

(* a Fill of an already filled future panics at its CompareAndSwap, before it writes anything *)
Lemma second_fill_panics s t s' :
  ffilled s = true -> step s (TCas t) = Some s' ->
  (exists x', nth_error (ths s') t = Some x' /\ t_pc x' = PFillPanic) /\
  fx s' = fx s /\ fclosed s' = fclosed s /\ ffilled s' = true /\ fwinner s' = fwinner s.
Proof.
  intros Hfi H. simpl in H. unfold getth in H. destruct (nth_error (ths s) t) as [x|] eqn:Hx; [|discriminate].
  destruct (t_pc x) eqn:Hp; try discriminate. rewrite Hfi in H. inversion H; subst s'. simpl.
  split; [|auto]. exists (set_pc x PFillPanic). split; [eapply nth_upd_same; eauto | reflexivity].
Qed.

(* ---- a WaitContext that is called after the future was filled ---- *)

(* the call of goroutine t was made with the channel already closed and the value fv in f.x *)
Definition late_ok (fv : Z) (t : nat) (s : st) : Prop :=
  fclosed s = true /\ fx s = fv /\
  exists x, nth_error (ths s) t = Some x /\
            (t_pc x = PCtxCalled \/ t_pc x = PRecvd \/ t_pc x = PRead fv \/ t_pc x = PDone).

Lemma late_ok_step fv t s l s' :
  FInv s -> late_ok fv t s -> qstep s l = Some s' -> late_ok fv t s'.
Proof.
  intros HI (Hcl & Hfv & x & Hx & Hpc) H.
  destruct (filled_stable s l s' HI Hcl H) as (Hf' & Hcl' & _).
  unfold late_ok. split; [exact Hcl'|]. split; [congruence|].
  apply fqstep_cases in H. destruct H as [(Ht & _ & _)|(u & y & p' & Hy & Hths & Hcx & Heff)].
  - exists x. rewrite Ht. auto.
  - destruct (Nat.eq_dec u t) as [->|Hne].
    + rewrite Hx in Hy. inversion Hy; subst y. exists (set_pc x p'). split; [rewrite Hths; eapply nth_upd_same; eauto|].
      simpl.
      destruct Heff as [l p' _ Hp | Hpx _ _ _ _ _ | v Hpx _ _ _ _ _ | Hpx _ _ _ _ _ | Hpx _ _];
        try (exfalso; destruct Hpc as [E|[E|[E|E]]]; congruence).
      destruct Hp as [Hp|v Hr Hk|Hp Hfi|Hp|Hp|Hr Hk|c Hr Hk|Hp Hc|Hp Hc|Hp Hc|Hp Hc|c Hp Hk Hd|Hp|v Hp Hk|v c Hp Hk|c Hp Hk];
        try (destruct (ready_pc s x Hr) as [Hp|Hp]);
        try (exfalso; destruct Hpc as [E|[E|[E|E]]]; congruence); auto.
      right; right; left. congruence.
    + exists x. split; [|exact Hpc]. rewrite Hths. rewrite nth_error_upd_other by exact Hne. exact Hx.
Qed.

Lemma late_ok_run fv t s ls s' :
  FInv s -> late_ok fv t s -> run qstep s ls = Some s' -> late_ok fv t s'.
Proof.
  revert s. induction ls as [|l ls IH]; intros s HI HL Hr; simpl in Hr.
  - inversion Hr; subst s'. exact HL.
  - destruct (qstep s l) as [s1|] eqn:E; [|discriminate].
    apply (IH s1); [eapply FInv_step; eauto | eapply late_ok_step; eauto | exact Hr].
Qed.

Lemma late_ok_call s t c s' :
  fclosed s = true -> qstep s (LCallWaitCtx t c) = Some s' -> late_ok (fx s) t s'.
Proof.
  intros Hcl H. simpl in H. unfold getth in H. destruct (nth_error (ths s) t) as [x|] eqn:Hx; [|discriminate].
  destruct (t_kind x) as [v'| |c']; try discriminate. destruct (ready s x && Nat.eqb c c'); [|discriminate].
  inversion H; subst s'. unfold late_ok. simpl. split; [exact Hcl|]. split; [reflexivity|].
  exists (set_pc x PCtxCalled). split; [eapply nth_upd_same; eauto | auto].
Qed.

Lemma late_ok_ret fv t s v e s' :
  late_ok fv t s -> qstep s (LRetWaitCtx t v e) = Some s' -> e = false /\ v = fv.
Proof.
  intros (Hcl & Hfv & x & Hx & Hpc) H. simpl in H. unfold getth in H. rewrite Hx in H.
  destruct (t_pc x) as [| | | | | | | | | | | |w| |] eqn:Hp;
    try discriminate H; try (exfalso; destruct Hpc as [E|[E|[E|E]]]; discriminate E).
  destruct (t_kind x); try discriminate H.
  destruct (Z.eqb v w && negb e) eqn:E; [|discriminate]. apply andb_true_iff in E. destruct E as [Ev Ee].
  apply Z.eqb_eq in Ev. apply negb_true_iff in Ee. split; [exact Ee|].
  destruct Hpc as [E|[E|[E|E]]]; try discriminate E. inversion E. congruence.
Qed.

(* "Returns immediately if f is already filled": a WaitContext whose call starts after the channel was
   closed returns the filled value and no error, whatever the state of its context, along every run *)
Theorem late_waitcontext cfg nctx ng s t c s1 ls s2 v e s3 :
  reachable qstep (init cfg nctx ng) s -> fclosed s = true ->
  qstep s (LCallWaitCtx t c) = Some s1 -> run qstep s1 ls = Some s2 ->
  qstep s2 (LRetWaitCtx t v e) = Some s3 ->
  e = false /\ v = fx s /\ fx s2 = fx s.
Proof.
  intros Hr Hcl Hcall Hrun Hret.
  pose proof (fut_inv cfg nctx ng s Hr) as HI.
  pose proof (FInv_step s _ s1 HI Hcall) as HI1.
  pose proof (late_ok_call s t c s1 Hcl Hcall) as HL1.
  pose proof (late_ok_run (fx s) t s1 ls s2 HI1 HL1 Hrun) as HL2.
  destruct (late_ok_ret (fx s) t s2 v e s3 HL2 Hret) as [He Hv].
  split; [exact He|]. split; [exact Hv|]. destruct HL2 as (_ & Hf & _). exact Hf.
Qed.

(* a decidable sufficient condition (used for the examples): count the Fill goroutines *)
Definition count_fill (cfg : list (option nat * kind)) : nat :=
  length (filter (fun p => is_fill (snd p)) cfg).

Lemma filter_nil_none {A} (f : A -> bool) l i x : filter f l = [] -> nth_error l i = Some x -> f x = false.
Proof.
  revert i. induction l as [|a l IH]; intros [|i] Hf Hx; simpl in *; try discriminate.
  - inversion Hx; subst a. destruct (f x); [discriminate | reflexivity].
  - destruct (f a); [discriminate|]. eapply IH; eauto.
Qed.

Lemma count_fill_one cfg : count_fill cfg <= 1 -> at_most_one_fill cfg.
Proof.
  unfold count_fill, at_most_one_fill. induction cfg as [|a cfg IH]; intros Hc i j p q Hi Hj Hp Hq.
  - destruct i; discriminate.
  - simpl in Hc. destruct (is_fill (snd a)) eqn:Ea.
    + simpl in Hc. assert (Hnil : filter (fun p => is_fill (snd p)) cfg = []).
      { destruct (filter (fun p => is_fill (snd p)) cfg); [reflexivity | simpl in Hc; lia]. }
      destruct i as [|i], j as [|j]; auto; simpl in Hi, Hj.
      * pose proof (filter_nil_none _ _ _ _ Hnil Hj) as E. simpl in E. congruence.
      * pose proof (filter_nil_none _ _ _ _ Hnil Hi) as E. simpl in E. congruence.
      * pose proof (filter_nil_none _ _ _ _ Hnil Hi) as E. simpl in E. congruence.
    + destruct i as [|i], j as [|j]; simpl in Hi, Hj.
      * reflexivity.
      * inversion Hi; subst a. congruence.
      * inversion Hj; subst a. congruence.
      * f_equal. eapply IH; eauto.
Qed.

(* ---- the statement of C18 (Future) ---- *)
Definition future_stmt (cfg : list (option nat * kind)) (s : st) : Prop :=
  (* (a) a Wait that returns, returns the value of the Fill call that won, after the channel was closed *)
  (forall t v s', qstep s (LRetWait t v) = Some s' ->
                  fclosed s = true /\ fx s = v /\
                  exists tw xw, fwinner s = Some tw /\ nth_error (ths s) tw = Some xw /\ t_kind xw = KFill v) /\
  (* (b) a WaitContext that returns without error returns that value; with an error it returns the
     zero value and its context is done *)
  (forall t v e s', qstep s (LRetWaitCtx t v e) = Some s' ->
     (e = false /\ fclosed s = true /\ fx s = v /\
      exists tw xw, fwinner s = Some tw /\ nth_error (ths s) tw = Some xw /\ t_kind xw = KFill v) \/
     (e = true /\ v = 0%Z /\
      exists x c, nth_error (ths s) t = Some x /\ t_kind x = KWaitCtx c /\ ctx_done s c = true)) /\
  (* (c) once filled, the value never changes, the channel stays closed, the winner stays the winner *)
  (fclosed s = true ->
   (exists tw xw, fwinner s = Some tw /\ nth_error (ths s) tw = Some xw /\ t_kind xw = KFill (fx s)) /\
   (forall l s', qstep s l = Some s' -> fx s' = fx s /\ fclosed s' = true /\ fwinner s' = fwinner s) /\
   (forall ls s', run qstep s ls = Some s' -> fx s' = fx s /\ fclosed s' = true /\ fwinner s' = fwinner s)) /\
  (* (d) progress *)
  (forall t x, nth_error (ths s) t = Some x ->
     (t_pc x = PFillCalled -> exists s', step s (TCas t) = Some s') /\
     (t_pc x = PFillWon -> exists s', step s (TWrite t) = Some s') /\
     (t_pc x = PFillWritten -> exists s', step s (TCloseF t) = Some s') /\
     (t_pc x = PFillClosed -> exists s', step s (LRetFill t) = Some s') /\
     (t_pc x = PFillPanic -> exists s', step s (LPanicFill t) = Some s') /\
     (t_pc x = PWaitCalled -> fclosed s = true -> exists s', step s (TRecv t) = Some s') /\
     (t_pc x = PCtxCalled ->
        (fclosed s = true -> (exists s', step s (TPollF t) = Some s') /\ step s (TPollD t) = None) /\
        (fclosed s = false -> (exists s', step s (TPollD t) = Some s') /\ step s (TPollF t) = None)) /\
     (t_pc x = PCtxSel -> fclosed s = true -> exists s', step s (TSelF t) = Some s') /\
     (forall c, t_pc x = PCtxSel -> t_kind x = KWaitCtx c -> ctx_done s c = true ->
                exists s', step s (TSelCtx t) = Some s') /\
     (t_pc x = PRecvd -> exists s', step s (TRead t) = Some s') /\
     (forall v, t_pc x = PRead v -> t_kind x = KWait -> exists s', step s (LRetWait t v) = Some s') /\
     (forall v c, t_pc x = PRead v -> t_kind x = KWaitCtx c -> exists s', step s (LRetWaitCtx t v false) = Some s') /\
     (forall c, t_pc x = PCtxErr -> t_kind x = KWaitCtx c -> exists s', step s (LRetWaitCtx t 0%Z true) = Some s')) /\
  (* (e) with a single Fill nothing panics *)
  (at_most_one_fill cfg -> forall t x, nth_error (ths s) t = Some x -> t_pc x <> PFillPanic) /\
  (* (f) exactly one Fill wins *)
  ((ffilled s = true <-> fwinner s <> None) /\ (fclosed s = true -> ffilled s = true) /\
   (forall tw, fwinner s = Some tw -> exists xw, nth_error (ths s) tw = Some xw /\ is_fill (t_kind xw) = true)) /\
  (forall t s', qstep s (TCas t) = Some s' ->
     exists x, nth_error (ths s) t = Some x /\ t_pc x = PFillCalled /\
     ((ffilled s = false /\ fwinner s = None /\ ffilled s' = true /\ fwinner s' = Some t /\
       nth_error (ths s') t = Some (set_pc x PFillWon)) \/
      (ffilled s = true /\ (exists tw, fwinner s = Some tw /\ tw <> t) /\ ffilled s' = true /\
       fwinner s' = fwinner s /\ nth_error (ths s') t = Some (set_pc x PFillPanic))) /\
     fx s' = fx s /\ fclosed s' = fclosed s) /\
  (forall t x, nth_error (ths s) t = Some x ->
     (t_pc x = PFillWon \/ t_pc x = PFillWritten \/ t_pc x = PFillClosed -> fwinner s = Some t) /\
     (t_pc x = PFillPanic -> exists tw, fwinner s = Some tw /\ tw <> t)) /\
  (forall l s', qstep s l = Some s' -> fx s' <> fx s ->
     exists tw xw, l = TWrite tw /\ fwinner s = Some tw /\ nth_error (ths s) tw = Some xw /\
                   t_kind xw = KFill (fx s') /\ fclosed s = false) /\
  (forall t s', qstep s (LRetFill t) = Some s' ->
     fwinner s = Some t /\ fclosed s = true /\ exists x, nth_error (ths s) t = Some x /\ t_kind x = KFill (fx s)) /\
  (forall t s', qstep s (LPanicFill t) = Some s' -> exists tw, fwinner s = Some tw /\ tw <> t).

Theorem future_correct cfg nctx ng s :
  reachable qstep (init cfg nctx ng) s -> future_stmt cfg s.
Proof.
  intros Hr. pose proof (fut_inv cfg nctx ng s Hr) as HI. pose proof (fut_kinds cfg nctx ng s Hr) as HK.
  unfold future_stmt.
  split; [intros t v s' H; eapply ret_wait; eauto|].
  split; [intros t v e s' H; eapply ret_waitctx; eauto|].
  split.
  { intros Hcl. split; [apply closed_value; auto|].
    split; [intros l s' H; eapply filled_stable; eauto | intros ls s' H; eapply filled_stable_run; eauto]. }
  split.
  { intros t x Hx. destruct (after_select_progress s t x Hx) as (P1 & P2 & P3 & P4).
    destruct (fill_progress s t x Hx) as (Q1 & Q2 & Q3 & Q4 & Q5).
    split; [exact Q1|]. split.
    { intros Hp. apply Q2; [exact Hp|]. pose proof (f_ths s HI t x Hx) as Hok. unfold th_ok in Hok.
      rewrite Hp in Hok. tauto. }
    split; [exact Q3|]. split; [exact Q4|]. split; [exact Q5|].
    split; [intros; eapply wait_progress; eauto|].
    split; [intros; eapply waitctx_progress_poll; eauto|].
    split; [intros; eapply waitctx_progress_fill; eauto|].
    split; [intros; eapply waitctx_progress_ctx; eauto|].
    auto. }
  split; [intros H1 t x Hx; eapply no_panic; eauto|].
  split.
  { split; [apply filled_iff_winner; exact HI|]. split; [apply closed_filled; exact HI|].
    intros tw Hw. destruct (f_win_some s HI tw Hw) as [_ H]. exact H. }
  split; [intros t s' H; eapply cas_step; eauto|].
  split; [intros t x Hx; eapply winner_pcs; eauto|].
  split; [intros l s' H Hne; eapply only_winner_writes; eauto|].
  split; [intros t s' H; eapply ret_fill; eauto | intros t s' H; eapply panic_fill; eauto].
Qed.

(* ---- the code before the repair ([Fut.step_orig]) violates the property ---- *)

(* (i) the original Fill (f.x = x; close(f.c)): with two Fills, a Wait has returned the first value,
   the second Fill then overwrites f.x (although the channel is closed) before it panics, and a later
   Wait returns the second value.  So for the original code clauses (a) and (c) of [future_stmt] are false. *)
Definition orig_fill_cfg : list (option nat * kind) :=
  [(None, KFill 1%Z); (None, KFill 2%Z); (None, KWait); (None, KWait)].
Definition orig_fill_run1 : list lab :=
  [LSpawn 0; LSpawn 1; LSpawn 2; LSpawn 3; LCallFill 0 1%Z; TWrite 0; TCloseF 0; LRetFill 0;
   LCallWait 2; TRecv 2; TRead 2; LRetWait 2 1%Z; LCallFill 1 2%Z].
Definition orig_fill_run2 : list lab :=
  [TCloseF 1; LPanicFill 1; LCallWait 3; TRecv 3; TRead 3; LRetWait 3 2%Z].

Theorem orig_fill_refuted :
  exists s s1 s2,
    run step_orig (init orig_fill_cfg 0 0) orig_fill_run1 = Some s /\
    fclosed s = true /\ fx s = 1%Z /\
    step_orig s (TWrite 1) = Some s1 /\ fx s1 = 2%Z /\          (* the value changes after the future was filled *)
    run step_orig s1 orig_fill_run2 = Some s2 /\                 (* ... and Wait 3 returns 2 after Wait 2 returned 1 *)
    GoLTSProofs.trace lab lab vis (orig_fill_run1 ++ TWrite 1 :: orig_fill_run2) =
      [LSpawn 0; LSpawn 1; LSpawn 2; LSpawn 3; LCallFill 0 1%Z; LRetFill 0; LCallWait 2; LRetWait 2 1%Z;
       LCallFill 1 2%Z; LPanicFill 1; LCallWait 3; LRetWait 3 2%Z] /\
    (* the repaired model has no such run *)
    accepts_history orig_fill_cfg 0 0
      [LSpawn 0; LSpawn 1; LSpawn 2; LSpawn 3; LCallFill 0 1%Z; LRetFill 0; LCallWait 2; LRetWait 2 1%Z;
       LCallFill 1 2%Z; LPanicFill 1; LCallWait 3; LRetWait 3 2%Z] = false.
Proof. eexists. eexists. eexists. vm_compute. repeat split; reflexivity. Qed.

(* (ii) the original WaitContext (only the two-arm select): called after Fill has returned, with a context
   that is done, it may take the ctx.Done() arm and return the context error. *)
Definition orig_wctx_cfg : list (option nat * kind) := [(None, KFill 7%Z); (None, KWaitCtx 0)].
Definition orig_wctx_run1 : list lab :=
  [LSpawn 0; LCallFill 0 7%Z; TWrite 0; TCloseF 0; LRetFill 0; LCancel 0; TCancelEff 0; LSpawn 1].
Definition orig_wctx_run2 : list lab := [TSelCtx 1].

Theorem orig_waitcontext_refuted :
  exists s s1 s2 s3,
    run step_orig (init orig_wctx_cfg 1 0) orig_wctx_run1 = Some s /\
    fclosed s = true /\ fx s = 7%Z /\
    step_orig s (LCallWaitCtx 1 0) = Some s1 /\                  (* the call starts after the future was filled *)
    run step_orig s1 orig_wctx_run2 = Some s2 /\
    step_orig s2 (LRetWaitCtx 1 0%Z true) = Some s3 /\           (* ... and returns the context error *)
    (* the repaired model has no such run *)
    accepts_history orig_wctx_cfg 1 0
      [LSpawn 0; LCallFill 0 7%Z; LRetFill 0; LCancel 0; LSpawn 1; LCallWaitCtx 1 0; LRetWaitCtx 1 0%Z true] = false.
Proof. eexists. eexists. eexists. eexists. vm_compute. repeat split; reflexivity. Qed.

End FutP.

(* ================================================================== *)
(*                      Lazy (= sync.OnceValue)                        *)
(* ================================================================== *)
Module LazyP.
Import Lazy.

Definition pcl_ok (o : once) (n : nat) (b : Z) (u : nat) (p : pc) : Prop :=
  match p with
  | PRunF => o = ORunning u /\ n = 0
  | PInF k => o = ORunning u /\ n = 1 /\ k = 1
  | PFRet v => o = ORunning u /\ n = 1 /\ v = (b + 1)%Z
  | PGot v => o = ODone v
  | _ => True
  end.

Definition gl_ok (o : once) (n : nat) (b : Z) : Prop :=
  match o with
  | ONew => n = 0
  | ORunning _ => n <= 1
  | ODone v => n = 1 /\ v = (b + 1)%Z
  end.

Record LInv (b : Z) (s : st) : Prop := mkLInv {
  l_base : fbase s = b;
  l_gl : gl_ok (onc s) (fcount s) b;
  l_ths : forall u y, nth_error (ths s) u = Some y -> pcl_ok (onc s) (fcount s) b u (t_pc y)
}.

Lemma LInv_upd b s s' t x x' :
  LInv b s -> nth_error (ths s) t = Some x -> ths s' = upd (ths s) t x' -> fbase s' = fbase s ->
  gl_ok (onc s') (fcount s') b ->
  pcl_ok (onc s') (fcount s') b t (t_pc x') ->
  (forall u y, u <> t -> pcl_ok (onc s) (fcount s) b u (t_pc y) -> pcl_ok (onc s') (fcount s') b u (t_pc y)) ->
  LInv b s'.
Proof.
  intros [L1 L2 L3] Hx Hths Hb Hg Hnew Hoth. constructor; [congruence | exact Hg |].
  intros u y Hu. rewrite Hths in Hu. apply nth_upd_Some in Hu. destruct Hu as [[<- ->]|[Hne Hu]]; [exact Hnew|].
  apply Hoth; [congruence | eauto].
Qed.

Lemma LInv_same b s s' :
  LInv b s -> ths s' = ths s -> onc s' = onc s -> fcount s' = fcount s -> fbase s' = fbase s -> LInv b s'.
Proof. intros [L1 L2 L3] Ht Ho Hn Hb. constructor; rewrite ?Ht, ?Ho, ?Hn; auto; congruence. Qed.

Lemma LInv_step b s l s' : LInv b s -> qstep s l = Some s' -> LInv b s'.
Proof.
  intros HI H. pose proof HI as [L1 L2 L3].
  destruct l as [t|g| | |t|t v|t n|t v|t|t]; simpl in H; try discriminate.
  - (* LSpawn *) unfold getth in H. destruct (nth_error (ths s) t) as [x|] eqn:Hx; [|discriminate].
    destruct (t_pc x) eqn:Hp; try discriminate. inversion H; subst s'.
    eapply (LInv_upd b s _ t x (set_pc x PGate)); [exact HI | exact Hx | reflexivity | reflexivity | | | ]; simpl; auto.
  - (* LRelease *) destruct (g <? length (gates s)); [|discriminate]. inversion H; subst s'.
    eapply LInv_same; eauto.
  - (* LReleaseF *) inversion H; subst s'. eapply LInv_same; eauto.
  - (* LQuiesce *) destruct (quiescent s); [|discriminate]. inversion H; subst s'. exact HI.
  - (* LCallLazy *) unfold getth in H. destruct (nth_error (ths s) t) as [x|] eqn:Hx; [|discriminate].
    destruct (t_calls x) as [|m]; [discriminate|]. destruct (ready s x); [|discriminate]. inversion H; subst s'.
    eapply (LInv_upd b s _ t x (mkT (t_gate x) m PCalled)); [exact HI | exact Hx | reflexivity | reflexivity | | | ]; simpl; auto.
  - (* LRetLazy *) unfold getth in H. destruct (nth_error (ths s) t) as [x|] eqn:Hx; [|discriminate].
    destruct (t_pc x) as [| | | | | | |w] eqn:Hp; try discriminate. destruct (Z.eqb v w); [|discriminate]. inversion H; subst s'.
    eapply (LInv_upd b s _ t x (set_pc x PReady)); [exact HI | exact Hx | reflexivity | reflexivity | | | ]; simpl; auto.
  - (* LFEnter *) unfold getth in H. destruct (nth_error (ths s) t) as [x|] eqn:Hx; [|discriminate].
    destruct (t_pc x) eqn:Hp; try discriminate. destruct (Nat.eqb n (S (fcount s))) eqn:En; [|discriminate].
    apply Nat.eqb_eq in En. inversion H; subst s'.
    pose proof (L3 t x Hx) as Hok. rewrite Hp in Hok. simpl in Hok. destruct Hok as [Ho Hn].
    eapply (LInv_upd b s _ t x (set_pc x (PInF n))); [exact HI | exact Hx | reflexivity | reflexivity | | | ]; simpl.
    + rewrite Ho. simpl. lia.
    + rewrite Hn in *. auto.
    + intros u y Hne. rewrite Ho. destruct (t_pc y); simpl; auto;
        try (intros [E _]; inversion E; congruence); try (intros E; discriminate).
  - (* LFExit *) unfold getth in H. destruct (nth_error (ths s) t) as [x|] eqn:Hx; [|discriminate].
    destruct (t_pc x) as [| | | | |k| |] eqn:Hp; try discriminate.
    destruct ((negb (fgated s) || fopen s) && Z.eqb v (fbase s + Z.of_nat k)) eqn:E; [|discriminate].
    apply andb_true_iff in E. destruct E as [_ Ev]. apply Z.eqb_eq in Ev. inversion H; subst s'.
    pose proof (L3 t x Hx) as Hok. rewrite Hp in Hok. simpl in Hok. destruct Hok as (Ho & Hn & Hk).
    eapply (LInv_upd b s _ t x (set_pc x (PFRet v))); [exact HI | exact Hx | reflexivity | reflexivity | | | ]; simpl; auto.
    split; [exact Ho|]. split; [exact Hn|]. subst k. rewrite L1 in Ev. exact Ev.
  - (* TOnce *) unfold getth in H. destruct (nth_error (ths s) t) as [x|] eqn:Hx; [|discriminate].
    destruct (t_pc x) eqn:Hp; try discriminate. destruct (onc s) as [|r|w] eqn:Ho; try discriminate; inversion H; subst s'.
    + simpl in L2.
      eapply (LInv_upd b s _ t x (set_pc x PRunF)); [exact HI | exact Hx | reflexivity | reflexivity | | | ]; simpl.
      * lia.
      * auto.
      * intros u y Hne. rewrite Ho. destruct (t_pc y); simpl; auto;
          try (intros [E _]; discriminate); try (intros E; discriminate).
    + eapply (LInv_upd b s _ t x (set_pc x (PGot w))); [exact HI | exact Hx | reflexivity | reflexivity | | | ]; simpl; rewrite ?Ho; auto.
  - (* TOnceDone *) unfold getth in H. destruct (nth_error (ths s) t) as [x|] eqn:Hx; [|discriminate].
    destruct (t_pc x) as [| | | | | |w|] eqn:Hp; try discriminate. inversion H; subst s'.
    pose proof (L3 t x Hx) as Hok. rewrite Hp in Hok. simpl in Hok. destruct Hok as (Ho & Hn & Hv).
    eapply (LInv_upd b s _ t x (set_pc x (PGot w))); [exact HI | exact Hx | reflexivity | reflexivity | | | ]; simpl; auto.
    intros u y Hne. rewrite Ho. destruct (t_pc y); simpl; auto;
      try (intros [E _]; inversion E; congruence); try (intros E; discriminate).
Qed.

Lemma LInv_init cfg gated base ng : LInv base (init cfg gated base ng).
Proof.
  constructor; simpl; auto.
  intros u y Hu. rewrite nth_error_map in Hu. destruct (nth_error cfg u); [|discriminate]. inversion Hu. simpl. exact Logic.I.
Qed.

Theorem lazy_inv cfg gated base ng s : reachable qstep (init cfg gated base ng) s -> LInv base s.
Proof.
  apply (invariant_rule qstep (LInv base)). - apply LInv_init. - intros; eapply LInv_step; eauto.
Qed.

Lemma f_at_most_once b s : LInv b s -> fcount s <= 1.
Proof. intros [_ L2 _]. unfold gl_ok in L2. destruct (onc s); lia. Qed.

Lemma f_enter_first b s t n s' :
  LInv b s -> step s (LFEnter t n) = Some s' -> n = 1 /\ fcount s = 0 /\ onc s = ORunning t.
Proof.
  intros [_ _ L3] H. simpl in H. unfold getth in H. destruct (nth_error (ths s) t) as [x|] eqn:Hx; [|discriminate].
  destruct (t_pc x) eqn:Hp; try discriminate. destruct (Nat.eqb n (S (fcount s))) eqn:En; [|discriminate].
  apply Nat.eqb_eq in En. pose proof (L3 t x Hx) as Hok. rewrite Hp in Hok. simpl in Hok. destruct Hok as [Ho Hn].
  rewrite Hn in En. auto.
Qed.

Lemma ret_lazy b s t v s' :
  LInv b s -> step s (LRetLazy t v) = Some s' -> onc s = ODone v /\ v = (b + 1)%Z /\ fcount s = 1.
Proof.
  intros [_ L2 L3] H. simpl in H. unfold getth in H. destruct (nth_error (ths s) t) as [x|] eqn:Hx; [|discriminate].
  destruct (t_pc x) eqn:Hp; try discriminate. destruct (Z.eqb v v0) eqn:E; [|discriminate]. apply Z.eqb_eq in E. subst v0.
  pose proof (L3 t x Hx) as Hok. rewrite Hp in Hok. simpl in Hok. rewrite Hok in L2. simpl in L2. tauto.
Qed.

(* callers block while the first call is in progress and proceed once it has completed *)
Lemma caller_blocked s t x u :
  nth_error (ths s) t = Some x -> t_pc x = PCalled -> onc s = ORunning u -> step s (TOnce t) = None.
Proof. intros Hx Hp Ho. simpl. unfold getth. rewrite Hx, Hp, Ho. reflexivity. Qed.

Lemma caller_progress s t x v :
  nth_error (ths s) t = Some x -> t_pc x = PCalled -> onc s = ODone v -> exists s', step s (TOnce t) = Some s'.
Proof. intros Hx Hp Ho. simpl. unfold getth. rewrite Hx, Hp, Ho. eauto. Qed.

Lemma first_caller_progress s t x :
  nth_error (ths s) t = Some x -> t_pc x = PCalled -> onc s = ONew -> exists s', step s (TOnce t) = Some s'.
Proof. intros Hx Hp Ho. simpl. unfold getth. rewrite Hx, Hp, Ho. eauto. Qed.

(* ---- the statement of C18 (Lazy) ---- *)
Definition lazy_stmt (base : Z) (s : st) : Prop :=
  (* f is entered at most once, even with concurrent first calls *)
  fcount s <= 1 /\
  (forall t n s', qstep s (LFEnter t n) = Some s' -> n = 1 /\ fcount s = 0 /\ onc s = ORunning t) /\
  (* every caller gets the result of that one invocation, and only after it has completed *)
  (forall t v s', qstep s (LRetLazy t v) = Some s' -> onc s = ODone v /\ v = (base + 1)%Z /\ fcount s = 1) /\
  (* callers block while the first call is in progress, and can proceed before it started / after it completed *)
  (forall t x, nth_error (ths s) t = Some x -> t_pc x = PCalled ->
     (forall u, onc s = ORunning u -> step s (TOnce t) = None) /\
     (forall v, onc s = ODone v -> exists s', step s (TOnce t) = Some s') /\
     (onc s = ONew -> exists s', step s (TOnce t) = Some s')).

Theorem lazy_correct cfg gated base ng s :
  reachable qstep (init cfg gated base ng) s -> lazy_stmt base s.
Proof.
  intros Hr. pose proof (lazy_inv cfg gated base ng s Hr) as HI. unfold lazy_stmt.
  split; [eapply f_at_most_once; eauto|].
  split; [intros t n s' H; eapply f_enter_first; eauto|].
  split; [intros t v s' H; eapply ret_lazy; eauto|].
  intros t x Hx Hp. split; [intros u Ho; eapply caller_blocked; eauto|].
  split; [intros v Ho; eapply caller_progress; eauto | intros Ho; eapply first_caller_progress; eauto].
Qed.

End LazyP.
