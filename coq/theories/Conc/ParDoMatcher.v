(* C13 — the history matchers of Conc/ParDo.v (parallel.Do / DoContext / Map / MapContext).

   1. The SHIPPED matcher [accepts_history c gated evs] runs the generic matcher of GoLTS.v on
      the reduced relation [mstep will] (a label of [qstep] followed by the eager, outcome-
      determined internal steps; [will] is a hint computed from the whole history) with the
      searched internal labels [m_labels].  It is SOUND, unconditionally
      ([pardo_accepts_sound]): every accepted history is the visible trace of a run of the
      unreduced model [qstep] from [init c gated].  The hint and the reduction can only prune.

   2. The UNREDUCED matcher [accepts_history_full] (generic matcher on [qstep], [tau_labels],
      [labels_ev]; exponential, used to cross-check the reduction on small cases) is certified
      in both directions: sound, and complete whenever the closures converged within the fuel
      ([pardo_full_converged], an executable test).  [st_eqb] does not compare the constant
      field [cfg]; this is handled as for Pipe.v by the extensionality theorems of
      CondMatcher.v (part 1) with the invariant "cfg s = c".
      Consequence ([pardo_reduced_le_full]): on a history for which the full matcher
      converged, whatever the shipped matcher accepts the full matcher accepts too.

   NOT proved: completeness of the reduced matcher (no false rejection by [accepts_history]).
   It does not follow from the generic theorem: [m_labels] deliberately omits enabled internal
   labels (TFetch / TWrite / TWait / most TCheck / non-first-error TFinish), so the hypothesis
   [labels_complete] is false for [mstep will].  What is missing is the partial-order-reduction
   argument: every run of [qstep] with trace evs can be permuted into one in which each eager
   step of [safe_tau] is taken as early as possible (commutation of TFetch of the lowest ready
   worker up to renaming of workers, of TWrite, of a TFinish that does not record the first
   error, of TWait, and of TCheck with the outcome fixed by [will_of]), plus the sufficiency
   of [settle_fuel].
   Stdlib only, no axioms. *)
From Juniper Require Import Common.Base Conc.GoLTS Conc.GoLTSProofs Conc.ParDo Conc.ParDoProofs.
From Juniper Require Conc.CondMatcher.
From Coq Require Import Arith PeanoNat.
Local Open Scope nat_scope.

Definition pardo_trace : list lab -> list ev := trace lab ev vis.

(* ---------------------------------------------------------------------- *)
(* the equality tests                                                      *)
(* ---------------------------------------------------------------------- *)

Lemma bool_eqb_spec a b : Bool.eqb a b = true <-> a = b.
Proof. split; [apply Bool.eqb_prop | intros ->; apply Bool.eqb_reflx]. Qed.

Lemma list_eqb_spec {A} (eqb : A -> A -> bool) :
  (forall x y, eqb x y = true <-> x = y) ->
  forall a b, list_eqb eqb a b = true <-> a = b.
Proof.
  intros Hspec a. induction a as [|x a IH]; intros [|y b]; simpl.
  - split; reflexivity.
  - split; discriminate.
  - split; discriminate.
  - rewrite andb_true_iff, Hspec, IH. split.
    + intros [Hx Ha]. subst. reflexivity.
    + intros H. inversion H. split; reflexivity.
Qed.

Lemma zlist_eqb_spec a : forall b, zlist_eqb a b = true <-> a = b.
Proof.
  induction a as [|x a IH]; intros [|y b]; simpl.
  - split; reflexivity.
  - split; discriminate.
  - split; discriminate.
  - rewrite andb_true_iff, Z.eqb_eq, IH. split.
    + intros [Hx Ha]. subst. reflexivity.
    + intros H. inversion H. split; reflexivity.
Qed.

Lemma ozlist_eqb_spec a b : ozlist_eqb a b = true <-> a = b.
Proof.
  destruct a as [x|], b as [y|]; simpl; try (split; intros H; try discriminate; reflexivity).
  rewrite zlist_eqb_spec. split; [intros ->; reflexivity | intros H; inversion H; reflexivity].
Qed.

Lemma rerr_eqb_spec a b : rerr_eqb a b = true <-> a = b.
Proof.
  destruct a as [|x], b as [|y]; simpl; try (split; intros H; try discriminate; reflexivity).
  rewrite Nat.eqb_eq. split; [intros ->; reflexivity | intros H; inversion H; reflexivity].
Qed.

Lemma orerr_eqb_spec a b : orerr_eqb a b = true <-> a = b.
Proof.
  destruct a as [x|], b as [y|]; simpl; try (split; intros H; try discriminate; reflexivity).
  rewrite rerr_eqb_spec. split; [intros ->; reflexivity | intros H; inversion H; reflexivity].
Qed.

Lemma onat_eqb_spec a b : onat_eqb a b = true <-> a = b.
Proof.
  destruct a as [x|], b as [y|]; simpl; try (split; intros H; try discriminate; reflexivity).
  rewrite Nat.eqb_eq. split; [intros ->; reflexivity | intros H; inversion H; reflexivity].
Qed.

Lemma onat_eqb_refl a : onat_eqb a a = true.
Proof. apply onat_eqb_spec. reflexivity. Qed.
Lemma orerr_eqb_refl a : orerr_eqb a a = true.
Proof. apply orerr_eqb_spec. reflexivity. Qed.
Lemma ozlist_eqb_refl a : ozlist_eqb a a = true.
Proof. apply ozlist_eqb_spec. reflexivity. Qed.

Ltac eqb_crush :=
  repeat match goal with
  | H : (_ && _) = true |- _ => apply andb_true_iff in H; destruct H
  | H : Nat.eqb _ _ = true |- _ => apply Nat.eqb_eq in H
  | H : Z.eqb _ _ = true |- _ => apply Z.eqb_eq in H
  | H : Bool.eqb _ _ = true |- _ => apply Bool.eqb_prop in H
  | H : onat_eqb _ _ = true |- _ => apply (proj1 (onat_eqb_spec _ _)) in H
  | H : orerr_eqb _ _ = true |- _ => apply (proj1 (orerr_eqb_spec _ _)) in H
  | H : ozlist_eqb _ _ = true |- _ => apply (proj1 (ozlist_eqb_spec _ _)) in H
  end; subst.

Ltac eqb_refl :=
  rewrite ?Nat.eqb_refl, ?Z.eqb_refl, ?Bool.eqb_reflx, ?onat_eqb_refl, ?orerr_eqb_refl,
    ?ozlist_eqb_refl; reflexivity.

(* the event test decides equality of events *)
Theorem pardo_ev_eqb_spec a b : ev_eqb a b = true <-> a = b.
Proof.
  split.
  - destruct a, b; simpl; intros H; try discriminate H; eqb_crush; reflexivity.
  - intros ->. destruct b; simpl; eqb_refl.
Qed.

Lemma pardo_ev_eqb_sound a b : ev_eqb a b = true -> a = b.
Proof. apply pardo_ev_eqb_spec. Qed.

Lemma pardo_ev_eqb_refl a : ev_eqb a a = true.
Proof. apply pardo_ev_eqb_spec. reflexivity. Qed.

(* ---------------------------------------------------------------------- *)
(* 1. soundness of the shipped (reduced, hinted) matcher                   *)
(* ---------------------------------------------------------------------- *)

(* a run of the reduced relation expands to a run of the model with the same visible trace *)
Lemma mstep_run_expand will : forall ls s s',
  run (mstep will) s ls = Some s' ->
  exists ls', run qstep s ls' = Some s' /\ pardo_trace ls' = pardo_trace ls.
Proof.
  unfold pardo_trace.
  induction ls as [|l ls IH]; intros s s' Hr.
  - simpl in Hr. inversion Hr; subst. exists []. split; reflexivity.
  - change (run (mstep will) s (l :: ls))
      with (match mstep will s l with Some s1 => run (mstep will) s1 ls | None => None end) in Hr.
    destruct (mstep will s l) as [s1|] eqn:Em; [|discriminate Hr].
    destruct (mstep_run will s l s1 Em) as [li [Hint Hrun]].
    destruct (IH s1 s' Hr) as [ls' [Hr' Ht']].
    exists ((l :: li) ++ ls'). split.
    + rewrite run_app, Hrun. exact Hr'.
    + rewrite trace_app, Ht'.
      change (trace lab ev vis (l :: li))
        with (match vis l with Some e => e :: trace lab ev vis li | None => trace lab ev vis li end).
      change (trace lab ev vis (l :: ls))
        with (match vis l with Some e => e :: trace lab ev vis ls | None => trace lab ev vis ls end).
      rewrite (proj2 (trace_nil_iff lab ev vis li) Hint).
      destruct (vis l); reflexivity.
Qed.

(* SOUNDNESS of the shipped matcher, for every hint (in particular the one it computes) *)
Theorem pardo_accepts_sound_hint will c gated evs :
  accepts (mstep will) vis ev_eqb st_eqb m_labels labels_ev 64 (init c gated) evs = true ->
  exists ls s, run qstep (init c gated) ls = Some s /\ pardo_trace ls = evs.
Proof.
  intros H.
  destruct (accepts_sound st lab ev (mstep will) vis ev_eqb st_eqb m_labels labels_ev
              pardo_ev_eqb_sound 64 (init c gated) evs H) as [ls [s [Hr Ht]]].
  destruct (mstep_run_expand will ls (init c gated) s Hr) as [ls' [Hr' Ht']].
  exists ls', s. split; [exact Hr'|]. rewrite Ht'. exact Ht.
Qed.

Theorem pardo_accepts_sound c gated evs :
  accepts_history c gated evs = true ->
  exists ls s, run qstep (init c gated) ls = Some s /\ pardo_trace ls = evs.
Proof. unfold accepts_history. apply pardo_accepts_sound_hint. Qed.

(* ---------------------------------------------------------------------- *)
(* 2. the unreduced matcher                                                *)
(* ---------------------------------------------------------------------- *)

Lemma wpc_eqb_spec a b : wpc_eqb a b = true <-> a = b.
Proof.
  split.
  - destruct a, b; simpl; intros H; try discriminate H; eqb_crush; reflexivity.
  - intros ->. destruct b; simpl; eqb_refl.
Qed.

Lemma mpc_eqb_spec a b : mpc_eqb a b = true <-> a = b.
Proof.
  split.
  - destruct a, b; simpl; intros H; try discriminate H; eqb_crush; reflexivity.
  - intros ->. destruct b; simpl; eqb_refl.
Qed.

Lemma cstate_eqb_spec a b : cstate_eqb a b = true <-> a = b.
Proof. destruct a, b; simpl; split; intros H; try discriminate; reflexivity. Qed.

Lemma fin_eqb_spec a b : fin_eqb a b = true <-> a = b.
Proof.
  destruct a as [[i r] v], b as [[j q] u]. simpl. split.
  - intros H. eqb_crush. reflexivity.
  - intros H. inversion H. subst. eqb_refl.
Qed.

(* the shipped state test decides equality of states of the same configuration *)
Theorem pardo_st_eqb_spec a b : cfg a = cfg b -> (st_eqb a b = true <-> a = b).
Proof.
  destruct a as [cf1 pc1 ws1 nx1 cc1 dc1 ec1 ou1 go1 ow1 sa1 fi1 cs1],
           b as [cf2 pc2 ws2 nx2 cc2 dc2 ec2 ou2 go2 ow2 sa2 fi2 cs2].
  cbn [cfg]. intros Hcfg. subst cf2. unfold st_eqb.
  cbn [pc ws next cctx dctx errc out gopen owner started finished cstarts].
  rewrite !andb_true_iff, mpc_eqb_spec, (list_eqb_spec _ wpc_eqb_spec), !Nat.eqb_eq,
    cstate_eqb_spec, bool_eqb_spec, orerr_eqb_spec, zlist_eqb_spec,
    (list_eqb_spec _ bool_eqb_spec), !(list_eqb_spec _ Nat.eqb_eq), (list_eqb_spec _ fin_eqb_spec).
  split.
  - intros H. decompose [and] H. subst. reflexivity.
  - intros H. inversion H. subst. repeat split; reflexivity.
Qed.

Definition config_eqb (a b : config) : bool :=
  Bool.eqb (c_ctx a) (c_ctx b) && Bool.eqb (c_map a) (c_map b) && Nat.eqb (c_n a) (c_n b)
  && Z.eqb (c_par a) (c_par b) && Nat.eqb (c_gmp a) (c_gmp b).

Lemma config_eqb_spec a b : config_eqb a b = true <-> a = b.
Proof.
  destruct a as [x1 m1 n1 p1 g1], b as [x2 m2 n2 p2 g2]. unfold config_eqb. simpl. split.
  - intros H. eqb_crush. reflexivity.
  - intros H. inversion H. subst. eqb_refl.
Qed.

(* the exact test: the shipped one plus the configuration *)
Definition st_eqb_cfg (a b : st) : bool := st_eqb a b && config_eqb (cfg a) (cfg b).

Theorem pardo_st_eqb_cfg_spec a b : st_eqb_cfg a b = true <-> a = b.
Proof.
  unfold st_eqb_cfg. rewrite andb_true_iff, config_eqb_spec. split.
  - intros [He Hc]. apply (pardo_st_eqb_spec a b Hc). exact He.
  - intros ->. split; [apply (pardo_st_eqb_spec b b eq_refl) |]; reflexivity.
Qed.

(* the configuration is constant along every run *)
Ltac step_crush H :=
  repeat match type of H with
  | context [match ?x with _ => _ end] => destruct x eqn:?
  end;
  try discriminate H; inversion H; subst; first [reflexivity | simpl; congruence].

Lemma pardo_step_cfg s l s' : step s l = Some s' -> cfg s' = cfg s.
Proof.
  intros H. destruct l; unfold step in H; cbv zeta in H; step_crush H.
Qed.

Theorem pardo_qstep_cfg s l s' : qstep s l = Some s' -> cfg s' = cfg s.
Proof.
  intros H.
  destruct l;
    try (match type of H with qstep _ ?L = _ => apply (pardo_step_cfg s L s'); exact H end).
  unfold qstep in H. destruct (quiescent s); [|discriminate H]. inversion H. reflexivity.
Qed.

(* the label enumerations contain every enabled label *)
Lemma worker_lt (s : st) w : nth_error (ws s) w <> None -> w < length (ws s).
Proof. apply nth_error_Some. Qed.

Ltac in_list := solve [simpl; repeat (first [left; reflexivity | right])].

Ltac worker_bound s w Hs Hw :=
  let E := fresh "E" in
  assert (Hw : w < length (ws s))
    by (apply worker_lt; intros E; apply Hs; simpl; rewrite E; reflexivity).

Ltac worker_label s w Hs :=
  let Hw := fresh "Hw" in
  worker_bound s w Hs Hw;
  apply in_or_app; left; apply in_flat_map; exists w;
  split; [apply in_seq; split; [apply Nat.le_0_l | exact Hw] | in_list].

Theorem pardo_tau_labels_complete s l :
  vis l = None -> qstep s l <> None -> In l (tau_labels s).
Proof.
  intros Hv Hs. unfold tau_labels.
  destruct l as [ |w i c|w i r v|r o| | |i| |w|w|w|w| | ]; simpl in Hv; try discriminate Hv; clear Hv.
  - worker_label s w Hs.
  - worker_label s w Hs.
  - worker_label s w Hs.
  - worker_label s w Hs.
  - apply in_or_app; right. in_list.
  - apply in_or_app; right. in_list.
Qed.

Theorem pardo_labels_ev_complete s l e :
  vis l = Some e -> qstep s l <> None -> In l (labels_ev s e).
Proof.
  intros Hv Hs.
  destruct l as [ |w i c|w i r v|r o| | |i| |w|w|w|w| | ]; simpl in Hv; try discriminate Hv;
    inversion Hv; subst e; clear Hv; cbn [labels_ev]; try (left; reflexivity).
  - assert (Hw : w < length (ws s))
      by (apply worker_lt; intros E; apply Hs; simpl; rewrite E; reflexivity).
    apply (in_map (fun w0 => LEnter w0 i c) (seq 0 (length (ws s))) w).
    apply in_seq. split; [apply Nat.le_0_l | exact Hw].
  - assert (Hw : w < length (ws s))
      by (apply worker_lt; intros E; apply Hs; simpl; rewrite E; reflexivity).
    apply (in_map (fun w0 => LExit w0 i r v) (seq 0 (length (ws s))) w).
    apply in_seq. split; [apply Nat.le_0_l | exact Hw].
Qed.

(* the executable convergence test of the unreduced matcher *)
Definition pardo_full_converged (c : config) (gated : list bool) (evs : list ev) : bool :=
  convergedb st lab ev qstep vis ev_eqb st_eqb tau_labels labels_ev 64 (init c gated) evs.

Theorem pardo_full_sound c gated evs :
  accepts_history_full c gated evs = true ->
  exists ls s, run qstep (init c gated) ls = Some s /\ pardo_trace ls = evs.
Proof.
  unfold accepts_history_full, pardo_trace.
  apply (accepts_sound st lab ev qstep vis ev_eqb st_eqb tau_labels labels_ev pardo_ev_eqb_sound).
Qed.

Lemma st_eqb_cfg_agree c (a b : st) : cfg a = c -> cfg b = c -> st_eqb a b = st_eqb_cfg a b.
Proof.
  intros Ha Hb. unfold st_eqb_cfg. rewrite Ha, Hb.
  rewrite (proj2 (config_eqb_spec c c) eq_refl), andb_true_r. reflexivity.
Qed.

Lemma cfg_inv_step c (s : st) (l : lab) (s' : st) : cfg s = c -> qstep s l = Some s' -> cfg s' = c.
Proof. intros Hc Hs. rewrite (pardo_qstep_cfg s l s' Hs). exact Hc. Qed.

Lemma pardo_full_exact c gated evs :
  accepts_history_full c gated evs =
  accepts qstep vis ev_eqb st_eqb_cfg tau_labels labels_ev 64 (init c gated) evs.
Proof.
  unfold accepts_history_full.
  apply (CondMatcher.accepts_ext st lab ev qstep vis ev_eqb ev_eqb st_eqb st_eqb_cfg
           tau_labels labels_ev (fun s => cfg s = c)
           (cfg_inv_step c) (st_eqb_cfg_agree c) (fun _ _ _ _ => eq_refl)).
  reflexivity.
Qed.

Lemma pardo_full_converged_exact c gated evs :
  pardo_full_converged c gated evs =
  convergedb st lab ev qstep vis ev_eqb st_eqb_cfg tau_labels labels_ev 64 (init c gated) evs.
Proof.
  unfold pardo_full_converged.
  apply (CondMatcher.convergedb_ext st lab ev qstep vis ev_eqb ev_eqb st_eqb st_eqb_cfg
           tau_labels labels_ev (fun s => cfg s = c)
           (cfg_inv_step c) (st_eqb_cfg_agree c) (fun _ _ _ _ => eq_refl)).
  reflexivity.
Qed.

(* COMPLETENESS of the unreduced matcher when its closures converged *)
Theorem pardo_full_complete c gated evs ls s :
  pardo_full_converged c gated evs = true ->
  run qstep (init c gated) ls = Some s -> pardo_trace ls = evs ->
  accepts_history_full c gated evs = true.
Proof.
  rewrite pardo_full_converged_exact, pardo_full_exact. unfold pardo_trace.
  apply (accepts_complete_b st lab ev qstep vis ev_eqb st_eqb_cfg tau_labels labels_ev
           pardo_st_eqb_cfg_spec pardo_ev_eqb_refl pardo_tau_labels_complete
           pardo_labels_ev_complete).
Qed.

Theorem pardo_full_reject_genuine c gated evs :
  pardo_full_converged c gated evs = true -> accepts_history_full c gated evs = false ->
  forall ls s, run qstep (init c gated) ls = Some s -> pardo_trace ls <> evs.
Proof.
  intros Hc Hacc ls s Hr Ht.
  rewrite (pardo_full_complete c gated evs ls s Hc Hr Ht) in Hacc. discriminate.
Qed.

Theorem pardo_full_iff c gated evs :
  pardo_full_converged c gated evs = true ->
  (accepts_history_full c gated evs = true <->
   exists ls s, run qstep (init c gated) ls = Some s /\ pardo_trace ls = evs).
Proof.
  intros Hc. split.
  - apply pardo_full_sound.
  - intros [ls [s [Hr Ht]]]. eapply pardo_full_complete; eassumption.
Qed.

(* the reduction only prunes: what the shipped matcher accepts, the unreduced one accepts *)
Theorem pardo_reduced_le_full c gated evs :
  pardo_full_converged c gated evs = true ->
  accepts_history c gated evs = true -> accepts_history_full c gated evs = true.
Proof.
  intros Hc Hacc. destruct (pardo_accepts_sound c gated evs Hacc) as [ls [s [Hr Ht]]].
  eapply pardo_full_complete; eassumption.
Qed.

(* ---- non-vacuity (configuration and history of ParDoProofs.ex_matcher_accepts) ---- *)
Definition ex_hist : list ev :=
  [ECall; EEnter 0 false; EExit 0 (Some 7) 0%Z; EEnter 1 true; EExit 1 None 0%Z;
   ERet (Some (EF 7)) None; EQuiesce].

Example ex_is_trace :
  exists ls s, run qstep (init ex_cfg_err []) ls = Some s /\ pardo_trace ls = ex_hist.
Proof. apply pardo_accepts_sound. exact ex_matcher_accepts. Qed.

Example ex_full_accepts :
  accepts_history_full ex_cfg_err [] ex_hist = true /\ pardo_full_converged ex_cfg_err [] ex_hist = true.
Proof. vm_compute. split; reflexivity. Qed.

(* a second call that begins with a cancelled context (parallelism 2: at most one can): rejected
   by both matchers, and the rejection of the unreduced one is genuine *)
Definition ex_bad : list ev :=
  [ECall; EEnter 0 false; EExit 0 (Some 7) 0%Z; EEnter 1 true; EExit 1 None 0%Z; EEnter 2 true].

Example ex_full_rejects :
  accepts_history ex_cfg_err [] ex_bad = false /\
  accepts_history_full ex_cfg_err [] ex_bad = false /\ pardo_full_converged ex_cfg_err [] ex_bad = true.
Proof. vm_compute. repeat split; reflexivity. Qed.

Example ex_no_run :
  forall ls s, run qstep (init ex_cfg_err []) ls = Some s -> pardo_trace ls <> ex_bad.
Proof.
  apply pardo_full_reject_genuine;
    [exact (proj2 (proj2 ex_full_rejects)) | exact (proj1 (proj2 ex_full_rejects))].
Qed.

Print Assumptions pardo_ev_eqb_spec.
Print Assumptions pardo_accepts_sound_hint.
Print Assumptions pardo_accepts_sound.
Print Assumptions pardo_st_eqb_spec.
Print Assumptions pardo_qstep_cfg.
Print Assumptions pardo_tau_labels_complete.
Print Assumptions pardo_labels_ev_complete.
Print Assumptions pardo_full_sound.
Print Assumptions pardo_full_complete.
Print Assumptions pardo_full_reject_genuine.
Print Assumptions pardo_full_iff.
Print Assumptions pardo_reduced_le_full.
