(* C20 — models of xtime.SleepContext and xtime.JitterTicker (xtime/xtime.go).  Model only (no
   proofs here; proofs are in Conc/XTimeProofs.v, statements in Properties/C20.v).

   Time is a logical clock [now] (nanoseconds, Z) advanced only by the environment label [LTick];
   a timer armed for deadline dl may fire at ANY clock value >= dl (arbitrarily late), exactly the
   guarantee package time gives.  time.Duration is an int64: every arithmetic operation on durations in
   schedule() (negation, the saturation test, the additions) is modelled with [wrap64].

   Part 1  SleepContext: the decision function [sleep_decide] and an LTS for one call
           (decision, NewTimer, a two-arm select against ctx.Done()).
   Part 2  JitterTicker: an LTS with the mutex, gen, d, jitter, time.AfterFunc timers whose
           callbacks are threads, NewJitterTicker / Reset / Stop called by any number of threads,
           and receivers on C.
   Part 3  correspondence checkers used by props/xtime_common.py (history matchers).           *)
From Juniper Require Import Common.Base Conc.GoLTS.

(* ================================================================================ *)
(* Part 1 — SleepContext                                                            *)
(* ================================================================================ *)

Inductive cerr := ECanceled | EDeadline.                 (* context.Canceled / DeadlineExceeded *)
Inductive sres := SNil | STooSoon | SErr (e : cerr).     (* nil / DeadlineTooSoonError / ctx.Err() *)

Definition cerr_eqb (a b : cerr) : bool :=
  match a, b with ECanceled, ECanceled | EDeadline, EDeadline => true | _, _ => false end.
Definition sres_eqb (a b : sres) : bool :=
  match a, b with
  | SNil, SNil | STooSoon, STooSoon => true
  | SErr e, SErr f => cerr_eqb e f
  | _, _ => false
  end.

(* The straight-line prefix of SleepContext: Some r = returns r at once, None = goes on to wait.
   [inverted = false] is the code in /repo (remaining < d); [inverted = true] is the historical
   code (remaining > d). *)
Definition sleep_decide (inverted : bool) (d : Z) (deadline : option Z) (now : Z) : option sres :=
  if d <=? 0 then Some SNil
  else match deadline with
       | Some dl =>
           let remaining := dl - now in                      (* time.Until(deadline) *)
           if (if inverted then d <? remaining else remaining <? d) then Some STooSoon else None
       | None => None
       end.

Inductive cst := CLive | CReq | CDone (e : cerr).          (* context: live / cancel() called / Done *)
Inductive tst := TmNone | TmArmed (dl : Z) | TmFired.      (* time.Timer; Fired = value sits in t.C *)

Inductive spc :=
| SIdle                 (* SleepContext not called yet *)
| SCalled               (* called; about to run the checks (ctx.Deadline, time.Until) *)
| SArm                  (* checks passed; about to time.NewTimer(d) *)
| SSelect               (* about to execute the select *)
| SParked               (* parked in the select on ctx.Done() and t.C *)
| SReturning (r : sres) (* about to return r *)
| SDone (r : sres).     (* returned r *)

Record sst := mkSst {
  s_d : Z;                 (* the argument d *)
  s_dl : option Z;         (* ctx.Deadline() *)
  snow : Z;                (* the clock *)
  sctx : cst;
  stm : tst;
  spc_ : spc;
  sstart : Z;              (* ghost: clock value when SleepContext was called *)
  stdec : Z                (* ghost: clock value read by time.Until *)
}.

Inductive slab :=
(* visible *)
| SLTick (t : Z)          (* environment: the clock advances to t *)
| SLCancel                (* environment: cancel() is called *)
| SLCall
| SLRet (r : sres)
(* internal *)
| STDecide                (* d <= 0 ? ; ctx.Deadline ; time.Until ; compare *)
| STArm                   (* time.NewTimer(d) *)
| STFire                  (* runtime: the timer fires (clock >= its deadline) *)
| STSelTimer | STSelCtx | STPark   (* the select: poll either ready arm, or park *)
| STCancelEff             (* context package: cancel() closes Done, err = Canceled *)
| STExpire.               (* context package: the deadline timer closes Done, err = DeadlineExceeded *)

Definition with_pc (s : sst) (p : spc) : sst :=
  mkSst (s_d s) (s_dl s) (snow s) (sctx s) (stm s) p (sstart s) (stdec s).
Definition with_ctx (s : sst) (c : cst) : sst :=
  mkSst (s_d s) (s_dl s) (snow s) c (stm s) (spc_ s) (sstart s) (stdec s).
Definition with_tm (s : sst) (t : tst) : sst :=
  mkSst (s_d s) (s_dl s) (snow s) (sctx s) t (spc_ s) (sstart s) (stdec s).

(* the context becomes Done with error e; a goroutine parked in the select is woken on that arm
   (and stops its timer) *)
Definition ctx_done_eff (s : sst) (e : cerr) : sst :=
  match spc_ s with
  | SParked => with_tm (with_pc (with_ctx s (CDone e)) (SReturning (SErr e))) TmNone
  | _ => with_ctx s (CDone e)
  end.

Definition sstep_gen (inverted : bool) (s : sst) (l : slab) : option sst :=
  match l with
  | SLTick t =>
      if snow s <=? t
      then Some (mkSst (s_d s) (s_dl s) t (sctx s) (stm s) (spc_ s) (sstart s) (stdec s))
      else None
  | SLCancel =>
      match sctx s with
      | CLive => Some (with_ctx s CReq)
      | _ => Some s                                   (* cancelling twice / after expiry: no-op *)
      end
  | STCancelEff =>
      match sctx s with CReq => Some (ctx_done_eff s ECanceled) | _ => None end
  | STExpire =>
      match sctx s, s_dl s with
      | CDone _, _ => None
      | _, Some dl => if dl <=? snow s then Some (ctx_done_eff s EDeadline) else None
      | _, None => None
      end
  | SLCall =>
      match spc_ s with
      | SIdle => Some (mkSst (s_d s) (s_dl s) (snow s) (sctx s) (stm s) SCalled (snow s) (stdec s))
      | _ => None
      end
  | STDecide =>
      match spc_ s with
      | SCalled =>
          let p := match sleep_decide inverted (s_d s) (s_dl s) (snow s) with
                   | Some r => SReturning r
                   | None => SArm
                   end in
          Some (mkSst (s_d s) (s_dl s) (snow s) (sctx s) (stm s) p (sstart s) (snow s))
      | _ => None
      end
  | STArm =>
      match spc_ s with
      | SArm => Some (with_pc (with_tm s (TmArmed (snow s + s_d s))) SSelect)
      | _ => None
      end
  | STFire =>
      match stm s with
      | TmArmed dl =>
          if dl <=? snow s
          then match spc_ s with
               | SParked => Some (with_pc (with_tm s TmNone) (SReturning SNil))   (* direct hand-off *)
               | _ => Some (with_tm s TmFired)
               end
          else None
      | _ => None
      end
  | STSelTimer =>
      match spc_ s, stm s with
      | SSelect, TmFired => Some (with_pc (with_tm s TmNone) (SReturning SNil))
      | _, _ => None
      end
  | STSelCtx =>
      match spc_ s, sctx s with
      | SSelect, CDone e => Some (with_pc (with_tm s TmNone) (SReturning (SErr e)))   (* t.Stop() *)
      | _, _ => None
      end
  | STPark =>
      match spc_ s, stm s, sctx s with
      | SSelect, TmFired, _ => None
      | SSelect, _, CDone _ => None
      | SSelect, _, _ => Some (with_pc s SParked)
      | _, _, _ => None
      end
  | SLRet r =>
      match spc_ s with
      | SReturning r' =>
          if sres_eqb r r' then Some (with_pc s (SDone r)) else None
      | _ => None
      end
  end.

Definition sstep := sstep_gen false.       (* the code in /repo *)
Definition sstep_old := sstep_gen true.    (* the historical (inverted) test *)

Definition sinit (d : Z) (deadline : option Z) (now0 : Z) : sst :=
  mkSst d deadline now0 CLive TmNone SIdle now0 now0.

(* labels of the library / runtime (everything that is not an environment choice) *)
Definition s_tau_labels : list slab :=
  [STDecide; STArm; STFire; STSelTimer; STSelCtx; STPark; STCancelEff; STExpire].

(* the steps of the calling goroutine and of its timer (what "the call can proceed" means) *)
Definition s_call_labels : list slab := [STDecide; STArm; STFire; STSelTimer; STSelCtx; STPark;
                                         SLRet SNil; SLRet STooSoon; SLRet (SErr ECanceled); SLRet (SErr EDeadline)].

Definition senabled (s : sst) (l : slab) : bool :=
  match sstep s l with Some _ => true | None => false end.

(* ================================================================================ *)
(* Part 2 — JitterTicker                                                            *)
(* ================================================================================ *)

Definition max_i64 : Z := 9223372036854775807.
Definition wrap64 (z : Z) : Z := (z + 9223372036854775808) mod 18446744073709551616 - 9223372036854775808.

Inductive op := ONew (d j : Z) | OReset (d j : Z) | OStop.
Inductive res := RNormal | RPanic.

(* a goroutine of the program using the ticker *)
Inductive tpc :=
| PIdle
| PCalled (o : op)        (* call logged; about to validate the arguments *)
| PWantLock (o : op)      (* about to t.m.Lock() *)
| PLocked (o : op)        (* holds t.m; about to run the body *)
| PUnlock (o : op)        (* body done; about to t.m.Unlock() *)
| PReturning (o : op)     (* about to return normally *)
| PPanicked (o : op).     (* the call panicked (the harness recovers it) *)

Inductive tmst := TIdle | TArmed | TFired.      (* stopped-or-new / armed / fired (callback started) *)

(* the goroutine time.AfterFunc starts for the callback *)
Inductive cbpc :=
| CbNone                  (* timer has not fired *)
| CbWantLock              (* started; about to t.m.Lock() *)
| CbLocked                (* holds t.m; about to test t.gen == gen *)
| CbSched                 (* gen matched, send attempted; about to t.schedule() *)
| CbUnlock                (* about to t.m.Unlock() *)
| CbDone
| CbCrashed.              (* schedule() panicked inside the callback (crashes the program) *)

Record timer := mkTm {
  tm_gen : Z;             (* the gen captured by the closure *)
  tm_dl : Z;              (* deadline: clock at AfterFunc + next (kept after firing) *)
  tm_d : Z; tm_j : Z;     (* ghost: t.d and t.jitter when this timer was scheduled *)
  tm_st : tmst;
  tm_cb : cbpc
}.

Inductive owner := MFree | MTh (th : nat) | MCb (k : nat)
                 | MDead.  (* a panic unwound past t.m.Unlock(): locked forever *)

Inductive lifecycle := LNone | LCreating | LLive.

Record st := mkSt {
  now : Z;
  life : lifecycle;       (* no ticker yet / NewJitterTicker running / pointer published *)
  fd : Z; fj : Z;         (* t.d, t.jitter *)
  gen : Z;                (* t.gen *)
  tmr : option nat;       (* t.timer: nil or the index of a timer *)
  timers : list timer;    (* every timer ever created by schedule(), in creation order *)
  mu : owner;             (* t.m *)
  buf : option Z;         (* the one-slot channel t.c *)
  thr : list tpc;
  sent : list (Z * Z * Z);(* ghost, newest first: (timestamp sent on c, tm_d, tm_j of the sending timer) *)
  recvd : list Z;         (* ghost, newest first: values received from C *)
  stopped : bool          (* ghost: the last executed New/Reset/Stop critical section was a Stop *)
}.

Definition set_now (s : st) x : st := mkSt x (life s) (fd s) (fj s) (gen s) (tmr s) (timers s) (mu s) (buf s) (thr s) (sent s) (recvd s) (stopped s).
Definition set_life (s : st) x : st := mkSt (now s) x (fd s) (fj s) (gen s) (tmr s) (timers s) (mu s) (buf s) (thr s) (sent s) (recvd s) (stopped s).
Definition set_fd (s : st) x : st := mkSt (now s) (life s) x (fj s) (gen s) (tmr s) (timers s) (mu s) (buf s) (thr s) (sent s) (recvd s) (stopped s).
Definition set_fj (s : st) x : st := mkSt (now s) (life s) (fd s) x (gen s) (tmr s) (timers s) (mu s) (buf s) (thr s) (sent s) (recvd s) (stopped s).
Definition set_gen (s : st) x : st := mkSt (now s) (life s) (fd s) (fj s) x (tmr s) (timers s) (mu s) (buf s) (thr s) (sent s) (recvd s) (stopped s).
Definition set_tmr (s : st) x : st := mkSt (now s) (life s) (fd s) (fj s) (gen s) x (timers s) (mu s) (buf s) (thr s) (sent s) (recvd s) (stopped s).
Definition set_timers (s : st) x : st := mkSt (now s) (life s) (fd s) (fj s) (gen s) (tmr s) x (mu s) (buf s) (thr s) (sent s) (recvd s) (stopped s).
Definition set_mu (s : st) x : st := mkSt (now s) (life s) (fd s) (fj s) (gen s) (tmr s) (timers s) x (buf s) (thr s) (sent s) (recvd s) (stopped s).
Definition set_buf (s : st) x : st := mkSt (now s) (life s) (fd s) (fj s) (gen s) (tmr s) (timers s) (mu s) x (thr s) (sent s) (recvd s) (stopped s).
Definition set_thr (s : st) x : st := mkSt (now s) (life s) (fd s) (fj s) (gen s) (tmr s) (timers s) (mu s) (buf s) x (sent s) (recvd s) (stopped s).
Definition set_sent (s : st) x : st := mkSt (now s) (life s) (fd s) (fj s) (gen s) (tmr s) (timers s) (mu s) (buf s) (thr s) x (recvd s) (stopped s).
Definition set_recvd (s : st) x : st := mkSt (now s) (life s) (fd s) (fj s) (gen s) (tmr s) (timers s) (mu s) (buf s) (thr s) (sent s) x (stopped s).
Definition set_stopped (s : st) x : st := mkSt (now s) (life s) (fd s) (fj s) (gen s) (tmr s) (timers s) (mu s) (buf s) (thr s) (sent s) (recvd s) x.

Definition set_pc (s : st) (th : nat) (p : tpc) : st := set_thr s (upd (thr s) th p).
Definition tm_set_st (tm : timer) (x : tmst) : timer :=
  mkTm (tm_gen tm) (tm_dl tm) (tm_d tm) (tm_j tm) x (tm_cb tm).
Definition tm_set_cb (tm : timer) (x : cbpc) : timer :=
  mkTm (tm_gen tm) (tm_dl tm) (tm_d tm) (tm_j tm) (tm_st tm) x.
Definition set_tm (s : st) (k : nat) (tm : timer) : st := set_timers s (upd (timers s) k tm).

(* Timer.Stop: an armed timer never fires; one whose callback already started is unaffected *)
Definition stop_timer (tms : list timer) (k : nat) : list timer :=
  match nth_error tms k with
  | Some tm => match tm_st tm with TArmed => upd tms k (tm_set_st tm TIdle) | _ => tms end
  | None => tms
  end.

(* Three versions of the computation of [next] in schedule():
     VCur        the code in /repo: the offset is drawn as a magnitude rand.Int63n(jitter) and a sign bit
                 rand.Int63()&1, and added to d with saturation at math.MaxInt64;
     VOrig       the ORIGINAL code  next += Duration(rand.Int63n(int64(jitter*2))) - jitter  under
                 [if t.jitter > 0]  (kept for the _refuted witnesses only: jitter*2 overflows for
                 jitter >= 2^62 and rand.Int63n panics; d + offset overflows for d near max_i64);
     VUnguarded  the historical code: the same without the guard [if t.jitter > 0]. *)
Inductive ver := VUnguarded | VOrig | VCur.

(* ---- the original computation (VOrig / VUnguarded) ---- *)

(* does schedule() call rand.Int63n(int64(jitter*2))? *)
Definition calls_rand (guarded : bool) (j : Z) : bool := negb guarded || (0 <? j).

(* the argument handed to rand.Int63n: int64(t.jitter*2) *)
Definition rand_arg (j : Z) : Z := wrap64 (2 * j).

(* which oracle values r are possible results of rand.Int63n (r = 0 when it is not called or panics) *)
Definition r_valid_orig (guarded : bool) (j r : Z) : bool :=
  if calls_rand guarded j && (0 <? rand_arg j) then (0 <=? r) && (r <? rand_arg j) else r =? 0.

(* next := t.d [+ Int63n(2*jitter) - jitter];  None = rand.Int63n panics (argument <= 0) *)
Definition next_orig (guarded : bool) (d j r : Z) : option Z :=
  if calls_rand guarded j
  then if rand_arg j <=? 0 then None else Some (wrap64 (d + (r - j)))
  else Some d.

(* ---- the code in /repo (VCur) ---- *)

(*  next := t.d
    if t.jitter > 0 {
        offset := time.Duration(rand.Int63n(int64(t.jitter)))        // m
        if rand.Int63()&1 == 1 { offset = -offset - 1 }               // b
        if offset > 0 && next > math.MaxInt64-offset { next = math.MaxInt64 } else { next += offset }
    }
   m is the result of rand.Int63n(int64(t.jitter)) (0 <= m < jitter; the argument is > 0 in this branch,
   so rand.Int63n does not panic), b the low bit of rand.Int63().  Every int64 operation is explicit. *)
Definition jitter_offset (m : Z) (b : bool) : Z := if b then wrap64 (wrap64 (- m) - 1) else m.

Definition next_cur (d j m : Z) (b : bool) : Z :=
  if 0 <? j
  then let offset := jitter_offset m b in
       if (0 <? offset) && (wrap64 (max_i64 - offset) <? d) then max_i64 else wrap64 (d + offset)
  else d.

(* The label of a schedule() step carries ONE oracle value r for the two draws: the 2*jitter outcomes
   (m, b) in [0, jitter) x {0, 1} are numbered 0 .. 2*jitter-1 (a mathematical integer, not an int64) in
   the order of the offset they produce, -jitter .. jitter-1:  r < jitter  is  b = 1, m = jitter-1-r
   (offset r - jitter);  r >= jitter  is  b = 0, m = r - jitter  (offset r - jitter).  [draws] decodes;
   XTimeProofs.draws_valid / draws_onto / draws_unique: it is a bijection between the valid r and the valid
   pairs (m, b).  r = 0 is the smallest offset (the earliest deadline), which is what the matcher tries. *)
Definition draws (j r : Z) : Z * bool := if r <? j then (j - 1 - r, true) else (r - j, false).

(* which oracle values are possible (r = 0 when rand is not called) *)
Definition r_valid (v : ver) (j r : Z) : bool :=
  match v with
  | VCur => if 0 <? j then (0 <=? r) && (r <? 2 * j) else r =? 0
  | VOrig => r_valid_orig true j r
  | VUnguarded => r_valid_orig false j r
  end.

(* the delay handed to time.AfterFunc;  None = schedule() panics (inside rand.Int63n) *)
Definition next_delay (v : ver) (d j r : Z) : option Z :=
  match v with
  | VCur => Some (let '(m, b) := draws j r in next_cur d j m b)
  | VOrig => next_orig true d j r
  | VUnguarded => next_orig false d j r
  end.

(* t.schedule() with oracle r, executed while holding t.m.  None = it panicked. *)
Definition schedule (v : ver) (s : st) (r : Z) : option st :=
  let tms1 := match tmr s with Some k => stop_timer (timers s) k | None => timers s end in
  match next_delay v (fd s) (fj s) r with
  | None => None
  | Some nx =>
      let g := gen s + 1 in
      Some (set_tmr (set_gen (set_timers s (tms1 ++ [mkTm g (now s + nx) (fd s) (fj s) TArmed CbNone])) g)
                    (Some (length tms1)))
  end.

Inductive lab :=
(* visible *)
| LTick (t : Z)                          (* environment: the clock advances to t *)
| LCall (th : nat) (o : op)
| LRet (th : nat) (o : op) (r : res)
| LRecv (v : Z)                          (* some goroutine receives v from t.C *)
(* internal: calling goroutines *)
| TValidate (th : nat)
| TLock (th : nat)
| TBodySched (th : nat) (r : Z)          (* body of NewJitterTicker / Reset: set fields, schedule() *)
| TBodyStop (th : nat)                   (* body of Stop: timer.Stop(); gen++; timer = nil *)
| TUnlock (th : nat)
(* internal: timers and their callbacks *)
| TFire (k : nat)
| TCbLock (k : nat)
| TCbSend (k : nat)                      (* if t.gen == gen { select { case t.c <- time.Now(): default: } *)
| TCbSchedule (k : nat) (r : Z)
| TCbUnlock (k : nat).

Definition bad_args (d j : Z) : bool := (d <=? 0) || (d <=? j).

Definition op_eqb (a b : op) : bool :=
  match a, b with
  | ONew d j, ONew d' j' | OReset d j, OReset d' j' => (d =? d') && (j =? j')
  | OStop, OStop => true
  | _, _ => false
  end.

Definition step_gen (v : ver) (s : st) (l : lab) : option st :=
  match l with
  | LTick t => if now s <=? t then Some (set_now s t) else None
  | LCall th o =>
      match nth_error (thr s) th with
      | Some PIdle =>
          match o, life s with
          | ONew _ _, LNone => Some (set_pc (set_life s LCreating) th (PCalled o))
          | OReset _ _, LLive | OStop, LLive => Some (set_pc s th (PCalled o))
          | _, _ => None
          end
      | _ => None
      end
  | TValidate th =>
      match nth_error (thr s) th with
      | Some (PCalled o) =>
          match o with
          | ONew d j =>
              if bad_args d j then Some (set_pc (set_life s LNone) th (PPanicked o))
              else Some (set_pc s th (PWantLock o))
          | OReset d j =>
              if bad_args d j then Some (set_pc s th (PPanicked o))
              else Some (set_pc s th (PWantLock o))
          | OStop => Some (set_pc s th (PWantLock o))
          end
      | _ => None
      end
  | TLock th =>
      match nth_error (thr s) th, mu s with
      | Some (PWantLock o), MFree => Some (set_pc (set_mu s (MTh th)) th (PLocked o))
      | _, _ => None
      end
  | TBodySched th r =>
      match nth_error (thr s) th with
      | Some (PLocked o) =>
          match o with
          | ONew d j | OReset d j =>
              if r_valid v j r
              then let s1 := set_fj (set_fd s d) j in
                   match schedule v s1 r with
                   | Some s2 => Some (set_pc (set_stopped s2 false) th (PUnlock o))
                   | None =>
                       let s3 := set_pc (set_mu s1 MDead) th (PPanicked o) in
                       Some (match o with ONew _ _ => set_life s3 LNone | _ => s3 end)
                   end
              else None
          | OStop => None
          end
      | _ => None
      end
  | TBodyStop th =>
      match nth_error (thr s) th with
      | Some (PLocked OStop) =>
          match tmr s with
          | Some k =>
              Some (set_pc (set_stopped (set_tmr (set_gen (set_timers s (stop_timer (timers s) k)) (gen s + 1)) None) true)
                           th (PUnlock OStop))
          | None =>      (* t.timer == nil: nil dereference while holding t.m *)
              Some (set_pc (set_stopped (set_mu s MDead) true) th (PPanicked OStop))
          end
      | _ => None
      end
  | TUnlock th =>
      match nth_error (thr s) th with
      | Some (PUnlock o) => Some (set_pc (set_mu s MFree) th (PReturning o))
      | _ => None
      end
  | LRet th o r =>
      match nth_error (thr s) th, r with
      | Some (PReturning o'), RNormal =>
          if op_eqb o o'
          then Some (match o with ONew _ _ => set_pc (set_life s LLive) th PIdle | _ => set_pc s th PIdle end)
          else None
      | Some (PPanicked o'), RPanic => if op_eqb o o' then Some (set_pc s th PIdle) else None
      | _, _ => None
      end
  | LRecv v =>
      match buf s with
      | Some v' => if v =? v' then Some (set_recvd (set_buf s None) (v :: recvd s)) else None
      | None => None
      end
  | TFire k =>
      match nth_error (timers s) k with
      | Some tm =>
          match tm_st tm with
          | TArmed => if tm_dl tm <=? now s
                      then Some (set_tm s k (tm_set_cb (tm_set_st tm TFired) CbWantLock))
                      else None
          | _ => None
          end
      | None => None
      end
  | TCbLock k =>
      match nth_error (timers s) k, mu s with
      | Some tm, MFree =>
          match tm_cb tm with
          | CbWantLock => Some (set_tm (set_mu s (MCb k)) k (tm_set_cb tm CbLocked))
          | _ => None
          end
      | _, _ => None
      end
  | TCbSend k =>
      match nth_error (timers s) k with
      | Some tm =>
          match tm_cb tm with
          | CbLocked =>
              if gen s =? tm_gen tm
              then match buf s with
                   | None => Some (set_tm (set_sent (set_buf s (Some (now s))) ((now s, tm_d tm, tm_j tm) :: sent s))
                                          k (tm_set_cb tm CbSched))
                   | Some _ => Some (set_tm s k (tm_set_cb tm CbSched))      (* default arm: tick dropped *)
                   end
              else Some (set_tm s k (tm_set_cb tm CbUnlock))
          | _ => None
          end
      | None => None
      end
  | TCbSchedule k r =>
      match nth_error (timers s) k with
      | Some tm =>
          match tm_cb tm with
          | CbSched =>
              if r_valid v (fj s) r
              then match schedule v s r with
                   | Some s2 =>
                       match nth_error (timers s2) k with
                       | Some tm2 => Some (set_tm s2 k (tm_set_cb tm2 CbUnlock))
                       | None => None
                       end
                   | None => Some (set_tm (set_mu s MDead) k (tm_set_cb tm CbCrashed))
                   end
              else None
          | _ => None
          end
      | None => None
      end
  | TCbUnlock k =>
      match nth_error (timers s) k with
      | Some tm =>
          match tm_cb tm with
          | CbUnlock => Some (set_tm (set_mu s MFree) k (tm_set_cb tm CbDone))
          | _ => None
          end
      | None => None
      end
  end.

Definition step := step_gen VCur.              (* the code in /repo *)
Definition step_orig := step_gen VOrig.        (* the original next += Int63n(2*jitter) - jitter, guarded *)
Definition step_old := step_gen VUnguarded.    (* the historical unguarded rand.Int63n(2*jitter) *)

(* n goroutines, no ticker yet, clock 0 *)
Definition tinit (n : nat) : st :=
  mkSt 0 LNone 0 0 0 None [] MFree None (repeat PIdle n) [] [] false.

(* the property's spacing clause on the ghost list of ticks (newest first): each tick is at least
   d - jitter after its predecessor, d and jitter being the ones in force when the timer that sent it
   was scheduled, for ALL documented arguments 0 <= jitter < d of type int64 (d <= max_i64) *)
Fixpoint spaced (l : list (Z * Z * Z)) : Prop :=
  match l with
  | (t2, d2, j2) :: tl =>
      match tl with
      | (t1, _, _) :: _ => (0 <= j2 < d2 -> d2 <= max_i64 -> d2 - j2 <= t2 - t1) /\ spaced tl
      | [] => True
      end
  | [] => True
  end.

Definition is_sched_body (l : lab) : bool := match l with TBodySched _ _ => true | _ => false end.

(* ================================================================================ *)
(* Part 3 — correspondence checkers (history matchers)                               *)
(* ================================================================================ *)

(* ---- SleepContext ---- *)
Definition svis (l : slab) : option slab :=
  match l with SLTick _ | SLCancel | SLCall | SLRet _ => Some l | _ => None end.

Definition slab_eqb (a b : slab) : bool :=
  match a, b with
  | SLTick t, SLTick u => t =? u
  | SLCancel, SLCancel | SLCall, SLCall => true
  | SLRet r, SLRet q => sres_eqb r q
  | _, _ => false
  end.
Definition optz_eqb (a b : option Z) : bool :=
  match a, b with None, None => true | Some x, Some y => x =? y | _, _ => false end.
Definition cst_eqb (a b : cst) : bool :=
  match a, b with CLive, CLive | CReq, CReq => true | CDone e, CDone f => cerr_eqb e f | _, _ => false end.
Definition tst_eqb (a b : tst) : bool :=
  match a, b with TmNone, TmNone | TmFired, TmFired => true | TmArmed x, TmArmed y => x =? y | _, _ => false end.
Definition spc_eqb (a b : spc) : bool :=
  match a, b with
  | SIdle, SIdle | SCalled, SCalled | SArm, SArm | SSelect, SSelect | SParked, SParked => true
  | SReturning r, SReturning q | SDone r, SDone q => sres_eqb r q
  | _, _ => false
  end.
Definition sst_eqb (a b : sst) : bool :=
  (s_d a =? s_d b) && optz_eqb (s_dl a) (s_dl b) && (snow a =? snow b) && cst_eqb (sctx a) (sctx b)
  && tst_eqb (stm a) (stm b) && spc_eqb (spc_ a) (spc_ b) && (sstart a =? sstart b) && (stdec a =? stdec b).

(* A recorded SleepContext run: (d, deadline, events); every recorded event is preceded by an
   [SLTick t] carrying its timestamp.  Accepted iff some run of the model produces it. *)
Definition check_sleep (c : Z * option Z * list slab) : bool :=
  let '(d, dl, evs) := c in
  accepts sstep svis slab_eqb sst_eqb (fun _ => s_tau_labels) (fun _ e => [e]) 32 (sinit d dl 0) evs.

(* the same matcher for the historical code (used by the refutation examples only) *)
Definition check_sleep_old (c : Z * option Z * list slab) : bool :=
  let '(d, dl, evs) := c in
  accepts sstep_old svis slab_eqb sst_eqb (fun _ => s_tau_labels) (fun _ e => [e]) 32 (sinit d dl 0) evs.

(* ---- JitterTicker ---- *)
Definition vis (l : lab) : option lab :=
  match l with LTick _ | LCall _ _ | LRet _ _ _ | LRecv _ => Some l | _ => None end.

Definition res_eqb (a b : res) : bool :=
  match a, b with RNormal, RNormal | RPanic, RPanic => true | _, _ => false end.
Definition lab_eqb (a b : lab) : bool :=
  match a, b with
  | LTick t, LTick u => t =? u
  | LCall th o, LCall th' o' => Nat.eqb th th' && op_eqb o o'
  | LRet th o r, LRet th' o' r' => Nat.eqb th th' && op_eqb o o' && res_eqb r r'
  | LRecv v, LRecv w => v =? w
  | _, _ => false
  end.

Definition tpc_eqb (a b : tpc) : bool :=
  match a, b with
  | PIdle, PIdle => true
  | PCalled o, PCalled p | PWantLock o, PWantLock p | PLocked o, PLocked p | PUnlock o, PUnlock p
  | PReturning o, PReturning p | PPanicked o, PPanicked p => op_eqb o p
  | _, _ => false
  end.
Definition tmst_eqb (a b : tmst) : bool :=
  match a, b with TIdle, TIdle | TArmed, TArmed | TFired, TFired => true | _, _ => false end.
Definition cbpc_eqb (a b : cbpc) : bool :=
  match a, b with
  | CbNone, CbNone | CbWantLock, CbWantLock | CbLocked, CbLocked | CbSched, CbSched
  | CbUnlock, CbUnlock | CbDone, CbDone | CbCrashed, CbCrashed => true
  | _, _ => false
  end.
Definition timer_eqb (a b : timer) : bool :=
  (tm_gen a =? tm_gen b) && (tm_dl a =? tm_dl b) && (tm_d a =? tm_d b) && (tm_j a =? tm_j b)
  && tmst_eqb (tm_st a) (tm_st b) && cbpc_eqb (tm_cb a) (tm_cb b).
Definition owner_eqb (a b : owner) : bool :=
  match a, b with
  | MFree, MFree | MDead, MDead => true
  | MTh x, MTh y | MCb x, MCb y => Nat.eqb x y
  | _, _ => false
  end.
Definition life_eqb (a b : lifecycle) : bool :=
  match a, b with LNone, LNone | LCreating, LCreating | LLive, LLive => true | _, _ => false end.
Definition optnat_eqb (a b : option nat) : bool :=
  match a, b with None, None => true | Some x, Some y => Nat.eqb x y | _, _ => false end.
Fixpoint list_eqb {A} (eqb : A -> A -> bool) (a b : list A) : bool :=
  match a, b with
  | [], [] => true
  | x :: a', y :: b' => eqb x y && list_eqb eqb a' b'
  | _, _ => false
  end.
Definition tick_eqb (a b : Z * Z * Z) : bool :=
  let '(t, d, j) := a in let '(t', d', j') := b in (t =? t') && (d =? d') && (j =? j').
Definition st_eqb (a b : st) : bool :=
  (now a =? now b) && life_eqb (life a) (life b) && (fd a =? fd b) && (fj a =? fj b) && (gen a =? gen b)
  && optnat_eqb (tmr a) (tmr b) && list_eqb timer_eqb (timers a) (timers b) && owner_eqb (mu a) (mu b)
  && optz_eqb (buf a) (buf b) && list_eqb tpc_eqb (thr a) (thr b)
  && list_eqb tick_eqb (sent a) (sent b) && list_eqb Z.eqb (recvd a) (recvd b) && Bool.eqb (stopped a) (stopped b).

(* Internal labels tried by the matcher.  The oracle of the two rand draws is fixed to r = 0 (sign bit 1,
   magnitude jitter-1: offset -jitter): it gives the earliest timer deadline (the delay is monotone in r for
   int64 arguments, XTimeMatcher.oracle_safe_int64), and a timer may fire arbitrarily later than its
   deadline, so every history producible with another r is producible with r = 0 (r = 0 is the only value
   when rand is not called).  The recorded tick timestamps then decide when the timers fire ([mstep]). *)
Definition tau_labels (s : st) : list lab :=
  flat_map (fun th => [TValidate th; TLock th; TBodySched th 0; TBodyStop th; TUnlock th]) (seq 0 (length (thr s)))
  ++ flat_map (fun k => [TFire k; TCbLock k; TCbSend k; TCbSchedule k 0; TCbUnlock k]) (seq 0 (length (timers s))).

(* The matcher's search is guided by the recorded ticks: a timer is fired only at the clock value
   carried by the next tick still to be received (a callback that sends nothing - stale generation, or
   buffer full - has no visible effect, and firing a timer later than its deadline is always allowed,
   so no producible history is lost), and the clock is advanced only while t.m is not held (a critical
   section contains no blocking operation; executing all of it at the clock value at which the lock was
   taken only makes timer deadlines earlier).  [mstep] is [step] restricted in this way; every run of
   [mstep] is a run of [step] (XTimeProofs.mstep_sound). *)
Definition mst : Type := st * list Z.

Definition mstep (ms : mst) (l : lab) : option mst :=
  let '(s, pend) := ms in
  match l with
  | TFire _ =>
      match pend with
      | v :: _ => if now s =? v then option_map (fun s' => (s', pend)) (step s l) else None
      | [] => None
      end
  | LRecv v =>
      match pend with
      | v' :: pend' => if v =? v' then option_map (fun s' => (s', pend')) (step s l) else None
      | [] => None
      end
  | LTick _ =>
      match mu s with
      | MTh _ | MCb _ => None
      | _ => option_map (fun s' => (s', pend)) (step s l)
      end
  | _ => option_map (fun s' => (s', pend)) (step s l)
  end.

Definition mst_eqb (a b : mst) : bool := st_eqb (fst a) (fst b) && list_eqb Z.eqb (snd a) (snd b).

Fixpoint recv_values (evs : list lab) : list Z :=
  match evs with
  | [] => []
  | LRecv v :: t => v :: recv_values t
  | _ :: t => recv_values t
  end.

(* A recorded JitterTicker scenario: n goroutines and the events in log order, every call preceded by an
   [LTick t] with its timestamp (the invocation is logged before the call: t is a lower bound of the time
   of everything the call does); a tick value v received from C appears as [LTick v; LRecv v] at the
   position of v among the timestamps (v is the clock value read inside the callback).  Returns carry no
   [LTick]: their time is not a lower bound of anything that is not logged later. *)
Definition accepts_history (n : nat) (evs : list lab) : bool :=
  accepts mstep vis lab_eqb mst_eqb (fun ms => tau_labels (fst ms)) (fun _ e => [e]) 64
          (tinit n, recv_values evs) evs.

Definition first_rejected (n : nat) (evs : list lab) : option nat :=
  first_reject mstep vis lab_eqb mst_eqb (fun ms => tau_labels (fst ms)) (fun _ e => [e]) 64
               (close mstep vis mst_eqb (fun ms => tau_labels (fst ms)) 64 [(tinit n, recv_values evs)]) evs O.

Definition check_ticker (c : nat * list lab) : bool := let '(n, evs) := c in accepts_history n evs.

(* the same matcher for the historical code (used by examples only) *)
Definition mstep_old (ms : mst) (l : lab) : option mst :=
  let '(s, pend) := ms in
  match l with
  | TFire _ =>
      match pend with
      | v :: _ => if now s =? v then option_map (fun s' => (s', pend)) (step_old s l) else None
      | [] => None
      end
  | LRecv v =>
      match pend with
      | v' :: pend' => if v =? v' then option_map (fun s' => (s', pend')) (step_old s l) else None
      | [] => None
      end
  | LTick _ =>
      match mu s with
      | MTh _ | MCb _ => None
      | _ => option_map (fun s' => (s', pend)) (step_old s l)
      end
  | _ => option_map (fun s' => (s', pend)) (step_old s l)
  end.
Definition check_ticker_old (c : nat * list lab) : bool :=
  let '(n, evs) := c in
  accepts mstep_old vis lab_eqb mst_eqb (fun ms => tau_labels (fst ms)) (fun _ e => [e]) 64
          (tinit n, recv_values evs) evs.
