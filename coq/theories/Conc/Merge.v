(* C12 — LTS models of chans.Merge / chans.Replicate (chans/chans.go) and stream.Merge
   (stream/stream.go), each together with the scenario harness (harness_merge/merge.go).
   Model only (no proofs here; see MergeProofs.v).

   Module CM: the channel functions.  One library thread (the Merge or Replicate call), one producer
   thread per input channel executing the commands the controller queued for it (send v / close), one
   consumer thread per output channel receiving as many values as the controller permitted.
   chans.Merge has four code paths chosen by the arity: [KM1] the range loop, [KM2]/[KM3] the
   hand-written selects with nil-ing of closed inputs and nDone, [KMR] the reflect.Select loop whose
   case list shrinks by xslices.RemoveUnordered.  Blocking operations (channel send/receive, select
   without default) are enabled exactly when they can complete; an unbuffered send/receive pair is
   one joint step.

   Module SM: stream.Merge.  One worker per input (up-call in[i].Next(ctx) into the scripted harness
   source, PipeSender.Send on the unbuffered pipe inlined: non-blocking poll of senderDone, then the
   four-arm select as a poll-or-park step), the deferred nDone/closeOnce logic with each atomic as a
   step, cancel, sender.Close, the up-call in[i].Close, wg.Done; the consumer (pipeStream.Next =
   three-arm poll-or-park select plus the non-blocking drain, mergeStream.Close = close(streamDone);
   cancel(); wg.Wait()).  A close/cancel that readies a parked select completes it in the same step.
   ASSUMPTION (stated by the property): an input's Next returns once its context is cancelled — the
   label [LSrcExit i (SRErr ECtx)] is enabled whenever the shared context is done. *)
From Juniper Require Import Common.Base Conc.GoLTS.

Fixpoint list_eqb {A} (eqb : A -> A -> bool) (a b : list A) : bool :=
  match a, b with
  | [], [] => true
  | x :: a', y :: b' => if eqb x y then list_eqb eqb a' b' else false   (* [if], not [&&]: lazy under vm_compute *)
  | _, _ => false
  end.
(* equality of duplicate-free lists up to order *)
Definition set_eqb (a b : list nat) : bool :=
  if Nat.eqb (length a) (length b) then forallb (fun x => existsb (Nat.eqb x) b) a else false.
Definition opt_eqb {A} (eqb : A -> A -> bool) (a b : option A) : bool :=
  match a, b with None, None => true | Some x, Some y => eqb x y | _, _ => false end.

(* xslices.RemoveUnordered(s, idx, n), transcribed:
     keepStart := len(s) - n; removeEnd := idx + n
     if removeEnd > keepStart { keepStart = removeEnd }
     copy(s[idx:], s[keepStart:]); Clear(s[len(s)-n:]); return s[:len(s)-n]            *)
Definition copy_at {A} (s : list A) (idx : nat) (src : list A) : list A :=
  let k := Nat.min (length s - idx) (length src) in
  firstn idx s ++ firstn k src ++ skipn (idx + k) s.
Definition remove_unordered {A} (s : list A) (idx n : nat) : list A :=
  let keepStart := Nat.max (length s - n) (idx + n) in
  firstn (length s - n) (copy_at s idx (skipn keepStart s)).

(* append x to the k-th list *)
Definition snoc_at {A} (ll : list (list A)) (k : nat) (x : A) : list (list A) :=
  match nth_error ll k with Some l => upd ll k (l ++ [x]) | None => ll end.

Module CM.
Local Open Scope nat_scope.

Record chan := mkCh { cap : nat; buf : list Z; closed : bool }.
Inductive cmd := CSend (v : Z) | CClose.
Inductive plog := PNone | PSent (v : Z) | PClosed.
Record prod := mkP { p_q : list cmd; p_log : plog }.
Record cons := mkC { c_permits : nat; c_hand : option Z }.
Inductive kind := KM1 | KM2 | KM3 | KMR | KRep.

Inductive lpc :=
| LInit                               (* call not started *)
| LLoop                               (* at the loop head: about to receive / select *)
| LHand (src : nat) (v : Z) (j : nat) (* holds v (received from input src); about to send it to output j *)
| LRetp                               (* about to return *)
| LDone.

Record st := mkSt {
  knd : kind;
  nin : nat;                (* number of input channels (constant) *)
  nout : nat;               (* number of output channels (constant) *)
  chs : list chan;          (* inputs first, then outputs *)
  prods : list prod;        (* producer k feeds channel k *)
  conss : list cons;        (* consumer j drains channel nin + j *)
  live : list bool;         (* merge2/merge3: in_k not yet set to nil *)
  ndone : nat;              (* merge2/merge3: nDone *)
  cases : list nat;         (* reflect path: channel of each remaining select case *)
  pc : lpc;
  (* ghost history *)
  produced : list (list Z);       (* per input: values whose send completed *)
  gots : list (list Z);           (* per input: values the call received *)
  seen_closed : list bool;        (* per input: the call observed "closed" *)
  outs : list (list (nat * Z));   (* per output: values the call sent, tagged with their input *)
  taken : list (list Z)           (* per output: values its consumer received *)
}.

Inductive lab :=
(* visible *)
| LStart | LRet
| LCmd (k : nat) (c : cmd)            (* controller queues a command for producer k *)
| LPermit (j n : nat)                 (* controller lets consumer j receive n more values *)
| LSent (k : nat) (v : Z) | LClosed (k : nat)     (* producer k reports its completed action *)
| LRecvd (j : nat) (v : Z)            (* consumer j reports the value it received *)
| LQuiesce
(* internal *)
| TProdBuf (k : nat)                  (* producer k's send goes into the channel buffer *)
| TProdClose (k : nat)
| TLibRecv (pos : nat)                (* receive / select arm pos fires: value, or closed *)
| TLibSend                            (* the blocking send of the value in hand completes *)
| TLibExit                            (* reflect path: len(selectCases) == 0 *)
| TConsTake (j : nat).                (* consumer j takes a value from the buffer *)

(* ---- setters ---- *)
Definition with_chs (s : st) (x : list chan) : st :=
  mkSt (knd s) (nin s) (nout s) x (prods s) (conss s) (live s) (ndone s) (cases s) (pc s) (produced s) (gots s) (seen_closed s) (outs s) (taken s).
Definition with_prods (s : st) (x : list prod) : st :=
  mkSt (knd s) (nin s) (nout s) (chs s) x (conss s) (live s) (ndone s) (cases s) (pc s) (produced s) (gots s) (seen_closed s) (outs s) (taken s).
Definition with_conss (s : st) (x : list cons) : st :=
  mkSt (knd s) (nin s) (nout s) (chs s) (prods s) x (live s) (ndone s) (cases s) (pc s) (produced s) (gots s) (seen_closed s) (outs s) (taken s).
Definition with_pc (s : st) (x : lpc) : st :=
  mkSt (knd s) (nin s) (nout s) (chs s) (prods s) (conss s) (live s) (ndone s) (cases s) x (produced s) (gots s) (seen_closed s) (outs s) (taken s).
Definition with_sel (s : st) (lv : list bool) (nd : nat) (cs : list nat) (sc : list bool) : st :=
  mkSt (knd s) (nin s) (nout s) (chs s) (prods s) (conss s) lv nd cs (pc s) (produced s) (gots s) sc (outs s) (taken s).
Definition with_produced (s : st) (x : list (list Z)) : st :=
  mkSt (knd s) (nin s) (nout s) (chs s) (prods s) (conss s) (live s) (ndone s) (cases s) (pc s) x (gots s) (seen_closed s) (outs s) (taken s).
Definition with_gots (s : st) (x : list (list Z)) : st :=
  mkSt (knd s) (nin s) (nout s) (chs s) (prods s) (conss s) (live s) (ndone s) (cases s) (pc s) (produced s) x (seen_closed s) (outs s) (taken s).
Definition with_outs (s : st) (x : list (list (nat * Z))) : st :=
  mkSt (knd s) (nin s) (nout s) (chs s) (prods s) (conss s) (live s) (ndone s) (cases s) (pc s) (produced s) (gots s) (seen_closed s) x (taken s).
Definition with_taken (s : st) (x : list (list Z)) : st :=
  mkSt (knd s) (nin s) (nout s) (chs s) (prods s) (conss s) (live s) (ndone s) (cases s) (pc s) (produced s) (gots s) (seen_closed s) (outs s) x.

Definition set_buf (c : chan) (b : list Z) : chan := mkCh (cap c) b (closed c).

(* the channel behind receive/select arm [pos] of the current code path *)
Definition sel (s : st) (pos : nat) : option nat :=
  match knd s with
  | KM1 | KRep => if Nat.eqb pos 0 then Some 0 else None
  | KM2 | KM3 => match nth_error (live s) pos with Some true => Some pos | _ => None end
  | KMR => nth_error (cases s) pos
  end.

(* where the library thread goes once it holds v from input k and outputs 0..j-1 have it *)
Definition hand_or_loop (s : st) (k : nat) (v : Z) (j : nat) : lpc :=
  match knd s with
  | KRep => if Nat.ltb j (nout s) then LHand k v j else LLoop
  | _ => match j with O => LHand k v 0 | S _ => LLoop end
  end.

(* arm [pos] (channel k) reported "closed" *)
Definition on_closed (s : st) (pos k : nat) : st :=
  let sc := upd (seen_closed s) k true in
  match knd s with
  | KM1 | KRep => with_pc (with_sel s (live s) (ndone s) (cases s) sc) LRetp
  | KM2 | KM3 =>
      let nd := S (ndone s) in
      with_pc (with_sel s (upd (live s) pos false) nd (cases s) sc)
              (if Nat.eqb nd (nin s) then LRetp else LLoop)
  | KMR => with_pc (with_sel s (live s) (ndone s) (remove_unordered (cases s) pos 1) sc) LLoop
  end.

Definition take_value (s : st) (k : nat) (v : Z) : st :=
  with_pc (with_gots s (snoc_at (gots s) k v)) (hand_or_loop s k v 0).

Definition step (s : st) (l : lab) : option st :=
  match l with
  | LStart => match pc s with LInit => Some (with_pc s LLoop) | _ => None end
  | LRet => match pc s with LRetp => Some (with_pc s LDone) | _ => None end
  | LCmd k c =>
      match nth_error (prods s) k with
      | Some p => Some (with_prods s (upd (prods s) k (mkP (p_q p ++ [c]) (p_log p))))
      | None => None
      end
  | LPermit j n =>
      match nth_error (conss s) j with
      | Some c => Some (with_conss s (upd (conss s) j (mkC (c_permits c + n) (c_hand c))))
      | None => None
      end
  | TProdBuf k =>
      match nth_error (prods s) k, nth_error (chs s) k with
      | Some (mkP (CSend v :: q) PNone), Some c =>
          if negb (closed c) && Nat.ltb (length (buf c)) (cap c)
          then Some (with_produced
                       (with_prods (with_chs s (upd (chs s) k (set_buf c (buf c ++ [v]))))
                                   (upd (prods s) k (mkP q (PSent v))))
                       (snoc_at (produced s) k v))
          else None
      | _, _ => None
      end
  | TProdClose k =>
      match nth_error (prods s) k, nth_error (chs s) k with
      | Some (mkP (CClose :: q) PNone), Some c =>
          if closed c then None   (* close of a closed channel: the harness never does it *)
          else Some (with_prods (with_chs s (upd (chs s) k (mkCh (cap c) (buf c) true)))
                                (upd (prods s) k (mkP q PClosed)))
      | _, _ => None
      end
  | LSent k v =>
      match nth_error (prods s) k with
      | Some (mkP q (PSent v')) =>
          if Z.eqb v v' then Some (with_prods s (upd (prods s) k (mkP q PNone))) else None
      | _ => None
      end
  | LClosed k =>
      match nth_error (prods s) k with
      | Some (mkP q PClosed) => Some (with_prods s (upd (prods s) k (mkP q PNone)))
      | _ => None
      end
  | TLibRecv pos =>
      match pc s, sel s pos with
      | LLoop, Some k =>
          match nth_error (chs s) k with
          | Some c =>
              match buf c with
              | v :: b => Some (take_value (with_chs s (upd (chs s) k (set_buf c b))) k v)
              | [] =>
                  if closed c then Some (on_closed s pos k)
                  else match cap c, nth_error (prods s) k with
                       | O, Some (mkP (CSend v :: q) PNone) =>      (* unbuffered rendezvous *)
                           Some (take_value
                                   (with_produced (with_prods s (upd (prods s) k (mkP q (PSent v))))
                                                  (snoc_at (produced s) k v)) k v)
                       | _, _ => None
                       end
              end
          | None => None
          end
      | _, _ => None
      end
  | TLibExit =>
      match knd s, pc s, cases s with
      | KMR, LLoop, [] => Some (with_pc s LRetp)
      | _, _, _ => None
      end
  | TLibSend =>
      match pc s with
      | LHand k v j =>
          let o := nin s + j in
          match nth_error (chs s) o, nth_error (conss s) j with
          | Some c, Some cn =>
              if Nat.ltb (length (buf c)) (cap c)
              then Some (with_pc (with_outs (with_chs s (upd (chs s) o (set_buf c (buf c ++ [v]))))
                                            (snoc_at (outs s) j (k, v)))
                                 (hand_or_loop s k v (S j)))
              else match cap c, c_permits cn, c_hand cn with
                   | O, S p, None =>                                (* unbuffered rendezvous *)
                       Some (with_pc (with_taken (with_outs (with_conss s (upd (conss s) j (mkC p (Some v))))
                                                            (snoc_at (outs s) j (k, v)))
                                                 (snoc_at (taken s) j v))
                                     (hand_or_loop s k v (S j)))
                   | _, _, _ => None
                   end
          | _, _ => None
          end
      | _ => None
      end
  | TConsTake j =>
      match nth_error (conss s) j, nth_error (chs s) (nin s + j) with
      | Some (mkC (S p) None), Some c =>
          match buf c with
          | v :: b => Some (with_taken (with_conss (with_chs s (upd (chs s) (nin s + j) (set_buf c b)))
                                                   (upd (conss s) j (mkC p (Some v))))
                                       (snoc_at (taken s) j v))
          | [] => None
          end
      | _, _ => None
      end
  | LRecvd j v =>
      match nth_error (conss s) j with
      | Some (mkC p (Some v')) =>
          if Z.eqb v v' then Some (with_conss s (upd (conss s) j (mkC p None))) else None
      | _ => None
      end
  | LQuiesce => None     (* see [qstep] *)
  end.

(* ---- label enumeration ---- *)
Definition lib_taus (s : st) : list lab :=
  map TLibRecv (seq 0 (S (nin s))) ++ [TLibSend; TLibExit].
Definition tau_labels (s : st) : list lab :=
  flat_map (fun k => [TProdBuf k; TProdClose k]) (seq 0 (nin s))
  ++ lib_taus s ++ map TConsTake (seq 0 (nout s)).

(* visible labels of the library / producer / consumer goroutines (not the controller) *)
Definition lib_visible (s : st) : list lab :=
  [LRet]
  ++ flat_map (fun k => match nth_error (prods s) k with
                        | Some (mkP _ (PSent v)) => [LSent k v]
                        | Some (mkP _ PClosed) => [LClosed k]
                        | _ => [] end) (seq 0 (nin s))
  ++ flat_map (fun j => match nth_error (conss s) j with
                        | Some (mkC _ (Some v)) => [LRecvd j v]
                        | _ => [] end) (seq 0 (nout s)).

Definition enabled (s : st) (l : lab) : bool := match step s l with Some _ => true | None => false end.

Definition quiescent (s : st) : bool :=
  negb (existsb (enabled s) (tau_labels s)) && negb (existsb (enabled s) (lib_visible s)).

Definition qstep (s : st) (l : lab) : option st :=
  match l with
  | LQuiesce => if quiescent s then Some s else None
  | _ => step s l
  end.

Definition vis (l : lab) : option lab :=
  match l with
  | LStart | LRet | LCmd _ _ | LPermit _ _ | LSent _ _ | LClosed _ | LRecvd _ _ | LQuiesce => Some l
  | _ => None
  end.

Definition cmd_eqb (a b : cmd) : bool :=
  match a, b with CSend x, CSend y => Z.eqb x y | CClose, CClose => true | _, _ => false end.
Definition lab_eqb (a b : lab) : bool :=
  match a, b with
  | LStart, LStart | LRet, LRet | LQuiesce, LQuiesce => true
  | LCmd k c, LCmd k' c' => Nat.eqb k k' && cmd_eqb c c'
  | LPermit j n, LPermit j' n' => Nat.eqb j j' && Nat.eqb n n'
  | LSent k v, LSent k' v' | LRecvd k v, LRecvd k' v' => Nat.eqb k k' && Z.eqb v v'
  | LClosed k, LClosed k' => Nat.eqb k k'
  | _, _ => false
  end.

(* state equality for the matcher: the real components (ghost history does not influence any step) *)
Definition chan_eqb (a b : chan) : bool :=
  if Bool.eqb (closed a) (closed b) then list_eqb Z.eqb (buf a) (buf b) else false.
Definition plog_eqb (a b : plog) : bool :=
  match a, b with PNone, PNone | PClosed, PClosed => true | PSent x, PSent y => Z.eqb x y | _, _ => false end.
Definition prod_eqb (a b : prod) : bool := if plog_eqb (p_log a) (p_log b) then list_eqb cmd_eqb (p_q a) (p_q b) else false.
Definition cons_eqb (a b : cons) : bool :=
  Nat.eqb (c_permits a) (c_permits b) && opt_eqb Z.eqb (c_hand a) (c_hand b).
Definition lpc_eqb (a b : lpc) : bool :=
  match a, b with
  | LInit, LInit | LLoop, LLoop | LRetp, LRetp | LDone, LDone => true
  | LHand k v j, LHand k' v' j' => Nat.eqb k k' && Z.eqb v v' && Nat.eqb j j'
  | _, _ => false
  end.
(* The reflect path's case list is compared up to order: two states that differ only in the order of
   the remaining select cases have the same behaviour up to renaming the arm index in [TLibRecv]. *)
Definition st_eqb (a b : st) : bool :=
  if lpc_eqb (pc a) (pc b) then
  if Nat.eqb (ndone a) (ndone b) then
  if set_eqb (cases a) (cases b) then
  if list_eqb Bool.eqb (live a) (live b) then
  if list_eqb cons_eqb (conss a) (conss b) then
  if list_eqb prod_eqb (prods a) (prods b) then
  list_eqb chan_eqb (chs a) (chs b)
  else false else false else false else false else false else false.

(* ---- initial states ---- *)
Definition merge_kind (n : nat) : kind :=
  match n with 1 => KM1 | 2 => KM2 | 3 => KM3 | _ => KMR end.

Definition init_gen (k : kind) (incaps outcaps : list nat) : st :=
  let n := length incaps in
  mkSt k n (length outcaps) (map (fun c => mkCh c [] false) (incaps ++ outcaps))
       (repeat (mkP [] PNone) n) (repeat (mkC 0 None) (length outcaps))
       (repeat true n) 0 (seq 0 n) LInit
       (repeat [] n) (repeat [] n) (repeat false n) (repeat [] (length outcaps)) (repeat [] (length outcaps)).

(* chans.Merge(out, in...) with the given channel capacities *)
Definition init_merge (incaps : list nat) (outcap : nat) : st :=
  init_gen (merge_kind (length incaps)) incaps [outcap].
(* chans.Replicate(src, dsts...) *)
Definition init_replicate (srccap : nat) (dstcaps : list nat) : st :=
  init_gen KRep [srccap] dstcaps.

Definition init (rep : bool) (incaps outcaps : list nat) : st :=
  if rep then init_replicate (hd 0 incaps) outcaps else init_merge incaps (hd 0 outcaps).

Definition accepts_history (rep : bool) (incaps outcaps : list nat) (evs : list lab) : bool :=
  accepts qstep vis lab_eqb st_eqb tau_labels (fun _ e => [e]) 200 (init rep incaps outcaps) evs.
Definition first_rejected (rep : bool) (incaps outcaps : list nat) (evs : list lab) : option nat :=
  first_reject qstep vis lab_eqb st_eqb tau_labels (fun _ e => [e]) 200
               (close qstep vis st_eqb tau_labels 200 [init rep incaps outcaps]) evs O.
End CM.

(* ================================================================================================ *)

Module SM.
Local Open Scope nat_scope.

Inductive err := EScr (e : Z) | ECtx | EClosedPipe.
Inductive sres := SRItem (v : Z) | SREnd | SRErr (e : err).      (* result of an input's Next *)
Inductive nres := NItem (v : Z) | NEnd | NErr (e : err).         (* result of the merged stream's Next *)
Inductive cstate := CLive | CReq | CDone.

Inductive wpc :=
| WIdle                      (* stream.Merge not called yet *)
| WCallNext                  (* loop head: about to call in[i].Next(ctx) *)
| WInNext                    (* inside the up-call *)
| WSendPoll (v : Z)          (* Send: the non-blocking poll of senderDone *)
| WSendSel (v : Z)           (* Send: about to execute the four-arm select *)
| WSendParked (v : Z)        (* Send: parked in the four-arm select *)
| WCas (e : err)             (* Next failed with e: about to CompareAndSwap(&closeOnce, 0, 1) *)
| WCancel (e : err)          (* won the CAS: about to cancel() *)
| WSCloseErr (e : err)       (* about to sender.Close(e) *)
| WDefer                     (* deferred func: about to atomic.AddUint32(&nDone, 1) *)
| WLoadOnce                  (* nDone == len(in): about to atomic.LoadUint32(&closeOnce) *)
| WSCloseNil                 (* about to sender.Close(nil) *)
| WCloseIn                   (* about to call in[i].Close() *)
| WWgDone                    (* about to wg.Done() *)
| WExited
| WPanic.                    (* close of a closed channel *)

Inductive kcmd := KCNext (c : nat) | KCClose.

Inductive kpc :=
| KIdle
| KNextSel (c : nat)         (* Next(ctx c): about to execute the three-arm select *)
| KNextParked (c : nat)
| KDrain                     (* took the senderDone arm: about to poll the data channel *)
| KRet (r : nres)            (* about to return r from Next *)
| KClose1                    (* Close: about to close(streamDone) *)
| KClose2                    (* Close: about to cancel() *)
| KWait                      (* Close: in wg.Wait() *)
| KCloseRet.                 (* about to return from Close *)

Record src := mkSrc {
  s_items : list Z;          (* items still to be yielded *)
  s_fin : option Z;          (* afterwards: None = End, Some e = scripted error e *)
  s_tokens : nat;            (* Next calls the controller has released *)
  s_out : list Z;            (* ghost: items yielded so far *)
  s_closes : nat             (* ghost: number of Close up-calls *)
}.

Record st := mkSt {
  nw : nat;                  (* number of inputs = number of workers (constant) *)
  ws : list wpc; srcs : list src;
  merged : bool;
  ctx : bool;                (* the shared context is done *)
  sdone : bool;              (* senderDone closed *)
  serr : option err;         (* *senderErr *)
  rdone : bool;              (* streamDone closed *)
  ndone : nat; once : bool; wg : nat;
  kctxs : list cstate; kprog : list kcmd; kgo : nat; kpc_ : kpc;
  (* ghost history *)
  recvd : list (nat * Z);    (* items the consumer received, tagged with their input *)
  winners : list (nat * err);(* workers that won the closeOnce CAS, with their error *)
  seen : list nres;          (* results returned by the consumer's Next calls *)
  sclosed : nat              (* number of close(senderDone) executed *)
}.

Inductive sarm := ACtx | AStream | ASender | AChan | APark.
Inductive narm := NACtx | NAChan (i : nat) | NASender | NAPark.

Inductive lab :=
(* visible *)
| LMerge
| LSrcEnter (i : nat) | LSrcExit (i : nat) (r : sres) | LSrcClose (i : nat)
| LRelease (i k : nat) | LGo (k : nat)
| LCallNext (c : nat) | LRetNext (r : nres) | LCallClose | LRetClose
| LCancel (c : nat)
| LQuiesce (alive : nat)
(* internal *)
| TSendPoll (i : nat) | TSendSel (i : nat) (a : sarm)
| TCas (i : nat) | TWCancel (i : nat) | TSCloseErr (i : nat)
| TDefer (i : nat) | TLoadOnce (i : nat) | TSCloseNil (i : nat) | TWgDone (i : nat)
| TNextSel (a : narm) | TDrain (o : option nat)
| TCancelEff (c : nat)
| TKClose1 | TKClose2 | TKWait.

Definition err_eqb (a b : err) : bool :=
  match a, b with
  | EScr x, EScr y => Z.eqb x y
  | ECtx, ECtx | EClosedPipe, EClosedPipe => true
  | _, _ => false
  end.
Definition sres_eqb (a b : sres) : bool :=
  match a, b with
  | SRItem x, SRItem y => Z.eqb x y
  | SREnd, SREnd => true
  | SRErr x, SRErr y => err_eqb x y
  | _, _ => false
  end.
Definition nres_eqb (a b : nres) : bool :=
  match a, b with
  | NItem x, NItem y => Z.eqb x y
  | NEnd, NEnd => true
  | NErr x, NErr y => err_eqb x y
  | _, _ => false
  end.
(* ---- setters ---- *)
Definition with_ws (s : st) (x : list wpc) : st :=
  mkSt (nw s) x (srcs s) (merged s) (ctx s) (sdone s) (serr s) (rdone s) (ndone s) (once s) (wg s)
       (kctxs s) (kprog s) (kgo s) (kpc_ s) (recvd s) (winners s) (seen s) (sclosed s).
Definition with_srcs (s : st) (x : list src) : st :=
  mkSt (nw s) (ws s) x (merged s) (ctx s) (sdone s) (serr s) (rdone s) (ndone s) (once s) (wg s)
       (kctxs s) (kprog s) (kgo s) (kpc_ s) (recvd s) (winners s) (seen s) (sclosed s).
Definition with_merged (s : st) (wgv : nat) : st :=
  mkSt (nw s) (ws s) (srcs s) true (ctx s) (sdone s) (serr s) (rdone s) (ndone s) (once s) wgv
       (kctxs s) (kprog s) (kgo s) (kpc_ s) (recvd s) (winners s) (seen s) (sclosed s).
Definition with_ctx (s : st) : st :=
  mkSt (nw s) (ws s) (srcs s) (merged s) true (sdone s) (serr s) (rdone s) (ndone s) (once s) (wg s)
       (kctxs s) (kprog s) (kgo s) (kpc_ s) (recvd s) (winners s) (seen s) (sclosed s).
Definition with_sender_closed (s : st) (e : option err) : st :=
  mkSt (nw s) (ws s) (srcs s) (merged s) (ctx s) true e (rdone s) (ndone s) (once s) (wg s)
       (kctxs s) (kprog s) (kgo s) (kpc_ s) (recvd s) (winners s) (seen s) (S (sclosed s)).
Definition with_rdone (s : st) : st :=
  mkSt (nw s) (ws s) (srcs s) (merged s) (ctx s) (sdone s) (serr s) true (ndone s) (once s) (wg s)
       (kctxs s) (kprog s) (kgo s) (kpc_ s) (recvd s) (winners s) (seen s) (sclosed s).
Definition with_ndone (s : st) (x : nat) : st :=
  mkSt (nw s) (ws s) (srcs s) (merged s) (ctx s) (sdone s) (serr s) (rdone s) x (once s) (wg s)
       (kctxs s) (kprog s) (kgo s) (kpc_ s) (recvd s) (winners s) (seen s) (sclosed s).
Definition with_once (s : st) (w : nat * err) : st :=
  mkSt (nw s) (ws s) (srcs s) (merged s) (ctx s) (sdone s) (serr s) (rdone s) (ndone s) true (wg s)
       (kctxs s) (kprog s) (kgo s) (kpc_ s) (recvd s) (winners s ++ [w]) (seen s) (sclosed s).
Definition with_wg (s : st) (x : nat) : st :=
  mkSt (nw s) (ws s) (srcs s) (merged s) (ctx s) (sdone s) (serr s) (rdone s) (ndone s) (once s) x
       (kctxs s) (kprog s) (kgo s) (kpc_ s) (recvd s) (winners s) (seen s) (sclosed s).
Definition with_kctxs (s : st) (x : list cstate) : st :=
  mkSt (nw s) (ws s) (srcs s) (merged s) (ctx s) (sdone s) (serr s) (rdone s) (ndone s) (once s) (wg s)
       x (kprog s) (kgo s) (kpc_ s) (recvd s) (winners s) (seen s) (sclosed s).
Definition with_k (s : st) (prog : list kcmd) (g : nat) (p : kpc) : st :=
  mkSt (nw s) (ws s) (srcs s) (merged s) (ctx s) (sdone s) (serr s) (rdone s) (ndone s) (once s) (wg s)
       (kctxs s) prog g p (recvd s) (winners s) (seen s) (sclosed s).
Definition with_kpc (s : st) (p : kpc) : st := with_k s (kprog s) (kgo s) p.
Definition with_recvd (s : st) (x : nat * Z) : st :=
  mkSt (nw s) (ws s) (srcs s) (merged s) (ctx s) (sdone s) (serr s) (rdone s) (ndone s) (once s) (wg s)
       (kctxs s) (kprog s) (kgo s) (kpc_ s) (recvd s ++ [x]) (winners s) (seen s) (sclosed s).
Definition with_seen (s : st) (r : nres) : st :=
  mkSt (nw s) (ws s) (srcs s) (merged s) (ctx s) (sdone s) (serr s) (rdone s) (ndone s) (once s) (wg s)
       (kctxs s) (kprog s) (kgo s) (kpc_ s) (recvd s) (winners s) (seen s ++ [r]) (sclosed s).

Definition setw (s : st) (i : nat) (p : wpc) : st := with_ws s (upd (ws s) i p).

(* what Send returns once senderDone is closed: *senderErr, nil included *)
Definition after_sender_done (e : option err) : wpc :=
  match e with Some _ => WDefer | None => WCallNext end.

(* a parked Send completed by cancel() or close(streamDone) returns an error ... *)
Definition wake_err (p : wpc) : wpc := match p with WSendParked _ => WDefer | _ => p end.
(* ... completed by close(senderDone) it returns *senderErr *)
Definition wake_sender (e : option err) (p : wpc) : wpc :=
  match p with WSendParked _ => after_sender_done e | _ => p end.
(* the consumer parked in Next is completed by close(senderDone): it goes on to the drain *)
Definition wake_k_sender (p : kpc) : kpc := match p with KNextParked _ => KDrain | _ => p end.

Definition is_parked (p : wpc) : bool := match p with WSendParked _ => true | _ => false end.

Definition kctx_done (s : st) (c : nat) : bool :=
  match nth_error (kctxs s) c with Some CDone => true | _ => false end.

Definition k_parked (s : st) : bool := match kpc_ s with KNextParked _ => true | _ => false end.

Definition close_sender (s : st) (i : nat) (e : option err) (next : wpc) : st :=
  if sdone s then setw s i WPanic
  else let s1 := with_sender_closed s e in
       let s2 := with_ws s1 (map (wake_sender e) (ws s1)) in
       setw (with_kpc s2 (wake_k_sender (kpc_ s2))) i next.

Definition step (s : st) (l : lab) : option st :=
  match l with
  | LMerge =>
      if merged s then None
      else Some (with_merged (with_ws s (map (fun _ => WCallNext) (ws s))) (nw s))
  | LSrcEnter i =>
      match nth_error (ws s) i with
      | Some WCallNext => Some (setw s i WInNext)
      | _ => None
      end
  | LSrcExit i r =>
      match nth_error (ws s) i, nth_error (srcs s) i with
      | Some WInNext, Some x =>
          match r with
          | SRErr ECtx => if ctx s then Some (setw s i (WCas ECtx)) else None
          | _ =>
              match s_tokens x with
              | O => None
              | S t =>
                  match s_items x, s_fin x, r with
                  | v :: rest, _, SRItem v' =>
                      if Z.eqb v v'
                      then Some (setw (with_srcs s (upd (srcs s) i (mkSrc rest (s_fin x) t (s_out x ++ [v]) (s_closes x))))
                                      i (WSendPoll v))
                      else None
                  | [], None, SREnd =>
                      Some (setw (with_srcs s (upd (srcs s) i (mkSrc [] None t (s_out x) (s_closes x)))) i WDefer)
                  | [], Some e, SRErr (EScr e') =>
                      if Z.eqb e e'
                      then Some (setw (with_srcs s (upd (srcs s) i (mkSrc [] (Some e) t (s_out x) (s_closes x))))
                                      i (WCas (EScr e)))
                      else None
                  | _, _, _ => None
                  end
              end
          end
      | _, _ => None
      end
  | TSendPoll i =>
      match nth_error (ws s) i with
      | Some (WSendPoll v) =>
          Some (setw s i (if sdone s then after_sender_done (serr s) else WSendSel v))
      | _ => None
      end
  | TSendSel i a =>
      match nth_error (ws s) i with
      | Some (WSendSel v) =>
          match a with
          | ACtx => if ctx s then Some (setw s i WDefer) else None
          | AStream => if rdone s then Some (setw s i WDefer) else None
          | ASender => if sdone s then Some (setw s i (after_sender_done (serr s))) else None
          | AChan => if k_parked s
                     then Some (setw (with_recvd (with_kpc s (KRet (NItem v))) (i, v)) i WCallNext)
                     else None
          | APark => if ctx s || rdone s || sdone s || k_parked s then None
                     else Some (setw s i (WSendParked v))
          end
      | _ => None
      end
  | TCas i =>
      match nth_error (ws s) i with
      | Some (WCas e) =>
          if once s then Some (setw s i WDefer)
          else Some (setw (with_once s (i, e)) i (WCancel e))
      | _ => None
      end
  | TWCancel i =>
      match nth_error (ws s) i with
      | Some (WCancel e) =>
          let s1 := with_ctx s in
          Some (setw (with_ws s1 (map wake_err (ws s1))) i (WSCloseErr e))
      | _ => None
      end
  | TSCloseErr i =>
      match nth_error (ws s) i with
      | Some (WSCloseErr e) => Some (close_sender s i (Some e) WDefer)
      | _ => None
      end
  | TDefer i =>
      match nth_error (ws s) i with
      | Some WDefer =>
          let nd := S (ndone s) in
          Some (setw (with_ndone s nd) i (if Nat.eqb nd (nw s) then WLoadOnce else WCloseIn))
      | _ => None
      end
  | TLoadOnce i =>
      match nth_error (ws s) i with
      | Some WLoadOnce => Some (setw s i (if once s then WCloseIn else WSCloseNil))
      | _ => None
      end
  | TSCloseNil i =>
      match nth_error (ws s) i with
      | Some WSCloseNil => Some (close_sender s i None WCloseIn)
      | _ => None
      end
  | LSrcClose i =>
      match nth_error (ws s) i, nth_error (srcs s) i with
      | Some WCloseIn, Some x =>
          Some (setw (with_srcs s (upd (srcs s) i (mkSrc (s_items x) (s_fin x) (s_tokens x) (s_out x) (S (s_closes x)))))
                     i WWgDone)
      | _, _ => None
      end
  | TWgDone i =>
      match nth_error (ws s) i with
      | Some WWgDone => Some (setw (with_wg s (pred (wg s))) i WExited)
      | _ => None
      end
  | LRelease i k =>
      match nth_error (srcs s) i with
      | Some x => Some (with_srcs s (upd (srcs s) i (mkSrc (s_items x) (s_fin x) (s_tokens x + k) (s_out x) (s_closes x))))
      | None => None
      end
  | LGo k => if merged s then Some (with_k s (kprog s) (kgo s + k) (kpc_ s)) else None
  | LCallNext c =>
      match kpc_ s, kgo s, kprog s with
      | KIdle, S g, KCNext c' :: rest =>
          if Nat.eqb c c' && merged s && negb (rdone s)
          then Some (with_k s rest g (match ws s with [] => KRet NEnd | _ => KNextSel c end))
          else None
      | _, _, _ => None
      end
  | TNextSel a =>
      match kpc_ s with
      | KNextSel c =>
          match a with
          | NACtx => if kctx_done s c then Some (with_kpc s (KRet (NErr ECtx))) else None
          | NAChan i =>
              match nth_error (ws s) i with
              | Some (WSendParked v) => Some (setw (with_recvd (with_kpc s (KRet (NItem v))) (i, v)) i WCallNext)
              | _ => None
              end
          | NASender => if sdone s then Some (with_kpc s KDrain) else None
          | NAPark => if kctx_done s c || sdone s || existsb is_parked (ws s) then None
                      else Some (with_kpc s (KNextParked c))
          end
      | _ => None
      end
  | TDrain o =>
      match kpc_ s with
      | KDrain =>
          match o with
          | Some i =>
              match nth_error (ws s) i with
              | Some (WSendParked v) => Some (setw (with_recvd (with_kpc s (KRet (NItem v))) (i, v)) i WCallNext)
              | _ => None
              end
          | None =>
              if existsb is_parked (ws s) then None
              else Some (with_kpc s (KRet (match serr s with Some e => NErr e | None => NEnd end)))
          end
      | _ => None
      end
  | LRetNext r =>
      match kpc_ s with
      | KRet r' => if nres_eqb r r' then Some (with_seen (with_kpc s KIdle) r') else None
      | _ => None
      end
  | LCallClose =>
      match kpc_ s, kgo s, kprog s with
      | KIdle, S g, KCClose :: rest =>
          if merged s && negb (rdone s)
          then Some (with_k s rest g (match ws s with [] => KCloseRet | _ => KClose1 end))
          else None
      | _, _, _ => None
      end
  | TKClose1 =>
      match kpc_ s with
      | KClose1 => let s1 := with_rdone s in
                   Some (with_kpc (with_ws s1 (map wake_err (ws s1))) KClose2)
      | _ => None
      end
  | TKClose2 =>
      match kpc_ s with
      | KClose2 => let s1 := with_ctx s in
                   Some (with_kpc (with_ws s1 (map wake_err (ws s1))) KWait)
      | _ => None
      end
  | TKWait =>
      match kpc_ s, wg s with
      | KWait, O => Some (with_kpc s KCloseRet)
      | _, _ => None
      end
  | LRetClose =>
      match kpc_ s with
      | KCloseRet => Some (with_kpc (match ws s with [] => with_rdone s | _ => s end) KIdle)
      | _ => None
      end
  | LCancel c =>
      match nth_error (kctxs s) c with
      | Some CLive => Some (with_kctxs s (upd (kctxs s) c CReq))
      | Some _ => Some s
      | None => None
      end
  | TCancelEff c =>
      match nth_error (kctxs s) c with
      | Some CReq =>
          let s1 := with_kctxs s (upd (kctxs s) c CDone) in
          Some (match kpc_ s with
                | KNextParked c' => if Nat.eqb c c' then with_kpc s1 (KRet (NErr ECtx)) else s1
                | _ => s1
                end)
      | _ => None
      end
  | LQuiesce _ => None
  end.

(* ---- label enumeration ---- *)
Definition worker_taus (i : nat) : list lab :=
  [TSendPoll i; TSendSel i ACtx; TSendSel i AStream; TSendSel i ASender; TSendSel i AChan; TSendSel i APark;
   TCas i; TWCancel i; TSCloseErr i; TDefer i; TLoadOnce i; TSCloseNil i; TWgDone i].
Definition consumer_taus (s : st) : list lab :=
  [TNextSel NACtx; TNextSel NASender; TNextSel NAPark; TDrain None; TKClose1; TKClose2; TKWait]
  ++ flat_map (fun i => [TNextSel (NAChan i); TDrain (Some i)]) (seq 0 (nw s)).
Definition tau_labels (s : st) : list lab :=
  flat_map worker_taus (seq 0 (nw s)) ++ consumer_taus s ++ map TCancelEff (seq 0 (length (kctxs s))).

(* the up-call events worker i can emit *)
Definition worker_visible (s : st) (i : nat) : list lab :=
  [LSrcEnter i; LSrcClose i; LSrcExit i (SRErr ECtx); LSrcExit i SREnd]
  ++ match nth_error (srcs s) i with
     | Some x => match s_items x, s_fin x with
                 | v :: _, _ => [LSrcExit i (SRItem v)]
                 | [], Some e => [LSrcExit i (SRErr (EScr e))]
                 | [], None => []
                 end
     | None => []
     end.
Definition consumer_visible (s : st) : list lab :=
  [LCallClose; LRetClose]
  ++ match kprog s with KCNext c :: _ => [LCallNext c] | _ => [] end
  ++ match kpc_ s with KRet r => [LRetNext r] | _ => [] end.
Definition lib_visible (s : st) : list lab :=
  flat_map (worker_visible s) (seq 0 (nw s)) ++ consumer_visible s.

Definition enabled (s : st) (l : lab) : bool := match step s l with Some _ => true | None => false end.

Definition quiescent (s : st) : bool :=
  negb (existsb (enabled s) (tau_labels s)) && negb (existsb (enabled s) (lib_visible s)).

(* worker goroutines that exist: started and not finished *)
Definition w_alive (p : wpc) : bool := match p with WIdle | WExited => false | _ => true end.
Definition alive (s : st) : nat := length (filter w_alive (ws s)).

Definition qstep (s : st) (l : lab) : option st :=
  match l with
  | LQuiesce a => if quiescent s && Nat.eqb a (alive s) then Some s else None
  | _ => step s l
  end.

Definition vis (l : lab) : option lab :=
  match l with
  | LMerge | LSrcEnter _ | LSrcExit _ _ | LSrcClose _ | LRelease _ _ | LGo _
  | LCallNext _ | LRetNext _ | LCallClose | LRetClose | LCancel _ | LQuiesce _ => Some l
  | _ => None
  end.

Definition lab_eqb (a b : lab) : bool :=
  match a, b with
  | LMerge, LMerge | LCallClose, LCallClose | LRetClose, LRetClose => true
  | LSrcEnter x, LSrcEnter y | LSrcClose x, LSrcClose y | LGo x, LGo y | LCallNext x, LCallNext y
  | LCancel x, LCancel y | LQuiesce x, LQuiesce y => Nat.eqb x y
  | LSrcExit i r, LSrcExit i' r' => Nat.eqb i i' && sres_eqb r r'
  | LRelease i k, LRelease i' k' => Nat.eqb i i' && Nat.eqb k k'
  | LRetNext r, LRetNext r' => nres_eqb r r'
  | _, _ => false
  end.

Definition wpc_eqb (a b : wpc) : bool :=
  match a, b with
  | WIdle, WIdle | WCallNext, WCallNext | WInNext, WInNext | WDefer, WDefer | WLoadOnce, WLoadOnce
  | WSCloseNil, WSCloseNil | WCloseIn, WCloseIn | WWgDone, WWgDone | WExited, WExited | WPanic, WPanic => true
  | WSendPoll x, WSendPoll y | WSendSel x, WSendSel y | WSendParked x, WSendParked y => Z.eqb x y
  | WCas x, WCas y | WCancel x, WCancel y | WSCloseErr x, WSCloseErr y => err_eqb x y
  | _, _ => false
  end.
Definition kcmd_eqb (a b : kcmd) : bool :=
  match a, b with KCNext x, KCNext y => Nat.eqb x y | KCClose, KCClose => true | _, _ => false end.
Definition kpc_eqb (a b : kpc) : bool :=
  match a, b with
  | KIdle, KIdle | KDrain, KDrain | KClose1, KClose1 | KClose2, KClose2 | KWait, KWait | KCloseRet, KCloseRet => true
  | KNextSel x, KNextSel y | KNextParked x, KNextParked y => Nat.eqb x y
  | KRet x, KRet y => nres_eqb x y
  | _, _ => false
  end.
Definition cstate_eqb (a b : cstate) : bool :=
  match a, b with CLive, CLive | CReq, CReq | CDone, CDone => true | _, _ => false end.
(* real components of a source: remaining script and tokens *)
Definition src_eqb (a b : src) : bool :=
  if Nat.eqb (s_tokens a) (s_tokens b) then list_eqb Z.eqb (s_items a) (s_items b) else false.
Definition st_eqb (a b : st) : bool :=
  if kpc_eqb (kpc_ a) (kpc_ b) then
  if list_eqb wpc_eqb (ws a) (ws b) then
  if Bool.eqb (merged a) (merged b) && Bool.eqb (ctx a) (ctx b) && Bool.eqb (sdone a) (sdone b)
     && Bool.eqb (rdone a) (rdone b) && Bool.eqb (once a) (once b) then
  if Nat.eqb (ndone a) (ndone b) && Nat.eqb (wg a) (wg b) && Nat.eqb (kgo a) (kgo b) then
  if opt_eqb err_eqb (serr a) (serr b) then
  if list_eqb src_eqb (srcs a) (srcs b) then
  if list_eqb cstate_eqb (kctxs a) (kctxs b) then
  list_eqb kcmd_eqb (kprog a) (kprog b)
  else false else false else false else false else false else false else false.

(* scenario: one (items, final) script per input, the consumer's program, number of consumer contexts *)
Definition init (scripts : list (list Z * option Z)) (prog : list kcmd) (nctx : nat) : st :=
  mkSt (length scripts) (map (fun _ => WIdle) scripts)
       (map (fun p => mkSrc (fst p) (snd p) 0 [] 0) scripts)
       false false false None false 0 false 0
       (repeat CLive nctx) prog 0 KIdle [] [] [] 0.

Definition accepts_history (scripts : list (list Z * option Z)) (prog : list kcmd) (nctx : nat)
           (evs : list lab) : bool :=
  accepts qstep vis lab_eqb st_eqb tau_labels (fun _ e => [e]) 200 (init scripts prog nctx) evs.
Definition first_rejected (scripts : list (list Z * option Z)) (prog : list kcmd) (nctx : nat)
           (evs : list lab) : option nat :=
  first_reject qstep vis lab_eqb st_eqb tau_labels (fun _ e => [e]) 200
               (close qstep vis st_eqb tau_labels 200 [init scripts prog nctx]) evs O.
End SM.
