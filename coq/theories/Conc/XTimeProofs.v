(* C20 — proofs about the models of xtime.SleepContext and xtime.JitterTicker (Conc/XTime.v).
   Stdlib only, no axioms. *)
From Juniper Require Import Common.Base Conc.GoLTS Conc.XTime.
From Coq Require Import Arith PeanoNat.
Local Open Scope Z_scope.

(* boolean comparisons in hypotheses -> propositions *)
Ltac zb :=
  repeat match goal with
  | H : (_ <=? _) = true |- _ => apply Z.leb_le in H
  | H : (_ <=? _) = false |- _ => apply Z.leb_gt in H
  | H : (_ <? _) = true |- _ => apply Z.ltb_lt in H
  | H : (_ <? _) = false |- _ => apply Z.ltb_ge in H
  | H : (_ =? _) = true |- _ => apply Z.eqb_eq in H
  | H : (_ =? _) = false |- _ => apply Z.eqb_neq in H
  | H : (_ && _) = true |- _ => apply andb_true_iff in H; destruct H
  | H : (_ || _) = false |- _ => apply orb_false_iff in H; destruct H
  | H : negb _ = true |- _ => apply negb_true_iff in H
  | H : negb _ = false |- _ => apply negb_false_iff in H
  end.

(* case analysis on every match / if in the hypothesis H : <step function> = Some s' *)
Ltac dmatch H :=
  repeat match type of H with
  | context [match ?x with _ => _ end] => destruct x eqn:?; try discriminate H
  end.

(* ================================================================================ *)
(* Part 1 — SleepContext                                                            *)
(* ================================================================================ *)

(* ---- the decision function ---- *)

Lemma sleep_decide_nonpos d dl nw : d <= 0 -> sleep_decide false d dl nw = Some SNil.
Proof. intros H. unfold sleep_decide. destruct (d <=? 0) eqn:E; [reflexivity|]. zb. lia. Qed.

Lemma sleep_decide_toosoon d dl nw :
  0 < d -> (sleep_decide false d dl nw = Some STooSoon <-> exists x, dl = Some x /\ x - nw < d).
Proof.
  intros Hd. unfold sleep_decide. destruct (d <=? 0) eqn:E; zb; [lia|].
  destruct dl as [x|].
  - destruct (x - nw <? d) eqn:E2; zb; split.
    + intros _. exists x. split; [reflexivity | lia].
    + reflexivity.
    + discriminate.
    + intros [y [Hy Hlt]]. injection Hy as <-. lia.
  - split; [discriminate|]. intros [y [Hy _]]. discriminate.
Qed.

Lemma sleep_decide_wait d dl nw :
  0 < d -> (sleep_decide false d dl nw = None <-> (dl = None \/ exists x, dl = Some x /\ d <= x - nw)).
Proof.
  intros Hd. unfold sleep_decide. destruct (d <=? 0) eqn:E; zb; [lia|].
  destruct dl as [x|].
  - destruct (x - nw <? d) eqn:E2; zb; split.
    + discriminate.
    + intros [Hn | [y [Hy Hle]]]; [discriminate | injection Hy as <-; lia].
    + intros _. right. exists x. split; [reflexivity | lia].
    + reflexivity.
  - split; [intros _; left; reflexivity | reflexivity].
Qed.

(* only three outcomes: nil (d <= 0), DeadlineTooSoonError, or go on to wait *)
Lemma sleep_decide_range d dl nw r :
  sleep_decide false d dl nw = Some r -> (r = SNil /\ d <= 0) \/ (r = STooSoon /\ 0 < d).
Proof.
  unfold sleep_decide. destruct (d <=? 0) eqn:E; zb.
  - intros H. injection H as <-. left. split; [reflexivity | lia].
  - destruct dl as [x|]; [|discriminate].
    destruct (x - nw <? d); [|discriminate]. intros H. injection H as <-. right. split; [reflexivity | lia].
Qed.

(* the historical (inverted) test gets both directions wrong *)
Lemma sleep_old_refuted :
  sleep_decide true 1 (Some (0 + 1000)) 0 = Some STooSoon /\ sleep_decide false 1 (Some (0 + 1000)) 0 = None
  /\ sleep_decide true 1000 (Some (0 + 1)) 0 = None /\ sleep_decide false 1000 (Some (0 + 1)) 0 = Some STooSoon
  /\ (exists s, run sstep_old (sinit 1 (Some 1000) 0) [SLCall; STDecide; SLRet STooSoon] = Some s
                /\ spc_ s = SDone STooSoon /\ snow s = 0)
  /\ (exists s, run sstep_old (sinit 1000 (Some 1) 0)
                    [SLCall; STDecide; STArm; STPark; SLTick 1; STExpire; SLRet (SErr EDeadline)] = Some s
                /\ spc_ s = SDone (SErr EDeadline)).
Proof.
  repeat split; try (vm_compute; reflexivity).
  - eexists. split; [vm_compute; reflexivity|]. split; reflexivity.
  - eexists. split; [vm_compute; reflexivity|]. reflexivity.
Qed.

(* ---- the invariant of the LTS ---- *)

(* "not too soon" / "too soon" at the clock value read by time.Until *)
Definition nts (s : sst) : Prop := match s_dl s with Some x => s_d s <= x - stdec s | None => True end.
Definition tsoon (s : sst) : Prop := exists x, s_dl s = Some x /\ x - stdec s < s_d s.

Definition ret_ok (s : sst) (r : sres) : Prop :=
  match r with
  | SNil => (s_d s <= 0 /\ stm s = TmNone) \/ (0 < s_d s /\ sstart s + s_d s <= snow s /\ nts s)
  | STooSoon => 0 < s_d s /\ tsoon s /\ stm s = TmNone
  | SErr e => 0 < s_d s /\ sctx s = CDone e /\ nts s
  end.

Definition decided (s : sst) : Prop := sstart s <= stdec s <= snow s.

Definition pc_ok (s : sst) : Prop :=
  match spc_ s with
  | SIdle => stm s = TmNone
  | SCalled => stm s = TmNone /\ sstart s <= snow s
  | SArm => stm s = TmNone /\ 0 < s_d s /\ nts s /\ decided s
  | SSelect => 0 < s_d s /\ nts s /\ decided s
               /\ (stm s = TmFired /\ sstart s + s_d s <= snow s \/ exists x, stm s = TmArmed x /\ sstart s + s_d s <= x)
  | SParked => 0 < s_d s /\ nts s /\ decided s
               /\ (exists x, stm s = TmArmed x /\ sstart s + s_d s <= x) /\ (forall e, sctx s <> CDone e)
  | SReturning r | SDone r => ret_ok s r /\ decided s
  end.

Definition SInv (d : Z) (dl : option Z) (s : sst) : Prop := s_d s = d /\ s_dl s = dl /\ pc_ok s.

Lemma sres_eqb_eq a b : sres_eqb a b = true -> a = b.
Proof. destruct a as [| |[|]], b as [| |[|]]; simpl; intros H; try discriminate; reflexivity. Qed.

Lemma sinv_init d dl n0 : SInv d dl (sinit d dl n0).
Proof. repeat split. Qed.

Lemma sleep_decide_some_inv d dl nw r :
  sleep_decide false d dl nw = Some r ->
  (r = SNil /\ d <= 0) \/ (r = STooSoon /\ 0 < d /\ exists x, dl = Some x /\ x - nw < d).
Proof.
  intros H. destruct (sleep_decide_range _ _ _ _ H) as [[-> Hd] | [-> Hd]].
  - left. split; [reflexivity | exact Hd].
  - right. split; [reflexivity|]. split; [exact Hd|]. apply sleep_decide_toosoon; assumption.
Qed.

Lemma sleep_decide_none_inv d dl nw :
  sleep_decide false d dl nw = None -> 0 < d /\ match dl with Some x => d <= x - nw | None => True end.
Proof.
  intros H. assert (Hd : 0 < d).
  { destruct (Z_lt_le_dec 0 d) as [Hlt|Hle]; [exact Hlt|]. rewrite sleep_decide_nonpos in H by exact Hle. discriminate. }
  split; [exact Hd|]. apply sleep_decide_wait in H; [|exact Hd].
  destruct H as [-> | [x [-> Hle]]]; [exact I | exact Hle].
Qed.

Ltac sfin :=
  repeat match goal with
  | H : sres_eqb _ _ = true |- _ => apply sres_eqb_eq in H; subst
  | H : sleep_decide false _ _ _ = Some _ |- _ => apply sleep_decide_some_inv in H; destruct H as [[-> ?] | [-> [? ?]]]
  | H : sleep_decide false _ _ _ = None |- _ => apply sleep_decide_none_inv in H
  | H : exists _, _ |- _ => destruct H
  | H : _ /\ _ |- _ => destruct H
  | H : Some _ = Some _ |- _ => injection H as H; subst
  | H : TmArmed _ = TmArmed _ |- _ => injection H as H; subst
  | H : _ \/ _ |- _ => destruct H
  end; simpl;
  try solve [intuition (subst; try lia; try congruence; try discriminate; eauto)];
  try solve [repeat split; try lia; try tauto; try discriminate;
             try (right; eexists; split; [reflexivity|lia]); try (left; split; [reflexivity|lia]);
             try (eexists; split; [reflexivity|lia])].

Lemma sinv_step d dl s l s' : SInv d dl s -> sstep s l = Some s' -> SInv d dl s'.
Proof.
  intros [Hd [Hdl Hpc]] Hstep.
  destruct s as [d0 dl0 nw cx tm pc st0 td]. simpl in Hd, Hdl. subst d0 dl0.
  unfold pc_ok in Hpc. simpl in Hpc.
  destruct pc as [| | | | |r|r]; try destruct r as [| |e]; destruct dl as [x|];
  destruct l; unfold sstep, sstep_gen, ctx_done_eff, with_pc, with_tm, with_ctx in Hstep; simpl in Hstep;
    dmatch Hstep; try discriminate Hstep; injection Hstep as <-; zb;
    (split; [reflexivity|]); (split; [reflexivity|]);
    unfold pc_ok, ret_ok, nts, tsoon, decided in *; simpl in *; sfin.
Qed.

Lemma sinv_reachable d dl n0 s : reachable sstep (sinit d dl n0) s -> SInv d dl s.
Proof.
  apply (invariant_rule sstep (SInv d dl)); [apply sinv_init|].
  intros s0 l s1 Hi Hs. eapply sinv_step; eauto.
Qed.

(* what a return value of SleepContext means, over every reachable state of every scenario
   (any d, any deadline, any cancellation time, any clock behaviour) *)
Theorem sleep_returns d dl n0 s r :
  reachable sstep (sinit d dl n0) s ->
  (spc_ s = SReturning r \/ spc_ s = SDone r) ->
  (* time.Until was evaluated during the call *)
  sstart s <= stdec s <= snow s
  (* d <= 0: nil, and no timer was ever created *)
  /\ (d <= 0 -> r = SNil /\ stm s = TmNone)
  (* DeadlineTooSoonError exactly when the deadline was closer than d; no timer was created *)
  /\ (0 < d -> (r = STooSoon <-> exists x, dl = Some x /\ x - stdec s < d))
  /\ (r = STooSoon -> stm s = TmNone)
  (* nil only after at least d *)
  /\ (r = SNil -> 0 < d -> sstart s + d <= snow s)
  (* the context's error only if the context has ended, and it is that context's error *)
  /\ (forall e, r = SErr e -> sctx s = CDone e).
Proof.
  intros Hr Hpc. destruct (sinv_reachable _ _ _ _ Hr) as [Hd [Hdl Hok]].
  unfold pc_ok in Hok.
  assert (Hret : ret_ok s r /\ decided s) by (destruct Hpc as [E|E]; rewrite E in Hok; exact Hok).
  clear Hok Hpc. destruct Hret as [Hret Hdec]. unfold decided in Hdec.
  unfold ret_ok, nts, tsoon in Hret. rewrite Hd, Hdl in *.
  split; [exact Hdec|].
  destruct r as [| |e].
  - destruct Hret as [[H1 H2] | [H1 [H2 H3]]].
    + split; [intros _; split; [reflexivity | exact H2]|].
      split; [intros; lia|]. split; [discriminate|]. split; [intros; lia | discriminate].
    + split; [intros; lia|]. split.
      * intros _. split; [discriminate|]. intros [x [-> Hlt]]. lia.
      * split; [discriminate|]. split; [intros; exact H2 | discriminate].
  - destruct Hret as [H1 [[x [H2 H3]] H4]].
    split; [intros; lia|]. split; [intros _; split; [intros _; exists x; split; assumption | reflexivity]|].
    split; [intros _; exact H4|]. split; [discriminate | discriminate].
  - destruct Hret as [H1 [H2 H3]].
    split; [intros; lia|]. split.
    + intros _. split; [discriminate|]. intros [x [-> Hlt]]. lia.
    + split; [discriminate|]. split; [discriminate|]. intros e0 He. injection He as <-. exact H2.
Qed.

(* the checks at the top of SleepContext are one step and follow the decision function: the call
   returns "at once" (no timer, no select) exactly in the cases the decision function names *)
Theorem sleep_decides_at_once s :
  spc_ s = SCalled ->
  exists s', sstep s STDecide = Some s'
             /\ spc_ s' = match sleep_decide false (s_d s) (s_dl s) (snow s) with
                          | Some r => SReturning r
                          | None => SArm
                          end
             /\ stm s' = stm s /\ snow s' = snow s.
Proof.
  intros Hpc. unfold sstep, sstep_gen. rewrite Hpc. eexists. split; [reflexivity|].
  simpl. repeat split.
Qed.

(* while the call waits, its timer is pending for a deadline >= start + d (so it may fire as soon as
   the clock has advanced by d), or has fired *)
Theorem sleep_waiting_timer d dl n0 s :
  reachable sstep (sinit d dl n0) s ->
  (spc_ s = SSelect \/ spc_ s = SParked) ->
  0 < d /\ (stm s = TmFired \/ exists x, stm s = TmArmed x /\ sstart s + d <= x).
Proof.
  intros Hr Hpc. destruct (sinv_reachable _ _ _ _ Hr) as [Hd [Hdl Hok]].
  unfold pc_ok in Hok. rewrite Hd in *.
  destruct Hpc as [E|E]; rewrite E in Hok.
  - destruct Hok as [H1 [_ [_ H4]]]. split; [exact H1|].
    destruct H4 as [[Hf _] | Hx]; [left; exact Hf | right; exact Hx].
  - destruct Hok as [H1 [_ [_ [Hx _]]]]. split; [exact H1 | right; exact Hx].
Qed.

Definition timer_due (s : sst) : Prop :=
  stm s = TmFired \/ exists x, stm s = TmArmed x /\ x <= snow s.
Definition ctx_ended (s : sst) : Prop := exists e, sctx s = CDone e.

(* progress: a pending call always has an enabled step of its own goroutine / timer, except while it
   waits in the select with neither the timer due nor the context ended *)
Theorem sleep_progress d dl n0 s :
  reachable sstep (sinit d dl n0) s ->
  spc_ s <> SIdle -> (forall r, spc_ s <> SDone r) ->
  ((spc_ s = SSelect \/ spc_ s = SParked) -> timer_due s \/ ctx_ended s) ->
  exists l, In l s_call_labels /\ senabled s l = true.
Proof.
  intros Hr Hni Hnd Hw. destruct (sinv_reachable _ _ _ _ Hr) as [_ [_ Hok]].
  unfold pc_ok in Hok. unfold senabled, sstep, sstep_gen, timer_due, ctx_ended, s_call_labels in *.
  destruct (spc_ s) as [| | | | |r|r] eqn:Epc.
  - congruence.
  - exists STDecide. split; [simpl; tauto|]. reflexivity.
  - exists STArm. split; [simpl; tauto|]. reflexivity.
  - destruct (Hw (or_introl eq_refl)) as [[Hf | [x [Ha Hle]]] | [e He]].
    + exists STSelTimer. split; [simpl; tauto|]. rewrite Hf. reflexivity.
    + exists STFire. split; [simpl; tauto|]. rewrite Ha.
      destruct (x <=? snow s) eqn:E; [reflexivity | zb; lia].
    + exists STSelCtx. split; [simpl; tauto|]. rewrite He. reflexivity.
  - destruct Hok as [_ [_ [_ [[x [Ha _]] Hnc]]]].
    destruct (Hw (or_intror eq_refl)) as [[Hf | [y [Ha' Hle]]] | [e He]].
    + congruence.
    + exists STFire. split; [simpl; tauto|]. rewrite Ha'.
      destruct (y <=? snow s) eqn:E; [reflexivity | zb; lia].
    + exfalso. exact (Hnc e He).
  - exists (SLRet r). split; [destruct r as [| |[|]]; simpl; tauto|].
    assert (E : sres_eqb r r = true) by (destruct r as [| |[|]]; reflexivity). rewrite E. reflexivity.
  - exfalso. exact (Hnd r eq_refl).
Qed.

(* non-vacuity: the model runs a full sleep, a DeadlineTooSoonError, a mid-sleep cancellation and a
   deadline expiry *)
Example sleep_runs :
  (exists s, run sstep (sinit 1000 (Some 5000) 0)
               [SLTick 10; SLCall; STDecide; STArm; STPark; SLTick 1010; STFire; SLRet SNil] = Some s
             /\ spc_ s = SDone SNil /\ sstart s = 10 /\ snow s = 1010)
  /\ (exists s, run sstep (sinit 1000 (Some 500) 0) [SLCall; STDecide; SLRet STooSoon] = Some s
                /\ spc_ s = SDone STooSoon)
  /\ (exists s, run sstep (sinit 1000 None 0)
                  [SLCall; STDecide; STArm; STPark; SLTick 300; SLCancel; STCancelEff; SLRet (SErr ECanceled)] = Some s
                /\ spc_ s = SDone (SErr ECanceled))
  /\ (exists s, run sstep (sinit 1000 (Some 1500) 0)
                  [SLTick 100; SLCall; STDecide; STArm; SLTick 1500; STExpire; STSelCtx; SLRet (SErr EDeadline)] = Some s
                /\ spc_ s = SDone (SErr EDeadline))
  /\ (exists s, run sstep (sinit 0 None 0) [SLCall; STDecide; SLRet SNil] = Some s /\ spc_ s = SDone SNil).
Proof.
  repeat split; eexists; (split; [vm_compute; reflexivity|]); repeat split.
Qed.

(* ================================================================================ *)
(* Part 2 — JitterTicker                                                            *)
(* ================================================================================ *)

(* ---- list lemmas ---- *)
Lemma nth_upd_cases {A} (l : list A) k m x y :
  nth_error (upd l k x) m = Some y ->
  (m = k /\ y = x) \/ (m <> k /\ nth_error l m = Some y).
Proof.
  intros H. destruct (Nat.eq_dec m k) as [->|Hne].
  - left. split; [reflexivity|].
    destruct (lt_dec k (length l)) as [Hlt|Hge].
    + rewrite nth_error_upd_same in H by exact Hlt. congruence.
    + assert (Hn : nth_error (upd l k x) k = None) by (apply nth_error_None; rewrite upd_length; lia).
      congruence.
  - right. split; [exact Hne|]. rewrite nth_error_upd_other in H by congruence. exact H.
Qed.

Lemma nth_snoc_cases {A} (l : list A) x m y :
  nth_error (l ++ [x]) m = Some y -> nth_error l m = Some y \/ (m = length l /\ y = x).
Proof.
  intros H. destruct (lt_dec m (length l)) as [Hlt|Hge].
  - left. rewrite nth_error_app1 in H by exact Hlt. exact H.
  - right. rewrite nth_error_app2 in H by lia.
    destruct (m - length l)%nat as [|n] eqn:E.
    + simpl in H. split; [lia | congruence].
    + simpl in H. destruct n; discriminate.
Qed.

Lemma nth_lt {A} (l : list A) n x : nth_error l n = Some x -> (n < length l)%nat.
Proof. intros H. apply nth_error_Some. congruence. Qed.

(* ---- wrap64 ---- *)
Lemma wrap64_small z : - 9223372036854775808 <= z <= max_i64 -> wrap64 z = z.
Proof. unfold wrap64, max_i64. intros H. rewrite Z.mod_small by lia. lia. Qed.

(* ---- timers ---- *)
Definition same_static (tm tm' : timer) : Prop :=
  tm_gen tm' = tm_gen tm /\ tm_dl tm' = tm_dl tm /\ tm_d tm' = tm_d tm /\ tm_j tm' = tm_j tm
  /\ tm_cb tm' = tm_cb tm /\ (tm_st tm' = TArmed -> tm_st tm = TArmed).

Lemma same_static_refl tm : same_static tm tm.
Proof. repeat split; auto. Qed.

Lemma stop_timer_length tms k : length (stop_timer tms k) = length tms.
Proof.
  unfold stop_timer. destruct (nth_error tms k) as [tm|]; [|reflexivity].
  destruct (tm_st tm); try reflexivity. apply upd_length.
Qed.

Lemma stop_timer_nth tms k i tm' :
  nth_error (stop_timer tms k) i = Some tm' ->
  exists tm, nth_error tms i = Some tm /\ same_static tm tm'.
Proof.
  unfold stop_timer. destruct (nth_error tms k) as [tm0|] eqn:E.
  - destruct (tm_st tm0) eqn:Est.
    + intros H. exists tm'. split; [exact H | apply same_static_refl].
    + intros H. apply nth_upd_cases in H. destruct H as [[-> ->] | [Hne H]].
      * exists tm0. split; [exact E | repeat split; discriminate].
      * exists tm'. split; [exact H | apply same_static_refl].
    + intros H. exists tm'. split; [exact H | apply same_static_refl].
  - intros H. exists tm'. split; [exact H | apply same_static_refl].
Qed.

Definition new_timer (s : st) (nx : Z) : timer := mkTm (gen s + 1) (now s + nx) (fd s) (fj s) TArmed CbNone.

Lemma schedule_inv g s r s2 :
  schedule g s r = Some s2 ->
  exists nx tms1,
    next_delay g (fd s) (fj s) r = Some nx /\ length tms1 = length (timers s)
    /\ (forall i tm', nth_error tms1 i = Some tm' -> exists tm, nth_error (timers s) i = Some tm /\ same_static tm tm')
    /\ s2 = set_tmr (set_gen (set_timers s (tms1 ++ [new_timer s nx])) (gen s + 1)) (Some (length tms1)).
Proof.
  unfold schedule. destruct (next_delay g (fd s) (fj s) r) as [nx|]; [|discriminate].
  intros H. injection H as <-. exists nx.
  destruct (tmr s) as [k|].
  - exists (stop_timer (timers s) k). split; [reflexivity|]. split; [apply stop_timer_length|].
    split; [intros i tm' Hn; eapply stop_timer_nth; eauto | reflexivity].
  - exists (timers s). split; [reflexivity|]. split; [reflexivity|].
    split; [|reflexivity]. intros i tm' Hn. exists tm'. split; [exact Hn | apply same_static_refl].
Qed.

(* consequences in a directly usable form *)
Lemma schedule_spec g s r s2 :
  schedule g s r = Some s2 ->
  now s2 = now s /\ life s2 = life s /\ fd s2 = fd s /\ fj s2 = fj s /\ gen s2 = gen s + 1
  /\ tmr s2 = Some (length (timers s)) /\ mu s2 = mu s /\ buf s2 = buf s /\ thr s2 = thr s
  /\ sent s2 = sent s /\ recvd s2 = recvd s /\ stopped s2 = stopped s
  /\ length (timers s2) = S (length (timers s))
  /\ exists nx, next_delay g (fd s) (fj s) r = Some nx /\
       forall i tm', nth_error (timers s2) i = Some tm' ->
         (exists tm, nth_error (timers s) i = Some tm /\ same_static tm tm')
         \/ (i = length (timers s) /\ tm' = new_timer s nx).
Proof.
  intros H. destruct (schedule_inv _ _ _ _ H) as [nx [tms1 [Hnx [Hlen [Hold ->]]]]].
  simpl. repeat (split; [first [reflexivity | congruence]|]).
  split; [rewrite app_length; simpl length; lia|].
  exists nx. split; [exact Hnx|]. intros i tm' Hn.
  apply nth_snoc_cases in Hn. destruct Hn as [Hn | [-> ->]].
  - left. apply Hold. exact Hn.
  - right. split; [exact Hlen | reflexivity].
Qed.

(* ---- the two rand draws and their single-integer numbering ---- *)
Lemma draws_valid j r m b : 0 <= r < 2 * j -> draws j r = (m, b) -> 0 <= m < j.
Proof.
  intros Hr. unfold draws. destruct (r <? j) eqn:E; zb; intros H; injection H as <- <-; lia.
Qed.

Lemma draws_onto j m b : 0 <= m < j -> exists r, 0 <= r < 2 * j /\ draws j r = (m, b).
Proof.
  intros Hm. destruct b.
  - exists (j - 1 - m). split; [lia|]. unfold draws.
    destruct (j - 1 - m <? j) eqn:E; zb; [|lia]. f_equal. lia.
  - exists (j + m). split; [lia|]. unfold draws.
    destruct (j + m <? j) eqn:E; zb; [lia|]. f_equal. lia.
Qed.

Lemma draws_unique j r r' : draws j r = draws j r' -> r = r'.
Proof.
  unfold draws. destruct (r <? j) eqn:E; destruct (r' <? j) eqn:E'; zb; intros H;
    try discriminate H; injection H as H; lia.
Qed.

(* the offset produced by outcome number r is r - jitter (no int64 operation wraps) *)
Lemma draws_offset j r m b :
  0 < j <= max_i64 -> 0 <= r < 2 * j -> draws j r = (m, b) -> jitter_offset m b = r - j.
Proof.
  intros Hj Hr. unfold draws, jitter_offset, max_i64 in *.
  destruct (r <? j) eqn:E; zb; intros H; injection H as <- <-; [|reflexivity].
  rewrite (wrap64_small (- (j - 1 - r))) by (unfold max_i64; lia).
  rewrite wrap64_small by (unfold max_i64; lia). lia.
Qed.

(* the valid oracle values of the code in /repo *)
Lemma r_valid_cur_pos j r : 0 < j -> r_valid VCur j r = true -> 0 <= r < 2 * j.
Proof.
  intros Hj. cbn [r_valid]. destruct (0 <? j) eqn:E; zb; [|lia]. intros H. zb. lia.
Qed.

Lemma r_valid_cur_nonpos j r : j <= 0 -> r_valid VCur j r = true -> r = 0.
Proof.
  intros Hj. cbn [r_valid]. destruct (0 <? j) eqn:E; zb; [lia|]. intros H. zb. exact H.
Qed.

(* schedule() of the code in /repo never panics, whatever its arguments *)
Lemma next_delay_cur_some d j r : exists nx, next_delay VCur d j r = Some nx.
Proof. cbn [next_delay]. eexists. reflexivity. Qed.

Lemma next_delay_no_jitter d j r : j <= 0 -> next_delay VCur d j r = Some d.
Proof.
  intros Hj. cbn [next_delay]. destruct (draws j r) as [m b]. unfold next_cur.
  destruct (0 <? j) eqn:E; zb; [lia | reflexivity].
Qed.

(* EXACT value of the delay for int64 arguments: d + offset, saturated at math.MaxInt64 *)
Lemma next_delay_exact d j r :
  0 < j <= max_i64 -> - 9223372036854775808 <= d - j -> d <= max_i64 -> 0 <= r < 2 * j ->
  next_delay VCur d j r = Some (Z.min (d + (r - j)) max_i64).
Proof.
  intros Hj Hlo Hd Hr. cbn [next_delay]. f_equal.
  destruct (draws j r) as [m b] eqn:Edr.
  pose proof (draws_offset j r m b Hj Hr Edr) as Hoff.
  unfold next_cur. rewrite Hoff. unfold max_i64 in *.
  destruct (0 <? j) eqn:Ej; zb; [|lia].
  destruct (0 <? r - j) eqn:Eo; zb; cbn [andb].
  - rewrite (wrap64_small (9223372036854775807 - (r - j))) by (unfold max_i64; lia).
    destruct (9223372036854775807 - (r - j) <? d) eqn:Et; zb.
    + lia.
    + rewrite wrap64_small by (unfold max_i64; lia). lia.
  - rewrite wrap64_small by (unfold max_i64; lia). lia.
Qed.

(* the delay chosen by schedule() for ALL documented int64 arguments: within [d - jitter, MaxInt64],
   at most d + jitter - 1, never negative *)
Lemma next_delay_range d j r nx :
  next_delay VCur d j r = Some nx -> r_valid VCur j r = true ->
  0 <= j < d -> d <= max_i64 -> d - j <= nx /\ nx <= max_i64 /\ nx <= d + j /\ 0 < nx.
Proof.
  intros Hn Hr Hj Hd.
  destruct (Z.eq_dec j 0) as [->|Hj0].
  - rewrite next_delay_no_jitter in Hn by lia. injection Hn as <-. lia.
  - pose proof (r_valid_cur_pos j r ltac:(lia) Hr) as Hr'.
    rewrite next_delay_exact in Hn by (unfold max_i64 in *; lia). injection Hn as <-.
    unfold max_i64 in *. lia.
Qed.

Lemma next_delay_lb d j r nx :
  next_delay VCur d j r = Some nx -> r_valid VCur j r = true ->
  0 <= j < d -> d <= max_i64 -> d - j <= nx.
Proof. intros Hn Hr Hj Hd. exact (proj1 (next_delay_range d j r nx Hn Hr Hj Hd)). Qed.

(* ================= the invariant ================= *)
Definition th_holds (p : tpc) : bool := match p with PLocked _ | PUnlock _ => true | _ => false end.
Definition cb_holds (c : cbpc) : bool := match c with CbLocked | CbSched | CbUnlock => true | _ => false end.
Definition cb_pre (c : cbpc) : bool := match c with CbNone | CbWantLock | CbLocked => true | _ => false end.

Definition last_ok (snt : list (Z * Z * Z)) (tm : timer) : Prop :=
  match snt with
  | (t, _, _) :: _ => 0 <= tm_j tm < tm_d tm -> tm_d tm <= max_i64 -> t + (tm_d tm - tm_j tm) <= tm_dl tm
  | [] => True
  end.

Definition op_bad (o : op) : Prop :=
  match o with
  | ONew d j | OReset d j => bad_args d j = true
  | OStop => True
  end.

Definition optl (b : option Z) : list Z := match b with Some v => [v] | None => [] end.
Definition tick_ts (x : Z * Z * Z) : Z := fst (fst x).

Record TInv (s : st) : Prop := mkTInv {
  (* the mutex is held by exactly the goroutine whose pc says so *)
  iA1 : forall th p, nth_error (thr s) th = Some p -> th_holds p = true -> mu s = MTh th;
  iA2 : forall k tm, nth_error (timers s) k = Some tm -> cb_holds (tm_cb tm) = true -> mu s = MCb k;
  (* closures capture old generations; the one with the current generation is t.timer *)
  iG : forall k tm, nth_error (timers s) k = Some tm -> tm_gen tm <= gen s /\ (tm_gen tm = gen s -> tmr s = Some k);
  (* a callback only runs once its deadline has passed *)
  iF : forall k tm, nth_error (timers s) k = Some tm -> tm_cb tm <> CbNone -> tm_dl tm <= now s;
  iF2 : forall k tm, nth_error (timers s) k = Some tm -> tm_st tm = TArmed -> tm_cb tm = CbNone;
  iT1 : match sent s with (t, _, _) :: _ => t <= now s | [] => True end;
  iT2 : forall k tm, nth_error (timers s) k = Some tm -> tm_gen tm = gen s -> cb_pre (tm_cb tm) = true ->
                     last_ok (sent s) tm;
  iT4 : spaced (sent s);
  iR : map tick_ts (sent s) = optl (buf s) ++ recvd s;
  iS : stopped s = true -> forall k tm, nth_error (timers s) k = Some tm -> tm_gen tm < gen s /\ tm_cb tm <> CbSched;
  iN1 : forall th o, nth_error (thr s) th = Some (PPanicked o) -> op_bad o;
  iN3 : forall k tm, nth_error (timers s) k = Some tm -> tm_cb tm <> CbCrashed
}.

Lemma tinv_init n : TInv (tinit n).
Proof.
  constructor; simpl; try (intros [|k] tm H; discriminate H); try exact I; try reflexivity.
  - intros th p H Hh. apply nth_error_In in H. apply repeat_spec in H. subst p. discriminate.
  - discriminate.
  - intros th o H. apply nth_error_In in H. apply repeat_spec in H. discriminate.
Qed.

Ltac inv_step H :=
  cbv beta iota zeta delta [step step_gen] in H;
  repeat (match type of H with context [match ?x with _ => _ end] => destruct x eqn:?; try discriminate H end;
          cbv beta iota zeta in H);
  try discriminate H; injection H as <-.

(* updating one goroutine's pc *)
Lemma A1_upd (ths : list tpc) (m : owner) th p :
  (forall th' p', nth_error ths th' = Some p' -> th_holds p' = true -> m = MTh th') ->
  (th_holds p = true -> m = MTh th) ->
  forall th' p', nth_error (upd ths th p) th' = Some p' -> th_holds p' = true -> m = MTh th'.
Proof.
  intros Hold Hnew th' p' Hn Hh. apply nth_upd_cases in Hn. destruct Hn as [[-> ->] | [_ Hn]].
  - apply Hnew; exact Hh.
  - eapply Hold; eauto.
Qed.

Lemma N1_upd (ths : list tpc) th p :
  (forall th' o, nth_error ths th' = Some (PPanicked o) -> op_bad o) ->
  (forall o, p = PPanicked o -> op_bad o) ->
  forall th' o, nth_error (upd ths th p) th' = Some (PPanicked o) -> op_bad o.
Proof.
  intros Hold Hnew th' o Hn. apply nth_upd_cases in Hn. destruct Hn as [[-> Hp] | [_ Hn]].
  - apply Hnew. symmetry. exact Hp.
  - eapply Hold; eauto.
Qed.


Ltac dI I := destruct I as [A1 A2 G F F2 T1 T2 T4 R S N1 N3].

Lemma tinv_LTick s t s' : TInv s -> step s (LTick t) = Some s' -> TInv s'.
Proof.
  intros I H. inv_step H. zb. dI I. constructor; simpl; try assumption.
  - intros k tm Hn Hc. specialize (F k tm Hn Hc). lia.
  - destruct (sent s) as [|[[t0 d0] j0] tl]; [exact I | lia].
Qed.

(* ---- primitive state changes ---- *)
Lemma tinv_set_pc s th p :
  TInv s -> (th_holds p = true -> mu s = MTh th) -> (forall o, p = PPanicked o -> op_bad o) ->
  TInv (set_pc s th p).
Proof.
  intros I Hh Hp. dI I. constructor; simpl; try assumption.
  - apply A1_upd; assumption.
  - apply N1_upd; assumption.
Qed.

Lemma tinv_set_life s x : TInv s -> TInv (set_life s x).
Proof. intros I. dI I. constructor; simpl; assumption. Qed.

Lemma tinv_acquire s m : TInv s -> mu s = MFree -> TInv (set_mu s m).
Proof.
  intros I Hm. dI I. constructor; simpl; try assumption.
  - intros th p Hn Hh. specialize (A1 th p Hn Hh). congruence.
  - intros k tm Hn Hh. specialize (A2 k tm Hn Hh). congruence.
Qed.

Lemma tinv_release s m :
  TInv s ->
  (forall th p, nth_error (thr s) th = Some p -> th_holds p = false) ->
  (forall k tm, nth_error (timers s) k = Some tm -> cb_holds (tm_cb tm) = false) ->
  TInv (set_mu s m).
Proof.
  intros I Hth Hcb. dI I. constructor; simpl; try assumption.
  - intros th p Hn Hh. rewrite (Hth th p Hn) in Hh. discriminate.
  - intros k tm Hn Hh. rewrite (Hcb k tm Hn) in Hh. discriminate.
Qed.

Definition tm_with (tm : timer) (st' : tmst) (c : cbpc) : timer :=
  mkTm (tm_gen tm) (tm_dl tm) (tm_d tm) (tm_j tm) st' c.

Lemma tinv_set_cb s k tm st' c :
  TInv s -> nth_error (timers s) k = Some tm ->
  (cb_holds c = true -> mu s = MCb k) ->
  (c <> CbNone -> tm_dl tm <= now s) ->
  (st' = TArmed -> c = CbNone) ->
  (cb_pre c = true -> cb_pre (tm_cb tm) = true) ->
  (stopped s = true -> c <> CbSched) ->
  c <> CbCrashed ->
  TInv (set_tm s k (tm_with tm st' c)).
Proof.
  intros I Hk HA HF HF2 HT HS HN. dI I. constructor; simpl; try assumption.
  - intros k' tm' Hn Hh. apply nth_upd_cases in Hn. destruct Hn as [[-> ->] | [_ Hn]]; [apply HA; exact Hh | eauto].
  - intros k' tm' Hn. apply nth_upd_cases in Hn. destruct Hn as [[-> ->] | [_ Hn]]; [exact (G k tm Hk) | eauto].
  - intros k' tm' Hn Hc. apply nth_upd_cases in Hn. destruct Hn as [[-> ->] | [_ Hn]]; [apply HF; exact Hc | eauto].
  - intros k' tm' Hn Hc. apply nth_upd_cases in Hn. destruct Hn as [[-> ->] | [_ Hn]]; [apply HF2; exact Hc | eauto].
  - intros k' tm' Hn Hg Hp. apply nth_upd_cases in Hn. destruct Hn as [[-> ->] | [_ Hn]]; [|eauto].
    simpl in *. specialize (T2 k tm Hk Hg (HT Hp)). exact T2.
  - intros Hs k' tm' Hn. apply nth_upd_cases in Hn. destruct Hn as [[-> ->] | [_ Hn]]; [|eauto].
    simpl. split; [exact (proj1 (S Hs k tm Hk)) | exact (HS Hs)].
  - intros k' tm' Hn. apply nth_upd_cases in Hn. destruct Hn as [[-> ->] | [_ Hn]]; [exact HN | eauto].
Qed.

Lemma tm_with_cb tm c : tm_set_cb tm c = tm_with tm (tm_st tm) c.
Proof. reflexivity. Qed.

Lemma schedule_cur_some s r : schedule VCur s r <> None.
Proof. unfold schedule. cbn [next_delay]. discriminate. Qed.

(* schedule() after the fields were set to (d, j), executed by the holder of the mutex *)
Lemma tinv_sched s d j r s2 :
  TInv s -> schedule VCur (set_fj (set_fd s d) j) r = Some s2 -> r_valid VCur j r = true ->
  TInv (set_stopped s2 false).
Proof.
  intros I Hs Hr. dI I. apply schedule_spec in Hs. simpl in Hs.
  destruct Hs as (Enow & Elife & Efd & Efj & Egen & Etmr & Emu & Ebuf & Ethr & Esent & Erecvd & Estopped & Elen & nx & Hnx & Htm).
  constructor; simpl; try discriminate.
  - rewrite Ethr, Emu. exact A1.
  - rewrite Emu. intros k tm' Hn Hh. destruct (Htm k tm' Hn) as [[tm [Hn0 Hss]] | [-> ->]].
    + destruct Hss as [_ [_ [_ [_ [Ecb _]]]]]. rewrite Ecb in Hh. eauto.
    + discriminate Hh.
  - rewrite Egen, Etmr. intros k tm' Hn. destruct (Htm k tm' Hn) as [[tm [Hn0 Hss]] | [-> ->]].
    + destruct Hss as [Eg _]. rewrite Eg. destruct (G k tm Hn0) as [Hle _]. split; [lia | intros; lia].
    + simpl. split; [lia | reflexivity].
  - rewrite Enow. intros k tm' Hn Hc. destruct (Htm k tm' Hn) as [[tm [Hn0 Hss]] | [-> ->]].
    + destruct Hss as [_ [Edl [_ [_ [Ecb _]]]]]. rewrite Edl. rewrite Ecb in Hc. eauto.
    + exfalso. apply Hc. reflexivity.
  - intros k tm' Hn Hc. destruct (Htm k tm' Hn) as [[tm [Hn0 Hss]] | [-> ->]].
    + destruct Hss as [_ [_ [_ [_ [Ecb Est]]]]]. rewrite Ecb. eauto.
    + reflexivity.
  - rewrite Esent, Enow. exact T1.
  - rewrite Egen, Esent. intros k tm' Hn Hg Hp. destruct (Htm k tm' Hn) as [[tm [Hn0 Hss]] | [-> ->]].
    + destruct Hss as [Eg _]. rewrite Eg in Hg. destruct (G k tm Hn0) as [Hle _]. lia.
    + unfold last_ok. destruct (sent s) as [|[[t0 d0] j0] tl]; [exact I|]. simpl.
      intros Hj Hmax. pose proof (next_delay_lb _ _ _ _ Hnx Hr Hj Hmax). lia.
  - rewrite Esent. exact T4.
  - rewrite Esent, Ebuf, Erecvd. exact R.
  - rewrite Ethr. exact N1.
  - intros k tm' Hn. destruct (Htm k tm' Hn) as [[tm [Hn0 Hss]] | [-> ->]].
    + destruct Hss as [_ [_ [_ [_ [Ecb _]]]]]. rewrite Ecb. eauto.
    + discriminate.
Qed.

Lemma st_eta_fields s : set_fj (set_fd s (fd s)) (fj s) = s.
Proof. destruct s; reflexivity. Qed.

Lemma st_eta_stopped s : stopped s = false -> set_stopped s false = s.
Proof. destruct s; simpl; intros ->; reflexivity. Qed.

(* ---- per-label preservation ---- *)
Lemma tinv_LCall s th o s' : TInv s -> step s (LCall th o) = Some s' -> TInv s'.
Proof.
  intros I H. inv_step H; apply tinv_set_pc; try discriminate; try apply tinv_set_life; exact I.
Qed.

Lemma tinv_TValidate s th s' : TInv s -> step s (TValidate th) = Some s' -> TInv s'.
Proof.
  intros I H. inv_step H; apply tinv_set_pc; try discriminate; try apply tinv_set_life; try exact I.
  - intros o0 E. injection E as <-. simpl. assumption.
  - intros o0 E. injection E as <-. simpl. assumption.
Qed.

Lemma tinv_TLock s th s' : TInv s -> step s (TLock th) = Some s' -> TInv s'.
Proof.
  intros I H. inv_step H. apply tinv_set_pc; [apply tinv_acquire; assumption | reflexivity | discriminate].
Qed.

Lemma tinv_LRet s th o r s' : TInv s -> step s (LRet th o r) = Some s' -> TInv s'.
Proof.
  intros I H. inv_step H; apply tinv_set_pc; try discriminate; try apply tinv_set_life; exact I.
Qed.

Lemma tinv_LRecv s v s' : TInv s -> step s (LRecv v) = Some s' -> TInv s'.
Proof.
  intros I H. inv_step H. zb. subst. dI I. constructor; simpl; try assumption.
  match goal with E : buf s = Some _ |- _ => rewrite E in R end. exact R.
Qed.

Lemma tinv_TUnlock s th s' : TInv s -> step s (TUnlock th) = Some s' -> TInv s'.
Proof.
  intros I H. inv_step H.
  match goal with E : nth_error (thr s) th = Some (PUnlock ?o) |- _ => rename E into Hth; set (o0 := o) in * end.
  assert (Hmu : mu s = MTh th) by (eapply (iA1 s I); [exact Hth | reflexivity]).
  change (TInv (set_mu (set_pc s th (PReturning o0)) MFree)).
  apply tinv_release.
  - apply tinv_set_pc; [exact I | discriminate | discriminate].
  - simpl. intros th' p' Hn. apply nth_upd_cases in Hn. destruct Hn as [[-> ->] | [Hne Hn]]; [reflexivity|].
    destruct (th_holds p') eqn:E; [|reflexivity]. pose proof (iA1 s I th' p' Hn E) as H2.
    rewrite Hmu in H2. injection H2 as H2. congruence.
  - simpl. intros k tm Hn. destruct (cb_holds (tm_cb tm)) eqn:E; [|reflexivity].
    pose proof (iA2 s I k tm Hn E) as H2. congruence.
Qed.

Lemma tinv_TFire s k s' : TInv s -> step s (TFire k) = Some s' -> TInv s'.
Proof.
  intros I H. inv_step H. zb.
  match goal with E : nth_error (timers s) k = Some ?t |- _ => rename E into Hk; set (tm := t) in * end.
  change (TInv (set_tm s k (tm_with tm TFired CbWantLock))).
  assert (Ecb : tm_cb tm = CbNone) by (eapply (iF2 s I); eauto).
  apply tinv_set_cb; try assumption; try discriminate.
  - intros _. assumption.
  - intros _. rewrite Ecb. reflexivity.
Qed.

Lemma tinv_TCbLock s k s' : TInv s -> step s (TCbLock k) = Some s' -> TInv s'.
Proof.
  intros I H. inv_step H.
  match goal with E : nth_error (timers s) k = Some ?t |- _ => rename E into Hk; set (tm := t) in * end.
  match goal with E : tm_cb tm = CbWantLock |- _ => rename E into Ecb end.
  change (TInv (set_tm (set_mu s (MCb k)) k (tm_with tm (tm_st tm) CbLocked))).
  apply tinv_set_cb; try discriminate.
  - apply tinv_acquire; assumption.
  - exact Hk.
  - reflexivity.
  - intros _. simpl. apply (iF s I k tm Hk). rewrite Ecb. discriminate.
  - intros Hst. pose proof (iF2 s I k tm Hk Hst). congruence.
  - intros _. rewrite Ecb. reflexivity.
Qed.

Lemma tinv_TCbUnlock s k s' : TInv s -> step s (TCbUnlock k) = Some s' -> TInv s'.
Proof.
  intros I H. inv_step H.
  match goal with E : nth_error (timers s) k = Some ?t |- _ => rename E into Hk; set (tm := t) in * end.
  match goal with E : tm_cb tm = CbUnlock |- _ => rename E into Ecb end.
  assert (Hmu : mu s = MCb k) by (eapply (iA2 s I); [exact Hk | rewrite Ecb; reflexivity]).
  change (TInv (set_mu (set_tm s k (tm_with tm (tm_st tm) CbDone)) MFree)).
  apply tinv_release.
  - apply tinv_set_cb; try assumption; try discriminate.
    + intros _. apply (iF s I k tm Hk). rewrite Ecb. discriminate.
    + intros Hst. pose proof (iF2 s I k tm Hk Hst). congruence.
  - simpl. intros th p Hn. destruct (th_holds p) eqn:E; [|reflexivity].
    pose proof (iA1 s I th p Hn E). congruence.
  - simpl. intros k' tm' Hn. apply nth_upd_cases in Hn. destruct Hn as [[-> ->] | [Hne Hn]]; [reflexivity|].
    destruct (cb_holds (tm_cb tm')) eqn:E; [|reflexivity].
    pose proof (iA2 s I k' tm' Hn E) as H2. rewrite Hmu in H2. injection H2 as H2. congruence.
Qed.

Ltac cbsend_pre s k I :=
  match goal with E : nth_error (timers s) k = Some ?t |- _ =>
    match goal with E2 : tm_cb t = CbLocked |- _ =>
      assert (Hmu : mu s = MCb k) by (eapply (iA2 s I); [exact E | rewrite E2; reflexivity]);
      assert (Hdl : tm_dl t <= now s) by (apply (iF s I k t E); rewrite E2; discriminate);
      assert (Hst : tm_st t = TArmed -> CbLocked = CbNone)
        by (let X := fresh in intros X; pose proof (iF2 s I k t E X); congruence);
      rename E into Hk; rename E2 into Ecb; rename t into tm
    end
  end.

Lemma tinv_TCbSend s k s' : TInv s -> step s (TCbSend k) = Some s' -> TInv s'.
Proof.
  intros I H. inv_step H; zb; cbsend_pre s k I.
  - (* generation matches, tick dropped (buffer full) *)
    match goal with E : gen s = tm_gen tm |- _ => rename E into Hg end.
    change (TInv (set_tm s k (tm_with tm (tm_st tm) CbSched))).
    apply tinv_set_cb; try assumption; try discriminate; try (intros _; assumption).
    + intros X. specialize (Hst X). discriminate.
    + intros Hs. destruct (iS s I Hs k tm Hk). lia.
  - (* generation matches, tick sent *)
    match goal with E : gen s = tm_gen tm |- _ => rename E into Hg end.
    match goal with E : buf s = None |- _ => rename E into Hb end.
    assert (Hns : stopped s = true -> False) by (intros Hs; destruct (iS s I Hs k tm Hk); lia).
    dI I. constructor; simpl; try assumption.
    + intros k' tm' Hn Hh. apply nth_upd_cases in Hn. destruct Hn as [[-> ->] | [_ Hn]]; [exact Hmu | eauto].
    + intros k' tm' Hn. apply nth_upd_cases in Hn. destruct Hn as [[-> ->] | [_ Hn]]; [exact (G k tm Hk) | eauto].
    + intros k' tm' Hn Hc. apply nth_upd_cases in Hn. destruct Hn as [[-> ->] | [_ Hn]]; [exact Hdl | eauto].
    + intros k' tm' Hn Hc. apply nth_upd_cases in Hn. destruct Hn as [[-> ->] | [_ Hn]]; [|eauto].
      simpl in Hc. pose proof (Hst Hc). discriminate.
    + lia.
    + intros k' tm' Hn Hg' Hp. apply nth_upd_cases in Hn. destruct Hn as [[-> ->] | [Hne Hn]]; [discriminate Hp|].
      exfalso. destruct (G k' tm' Hn) as [_ Hx]. destruct (G k tm Hk) as [_ Hy].
      specialize (Hx Hg'). specialize (Hy (eq_sym Hg)). congruence.
    + destruct (sent s) as [|[[t1 d1] j1] tl] eqn:Es; [exact I|]. split; [|exact T4].
      intros Hj Hmax. assert (Hp : cb_pre (tm_cb tm) = true) by (rewrite Ecb; reflexivity).
      pose proof (T2 k tm Hk (eq_sym Hg) Hp) as Hl. unfold last_ok in Hl. specialize (Hl Hj Hmax). lia.
    + rewrite Hb in R. simpl in R. unfold tick_ts at 1. simpl. rewrite R. reflexivity.
    + intros Hs. exfalso. exact (Hns Hs).
    + intros k' tm' Hn. apply nth_upd_cases in Hn. destruct Hn as [[-> ->] | [_ Hn]]; [discriminate | eauto].
  - (* generation differs: the callback does nothing *)
    change (TInv (set_tm s k (tm_with tm (tm_st tm) CbUnlock))).
    apply tinv_set_cb; try assumption; try discriminate; try (intros _; assumption).
    intros X. specialize (Hst X). discriminate.
Qed.

Lemma tinv_TCbSchedule s k r s' : TInv s -> step s (TCbSchedule k r) = Some s' -> TInv s'.
Proof.
  intros I H. inv_step H.
  - (* schedule succeeded *)
    match goal with E : nth_error (timers s) k = Some ?t |- _ => rename E into Hk; rename t into tm end.
    match goal with E : tm_cb tm = CbSched |- _ => rename E into Ecb end.
    match goal with E : schedule VCur s r = Some ?x |- _ => rename E into Hs; rename x into s2 end.
    match goal with E : nth_error (timers s2) k = Some ?t |- _ => rename E into Hk2; rename t into tm2 end.
    match goal with E : r_valid VCur (fj s) r = true |- _ => rename E into Hr end.
    assert (Hmu : mu s = MCb k) by (eapply (iA2 s I); [exact Hk | rewrite Ecb; reflexivity]).
    assert (Hns : stopped s = false).
    { destruct (stopped s) eqn:E; [|reflexivity]. destruct (iS s I E k tm Hk) as [_ Hx]. congruence. }
    assert (I2 : TInv s2).
    { rewrite <- (st_eta_fields s) in Hs. pose proof (tinv_sched _ _ _ _ _ I Hs Hr) as I2.
      rewrite st_eta_stopped in I2; [exact I2|].
      apply schedule_spec in Hs. simpl in Hs. destruct Hs as (_ & _ & _ & _ & _ & _ & _ & _ & _ & _ & _ & E & _).
      rewrite E. exact Hns. }
    pose proof (schedule_spec _ _ _ _ Hs) as Hsp.
    destruct Hsp as (Enow & _ & _ & _ & _ & _ & Emu & _ & _ & _ & _ & Est & _ & nx & _ & Htm).
    assert (Ecb2 : tm_cb tm2 = CbSched).
    { destruct (Htm k tm2 Hk2) as [[tm0 [Hn0 Hss]] | [-> _]].
      - rewrite Hk in Hn0. injection Hn0 as <-. destruct Hss as (_ & _ & _ & _ & E & _). congruence.
      - apply nth_lt in Hk. lia. }
    change (TInv (set_tm s2 k (tm_with tm2 (tm_st tm2) CbUnlock))).
    apply tinv_set_cb; try assumption; try discriminate.
    + intros _. congruence.
    + intros _. apply (iF s2 I2 k tm2 Hk2). rewrite Ecb2. discriminate.
    + intros X. pose proof (iF2 s2 I2 k tm2 Hk2 X). congruence.
  - (* schedule cannot fail inside the callback *)
    exfalso.
    match goal with E : schedule VCur s r = None |- _ => exact (schedule_cur_some s r E) end.
Qed.

Lemma no_holders_after s th p :
  TInv s -> mu s = MTh th -> th_holds p = false ->
  (forall th' p', nth_error (upd (thr s) th p) th' = Some p' -> th_holds p' = false)
  /\ (forall k tm, nth_error (timers s) k = Some tm -> cb_holds (tm_cb tm) = false).
Proof.
  intros I Hmu Hp. split.
  - intros th' p' Hn. apply nth_upd_cases in Hn. destruct Hn as [[-> ->] | [Hne Hn]]; [exact Hp|].
    destruct (th_holds p') eqn:E; [|reflexivity]. pose proof (iA1 s I th' p' Hn E) as H2.
    rewrite Hmu in H2. injection H2 as H2. congruence.
  - intros k tm Hn. destruct (cb_holds (tm_cb tm)) eqn:E; [|reflexivity].
    pose proof (iA2 s I k tm Hn E) as H2. congruence.
Qed.

Lemma tinv_TBodySched s th r s' : TInv s -> step s (TBodySched th r) = Some s' -> TInv s'.
Proof.
  intros I H. inv_step H;
  (match goal with E : nth_error (thr s) th = Some (PLocked ?o) |- _ =>
         assert (Hmu : mu s = MTh th) by (eapply (iA1 s I); [exact E | reflexivity]) end);
  (match goal with
       | E : schedule VCur _ r = Some ?x |- _ =>
           match goal with Hr : r_valid VCur _ r = true |- _ =>
             pose proof (tinv_sched _ _ _ _ _ I E Hr) as I2;
             apply tinv_set_pc; [exact I2 | | discriminate];
             intros _; simpl; apply schedule_spec in E; simpl in E;
             destruct E as (_ & _ & _ & _ & _ & _ & Emu & _); congruence
           end
       | E : schedule VCur ?x r = None |- _ =>       (* schedule() of the code in /repo never panics *)
           exfalso; exact (schedule_cur_some x r E)
       end).
Qed.

Lemma tinv_TBodyStop s th s' : TInv s -> step s (TBodyStop th) = Some s' -> TInv s'.
Proof.
  intros I H. inv_step H;
  (match goal with E : nth_error (thr s) th = Some (PLocked OStop) |- _ =>
     assert (Hmu : mu s = MTh th) by (eapply (iA1 s I); [exact E | reflexivity]) end).
  - (* t.timer != nil *)
    match goal with E : tmr s = Some ?x |- _ => rename x into k0 end.
    apply tinv_set_pc; [|intros _; exact Hmu | discriminate].
    dI I. constructor; simpl; try assumption.
    + intros k tm' Hn Hh. apply stop_timer_nth in Hn. destruct Hn as [tm [Hn (_ & _ & _ & _ & Ecb & _)]].
      rewrite Ecb in Hh. eauto.
    + intros k tm' Hn. apply stop_timer_nth in Hn. destruct Hn as [tm [Hn (Eg & _)]].
      rewrite Eg. destruct (G k tm Hn) as [Hle _]. split; [lia | intros; lia].
    + intros k tm' Hn Hc. apply stop_timer_nth in Hn. destruct Hn as [tm [Hn (_ & Edl & _ & _ & Ecb & _)]].
      rewrite Edl. rewrite Ecb in Hc. eauto.
    + intros k tm' Hn Hst. apply stop_timer_nth in Hn. destruct Hn as [tm [Hn (_ & _ & _ & _ & Ecb & Est)]].
      rewrite Ecb. eauto.
    + intros k tm' Hn Hg. apply stop_timer_nth in Hn. destruct Hn as [tm [Hn (Eg & _)]].
      rewrite Eg in Hg. destruct (G k tm Hn) as [Hle _]. lia.
    + intros _ k tm' Hn. apply stop_timer_nth in Hn. destruct Hn as [tm [Hn (Eg & _ & _ & _ & Ecb & _)]].
      rewrite Eg, Ecb. destruct (G k tm Hn) as [Hle _]. split; [lia|].
      intros Hc. assert (Hh : cb_holds (tm_cb tm) = true) by (rewrite Hc; reflexivity).
      pose proof (A2 k tm Hn Hh). congruence.
    + intros k tm' Hn. apply stop_timer_nth in Hn. destruct Hn as [tm [Hn (_ & _ & _ & _ & Ecb & _)]].
      rewrite Ecb. eauto.
  - (* t.timer == nil: nil dereference with t.m held *)
    match goal with E : tmr s = None |- _ => rename E into Htm end.
    match goal with |- TInv (set_pc (set_stopped (set_mu s MDead) true) th ?p) =>
      change (TInv (set_stopped (set_mu (set_pc s th p) MDead) true)) end.
    destruct (no_holders_after s th (PPanicked OStop) I Hmu eq_refl) as [Hh1 Hh2].
    assert (I1 : TInv (set_mu (set_pc s th (PPanicked OStop)) MDead)).
    { apply tinv_release; [|exact Hh1|exact Hh2].
      apply tinv_set_pc; [exact I | discriminate|]. intros o9 E. injection E as <-. exact Logic.I. }
    assert (HS : forall k tm, nth_error (timers s) k = Some tm -> tm_gen tm < gen s /\ tm_cb tm <> CbSched).
    { intros k tm Hn. destruct (iG s I k tm Hn) as [Hle Heq]. split.
      - destruct (Z.eq_dec (tm_gen tm) (gen s)) as [E|E]; [specialize (Heq E); congruence | lia].
      - intros Hc. pose proof (Hh2 k tm Hn) as Hx. rewrite Hc in Hx. discriminate. }
    dI I1. constructor; simpl in *; try assumption. intros _. exact HS.
Qed.

Theorem tinv_step s l s' : TInv s -> step s l = Some s' -> TInv s'.
Proof.
  intros I H. destruct l.
  - eapply tinv_LTick; eauto.
  - eapply tinv_LCall; eauto.
  - eapply tinv_LRet; eauto.
  - eapply tinv_LRecv; eauto.
  - eapply tinv_TValidate; eauto.
  - eapply tinv_TLock; eauto.
  - eapply tinv_TBodySched; eauto.
  - eapply tinv_TBodyStop; eauto.
  - eapply tinv_TUnlock; eauto.
  - eapply tinv_TFire; eauto.
  - eapply tinv_TCbLock; eauto.
  - eapply tinv_TCbSend; eauto.
  - eapply tinv_TCbSchedule; eauto.
  - eapply tinv_TCbUnlock; eauto.
Qed.

Theorem tinv_reachable n s : reachable step (tinit n) s -> TInv s.
Proof.
  apply (invariant_rule step TInv); [apply tinv_init|]. intros s0 l s1 I H. eapply tinv_step; eauto.
Qed.

(* ================= consequences ================= *)

(* --- no panic --- *)
Lemma op_bad_documented d j : 0 < d -> j < d -> bad_args d j <> true.
Proof.
  intros Hd Hj Hb. unfold bad_args in Hb. apply orb_true_iff in Hb. destruct Hb as [Hb|Hb]; zb; lia.
Qed.

(* a call panics ONLY for the documented reason (d <= 0 or jitter >= d), Stop only on a stopped/nil timer *)
Theorem ticker_panic_only_bad_args n s th o :
  reachable step (tinit n) s -> nth_error (thr s) th = Some (PPanicked o) ->
  match o with ONew d j | OReset d j => d <= 0 \/ d <= j | OStop => True end.
Proof.
  intros Hr E. pose proof (iN1 s (tinv_reachable _ _ Hr) th o E) as Hb.
  destruct o as [d j|d j|]; [| |exact Logic.I]; simpl in Hb; unfold bad_args in Hb;
    apply orb_true_iff in Hb; destruct Hb as [Hb|Hb]; zb; [left|right|left|right]; exact Hb.
Qed.

Theorem ticker_no_panic n s th d j :
  reachable step (tinit n) s ->
  0 < d -> 0 <= j < d ->
  nth_error (thr s) th <> Some (PPanicked (ONew d j))
  /\ nth_error (thr s) th <> Some (PPanicked (OReset d j))
  /\ step s (LRet th (ONew d j) RPanic) = None
  /\ step s (LRet th (OReset d j) RPanic) = None.
Proof.
  intros Hr Hd Hj. pose proof (tinv_reachable _ _ Hr) as I.
  assert (Hnb : bad_args d j <> true) by (apply op_bad_documented; lia).
  assert (H1 : nth_error (thr s) th <> Some (PPanicked (ONew d j))).
  { intros E. apply Hnb. exact (iN1 s I th _ E). }
  assert (H2 : nth_error (thr s) th <> Some (PPanicked (OReset d j))).
  { intros E. apply Hnb. exact (iN1 s I th _ E). }
  split; [exact H1|]. split; [exact H2|].
  split.
  - destruct (step s (LRet th (ONew d j) RPanic)) eqn:E; [|reflexivity]. exfalso.
    cbv beta iota zeta delta [step step_gen] in E.
    destruct (nth_error (thr s) th) as [p|] eqn:Ep; [|discriminate].
    destruct p; try discriminate. destruct (op_eqb (ONew d j) o) eqn:Eo; [|discriminate].
    destruct o; simpl in Eo; try discriminate. zb. subst. apply H1. reflexivity.
  - destruct (step s (LRet th (OReset d j) RPanic)) eqn:E; [|reflexivity]. exfalso.
    cbv beta iota zeta delta [step step_gen] in E.
    destruct (nth_error (thr s) th) as [p|] eqn:Ep; [|discriminate].
    destruct p; try discriminate. destruct (op_eqb (OReset d j) o) eqn:Eo; [|discriminate].
    destruct o; simpl in Eo; try discriminate. zb. subst. apply H2. reflexivity.
Qed.

(* the body of NewJitterTicker / Reset (set the fields, schedule()) completes normally from every state in
   which it can run, whatever d and jitter: schedule() itself has no panic left *)
Theorem ticker_body_completes s th o r s' :
  step s (TBodySched th r) = Some s' -> nth_error (thr s) th = Some (PLocked o) ->
  nth_error (thr s') th = Some (PUnlock o) /\ mu s' = mu s.
Proof.
  intros H Ho. cbv beta iota zeta delta [step step_gen] in H. rewrite Ho in H.
  destruct o as [d j|d j|]; [| |discriminate H];
    (destruct (r_valid VCur j r); [|discriminate H]);
    (destruct (schedule VCur (set_fj (set_fd s d) j) r) as [s2|] eqn:Es;
       [|exfalso; exact (schedule_cur_some _ r Es)]);
    injection H as <-; apply schedule_spec in Es; simpl in Es;
    destruct Es as (_ & _ & _ & _ & _ & _ & Emu & _ & Ethr & _ & _ & _ & _);
    (split; [|simpl; exact Emu]); simpl; rewrite Ethr;
    apply nth_error_upd_same; apply nth_error_Some; congruence.
Qed.

(* the callback goroutine never panics (it would crash the whole program), whatever was passed *)
Theorem ticker_callback_no_panic n s k tm :
  reachable step (tinit n) s -> nth_error (timers s) k = Some tm -> tm_cb tm <> CbCrashed.
Proof. intros Hr. exact (iN3 s (tinv_reachable _ _ Hr) k tm). Qed.

Definition huge_j : Z := 4611686018427387904.        (* 2^62 ns, about 146 years *)
Definition huge_d : Z := 4611686018427387905.

Definition p61 : Z := 2305843009213693952.           (* 2^61 ns *)

(* The ORIGINAL computation (next += Int63n(int64(jitter*2)) - jitter) panics for the documented pair
   (d = 2^62+1, jitter = 2^62): int64(jitter*2) wraps to -2^63 and rand.Int63n panics (with t.m held).
   The code in /repo, from the same state with the same label, completes. *)
Lemma ticker_orig_panics_refuted :
  0 < huge_d /\ 0 <= huge_j < huge_d /\ huge_d <= max_i64 /\
  (exists s, run step_orig (tinit 1) [LCall 0 (ONew huge_d huge_j); TValidate 0; TLock 0; TBodySched 0 0] = Some s
             /\ nth_error (thr s) 0 = Some (PPanicked (ONew huge_d huge_j)) /\ mu s = MDead)
  /\ (exists s, run step (tinit 1) [LCall 0 (ONew huge_d huge_j); TValidate 0; TLock 0; TBodySched 0 0] = Some s
                /\ nth_error (thr s) 0 = Some (PUnlock (ONew huge_d huge_j))
                /\ map tm_dl (timers s) = [1]).
Proof.
  split; [reflexivity|]. split; [split; [discriminate | reflexivity]|]. split; [discriminate|].
  split; eexists; (split; [vm_compute; reflexivity | split; reflexivity]).
Qed.

(* The ORIGINAL computation schedules a NEGATIVE delay for the documented pair (d = max_i64, jitter = 2^61)
   when rand.Int63n returns more than jitter (here 2^61+1: offset +1, d + 1 wraps to -2^63): the timer fires
   at once, and two consecutive ticks are 2 ns apart although d - jitter is about 219 years.  The code in
   /repo computes max_i64 (saturation) for the outcome with the same offset. *)
Definition orig_ovf_run : list lab :=
  [LCall 0 (ONew max_i64 p61); TValidate 0; TLock 0; TBodySched 0 (p61 + 1); TUnlock 0;
   LRet 0 (ONew max_i64 p61) RNormal;
   LTick 5; TFire 0; TCbLock 0; TCbSend 0; TCbSchedule 0 (p61 + 1); TCbUnlock 0; LRecv 5;
   LTick 7; TFire 1; TCbLock 1; TCbSend 1].

Lemma ticker_orig_spacing_refuted :
  0 <= p61 < max_i64 /\
  next_delay VOrig max_i64 p61 (p61 + 1) = Some (- 9223372036854775808)
  /\ r_valid VOrig p61 (p61 + 1) = true
  /\ (exists s, run step_orig (tinit 1) orig_ovf_run = Some s
                /\ sent s = [(7, max_i64, p61); (5, max_i64, p61)] /\ ~ spaced (sent s))
  /\ next_delay VCur max_i64 p61 (p61 + 1) = Some max_i64
  /\ run step (tinit 1) orig_ovf_run = None.
Proof.
  split; [split; [discriminate | reflexivity]|].
  split; [vm_compute; reflexivity|]. split; [vm_compute; reflexivity|].
  split.
  - eexists. split; [vm_compute; reflexivity|]. split; [reflexivity|].
    intros [H _]. unfold max_i64, p61 in H.
    assert (X : 9223372036854775807 - 2305843009213693952 <= 7 - 5) by (apply H; lia). lia.
  - split; vm_compute; reflexivity.
Qed.

(* the historical code (rand.Int63n called unconditionally) panics for jitter = 0; the current code does not *)
Lemma ticker_old_refuted :
  (exists s, run step_old (tinit 1) [LCall 0 (ONew 5 0); TValidate 0; TLock 0; TBodySched 0 0] = Some s
             /\ nth_error (thr s) 0 = Some (PPanicked (ONew 5 0)))
  /\ (exists s, run step (tinit 1) [LCall 0 (ONew 5 0); TValidate 0; TLock 0; TBodySched 0 0] = Some s
                /\ nth_error (thr s) 0 = Some (PUnlock (ONew 5 0))).
Proof. split; eexists; (split; [vm_compute; reflexivity | reflexivity]). Qed.

(* --- the delay handed to time.AfterFunc --- *)

(* for ALL documented int64 arguments and every outcome of the two rand draws, schedule() computes a delay
   (it does not panic) that lies in [d - jitter, math.MaxInt64]: never negative, never below d - jitter,
   and it is exactly d + offset saturated at math.MaxInt64 *)
Theorem ticker_delay_documented d j r :
  0 < d <= max_i64 -> 0 <= j < d -> r_valid VCur j r = true ->
  exists nx, next_delay VCur d j r = Some nx
             /\ d - j <= nx <= max_i64 /\ nx <= d + j /\ 0 < nx
             /\ (0 < j -> nx = Z.min (d + (r - j)) max_i64) /\ (j = 0 -> nx = d).
Proof.
  intros Hd Hj Hr. destruct (next_delay_cur_some d j r) as [nx Hn]. exists nx. split; [exact Hn|].
  destruct (next_delay_range d j r nx Hn Hr Hj (proj2 Hd)) as (H1 & H2 & H3 & H4).
  split; [split; assumption|]. split; [exact H3|]. split; [exact H4|]. split.
  - intros Hj0. pose proof (r_valid_cur_pos j r Hj0 Hr) as Hr'.
    rewrite next_delay_exact in Hn by (unfold max_i64 in *; lia). injection Hn as <-. reflexivity.
  - intros ->. rewrite next_delay_no_jitter in Hn by lia. injection Hn as <-. reflexivity.
Qed.

(* the same at the level of the state: the timer created by schedule() (it becomes t.timer) is armed for a
   deadline in [now + d - jitter, now + math.MaxInt64] *)
Theorem ticker_schedule_deadline s r s2 :
  schedule VCur s r = Some s2 -> r_valid VCur (fj s) r = true ->
  0 <= fj s < fd s -> fd s <= max_i64 ->
  exists tm, tmr s2 = Some (length (timers s)) /\ nth_error (timers s2) (length (timers s)) = Some tm
             /\ tm_st tm = TArmed /\ tm_gen tm = gen s2
             /\ now s + (fd s - fj s) <= tm_dl tm <= now s + max_i64.
Proof.
  intros Hs Hr Hj Hd. destruct (schedule_inv _ _ _ _ Hs) as [nx [tms1 [Hnx [Hlen [_ ->]]]]].
  exists (new_timer s nx). simpl. rewrite Hlen.
  split; [reflexivity|]. split; [rewrite <- Hlen, nth_error_app2, Nat.sub_diag by lia; reflexivity|].
  split; [reflexivity|]. split; [reflexivity|].
  destruct (next_delay_range _ _ _ _ Hnx Hr Hj Hd) as (H1 & H2 & _). lia.
Qed.

(* --- spacing --- *)
Theorem ticker_spacing n s : reachable step (tinit n) s -> spaced (sent s).
Proof. intros Hr. exact (iT4 s (tinv_reachable _ _ Hr)). Qed.

(* what receivers get from C is exactly the sequence of ticks sent, in order (newest first, the
   buffered one if any in front) *)
Theorem ticker_received_are_sent n s :
  reachable step (tinit n) s -> map tick_ts (sent s) = optl (buf s) ++ recvd s.
Proof. intros Hr. exact (iR s (tinv_reachable _ _ Hr)). Qed.

(* unfolded for two adjacent ticks *)
Corollary ticker_spacing_adjacent n s t2 d2 j2 t1 d1 j1 pre post :
  reachable step (tinit n) s -> sent s = pre ++ (t2, d2, j2) :: (t1, d1, j1) :: post ->
  0 <= j2 < d2 -> d2 <= max_i64 -> d2 - j2 <= t2 - t1.
Proof.
  intros Hr Hs. pose proof (ticker_spacing _ _ Hr) as Hsp. rewrite Hs in Hsp. clear Hs Hr.
  induction pre as [|[[t d] j] pre IH]; simpl in Hsp.
  - destruct Hsp as [H _]. exact H.
  - destruct (pre ++ (t2, d2, j2) :: (t1, d1, j1) :: post) as [|[[t' d'] j'] tl] eqn:E.
    + destruct pre; discriminate.
    + apply IH. exact (proj2 Hsp).
Qed.

(* --- no tick after Stop --- *)
Lemma step_sent s l s' :
  step s l = Some s' ->
  sent s' = sent s \/ exists k tm, l = TCbSend k /\ nth_error (timers s) k = Some tm /\ gen s = tm_gen tm.
Proof.
  intros H. destruct l; inv_step H; simpl; try (left; reflexivity).
  - left. match goal with E : schedule VCur _ _ = Some _ |- _ => apply schedule_spec in E; simpl in E;
            destruct E as (_ & _ & _ & _ & _ & _ & _ & _ & _ & E & _); exact E end.
  - left. match goal with E : schedule VCur _ _ = Some _ |- _ => apply schedule_spec in E; simpl in E;
            destruct E as (_ & _ & _ & _ & _ & _ & _ & _ & _ & E & _); exact E end.
  - right. zb. eauto.
  - left. match goal with E : schedule VCur _ _ = Some _ |- _ => apply schedule_spec in E; simpl in E;
            destruct E as (_ & _ & _ & _ & _ & _ & _ & _ & _ & E & _); exact E end.
Qed.

Lemma step_stopped s l s' :
  step s l = Some s' ->
  match l with
  | TBodyStop _ => stopped s' = true
  | TBodySched _ _ => True
  | _ => stopped s' = stopped s
  end.
Proof.
  intros H. destruct l; inv_step H; simpl; try reflexivity; try exact Logic.I.
  match goal with E : schedule VCur _ _ = Some _ |- _ => apply schedule_spec in E; simpl in E;
    destruct E as (_ & _ & _ & _ & _ & _ & _ & _ & _ & _ & _ & E & _); exact E end.
Qed.

Lemma stopped_no_send s l s' :
  TInv s -> stopped s = true -> step s l = Some s' -> sent s' = sent s.
Proof.
  intros I Hs H. destruct (step_sent _ _ _ H) as [E | [k [tm [_ [Hk Hg]]]]]; [exact E|].
  destruct (iS s I Hs k tm Hk) as [Hlt _]. lia.
Qed.

Definition no_sched_body (ls : list lab) : bool := forallb (fun l => negb (is_sched_body l)) ls.

Lemma stopped_run ls : forall s s',
  TInv s -> stopped s = true -> run step s ls = Some s' -> no_sched_body ls = true ->
  sent s' = sent s /\ stopped s' = true /\ TInv s'.
Proof.
  induction ls as [|l ls IH]; intros s s' I Hs Hrun Hno; simpl in Hrun.
  - injection Hrun as <-. split; [reflexivity | split; assumption].
  - destruct (step s l) as [s1|] eqn:E; [|discriminate].
    simpl in Hno. apply andb_true_iff in Hno. destruct Hno as [Hl Hno].
    assert (Hs1 : stopped s1 = true).
    { pose proof (step_stopped _ _ _ E) as Hx. destruct l; try congruence. discriminate Hl. }
    destruct (IH s1 s' (tinv_step _ _ _ I E) Hs1 Hrun Hno) as [H1 [H2 H3]].
    split; [rewrite H1; eapply stopped_no_send; eauto|]. split; assumption.
Qed.

Theorem ticker_no_tick_after_stop n ls1 th ls2 s1 s2 :
  run step (tinit n) (ls1 ++ [TBodyStop th]) = Some s1 ->
  run step s1 ls2 = Some s2 ->
  no_sched_body ls2 = true ->
  sent s2 = sent s1 /\ stopped s2 = true
  /\ (forall l s3, step s2 l = Some s3 -> sent s3 = sent s2).
Proof.
  intros H1 H2 Hno. rewrite run_app in H1.
  destruct (run step (tinit n) ls1) as [s0|] eqn:E0; [|discriminate]. cbn [run] in H1.
  destruct (step s0 (TBodyStop th)) as [s1'|] eqn:E1; [|discriminate]. injection H1 as <-.
  assert (I0 : TInv s0) by (apply (tinv_reachable n); exists ls1; exact E0).
  pose proof (tinv_step _ _ _ I0 E1) as I1.
  pose proof (step_stopped _ _ _ E1) as Hs1. simpl in Hs1.
  destruct (stopped_run ls2 s1' s2 I1 Hs1 H2 Hno) as [Ha [Hb Hc]].
  split; [exact Ha|]. split; [exact Hb|].
  intros l s3 H3. eapply stopped_no_send; eauto.
Qed.

(* Stop returns only after its critical section: a goroutine whose Stop call is past the body got
   there through a [TBodyStop] step of its own *)
Definition stop_post (ths : list tpc) (th : nat) : Prop :=
  nth_error ths th = Some (PUnlock OStop) \/ nth_error ths th = Some (PReturning OStop).

Lemma step_stop_post s l s' th :
  step s l = Some s' -> stop_post (thr s') th -> stop_post (thr s) th \/ l = TBodyStop th.
Proof.
  intros H Hp. unfold stop_post in *.
  destruct l; inv_step H; simpl in Hp;
    try (left; exact Hp);
    try (match goal with E : schedule VCur _ _ = Some _ |- _ => apply schedule_spec in E; simpl in E;
           destruct E as (_ & _ & _ & _ & _ & _ & _ & _ & E & _); try rewrite E in Hp end);
    try (left; exact Hp);
    try (destruct Hp as [Hp|Hp]; apply nth_upd_cases in Hp; destruct Hp as [[-> Hp] | [_ Hp]];
         try discriminate Hp; try (left; left; exact Hp); try (left; right; exact Hp);
         try (right; reflexivity)).
  all: try (injection Hp as <-; left; left; assumption).
Qed.

Theorem stop_return_follows_body n ls : forall s th,
  run step (tinit n) ls = Some s -> stop_post (thr s) th ->
  exists ls1 ls2, ls = ls1 ++ TBodyStop th :: ls2.
Proof.
  induction ls as [|l ls IH] using rev_ind; intros s th Hrun Hp.
  - simpl in Hrun. injection Hrun as <-. exfalso. unfold stop_post, tinit in Hp. simpl in Hp.
    destruct Hp as [Hp|Hp]; apply nth_error_In in Hp; apply repeat_spec in Hp; discriminate.
  - rewrite run_app in Hrun. destruct (run step (tinit n) ls) as [s0|] eqn:E0; [|discriminate].
    cbn [run] in Hrun. destruct (step s0 l) as [s1|] eqn:E1; [|discriminate]. injection Hrun as <-.
    destruct (step_stop_post _ _ _ _ E1 Hp) as [Hp0 | ->].
    + destruct (IH s0 th eq_refl Hp0) as [ls1 [ls2 ->]]. exists ls1, (ls2 ++ [l]).
      rewrite <- app_assoc. reflexivity.
    + exists ls, []. reflexivity.
Qed.

(* non-vacuity: NewJitterTicker, two ticks, a Reset and a Stop that both race a timer whose callback has
   already started (the stale callbacks see a different gen and send nothing) *)
Definition example_run : list lab :=
  [LCall 0 (ONew 100 10); TValidate 0; TLock 0; TBodySched 0 3; TUnlock 0; LRet 0 (ONew 100 10) RNormal;
   LTick 95; TFire 0; TCbLock 0; TCbSend 0; TCbSchedule 0 19; TCbUnlock 0; LRecv 95;
   LTick 204; TFire 1; LCall 1 (OReset 50 0); TValidate 1; TLock 1; TBodySched 1 0; TUnlock 1;
   LRet 1 (OReset 50 0) RNormal; TCbLock 1; TCbSend 1; TCbUnlock 1;
   LTick 260; TFire 2; TCbLock 2; TCbSend 2; TCbSchedule 2 0; TCbUnlock 2;
   LTick 310; TFire 3; LCall 0 OStop; TValidate 0; TLock 0; TBodyStop 0; TUnlock 0; LRet 0 OStop RNormal;
   TCbLock 3; TCbSend 3; TCbUnlock 3; LRecv 260].

Example ticker_runs :
  exists s, run step (tinit 2) example_run = Some s
            /\ sent s = [(260, 50, 0); (95, 100, 10)] /\ recvd s = [260; 95] /\ buf s = None
            /\ stopped s = true /\ gen s = 5 /\ mu s = MFree /\ length (timers s) = 4%nat.
Proof. eexists. split; [vm_compute; reflexivity|]. repeat split. Qed.

(* non-vacuity for the huge documented arguments: NewJitterTicker(2^62+1, 2^62) with the smallest offset
   (delay 1), a tick, a reschedule with the largest offset (d + jitter - 1 = 2^63 saturates to MaxInt64), a
   Reset(MaxInt64, 2^61) with offset +1 (saturates) - nothing panics, deadlines are never in the past *)
Definition huge_run : list lab :=
  [LCall 0 (ONew huge_d huge_j); TValidate 0; TLock 0; TBodySched 0 0; TUnlock 0;
   LRet 0 (ONew huge_d huge_j) RNormal;
   LTick 1; TFire 0; TCbLock 0; TCbSend 0; TCbSchedule 0 (2 * huge_j - 1); TCbUnlock 0; LRecv 1;
   LCall 0 (OReset max_i64 p61); TValidate 0; TLock 0; TBodySched 0 (p61 + 1); TUnlock 0;
   LRet 0 (OReset max_i64 p61) RNormal;
   LTick (1 + max_i64); TFire 2; TCbLock 2; TCbSend 2; TCbSchedule 2 0; TCbUnlock 2].

Example ticker_huge_runs :
  (exists s, run step (tinit 1) huge_run = Some s
             /\ sent s = [(1 + max_i64, max_i64, p61); (1, huge_d, huge_j)]
             /\ map tm_dl (timers s) = [1; 1 + max_i64; 1 + max_i64; 1 + max_i64 + (max_i64 - p61)]
             /\ map tm_st (timers s) = [TFired; TIdle; TFired; TArmed]
             /\ mu s = MFree /\ thr s = [PIdle])
  /\ next_delay VCur max_i64 p61 0 = Some (max_i64 - p61)
  /\ next_delay VCur max_i64 p61 (p61 + 1) = Some max_i64
  /\ next_delay VCur max_i64 p61 (2 * p61 - 1) = Some max_i64
  /\ next_delay VCur max_i64 p61 p61 = Some max_i64
  /\ next_delay VCur huge_d huge_j 0 = Some 1
  /\ next_delay VCur huge_d huge_j huge_j = Some huge_d
  /\ next_delay VCur huge_d huge_j (2 * huge_j - 1) = Some max_i64
  /\ r_valid VCur huge_j (2 * huge_j - 1) = true /\ r_valid VCur huge_j (2 * huge_j) = false
  /\ r_valid VCur p61 (2 * p61 - 1) = true /\ r_valid VCur 0 0 = true /\ r_valid VCur 0 1 = false.
Proof.
  split; [eexists; split; [vm_compute; reflexivity | repeat split]|].
  repeat split; vm_compute; reflexivity.
Qed.

(* the numbering of the two draws: jitter = 10, outcome 3 is (magnitude 6, sign 1) = offset -7; outcome 19 is
   (magnitude 9, sign 0) = offset +9; outcome 0 is offset -10, outcome 10 is offset 0 *)
Example draws_examples :
  draws 10 3 = (6, true) /\ jitter_offset 6 true = -7 /\ draws 10 19 = (9, false) /\ jitter_offset 9 false = 9
  /\ draws 10 0 = (9, true) /\ jitter_offset 9 true = -10 /\ draws 10 10 = (0, false)
  /\ next_delay VCur 100 10 3 = Some 93 /\ next_delay VCur 100 10 19 = Some 109
  /\ next_delay VCur 100 0 0 = Some 100.
Proof. repeat split; vm_compute; reflexivity. Qed.

(* the guided matcher explores runs of the model only *)
Lemma mstep_sound s pend l s' pend' : mstep (s, pend) l = Some (s', pend') -> step s l = Some s'.
Proof.
  unfold mstep. intros H.
  destruct l;
    try (destruct (step s _) as [s1|] eqn:E; [simpl in H; injection H as <- _; reflexivity | discriminate H]).
  - destruct (mu s); try discriminate H;
      (destruct (step s (LTick t)) as [s1|] eqn:E; [simpl in H; injection H as <- _; reflexivity | discriminate H]).
  - destruct pend as [|v' pend0]; [discriminate H|]. destruct (v =? v'); [|discriminate H].
    destruct (step s (LRecv v)) as [s1|] eqn:E; [simpl in H; injection H as <- _; reflexivity | discriminate H].
  - destruct pend as [|v' pend0]; [discriminate H|]. destruct (now s =? v'); [|discriminate H].
    destruct (step s (TFire k)) as [s1|] eqn:E; [simpl in H; injection H as <- _; reflexivity | discriminate H].
Qed.
