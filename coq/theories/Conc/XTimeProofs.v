(* C20 — proofs about the models of xtime.SleepContext and xtime.JitterTicker (Conc/XTime.v).
   Stdlib only, no axioms. *)
From Juniper Require Import Common.Base Conc.GoLTS Conc.XTime.
From Coq Require Import Arith PeanoNat.
Local Open Scope Z_scope.

(* boolean comparisons in hypotheses -> propositions *)
Ltac zb :=
  repeat match goal with
  | H : (_ <=? _) = true |- _ => apply Z.leb_le in H
  | H : (_ <=? _) = false |- _ => apply Z.leb_gt in H
  | H : (_ <? _) = true |- _ => apply Z.ltb_lt in H
  | H : (_ <? _) = false |- _ => apply Z.ltb_ge in H
  | H : (_ =? _) = true |- _ => apply Z.eqb_eq in H
  | H : (_ =? _) = false |- _ => apply Z.eqb_neq in H
  | H : (_ && _) = true |- _ => apply andb_true_iff in H; destruct H
  | H : (_ || _) = false |- _ => apply orb_false_iff in H; destruct H
  | H : negb _ = true |- _ => apply negb_true_iff in H
  | H : negb _ = false |- _ => apply negb_false_iff in H
  end.

(* case analysis on every match / if in the hypothesis H : <step function> = Some s' *)
Ltac dmatch H :=
  repeat match type of H with
  | context [match ?x with _ => _ end] => destruct x eqn:?; try discriminate H
  end.

(* ================================================================================ *)
(* Part 1 — SleepContext                                                            *)
(* ================================================================================ *)

(* ---- the decision function ---- *)

Lemma sleep_decide_nonpos d dl nw : d <= 0 -> sleep_decide false d dl nw = Some SNil.
Proof. intros H. unfold sleep_decide. destruct (d <=? 0) eqn:E; [reflexivity|]. zb. lia. Qed.

Lemma sleep_decide_toosoon d dl nw :
  0 < d -> (sleep_decide false d dl nw = Some STooSoon <-> exists x, dl = Some x /\ x - nw < d).
Proof.
  intros Hd. unfold sleep_decide. destruct (d <=? 0) eqn:E; zb; [lia|].
  destruct dl as [x|].
  - destruct (x - nw <? d) eqn:E2; zb; split.
    + intros _. exists x. split; [reflexivity | lia].
    + reflexivity.
    + discriminate.
    + intros [y [Hy Hlt]]. injection Hy as <-. lia.
  - split; [discriminate|]. intros [y [Hy _]]. discriminate.
Qed.

Lemma sleep_decide_wait d dl nw :
  0 < d -> (sleep_decide false d dl nw = None <-> (dl = None \/ exists x, dl = Some x /\ d <= x - nw)).
Proof.
  intros Hd. unfold sleep_decide. destruct (d <=? 0) eqn:E; zb; [lia|].
  destruct dl as [x|].
  - destruct (x - nw <? d) eqn:E2; zb; split.
    + discriminate.
    + intros [Hn | [y [Hy Hle]]]; [discriminate | injection Hy as <-; lia].
    + intros _. right. exists x. split; [reflexivity | lia].
    + reflexivity.
  - split; [intros _; left; reflexivity | reflexivity].
Qed.

(* only three outcomes: nil (d <= 0), DeadlineTooSoonError, or go on to wait *)
Lemma sleep_decide_range d dl nw r :
  sleep_decide false d dl nw = Some r -> (r = SNil /\ d <= 0) \/ (r = STooSoon /\ 0 < d).
Proof.
  unfold sleep_decide. destruct (d <=? 0) eqn:E; zb.
  - intros H. injection H as <-. left. split; [reflexivity | lia].
  - destruct dl as [x|]; [|discriminate].
    destruct (x - nw <? d); [|discriminate]. intros H. injection H as <-. right. split; [reflexivity | lia].
Qed.

(* the historical (inverted) test gets both directions wrong *)
Lemma sleep_old_refuted :
  sleep_decide true 1 (Some (0 + 1000)) 0 = Some STooSoon /\ sleep_decide false 1 (Some (0 + 1000)) 0 = None
  /\ sleep_decide true 1000 (Some (0 + 1)) 0 = None /\ sleep_decide false 1000 (Some (0 + 1)) 0 = Some STooSoon
  /\ (exists s, run sstep_old (sinit 1 (Some 1000) 0) [SLCall; STDecide; SLRet STooSoon] = Some s
                /\ spc_ s = SDone STooSoon /\ snow s = 0)
  /\ (exists s, run sstep_old (sinit 1000 (Some 1) 0)
                    [SLCall; STDecide; STArm; STPark; SLTick 1; STExpire; SLRet (SErr EDeadline)] = Some s
                /\ spc_ s = SDone (SErr EDeadline)).
Proof.
  repeat split; try (vm_compute; reflexivity).
  - eexists. split; [vm_compute; reflexivity|]. split; reflexivity.
  - eexists. split; [vm_compute; reflexivity|]. reflexivity.
Qed.

(* ---- the invariant of the LTS ---- *)

(* "not too soon" / "too soon" at the clock value read by time.Until *)
Definition nts (s : sst) : Prop := match s_dl s with Some x => s_d s <= x - stdec s | None => True end.
Definition tsoon (s : sst) : Prop := exists x, s_dl s = Some x /\ x - stdec s < s_d s.

Definition ret_ok (s : sst) (r : sres) : Prop :=
  match r with
  | SNil => (s_d s <= 0 /\ stm s = TmNone) \/ (0 < s_d s /\ sstart s + s_d s <= snow s /\ nts s)
  | STooSoon => 0 < s_d s /\ tsoon s /\ stm s = TmNone
  | SErr e => 0 < s_d s /\ sctx s = CDone e /\ nts s
  end.

Definition decided (s : sst) : Prop := sstart s <= stdec s <= snow s.

Definition pc_ok (s : sst) : Prop :=
  match spc_ s with
  | SIdle => stm s = TmNone
  | SCalled => stm s = TmNone /\ sstart s <= snow s
  | SArm => stm s = TmNone /\ 0 < s_d s /\ nts s /\ decided s
  | SSelect => 0 < s_d s /\ nts s /\ decided s
               /\ (stm s = TmFired /\ sstart s + s_d s <= snow s \/ exists x, stm s = TmArmed x /\ sstart s + s_d s <= x)
  | SParked => 0 < s_d s /\ nts s /\ decided s
               /\ (exists x, stm s = TmArmed x /\ sstart s + s_d s <= x) /\ (forall e, sctx s <> CDone e)
  | SReturning r | SDone r => ret_ok s r /\ decided s
  end.

Definition SInv (d : Z) (dl : option Z) (s : sst) : Prop := s_d s = d /\ s_dl s = dl /\ pc_ok s.

Lemma sres_eqb_eq a b : sres_eqb a b = true -> a = b.
Proof. destruct a as [| |[|]], b as [| |[|]]; simpl; intros H; try discriminate; reflexivity. Qed.

Lemma sinv_init d dl n0 : SInv d dl (sinit d dl n0).
Proof. repeat split. Qed.

Lemma sleep_decide_some_inv d dl nw r :
  sleep_decide false d dl nw = Some r ->
  (r = SNil /\ d <= 0) \/ (r = STooSoon /\ 0 < d /\ exists x, dl = Some x /\ x - nw < d).
Proof.
  intros H. destruct (sleep_decide_range _ _ _ _ H) as [[-> Hd] | [-> Hd]].
  - left. split; [reflexivity | exact Hd].
  - right. split; [reflexivity|]. split; [exact Hd|]. apply sleep_decide_toosoon; assumption.
Qed.

Lemma sleep_decide_none_inv d dl nw :
  sleep_decide false d dl nw = None -> 0 < d /\ match dl with Some x => d <= x - nw | None => True end.
Proof.
  intros H. assert (Hd : 0 < d).
  { destruct (Z_lt_le_dec 0 d) as [Hlt|Hle]; [exact Hlt|]. rewrite sleep_decide_nonpos in H by exact Hle. discriminate. }
  split; [exact Hd|]. apply sleep_decide_wait in H; [|exact Hd].
  destruct H as [-> | [x [-> Hle]]]; [exact I | exact Hle].
Qed.

Ltac sfin :=
  repeat match goal with
  | H : sres_eqb _ _ = true |- _ => apply sres_eqb_eq in H; subst
  | H : sleep_decide false _ _ _ = Some _ |- _ => apply sleep_decide_some_inv in H; destruct H as [[-> ?] | [-> [? ?]]]
  | H : sleep_decide false _ _ _ = None |- _ => apply sleep_decide_none_inv in H
  | H : exists _, _ |- _ => destruct H
  | H : _ /\ _ |- _ => destruct H
  | H : Some _ = Some _ |- _ => injection H as H; subst
  | H : TmArmed _ = TmArmed _ |- _ => injection H as H; subst
  | H : _ \/ _ |- _ => destruct H
  end; simpl;
  try solve [intuition (subst; try lia; try congruence; try discriminate; eauto)];
  try solve [repeat split; try lia; try tauto; try discriminate;
             try (right; eexists; split; [reflexivity|lia]); try (left; split; [reflexivity|lia]);
             try (eexists; split; [reflexivity|lia])].

Lemma sinv_step d dl s l s' : SInv d dl s -> sstep s l = Some s' -> SInv d dl s'.
Proof.
  intros [Hd [Hdl Hpc]] Hstep.
  destruct s as [d0 dl0 nw cx tm pc st0 td]. simpl in Hd, Hdl. subst d0 dl0.
  unfold pc_ok in Hpc. simpl in Hpc.
  destruct pc as [| | | | |r|r]; try destruct r as [| |e]; destruct dl as [x|];
  destruct l; unfold sstep, sstep_gen, ctx_done_eff, with_pc, with_tm, with_ctx in Hstep; simpl in Hstep;
    dmatch Hstep; try discriminate Hstep; injection Hstep as <-; zb;
    (split; [reflexivity|]); (split; [reflexivity|]);
    unfold pc_ok, ret_ok, nts, tsoon, decided in *; simpl in *; sfin.
Qed.

Lemma sinv_reachable d dl n0 s : reachable sstep (sinit d dl n0) s -> SInv d dl s.
Proof.
  apply (invariant_rule sstep (SInv d dl)); [apply sinv_init|].
  intros s0 l s1 Hi Hs. eapply sinv_step; eauto.
Qed.

(* what a return value of SleepContext means, over every reachable state of every scenario
   (any d, any deadline, any cancellation time, any clock behaviour) *)
Theorem sleep_returns d dl n0 s r :
  reachable sstep (sinit d dl n0) s ->
  (spc_ s = SReturning r \/ spc_ s = SDone r) ->
  (* time.Until was evaluated during the call *)
  sstart s <= stdec s <= snow s
  (* d <= 0: nil, and no timer was ever created *)
  /\ (d <= 0 -> r = SNil /\ stm s = TmNone)
  (* DeadlineTooSoonError exactly when the deadline was closer than d; no timer was created *)
  /\ (0 < d -> (r = STooSoon <-> exists x, dl = Some x /\ x - stdec s < d))
  /\ (r = STooSoon -> stm s = TmNone)
  (* nil only after at least d *)
  /\ (r = SNil -> 0 < d -> sstart s + d <= snow s)
  (* the context's error only if the context has ended, and it is that context's error *)
  /\ (forall e, r = SErr e -> sctx s = CDone e).
Proof.
  intros Hr Hpc. destruct (sinv_reachable _ _ _ _ Hr) as [Hd [Hdl Hok]].
  unfold pc_ok in Hok.
  assert (Hret : ret_ok s r /\ decided s) by (destruct Hpc as [E|E]; rewrite E in Hok; exact Hok).
  clear Hok Hpc. destruct Hret as [Hret Hdec]. unfold decided in Hdec.
  unfold ret_ok, nts, tsoon in Hret. rewrite Hd, Hdl in *.
  split; [exact Hdec|].
  destruct r as [| |e].
  - destruct Hret as [[H1 H2] | [H1 [H2 H3]]].
    + split; [intros _; split; [reflexivity | exact H2]|].
      split; [intros; lia|]. split; [discriminate|]. split; [intros; lia | discriminate].
    + split; [intros; lia|]. split.
      * intros _. split; [discriminate|]. intros [x [-> Hlt]]. lia.
      * split; [discriminate|]. split; [intros; exact H2 | discriminate].
  - destruct Hret as [H1 [[x [H2 H3]] H4]].
    split; [intros; lia|]. split; [intros _; split; [intros _; exists x; split; assumption | reflexivity]|].
    split; [intros _; exact H4|]. split; [discriminate | discriminate].
  - destruct Hret as [H1 [H2 H3]].
    split; [intros; lia|]. split.
    + intros _. split; [discriminate|]. intros [x [-> Hlt]]. lia.
    + split; [discriminate|]. split; [discriminate|]. intros e0 He. injection He as <-. exact H2.
Qed.

(* the checks at the top of SleepContext are one step and follow the decision function: the call
   returns "at once" (no timer, no select) exactly in the cases the decision function names *)
Theorem sleep_decides_at_once s :
  spc_ s = SCalled ->
  exists s', sstep s STDecide = Some s'
             /\ spc_ s' = match sleep_decide false (s_d s) (s_dl s) (snow s) with
                          | Some r => SReturning r
                          | None => SArm
                          end
             /\ stm s' = stm s /\ snow s' = snow s.
Proof.
  intros Hpc. unfold sstep, sstep_gen. rewrite Hpc. eexists. split; [reflexivity|].
  simpl. repeat split.
Qed.

(* while the call waits, its timer is pending for a deadline >= start + d (so it may fire as soon as
   the clock has advanced by d), or has fired *)
Theorem sleep_waiting_timer d dl n0 s :
  reachable sstep (sinit d dl n0) s ->
  (spc_ s = SSelect \/ spc_ s = SParked) ->
  0 < d /\ (stm s = TmFired \/ exists x, stm s = TmArmed x /\ sstart s + d <= x).
Proof.
  intros Hr Hpc. destruct (sinv_reachable _ _ _ _ Hr) as [Hd [Hdl Hok]].
  unfold pc_ok in Hok. rewrite Hd in *.
  destruct Hpc as [E|E]; rewrite E in Hok.
  - destruct Hok as [H1 [_ [_ H4]]]. split; [exact H1|].
    destruct H4 as [[Hf _] | Hx]; [left; exact Hf | right; exact Hx].
  - destruct Hok as [H1 [_ [_ [Hx _]]]]. split; [exact H1 | right; exact Hx].
Qed.

Definition timer_due (s : sst) : Prop :=
  stm s = TmFired \/ exists x, stm s = TmArmed x /\ x <= snow s.
Definition ctx_ended (s : sst) : Prop := exists e, sctx s = CDone e.

(* progress: a pending call always has an enabled step of its own goroutine / timer, except while it
   waits in the select with neither the timer due nor the context ended *)
Theorem sleep_progress d dl n0 s :
  reachable sstep (sinit d dl n0) s ->
  spc_ s <> SIdle -> (forall r, spc_ s <> SDone r) ->
  ((spc_ s = SSelect \/ spc_ s = SParked) -> timer_due s \/ ctx_ended s) ->
  exists l, In l s_call_labels /\ senabled s l = true.
Proof.
  intros Hr Hni Hnd Hw. destruct (sinv_reachable _ _ _ _ Hr) as [_ [_ Hok]].
  unfold pc_ok in Hok. unfold senabled, sstep, sstep_gen, timer_due, ctx_ended, s_call_labels in *.
  destruct (spc_ s) as [| | | | |r|r] eqn:Epc.
  - congruence.
  - exists STDecide. split; [simpl; tauto|]. reflexivity.
  - exists STArm. split; [simpl; tauto|]. reflexivity.
  - destruct (Hw (or_introl eq_refl)) as [[Hf | [x [Ha Hle]]] | [e He]].
    + exists STSelTimer. split; [simpl; tauto|]. rewrite Hf. reflexivity.
    + exists STFire. split; [simpl; tauto|]. rewrite Ha.
      destruct (x <=? snow s) eqn:E; [reflexivity | zb; lia].
    + exists STSelCtx. split; [simpl; tauto|]. rewrite He. reflexivity.
  - destruct Hok as [_ [_ [_ [[x [Ha _]] Hnc]]]].
    destruct (Hw (or_intror eq_refl)) as [[Hf | [y [Ha' Hle]]] | [e He]].
    + congruence.
    + exists STFire. split; [simpl; tauto|]. rewrite Ha'.
      destruct (y <=? snow s) eqn:E; [reflexivity | zb; lia].
    + exfalso. exact (Hnc e He).
  - exists (SLRet r). split; [destruct r as [| |[|]]; simpl; tauto|].
    assert (E : sres_eqb r r = true) by (destruct r as [| |[|]]; reflexivity). rewrite E. reflexivity.
  - exfalso. exact (Hnd r eq_refl).
Qed.

(* non-vacuity: the model runs a full sleep, a DeadlineTooSoonError, a mid-sleep cancellation and a
   deadline expiry *)
Example sleep_runs :
  (exists s, run sstep (sinit 1000 (Some 5000) 0)
               [SLTick 10; SLCall; STDecide; STArm; STPark; SLTick 1010; STFire; SLRet SNil] = Some s
             /\ spc_ s = SDone SNil /\ sstart s = 10 /\ snow s = 1010)
  /\ (exists s, run sstep (sinit 1000 (Some 500) 0) [SLCall; STDecide; SLRet STooSoon] = Some s
                /\ spc_ s = SDone STooSoon)
  /\ (exists s, run sstep (sinit 1000 None 0)
                  [SLCall; STDecide; STArm; STPark; SLTick 300; SLCancel; STCancelEff; SLRet (SErr ECanceled)] = Some s
                /\ spc_ s = SDone (SErr ECanceled))
  /\ (exists s, run sstep (sinit 1000 (Some 1500) 0)
                  [SLTick 100; SLCall; STDecide; STArm; SLTick 1500; STExpire; STSelCtx; SLRet (SErr EDeadline)] = Some s
                /\ spc_ s = SDone (SErr EDeadline))
  /\ (exists s, run sstep (sinit 0 None 0) [SLCall; STDecide; SLRet SNil] = Some s /\ spc_ s = SDone SNil).
Proof.
  repeat split; eexists; (split; [vm_compute; reflexivity|]); repeat split.
Qed.
